import Vata.Lang
import Vata.Incl
import Vata.UpCert
import Vata.DownCert
import Vata.Proofs.InclUp
import Vata.Proofs.InclUpTotal
import Vata.Proofs.Sanitize
import Vata.Proofs.SimModel
import Vata.Proofs.InclDown
import Vata.Proofs.InclDownInv
import Vata.Proofs.InclDownTotal
import Vata.Proofs.InclUpSim
import Vata.Proofs.InclUpSimInv
import Vata.Proofs.InclUpSimTotal
import Vata.Properties.Dispatch
/-!
# C01 – Explicit tree-automata inclusion is exact under every algorithm selection

> For any two explicit tree automata A and B over a ranked alphabet, the inclusion check returns true exactly when every
> tree accepted by A is also accepted by B.  This holds for every implemented parameter selection (upward; downward
> non-recursive; downward recursive with or without the implication cache; each with or without a simulation preorder
> computed on the disjoint union of the prepared operands), and therefore all selections return the same verdict on the
> same pair.

## How the statement is read into the model

* **Specification (L0).**  `accepts A t` (`Vata/Basic.lean`) is the run semantics of a tree automaton `A : TA`;
  `Incl A B := ∀ t, accepts A t = true → accepts B t = true` (`Vata/Lang.lean`) is "every tree accepted by `A` is also
  accepted by `B`".
* **Reference (oracle of the check).**  `inclM A B fuel` (profile saturation over both automata, `Vata/Lang.lean`) and
  the older two-automata version `inclRef` (`Vata/Basic.lean`).  They are what the verdicts of *all eight* parameter
  selections of the real `CheckInclusion` are compared with; `C01_reference_exact` says that every verdict of the
  reference is the truth, so a disagreement of any selection with it is a failing input.
* **Model of the code, upward.**  `checkInclUp A B fuel` (`Vata/InclUp.lean`) mirrors `CheckInclusion` for the selection
  *upward, no simulation*: `SanitizeAutsForInclusion` (= `removeUseless` on both operands) followed by the work-list /
  antichain exploration `InclUp.run` of `ExplicitUpwardInclusion::checkInternal`; `inclUp` is the exploration alone (on
  operands the caller has trimmed).  `none` means "fuel exhausted / internal check failed", it is never a verdict.
* **Model of the code, upward with simulation** (`Vata/InclUpSim.lean`).  `InclUpSim.run R A B fuel` mirrors the same
  `checkInternal` for a relation `R` (`ANTICHAINS_UP_SIM`): macro-states minimised through `ind`/`inv` (states simulated by
  another member are dropped), a pair `(q, S)` skipped when a state of `S` simulates `q` (`checkIntersection(ind[q], S)`),
  `contains`/`refine` modulo the relation (`(p, P)` subsumes `(q, S)` when `q ≼ p` and every state of `P` is simulated by
  a state of `S`).  `inclUpSim A B R fuel` ends certify-then-trust: a `true` only after `R` has been validated (`isUpSimB`
  on `unionDisjoint A B`, disjoint operands) and the final antichain has passed `upCertSimB A B R`; a `false` only with
  a checked tree.  `checkInclUpSim A B fuel` is the command-line `CheckInclusion`: `sanitize`, the greatest upward
  simulation `upSimRef` of the disjoint union of the prepared operands, then the pruned exploration (the library entry
  point passes the caller's operands and relation through, `C01_dispatch` item 4).
* **Models of the code, downward** (`Vata/InclDown.lean`).  `InclDown.run o A B fuel` mirrors the recursive algorithm
  (`CheckDownwardTreeInclusion` with `DownwardInclusionFunctor::expand`: work-set, `childrenCache`, the antichain
  `nonincluded`, phase 1 "a positionwise bigger tuple", then the choice functions), `InclDown.runN o A B fuel` the
  non-recursive one (`ExplicitDownwardInclusion::expand`, the call emulator rendered by recursion with the same order of
  tests and the same caching discipline).  Both are parametrised by a preorder `o : InclDown.Ord` used for pruning;
  `idOrd` gives the `NOSIM` selections, `ordOf R A B` the `SIM` selections for a relation `R` on the disjoint union.
  Every run ends *certify-then-trust*: `true` is returned only with the collected set `X` of pairs after the Boolean check
  `downCertB` / `downCertRB` (the hypotheses of `down_cert_incl` / `down_certR_incl`), `false` only with a tree after the
  check `accepts A w && !accepts B w`.  The verdict functions are `inclDownRec`, `inclDownNonrec`, `inclDownSim`,
  `inclDownNonrecSim` (the exploration on operands the caller has prepared; the `Sim` variants first *validate* the given
  relation: `isDownSimB (unionDisjoint A B) R` and disjoint operands, otherwise `none`) and `checkInclDownRec`,
  `checkInclDownNonrec` (= `CheckInclusion`: `removeUseless` on both operands first).  `inclDownOpt`
  (`OptDownwardInclusionFunctor`, the "implication cache") is *by definition* the same function as `inclDownRec`: in the
  C++ the extra cache `incl_` is never filled (argument in the header of `Vata/InclDown.lean`).  Fuel = nesting depth
  of the calls.
* **Preparation of the operands.**  `sanitize A B` (`Vata/Sanitize.lean`) is `SanitizeAutsForInclusion` in full:
  `removeUseless` on both operands, then `ReindexStates` of both through weak translators that share ONE counter (the map
  is cleared between the operands); it returns the two prepared automata and the counter.  `checkInclUpSan` runs the
  exploration `inclUp` on these (trimmed AND renumbered) operands; `C01_downward_prepared_exact` runs the four downward
  explorations on them, the `Sim` ones with the greatest downward simulation `downSimRef` of their disjoint union (the
  relation of C04) – "a simulation preorder computed on the disjoint union of the prepared operands".
* **Certificate principles.**  `UpCert` / `DownCert` (and `UpCertSim`: modulo an upward simulation of the disjoint union,
  `DownCertR`: modulo language preorders) are the invariants on
  which the upward antichain algorithm and the downward algorithms rest: whatever search produces a set `X` of pairs with
  these closure properties has established inclusion.
* **Dispatch.**  `Vata.Gen.explDispatch` (`Vata/Generated/Tables.lean`) is the `switch (params.GetOptions())` of
  `ExplicitTreeAutCore::CheckInclusion`, regenerated from the C++ sources on every run; `Vata/Properties/Dispatch.lean`
  proves by evaluation which option words are implemented, that every other word throws, and that each case passes the
  operands / relation its option word announces.  The correspondence "callee `explUp` ↦ `checkInclUp`, `explDownNonrec` ↦
  `checkInclDownNonrec` / `inclDownNonrecSim`, `downRec` ↦ `checkInclDownRec` / `inclDownOpt` / `inclDownSim`" is the
  reading of the table, not a theorem.  `C01Sel` (end of the file) lists the eight selections with their models and option
  words; `C01_every_selection_exact_total` is the first sentence of the property as one theorem.
* **Around the algorithms.**  The reference deciders are total above an explicit bound (`Vata/Properties/RefTotal.lean`);
  the utility classes the algorithms are built from – macro-state cache and memo tables, `OrdVector`, the antichain
  containers – and the command-line option handling that produces the option word have models and theorems of their own
  (`Vata/Properties/Util_Cache.lean`, `CacheWiring.lean`, `Util_OrdVector.lean`, `Util_Antichain.lean`, `Util_CliArgs.lean`).
-/
namespace Vata.Props
open Vata Vata.InclUp

/-! ### the reference the eight selections are compared with -/

/-- every verdict of the reference decision procedure is exact -/
theorem C01_reference_exact (A B : TA) (fuel : Nat) (b : Bool) (h : inclM A B fuel = some b) :
    b = true ↔ Incl A B := inclM_iff A B fuel b h

example : inclM InclUpEx.exG InclUpEx.exH 10 = some false := by decide
example : inclM InclUpEx.exH InclUpEx.exG 10 = some true := by decide

/-- … and so is every verdict of the two-automata profile reference -/
theorem C01_reference_pair_exact (A B : TA) (fuel : Nat) (b : Bool) (h : inclRef A B fuel = some b) :
    b = true ↔ Incl A B := inclRef_iff A B fuel b h

example : inclRef InclUpEx.exEven InclUpEx.exAll 10 = some true := by decide

/-! ### selection "upward, no simulation": the model of the code is exact and total -/

/-- the model of `CheckInclusion` (upward, no simulation; arbitrary operands, sanitised first): every verdict is exact,
and a verdict is returned for every fuel above the explicit bound `2·|Δ_A'|·2^|Δ_B'|` of the sanitised operands -/
theorem C01_upward_model_exact (A B : TA) :
    (∀ fuel b c, checkInclUp A B fuel = some (b, c) → (b = true ↔ Incl A B)) ∧
    (∀ fuel, fuelBound (removeUseless A) (removeUseless B) < fuel →
      (Incl A B → ∃ c, checkInclUp A B fuel = some (true, c)) ∧
      (¬ Incl A B → ∃ c, checkInclUp A B fuel = some (false, c))) :=
  ⟨fun _ _ _ h => checkInclUp_iff h, fun _ hf => checkInclUp_complete A B hf⟩

example : ∃ c, checkInclUp TotalEx.exU InclUpEx.exA 100 = some (true, c) := ⟨_, rfl⟩
example : fuelBound (removeUseless InclUpEx.exG) (removeUseless InclUpEx.exH) < 100 := by decide

/-- the exploration `checkInternal` alone: every verdict is exact on *any* operands; it is total (and then right) when
the smaller operand is trimmed – the hypothesis `Trimmed A` is needed, because the code answers `false` as soon as a
macro-state is empty, which is only justified when every state of `A` lies on an accepting run
(`InclUp.TotalEx.exU` is a counterexample to totality without it) -/
theorem C01_upward_core_exact (A B : TA) :
    (∀ fuel b c, inclUp A B fuel = some (b, c) → (b = true ↔ Incl A B)) ∧
    (Trimmed A → ∀ fuel, fuelBound A B < fuel →
      (Incl A B → ∃ c, inclUp A B fuel = some (true, c)) ∧ (¬ Incl A B → ∃ c, inclUp A B fuel = some (false, c))) :=
  ⟨fun _ _ _ h => inclUp_iff h, fun hA _ hf => inclUp_complete hA hf⟩

example : Trimmed InclUpEx.exG ∧ fuelBound InclUpEx.exG InclUpEx.exH < 97 :=
  ⟨trimmed_of_allUsefulB (by decide), by decide⟩
example : ∃ c, inclUp InclUpEx.exG InclUpEx.exH 97 = some (false, c) := ⟨_, rfl⟩

/-- the exploration terminates (with `true` or `false`) on all operands, trimmed or not -/
theorem C01_upward_terminates (A B : TA) (fuel : Nat) (hf : fuelBound A B < fuel) : ∃ r, run A B fuel = some r :=
  run_terminates hf

example : ∃ r, run TotalEx.exU InclUpEx.exA 9 = some r := C01_upward_terminates _ _ _ (by decide)

/-- what a verdict of the model carries: `true` comes with an antichain that is an upward certificate without bad
pair, `false` with a tree accepted by `A` and rejected by `B` -/
theorem C01_upward_verdict_certified (A B : TA) (fuel : Nat) (b : Bool) (c : Cert)
    (h : inclUp A B fuel = some (b, c)) :
    match c with
    | .closed X => b = true ∧ UpCert A B X ∧ NoBad A B X
    | .witness w => b = false ∧ accepts A w = true ∧ accepts B w = false := inclUp_cert h

example : inclUp InclUpEx.exH InclUpEx.exG 10 = some (true, .closed [(3, [1]), (4, [1]), (9, [2])]) := rfl

/-- the final `processed` antichain of a `return true` of the exploration passes the certificate check -/
theorem C01_upward_antichain_closed (A B : TA) (fuel : Nat) (P : List Item) (h : run A B fuel = some (.ok P)) :
    upCertB A B (pairs P) = true := run_ok_cert h

example : ∃ P, run InclUpEx.exH InclUpEx.exG 10 = some (.ok P) := ⟨_, rfl⟩

/-! ### the principles behind the upward and the downward selections -/

/-- soundness of the two kinds of certificates: a set `X` of pairs (state of `A`, macro-state of `B`) that is closed
under the post-image of the rules of `A` up to subsumption and has no bad pair (upward), or that is closed under the
choice-function expansion and covers the final states (downward: `workset`/`childrenCache` of `expand`), proves
inclusion -/
theorem C01_certificates (A B : TA) (X : List (Nat × List Nat)) :
    (UpCert A B X → (∀ q S, (q, S) ∈ X → q ∈ A.final → ∃ s, s ∈ S ∧ s ∈ B.final) → Incl A B) ∧
    (DownCert A B X → (∀ f, f ∈ A.final → Sub X f B.final) → Incl A B) :=
  ⟨fun hX hok => up_cert_incl A B X hX hok, fun hX hroot => down_cert_incl A B X hX hroot⟩

example : UpCert InclUpEx.exH InclUpEx.exG [(3, [1]), (4, [1]), (9, [2])] ∧
    ∀ q S, (q, S) ∈ [(3, [1]), (4, [1]), (9, [2])] → q ∈ InclUpEx.exH.final → ∃ s, s ∈ S ∧ s ∈ InclUpEx.exG.final :=
  upCertB_sound (by decide)
example : DownCert InclUpEx.exA InclUpEx.exAB [(1, [3])] ∧ ∀ f, f ∈ InclUpEx.exA.final → Sub [(1, [3])] f InclUpEx.exAB.final := by
  constructor
  · intro p P hp ρ hρ _ c hc
    simp only [List.mem_singleton, Prod.mk.injEq] at hp
    obtain ⟨rfl, rfl⟩ := hp
    simp only [InclUpEx.exA, List.mem_singleton] at hρ
    subst hρ
    exact absurd (hc ⟨0, [], 3⟩ (by decide)) (by simp)
  · intro f hf
    simp only [InclUpEx.exA, List.mem_singleton] at hf
    subst hf
    exact ⟨[3], by simp, fun s hs => by simpa [InclUpEx.exAB] using hs⟩

/-- the Boolean checker the driver applies to antichains is sound for the upward certificate -/
theorem C01_upward_certificate_check (A B : TA) (X : List (Nat × List Nat)) (h : upCertB A B X = true) : Incl A B :=
  upCertB_incl h

example : upCertB InclUpEx.exH InclUpEx.exG [(3, [1]), (4, [1]), (9, [2])] = true := by decide

/-! ### "all selections return the same verdict" -/

/-- any verdict of the model of the upward selection equals any verdict of the reference (which is what every other
selection is compared with), for all fuels -/
theorem C01_upward_agrees_reference (A B : TA) (fuel fuel' : Nat) (b b' : Bool) (c : Cert)
    (h : checkInclUp A B fuel = some (b, c)) (h' : inclM A B fuel' = some b') : b = b' := by
  have h1 := checkInclUp_iff h
  have h2 := inclM_iff A B fuel' b' h'
  cases b <;> cases b' <;> simp_all

example : (checkInclUp InclUpEx.exG InclUpEx.exH 10).map (·.1) = some false ∧ inclM InclUpEx.exG InclUpEx.exH 10 = some false :=
  ⟨rfl, by decide⟩

/-- sanitising the operands (`SanitizeAutsForInclusion`: useless-state removal) does not change the question asked -/
theorem C01_sanitise_preserves (A B : TA) : Incl (removeUseless A) (removeUseless B) ↔ Incl A B :=
  incl_removeUseless A B

example : (removeUseless TotalEx.exU).rules = [⟨0, [], 1⟩] ∧ TotalEx.exU.rules.length = 2 := by decide

/-- `SanitizeAutsForInclusion` in full (model `sanitize`: useless-state removal, then dense renumbering of both operands
with one shared counter): both languages are preserved – hence the inclusion question –, both results are trimmed
(`allUsefulB`), the first has exactly the states `0..k-1`, the second exactly `k..n-1` where `n` is the returned
counter, so the state sets are disjoint, all states are below `n`, and `n = |Q_A'| + |Q_B'|` -/
theorem C01_sanitise_model (A B : TA) :
    (∀ t, accepts (sanitize A B).1 t = accepts A t ∧ accepts (sanitize A B).2.1 t = accepts B t) ∧
    (Incl (sanitize A B).1 (sanitize A B).2.1 ↔ Incl A B) ∧
    (allUsefulB (sanitize A B).1 = true ∧ allUsefulB (sanitize A B).2.1 = true) ∧
    (∀ x, (x ∈ (sanitize A B).1.states ↔ x < (sanitize A B).1.states.length) ∧
      (x ∈ (sanitize A B).2.1.states ↔ (sanitize A B).1.states.length ≤ x ∧ x < (sanitize A B).2.2)) ∧
    (∀ q, q ∈ (sanitize A B).1.states → q ∉ (sanitize A B).2.1.states) ∧
    (∀ q, q ∈ (sanitize A B).1.states ∨ q ∈ (sanitize A B).2.1.states → q < (sanitize A B).2.2) ∧
    (sanitize A B).2.2 = (sanitize A B).1.states.length + (sanitize A B).2.1.states.length :=
  ⟨sanitize_lang A B, checkIncl_sanitized A B, sanitize_trimmed A B, sanitize_dense A B, sanitize_disjoint A B,
    sanitize_bound A B, (sanitize_count A B).1⟩

example : ((sanitize SanEx.exA SanEx.exB).1.rules, (sanitize SanEx.exA SanEx.exB).2.1.rules, (sanitize SanEx.exA SanEx.exB).2.2) =
    ([⟨0, [], 1⟩, ⟨1, [1, 1], 0⟩], [⟨0, [], 2⟩, ⟨3, [], 2⟩, ⟨1, [2, 2], 2⟩], 3) := by decide
-- the operands of the example overlap (state `7` in both) and the first one is not trimmed
example : 7 ∈ SanEx.exA.states ∧ 7 ∈ SanEx.exB.states ∧ allUsefulB SanEx.exA = false := by decide

/-- the selection "upward, no simulation" on the operands exactly as the code prepares them (trimmed and renumbered):
every verdict is exact, and a verdict is returned for every fuel above the explicit bound -/
theorem C01_upward_sanitised_exact (A B : TA) :
    (∀ fuel b c, checkInclUpSan A B fuel = some (b, c) → (b = true ↔ Incl A B)) ∧
    (∀ fuel, fuelBound (sanitize A B).1 (sanitize A B).2.1 < fuel →
      (Incl A B → ∃ c, checkInclUpSan A B fuel = some (true, c)) ∧
      (¬ Incl A B → ∃ c, checkInclUpSan A B fuel = some (false, c))) :=
  ⟨fun _ _ _ h => checkInclUpSan_iff h, fun _ hf => checkInclUpSan_complete A B hf⟩

example : ∃ c, checkInclUpSan SanEx.exA SanEx.exB 20 = some (true, c) := ⟨_, rfl⟩
example : ∃ c, checkInclUpSan SanEx.exB SanEx.exA 20 = some (false, c) := ⟨_, rfl⟩

/-! ### the downward selections: models of the code, exact and total -/

/-- selection "downward, recursive, no simulation" (`ANTICHAINS_DOWN_REC_NOSIM`): the model `checkInclDownRec` of
`CheckInclusion` (arbitrary operands, useless states removed first): every verdict is exact, and a verdict is returned for
every fuel above the explicit bound `|Q_A'|·2^|Q_B'|` on the nesting depth of the calls -/
theorem C01_downward_rec_model_exact (A B : TA) :
    (∀ fuel b c, checkInclDownRec A B fuel = some (b, c) → (b = true ↔ Incl A B)) ∧
    (∀ fuel, InclDown.fuelBoundD (removeUseless A) (removeUseless B) < fuel →
      (Incl A B → ∃ c, checkInclDownRec A B fuel = some (true, c)) ∧
      (¬ Incl A B → ∃ c, checkInclDownRec A B fuel = some (false, c))) :=
  ⟨fun _ _ _ h => checkInclDownRec_iff h, fun _ hf => checkInclDownRec_complete A B hf⟩

-- the first operand has the useless rule `h(7) → 1`; both verdicts occur
example : ∃ c, checkInclDownRec InclDownEx.exUs InclDownEx.exA 10 = some (true, c) := ⟨_, rfl⟩
example : ∃ c, checkInclDownRec InclDownEx.exG InclDownEx.exH 10 = some (false, c) := ⟨_, rfl⟩
example : InclDown.fuelBoundD (removeUseless InclDownEx.exG) (removeUseless InclDownEx.exH) < 17 := by decide

/-- selection "downward, non-recursive, no simulation" (`ANTICHAINS_DOWN_NONREC_NOSIM`), model `checkInclDownNonrec` -/
theorem C01_downward_nonrec_model_exact (A B : TA) :
    (∀ fuel b c, checkInclDownNonrec A B fuel = some (b, c) → (b = true ↔ Incl A B)) ∧
    (∀ fuel, InclDown.fuelBoundD (removeUseless A) (removeUseless B) < fuel →
      (Incl A B → ∃ c, checkInclDownNonrec A B fuel = some (true, c)) ∧
      (¬ Incl A B → ∃ c, checkInclDownNonrec A B fuel = some (false, c))) :=
  ⟨fun _ _ _ h => checkInclDownNonrec_iff h, fun _ hf => checkInclDownNonrec_complete A B hf⟩

example : ∃ c, checkInclDownNonrec InclDownEx.exUs InclDownEx.exA 10 = some (true, c) := ⟨_, rfl⟩
example : ∃ c, checkInclDownNonrec InclDownEx.exU1 InclDownEx.exU2 10 = some (false, c) := ⟨_, rfl⟩

/-- "recursive with or without the implication cache": the model of `OptDownwardInclusionFunctor` IS the model of
`DownwardInclusionFunctor` (first component, by definition – the justification is the argument about the C++ in
`Vata/InclDown.lean`, not a theorem); hence its verdicts are exact as well -/
theorem C01_downward_cache_same_computation (A B : TA) (fuel : Nat) :
    inclDownOpt A B fuel = inclDownRec A B fuel ∧
    (∀ b c, inclDownOpt A B fuel = some (b, c) → (b = true ↔ Incl A B)) :=
  ⟨rfl, fun _ _ h => inclDownOpt_iff h⟩

example : ∃ c, inclDownOpt InclDownEx.exG InclDownEx.exH 10 = some (false, c) := ⟨_, rfl⟩

/-- the two downward explorations alone (no simulation): every verdict is exact on *any* operands; they are total (and
then right) when the children of all rules of `A` are productive – the hypothesis is needed, because the code skips an
empty set of a choice function, which is only justified when the state at that position accepts some tree
(`InclDownEx.exUs` is a counterexample to totality without it, see below) -/
theorem C01_downward_core_exact (A B : TA) :
    (∀ fuel b c, inclDownRec A B fuel = some (b, c) → (b = true ↔ Incl A B)) ∧
    (∀ fuel b c, inclDownNonrec A B fuel = some (b, c) → (b = true ↔ Incl A B)) ∧
    (InclDown.KidsProductive A → ∀ fuel, InclDown.fuelBoundD A B < fuel →
      ((Incl A B → ∃ c, inclDownRec A B fuel = some (true, c)) ∧
        (¬ Incl A B → ∃ c, inclDownRec A B fuel = some (false, c))) ∧
      ((Incl A B → ∃ c, inclDownNonrec A B fuel = some (true, c)) ∧
        (¬ Incl A B → ∃ c, inclDownNonrec A B fuel = some (false, c)))) :=
  ⟨fun _ _ _ h => inclDownRec_iff h, fun _ _ _ h => inclDownNonrec_iff h,
    fun hA _ hf => ⟨inclDownRec_complete hA hf, inclDownNonrec_complete hA hf⟩⟩

example : InclDown.KidsProductive InclDownEx.exG ∧ InclDown.fuelBoundD InclDownEx.exG InclDownEx.exH < 17 :=
  ⟨(trimmed_of_allUsefulB (by decide)).1, by decide⟩
-- without the hypothesis: the exploration answers `false` with a tree `A` does not accept, the model refuses
example : inclDownRec InclDownEx.exUs InclDownEx.exA 10 = none ∧
    InclDown.run InclDown.idOrd InclDownEx.exUs InclDownEx.exA 10 = some (.error (.node 3 [.node 0 []])) ∧
    accepts InclDownEx.exUs (.node 3 [.node 0 []]) = false := ⟨rfl, rfl, by decide⟩

/-- what a verdict of the recursive model carries: `true` comes with a set of pairs that is a downward certificate
covering the final states, `false` with a tree accepted by `A` and rejected by `B` -/
theorem C01_downward_verdict_certified (A B : TA) (fuel : Nat) (b : Bool) (c : Cert)
    (h : inclDownRec A B fuel = some (b, c)) :
    match c with
    | .closed X => b = true ∧ DownCert A B X ∧ ∀ f, f ∈ A.final → Sub X f B.final
    | .witness w => b = false ∧ accepts A w = true ∧ accepts B w = false := inclDownRec_cert h

example : inclDownRec InclDownEx.exS1 InclDownEx.exS2 10 = some (true, .closed [(1, [3, 4]), (5, [6]), (2, [9])]) := rfl

/-- the explorations proper (no final check involved), for any pruning preorder `o` that is reflexive and sound for the
languages of the states (`LangOrd`), on an `A` whose rule children are productive: the set collected by a `return true`
of the recursive exploration passes the certificate check, the tree of a `return false` separates the languages, and the
exploration ends within the bound; the same for the non-recursive exploration when `o` is moreover transitive.  So the
final checks of the models never refuse: `none` means "fuel exhausted" only -/
theorem C01_downward_exploration_certified (o : InclDown.Ord) (A B : TA)
    (hO : LangOrd A B (InclDown.leAP o) (InclDown.leBP o) (InclDown.leABP o)) (hr : InclDown.OrdRefl o)
    (hA : InclDown.KidsProductive A) (fuel : Nat) :
    ((∀ X, InclDown.run o A B fuel = some (.ok X) → downCertRB o A B X = true) ∧
      (∀ w, InclDown.run o A B fuel = some (.error w) → accepts A w = true ∧ accepts B w = false) ∧
      (InclDown.fuelBoundD A B < fuel → ∃ r, InclDown.run o A B fuel = some r)) ∧
    (InclDown.OrdTrans o →
      (∀ X, InclDown.runN o A B fuel = some (.ok X) → downCertRB o A B X = true) ∧
      (∀ w, InclDown.runN o A B fuel = some (.error w) → accepts A w = true ∧ accepts B w = false) ∧
      (InclDown.fuelBoundD A B < fuel → ∃ r, InclDown.runN o A B fuel = some r)) :=
  ⟨⟨fun _ h => InclDown.run_ok_cert hO hr hA h, fun _ h => InclDown.run_error_sound hO hr hA h,
      fun h => InclDown.run_terminates hr h⟩,
    fun ht => ⟨fun _ h => InclDown.runN_ok_cert hO hr ht hA h, fun _ h => InclDown.runN_error_sound hO hr ht hA h,
      fun h => InclDown.runN_terminates hr h⟩⟩

-- the hypotheses hold for the identity on trimmed operands and for a validated simulation
example : LangOrd InclDownEx.exH InclDownEx.exG (InclDown.leAP InclDown.idOrd) (InclDown.leBP InclDown.idOrd)
      (InclDown.leABP InclDown.idOrd) ∧ InclDown.OrdRefl InclDown.idOrd ∧ InclDown.OrdTrans InclDown.idOrd ∧
    InclDown.KidsProductive InclDownEx.exH :=
  ⟨InclDown.idOrd_langOrd _ _, InclDown.ordRefl_id, InclDown.ordTrans_id, (trimmed_of_allUsefulB (by decide)).1⟩
example : InclDown.run InclDown.idOrd InclDownEx.exH InclDownEx.exG 10 = some (.ok [(3, [1]), (4, [1]), (9, [2])]) := rfl
example : LangOrd InclDownEx.exS1 InclDownEx.exS2 (InclDown.leAP (InclDown.ordOf [(5, 6)] InclDownEx.exS1 InclDownEx.exS2))
    (InclDown.leBP (InclDown.ordOf [(5, 6)] InclDownEx.exS1 InclDownEx.exS2))
    (InclDown.leABP (InclDown.ordOf [(5, 6)] InclDownEx.exS1 InclDownEx.exS2)) :=
  InclDown.ordOf_langOrd (by decide) (by decide)

/-- the Boolean checker the models apply to the collected sets is exactly the downward certificate, and a checked set
proves the inclusion -/
theorem C01_downward_certificate_check (A B : TA) (X : List (Nat × List Nat)) :
    (downCertB A B X = true ↔ DownCert A B X ∧ ∀ f, f ∈ A.final → Sub X f B.final) ∧
    (downCertB A B X = true → Incl A B) :=
  ⟨downCertB_iff A B X, fun h => downCertB_incl h⟩

example : downCertB InclDownEx.exH InclDownEx.exG [(3, [1]), (4, [1]), (9, [2])] = true ∧
    downCertB InclDownEx.exH InclDownEx.exG [(9, [2])] = false := by decide

/-! ### the downward selections with a simulation preorder -/

/-- soundness of pruning modulo preorders: relations `RA` (on `A`), `RB` (on `B`), `RAB` (from `A` to `B`) that are
sound for the languages of the states (`LangOrd`), and a set `X` of pairs closed under the choice-function expansion
*up to* these relations (`DownCertR`, `SubR`: the pair is implied by the preorder, or a pair `(k', S')` of `X` has
`k ≤ k'` and every state of `S'` below a state of `S`) that covers the final states: inclusion holds -/
theorem C01_certificates_modulo_preorder (A B : TA) (RA RB RAB : Nat → Nat → Prop) (hO : LangOrd A B RA RB RAB)
    (X : List (Nat × List Nat)) (hX : DownCertR RA RB RAB A B X)
    (hroot : ∀ f, f ∈ A.final → SubR RA RB RAB X f B.final) : Incl A B :=
  down_certR_incl A B RA RB RAB hO X hX hroot

-- the hypotheses on a concrete pair: the relations given by `5 ≤ 6` and the set `{(1,{3,4}), (2,{9})}`
example : DownCertR (InclDown.leAP (InclDown.ordOf [(5, 6)] InclDownEx.exS1 InclDownEx.exS2))
      (InclDown.leBP (InclDown.ordOf [(5, 6)] InclDownEx.exS1 InclDownEx.exS2))
      (InclDown.leABP (InclDown.ordOf [(5, 6)] InclDownEx.exS1 InclDownEx.exS2)) InclDownEx.exS1 InclDownEx.exS2
      [(1, [3, 4]), (2, [9])] ∧
    ∀ f, f ∈ InclDownEx.exS1.final → SubR (InclDown.leAP (InclDown.ordOf [(5, 6)] InclDownEx.exS1 InclDownEx.exS2))
      (InclDown.leBP (InclDown.ordOf [(5, 6)] InclDownEx.exS1 InclDownEx.exS2))
      (InclDown.leABP (InclDown.ordOf [(5, 6)] InclDownEx.exS1 InclDownEx.exS2)) [(1, [3, 4]), (2, [9])] f
      InclDownEx.exS2.final := downCertRB_sound (by decide)
-- with the pair `5 ≤ 6` the set `{(1,{3,4}), (2,{9})}` is a certificate; with the identity it is not
example : downCertRB (InclDown.ordOf [(5, 6)] InclDownEx.exS1 InclDownEx.exS2) InclDownEx.exS1 InclDownEx.exS2
      [(1, [3, 4]), (2, [9])] = true ∧
    downCertRB InclDown.idOrd InclDownEx.exS1 InclDownEx.exS2 [(1, [3, 4]), (2, [9])] = false := by decide

/-- selections "downward (recursive / non-recursive) with simulation" for a GIVEN relation `R` on the disjoint union:
the models validate `R` (a downward simulation on `unionDisjoint A B`, the operands disjoint) and then prune with it;
every verdict is exact on any operands and for any `R`; when the validation passes and the rule children of `A` are
productive, the recursive model returns the right verdict for every fuel above the bound, and so does the non-recursive
one if `R` is moreover transitive (it prunes the sets of the choice functions to their maximal elements and caches
subsumed pairs) -/
theorem C01_downward_sim_exact (A B : TA) (R : Rel) :
    (∀ fuel b c, inclDownSim A B R fuel = some (b, c) → (b = true ↔ Incl A B)) ∧
    (∀ fuel b c, inclDownNonrecSim A B R fuel = some (b, c) → (b = true ↔ Incl A B)) ∧
    (InclDown.KidsProductive A → isDownSimB (unionDisjoint A B) R = true → InclDown.disjointB A B = true →
      ∀ fuel, InclDown.fuelBoundD A B < fuel →
        ((Incl A B → ∃ c, inclDownSim A B R fuel = some (true, c)) ∧
          (¬ Incl A B → ∃ c, inclDownSim A B R fuel = some (false, c))) ∧
        ((∀ a b c, (a, b) ∈ R → (b, c) ∈ R → (a, c) ∈ R) →
          (Incl A B → ∃ c, inclDownNonrecSim A B R fuel = some (true, c)) ∧
          (¬ Incl A B → ∃ c, inclDownNonrecSim A B R fuel = some (false, c)))) :=
  ⟨fun _ _ _ h => inclDownSim_iff h, fun _ _ _ h => inclDownNonrecSim_iff h,
    fun hA hsim hdis _ hf => ⟨inclDownSim_complete hA hsim hdis hf,
      fun hR => inclDownNonrecSim_complete hA hsim hdis hR hf⟩⟩

example : inclDownSim InclDownEx.exS1 InclDownEx.exS2 [(5, 6)] 10 = some (true, .closed [(1, [3, 4]), (2, [9])]) ∧
    inclDownNonrecSim InclDownEx.exS1 InclDownEx.exS2 [(5, 6)] 10 = some (true, .closed [(1, [3, 4]), (2, [9])]) :=
  ⟨rfl, rfl⟩
example : InclDown.KidsProductive InclDownEx.exS1 ∧ isDownSimB (unionDisjoint InclDownEx.exS1 InclDownEx.exS2) [(5, 6)] = true ∧
    InclDown.disjointB InclDownEx.exS1 InclDownEx.exS2 = true ∧ InclDown.fuelBoundD InclDownEx.exS1 InclDownEx.exS2 < 49 :=
  ⟨(trimmed_of_allUsefulB (by decide)).1, by decide, by decide, by decide⟩
-- a relation that is not a simulation, or operands that overlap, are refused (no verdict)
example : inclDownSim InclDownEx.exS1 InclDownEx.exS2 [(1, 3)] 10 = none ∧ inclDownSim InclDownEx.exA InclDownEx.exA [] 10 = none :=
  ⟨rfl, rfl⟩

/-- all four downward explorations on the operands exactly as the code prepares them (`A' = (sanitize A B).1`,
`B' = (sanitize A B).2.1`: trimmed, renumbered, disjoint), the two `Sim` ones with the simulation preorder computed on the
disjoint union of the prepared operands (`R` = the greatest downward simulation `downSimRef` of `unionDisjoint A' B'`, the
relation of C04): no hypothesis is left – the validation of `R` passes, `R` is transitive, the rule children of `A'` are
productive.  Every verdict is exact for the ORIGINAL question `Incl A B`, and for every fuel above the bound each of the
four returns the right verdict -/
theorem C01_downward_prepared_exact (A B A' B' : TA) (R : Rel) (hA' : A' = (sanitize A B).1)
    (hB' : B' = (sanitize A B).2.1) (hR : R = downSimRef (unionDisjoint A' B')) :
    (∀ fuel b c, (inclDownRec A' B' fuel = some (b, c) ∨ inclDownNonrec A' B' fuel = some (b, c) ∨
        inclDownSim A' B' R fuel = some (b, c) ∨ inclDownNonrecSim A' B' R fuel = some (b, c)) → (b = true ↔ Incl A B)) ∧
    (∀ fuel, InclDown.fuelBoundD A' B' < fuel →
      (Incl A B → (∃ c, inclDownRec A' B' fuel = some (true, c)) ∧ (∃ c, inclDownNonrec A' B' fuel = some (true, c)) ∧
        (∃ c, inclDownSim A' B' R fuel = some (true, c)) ∧ (∃ c, inclDownNonrecSim A' B' R fuel = some (true, c))) ∧
      (¬ Incl A B → (∃ c, inclDownRec A' B' fuel = some (false, c)) ∧ (∃ c, inclDownNonrec A' B' fuel = some (false, c)) ∧
        (∃ c, inclDownSim A' B' R fuel = some (false, c)) ∧ (∃ c, inclDownNonrecSim A' B' R fuel = some (false, c)))) := by
  subst hA' hB' hR
  have hK : InclDown.KidsProductive (sanitize A B).1 := (trimmed_of_allUsefulB (sanitize_trimmed A B).1).1
  have hsim := downSimRef_check (unionDisjoint (sanitize A B).1 (sanitize A B).2.1)
  have hdis : InclDown.disjointB (sanitize A B).1 (sanitize A B).2.1 = true :=
    InclDown.disjointB_iff.mpr (sanitize_disjoint A B)
  have htr := (greatest_downSim_preorder (unionDisjoint (sanitize A B).1 (sanitize A B).2.1)).2
  have hq := checkIncl_sanitized A B
  refine ⟨fun fuel b c h => ?_, fun fuel hf => ?_⟩
  · rcases h with h | h | h | h
    · exact (inclDownRec_iff h).trans hq
    · exact (inclDownNonrec_iff h).trans hq
    · exact (inclDownSim_iff h).trans hq
    · exact (inclDownNonrecSim_iff h).trans hq
  · have h1 := inclDownRec_complete hK hf
    have h2 := inclDownNonrec_complete hK hf
    have h3 := inclDownSim_complete hK hsim hdis hf
    have h4 := inclDownNonrecSim_complete hK hsim hdis htr hf
    rw [hq] at h1 h2 h3 h4
    exact ⟨fun hi => ⟨h1.1 hi, h2.1 hi, h3.1 hi, h4.1 hi⟩, fun hn => ⟨h1.2 hn, h2.2 hn, h3.2 hn, h4.2 hn⟩⟩

-- the operands of the example overlap and the first is not trimmed; the prepared ones are `0,1` / `2`; the computed
-- simulation relates the two states of `A'` to the state of `B'` (and `0` to `1`)
example : downSimRef (unionDisjoint (sanitize SanEx.exA SanEx.exB).1 (sanitize SanEx.exA SanEx.exB).2.1) =
    [(1, 1), (1, 2), (0, 0), (0, 2), (2, 2)] := by decide
example : ∃ c, inclDownSim (sanitize SanEx.exA SanEx.exB).1 (sanitize SanEx.exA SanEx.exB).2.1
    (downSimRef (unionDisjoint (sanitize SanEx.exA SanEx.exB).1 (sanitize SanEx.exA SanEx.exB).2.1)) 20 = some (true, c) :=
  ⟨_, rfl⟩
example : ∃ c, inclDownNonrecSim (sanitize SanEx.exB SanEx.exA).1 (sanitize SanEx.exB SanEx.exA).2.1
    (downSimRef (unionDisjoint (sanitize SanEx.exB SanEx.exA).1 (sanitize SanEx.exB SanEx.exA).2.1)) 20 = some (false, c) :=
  ⟨_, rfl⟩

/-! ### the selection "upward with simulation" -/

/-- the "context language" property of an upward simulation `S` (identity on siblings, respecting finality) of an
automaton `U`: if `r` simulates `q`, every context `c` that leads from `q` to a final state accepts every tree that `r`
labels – this is why a state simulated by another member of a macro-state, and a pair whose `A`-state is simulated by a
member of its macro-state, can be dropped -/
theorem C01_upward_sim_context (U : TA) (S : Nat → Nat → Prop) (hS : IsUpSim U S) (c : InclUpSim.Ctx) (q r : Nat)
    (t' : Tree) (hqr : S q r) (hr : r ∈ reach U t') (h : accepting U (c.reachFrom U [q]) = true) :
    accepts U (c.plug t') = true := InclUpSim.upSim_ctx_accepts U S hS c hqr hr h

-- `g(□)` leads from `1` to the final `3`; `12` simulates `1`; `a` is labelled `12`: `g(a)` is accepted
example : accepts (unionDisjoint InclUpSimEx.exP InclUpSimEx.exQ)
    (InclUpSim.Ctx.plug (.node 2 [] .hole []) (.node 0 [])) = true :=
  C01_upward_sim_context _ (RelOf (upSimRef (unionDisjoint InclUpSimEx.exP InclUpSimEx.exQ))) (upSimRef_sim _)
    (.node 2 [] .hole []) 1 12 (.node 0 []) (by decide) (by decide) (by decide)

/-- soundness of upward pruning modulo a simulation: `S` a reflexive and transitive upward simulation of the disjoint
union of `A` and `B` (disjoint states); a set `X` of pairs whose first components are states of `A`, closed under the
post-image of the rules of `A` *up to* `S` (`UpCertSim`: the parent is simulated by a state of the post-image – the pair
is skipped –, or a pair `(p, P)` of `X` has `parent ≼ p` and every state of `P` is simulated by a state of the
post-image) and without bad pair: inclusion holds -/
theorem C01_upward_sim_certificates (A B : TA) (S : Nat → Nat → Prop) (hS : IsUpSim (unionDisjoint A B) S)
    (hrefl : ∀ q, S q q) (htr : ∀ a b c, S a b → S b c → S a c) (hdis : ∀ q, q ∈ A.states → q ∉ B.states)
    (X : List (Nat × List Nat)) (hX : InclUpSim.UpCertSim A B S X) (hkeys : InclUpSim.KeysIn A X) (hok : NoBad A B X) :
    Incl A B := InclUpSim.up_cert_sim_incl A B S hS hrefl htr hdis X hX hkeys hok

-- the hypotheses on a concrete pair: the closure of `{1 ≼ 2, 10 ≼ 12}` and the set `{(2,{12}), (3,{11})}`
example : IsUpSim (unionDisjoint InclUpSimEx.exP InclUpSimEx.exQ) (InclUpSim.Star (RelOf InclUpSimEx.exR)) ∧
    InclUpSim.UpCertSim InclUpSimEx.exP InclUpSimEx.exQ (InclUpSim.LeqP InclUpSimEx.exR) [(2, [12]), (3, [11])] ∧
    InclUpSim.KeysIn InclUpSimEx.exP [(2, [12]), (3, [11])] ∧ NoBad InclUpSimEx.exP InclUpSimEx.exQ [(2, [12]), (3, [11])] :=
  ⟨InclUpSim.upSim_star _ ((isUpSimB_iff _ _).mp (by decide)), upCertSimB_sound (by decide)⟩

/-- the Boolean checker the model applies to the final antichain is exactly that certificate (for the reflexive closure
of the given relation), and a checked antichain with a validated relation proves the inclusion -/
theorem C01_upward_sim_certificate_check (A B : TA) (R : Rel) (X : List (Nat × List Nat)) :
    (upCertSimB A B R X = true ↔
      InclUpSim.UpCertSim A B (InclUpSim.LeqP R) X ∧ InclUpSim.KeysIn A X ∧ NoBad A B X) ∧
    (isUpSimB (unionDisjoint A B) R = true → InclDown.disjointB A B = true → upCertSimB A B R X = true → Incl A B) :=
  ⟨upCertSimB_iff A B R X, fun h₁ h₂ h₃ => upCertSimB_incl h₁ h₂ h₃⟩

-- with `1 ≼ 2`, `10 ≼ 12` the set `{(2,{12}), (3,{11})}` is a certificate; with the empty relation it is not
example : upCertSimB InclUpSimEx.exP InclUpSimEx.exQ InclUpSimEx.exR [(2, [12]), (3, [11])] = true ∧
    upCertSimB InclUpSimEx.exP InclUpSimEx.exQ [] [(2, [12]), (3, [11])] = false := by decide

/-- selection "upward with simulation" for a GIVEN relation `R` on the disjoint union: the model validates `R` (an
upward simulation on `unionDisjoint A B`, the operands disjoint) before it trusts a `true`; every verdict is exact on any
operands and for any `R`; when `A` is trimmed, the validation passes and `R` is transitive and reflexive on the parents
of the rules, the right verdict is returned for every fuel above the bound of the plain upward algorithm -/
theorem C01_upward_sim_exact (A B : TA) (R : Rel) :
    (∀ fuel b c, inclUpSim A B R fuel = some (b, c) → (b = true ↔ Incl A B)) ∧
    (Trimmed A → InclUpSim.Valid R A B → ∀ fuel, fuelBound A B < fuel →
      (Incl A B → ∃ c, inclUpSim A B R fuel = some (true, c)) ∧
      (¬ Incl A B → ∃ c, inclUpSim A B R fuel = some (false, c))) :=
  ⟨fun _ _ _ h => inclUpSim_iff h, fun hA hV _ hf => InclUpSim.inclUpSim_complete hV hA hf⟩

example : inclUpSim InclUpSimEx.exP InclUpSimEx.exQ InclUpSimEx.exR 20 = some (true, .closed [(2, [12]), (3, [11])]) := rfl
example : ∃ c, inclUpSim InclUpEx.exG InclUpEx.exH (upSimRef (unionDisjoint InclUpEx.exG InclUpEx.exH)) 20 =
    some (false, c) := ⟨_, rfl⟩
example : Trimmed InclUpSimEx.exP ∧ InclUpSim.Valid InclUpSimEx.exR InclUpSimEx.exP InclUpSimEx.exQ ∧
    fuelBound InclUpSimEx.exP InclUpSimEx.exQ < 321 :=
  ⟨trimmed_of_allUsefulB (by decide), ⟨by decide, by decide, InclUpSim.preorderB_sound (by decide)⟩, by decide⟩
-- a relation that is not an upward simulation, or operands that overlap, never yield a `true`
example : inclUpSim InclUpSimEx.exP InclUpSimEx.exQ [(1, 11)] 20 = none ∧
    inclUpSim InclUpEx.exA InclUpEx.exA [] 20 = none := ⟨rfl, rfl⟩

/-- what a verdict of the model carries: `true` comes with a validated relation and an antichain that is a certificate
modulo it, `false` with a tree accepted by `A` and rejected by `B` -/
theorem C01_upward_sim_verdict_certified (A B : TA) (R : Rel) (fuel : Nat) (b : Bool) (c : Cert)
    (h : inclUpSim A B R fuel = some (b, c)) :
    match c with
    | .closed X => b = true ∧ IsUpSim (unionDisjoint A B) (RelOf R) ∧ (∀ q, q ∈ A.states → q ∉ B.states) ∧
        InclUpSim.UpCertSim A B (InclUpSim.LeqP R) X ∧ InclUpSim.KeysIn A X ∧ NoBad A B X
    | .witness w => b = false ∧ accepts A w = true ∧ accepts B w = false := inclUpSim_cert h

example : ∃ c, inclUpSim InclUpSimEx.exP2 InclUpSimEx.exQ2 (upSimRef (unionDisjoint InclUpSimEx.exP2 InclUpSimEx.exQ2)) 20 =
    some (true, c) := ⟨_, rfl⟩

/-- the pruned exploration proper (no final check involved), for a relation `R` that passes the validation and is
transitive and reflexive on the parents of the rules: the antichain of a `return true` passes the certificate check, a
`return false` at `(q, t)` has `q ∈ reach A t` and either `q` final and `t ∉ L(B)` or no state of `B` labels `t`
(`ErrOK`; on a trimmed `A` it refutes the inclusion), and the exploration ends within the bound.  So the final checks of
the model never refuse: `none` means "fuel exhausted" only -/
theorem C01_upward_sim_exploration_certified (A B : TA) (R : Rel) (hV : InclUpSim.Valid R A B) (fuel : Nat) :
    (∀ P, InclUpSim.run R A B fuel = some (.ok P) → upCertSimB A B R (pairs P) = true ∧ Incl A B) ∧
    (∀ e, InclUpSim.run R A B fuel = some (.error e) → ErrOK A B e ∧ (Trimmed A → ¬ Incl A B)) ∧
    (fuelBound A B < fuel → ∃ r, InclUpSim.run R A B fuel = some r) :=
  ⟨fun _ h => ⟨InclUpSim.run_ok_cert hV.pre.trans hV.simHyp.fin h, (InclUpSim.run_sound hV).1 _ h⟩,
    fun _ h => ⟨InclUpSim.run_error_ok hV.simHyp h, fun hA => (InclUpSim.run_sound hV).2 hA _ h⟩,
    fun h => InclUpSim.run_terminates hV.pre h⟩

example : InclUpSim.run InclUpSimEx.exR InclUpSimEx.exP InclUpSimEx.exQ 20 =
    some (.ok [⟨2, [12], .node 0 []⟩, ⟨3, [11], .node 2 [.node 0 []]⟩]) := rfl

/-- the selection "upward with simulation" as the command line runs it (`checkInclUpSim`: operands prepared by `sanitize`,
the greatest upward simulation of their disjoint union, the pruned exploration): no hypothesis is left – the validation
passes, the relation is a preorder, the first operand is trimmed.  Every verdict is exact for the ORIGINAL question
`Incl A B`, and the right verdict is returned for every fuel above the bound -/
theorem C01_upward_sim_prepared_exact (A B : TA) :
    (∀ fuel b c, checkInclUpSim A B fuel = some (b, c) → (b = true ↔ Incl A B)) ∧
    (∀ fuel, fuelBound (sanitize A B).1 (sanitize A B).2.1 < fuel →
      (Incl A B → ∃ c, checkInclUpSim A B fuel = some (true, c)) ∧
      (¬ Incl A B → ∃ c, checkInclUpSim A B fuel = some (false, c))) :=
  ⟨fun _ _ _ h => checkInclUpSim_iff h, fun _ hf => checkInclUpSim_complete A B hf⟩

-- the operands of the example overlap and the first is not trimmed
example : ∃ c, checkInclUpSim SanEx.exA SanEx.exB 20 = some (true, c) := ⟨_, rfl⟩
example : ∃ c, checkInclUpSim SanEx.exB SanEx.exA 20 = some (false, c) := ⟨_, rfl⟩
example : fuelBound (sanitize SanEx.exA SanEx.exB).1 (sanitize SanEx.exA SanEx.exB).2.1 < 33 := by decide

/-- any verdict of the upward selection with a relation – whatever the relation – equals any verdict of the reference
and of the upward selection without relation -/
theorem C01_upward_sim_agrees (A B : TA) (R : Rel) (f₀ f₁ f₂ f₃ : Nat) (b₀ b₁ b₂ b₃ : Bool) (c₁ c₂ c₃ : Cert)
    (h₀ : inclM A B f₀ = some b₀) (h₁ : inclUpSim A B R f₁ = some (b₁, c₁))
    (h₂ : checkInclUpSim A B f₂ = some (b₂, c₂)) (h₃ : checkInclUp A B f₃ = some (b₃, c₃)) :
    b₁ = b₀ ∧ b₂ = b₀ ∧ b₃ = b₀ := by
  have e₀ := inclM_iff A B f₀ b₀ h₀
  have e₁ := inclUpSim_iff h₁
  have e₂ := checkInclUpSim_iff h₂
  have e₃ := checkInclUp_iff h₃
  have key : ∀ b : Bool, (b = true ↔ Incl A B) → b = b₀ := fun b e => by
    cases b <;> cases b₀ <;> simp_all
  exact ⟨key _ e₁, key _ e₂, key _ e₃⟩

example : inclM InclUpSimEx.exP InclUpSimEx.exQ 10 = some true ∧
    (inclUpSim InclUpSimEx.exP InclUpSimEx.exQ InclUpSimEx.exR 20).map (·.1) = some true ∧
    (checkInclUpSim InclUpSimEx.exP InclUpSimEx.exQ 20).map (·.1) = some true ∧
    (checkInclUp InclUpSimEx.exP InclUpSimEx.exQ 20).map (·.1) = some true := ⟨by decide, rfl, rfl, rfl⟩

/-! ### "all selections return the same verdict", for the modelled selections -/

/-- any verdicts of the models of seven of the eight selections (the eighth, upward with a relation, is
`C01_upward_sim_agrees` above) (upward; downward non-recursive; downward recursive
without and with the cache functor; downward recursive / non-recursive with a given relation `R`) on the same pair, and
any verdict of the reference, are equal – whatever the fuels and whatever `R` -/
theorem C01_modelled_selections_agree (A B : TA) (R : Rel) (f₀ f₁ f₂ f₃ f₄ f₅ f₆ : Nat) (b₀ b₁ b₂ b₃ b₄ b₅ b₆ : Bool)
    (c₁ c₂ c₃ c₄ c₅ c₆ : Cert)
    (h₀ : inclM A B f₀ = some b₀)
    (h₁ : checkInclUp A B f₁ = some (b₁, c₁))
    (h₂ : checkInclDownNonrec A B f₂ = some (b₂, c₂))
    (h₃ : checkInclDownRec A B f₃ = some (b₃, c₃))
    (h₄ : inclDownOpt (removeUseless A) (removeUseless B) f₄ = some (b₄, c₄))
    (h₅ : inclDownSim A B R f₅ = some (b₅, c₅))
    (h₆ : inclDownNonrecSim A B R f₆ = some (b₆, c₆)) :
    b₁ = b₀ ∧ b₂ = b₀ ∧ b₃ = b₀ ∧ b₄ = b₀ ∧ b₅ = b₀ ∧ b₆ = b₀ := by
  have e₀ := inclM_iff A B f₀ b₀ h₀
  have e₁ := checkInclUp_iff h₁
  have e₂ := checkInclDownNonrec_iff h₂
  have e₃ := checkInclDownRec_iff h₃
  have e₄ := (inclDownOpt_iff h₄).trans (incl_removeUseless A B)
  have e₅ := inclDownSim_iff h₅
  have e₆ := inclDownNonrecSim_iff h₆
  have key : ∀ b : Bool, (b = true ↔ Incl A B) → b = b₀ := fun b e => by
    cases b <;> cases b₀ <;> simp_all
  exact ⟨key _ e₁, key _ e₂, key _ e₃, key _ e₄, key _ e₅, key _ e₆⟩

-- all seven return a verdict on the trimmed, disjoint pair `exS1`, `exS2` with the relation `{(5,6)}`
example : inclM InclDownEx.exS1 InclDownEx.exS2 10 = some true ∧
    (checkInclUp InclDownEx.exS1 InclDownEx.exS2 20).map (·.1) = some true ∧
    (checkInclDownNonrec InclDownEx.exS1 InclDownEx.exS2 10).map (·.1) = some true ∧
    (checkInclDownRec InclDownEx.exS1 InclDownEx.exS2 10).map (·.1) = some true ∧
    (inclDownOpt (removeUseless InclDownEx.exS1) (removeUseless InclDownEx.exS2) 10).map (·.1) = some true ∧
    (inclDownSim InclDownEx.exS1 InclDownEx.exS2 [(5, 6)] 10).map (·.1) = some true ∧
    (inclDownNonrecSim InclDownEx.exS1 InclDownEx.exS2 [(5, 6)] 10).map (·.1) = some true :=
  ⟨by decide, rfl, rfl, rfl, rfl, rfl, rfl⟩

/-! ### "every implemented parameter selection": the dispatcher -/

/-- the `switch` of `ExplicitTreeAutCore::CheckInclusion`, as regenerated from the sources: (1) exactly the eight option
words `UP_NOSIM`, `UP_SIM`, `DOWN_NONREC_NOSIM`, `DOWN_NONREC_SIM`, `DOWN_REC_NOSIM`, `DOWN_REC_SIM`, `DOWN_REC_OPT_NOSIM`,
`DOWN_REC_OPT_SIM` have a case, no word twice; (2) every other word reaches `default`, which throws; (3) in every case
the callee matches the direction / recursion / cache bits of the word (upward ↦ `explUp`, downward non-recursive ↦
`explDownNonrec`, downward recursive ↦ `downRec` with the plain resp. the `Opt` functor); (4) a case with the simulation
bit passes the given relation and the original operands, a case without it the identity and the sanitised copies;
(5) the named option words are the bit combinations their names say -/
theorem C01_dispatch (c : Gen.Case) (hc : c ∈ Gen.explDispatch) :
    Dispatch.sameWords (Dispatch.words Gen.explDispatch) [0, 16, 2, 18, 10, 26, 14, 30] = true ∧
    (Dispatch.words Gen.explDispatch).Nodup ∧
    Gen.explDispatchDefaultThrows = true ∧
    Dispatch.treeConsistent c = true ∧ Dispatch.simConsistent c = true ∧
    (Gen.namedWords.lookup "ANTICHAINS_UP_NOSIM" = some 0 ∧
      Gen.namedWords.lookup "ANTICHAINS_UP_SIM" = some Dispatch.fSim ∧
      Gen.namedWords.lookup "ANTICHAINS_DOWN_NONREC_NOSIM" = some Dispatch.fDir ∧
      Gen.namedWords.lookup "ANTICHAINS_DOWN_NONREC_SIM" = some (Dispatch.fDir ||| Dispatch.fSim) ∧
      Gen.namedWords.lookup "ANTICHAINS_DOWN_REC_NOSIM" = some (Dispatch.fDir ||| Dispatch.fRec) ∧
      Gen.namedWords.lookup "ANTICHAINS_DOWN_REC_OPT_NOSIM" = some (Dispatch.fDir ||| Dispatch.fRec ||| Dispatch.fCache) ∧
      Gen.namedWords.lookup "ANTICHAINS_DOWN_REC_SIM" = some (Dispatch.fDir ||| Dispatch.fRec ||| Dispatch.fSim) ∧
      Gen.namedWords.lookup "ANTICHAINS_DOWN_REC_OPT_SIM" =
        some (Dispatch.fDir ||| Dispatch.fRec ||| Dispatch.fCache ||| Dispatch.fSim)) := by
  have ht := Dispatch.tree_consistent
  have hs := Dispatch.sim_consistent
  simp only [List.all_append, Bool.and_eq_true, List.all_eq_true] at ht hs
  have hn := Dispatch.named_words
  exact ⟨Dispatch.implemented_expl, Dispatch.no_duplicate_cases.1, Dispatch.default_throws.1, ht.1.1 c hc, hs.1.1.1 c hc,
    hn.1, hn.2.1, hn.2.2.1, hn.2.2.2.1, hn.2.2.2.2.1, hn.2.2.2.2.2.1, hn.2.2.2.2.2.2.1, hn.2.2.2.2.2.2.2.1⟩

example : (⟨"ANTICHAINS_DOWN_REC_OPT_SIM", 30, "downRec", "OptDownwardInclusionFunctor", "-", "false", "given"⟩ : Gen.Case) ∈
    Gen.explDispatch := by decide
-- the consistency predicates are not trivially true: a case that sanitises although the simulation bit is set, or that
-- calls the upward code for a downward word, is refused
example : Dispatch.simConsistent ⟨"X", 16, "explUp", "-", "-", "true", "given"⟩ = false ∧
    Dispatch.treeConsistent ⟨"X", 2, "explUp", "-", "-", "true", "identity"⟩ = false := by decide

/-! ### the shape of the verdicts of the other three downward verdict functions -/

/-- what a verdict of the non-recursive model and of the two `Sim` models carries (the analogue of
`C01_downward_verdict_certified`, which is about `inclDownRec`; `inclDownOpt` is `inclDownRec`): `true` comes with a set
of pairs that passed the certificate check – the downward certificate covering the final states for `inclDownNonrec`, the
certificate modulo the preorder `ordOf R A B` of a VALIDATED relation (a downward simulation of the disjoint union of
disjoint operands) for `inclDownSim` / `inclDownNonrecSim` –, `false` with a tree accepted by `A` and rejected by `B` -/
theorem C01_downward_verdicts_certified (A B : TA) (R : Rel) (fuel : Nat) (b : Bool) (c : Cert) :
    (inclDownNonrec A B fuel = some (b, c) →
      match c with
      | .closed X => b = true ∧ DownCert A B X ∧ ∀ f, f ∈ A.final → Sub X f B.final
      | .witness w => b = false ∧ accepts A w = true ∧ accepts B w = false) ∧
    ((inclDownSim A B R fuel = some (b, c) ∨ inclDownNonrecSim A B R fuel = some (b, c)) →
      isDownSimB (unionDisjoint A B) R = true ∧ InclDown.disjointB A B = true ∧
      match c with
      | .closed X => b = true ∧ downCertRB (InclDown.ordOf R A B) A B X = true
      | .witness w => b = false ∧ accepts A w = true ∧ accepts B w = false) := by
  refine ⟨fun h => ?_, fun h => ?_⟩
  · have := InclDown.finish_cert h
    cases c with
    | closed X => exact ⟨this.1, downCertB_sound this.2⟩
    | witness w => exact this
  · rcases h with h | h
    · obtain ⟨h1, h2, h3⟩ := InclDown.sim_cond h
      have := InclDown.finish_cert h3
      cases c <;> exact ⟨h1, h2, this⟩
    · obtain ⟨h1, h2, h3⟩ := InclDown.sim_cond h
      have := InclDown.finish_cert h3
      cases c <;> exact ⟨h1, h2, this⟩

example : inclDownNonrec InclDownEx.exS1 InclDownEx.exS2 10 = some (true, .closed [(1, [3, 4]), (5, [6]), (2, [9])]) ∧
    inclDownNonrecSim InclDownEx.exS1 InclDownEx.exS2 [(5, 6)] 10 = some (true, .closed [(1, [3, 4]), (2, [9])]) :=
  ⟨rfl, rfl⟩

/-! ### ONE theorem for "every implemented parameter selection"

The eight selections of the statement as a type, each with the model that stands for it when the operands are prepared as
the code prepares them (`sanitize`: useless states removed, both operands renumbered with one shared counter) and – for
the selections with the simulation bit – the relation is the one "computed on the disjoint union of the prepared
operands" (`upSimRef` resp. `downSimRef` of `unionDisjoint A' B'`; that `ComputeSimulation` as coded returns these is
C04, `C04_pipeline_upward` / `C04_pipeline_downward`).  `C01Sel.word` is the option word of the selection; the eight words
are exactly the `case` labels of the regenerated dispatcher (`C01_selections_are_the_dispatch_cases`). -/

/-- the eight implemented selections: direction / recursion / implication cache / simulation -/
inductive C01Sel where
  | upNoSim | upSim | downNonrecNoSim | downNonrecSim | downRecNoSim | downRecSim | downRecOptNoSim | downRecOptSim
  deriving DecidableEq, Repr

/-- all of them -/
def C01Sel.all : List C01Sel :=
  [.upNoSim, .upSim, .downNonrecNoSim, .downNonrecSim, .downRecNoSim, .downRecSim, .downRecOptNoSim, .downRecOptSim]

/-- the option word (`InclParam::GetOptions()`) of a selection -/
def C01Sel.word : C01Sel → Nat
  | .upNoSim => 0 | .upSim => 16 | .downNonrecNoSim => 2 | .downNonrecSim => 18
  | .downRecNoSim => 10 | .downRecSim => 26 | .downRecOptNoSim => 14 | .downRecOptSim => 30

/-- the model of a selection on the prepared operands (with the computed relation where the selection uses one).  The
two `Opt` selections run the model of the plain functor (`inclDownOpt` is `inclDownRec` by definition; with a relation the
`Opt` functor is modelled by `inclDownSim`, see the header of `Vata/InclDown.lean`) -/
def C01Sel.model (s : C01Sel) (A B : TA) (fuel : Nat) : Option (Bool × Cert) :=
  let A' := (sanitize A B).1
  let B' := (sanitize A B).2.1
  match s with
  | .upNoSim => checkInclUpSan A B fuel
  | .upSim => checkInclUpSim A B fuel
  | .downNonrecNoSim => inclDownNonrec A' B' fuel
  | .downNonrecSim => inclDownNonrecSim A' B' (downSimRef (unionDisjoint A' B')) fuel
  | .downRecNoSim => inclDownRec A' B' fuel
  | .downRecSim => inclDownSim A' B' (downSimRef (unionDisjoint A' B')) fuel
  | .downRecOptNoSim => inclDownOpt A' B' fuel
  | .downRecOptSim => inclDownSim A' B' (downSimRef (unionDisjoint A' B')) fuel

/-- the explicit fuel bound above which the model of a selection answers: `2·|Δ_A'|·2^|Δ_B'|` (upward, one unit per
processed pair) resp. `|Q_A'|·2^|Q_B'|` (downward, nesting depth of the calls) of the prepared operands -/
def C01Sel.bound (s : C01Sel) (A B : TA) : Nat :=
  match s with
  | .upNoSim | .upSim => fuelBound (sanitize A B).1 (sanitize A B).2.1
  | _ => InclDown.fuelBoundD (sanitize A B).1 (sanitize A B).2.1

/-- **every selection has a model that is exact and total** – the first sentence of the property as one theorem: for
each of the eight selections, every verdict of its model is the truth of `L(A) ⊆ L(B)` for the ORIGINAL operands, and for
every fuel above the explicit bound the model returns that verdict.  No hypothesis on `A`, `B` -/
theorem C01_every_selection_exact_total (s : C01Sel) (A B : TA) :
    (∀ fuel b c, s.model A B fuel = some (b, c) → (b = true ↔ Incl A B)) ∧
    (∀ fuel, s.bound A B < fuel →
      (Incl A B → ∃ c, s.model A B fuel = some (true, c)) ∧ (¬ Incl A B → ∃ c, s.model A B fuel = some (false, c))) := by
  have hd := C01_downward_prepared_exact A B _ _ _ rfl rfl rfl
  cases s with
  | upNoSim => exact C01_upward_sanitised_exact A B
  | upSim => exact C01_upward_sim_prepared_exact A B
  | downNonrecNoSim =>
    exact ⟨fun f b c h => hd.1 f b c (Or.inr (Or.inl h)),
      fun f hf => ⟨fun hi => ((hd.2 f hf).1 hi).2.1, fun hn => ((hd.2 f hf).2 hn).2.1⟩⟩
  | downNonrecSim =>
    exact ⟨fun f b c h => hd.1 f b c (Or.inr (Or.inr (Or.inr h))),
      fun f hf => ⟨fun hi => ((hd.2 f hf).1 hi).2.2.2, fun hn => ((hd.2 f hf).2 hn).2.2.2⟩⟩
  | downRecNoSim =>
    exact ⟨fun f b c h => hd.1 f b c (Or.inl h),
      fun f hf => ⟨fun hi => ((hd.2 f hf).1 hi).1, fun hn => ((hd.2 f hf).2 hn).1⟩⟩
  | downRecSim =>
    exact ⟨fun f b c h => hd.1 f b c (Or.inr (Or.inr (Or.inl h))),
      fun f hf => ⟨fun hi => ((hd.2 f hf).1 hi).2.2.1, fun hn => ((hd.2 f hf).2 hn).2.2.1⟩⟩
  | downRecOptNoSim =>
    exact ⟨fun f b c h => hd.1 f b c (Or.inl h),
      fun f hf => ⟨fun hi => ((hd.2 f hf).1 hi).1, fun hn => ((hd.2 f hf).2 hn).1⟩⟩
  | downRecOptSim =>
    exact ⟨fun f b c h => hd.1 f b c (Or.inr (Or.inr (Or.inl h))),
      fun f hf => ⟨fun hi => ((hd.2 f hf).1 hi).2.2.1, fun hn => ((hd.2 f hf).2 hn).2.2.1⟩⟩

-- all eight models answer on the overlapping, untrimmed pair of `SanEx` – `true` one way, `false` the other
example : ∀ s : C01Sel, (∃ c, s.model SanEx.exA SanEx.exB 20 = some (true, c)) ∧
    (∃ c, s.model SanEx.exB SanEx.exA 20 = some (false, c)) := by
  intro s; cases s <;> exact ⟨⟨_, rfl⟩, ⟨_, rfl⟩⟩
example : ∀ s : C01Sel, s.bound SanEx.exA SanEx.exB < 33 := by intro s; cases s <;> decide

/-- **"and therefore all selections return the same verdict on the same pair"**: any verdict of the model of any
selection equals any verdict of the model of any other selection and any verdict of the reference, whatever the fuels -/
theorem C01_every_selection_same_verdict (s s' : C01Sel) (A B : TA) (f f' f₀ : Nat) (b b' b₀ : Bool) (c c' : Cert)
    (h : s.model A B f = some (b, c)) (h' : s'.model A B f' = some (b', c')) (h₀ : inclM A B f₀ = some b₀) :
    b = b' ∧ b = b₀ := by
  have e := (C01_every_selection_exact_total s A B).1 f b c h
  have e' := (C01_every_selection_exact_total s' A B).1 f' b' c' h'
  have e₀ := inclM_iff A B f₀ b₀ h₀
  constructor
  · cases b <;> cases b' <;> simp_all
  · cases b <;> cases b₀ <;> simp_all

example : (C01Sel.upSim.model SanEx.exA SanEx.exB 20).map (·.1) = some true ∧
    (C01Sel.downNonrecSim.model SanEx.exA SanEx.exB 20).map (·.1) = some true ∧ inclM SanEx.exA SanEx.exB 20 = some true :=
  ⟨rfl, rfl, by decide⟩

/-- the eight selections are exactly the implemented cases: their option words are the `case` labels of the regenerated
`switch` (no other word has a case, every other word throws – `C01_dispatch`), pairwise different, and each is the word its
name says (direction / recursion / cache / simulation bits) -/
theorem C01_selections_are_the_dispatch_cases :
    Dispatch.sameWords (Dispatch.words Gen.explDispatch) (C01Sel.all.map C01Sel.word) = true ∧
    (C01Sel.all.map C01Sel.word).Nodup ∧ (∀ s : C01Sel, s ∈ C01Sel.all) ∧
    (∀ s : C01Sel, Dispatch.has s.word Dispatch.fDir = decide (s ≠ .upNoSim ∧ s ≠ .upSim) ∧
      Dispatch.has s.word Dispatch.fSim = decide (s = .upSim ∨ s = .downNonrecSim ∨ s = .downRecSim ∨ s = .downRecOptSim) ∧
      Dispatch.has s.word Dispatch.fRec =
        decide (s = .downRecNoSim ∨ s = .downRecSim ∨ s = .downRecOptNoSim ∨ s = .downRecOptSim) ∧
      Dispatch.has s.word Dispatch.fCache = decide (s = .downRecOptNoSim ∨ s = .downRecOptSim)) :=
  ⟨Dispatch.implemented_expl, by decide, fun s => by cases s <;> decide, fun s => by cases s <;> decide⟩

example : C01Sel.all.map C01Sel.word = [0, 16, 2, 18, 10, 26, 14, 30] := rfl

/-!
## closed since the last refresh of this file

* "No totality theorem for the reference deciders `inclM` / `inclRef`": `C01_reference_total`,
  `C01_reference_total_decides` (`Vata/Properties/RefTotal.lean`; bound `fuelBoundM [A, B] ≤ 2^(|Q_A|+|Q_B|)`, and
  `driver_two_operand_verdicts`: the driver's fuel suffices for operands of at most 9 states each).
* "the analogous shape statement for the other three verdict functions … is not spelled out":
  `C01_downward_verdicts_certified`.
* "The address-keyed caches … are replaced by value comparison" – the classes behind that replacement now have models of
  their own, checked against the real classes by histories: `Util::Cache` + `CachedBinaryOp` (`Vata/CacheModel.lean`;
  `Util_Cache_interning`: two handles are pointer-equal iff the interned sets are equal; `Util_Cache_memo_sound`: a memoised
  `lte` answers the function value whatever was memoised before and whichever addresses were reused, PROVIDED the deleter
  purges both key positions – which is what the deleter lambdas of the three sites denote now,
  `Vata.CacheWiring.cache_wiring_is_lib`, re-checked on every run), the macro-state container `OrdVector`
  (`Util_OrdVector_history`, `Util_OrdVector_eq`: `==` is equality of the denoted sets), the antichain containers
  (`Util_Antichain_offer_history`, `Util_Antichain_any_history_2C`) and the bottom-up index of the upward algorithm
  (`Util_Cache_bu_index`).  What is still open about them is the last item below.
* "That the relation the C++ `ComputeSimulation` returns … is C04": C04 now has the route as coded end to end
  (`C04_pipeline_downward`, `C04_pipeline_upward` in `Vata/Properties/C04_Pipeline.lean`).
* The first sentence of the property as ONE statement over the eight selections: `C01_every_selection_exact_total`,
  `C01_every_selection_same_verdict`, `C01_selections_are_the_dispatch_cases`.
* How a user of the binary reaches the option words: `Vata/Properties/Util_CliArgs.lean` (`Util_CliArgs_incl_word_spec`:
  the word is the flag-wise reading of the `-o` options; `Util_CliArgs_every_selection_reachable_partial`: every case of the
  explicit dispatcher is reachable by some option string; `Util_CliArgs_unimplemented`: every other accepted combination
  reaches `default`, which throws).

## not yet proved

* **Upward with a simulation outside its preconditions.**  Every verdict of `inclUpSim` is exact unconditionally
  (`C01_upward_sim_exact`); a verdict is only guaranteed when the given relation passes the validation (an upward
  simulation of the disjoint union, operands with disjoint states), is transitive and reflexive on the parents of the
  rules, and the smaller operand is trimmed.  The C++ library entry point passes the caller's operands and relation
  through unchecked (`C01_dispatch`, item 4) – on operands that share a state number the pruned exploration can end with
  `return true` although the inclusion is false (`InclUpSimEx`, the pair `exDeep`/`exA`); the model then refuses.  On the
  prepared operands with the computed relation all preconditions hold (`C01_upward_sim_prepared_exact`).  That the
  relation the C++ `ComputeSimulation` returns for `TA_UPWARD` is `upSimRef` of the union is C04 (`C04_pipeline_upward`: the
  route as coded returns `upSimRef` on an automaton without useless states – which the union of the prepared operands is).
  Hash-container iteration orders are replaced by list order: which of several simulation-equivalent states represents
  them in a minimised macro-state may differ from the C++ run (the verdict does not depend on it).
* **"With or without the implication cache"**: the model of the `Opt` functor is the model of the plain functor by
  definition (`C01_downward_cache_same_computation`, first component is `rfl`).  That `OptDownwardInclusionFunctor`
  never fills its cache `incl_` is an argument about the C++ source (header of `Vata/InclDown.lean`), not a theorem.
* **The downward `Sim` selections outside their preconditions.**  Every verdict is exact unconditionally
  (`C01_downward_sim_exact`), but a verdict is only guaranteed when the given relation passes the validation (a downward
  simulation on the disjoint union, operands with disjoint states), the rule children of the smaller operand are
  productive and – for the non-recursive variant – the relation is transitive.  The C++ passes the caller's relation and
  the caller's operands through unchecked (`C01_dispatch`, item 4); on the prepared operands with the computed relation
  all preconditions hold (`C01_downward_prepared_exact`).  That the relation the C++ `ComputeSimulation` returns is
  `downSimRef` of the union is C04 (`C04_pipeline_downward`, for the route as coded with the model of the engine).
* **Link between the dispatch table and the models.**  `C01_dispatch` / `C01_selections_are_the_dispatch_cases` are about
  the table regenerated from the sources; which Lean model stands for which callee of the table (`C01Sel.model`) is the
  reading given in the header, not a theorem.  The same holds at the other end: `Util_CliArgs_*` is about a model of
  `cli/parse_args.cc` / `cli/operations.hh`; with `sim=yes` the command line calls `ComputeSimulation` before the dispatcher
  (`perform`, `Util_CliArgs_perform_examples`), the library entry point takes whatever relation the caller passes.
* The non-recursive algorithm's **call emulator** (explicit stack of frames, `EXPAND_CALL` / `EXPAND_RETURN` macros) is
  modelled by recursion (`InclDown.expandN`); hash-container iteration orders are replaced by list order.
* **Containers and caches inside the algorithms.**  The models of the algorithms keep their macro-states, antichains and
  work-lists in lists of values and compare by value; the real classes (`Cache`, `CachedBinaryOp`, `OrdVector`,
  `Antichain2Cv2`, `Antichain1C`, `SequentialAntichain1C`) have separate models with history theorems (`Util_Cache_*`,
  `Util_OrdVector_*`, `Util_Antichain_*`, see the "closed" list).  No theorem connects the two layers: "the work-list of
  `InclUp.run` IS a history of `Antichain2Cv2` operations" is not stated, and that `lte` is only ever asked about live
  macro-states (the hypothesis under which `Util_Cache_memo_sound` speaks) is the call discipline of the algorithms, read
  off the sources.  Destruction order of cache and antichains (`tree_incl_down.hh`) is outside the cache model.
  For the upward algorithm WITHOUT simulation the two layers are now connected: `C01_upward_caches_transparent`
  (`Vata/Properties/C01_Caches.lean`: the algorithm with `biggerTypeCache`, `lteCache`, `evalTransitionsCache` over a heap with
  dying objects and an arbitrary allocator equals `inclUp`); the other selections remain open in this sense.
* No lower bound on the fuel the reference deciders need is proved.  The fuel bounds of the models (`fuelBound`,
  `fuelBoundD`) and of the references (`fuelBoundM`) are exponential worst-case bounds, not tight.
-/
end Vata.Props
