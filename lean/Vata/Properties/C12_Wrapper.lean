import Vata.Proofs.WrapperOrder
/-!
# C12 / C13 / C19 – the public wrapper `ExplicitTreeAut`: alphabets and symbol translation on top of the core

Serves the "not yet proved" item of `C12.lean`: *"The public wrapper `ExplicitTreeAut` (alphabet / symbol translation on
top of the core) is not modelled; symbols are numbers."*, and the wrapper-level readings of C13 (load ∘ dump) and C19
(registering the symbols in a different order).

## how the C++ is read into the model (`Vata/Wrapper.lean`)

* `include/vata/explicit_tree_aut.hh`, `src/explicit_tree_aut.cc`: the wrapper owns `core_` and every method forwards
  (`Wrapper.wrapperForwards`, extracted by reading each body).  The state that the wrapper adds to the core's rules and
  final states is the `alphabet_` pointer: a `World` is a heap of alphabet objects (`alphas`, index 0 = the process-wide
  `globalAlphabet_`) and a list of automata, each a core `TA` with the index of its alphabet.  `Wrapper.step` is one public
  call (`Wrapper.Op`), `Wrapper.Reach` the worlds reachable from program start, `dumpW` / `toStringW` the observers.
* `OnTheFlyAlphabet` = dictionary + counter `nextSymbol_` (a field of the model, not derived); `DirectAlphabet` = no
  forward translation (`NotImplementedException`), back translation `n ↦ (ToString n, 0)`.
* which operation gives which alphabet to its result was read off the constructors used in `src/explicit_tree_*.cc`
  (table in `Vata/Wrapper.lean`) and CHECKED on the real library (probe `scratch/probe.cc` of this task: pointer
  comparisons `res.GetAlphabet () == own / global` after each operation, the texts of `ToString`, of the dump and of the
  exceptions): all lines of the table, the `ToString` format `a() -> 1`, `No translation for 1`,
  `Not implemented: GetSymbolTransl`, `Not implemented: Complement not implemented for the given alphabet type` agree.

## what is abstracted

Cores are `Vata.TA` (lists as sets); `Union` / `Intersection` / `IntersectionBU` / `GetCandidateTree` / `Complement` / the
quotient of `Reduce` enter as functions on cores (their results are specified elsewhere; here only the alphabet of the
result matters); moves are not modelled; indices into the heap that do not exist are model-level errors.

## findings (genuine behaviour of the library, reproduced with the probe)

* **results lose the alphabet.**  `Union`, `Intersection`, `IntersectionBU`, `RemoveUselessStates`, `GetCandidateTree`,
  `Complement`, and `RemoveUnreachableStates` / `Reduce` whenever something is removed, return an automaton on the GLOBAL
  alphabet, whatever the alphabet of the operands (`ExplicitTreeAutCore res (lhs.cache_)` takes the default argument
  `globalAlphabet_`).  For an automaton on an alphabet of its own (`SetAlphabet`, as in `examples/example14.cc`) the result's
  symbol numbers are then read through the wrong dictionary: `ToString` / `DumpToString` throw `No translation for n`, or –
  once the global alphabet has registered other symbols – silently print OTHER SYMBOL NAMES
  (`C12_wrapper_result_alphabet_defect`).  `UnionDisjointStates` keeps `lhs`'s alphabet and never looks at `rhs`'s.
  No operation compares the alphabets of its operands.
* `GetDown`, `LoadFromAutDesc (desc, params)`, `LoadFromAutDesc (desc, stateTransl, params)` and the template
  `RemoveUnreachableStates (rel, index)` are declared in the public header and defined nowhere (`Wrapper.undefinedMethods`).
-/
namespace Vata.Props
open Vata Vata.Wrapper Vata.LoadDump Vata.Dict Vata.Timbuk

/-! ## (a) the forwarding table -/

/-- every wrapper method of `wrapperForwardsSame` calls the core method of its own name; the other entries are the
documented exceptions (constructors, moves, four declared-but-undefined methods, `PrintSimulationMapping`) -/
theorem C12_wrapper_forwarding_sane :
    forwardsSane = true ∧ wrapperForwardsSame.length = 55 ∧ wrapperForwardsOther.length = 10 ∧
      undefinedMethods = ["GetDown", "LoadFromAutDesc(desc,params)", "LoadFromAutDesc(desc,stateTransl,params)",
        "RemoveUnreachableStates(rel,index)"] := by
  decide +kernel

/-! ## (b) symbol numbers and (name, rank) -/

/-- **every alphabet object of every reachable world is two-way**: after ANY sequence of public calls (loads with
pre-filled state dictionaries, raw `AddTransition`, `SetAlphabet`, copies of alphabets, operations, calls that throw), in
every `OnTheFlyAlphabet`: `nextSymbol_` is the number of registered symbols, the numbers in use are exactly
`0 … nextSymbol_ - 1`, every number has exactly one `(name, rank)` and every `(name, rank)` exactly one number. -/
theorem C12_wrapper_alphabet_two_way {w : World} (h : Reach w) {a : Nat} {d : SymDict} {n : Nat}
    (ha : w.alphas[a]? = some (.otf d n)) :
    n = d.length ∧ (∀ k v, d.bwd? v = some k ↔ d.fwd? k = some v) ∧
      (∀ v, (∃ k, d.bwd? v = some k) ↔ v < n) ∧
      (∀ v k k', d.bwd? v = some k → d.bwd? v = some k' → k = k') ∧
      (∀ k v v', d.fwd? k = some v → d.fwd? k = some v' → v = v') ∧
      (∀ k k' v, d.fwd? k = some v → d.fwd? k' = some v → k = k') :=
  reach_alphabet_two_way h ha

def exOwn : AutDesc :=
  { name := "A", symbols := [("a", 0), ("f", 2)], states := ["q", "r"], final := ["r"],
    trans := [([], "a", "q"), (["q", "q"], "f", "r")] }
def exOther : AutDesc :=
  { name := "C", symbols := [], states := ["p"], final := ["p"], trans := [([], "zz", "p"), (["p", "p"], "g", "p")] }
/-- a world with two alphabets in use -/
def exW : World := run World.init [.newAut, .newOtf, .setAlphabet 0 1, .load 0 exOwn [], .newAut, .load 1 TimbukEx.exD []]
example : Reach exW := reach_run .init _
example : exW.alphas[1]? = some (.otf [(("a", 0), 0), (("f", 2), 1)] 2) := by rfl

/-- **everything that came in through an alphabet is ranked.**  Along calls that do not by-pass the alphabet (`Safe`:
any load on any alphabet with any state dictionary, construction, copies, assignment, new alphabets, `SetStateFinal`,
`Clear`, `ReindexStates`; `SetAlphabet` on an automaton without rules; `AddTransition` with a number obtained from the
alphabet for that arity; operations whose result stays on the operands' alphabet): for every rule of every automaton,
the automaton's `OnTheFlyAlphabet` translates the rule's symbol number back to a `StringRank` whose rank IS the rule's
number of children.  Hence two rules (of automata on the same alphabet) with the same symbol number have the same number
of children: the core's "symbol = number" and the L0 "symbol with its arity" coincide. -/
theorem C12_wrapper_symbols_ranked {w : World} (h : ReachSafe w) :
    w.Ranked ∧
    ∀ A B, A ∈ w.auts → B ∈ w.auts → A.alpha = B.alpha → ∀ d n, w.alphas[A.alpha]? = some (.otf d n) →
      ∀ r r', r ∈ A.core.rules → r' ∈ B.core.rules → r.sym = r'.sym → r.kids.length = r'.kids.length :=
  ⟨reachSafe_ranked h, fun _ _ hA hB hab _ _ hal _ _ hr hr' e =>
    ranked_same_arity (reachSafe_ranked h) hA hB hab hal hr hr' e⟩

/-- non-vacuity: construct, own alphabet, load, a second automaton on the same alphabet, trim the first (on the global
alphabet trimming is safe; here the automaton is on alphabet 1, so only the operations that keep the alphabet are used) -/
example : ReachSafe (run World.init [.newAut, .newOtf, .setAlphabet 0 1, .load 0 TimbukEx.exE [], .copyAut 0 true true,
    .load 1 TimbukEx.exD [("x", 5)], .reindex 1 (· + 1), .unionDisjoint 0 1]) := by
  refine .step (.unionDisjoint 0 1) (.step (.reindex 1 (· + 1)) (.step (.load 1 TimbukEx.exD [("x", 5)])
    (.step (.copyAut 0 true true) (.step (.load 0 TimbukEx.exE []) (.step (.setAlphabet 0 1) (.step .newOtf
    (.step .newAut .init trivial rfl) trivial rfl) ?_ rfl) trivial rfl) trivial rfl) trivial rfl) trivial rfl) ?_ rfl
  · intro A hA; cases hA; exact Or.inl rfl
  · intro L R hL hR; cases hL; cases hR; rfl

/-- **the raw API is not ranked**: `AddTransition (children, symbol, parent)` takes a NUMBER; one number at two arities is
a reachable state (and its alphabet does not know the number: `ToString` throws) -/
theorem C12_wrapper_raw_addTransition_unranked :
    ∃ w, Reach w ∧ ¬ w.Ranked ∧
      ∃ A r r', w.auts[0]? = some A ∧ r ∈ A.core.rules ∧ r' ∈ A.core.rules ∧ r.sym = r'.sym ∧
        r.kids.length ≠ r'.kids.length ∧ toStringW w 0 r = .error "No translation for 7" := by
  refine ⟨run World.init [.newAut, .addTransition 0 [] 7 0, .addTransition 0 [0, 0] 7 0], reach_run .init _, ?_,
    ⟨⟨[⟨7, [], 0⟩, ⟨7, [0, 0], 0⟩], []⟩, 0⟩, ⟨7, [], 0⟩, ⟨7, [0, 0], 0⟩, rfl, by simp, by simp, rfl, by simp, rfl⟩
  intro h
  obtain ⟨nm, e⟩ := h ⟨⟨[⟨7, [], 0⟩, ⟨7, [0, 0], 0⟩], []⟩, 0⟩ (List.mem_singleton.mpr rfl) (.otf [] 0) rfl ⟨7, [], 0⟩
    (by simp)
  cases e

/-! ### the alphabet of results (defect) -/

/-- `examples/example14.cc` up to the operation: an automaton on an alphabet of its own, loaded, then
`RemoveUselessStates ()` (automaton 1) -/
def exDefect : World := run World.init [.newAut, .newOtf, .setAlphabet 0 1, .load 0 exOwn [], .removeUseless 0]

/-- **the result of an operation is on the global alphabet, not on its operand's** (as in the real library, see the
header): the trimmed copy (automaton 1) of an automaton on alphabet 1 points to alphabet 0; its rules still carry the
numbers of alphabet 1; `ToString` and the dump of the original work, those of the result throw; and after the global
alphabet has registered two other symbols the dump of the result silently shows THEIR names. -/
theorem C12_wrapper_result_alphabet_defect :
    Reach exDefect ∧
    (exDefect.auts.map (·.alpha) = [1, 0]) ∧
    toStringW exDefect 0 ⟨1, [1, 1], 0⟩ = .ok "f(1, 1) -> 0" ∧
    toStringW exDefect 1 ⟨1, [1, 1], 0⟩ = .error "No translation for 1" ∧
    dumpW exDefect 0 [("r", 0), ("q", 1)] = .ok (⟨"", [], [], ["r"], [([], "a", "q"), (["q", "q"], "f", "r")]⟩ : AutDesc) ∧
    dumpW exDefect 1 [("r", 0), ("q", 1)] = .error "No translation for 0" ∧
    dumpW (run exDefect [.newAut, .load 2 exOther []]) 1 [("r", 0), ("q", 1)] =
      .ok (⟨"", [], [], ["r"], [([], "zz", "q"), (["q", "q"], "g", "r")]⟩ : AutDesc) :=
  ⟨reach_run .init _, by rfl, by rfl, by rfl, by rfl, by rfl, by rfl⟩

/-- `UnionDisjointStates (lhs, rhs)` of automata on DIFFERENT alphabets is not rejected: the result is on `lhs`'s
alphabet and contains `rhs`'s rules with `rhs`'s numbers – here number 0 is `a` (rank 0) for `lhs` and was `zz` for `rhs`,
number 1 is `f` (rank 2): the rule `g(p, p) -> p` of `rhs` is printed as `f(0, 0) -> 0`. -/
theorem C12_wrapper_mixed_alphabets_unchecked :
    ∃ w, Reach w ∧ (w.auts.map (·.alpha) = [1, 0, 1]) ∧
      toStringW w 1 ⟨1, [0, 0], 0⟩ = .ok "g(0, 0) -> 0" ∧ toStringW w 2 ⟨1, [0, 0], 0⟩ = .ok "f(0, 0) -> 0" :=
  ⟨run World.init [.newAut, .newOtf, .setAlphabet 0 1, .load 0 exOwn [], .newAut, .load 1 exOther [], .unionDisjoint 0 1],
    reach_run .init _, by rfl, by rfl, by rfl⟩

/-! ## (c) `ToString (trans)` -/

/-- **`ToString` throws iff the symbol is not registered**: for an automaton of a reachable world, `ToString (trans)`
throws exactly when the automaton's alphabet is an `OnTheFlyAlphabet` and the symbol number is not smaller than its
`nextSymbol_` (equivalently: the reverse map has no entry); the exception text is `No translation for <number>`;
otherwise the result is `name(c₁, …, cₖ) -> parent` with the registered name.  On a `DirectAlphabet` it never throws. -/
theorem C12_wrapper_tostring_total {w : World} (h : Reach w) {i : Nat} {A : WAut} (hA : w.auts[i]? = some A) (t : Rule) :
    ∃ al, w.alphas[A.alpha]? = some al ∧
      ((∃ msg, toStringW w i t = .error msg) ↔ ∃ d n, al = .otf d n ∧ n ≤ t.sym) ∧
      (∀ d n, al = .otf d n → n ≤ t.sym → toStringW w i t = .error ("No translation for " ++ toString t.sym)) ∧
      (∀ d n, al = .otf d n → t.sym < n → ∃ k, d.bwd? t.sym = some k ∧ d.fwd? k = some t.sym ∧
        toStringW w i t = .ok (k.1 ++ "(" ++ joinNums t.kids ++ ") -> " ++ toString t.parent)) := by
  have hok := reach_ok h
  have hA' : w.aut? i = .ok A := by unfold World.aut?; rw [hA]
  have hlt := hok.alpha A (List.mem_of_getElem? hA)
  obtain ⟨al, hal⟩ : ∃ al, w.alphas[A.alpha]? = some al := ⟨w.alphas[A.alpha], List.getElem?_eq_getElem hlt⟩
  have hal' : w.alpha? A.alpha = .ok al := by unfold World.alpha?; rw [hal]
  have key : ∀ d n, al = .otf d n → (d.bwd? t.sym = none ↔ n ≤ t.sym) := by
    intro d n e
    subst e
    obtain ⟨hd, hn⟩ := hok.alphas _ (List.mem_of_getElem? hal)
    rw [hn]; exact hd.bwd_none
  refine ⟨al, hal, ?_, ?_, ?_⟩
  · rw [toStringW_error_iff hA' hal' t]
    constructor
    · rintro ⟨d, n, e, hb⟩; exact ⟨d, n, e, (key d n e).mp hb⟩
    · rintro ⟨d, n, e, hb⟩; exact ⟨d, n, e, (key d n e).mpr hb⟩
  · intro d n e hn
    subst e
    exact toStringW_error_msg hA' hal' t ((key d n rfl).mpr hn)
  · intro d n e hn
    subst e
    obtain ⟨hd, hn'⟩ := hok.alphas _ (List.mem_of_getElem? hal)
    obtain ⟨k, hk⟩ := hd.bwd_some_of_lt (hn' ▸ hn)
    exact ⟨k, hk, hd.bwd_fwd.mp hk, toStringW_ok hA' hal' t hk⟩

example : exW.auts[0]? = some ⟨⟨[⟨0, [], 1⟩, ⟨1, [1, 1], 0⟩], [0]⟩, 1⟩ := by rfl
example : toStringW exW 0 ⟨1, [1, 1], 0⟩ = .ok "f(1, 1) -> 0" ∧ toStringW exW 0 ⟨0, [], 1⟩ = .ok "a() -> 1" ∧
    toStringW exW 0 ⟨2, [], 1⟩ = .error "No translation for 2" := ⟨by rfl, by rfl, by rfl⟩

/-- on a `DirectAlphabet`: `ToString` never throws and prints the number; loading throws -/
example : ∃ w, Reach w ∧ toStringW w 0 ⟨7, [0, 0], 0⟩ = .ok "7(0, 0) -> 0" ∧
    loadW w 0 exOwn [] = .error "Not implemented: GetSymbolTransl" :=
  ⟨run World.init [.newAut, .addTransition 0 [0, 0] 7 0, .newDirect, .setAlphabet 0 1], reach_run .init _, by rfl, by rfl⟩

/-! ## C13 / C19 through the wrapper -/

/-- **C13 through the wrapper.**  `LoadFromAutDesc (desc, stateDict)` with an empty `stateDict` into an empty automaton
whose alphabet is an `OnTheFlyAlphabet` (in whatever state the program left it), then `DumpToAutDesc (stateDict)`: the
load succeeds, the dump succeeds and is exactly the final states and the transitions of the description in `std::set`
order (no name, no symbols, no states). -/
theorem C13_wrapper_load_dump {w : World} (hw : Reach w) {i a : Nat} {yd : SymDict} {n : Nat}
    (hA : w.aut? i = .ok ⟨⟨[], []⟩, a⟩) (hal : w.alpha? a = .ok (.otf yd n)) (d : AutDesc) :
    ∃ w' sd, loadW w i d [] = .ok (w', sd) ∧ dumpW w' i sd = .ok (dumpOf d.final d.trans) := by
  obtain ⟨w', sd, h1, h2, _⟩ := dumpW_loadW hw hA hal d
  exact ⟨w', sd, h1, h2⟩

/-- two fresh automata, each on a fresh alphabet of its own -/
def exFresh : World := run World.init [.newAut, .newOtf, .setAlphabet 0 1, .newAut, .newOtf, .setAlphabet 1 2]
example : Reach exFresh ∧ exFresh.aut? 0 = .ok ⟨⟨[], []⟩, 1⟩ ∧ exFresh.alpha? 1 = .ok (.otf [] 0) ∧
    exFresh.aut? 1 = .ok ⟨⟨[], []⟩, 2⟩ ∧ exFresh.alpha? 2 = .ok (.otf [] 0) :=
  ⟨reach_run .init _, rfl, rfl, rfl, rfl⟩

/-- **C19 through the wrapper: the order of first occurrence does not matter.**  The same description up to the order
(and repetition) of its symbols, final states and transitions, loaded with fresh state dictionaries into two empty
automata whose `OnTheFlyAlphabet`s have the same content `yd` (two FRESH alphabets: `yd = []`): both loads succeed; the
symbol numbers that the two alphabets hand out differ by a bijection `g` (name by name), the state numbers by a bijection
`h`; the second automaton is the `h`,`g`-image of the first and accepts exactly the `g`-renamed trees; and the renumbering
is undone by the dump: `DumpToAutDesc` of the two automata (each with its own alphabet and dictionary) is THE SAME
description. -/
theorem C19_wrapper_alphabet_order_invariant {w₁ w₂ : World} (hw₁ : Reach w₁) (hw₂ : Reach w₂) {i₁ i₂ a₁ a₂ : Nat}
    {yd : SymDict} {n₁ n₂ : Nat} (hA₁ : w₁.aut? i₁ = .ok ⟨⟨[], []⟩, a₁⟩) (hA₂ : w₂.aut? i₂ = .ok ⟨⟨[], []⟩, a₂⟩)
    (hal₁ : w₁.alpha? a₁ = .ok (.otf yd n₁)) (hal₂ : w₂.alpha? a₂ = .ok (.otf yd n₂))
    (d₁ d₂ : AutDesc) (hs : d₁.symbols ≈ d₂.symbols) (hf : d₁.final ≈ d₂.final) (ht : d₁.trans ≈ d₂.trans) :
    ∃ w₁' sd₁ w₂' sd₂ A₁ A₂ yd₁ yd₂ h g,
      loadW w₁ i₁ d₁ [] = .ok (w₁', sd₁) ∧ loadW w₂ i₂ d₂ [] = .ok (w₂', sd₂) ∧
      w₁'.aut? i₁ = .ok ⟨A₁, a₁⟩ ∧ w₂'.aut? i₂ = .ok ⟨A₂, a₂⟩ ∧
      w₁'.alpha? a₁ = .ok (.otf yd₁ yd₁.length) ∧ w₂'.alpha? a₂ = .ok (.otf yd₂ yd₂.length) ∧
      (Function.Injective h ∧ Function.Surjective h) ∧ (Function.Injective g ∧ Function.Surjective g) ∧
      (∀ q, q ∈ sd₁.keys → h (sd₁.get q) = sd₂.get q) ∧ (∀ k, k ∈ yd₁.keys → g (yd₁.get k) = yd₂.get k) ∧
      (∀ r, r ∈ A₂.rules ↔ r ∈ (translateSymbols g (reindex h A₁)).rules) ∧
      (∀ q, q ∈ A₂.final ↔ q ∈ (translateSymbols g (reindex h A₁)).final) ∧
      (∀ t, accepts A₂ (t.mapSyms g) = accepts A₁ t) ∧
      ∃ dd, dumpW w₁' i₁ sd₁ = .ok dd ∧ dumpW w₂' i₂ sd₂ = .ok dd :=
  load_order_wrapper hw₁ hw₂ hA₁ hA₂ hal₁ hal₂ d₁ d₂ hs hf ht

/-- non-vacuity: `exE` and `exE'` list the same things in different orders; loaded into the two fresh automata of
`exFresh` the alphabets number `a`, `f` as 0, 1 and as 1, 0 -/
example : TimbukEx.exE.symbols ≈ LoadDumpEx.exE'.symbols ∧ TimbukEx.exE.final ≈ LoadDumpEx.exE'.final ∧
    TimbukEx.exE.trans ≈ LoadDumpEx.exE'.trans := LoadDumpEx.exE_exE'
example : (run exFresh [.load 0 TimbukEx.exE [], .load 1 LoadDumpEx.exE' []]).alphas =
    [.otf [] 0, .otf [(("a", 0), 0), (("f", 2), 1)] 2, .otf [(("f", 2), 0), (("a", 0), 1)] 2] := by rfl

/-!
## still not proved

* The forwarding table is a transcription of `src/explicit_tree_aut.cc` checked for internal sanity only
  (`C12_wrapper_forwarding_sane`); that each wrapper body really is the listed call is not a theorem (candidate for
  regeneration from the sources).  Iterator / `AcceptTrans` / `DownAccessor` wrapper classes (pure pimpl forwarding) and
  the move constructor / move assignment (which leave `core_ == nullptr`: every later call on the moved-from object is
  undefined behaviour under `NDEBUG`) are not modelled.
* `C12_wrapper_symbols_ranked` is about `Safe` call sequences; for `Union`, `Intersection`, `IntersectionBU`,
  `GetCandidateTree`, `Complement`, `CollapseStates` and the quotient of `Reduce` the condition "the result uses only
  (symbol, arity) pairs of the operands (or of the alphabet)" is a hypothesis on the function in the `Op` (`Safe`), not
  derived from the models of these operations; for `RemoveUnreachableStates`, `RemoveUselessStates`, `ReindexStates`,
  `UnionDisjointStates`, `TranslateSymbols` it is proved from the coded models.
* `Complement` reads the ranks from the alphabet (all registered symbols, also those of other automata sharing it): the
  connection of `Op.core1 .complement` with the complement models of `Vata/Compl*.lean` (signature := the alphabet's
  dictionary) is not made.
* The text level (`LoadFromString` / `DumpToString` = parser / serializer around the calls modelled here) is in
  `C13_LoadDump.lean` for the shared global alphabet and not restated for worlds.
* `C19_wrapper_alphabet_order_invariant` needs the two alphabets to start with the same content and the automata to be
  empty; for alphabets with different content the symbol bijection exists only between the symbols of the description.
* That `Wrapper.step` is a faithful transcription of the C++ is supported by the probe run quoted in the header only.
-/
end Vata.Props
