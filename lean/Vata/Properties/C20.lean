import Vata.Proofs.RcStore
import Vata.Proofs.CowHeap
import Vata.Proofs.CowHeap3
import Vata.Proofs.Store
import Vata.Proofs.IsectModel
import Vata.Proofs.MtbddOps
import Vata.Proofs.Sanitize
import Vata.Proofs.IsectBU
import Vata.Proofs.StoreRefine
import Vata.Properties.C08_Isect
import Vata.Properties.C11_Extended
import Vata.Properties.C12_Iterators
import Vata.Properties.CacheWiring
import Vata.Properties.Util_Cache
import Vata.Properties.Util_Antichain
import Vata.Properties.Util_OrdVector
import Vata.Properties.Util_LtsUtil
import Vata.Properties.Util_BinRel
import Vata.Properties.Util_CliArgs
import Vata.Properties.Util_Glue
/-!
# C20 – Operations on well-formed automata have no memory errors or undefined behaviour

> Loading, combining, trimming, reducing, complementing, simulating and comparing well-formed automata in any encoding
> never reads uninitialised or freed memory, never accesses memory out of bounds, never frees memory twice, and never
> executes undefined behaviour such as using an uninitialised counter, dereferencing a past-the-end iterator or
> overflowing signed arithmetic on state numbers.

(quantifier: *for all well-formed automata and all sequences of public operations on them within one process*)

## How the statement is read into the model – and why every theorem here is a PARTIAL claim

**This property is not established by theorems.**  It is a statement about every execution of the compiled C++ (reads
of uninitialised or freed memory, bounds, double `delete`, signed overflow, iterator validity).  None of these notions
exists in the Lean models: a model has no addresses, no uninitialised storage, no machine integers and no iterators.  The
property is established by **instrumented runs**: the library and the harness are built with AddressSanitizer and
UndefinedBehaviorSanitizer (and assertions enabled) and driven by the generated workloads of all the other properties
(check C20 = the aggregate "no sanitizer report in any run").  That is evidence over the generated inputs, not a proof for
all inputs.

What the models *can* contribute, and what is collected below, are the **bookkeeping invariants** on which the manual
lifetime management of the C++ rests.  Each one is a necessary condition for the absence of a particular class of memory
errors in the corresponding component, proved for the model of that component over all operation histories:

* `RcS.*` (`Vata/RcStore.lean`): the reference-counted MTBDD node store with its two unique tables (the model of C18);
* `CowHeap.*`, `CowHeap3.*` (`Vata/CowHeap.lean`, `Vata/CowHeap3.lean`): the `shared_ptr` copy-on-write heap of
  `ExplicitTreeAutCore` at two resp. all three levels of sharing (the models of C11);
* `Store.*` (`Vata/Store.lean`): the three-level rule container as a value (the model of C12);
* `isectTD` (`Vata/IsectModel.lean`), `isectBU` (`Vata/IsectBU.lean`): the product constructions of `Intersection` and
  `IntersectionBU` with their translation maps (C02);
* `sanitize` (`Vata/Sanitize.lean`): `SanitizeAutsForInclusion`, whose returned counter dimensions the dense, state-indexed
  tables of the inclusion algorithms (C01);
* `M.*` (`Vata/MtbddOps.lean`): the MTBDD operations on trees (C17); `RcS.unfold` (`Vata/Proofs/StoreRefine.lean`): the
  diagram below a node of the store;
* added since (last section of this file, and the topic files it cites): the iterator state machines of the rule container
  (`Vata/StoreIter.lean`), the extended copy-on-write heap with moves and sharing results (`Vata/CowHeapX.lean`), the
  product-state counters of the two BDD intersections (`Vata/BddIsect.lean`), and the UTILITY CLASSES modelled as coded, each
  checked against the real class by operation histories – the macro-state cache with its address-keyed memo tables
  (`Vata/CacheModel.lean`), the antichain containers (`Vata/Antichain.lean`), `OrdVector` (`Vata/OrdVector.lean`),
  `BinaryRelation` (`Vata/BinRel.lean`), the allocators, shared counters, shared lists and the splitting relation of the
  simulation engine (`Vata/LtsUtil.lean`), the dictionary / translator / symbolic-assignment glue (`Vata/Glue.lean`), and the
  command-line parser (`Vata/CliArgs.lean`).

In all of them the "specification" side is the invariant itself (`RcS.indeg`/`handlesTo`/`Reach`, `CowHeap.Inv`,
`CowHeap3.Inv`, `Store.Inv`, `InjOn`, `M.WF`); the "model of the code" side is the history semantics
(`RcS.runF f ops`, `ops.foldl CowHeap.step CowHeap.init`, `Store.run ops`) or the function (`isectTD`, `M.construct`,
`M.apply*`).  All theorems are named `…_partial`: what is missing is in every case the same – the step from the model to
the memory behaviour of the C++ – and is not repeated at each theorem.
-/
namespace Vata.Props
open Vata

/-! ### reference-counted MTBDD node store (use after free, double free, leaks) -/

/-- PARTIAL (bookkeeping of `OndriksMTBDD`'s node store, for every history of construct / copy / assign / binary apply /
destroy and every leaf operation): (1) each counter equals the number of referrers (edges from allocated inner nodes plus
live handles) – so a counter reaches 0 exactly when the last referrer is gone; (2) every node reachable from a live
handle is allocated and was never deleted – the model analogue of "no use after free"; (3) no node is deleted twice, a
deleted node is not allocated, and no `assert` of the code fails (no counter underflow, `erase` removes exactly one table
entry) – the analogue of "no double free"; (4) when no handle is live nothing is allocated and both tables are empty –
the analogue of "no leak" -/
theorem C20_refcount_bookkeeping_partial (f : Nat → Nat → Nat) (ops : List RcS.Op) :
    (∀ n, n ∈ (RcS.runF f ops).ids →
      (RcS.runF f ops).rc n = RcS.indeg (RcS.runF f ops) n + RcS.handlesTo (RcS.runF f ops) n) ∧
    (∀ h r, (h, r) ∈ (RcS.runF f ops).hs → ∀ n, RcS.Reach (RcS.runF f ops).dat r n →
      n ∈ (RcS.runF f ops).ids ∧ n ∉ (RcS.runF f ops).freed) ∧
    ((RcS.runF f ops).freed.Nodup ∧ (∀ n, n ∈ (RcS.runF f ops).freed → n ∉ (RcS.runF f ops).ids) ∧
      (RcS.runF f ops).err = false) ∧
    ((RcS.runF f ops).hs = [] →
      RcS.tableSizes (RcS.runF f ops) = RcS.tableSizes RcS.empty ∧ (RcS.runF f ops).ids = []) :=
  ⟨(RcS.rc_inv f ops).1, fun h r hm n hr => RcS.no_premature_free f ops h r hm n hr, RcS.no_double_free f ops,
    RcS.all_released f ops⟩

-- a history with shared sub-graphs, an assignment that releases a diagram, a self-assignment and destructors
example : RcS.tableSizes (RcS.runF RcS.applyOp RcS.Ex.ops) = (4, 6) ∧ (RcS.runF RcS.applyOp RcS.Ex.ops).freed = [3, 8] ∧
    (4, 11) ∈ (RcS.runF RcS.applyOp RcS.Ex.ops).hs := by decide
example : (RcS.runF RcS.applyOp (RcS.Ex.ops ++ RcS.destroyAll (RcS.runF RcS.applyOp RcS.Ex.ops))).hs = [] := by decide

/-! ### `shared_ptr` copy-on-write heap of `ExplicitTreeAutCore` -/

/-- PARTIAL (bookkeeping of the copy-on-write sharing of transition tables, for every history of default construction,
copy, assignment, `AddTransition`, `Clear` and destruction of automaton handles): in the two-level model and in the
three-level model the invariant `Inv` holds after every history – at every level (map nodes, cluster nodes, tuple-set
nodes) the `use_count` of an allocated node equals the number of handles / parent entries pointing to it, every pointer
held by a live handle or an allocated node goes to an allocated node (no dangling pointer), allocated nodes are pairwise
distinct, have `use_count > 0` and ids below the allocation counter (fresh ids are fresh).  The `unique()` tests that
decide between writing in place and cloning therefore see the true number of owners -/
theorem C20_cow_bookkeeping_partial (ops : List CowHeap.HOp) :
    CowHeap.Inv (ops.foldl CowHeap.step CowHeap.init) ∧ CowHeap3.Inv (ops.foldl CowHeap3.step CowHeap3.init) :=
  ⟨CowHeap.history_inv ops, CowHeap3.history_inv3 ops⟩

-- a history in which a write through a copy clones the map node, the cluster node and the tuple set
example : (CowHeap.CowEx.ops1.foldl CowHeap3.step CowHeap3.init).ml = [3, 0] ∧
    (CowHeap.CowEx.ops1.foldl CowHeap3.step CowHeap3.init).cl = [7, 4, 1] ∧
    (CowHeap.CowEx.ops1.foldl CowHeap3.step CowHeap3.init).tl = [8, 6, 5, 2] := by decide
-- the invariant is not trivially true: a heap with a wrong use count violates it
example : CowHeap.invB { CowHeap.CowEx.H0 with mrc := fun _ => 1 } = false ∧
    CowHeap3.invB CowHeap3.CowEx3.Hbad = false := by decide

/-- PARTIAL (no leak in the copy-on-write heap): whenever, after any history, no automaton handle is live, no map node,
cluster node or tuple-set node is allocated -/
theorem C20_cow_no_leak_partial (ops : List CowHeap.HOp) :
    ((ops.foldl CowHeap.step CowHeap.init).hl = [] →
      (ops.foldl CowHeap.step CowHeap.init).ml = [] ∧ (ops.foldl CowHeap.step CowHeap.init).cl = []) ∧
    ((ops.foldl CowHeap3.step CowHeap3.init).hl = [] →
      (ops.foldl CowHeap3.step CowHeap3.init).ml = [] ∧ (ops.foldl CowHeap3.step CowHeap3.init).cl = [] ∧
      (ops.foldl CowHeap3.step CowHeap3.init).tl = []) :=
  ⟨CowHeap.no_garbage (CowHeap.history_inv ops), CowHeap3.no_garbage3 (CowHeap3.history_inv3 ops)⟩

example : ((CowHeap.CowEx.ops2 ++ [CowHeap.HOp.destroy 1, CowHeap.HOp.destroy 3, CowHeap.HOp.destroy 4]).foldl CowHeap3.step CowHeap3.init).hl = [] ∧
    (CowHeap.CowEx.ops2.foldl CowHeap3.step CowHeap3.init).tl ≠ [] := by decide

/-! ### the rule container as a value -/

/-- PARTIAL (well-formedness of the three-level rule container, for every history of `AddTransition`, `SetStateFinal`,
`SetStatesFinal`, `EraseFinalStates`, `Clear`): state keys are unique, every cluster has unique symbol keys and is not
empty, no tuple set is empty or contains a tuple twice, the final-state set has no duplicate.  The transition iterators of
the C++ rely on "no empty cluster, no empty tuple set": `Iterator::operator++` moves to `begin()` of the next cluster /
tuple set and the result is dereferenced without an emptiness test (the constructor only `assert`s non-emptiness) – see
`C20_iterators_never_dereference_empty_partial` and `C20_iterators_stuck_without_invariant_partial` in
`Vata/Properties/C12_Iterators.lean` for the iterator state machines -/
theorem C20_store_invariant_partial (ops : List Store.Op) : Store.Inv (Store.run ops) := Store.store_inv ops

example : Store.run Store.StoreEx.ops1 =
    ⟨[(1, [(7, [[], [1, 1]])]), (2, [(8, [[1, 2]])]), (3, [(7, [[2]])])], [2, 3, 5]⟩ := by decide
-- the invariant is not trivially true
example : Store.invB ⟨[(1, [])], []⟩ = false ∧ Store.invB ⟨[(1, [(7, [])])], []⟩ = false := by decide

/-! ### product-state numbering -/

/-- PARTIAL (the product-state counter of the explicit `Intersection`): whenever the model returns a product, its
translation map is injective on its domain – each discovered pair of states got its own fresh number
(`pTranslMap->size()` at the time of insertion), no two pairs share a state of the product.  This is the model-level
content of "the product-state counter is initialised and advanced correctly" for the *explicit* encoding; for the
BDD-encoded intersections (`bdd_bu_tree_aut_isect.cc`, `bdd_td_tree_aut_isect.cc`), where the anchor of the property
locates an uninitialised counter, see `C20_bdd_isect_numbers_dense_partial` in `Vata/Properties/C08_Isect.lean` -/
theorem C20_product_map_injective_partial (A B : TA) (fuel : Nat) (P : TA) (m : PMap)
    (h : isectTD A B fuel = some (P, m)) :
    ∀ x, x ∈ m.dom → ∀ y, y ∈ m.dom → lookupF m x = lookupF m y → x = y := isectTD_map_inj h

example : (isectTD IsectEx.exA IsectEx.exB 4).map (·.2) = some [((1, 1), 0), ((0, 0), 1), ((0, 1), 2), ((1, 2), 3)] := by
  decide

/-- PARTIAL (the same for the bottom-up product `IntersectionBU`, `explicit_tree_isect_bu.cc`): whenever the model
returns a product, its translation map is injective on its domain – although the C++ inserts parent pairs TENTATIVELY
(`pTranslMap->insert(make_pair(pair, pTranslMap->size()))`) and erases them again when a child pair is unknown, so that
`size()` goes down and a number is handed out a second time, no two pairs that remain share a number -/
theorem C20_product_bu_map_injective_partial (A B : TA) (fuel : Nat) (P : TA) (m : PMap)
    (h : isectBU A B fuel = some (P, m)) :
    ∀ x, x ∈ m.dom → ∀ y, y ∈ m.dom → lookupF m x = lookupF m y → x = y := isectBU_map_inj h

-- self-loop rules on both sides: the tentative entry for `(2, 5)` is erased again; the remaining map is `0, 1`
example : (isectBU IsectBUEx.exS IsectBUEx.exL 20).map (·.2) = some [((0, 0), 0), ((1, 0), 1)] := by decide

/-! ### index bounds of the dense state-indexed tables -/

/-- PARTIAL (bounds of the tables dimensioned by the counter of `SanitizeAutsForInclusion`): the counter `n` the model
returns bounds every state of both prepared operands (`q < n`) – the inclusion algorithms allocate `Util::Identity(n)` and
vectors of size `n` and index them with states –; more precisely the first operand has exactly the states `0..k-1`, the
second exactly `k..n-1` (no gap, no overlap), and `n` is the total number of states, so the tables are also not larger
than needed.  Model-level content of "no out-of-bounds access through a state index" for tables of that dimension;
that the C++ indexes ONLY with states of the prepared operands is not modelled -/
theorem C20_sanitise_index_bounds_partial (A B : TA) :
    (∀ q, q ∈ (sanitize A B).1.states ∨ q ∈ (sanitize A B).2.1.states → q < (sanitize A B).2.2) ∧
    (∀ x, (x ∈ (sanitize A B).1.states ↔ x < (sanitize A B).1.states.length) ∧
      (x ∈ (sanitize A B).2.1.states ↔ (sanitize A B).1.states.length ≤ x ∧ x < (sanitize A B).2.2)) ∧
    (sanitize A B).2.2 = (sanitize A B).1.states.length + (sanitize A B).2.1.states.length :=
  ⟨sanitize_bound A B, sanitize_dense A B, (sanitize_count A B).1⟩

-- operands that overlap and use the numbers 3, 4, 7, 9: prepared states `0,1` and `2`, counter 3
example : (sanitize SanEx.exA SanEx.exB).1.states = [1, 0] ∧ (sanitize SanEx.exA SanEx.exB).2.1.states = [2] ∧
    (sanitize SanEx.exA SanEx.exB).2.2 = 3 ∧ 9 ∈ SanEx.exA.states := by decide

/-! ### the MTBDD node store has no duplicate nodes -/

/-- PARTIAL (hash-consing of the MTBDD node store, for every history): two allocated nodes whose unfoldings – the
diagrams below them – are structurally equal are the same node, and every unfolding is ordered and reduced.  This is
what makes the pointer comparisons of the C++ (`operator==` on roots, the keys of the unique tables and of the apply
caches, which are raw node addresses) meaningful: an address identifies a diagram.  It says nothing about the lifetime of
the addresses held in caches (see the end of the file) -/
theorem C20_store_nodes_unique_partial (f : Nat → Nat → Nat) (ops : List RcS.Op) :
    (∀ n n', n ∈ (RcS.runF f ops).ids → n' ∈ (RcS.runF f ops).ids →
      RcS.unfold (RcS.runF f ops).dat (n+1) n = RcS.unfold (RcS.runF f ops).dat (n'+1) n' → n = n') ∧
    (∀ n, n ∈ (RcS.runF f ops).ids → M.WF (RcS.unfold (RcS.runF f ops).dat (n+1) n)) :=
  ⟨fun _ _ hn hn' he => RcS.unfold_injective (RcS.runF_inv f ops) hn hn' he, RcS.unfold_wf f ops⟩

example : (RcS.runF RcS.applyOp RcS.RefineEx.ops).ids = [9, 8, 7, 6, 5, 4, 3, 2, 1, 0] ∧
    RcS.unfold (RcS.runF RcS.applyOp RcS.RefineEx.ops).dat 10 9 = .node 1 (.node 0 (.leaf 0) (.leaf 5)) (.leaf 7) := by
  decide

/-! ### MTBDD operations keep diagrams well formed -/

/-- PARTIAL (structural invariant of MTBDDs): construction and the three applies return ordered reduced diagrams when
given ordered reduced operands.  These are the conditions the C++ itself `assert`s while traversing diagrams
(`projectNode` / `renameNode`: `lowTree != highTree` = reduced, `GetVarFromInternal(lowTree) < newVar` = ordered) and on
which the case split of `classify_case.hh` relies -/
theorem C20_mtbdd_wellformed_partial {α β γ δ : Type} [DecidableEq α] [DecidableEq δ]
    (asgn : List (Option Bool)) (v d : α) (f₁ : α → δ) (f₂ : α → β → δ) (f₃ : α → β → γ → δ)
    (a : M.Node α) (b : M.Node β) (c : M.Node γ) (wa : M.WF a) (wb : M.WF b) (wc : M.WF c) :
    M.WF (M.construct asgn v d) ∧ M.WF (M.apply1 f₁ a) ∧ M.WF (M.apply2 f₂ a b) ∧ M.WF (M.apply3 f₃ a b c) :=
  ⟨M.construct_wf asgn v d, M.apply1_wf f₁ wa, M.apply2_wf f₂ a b wa wb, M.apply3_wf f₃ a b c wa wb wc⟩

example : M.WF M.OpsEx.exA ∧ M.WF M.OpsEx.exB ∧ M.WF M.OpsEx.exC :=
  ⟨M.OpsEx.exA_wf, M.OpsEx.exB_wf, M.OpsEx.exC_wf⟩
example : M.OpsEx.exA = .node 2 (.node 0 (.leaf 0) (.leaf 5)) (.leaf 0) := by decide

/-! ### the utility classes: reference counts, free lists, stale addresses, bounds, iterators

Collected from `Vata/Properties/Util_*.lean`, `CacheWiring.lean`, `C12_Iterators.lean`, `C08_Isect.lean`, `C11_Extended.lean`: the
model-level content of the clauses of C20 for the components that had "not even a bookkeeping invariant" when this file was
written.  As everywhere in this file: theorems about models of the classes as coded (here with explicit addresses, cells and
free lists), tied to the real classes by the correspondence checks, not proofs about the compiled C++. -/

/-- PARTIAL ("never frees memory twice", "no node released while referred to", for the manual memory management inside the
LTS simulation engine).  `SharedCounter` rows from the `CachingArrayAllocator`: after every history inside the engine's call
discipline the free list holds no row twice and no row that a live counter points to.  `SharedList` nodes and vectors:
the two free lists hold nothing twice, no node that is on a chain and no vector of such a node.  `CachingAllocator`: an
allocation never hands out a live object.  (Reference count = number of sharers, and copy-on-write of `decr`:
`Util_LtsUtil_SharedCounter_refcount`, `Util_LtsUtil_SharedCounter_copy_on_write`, `Util_LtsUtil_SharedList_refcount`.) -/
theorem C20_engine_helpers_bookkeeping_partial :
    (∀ {cfg : LU.SC.Cfg} (ops : List LU.SC.Op), LU.SC.okAll cfg [] ops = true →
      ∃ w', LU.SC.run cfg LU.SC.World.empty ops = some (w', (LU.SC.aRun cfg [] ops).2) ∧ w'.mem.free.Nodup ∧
        ∀ p, p ∈ w'.mem.free → ∀ (i : Nat) (c : LU.SC.Cnt) (r : Nat) (row : LU.SC.Row),
          w'.cnt i = some c → c[r]? = some row → row.data ≠ some p) ∧
    (∀ {n : Nat} {ops : List LU.SL.Op} {W : LU.SL.World} {outs : List (List Nat)},
      LU.SL.okAll (LU.SL.A.mk0 n) ops = true → LU.SL.run (LU.SL.World.mk0 n) ops = some (W, outs) →
      W.w.nfree.Nodup ∧ W.w.vfree.Nodup ∧
        ∀ m, LU.SL.OnChain W m → m ∉ W.w.nfree ∧ ∃ v, (W.w.nodes.get m).sub = some v ∧ v ∉ W.w.vfree) ∧
    (∀ (ops : List LU.CA.Op) {a : LU.CA.T} {live : LU.CA.A}, LU.CA.run LU.CA.mk [] ops = some (a, live) →
      (LU.CA.alloc a).1 ∉ live) := by
  refine ⟨fun ops hok => ?_, fun hok hrun => Util_LtsUtil_SharedList_free_lists hok hrun,
    fun ops _ _ h => (Util_LtsUtil_CachingAllocator_history ops h).2.1⟩
  obtain ⟨w', hrun, hinv⟩ := Util_LtsUtil_SharedCounter_history ops hok
  obtain ⟨_, h2, h3, _⟩ := Util_LtsUtil_SharedCounter_refcount hinv
  exact ⟨w', hrun, h2, h3⟩

example : LU.SC.okAll LU.SC.Ex.exCfg [] LU.SC.Ex.exOps = true ∧ LU.SL.okAll (LU.SL.A.mk0 3) LU.SL.Ex.ops = true ∧
    LU.CA.run LU.CA.mk [] [.alloc, .alloc, .reclaim 0, .alloc, .reclaim 1] = some (⟨[1], 2, 3⟩, [0]) := by decide

/-- PARTIAL ("never reads … freed memory" through a stale cache entry: the address-keyed memo tables `lteCache` /
`evalTransitionsCache` around the macro-state cache of the tree inclusion algorithms, where a dead object's address may be
handed to the next object).  The deleter lambdas AS THEY ARE WRITTEN IN THE SOURCES NOW purge every key position that holds a
macro-state address, at all three sites (regenerated table, re-checked on every run); and under that wiring, in every
reachable state of the cache model – any history, any allocator, address reuse included – every key of the comparison memo
consists of two LIVE addresses and every key of the evaluation memo has a live second component; when the last handle is
gone the cache is empty.  (`Util_Cache_wiring_counterexample`: with a one-word slip in the deleter a stale answer IS returned.) -/
theorem C20_cache_no_stale_address_partial :
    Gen.cacheWiring.map CacheWiring.wiringOf = [.lib, .lib, .lib] ∧
    (∀ {α : Type} [DecidableEq α] {c : CM.Cfg α} {s : CM.Sys α}, CM.Reach c s → c.wiring = .lib →
      (∀ a b r, CM.aget s.lte.store (a, b) = some r → a ∈ CM.ids s.store ∧ b ∈ CM.ids s.store) ∧
      (∀ k b r, CM.aget s.ev.store (k, b) = some r → b ∈ CM.ids s.store)) ∧
    (∀ {α : Type} [DecidableEq α] {c : CM.Cfg α} {s : CM.Sys α}, CM.Reach c s → (∀ x ∈ s.slots, x = none) → s.store = []) :=
  ⟨CacheWiring.cache_wiring_is_lib,
    fun h hw => ⟨fun a b r hr => ⟨((Util_Cache_memo_live h hw).1 a b r hr).1, ((Util_Cache_memo_live h hw).1 a b r hr).2.1⟩,
      fun k b r hr => ((Util_Cache_memo_live h hw).2 k b r hr).1⟩,
    fun h hn => (Util_Cache_no_leak h hn).1⟩

example : (CM.run (CM.setCfg .lib) (CM.Sys.init (List Nat) 2) CM.staleHistory).isSome = true := by decide

/-- PARTIAL ("never accesses memory out of bounds", "dereferencing a past-the-end iterator"): the binary search of
`OrdVector::insert` / `find` never reads outside `[0, size())`; `parseArguments` started with any `argc` up to the length of
the vector never reads outside `argv`, and its `-o` loop never calls `substr` out of range; after ANY history on
`OrderedAntichain2C` objects – in or out of the contract of `insert` – every element of the ordered set refers to a node
that is still in the antichain (no dangling iterator is dereferenced by the comparison functor); the three transition
iterators of the rule container: `C20_iterators_never_dereference_empty_partial` -/
theorem C20_bounds_and_iterators_partial :
    (∀ (v : OrdVec.Vec) (x : Nat), OrdVec.bsearch v.length v x 0 v.length ≠ .oob) ∧
    (∀ (argv : List CliArgs.Str) (argc : Nat), argc ≤ argv.length → ∀ i, CliArgs.parseRaw argv argc 0 {} ≠ .outOfBounds i) ∧
    (∀ (s : CliArgs.Str) (m : CliArgs.Options), CliArgs.optLoopRaw s (s.length + 1) 0 m ≠ .outOfRange) ∧
    (∀ {κ β : Type} [DecidableEq κ] {lt : κ × β → κ × β → Bool}, AC.Ord.StrictOrd lt →
      ∀ (ops : List (AC.Ord.Op κ β)) (m : Nat) o,
        o ∈ (AC.Ord.run lt ⟨List.replicate m AC.Ord.init, 0⟩ ops).objs → AC.Ord.OWeak lt o) :=
  ⟨Util_OrdVector_bsearch_in_bounds, fun argv argc h => (Util_CliArgs_parse_in_bounds argv argc h).2,
    fun s m => (Util_CliArgs_option_loop_in_range s m).2, fun h ops m => Util_Antichain_any_history_ordered h ops m⟩

example : OrdVec.bsearch 3 [1, 3, 5] 4 0 3 ≠ .oob ∧
    CliArgs.parseRaw [CliArgs.lit "-t", CliArgs.lit "-r"] 2 0 {} = .err (CliArgs.lit "The '-r' flag needs an argument.") := by
  decide

/-- the clauses ARE violated by members of the utility classes that the automata operations never reach with such arguments –
each observed on the real class under the sanitizers and reproduced by the model: `OrdVector::HaveEmptyIntersection` reads past
`end()` whenever the two sets are disjoint and not both empty (nothing in libvata calls it); `SmartSet` dereferences a
deleted cell when a new key is inserted after the last element was erased (the engine never does that);
`SymbolicVarAsgn(size, n)` shifts an `int` by `≥ 32` for `size > 32` (the library calls it with 16) -/
theorem C20_utility_defects_outside_the_property :
    (∀ {v w : OrdVec.Vec}, OrdVec.Sorted v → OrdVec.Sorted w → (∀ x, OrdVec.abs v x → ¬ OrdVec.abs w x) →
      ¬ (v = [] ∧ w = []) → OrdVec.haveEmptyIntersection v w = none) ∧
    ((LU.SS.add (LU.SS.mk 4) 1).bind (fun s => LU.SS.remove s 1 false)).bind (fun s => LU.SS.add s 2) = none ∧
    (∀ size n, Glue.ofNum size n = none ↔ 32 < size) :=
  ⟨fun hv hw hd hne => Util_OrdVector_haveEmptyIntersection_defect hv hw hd hne, Util_LtsUtil_SmartSet_dangling_last.1,
    Util_Glue_asgn_ofNum_limits.1⟩

example : OrdVec.haveEmptyIntersection [1] [2] = none := by simp [OrdVec.haveEmptyIntersection]

/-!
## closed since the last refresh of this file

The item "**Components without any model of their memory management**" listed the caching allocators, the intrusive
`shared_list` / `shared_counter` and block lists of the simulation engine, the address-keyed caches of the downward inclusion
with their invalidation, the antichain containers, the product-state counters of the BDD intersections, the finite-automata
code and the parsers.  Most of them now have a model AS CODED (addresses, cells, free lists, reference counts where the class
has them) with history theorems, each compared with the real class step by step:

* caching allocators, `SharedCounter`, `SharedList`, `SmartSet`, `SplittingRelation` – `Vata/Properties/Util_LtsUtil.lean`
  (`Util_LtsUtil_CachingAllocator_history`, `Util_LtsUtil_SharedCounter_refcount`, `Util_LtsUtil_SharedCounter_copy_on_write`,
  `Util_LtsUtil_SharedList_refcount`, `Util_LtsUtil_SharedList_free_lists`, `Util_LtsUtil_SplittingRelation_invariant`,
  `Util_LtsUtil_SplittingRelation_free_list`); here: `C20_engine_helpers_bookkeeping_partial`; the engine around them:
  `C16_engine_invariant`, `C16_engine_terminates`;
* `Cache`, `CachedBinaryOp` and the deleter wiring ("invalidation when a cached set dies") – `Vata/Properties/Util_Cache.lean`,
  `CacheWiring.lean` (`Util_Cache_interning`, `Util_Cache_memo_live`, `Util_Cache_memo_sound`, `Util_Cache_index_exact`,
  `Util_Cache_no_leak`, `cache_wiring_is_lib`); here: `C20_cache_no_stale_address_partial`;
* the antichain containers – `Vata/Properties/Util_Antichain.lean` (`Util_Antichain_any_history_2C`,
  `Util_Antichain_any_history_ordered`: no dangling iterator in the ordered set, in or out of the contract); `OrdVector` –
  `Util_OrdVector_bsearch_in_bounds`, `Util_OrdVector_mutator_invariant`; here: `C20_bounds_and_iterators_partial`;
* the product-state counters of the BDD intersections ("using an uninitialised counter", defect D10) –
  `C20_bdd_isect_numbers_dense_partial` (`Vata/Properties/C08_Isect.lean`);
* "dereferencing a past-the-end iterator" for the three transition iterators – `C20_iterators_never_dereference_empty_partial`
  with its converse `C20_iterators_stuck_without_invariant_partial` (`Vata/Properties/C12_Iterators.lean`);
* moves and the library operations that return results sharing storage with their operands – `C11_ext_invariant`,
  `C11_ext_no_garbage` (`Vata/Properties/C11_Extended.lean`);
* `BinaryRelation` (flat matrix with reallocation) – `Util_BinRel_get_set`, `Util_BinRel_resize`, `Util_BinRel_history`;
  the command-line parser – `Util_CliArgs_parse_in_bounds`, `Util_CliArgs_option_loop_in_range`, `Util_CliArgs_parse_total`;
  the word automata's start-symbol map – `C10_start_history_keys` (`GetStartSymbols` never reads past the end of the map).

## not yet proved

* **The property itself.**  Memory safety and absence of undefined behaviour of the C++ are outside the reach of the
  models.  The models added since do have addresses, cells, free lists and "no defined behaviour" outcomes (`none`, `.oob`,
  `.stuck`, `.outOfBounds`), so they can express – and the theorems above exclude, for every history inside the stated call
  discipline – a read through a dangling pointer, a double reclaim, an index outside a vector, a stale cache answer.  They
  still have no uninitialised storage, no bounded or signed machine integers (all numbers are `Nat`; 64-bit wrap-around of
  counters and of reference counts is not modelled) and no real allocator; and every theorem is about a model.  Nothing in this
  file is a proof that the library never reads uninitialised/freed memory, never goes out of bounds, never double-frees and
  never overflows.  The property is checked by sanitizer-instrumented runs (ASan/UBSan, assertions on) over the generated
  workloads of all properties; that is testing, with the usual limits (only executed paths, only the generated inputs).
* **Call disciplines are hypotheses.**  The history theorems of the utility classes hold for histories INSIDE the discipline
  the owning algorithm is supposed to keep (`SS.ok`, `SC.ok`, `SL.ok`, `SR.ok`; `lte` only on live macro-states; `insert` into
  the ordered antichain inside its contract).  That the engine / the inclusion algorithms keep it is read off the sources and
  exercised by the harness, not proved; there is no theorem connecting the algorithm models (values, lists) to the class
  models (heaps).  Outside the disciplines the classes DO have memory errors, observed under the sanitizers and reproduced by
  the models (`C20_utility_defects_outside_the_property`; also `resize` inside the capacity shows stale cells,
  `Util_BinRel_resize`, and `TwoWayDict::Insert` outside its contract breaks the bijection silently, `Util_Glue_dict_contract_needed`).
* **Inputs outside the property on which the library misbehaves** (all have useless states or violate a documented
  precondition, so they do not contradict C20 as stated): `ComputeSimulation(TA_UPWARD)` on an automaton in which every state
  owns a rule but there is no leaf rule writes behind a vector in `SimulationEngine::makeBlock`
  (`C04_pipeline_upward_needs_leaf`); `BottomUpIndex` on a cluster that uses a symbol with two ranks writes past the end of a
  vector (`Util_Cache_bu_index_needs_ranked`).
* **Components still without any model of their memory management:** the emulated call stack of the non-recursive downward
  inclusion (`explicit_tree_incl_down.cc`; modelled by recursion), the MTBDD-level code of the BDD encodings beyond the node
  store (apply caches holding raw node pointers, C18), `explicit_finite_aut_core` (copy-on-write of the word automata), the
  Timbuk parser / serializer as memory-touching code (the models are functions on lists of characters), destruction order of
  cache and antichains.
* **Between model and code.**  For all modelled components the theorems are about the model; the agreement of model and code
  is tested (correspondence checks: every step of every history compared), not proved.
* No arithmetic claim: state numbers are unbounded `Nat` in all models, so overflow of state counters cannot be expressed.
  `C20_sanitise_index_bounds_partial` bounds the states by the returned counter; that the counter (and `2^16` symbols, the
  `size_t` sizes of the product maps) fits the machine types is not stated.
-/
end Vata.Props
