import Vata.Proofs.ComplOrdIso
import Vata.Proofs.ComplOrdFifo
import Vata.Proofs.ComplOrdAlpha
/-!
# C06 – Complement: any exploration order gives the same automaton up to renaming

> For an explicit tree automaton A whose alphabet is an on-the-fly alphabet containing the ranked symbols S, every tree
> built from symbols of S (each used with its rank) is accepted by exactly one of A and Complement(A).  Complement(A)
> accepts no tree that uses a symbol outside S.

This file closes the item "Container orders" of `Vata/Properties/C06.lean` ("the model returns the same automaton as the
code up to renaming is checked by the correspondence check, not proved") and makes the item "The alphabet" precise.

## How the C++ is read into the model (`Vata/ComplOrd.lean`)

`ExplicitDownwardComplementation::Compute` (`src/explicit_tree_comp_down.hh`) keeps the pending macro-states in
`std::unordered_set<StateCachePtr> todo` – a hash set of ADDRESSES, so `*todo.begin()` is an arbitrary pending element – and
iterates `for (auto symbolIndexPair : symbolMap)` over an unordered map.  The model of `C06.lean`, `Compl.complTD`, fixes
FIFO and the order of the list `Sg`.  Here:

* `Compl.stepAt i A Sg s`: one round of the `while` loop in which the element with index `i` of `todo` (listed in insertion
  order) is the one `*todo.begin()` delivers.  The body is literally that of the FIFO model
  (`Sg.foldl (Compl.procSym A P k)`, `k = P->second` = the position of `P` in `stateCache`); new macro-states get the number
  `stateCache.size()`, i.e. the numbering is the discovery order, which depends on the elements taken; they are appended
  to `todo` (`if (p.second) todo.insert(&*p.first)`: the new elements of `todo` are the new elements of the cache – two
  statements merged, as in the FIFO model).
* `Compl.Runs A Sg s s'`: the executions of the loop in which ANY index may be taken in any round – every possible behaviour
  of the hash set.
* `Compl.complTDOrdS pick A Sg fuel` (`pick : StO → Nat`, a function of the whole state: cache, rules, `todo`): the executable
  construction, the element taken is `todo[pick s % |todo|]`; no certificate check; `RemoveUselessStates` at the end;
  `none` = fuel exhausted (one unit per round).  `Compl.complTDOrd pick` (`pick : List MacroState → Nat`) is the instance
  `complTDOrdS (onTodo pick)` where the choice looks at the content of `todo` only; `onRound sched` is the choice by round
  number.  Every execution `Runs` is the run of some `pick` (`C06_order_every_schedule`), so quantifying over `pick` is
  quantifying over all behaviours.
* The iteration order of `symbolMap` is the order of the list `Sg`; `C06_order_isomorphic` allows two different listings
  of the same set.
* `Compl.ordIso c₁ c₂ q = c₂.idxOf (c₁.getD q [])`: the number of a macro-state in the first cache ↦ its number in the
  second.
* Abstracted: the preorder (identity, as in `Complement`), the hash containers as lists, `Antichain1C` + `std::sort`
  as `normS` – all as in `C06.lean`.
* The alphabet: `Compl.dictSg Sg` is the ranked alphabet `Compute` extracts from a dictionary listing the (symbol number,
  rank) pairs `Sg` (`symbolMap.insert` does not overwrite: the FIRST rank of a number wins); `Compl.tdWRaw A P f` is the
  set `W` as `transitionIndex[state][symbol]` delivers it (the index ignores the length of the tuples).
-/
namespace Vata.Props
open Vata

/-- Totality for every exploration order: with `2^|Q_A| + 1` units of fuel (one per macro-state) or more
`complTDOrdS pick` returns an automaton, whatever `pick` (a function of the whole state), `A` and the alphabet. -/
theorem C06_order_total (pick : Compl.StO → Nat) (A : TA) (Sg : List (Nat × Nat)) (fuel : Nat)
    (h : 2 ^ A.states.length + 1 ≤ fuel) : ∃ C, Compl.complTDOrdS pick A Sg fuel = some C :=
  Compl.complTDOrd_total pick h

example : 2 ^ Compl.Ex.aChain.states.length + 1 ≤ 17 := by decide

/-- Every automaton `complTDOrdS pick` returns is the complement of `A` over `Sg`, whatever the exploration order: on the
trees over `Sg` it accepts exactly those `A` rejects, and it accepts no tree that is not over `Sg`.  (Proved directly: a
finished run passes the certificate check `tdCertB` of the FIFO model, `Compl.runOrd_cert`.) -/
theorem C06_order_exact (pick : Compl.StO → Nat) (A : TA) (Sg : List (Nat × Nat)) (fuel : Nat) (C : TA)
    (h : Compl.complTDOrdS pick A Sg fuel = some C) :
    ∀ t, (overSig Sg t = true → accepts C t = !accepts A t) ∧ (overSig Sg t = false → accepts C t = false) :=
  Compl.complTDOrd_spec h

-- LIFO and a content-dependent order on a chain-shaped automaton where the order changes the numbering
example : (Compl.complTDOrd Compl.pickLifo Compl.Ex.aChain Compl.Ex.sgc 20).isSome = true ∧
    (Compl.complTDOrd Compl.pickMix Compl.Ex.aChain Compl.Ex.sgc 20).isSome = true := by decide +kernel

/-- The work-list proper: whatever the order, a finished run has a duplicate-free cache that starts with the set of final
states and consists EXACTLY of the macro-states the construction must meet (`Compl.MReach`: the least set containing
the final states and closed under the macro-states of the choice functions); its rules are duplicate-free and exactly the
ones this cache prescribes. -/
theorem C06_order_run_canonical (pick : Compl.StO → Nat) (A : TA) (Sg : List (Nat × Nat)) (fuel : Nat)
    (s : Compl.StO) (h : Compl.runOrdS pick A Sg fuel = some s) :
    s.st.cache.Nodup ∧ s.st.cache[0]? = some (InclUp.normS A.final) ∧ (∀ P, P ∈ s.st.cache ↔ Compl.MReach A Sg P) ∧
      s.st.rules.Nodup ∧ (∀ r, r ∈ s.st.rules ↔ r ∈ Compl.tdExpected A Sg s.st.cache) ∧ s.todo = [] := by
  have F := Compl.runOrd_final h
  exact ⟨F.nodup, F.head, F.mem, F.nodupR, F.rules, (Compl.loopOrd_inv pick fuel _ s (Compl.InvO.init A Sg) h).2⟩

example : (Compl.runOrd Compl.pickLifo Compl.Ex.aChain Compl.Ex.sgc 20).map (fun s => (s.st.cache, s.st.rules.length)) =
    some ([[3], [2], [1], [0], []], 14) := by decide +kernel

/-- **Any two exploration orders give isomorphic automata.**  For two choice functions `pick₁`, `pick₂` of the state (and two
listings `Sg₁`, `Sg₂` of the same set of ranked symbols – the iteration order of `symbolMap`), the results `C`, `D` are
isomorphic through the explicit renaming `σ = ordIso cache₁ cache₂` (number of a macro-state in the first run ↦ its number in
the second) with inverse `τ = ordIso cache₂ cache₁`: `σ`, `τ` are mutually inverse bijections between the states of `C` and
of `D`, they carry rules to rules and final states to final states (`TAIso`). -/
theorem C06_order_isomorphic (pick₁ pick₂ : Compl.StO → Nat) (A : TA) (Sg₁ Sg₂ : List (Nat × Nat))
    (hSg : ∀ fa, fa ∈ Sg₁ ↔ fa ∈ Sg₂) (f₁ f₂ : Nat) (C D : TA)
    (h₁ : Compl.complTDOrdS pick₁ A Sg₁ f₁ = some C) (h₂ : Compl.complTDOrdS pick₂ A Sg₂ f₂ = some D) :
    ∃ s₁ s₂, Compl.runOrdS pick₁ A Sg₁ f₁ = some s₁ ∧ Compl.runOrdS pick₂ A Sg₂ f₂ = some s₂ ∧
      (∀ P, P ∈ s₁.st.cache ↔ P ∈ s₂.st.cache) ∧
      TAIso (Compl.ordIso s₁.st.cache s₂.st.cache) (Compl.ordIso s₂.st.cache s₁.st.cache) C D := by
  obtain ⟨s₁, s₂, hr₁, hr₂, hiso⟩ := Compl.complTDOrd_iso_sg hSg h₁ h₂
  exact ⟨s₁, s₂, hr₁, hr₂,
    (Compl.final_cache_same ((Compl.runOrd_final hr₁).congr_sg hSg) (Compl.runOrd_final hr₂)).1, hiso⟩

/-- what `TAIso` says, spelled out -/
theorem C06_order_iso_unfolded (σ τ : Nat → Nat) (C D : TA) (h : TAIso σ τ C D) :
    (∀ q, q ∈ C.states → σ q ∈ D.states ∧ τ (σ q) = q) ∧ (∀ q, q ∈ D.states → τ q ∈ C.states ∧ σ (τ q) = q) ∧
    (∀ r, r ∈ C.rules → (⟨r.sym, r.kids.map σ, σ r.parent⟩ : Rule) ∈ D.rules) ∧
    (∀ r, r ∈ D.rules → (⟨r.sym, r.kids.map τ, τ r.parent⟩ : Rule) ∈ C.rules) ∧
    (∀ q, q ∈ C.final → σ q ∈ D.final) ∧ (∀ q, q ∈ D.final → τ q ∈ C.final) :=
  ⟨h.toFun, h.invFun, h.rules, h.rulesInv, h.final, h.finalInv⟩

-- LIFO against FIFO on the chain: the caches differ, the renaming swaps the numbers 3 and 4
example : (Compl.runOrd Compl.pickLifo Compl.Ex.aChain Compl.Ex.sgc 20).map (fun s => s.st.cache) =
      some [[3], [2], [1], [0], []] ∧
    (Compl.runOrd Compl.pickFifo Compl.Ex.aChain Compl.Ex.sgc 20).map (fun s => s.st.cache) =
      some [[3], [2], [1], [], [0]] ∧
    (List.range 5).map (Compl.ordIso [[3], [2], [1], [0], []] [[3], [2], [1], [], [0]]) = [0, 1, 2, 4, 3] := by
  decide +kernel

/-- … hence the same language, the same number of states and the same number of rules – the quantities the driver
compares between the model and the real `Complement`. -/
theorem C06_order_sizes (pick₁ pick₂ : Compl.StO → Nat) (A : TA) (Sg₁ Sg₂ : List (Nat × Nat))
    (hSg : ∀ fa, fa ∈ Sg₁ ↔ fa ∈ Sg₂) (f₁ f₂ : Nat) (C D : TA)
    (h₁ : Compl.complTDOrdS pick₁ A Sg₁ f₁ = some C) (h₂ : Compl.complTDOrdS pick₂ A Sg₂ f₂ = some D) :
    (∀ t, accepts C t = accepts D t) ∧ C.states.length = D.states.length ∧ C.rules.length = D.rules.length ∧
      C.rules.Nodup ∧ D.rules.Nodup ∧ C.final = D.final := by
  obtain ⟨s₁, s₂, hr₁, hr₂, hiso⟩ := Compl.complTDOrd_iso_sg hSg h₁ h₂
  have n₁ := Compl.complTDOrd_nodup_rules h₁
  have n₂ := Compl.complTDOrd_nodup_rules h₂
  refine ⟨hiso.lang, hiso.states_length, hiso.rules_length n₁ n₂, n₁, n₂, ?_⟩
  -- the final states: `[0]` or `[]`, and `σ 0 = 0`
  obtain ⟨t₁, _, e₁⟩ := Compl.complTDOrd_unfold h₁
  obtain ⟨t₂, _, e₂⟩ := Compl.complTDOrd_unfold h₂
  have hf : ∀ (R : List Rule), (removeUseless ⟨R, [0]⟩).final = [] ∨ (removeUseless ⟨R, [0]⟩).final = [0] := by
    intro R
    show List.filter _ [0] = [] ∨ List.filter _ [0] = [0]
    simp only [List.filter_cons, List.filter_nil]
    split
    · exact Or.inr rfl
    · exact Or.inl rfl
  have hC := hf t₁.st.rules
  have hD := hf t₂.st.rules
  rw [← e₁] at hC
  rw [← e₂] at hD
  rcases hC with hC | hC <;> rcases hD with hD | hD
  · rw [hC, hD]
  · exfalso
    have := hiso.finalInv 0 (by rw [hD]; exact List.mem_singleton.mpr rfl)
    rw [hC] at this; cases this
  · exfalso
    have := hiso.final 0 (by rw [hC]; exact List.mem_singleton.mpr rfl)
    rw [hD] at this; cases this
  · rw [hC, hD]

example : (Compl.complTDOrd Compl.pickLifo Compl.Ex.aChain Compl.Ex.sgc 20).map (fun C => (C.states.length, C.rules.length)) =
      some (5, 14) ∧
    (Compl.complTDOrd Compl.pickFifo Compl.Ex.aChain Compl.Ex.sgc.reverse 20).map (fun C => (C.states.length, C.rules.length)) =
      some (5, 14) := by decide +kernel

/-- The raw work-lists of two orders have discovered the same macro-states, as many of them, and built as many rules
(before trimming). -/
theorem C06_order_same_macrostates (pick₁ pick₂ : Compl.StO → Nat) (A : TA) (Sg : List (Nat × Nat))
    (f₁ f₂ : Nat) (s₁ s₂ : Compl.StO) (h₁ : Compl.runOrdS pick₁ A Sg f₁ = some s₁)
    (h₂ : Compl.runOrdS pick₂ A Sg f₂ = some s₂) :
    (∀ P, P ∈ s₁.st.cache ↔ P ∈ s₂.st.cache) ∧ s₁.st.cache.length = s₂.st.cache.length ∧
      s₁.st.rules.length = s₂.st.rules.length :=
  Compl.final_cache_same (Compl.runOrd_final h₁) (Compl.runOrd_final h₂)

/-- **Every behaviour of the hash set.**  `Runs A Sg (initOrd A) s`: `s` is reached from the initial state by rounds in
each of which an arbitrary element of `todo` is taken, until `todo` is empty.  (1) The run of every choice function is
such an execution; (2) conversely every such execution is the run of a choice function (a schedule by round number), with
some fuel; (3) every such execution ends in the canonical state of `C06_order_run_canonical`; (4) any two of them give
isomorphic automata after `RemoveUselessStates`. -/
theorem C06_order_every_schedule (A : TA) (Sg : List (Nat × Nat)) :
    (∀ pick fuel s, Compl.runOrdS pick A Sg fuel = some s → Compl.Runs A Sg (Compl.initOrd A) s) ∧
    (∀ s, Compl.Runs A Sg (Compl.initOrd A) s →
      ∃ sched fuel, Compl.runOrdS (Compl.onRound sched) A Sg fuel = some s) ∧
    (∀ s, Compl.Runs A Sg (Compl.initOrd A) s →
      s.st.cache.Nodup ∧ (∀ P, P ∈ s.st.cache ↔ Compl.MReach A Sg P) ∧
        (∀ r, r ∈ s.st.rules ↔ r ∈ Compl.tdExpected A Sg s.st.cache) ∧ Compl.tdCertB A Sg s.st = true) ∧
    (∀ s₁ s₂, Compl.Runs A Sg (Compl.initOrd A) s₁ → Compl.Runs A Sg (Compl.initOrd A) s₂ →
      TAIso (Compl.ordIso s₁.st.cache s₂.st.cache) (Compl.ordIso s₂.st.cache s₁.st.cache)
        (removeUseless ⟨s₁.st.rules, [0]⟩) (removeUseless ⟨s₂.st.rules, [0]⟩)) := by
  refine ⟨fun pick fuel s h => Compl.loopOrd_runs pick fuel _ s h,
    fun s h => h.realised (Compl.InvO.init A Sg), fun s h => ?_,
    fun s₁ s₂ h₁ h₂ => Compl.runs_iso (fun _ => Iff.rfl) h₁ h₂⟩
  have F := h.final
  refine ⟨F.nodup, F.mem, F.rules, ?_⟩
  apply Compl.tdCertB_iff.mpr
  exact ⟨by rw [List.head?_eq_getElem?]; exact F.head, F.closed, F.rules⟩

-- an execution that takes the elements with the indices 0, 1, 0, 0, 0
example : Compl.Runs Compl.Ex.aChain Compl.Ex.sgc (Compl.initOrd Compl.Ex.aChain)
    (Compl.stepAt 0 Compl.Ex.aChain Compl.Ex.sgc (Compl.stepAt 0 Compl.Ex.aChain Compl.Ex.sgc
      (Compl.stepAt 0 Compl.Ex.aChain Compl.Ex.sgc (Compl.stepAt 1 Compl.Ex.aChain Compl.Ex.sgc
        (Compl.stepAt 0 Compl.Ex.aChain Compl.Ex.sgc (Compl.initOrd Compl.Ex.aChain)))))) := by
  refine .step (i := 0) (by decide) (.step (i := 1) (by decide) (.step (i := 0) (by decide)
    (.step (i := 0) (by decide) (.step (i := 0) (by decide) (.done (by decide))))))

/-- The instance asked for: choice functions of the content of `todo` (`complTDOrd pick = complTDOrdS (onTodo pick)`). -/
theorem C06_order_isomorphic_todo (pick₁ pick₂ : List Compl.MacroState → Nat) (A : TA) (Sg : List (Nat × Nat))
    (f₁ f₂ : Nat) (C D : TA)
    (h₁ : Compl.complTDOrd pick₁ A Sg f₁ = some C) (h₂ : Compl.complTDOrd pick₂ A Sg f₂ = some D) :
    (∃ σ τ, TAIso σ τ C D) ∧ (∀ t, accepts C t = accepts D t) ∧ C.states.length = D.states.length ∧
      C.rules.length = D.rules.length ∧
      (∀ t, (overSig Sg t = true → accepts C t = !accepts A t) ∧ (overSig Sg t = false → accepts C t = false)) := by
  obtain ⟨s₁, s₂, _, _, _, hiso⟩ := C06_order_isomorphic _ _ A Sg Sg (fun _ => Iff.rfl) f₁ f₂ C D h₁ h₂
  have hs := C06_order_sizes _ _ A Sg Sg (fun _ => Iff.rfl) f₁ f₂ C D h₁ h₂
  exact ⟨⟨_, _, hiso⟩, hs.1, hs.2.1, hs.2.2.1, C06_order_exact _ A Sg f₁ C h₁⟩

/-- The FIFO order IS the model `complTD` of `C06.lean` (same fuel, same answer, `none` at the same time) … -/
theorem C06_order_fifo_is_model (A : TA) (Sg : List (Nat × Nat)) (fuel : Nat) :
    Compl.complTDOrd Compl.pickFifo A Sg fuel = Compl.complTD A Sg fuel :=
  Compl.complTDOrd_fifo A Sg fuel

/-- … so the automaton of ANY exploration order (the one of the real hash set included) is isomorphic to the one the
model `complTD` returns: "the model returns the same automaton as the code up to renaming". -/
theorem C06_order_model_up_to_renaming (pick : Compl.StO → Nat) (A : TA) (Sg : List (Nat × Nat))
    (f₁ f₂ : Nat) (C D : TA) (h₁ : Compl.complTDOrdS pick A Sg f₁ = some C) (h₂ : Compl.complTD A Sg f₂ = some D) :
    (∃ σ τ, TAIso σ τ C D) ∧ (∀ t, accepts C t = accepts D t) ∧ C.states.length = D.states.length ∧
      C.rules.length = D.rules.length := by
  rw [← Compl.complTDOrd_fifo] at h₂
  obtain ⟨s₁, s₂, _, _, hiso⟩ := Compl.complTDOrd_iso h₁ h₂
  exact ⟨⟨_, _, hiso⟩, hiso.lang, hiso.states_length,
    hiso.rules_length (Compl.complTDOrd_nodup_rules h₁) (Compl.complTDOrd_nodup_rules h₂)⟩

example : (Compl.complTD Compl.Ex.aChain Compl.Ex.sgc 20).isSome = true := by decide +kernel

/-! ### the alphabet: one rank per symbol number -/

/-- The precondition on the alphabet, positively.  If the symbol numbers of the dictionary are pairwise distinct, the
ranked alphabet `Compute` extracts (`symbolMap`, `ranks`) is the listed one; if a number may be listed repeatedly but with
ONE rank, it is the same set (and `C06_order_isomorphic` applies to two listings of the same set).  If moreover the rules of
`A` use every symbol of the alphabet with its rank, the set `W` the code collects from `transitionIndex[state][symbol]`
(no look at the length of the tuples) is the `W` of the model. -/
theorem C06_alphabet_one_rank (A : TA) (Sg : List (Nat × Nat)) :
    ((Sg.map Prod.fst).Nodup → Compl.dictSg Sg = Sg) ∧
    (Compl.oneRankB Sg = true → ∀ fa, fa ∈ Compl.dictSg Sg ↔ fa ∈ Sg) ∧
    (Compl.oneRankB Sg = true → Compl.ranksRespectedB A Sg = true →
      ∀ P f n, (f, n) ∈ Compl.dictSg Sg → Compl.tdWRaw A P f = Compl.tdW A P f n) := by
  refine ⟨Compl.dictSg_of_nodup, Compl.mem_dictSg_of_oneRank, ?_⟩
  intro _ h2 P f n hfa
  apply Compl.tdW_eq_raw
  intro r hr e
  exact Compl.ranksRespectedB_iff.mp h2 r f n hr (Compl.mem_dictSg_sub hfa) e

example : Compl.oneRankB Compl.Ex.sg3 = true ∧ Compl.ranksRespectedB Compl.Ex.aND Compl.Ex.sg3 = true ∧
    (Compl.Ex.sg3.map Prod.fst).Nodup := by decide

/-- **The precondition cannot be dropped.**  A dictionary in which the symbol number `0` is registered with the ranks `0`
and `2` (`oneRankB = false`): `Compute` keeps the first rank only (`symbolMap.insert` does not overwrite), i.e. works over
`dictSg Sg = [(0, 0)]`, and what it builds for the empty automaton is NOT the complement over `Sg` (the tree `0(0, 0)` is
accepted by neither) – although the model handed the full list `Sg` is right (`C06_model_exact` has no hypothesis on
`Sg`).  So "every symbol number has one rank" is a precondition of the correspondence between the code and the model. -/
theorem C06_alphabet_one_rank_needed :
    let Sg : List (Nat × Nat) := [(0, 0), (0, 2)]
    let A : TA := Compl.Ex.aNone
    Compl.oneRankB Sg = false ∧ Compl.dictSg Sg = [(0, 0)] ∧
    (match Compl.complTD A (Compl.dictSg Sg) 10 with
      | some C => isComplM C A Sg 10
      | none => none) = some false ∧
    (match Compl.complTD A Sg 10 with
      | some C => isComplM C A Sg 10
      | none => none) = some true := by decide +kernel

/-- Second half of the precondition: when a rule of `A` uses a symbol with another number of children than its rank
(`ranksRespectedB = false`), `transitionIndex[state][symbol]` contains a tuple that is too short for the choice functions
(the code has `assert(choice < W[i]->size())`; without assertions it reads out of bounds) – the model's `W` leaves it
out. -/
theorem C06_alphabet_ranks_respected_needed :
    let A : TA := ⟨[⟨1, [0], 0⟩, ⟨1, [0, 0], 0⟩], [0]⟩
    Compl.ranksRespectedB A [(1, 2)] = false ∧
    Compl.tdWRaw A [0] 1 = [[0], [0, 0]] ∧ Compl.tdW A [0] 1 2 = [[0, 0]] := by decide

/-!
## still not proved

* **The preorder** – as in `C06.lean`: only the identity preorder of `Complement` is modelled.
* **Insertion into `todo`** is modelled together with the insertion into `stateCache` (new elements of the cache = new
  elements of `todo`), not statement by statement; a slip that forgets `todo.insert` in ONE of the two places of the code
  would not be visible as a different model.
* **The alphabet.**  `dictSg` / `tdWRaw` describe how the code reads the dictionary and the transitions; there is no
  executable model of the whole construction over `tdWRaw` (out-of-bounds behaviour is not modelled), only the statement
  that under `oneRankB` and `ranksRespectedB` the inputs of the model are what the code reads, and the two counterexamples.
  That the symbol dictionary of the caller satisfies the precondition remains an assumption about the caller.
* The isomorphism is between models (any order against any order, in particular against `complTD`); that the real C++
  run IS one of the executions `Runs` (the one induced by its hash set) is the reading of the source described in the header, and
  is what the driver's comparison (language, numbers of states and rules) tests.
* None of the fuel bounds is tight.
-/
end Vata.Props
