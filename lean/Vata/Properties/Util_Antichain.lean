import Vata.Proofs.AntichainOrd
/-!
# Utility classes behind C01 / C07 / C09 – the antichain containers of the inclusion algorithms

> `Antichain1C`, `SequentialAntichain1C`, `Antichain2Cv2` and `OrderedAntichain2C` (src/antichain1c.hh,
> src/antichain2c_v2.hh, src/ordered_antichain2c.hh) are the containers in which the upward / downward tree inclusion
> algorithms and the antichain word inclusion algorithm keep their macro-state pairs.  The inclusion properties C01, C07,
> C09 rely on them behaving as "a set of minimal pairs standing for its upward closure" and "a work-list that yields a
> smallest pair".

* **Model of the code (L2).**  `Vata/Antichain.lean`: every public member as coded, parameterised by the comparators.
  The correspondence check (`achain` cases: `harness/op_achain.inc`, `Driver/AchainChk.lean`, `tools/gen_achain.py`) replays
  histories on the real classes and compares every answer and the full content after every step with these models.
* **Theorems.**  `Vata/Proofs/Antichain.lean` (1C, sequential), `Vata/Proofs/AntichainTwo.lean` (2C),
  `Vata/Proofs/AntichainOrd.lean` (ordered).  This file restates the main ones under the names `Util_Antichain_…` and
  instantiates them with the orders the correspondence check uses (keys `Nat`, elements finite sets of `Nat`, subset
  comparator, the `Less` of `explicit_finite_incl_fctor_cache.hh`).

Which assumption is needed where (counterexamples are `example`s next to the theorems in the proof files):

| statement | assumptions |
|---|---|
| `contains` ⇔ ∃ stored element under a given key with `cmp(stored, Q)` | none |
| `refine` removes exactly those with `cmp(stored, Q)` under the given keys; eraser called on exactly those, once, in order | representation invariant (`WF`, holds after any history); "once" needs unique node identities (holds after any history) |
| combination keeps the antichain invariant | candidate lists right on the stored keys (`CandOk`); neither reflexivity nor transitivity |
| combination keeps "represented set = cones of everything offered" | transitivity of both orders (counterexample `1 ≤ 2 ≤ 3`, not `1 ≤ 3`) |
| combination never stores a pair twice (contract of `OrderedAntichain2C::insert`) | reflexivity of both orders (counterexample: `<`) |
| work-list = antichain, `get` returns a least element and removes exactly it | `Less` irreflexive + transitive, `insert` inside its contract (no `Less`-equivalent element present; counterexamples below) – for the combination: reflexive orders and a TOTAL `Less` |
| no dangling iterator in the ordered set | `Less` irreflexive + transitive; ANY history, in or out of the contract |
-/
namespace Vata.Props
open Vata Vata.AC

/-! ### the orders of the correspondence check -/

theorem subsetB_iff (a b : NSet) : subsetB a b = true ↔ ∀ x, x ∈ a → x ∈ b := by
  simp [subsetB, List.all_eq_true]

theorem subsetB_refl (a : NSet) : subsetB a a = true := (subsetB_iff a a).2 (fun _ h => h)

theorem subsetB_trans (a b c : NSet) (h1 : subsetB a b = true) (h2 : subsetB b c = true) : subsetB a c = true :=
  (subsetB_iff a c).2 (fun x h => (subsetB_iff b c).1 h2 x ((subsetB_iff a b).1 h1 x h))

theorem lexLt_irrefl (a : List Nat) : lexLt a a = false := by
  induction a with
  | nil => rfl
  | cons x xs ih => simp [lexLt, ih]

theorem lexLt_trans (a b c : List Nat) (h1 : lexLt a b = true) (h2 : lexLt b c = true) : lexLt a c = true := by
  induction a generalizing b c with
  | nil =>
    cases b with
    | nil => simp [lexLt] at h1
    | cons y ys =>
      cases c with
      | nil => simp [lexLt] at h2
      | cons z zs => rfl
  | cons x xs ih =>
    cases b with
    | nil => simp [lexLt] at h1
    | cons y ys =>
      cases c with
      | nil => simp [lexLt] at h2
      | cons z zs =>
        simp only [lexLt] at h1 h2 ⊢
        by_cases hxy : x < y
        · by_cases hyz : y < z
          · have : x < z := Nat.lt_trans hxy hyz
            simp [this]
          · simp only [hyz, if_false] at h2
            by_cases hzy : z < y
            · simp [hzy] at h2
            · have : x < z := by omega
              simp [this]
        · simp only [hxy, if_false] at h1
          by_cases hyx : y < x
          · simp [hyx] at h1
          · simp only [hyx, if_false] at h1
            have hxy' : x = y := by omega
            subst hxy'
            by_cases hyz : x < z
            · simp [hyz]
            · simp only [hyz, if_false] at h2 ⊢
              by_cases hzy : z < x
              · simp [hzy] at h2
              · simp only [hzy, if_false] at h2 ⊢
                exact ih ys zs h1 h2

theorem lexLt_total (a b : List Nat) (h1 : lexLt a b = false) (h2 : lexLt b a = false) : a = b := by
  induction a generalizing b with
  | nil =>
    cases b with
    | nil => rfl
    | cons y ys => simp [lexLt] at h1
  | cons x xs ih =>
    cases b with
    | nil => simp [lexLt] at h2
    | cons y ys =>
      simp only [lexLt] at h1 h2
      by_cases hxy : x < y
      · simp [hxy] at h1
      · by_cases hyx : y < x
        · simp [hyx] at h2
        · simp only [hxy, hyx, if_false] at h1 h2
          have : x = y := by omega
          rw [this, ih ys h1 h2]

/-- the `Less` of the word inclusion checker (size of the set, then the key, then the set) as a proposition -/
theorem less0_iff (a b : Nat × NSet) :
    lessOf 0 a b = true ↔
      a.2.length < b.2.length ∨ (a.2.length = b.2.length ∧ (a.1 < b.1 ∨ (a.1 = b.1 ∧ lexLt a.2 b.2 = true))) := by
  simp only [lessOf]
  by_cases h1 : a.2.length < b.2.length
  · simp [h1]
  · by_cases h2 : b.2.length < a.2.length
    · simp only [h1, h2, if_false, if_true]
      constructor
      · intro h; cases h
      · rintro (h | ⟨h, _⟩) <;> (exfalso; omega)
    · have he : a.2.length = b.2.length := by omega
      by_cases h3 : a.1 < b.1
      · simp [h3, he]
      · by_cases h4 : b.1 < a.1
        · simp only [h1, h2, h3, h4, if_false, if_true]
          constructor
          · intro h; cases h
          · rintro (h | ⟨_, h | ⟨h, _⟩⟩) <;> (exfalso; omega)
        · have hk : a.1 = b.1 := by omega
          simp [he, hk]

theorem less0_strict : Ord.StrictOrd (lessOf 0) := by
  constructor
  · intro a
    cases h : lessOf 0 a a with
    | false => rfl
    | true =>
      rcases (less0_iff a a).1 h with h | ⟨_, h | ⟨_, h⟩⟩
      · omega
      · omega
      · rw [lexLt_irrefl] at h; cases h
  · intro a b c h1 h2
    rw [less0_iff] at h1 h2 ⊢
    rcases h1 with h1 | ⟨e1, h1 | ⟨k1, h1⟩⟩ <;> rcases h2 with h2 | ⟨e2, h2 | ⟨k2, h2⟩⟩
    · left; omega
    · left; omega
    · left; omega
    · left; omega
    · right; exact ⟨by omega, Or.inl (by omega)⟩
    · right; exact ⟨by omega, Or.inl (by omega)⟩
    · left; omega
    · right; exact ⟨by omega, Or.inl (by omega)⟩
    · right; exact ⟨by omega, Or.inr ⟨by omega, lexLt_trans _ _ _ h1 h2⟩⟩

theorem less0_total : Ord.Total (lessOf 0) := by
  intro a b h1 h2
  have n1 : ¬ (a.2.length < b.2.length ∨ (a.2.length = b.2.length ∧ (a.1 < b.1 ∨ (a.1 = b.1 ∧ lexLt a.2 b.2 = true)))) :=
    fun h => by rw [(less0_iff a b).2 h] at h1; cases h1
  have n2 : ¬ (b.2.length < a.2.length ∨ (b.2.length = a.2.length ∧ (b.1 < a.1 ∨ (b.1 = a.1 ∧ lexLt b.2 a.2 = true)))) :=
    fun h => by rw [(less0_iff b a).2 h] at h2; cases h2
  have e1 : a.2.length = b.2.length := by
    apply Classical.byContradiction; intro hne
    rcases Nat.lt_or_gt_of_ne hne with h | h
    · exact n1 (Or.inl h)
    · exact n2 (Or.inl h)
  have e2 : a.1 = b.1 := by
    apply Classical.byContradiction; intro hne
    rcases Nat.lt_or_gt_of_ne hne with h | h
    · exact n1 (Or.inr ⟨e1, Or.inl h⟩)
    · exact n2 (Or.inr ⟨e1.symm, Or.inl h⟩)
  have e3 : a.2 = b.2 := by
    apply lexLt_total
    · cases h : lexLt a.2 b.2 with
      | false => rfl
      | true => exact (n1 (Or.inr ⟨e1, Or.inr ⟨e2, h⟩⟩)).elim
    · cases h : lexLt b.2 a.2 with
      | false => rfl
      | true => exact (n2 (Or.inr ⟨e1.symm, Or.inr ⟨e2.symm, h⟩⟩)).elim
  exact Prod.ext e2 e3

/-! ### `Antichain2Cv2`: members -/

/-- `contains(keys, Q, cmp)` answers `true` iff some element `P` stored under one of the given keys satisfies
`cmp(P, Q)` – stored element first, as coded.  No assumption on `cmp` or on the container. -/
theorem Util_Antichain_contains {κ β : Type} [DecidableEq κ] (d : Two.Data κ β) (keys : List κ) (Q : β) (cmp : β → β → Bool) :
    Two.contains d keys Q cmp = true ↔ ∃ p, p ∈ keys ∧ ∃ n, n ∈ Two.listOf d p ∧ cmp n.2 Q = true :=
  Two.contains_iff d keys Q cmp

example : Two.contains [(1, [(0, [0, 2]), (1, [])]), (0, [(2, [5])])] [7, 0] [5, 6] subsetB = true := by decide
example : Two.contains [(1, [(0, [0, 2]), (1, [])]), (0, [(2, [5])])] [7, 0] [6] subsetB = false := by decide

/-- `refine(keys, Q, cmp, eraser)`: under each given key exactly the elements with `cmp(P, Q)` go (the lists keep their
order, other keys are untouched, the representation invariant is kept – a key whose list runs empty disappears); the
eraser is called on exactly the removed nodes, on each once, in the order `Two.erased` (candidates in the given order,
each list front to back). -/
theorem Util_Antichain_refine {κ β σ : Type} [DecidableEq κ] {d : Two.Data κ β} (hw : Two.WF d) (hi : Two.IdsOk d)
    (keys : List κ) (Q : β) (cmp : β → β → Bool) (er : κ → Nat → β → σ → σ) (s : σ) :
    Two.WF (Two.refine d keys Q cmp er s).1 ∧
      (∀ k, Two.listOf (Two.refine d keys Q cmp er s).1 k =
        if k ∈ keys then (Two.listOf d k).filter (fun P => !cmp P.2 Q) else Two.listOf d k) ∧
      (Two.refine d keys Q cmp er s).2 = (Two.erased cmp Q d keys).foldl (fun s e => er e.1 e.2.1 e.2.2 s) s ∧
      (∀ e, e ∈ Two.erased cmp Q d keys ↔ e.1 ∈ keys ∧ e.2 ∈ Two.listOf d e.1 ∧ cmp e.2.2 Q = true) ∧
      (Two.erased cmp Q d keys).Nodup := by
  refine ⟨?_, fun k => ?_, Two.refine_snd _ _ _ _ _ _, fun e => Two.mem_erased _ _ _ hw.1 e,
    Two.nodup_erased _ _ _ hw.1 (Two.listOf_nodup_of_idsOk hi)⟩
  · rw [Two.refine_fst]; exact Two.wf_refineD _ _ _ hw
  · rw [Two.refine_fst]; exact Two.listOf_refineD _ _ _ hw.1 k

/-- a duplicated candidate key, an absent key, a key that runs empty; the eraser records its calls -/
example :
    Two.refine [(1, [(0, [0, 2]), (1, []), (3, [0])]), (0, [(2, [0, 5])])] [0, 1, 1, 7] [0] (fun P Q => subsetB Q P)
        (fun p i _ (l : List (Nat × Nat)) => l ++ [(p, i)]) []
      = ([(1, [(1, [])])], [(0, 2), (1, 0), (1, 3)]) := by decide

/-- `insert`, `get`, `remove`, `lookup`, `size`, `empty` in terms of the stored lists -/
theorem Util_Antichain_members {κ β : Type} [DecidableEq κ] {d : Two.Data κ β} (hw : Two.WF d) :
    (∀ i q Q k, Two.listOf (Two.insert d i q Q) k = if k = q then Two.listOf d q ++ [(i, Q)] else Two.listOf d k) ∧
    (∀ k n d', Two.get d k = some (n, d') →
      ∃ l, Two.listOf d k = n :: l ∧ ∀ k', Two.listOf d' k' = if k' = k then l else Two.listOf d k') ∧
    (∀ k, Two.get d k = none ↔ k ∉ Two.keys d) ∧
    (∀ q i k, Two.listOf (Two.remove d q i) k =
      if k = q then (Two.listOf d q).filter (fun P => P.1 != i) else Two.listOf d k) ∧
    (∀ k, Two.lookup d k = if Two.listOf d k = [] then none else some (Two.listOf d k)) ∧
    Two.size d = ((Two.keys d).map (fun k => (Two.listOf d k).length)).sum ∧
    (Two.empty d = true ↔ ∀ k, Two.listOf d k = []) :=
  ⟨fun i q Q k => Two.listOf_insert d i q Q k, fun _ _ _ h => Two.get_spec hw.1 h, fun k => Two.get_eq_none_iff hw.2 k,
    fun q i k => Two.listOf_remove q i hw.1 k, fun k => Two.lookup_of_wf hw k, Two.size_eq hw.1, Two.empty_iff hw⟩

/-! ### the combination `if (!contains(up, Q, ≤)) { refine(down, Q, ≥); insert(q, Q); }` -/

/-- history theorem: after ANY sequence of offered pairs – candidate lists `up q = {p | q ≤ p}`, `down q = {p | p ≤ q}` as
in the tree algorithm – the container is an antichain (no stored pair covers another stored pair, where `(p, P)` covers
`(q, Q)` iff `q ≤ p` and `P ≤ Q`), it stands for exactly the pairs covered by something that was ever offered, its
representation invariant holds, and (reflexive orders) no pair is stored twice -/
theorem Util_Antichain_offer_history {κ β : Type} [DecidableEq κ] {kle : κ → κ → Bool} {le : β → β → Bool} {up down : κ → List κ}
    (hkrf : ∀ a, kle a a = true) (hktr : ∀ a b c, kle a b = true → kle b c = true → kle a c = true)
    (hlrf : ∀ a, le a a = true) (hltr : ∀ a b c, le a b = true → le b c = true → le a c = true)
    (hup : ∀ q p, p ∈ up q ↔ kle q p = true) (hdown : ∀ q p, p ∈ down q ↔ kle p q = true) (xs : List (κ × β)) :
    let d := (Two.runOffers up down le ([], 0) xs).1
    Two.WF d ∧ Two.IdsOk d ∧ Two.Anti kle le d ∧ Two.ValsNodup d ∧
      ∀ x X, Two.Rep kle le d x X ↔ ∃ y, y ∈ xs ∧ Two.Covers kle le y.1 y.2 x X := by
  obtain ⟨h1, h2, h3, h4⟩ := Two.runOffers_empty (le := le) hktr hltr hup hdown xs
  exact ⟨h1, h2, h3, Two.runOffers_valsNodup hkrf hlrf hup xs (s := ([], 0)) Two.wf_nil (by intro k; simp [Two.listOf]), h4⟩

/-- the hypotheses are satisfiable: identity on the keys (`up q = down q = [q]`, as `up_tree_incl_fctor.hh` passes them),
subset on the sets -/
example (xs : List (Nat × NSet)) :
    let d := (Two.runOffers (fun q => [q]) (fun q => [q]) subsetB ([], 0) xs).1
    Two.WF d ∧ Two.IdsOk d ∧ Two.Anti (fun a b => a == b) subsetB d ∧ Two.ValsNodup d ∧
      ∀ x X, Two.Rep (fun a b => a == b) subsetB d x X ↔ ∃ y, y ∈ xs ∧ Two.Covers (fun a b => a == b) subsetB y.1 y.2 x X :=
  Util_Antichain_offer_history (kle := fun a b => a == b) (by simp)
    (by intro a b c h1 h2; simp only [beq_iff_eq] at h1 h2 ⊢; rw [h1, h2])
    subsetB_refl subsetB_trans (by intro q p; simp only [List.mem_singleton, beq_iff_eq]; exact eq_comm) (by intro q p; simp) xs

/-- … and a proper preorder on the keys: `0 ≤ 1` besides the identity (`ind[0] = {0,1}`, `inv[1] = {0,1}`) -/
example (xs : List (Nat × NSet)) :
    let kle : Nat → Nat → Bool := fun a b => a == b || (a == 0 && b == 1)
    let up : Nat → List Nat := fun q => if q = 0 then [0, 1] else [q]
    let down : Nat → List Nat := fun q => if q = 1 then [0, 1] else [q]
    Two.Anti kle subsetB (Two.runOffers up down subsetB ([], 0) xs).1 := by
  intro kle up down
  refine (Util_Antichain_offer_history (kle := kle) (up := up) (down := down) ?_ ?_ subsetB_refl subsetB_trans ?_ ?_ xs).2.2.1
  · intro a; simp [kle]
  · intro a b c; simp only [kle, Bool.or_eq_true, Bool.and_eq_true, beq_iff_eq]; omega
  · intro q p; simp only [up, kle, Bool.or_eq_true, Bool.and_eq_true, beq_iff_eq]
    split <;> simp <;> omega
  · intro q p; simp only [down, kle, Bool.or_eq_true, Bool.and_eq_true, beq_iff_eq]
    split <;> simp <;> omega

/-- one step, with the weaker requirement that fits the word algorithm too (candidates drawn from the keys seen so far):
the candidate lists have to be right only on the keys that store something -/
theorem Util_Antichain_offer_step {κ β : Type} [DecidableEq κ] {kle : κ → κ → Bool} {le : β → β → Bool} {d : Two.Data κ β}
    (hw : Two.WF d) (hktr : ∀ a b c, kle a b = true → kle b c = true → kle a c = true)
    (hltr : ∀ a b c, le a b = true → le b c = true → le a c = true)
    {up down : List κ} {q : κ} (hc : Two.CandOk kle d up down q) (i : Nat) (Q : β) (ha : Two.Anti kle le d) :
    Two.WF (Two.offer d up down le i q Q) ∧ Two.Anti kle le (Two.offer d up down le i q Q) ∧
      ∀ x X, Two.Rep kle le (Two.offer d up down le i q Q) x X ↔ Two.Rep kle le d x X ∨ Two.Covers kle le q Q x X :=
  ⟨Two.wf_offer hw _ _ _ _ _ _, Two.offer_anti hw.1 hc i Q ha, Two.offer_rep hw.1 hktr hltr hc i Q⟩

/-- the instance of the correspondence check: identity on the keys, subset on the sets; `{1,2}`, then `{1}` (replaces it),
then `{1,3}` (covered), under another key `{1,3}` -/
example :
    (Two.runOffers (fun q => [q]) (fun q => [q]) subsetB ([], 0) [(0, [1, 2]), (0, [1]), (0, [1, 3]), (1, [1, 3])]).1
      = [(0, [(1, [1])]), (1, [(2, [1, 3])])] := by decide

/-- the same for `Antichain1C` (the `post` sets; keeps the maximal keys) -/
theorem Util_Antichain_post_history {κ : Type} [DecidableEq κ] {kle : κ → κ → Bool} {up down : κ → List κ}
    (htr : ∀ a b c, kle a b = true → kle b c = true → kle a c = true)
    (hup : ∀ q p, p ∈ up q ↔ kle q p = true) (hdown : ∀ q p, p ∈ down q ↔ kle p q = true) (qs : List κ) :
    (One.runOffers up down [] qs).Nodup ∧ One.Anti kle (One.runOffers up down [] qs) ∧
      ∀ x, One.Rep kle (One.runOffers up down [] qs) x ↔ ∃ q, q ∈ qs ∧ kle x q = true :=
  One.runOffers_empty htr hup hdown qs

example :
    let kle : Nat → Nat → Bool := fun a b => a ≤ b && b < 3 || a == b
    One.runOffers (fun q => (List.range 5).filter (kle q)) (fun q => (List.range 5).filter (kle · q)) [] [1, 0, 4, 2, 1] = [4, 2] := by
  decide

/-- and for `SequentialAntichain1C::insert(key, cmp)` (`cmp(a, b)`: "a ≤ b"; keeps the maximal elements) -/
theorem Util_Antichain_seq_history {α : Type} {cmp : α → α → Bool}
    (htr : ∀ a b c, cmp a b = true → cmp b c = true → cmp a c = true) (ks : List α) :
    Seq.Anti cmp (Seq.run cmp [] ks) ∧ ∀ x, Seq.Rep cmp (Seq.run cmp [] ks) x ↔ ∃ k, k ∈ ks ∧ cmp x k = true := by
  obtain ⟨h1, h2⟩ := Seq.run_spec htr ks (d := []) (by simp [Seq.Anti])
  exact ⟨h1, fun x => by rw [h2]; simp [Seq.Rep]⟩

/-! ### `OrderedAntichain2C`: the work-list -/

/-- `get()` of the ordered work-list, as long as `insert` has been used inside its contract (`Ord.OInv`): the returned
pair is stored, it is LEAST w.r.t. `Less` among everything stored, exactly its node leaves the antichain, and the
invariant is kept.  `get()` answers `false` iff nothing is stored. -/
theorem Util_Antichain_get_least {κ β : Type} [DecidableEq κ] {lt : κ × β → κ × β → Bool} (h : Ord.StrictOrd lt)
    {o : Ord.State κ β} (ho : Ord.OInv lt o) :
    (Ord.get o = none ↔ ∀ k, Two.listOf o.ac k = []) ∧
    ∀ e o', Ord.get o = some (e, o') →
      e.2 ∈ Two.listOf o.ac e.1 ∧
      (∀ k n, n ∈ Two.listOf o.ac k → (k, n) = e ∨ Ord.ltE lt e (k, n) = true) ∧
      (∀ k, Two.listOf o'.ac k =
        if k = e.1 then (Two.listOf o.ac e.1).filter (fun P => P.1 != e.2.1) else Two.listOf o.ac k) ∧
      Ord.OInv lt o' :=
  ⟨Ord.get_none_iff ho, fun _ _ hg => Ord.get_spec h ho hg⟩

/-- history theorem for the work-list of the word inclusion checker (`AddToNext` and `get` in ANY interleaving), with the
`Less` of `explicit_finite_incl_fctor_cache.hh` (size of the set, key, the set itself) and the subset comparator: the
work-list and its antichain always hold the same nodes – so every `get` returns a least stored pair – and the antichain
invariant holds -/
theorem Util_Antichain_worklist_history {kle : Nat → Nat → Bool} (hkrf : ∀ a, kle a a = true) {up down : Nat → List Nat}
    (hup : ∀ q p, p ∈ up q ↔ kle q p = true) (hdown : ∀ q p, p ∈ down q ↔ kle p q = true) (ops : List (Ord.WOp Nat NSet)) :
    let s := Ord.wrun (lessOf 0) up down subsetB (Ord.init, 0) ops
    Ord.OInv (lessOf 0) s.1 ∧ Two.Anti kle subsetB s.1.ac :=
  have h := Ord.wrun_inv less0_strict less0_total hkrf subsetB_refl hup hdown ops (s := (Ord.init, 0))
    (Ord.oinv_init _) (by intro k a h; simp [Ord.init] at h) (by intro k k' a b h; simp [Ord.init] at h)
  ⟨h.1, h.2.2⟩

/-- the hypotheses are satisfiable: identity on the keys -/
example (ops : List (Ord.WOp Nat NSet)) :
    Ord.OInv (lessOf 0) (Ord.wrun (lessOf 0) (fun q => [q]) (fun q => [q]) subsetB (Ord.init, 0) ops).1 :=
  (Util_Antichain_worklist_history (kle := fun a b => a == b) (by simp) (by intro q p; simp only [List.mem_singleton, beq_iff_eq]; exact eq_comm) (by intro q p; simp) ops).1

/-- smallest set first; the pair `(0,{1,2})` is replaced by `(0,{1})` before it is ever returned -/
example :
    let s := Ord.wrun (lessOf 0) (fun q => [q]) (fun q => [q]) subsetB (Ord.init, 0)
      [.offer 0 [1, 2], .offer 1 [1, 2, 3], .offer 0 [1], .get, .offer 1 [4]]
    s.1.data = [(1, 3, [4]), (1, 1, [1, 2, 3])] ∧ s.1.ac = [(1, [(1, [1, 2, 3]), (3, [4])])] := by decide

/-- OUTSIDE the contract of `insert` (an element equivalent to the new one is present – here the same pair twice) the
work-list and the antichain get out of step: the second node never enters the ordered set, `get` never returns it,
`empty()` answers `true` while the antichain still holds it.  (In a debug build the `assert`s of `insert` / `get` fire.) -/
example :
    let o := Ord.insert (lessOf 0) (Ord.insert (lessOf 0) Ord.init 0 7 [5]) 1 7 [5]
    o.data = [(7, 0, [5])] ∧ o.ac = [(7, [(0, [5]), (1, [5])])] ∧
      (Ord.get o).map (fun x => (Ord.get x.2).isNone && Ord.empty x.2 && !Two.empty x.2.ac) = some true := by decide

/-- a `Less` that is not total (only the size of the set) breaks the combination although both orders are reflexive and
transitive: the second of two incomparable pairs of equal size is stored in the antichain but never put on the work-list -/
example :
    let s := Ord.wrun (lessOf 1) (fun q => [q]) (fun q => [q]) subsetB (Ord.init, 0) [.offer 0 [1], .offer 0 [2]]
    s.1.data = [(0, 0, [1])] ∧ s.1.ac = [(0, [(0, [1]), (1, [2])])] := by decide

/-! ### any history on the classes as such -/

/-- after ANY list of operations (every public member, arbitrary comparators, any number of objects, `swap` included)
on initially empty `Antichain2Cv2` objects: every key once, no key with an empty list, every node identity once -/
theorem Util_Antichain_any_history_2C {κ β : Type} [DecidableEq κ] (ops : List (Two.Op κ β)) (m : Nat) :
    ∀ d, d ∈ (Two.run ⟨List.replicate m [], 0⟩ ops).objs → Two.WF d ∧ Two.IdsOk d :=
  fun d hd => ⟨(Two.run_inv_init ops m d hd).1, (Two.run_inv_init ops m d hd).2.1⟩

/-- after ANY list of operations on initially empty `OrderedAntichain2C` objects, in or out of the contract of `insert`:
the antichain part is well-formed, the ordered set is strictly ascending and each of its elements refers to a node that
is still in the antichain (no dangling iterator is ever dereferenced by the comparison functor) -/
theorem Util_Antichain_any_history_ordered {κ β : Type} [DecidableEq κ] {lt : κ × β → κ × β → Bool} (h : Ord.StrictOrd lt)
    (ops : List (Ord.Op κ β)) (m : Nat) :
    ∀ o, o ∈ (Ord.run lt ⟨List.replicate m Ord.init, 0⟩ ops).objs → Ord.OWeak lt o := by
  intro o ho
  refine (Ord.run_weak h ops (P := ⟨List.replicate m Ord.init, 0⟩) ?_ o ho).1
  intro o' ho'
  have : o' = Ord.init := (List.mem_replicate.1 ho').2
  subst this
  exact ⟨Ord.oweak_init lt, by intro k a h; simp [Ord.init] at h⟩

/-- after ANY list of operations on `Antichain1C` objects: no key twice -/
theorem Util_Antichain_any_history_1C {κ : Type} [DecidableEq κ] (ops : List (One.Op κ)) (m : Nat) :
    ∀ d, d ∈ One.run (List.replicate m []) ops → d.Nodup := by
  apply One.run_nodup
  intro d hd
  have : d = [] := (List.mem_replicate.1 hd).2
  subst this; exact List.nodup_nil

/-!
## not proved / not modelled

* `operator<<` of the four classes (serialisation in hash order) is neither modelled nor checked.
* `Antichain2Cv2::get` and `Antichain1C::next` return `*data_.begin()` of a hash container: WHICH key comes first is
  unspecified; the models take it as an argument, the theorems hold for every choice, the correspondence check accepts
  any stored key.
* The link "these containers, used by `explicit_tree_incl_up.cc` / `explicit_finite_incl_fctor_cache.hh`, make the
  inclusion verdict right" is the subject of C01 / C07 / C09 (`Vata/InclUp.lean`, `Vata/NfaIncl.lean` model the
  algorithms with their own lists); no theorem connects those models to the container models of this file.
* The third criterion of the real `Less` functors is an ADDRESS (`StateSet*`); the instantiation proved total here
  compares the sets themselves.  Totality of the real functor on stored pairs needs the macro-state cache to intern equal
  sets (see the "not yet proved" block of `C09.lean`).
* `Less` functors that are not strict weak orders are outside the model (`std::set` has undefined behaviour there).
-/
end Vata.Props
