import Vata.Cow
import Vata.Proofs.CowHeap
import Vata.Proofs.CowHeap3
import Vata.Properties.C11_Extended
/-!
# C11 – Explicit automata are values: copies isolated, results depend only on operands

> After an explicit tree or finite automaton is copied, assigned or moved, any later modification of one object (adding
> rules, changing final states, clearing) is never visible through another object, and automata returned by operations
> stay unchanged when their operands are modified or destroyed afterwards. The outcome of an operation depends only on
> its operands and parameters, not on which other automata were created, modified or destroyed earlier in the same
> process.

(quantifier: for all interleaved sequences of construct / copy / copy-assign / move / AddTransition / SetStateFinal /
EraseFinalStates / Clear / destroy and library operations over several live automata that structurally share rule
storage)

## How the statement is read into the model

* **Specification (L0).**  `CowHeap.specStep` on `Nat → Option Val` (`Vata/CowHeap.lean`): every automaton object
  (*handle*, a number) owns an independent value `Val = List (Nat × Store.Cluster)` (state ↦ symbol ↦ tuple set, the
  `clusters` component of the rule store of `Vata/Store.lean`; `none` = no such object).  An operation of a history
  (`CowHeap.HOp`: `new h`, `copy src dst`, `assign src dst`, `add h q (f, kids)`, `clear h`, `destroy h`) changes the
  value of its *target* handle only: `copy`/`assign` give the target the value of the source, `add` is the pure insertion
  `Store.addToMap`, `clear` gives `[]`, `destroy` gives `none`.  That nothing else changes is
  `CowHeap.specStep_other`.  `specInit` is "no object".
* **Model of the code.**  `CowHeap3.step` on `CowHeap3.Heap` (`Vata/CowHeap3.lean`) mirrors the `shared_ptr` plumbing of
  `ExplicitTreeAutCore` at all three levels of sharing: handle → map node (`transitions_`) → cluster node → tuple-set
  node, each pool with explicit `use_count`s, never re-using node identifiers.  Copy construction and assignment copy the
  pointer (`use_count` + 1, release of the old target), `add` is `uniqueClusterMap()`, `uniqueCluster(q)`,
  `uniqueTuplePtrSet(f)`, `insert` – each "clone when `use_count ≠ 1`, else in place" –, `clear` is "fresh map when
  shared, `clear()` in place when unique", `destroy` releases the pointer with cascading deletion at `use_count` 0.
  `CowHeap3.abs H h` is the value read through handle `h` by following the pointers.
  `CowHeap.step` / `CowHeap.abs` (`Vata/CowHeap.lean`) is the older two-level model (cluster contents are values).
  Operations that are not C++ programs (using a dead object, constructing over a live one) and self-assignment are
  no-ops in the models and in the specification.
* **The property** is the refinement `abs ∘ step = specStep ∘ abs` along every history from the empty heap
  (`C11_history_isolation`), together with the reference-count invariant that makes the "unique ⇒ modify in place"
  decisions of the code sound (`C11_invariant`).
* `Vata/Cow.lean` (namespace `Vata.C`) is the first, relational two-level probe (no reference counts: uniqueness is
  decided by looking at all live handles); its lemmas are the bare *make-unique principle* (`C11_make_unique_principle`).
* **The rest of the quantifier** – `SetStateFinal` / `SetStatesFinal` / `EraseFinalStates` and the final-state half of
  `Clear`, move construction and move assignment, the selective copy constructor, and the library operations whose results
  share storage with their operands (`RemoveUnreachableStates`, `RemoveUselessStates`, `UnionDisjointStates`,
  `ReindexStates` / `Union`) – is the extended model `Vata/CowHeapX.lean` (`CowHeapX.HOpX`, values = whole `Store.Store`s,
  the same three-level heap plus a final set per handle), with its theorems in `Vata/Properties/C11_Extended.lean`;
  `C11_statement` at the end of this file is the property for that model in one theorem.
-/
namespace Vata.Props
open Vata
open Vata.CowHeap (HOp Val specStep specInit)

/-! ### every history: handles behave as independent values -/

/-- the three-level heap model refines the value semantics for every history of operations from the empty heap: what is
read through the handles after the history is what the independent-values specification computes -/
theorem C11_history_isolation (ops : List HOp) :
    CowHeap3.abs (ops.foldl CowHeap3.step CowHeap3.init) = ops.foldl specStep specInit :=
  CowHeap3.history_isolation3 ops

example : CowHeap3.abs (CowHeap3.CowEx3.ops2.foldl CowHeap3.step CowHeap3.init) 3 =
    some [(5, [(7, [[], [5, 5]])]), (6, [(9, [[5], [6]])])] := by decide
example : CowHeap3.CowEx3.H0.hmap 1 = CowHeap3.CowEx3.H0.hmap 2 ∧ CowHeap3.CowEx3.H0.mrc (CowHeap3.CowEx3.H0.hmap 1) = 2 := by
  decide

/-- the same for the two-level model (cluster contents as values) -/
theorem C11_history_isolation_two_level (ops : List HOp) :
    CowHeap.abs (ops.foldl CowHeap.step CowHeap.init) = ops.foldl specStep specInit :=
  CowHeap.history_isolation ops

example : CowHeap.abs (CowHeap.CowEx.ops1.foldl CowHeap.step CowHeap.init) 1 = some [(5, [(7, [[]]), (8, [[]])])] := by
  decide

/-- the clause "never visible through another object", spelled out on the model: after any history, one more
operation leaves the value read through every handle other than its target (`new h`, `add h`, `clear h`, `destroy h`:
`h`; `copy _ dst`, `assign _ dst`: `dst`) exactly as it was -/
theorem C11_other_handles_unchanged (ops : List HOp) (op : HOp) (x : Nat)
    (hx : match op with
      | .new h => x ≠ h | .copy _ dst => x ≠ dst | .assign _ dst => x ≠ dst | .add h _ _ => x ≠ h
      | .clear h => x ≠ h | .destroy h => x ≠ h) :
    CowHeap3.abs (CowHeap3.step (ops.foldl CowHeap3.step CowHeap3.init) op) x =
      CowHeap3.abs (ops.foldl CowHeap3.step CowHeap3.init) x := by
  rw [(CowHeap3.cow3_refines_values (CowHeap3.history_inv3 ops) op).1]
  exact CowHeap.specStep_other _ op x hx

/-- handle 1 and handle 2 share all three levels after the copy; the write through 2 is not seen through 1 -/
example : CowHeap3.abs (CowHeap3.step CowHeap3.CowEx3.Hsh (.add 2 5 (7, [5, 5]))) 1 = CowHeap3.abs CowHeap3.CowEx3.Hsh 1 ∧
    CowHeap3.abs (CowHeap3.step CowHeap3.CowEx3.Hsh (.add 2 5 (7, [5, 5]))) 2 ≠ CowHeap3.abs CowHeap3.CowEx3.Hsh 2 :=
  ⟨by decide, by decide⟩

/-! ### one step, from any heap that satisfies the invariant -/

/-- every operation acts on the handle values exactly like the value-level specification and keeps the reference-count
invariant, at three and at two levels.  The hypothesis `Inv H` is needed: on a heap whose `use_count` is too small the
code would modify a shared node in place (`CowEx3.Hbad` below). -/
theorem C11_step_refines_values :
    (∀ (H : CowHeap3.Heap) (op : HOp), CowHeap3.Inv H →
      CowHeap3.abs (CowHeap3.step H op) = specStep (CowHeap3.abs H) op ∧ CowHeap3.Inv (CowHeap3.step H op)) ∧
    (∀ (H : CowHeap.Heap) (op : HOp), CowHeap.Inv H →
      CowHeap.abs (CowHeap.step H op) = specStep (CowHeap.abs H) op ∧ CowHeap.Inv (CowHeap.step H op)) :=
  ⟨fun _ op hI => CowHeap3.cow3_refines_values hI op, fun _ op hI => CowHeap.cow_refines_values hI op⟩

example : CowHeap3.Inv CowHeap3.CowEx3.Hsh := (CowHeap3.invB_iff _).mp (by decide)
/-- without the invariant the conclusion fails: a write through handle 2 shows through handle 1 -/
example : CowHeap3.invB CowHeap3.CowEx3.Hbad = false ∧
    CowHeap3.abs (CowHeap3.step CowHeap3.CowEx3.Hbad (.add 2 5 (7, [5, 5]))) 1 ≠ CowHeap3.abs CowHeap3.CowEx3.Hbad 1 := by
  decide

/-! ### the reference-count invariant -/

/-- after every history, at all three levels: the `use_count` of every allocated node equals the number of handles /
parent nodes pointing to it, pointers go to allocated nodes, every allocated node is in use (and lies below the
allocation counter, so fresh nodes are fresh);
the executable checker `invB` (run by the driver on heaps reconstructed from the real objects) decides exactly this -/
theorem C11_invariant (ops : List HOp) :
    CowHeap3.Inv (ops.foldl CowHeap3.step CowHeap3.init) ∧
    CowHeap3.invB (ops.foldl CowHeap3.step CowHeap3.init) = true ∧
    CowHeap.Inv (ops.foldl CowHeap.step CowHeap.init) ∧
    CowHeap.invB (ops.foldl CowHeap.step CowHeap.init) = true :=
  ⟨CowHeap3.history_inv3 ops, (CowHeap3.invB_iff _).mpr (CowHeap3.history_inv3 ops),
   CowHeap.history_inv ops, (CowHeap.invB_iff _).mpr (CowHeap.history_inv ops)⟩

example : (CowHeap3.CowEx3.ops2.foldl CowHeap3.step CowHeap3.init).ml = [13, 10, 0] := by decide

/-- destruction frees everything: after any history that leaves no live object, no node of any level is left -/
theorem C11_no_garbage (ops : List HOp) :
    ((ops.foldl CowHeap3.step CowHeap3.init).hl = [] →
      (ops.foldl CowHeap3.step CowHeap3.init).ml = [] ∧ (ops.foldl CowHeap3.step CowHeap3.init).cl = [] ∧
      (ops.foldl CowHeap3.step CowHeap3.init).tl = []) ∧
    ((ops.foldl CowHeap.step CowHeap.init).hl = [] →
      (ops.foldl CowHeap.step CowHeap.init).ml = [] ∧ (ops.foldl CowHeap.step CowHeap.init).cl = []) :=
  ⟨CowHeap3.no_garbage3 (CowHeap3.history_inv3 ops), CowHeap.no_garbage (CowHeap.history_inv ops)⟩

example : ((CowHeap3.CowEx3.ops2 ++ [HOp.destroy 1, HOp.destroy 3, HOp.destroy 4]).foldl CowHeap3.step CowHeap3.init).hl = [] := by
  decide

/-! ### the two models agree -/

/-- abstracting the third level of sharing does not change any observation: on every history both heap models show the
same values through the same handles -/
theorem C11_levels_agree (ops : List HOp) :
    CowHeap3.abs (ops.foldl CowHeap3.step CowHeap3.init) = CowHeap.abs (ops.foldl CowHeap.step CowHeap.init) :=
  CowHeap3.agrees_with_two_level ops

example : (CowHeap3.CowEx3.ops1.foldl CowHeap3.step CowHeap3.init).next = 9 ∧
    (CowHeap.CowEx.ops1.foldl CowHeap.step CowHeap.init).next = 5 := by decide

/-! ### the principle behind `uniqueClusterMap` / `uniqueCluster` -/

/-- the relational probe of `Vata/Cow.lean` (rules seen through a handle as a predicate `C.val`): (1) making the map of
`h` unique changes no value of any live handle; (2) the insertion after it adds exactly the rule `(q, b)` to the value of
`h`; (3) provided the map of `h` is unique (`C.MapUnique`, what step 1 is for), it changes no value of another live
handle.  Only the principle: that `C.uniqueMap` establishes `C.MapUnique` and keeps `C.Inv` is not proved for this probe
(the reference-counted models above supersede it). -/
theorem C11_make_unique_principle (H : C.Heap) (hI : C.Inv H) (h q : Nat) (b : C.Body) :
    (∀ h' r, h' ∈ H.hl → (C.val (C.uniqueMap H h) h' r ↔ C.val H h' r)) ∧
    (h ∈ H.hl → ∀ r, C.val (C.addUnique H h q b) h r ↔ C.val H h r ∨ r = (q, b)) ∧
    (C.MapUnique H h → ∀ h' r, h' ∈ H.hl → h' ≠ h → (C.val (C.addUnique H h q b) h' r ↔ C.val H h' r)) :=
  ⟨fun h' r hh' => C.uniqueMap_val H hI h h' hh' r, fun hh r => C.addUnique_self H hI h q b hh r,
   fun hu h' r hh' hne => C.addUnique_other H hI h q b hu h' hh' hne r⟩

/-- two live handles with their own maps 0 and 1, both pointing to cluster 2 for state 5: the invariant and the
uniqueness of the map of handle 1 hold -/
example :
    let H : C.Heap := ⟨[1, 2], fun h => if h = 1 then 0 else 1, fun m s => if m < 2 ∧ s = 5 then some 2 else none,
      fun m => if m < 2 then [5] else [], fun c => if c = 2 then [(7, [])] else [], 3⟩
    C.Inv H ∧ C.MapUnique H 1 ∧ 1 ∈ H.hl := by
  intro H
  refine ⟨⟨?_, ?_, ?_⟩, ?_, by decide⟩
  · intro m s c hc
    simp only [H] at hc ⊢
    split at hc
    · rename_i hms; simp [hms.1, hms.2]
    · cases hc
  · intro h hh
    simp only [H] at hh ⊢
    split <;> omega
  · intro m s c hc
    simp only [H] at hc ⊢
    split at hc
    · cases hc; omega
    · cases hc
  · intro h' hh' hne
    simp only [H, List.mem_cons, List.not_mem_nil, or_false] at hh' ⊢
    rcases hh' with rfl | rfl
    · exact absurd rfl hne
    · decide

/-! ### the property in one statement, for the extended model -/

/-- **C11 for every history of the extended operations** (construct, selective copy, copy-assign, move, move-assign,
`AddTransition`, `SetStateFinal(s)`, `EraseFinalStates`, `Clear`, destroy, and the sharing results of
`RemoveUnreachableStates` / `RemoveUselessStates` / `UnionDisjointStates`; `ReindexStates` / `Union` are sequences of them):
(1) what is read through the handles – rules AND final states – is what the independent-values specification computes;
(2) "never visible through another object": one more operation leaves the value of every object that is not one of its
targets exactly as it was; (3) "automata returned by operations stay unchanged when their operands are modified or destroyed
afterwards": an object keeps its value through every continuation in which it is not itself a target; (4) the reference
counts stay exact, so every "unique ⇒ modify in place" decision of the code is sound -/
theorem C11_statement (ops later : List CowHeapX.HOpX) (op : CowHeapX.HOpX) (x : Nat) :
    CowHeapX.absX (ops.foldl CowHeapX.stepX CowHeapX.initX) = ops.foldl CowHeapX.specStepX CowHeapX.specInitX ∧
    (x ∉ CowHeapX.targets op →
      CowHeapX.absX (CowHeapX.stepX (ops.foldl CowHeapX.stepX CowHeapX.initX) op) x =
        CowHeapX.absX (ops.foldl CowHeapX.stepX CowHeapX.initX) x) ∧
    ((∀ o, o ∈ later → x ∉ CowHeapX.targets o) →
      CowHeapX.absX ((ops ++ later).foldl CowHeapX.stepX CowHeapX.initX) x =
        CowHeapX.absX (ops.foldl CowHeapX.stepX CowHeapX.initX) x) ∧
    CowHeapX.InvX (ops.foldl CowHeapX.stepX CowHeapX.initX) :=
  ⟨C11_ext_history_isolation ops, C11_ext_other_handles_unchanged ops op x, C11_ext_result_survives ops later x,
    (C11_ext_invariant ops).1⟩

-- the union (object 5) of a history with `RemoveUnreachableStates`, writes to operand and result, `UnionDisjointStates`, `Clear`
example : CowHeapX.absX (CowHeapX.CowExX.ops2.foldl CowHeapX.stepX CowHeapX.initX) 5 =
    some ⟨[(5, [(7, [[], [5, 5]])]), (6, [(8, [[5]])]), (10, [(7, [[]])])], [6, 5, 10]⟩ := by decide

/-!
## closed since the last refresh of this file

All in `Vata/Properties/C11_Extended.lean` (model `Vata/CowHeapX.lean`), restated together in `C11_statement`:

* **"Final states. … are not operations of `HOp`"** – closed: `setFinal` / `setFinals` / `eraseFinal` / `clear` are operations
  of `HOpX`, the value of an object is a whole `Store.Store` (`C11_ext_history_isolation`, `C11_ext_other_handles_unchanged`).
* **"Move construction / move assignment: not in `HOp`"** – closed: `C11_ext_move`; the selective copy constructor:
  `C11_ext_copy`.
* **"Library operations that return sharing results … not operations of the heap model"** – closed for
  `RemoveUnreachableStates` (both exits: `*this`, and a NEW map node holding the operand's cluster pointers),
  `RemoveUselessStates` with `result.transitions_ = transitions_`, `UnionDisjointStates`, `ReindexStates(dst, …)` / `Union`:
  `C11_ext_sharing_results`, `C11_ext_result_survives`, `C11_ext_union_disjoint`, `C11_ext_reindex_into`.
* The extended model extends the model of this file conservatively (`C11_ext_conservative`).
* **The process-wide tuple cache** (`globalTupleCache_` is a `Util::Cache`): the class has a model of its own with history
  theorems – two handles are pointer-equal iff the interned values are equal, `use_count` = number of handles, the cache is
  empty when the last handle is gone (`Util_Cache_interning`, `Util_Cache_store_bijective`, `Util_Cache_no_leak` in
  `Vata/Properties/Util_Cache.lean`) – which is what licenses "child tuples are immutable values compared by value" here.

## not yet proved

* that the reachability / usefulness COMPUTATION inside the sharing library operations yields the right `keep` / `keepF`
  (the subject of C03): in the heap model these are parameters.  `RemoveUselessStates` with `remaining ≠ 0` builds its result
  by `internalAddTransition` (a sequence of `add`) and is not spelled out as a derived operation.
* state after a move: the moved-from C++ object still exists (null `transitions_`); the model treats it as dead.  Using it
  (other than destroying it or assigning to it) is not a C++ program we model.
* **"The outcome of an operation depends only on its operands and parameters."**  In Lean every model of an operation is
  a pure function of its arguments, so this holds by construction of the models and says nothing about hidden state of
  the C++.  Of the two process-wide caches, `globalTupleCache_` now has a class model (above) that is not connected to the
  heap model by a theorem (tuples stay values in `Val`); `globalAlphabet_` is not modelled (symbols are numbers; the symbol
  dictionary appears only as a parameter of the load / dump model of C13).
* **Explicit finite automata** (`explicit_finite_aut_core`: `uniqueClusterMap`, `uniqueCluster`) have no heap model of
  their own; `CowHeap` has the right number of levels but its operations were written after the tree-automaton code.
  (Their start-symbol map is modelled as a value in `Vata/NfaStart.lean`, C10.)
* The heap models are linked to the real objects only by the correspondence check of the driver (values read through
  every live handle after each step, and `invB` on the reconstructed `use_count`s); `step` / `stepX` being faithful
  transcriptions of the C++ is not a theorem.
* For the probe `Vata/Cow.lean`: that `C.uniqueMap` establishes `C.MapUnique` and that `C.add` preserves `C.Inv`.
-/
end Vata.Props
