import Vata.Proofs.ArityPrefixTables
import Vata.Proofs.BddIsectTotal
/-!
# C08 / C07 – the 6-bit arity prefix of the top-down BDD encoding at its limits

Property text served (C08): "For both BDD encodings, loading, the conversion bottom-up → top-down, union, intersection …
yield automata that denote exactly the language of the explicit encoding"; (C07) the top-down inclusion / simulation code
reads the table through `GetMtbddForArity`, i.e. relies on the arity prefix.  This file isolates the ONE place where the
two producers of top-down tables have to agree bit by bit: the arity prefix that `BDDTDTreeAutCore::AddTransition`
(`addArityToSymbol`, loading) and `BDDBUTreeAutCore::GetTopDownAut` (`ExtendWith(prefix, SYMBOL_SIZE)`, conversion) put
above the 16 symbol variables.

## How the C++ is read into the model (`Vata/ArityPrefix.lean`)

* `SymbolType prefix(SYMBOL_ARITY_LENGTH, arity)` is `arityPrefix arity = Glue.ofNum 6 arity`, the constructor as coded
  (mask test per variable); `symbol.append(prefix)` is `Glue.append`; both together are `addArityToSymbol`, and on a
  16-bit symbol number they give `rankedAsgn sym ar = symAsgn sym ++ arAsgn ar` (`C08_ranked_code_as_coded`), the
  assignment that the existing table models `BddAbsTD.addCubeTD` / `getTopDownAut` use.  `rankedCode sym ar` is the 22-bit
  number this assignment spells (variable `i` = bit `i`): 16 symbol bits, 6 arity bits above them.
* The table models are parametrised by the prefix function (`addCubeTDWith`, `ofRulesTDWith`, `getTopDownAutWith`); at
  `arAsgn` they ARE the existing models (`rfl`).  The two seeded variants are the instances `arAsgnMod63`
  (`prefix(6, size() % 63)`) and `arAsgnShort` (`append` whose loop stops one variable early: the field of variable 21
  keeps the `0x00` of `vars_.resize`, which the MTBDD constructor – `if (… == ONE) … else if (… == ZERO) …` – skips like a
  don't-care; `packedAppendOneShort` shows the `0x00` on the packed representation).
* "The two tables disagree on the ranked symbol of the rule" is a statement about `HasRuleTD T (bitsAr f n) p ks` (the
  MTBDD of `p` evaluated at symbol `f` with arity bits `n` holds the tuple `ks`).  The top-down `Intersection` pairs the
  leaves of the two MTBDDs valuation by valuation, so a rule that the operands hold under different ranked symbols is not
  paired: the kernel-checked run of the intersection model `BddIsect.bddIsectTD` on a two-rule automaton with a rule of
  arity 63 shows the tree being lost (`C08_arity_prefix_mod63_isect_loses_tree`).

## What is abstracted

MTBDD sharing / reference counts (C17), the hash order of `states` in `GetTopDownAut` (the result is order independent:
every state gets its own `SetMtbdd`), the copy-on-write of the table.  Symbols are numbers (the alphabet layer is
`C08_Load.lean`; `C08_convert_agrees_with_load` has a clause for descriptions loaded through it).
-/
namespace Vata.Props
open Vata Vata.M Vata.BddAbs Vata.BddAbsTD Vata.BddIsect Vata.BddLoad Vata.ArityPrefix

/-! ## 1. the code as coded -/

/-- **the constructor and `append` as coded build the ranked symbol**: `SymbolType prefix(SYMBOL_ARITY_LENGTH, arity)`
stays inside the defined range of the mask test (`6 ≤ 31`) for EVERY `arity`, is the list of its 6 low bits, and
`symbol.append(prefix)` puts them on the variables 16 … 21; on the packed two-bits-per-variable representation `append`
(`Glue.Packed.extend`) writes exactly these fields (executed for a symbol at the boundary ranks). -/
theorem C08_ranked_code_as_coded (sym ar : Nat) :
    arityPrefix ar = some (arAsgn ar) ∧ addArityToSymbol (symAsgn sym) ar = some (rankedAsgn sym ar) ∧
    rankedAsgn sym ar = symArAsgn sym ar ∧ (rankedAsgn sym ar).length = 22 ∧
    rankedCode sym ar = sym % 2 ^ 16 + 2 ^ 16 * (ar % 2 ^ 6) ∧ rankedCode sym ar < 2 ^ 22 :=
  ⟨arityPrefix_eq ar, addArityToSymbol_eq sym ar, rfl, rankedAsgn_length sym ar, rankedCode_eq sym ar, rankedCode_lt sym ar⟩

example : (Glue.Packed.extend (Glue.Packed.ofAsgn (symAsgn 40000)) (arAsgn 63)).abs = (rankedAsgn 40000 63).map some ∧
    (Glue.Packed.extend (Glue.Packed.ofAsgn (symAsgn 40000)) (arAsgn 32)).abs = (rankedAsgn 40000 32).map some := by
  decide +kernel

/-- **within the bounds the code determines symbol and arity** (`sym < 2^16 = 2^SYMBOL_SIZE`, `ar < 64 =
MAX_SYMBOL_ARITY + 1`): as a number, as an assignment, and semantically – the cube of the ranked symbol `(f, n)` contains
the valuation of the ranked symbol `(g, m)` iff `g = f` and `m = n`, which is what keeps rules of different rank apart in
one MTBDD.  Without bounds exactly the residues are determined. -/
theorem C08_ranked_code_injective :
    (∀ sym ar sym' ar', sym < 2 ^ 16 → ar < 64 → sym' < 2 ^ 16 → ar' < 64 →
      rankedCode sym ar = rankedCode sym' ar' → sym = sym' ∧ ar = ar') ∧
    (∀ sym ar sym' ar', sym < 2 ^ 16 → ar < 64 → sym' < 2 ^ 16 → ar' < 64 →
      rankedAsgn sym ar = rankedAsgn sym' ar' → sym = sym' ∧ ar = ar') ∧
    (∀ g m f n, g < 2 ^ 16 → m < 64 → f < 2 ^ 16 → n < 64 →
      (agrees (bitsAr g m) (rankedAsgn f n) 0 = true ↔ g = f ∧ m = n)) ∧
    (∀ sym ar sym' ar', rankedCode sym ar = rankedCode sym' ar' ↔ sym % 2 ^ 16 = sym' % 2 ^ 16 ∧ ar % 64 = ar' % 64) :=
  ⟨fun _ _ _ _ h1 h2 h3 h4 h => rankedCode_injective h1 h2 h3 h4 h,
   fun _ _ _ _ h1 h2 h3 h4 h => rankedAsgn_injective h1 h2 h3 h4 h,
   fun _ _ _ _ h1 h2 h3 h4 => agrees_bitsAr_rankedAsgn h1 h2 h3 h4,
   rankedCode_eq_iff⟩

/-- the boundary ranks 0, 31, 32, 62, 63 of the last symbol `65535` and of symbol `5`: the codes, and the strings
`ToString()` prints (variable 0 first; the last six characters are the arity, least significant bit first) -/
example : rankedCode 5 0 = 5 ∧ rankedCode 5 31 = 5 + 31 * 65536 ∧ rankedCode 5 32 = 5 + 32 * 65536 ∧
    rankedCode 5 62 = 5 + 62 * 65536 ∧ rankedCode 5 63 = 5 + 63 * 65536 ∧
    rankedCode 65535 0 = 65535 ∧ rankedCode 65535 63 = 2 ^ 22 - 1 := by decide
example : String.ofList (Glue.toStr (rankedAsgn 5 0)) = "1010000000000000000000" ∧
    String.ofList (Glue.toStr (rankedAsgn 5 31)) = "1010000000000000111110" ∧
    String.ofList (Glue.toStr (rankedAsgn 5 32)) = "1010000000000000000001" ∧
    String.ofList (Glue.toStr (rankedAsgn 5 62)) = "1010000000000000011111" ∧
    String.ofList (Glue.toStr (rankedAsgn 5 63)) = "1010000000000000111111" := by decide
/-- the five boundary ranks are pairwise apart (non-vacuity of the injectivity at the limits) -/
example : ([0, 31, 32, 62, 63].map (rankedCode 65535)).Nodup ∧ (5 : Nat) < 2 ^ 16 ∧ (63 : Nat) < 64 := by decide

/-- **the bounds cannot be dropped**: arity 64 collides with arity 0 (the `assert(arity <= MAX_SYMBOL_ARITY)` is compiled
out), arity 95 with 31, and the symbol number `2^16` with 0. -/
theorem C08_ranked_code_needs_bounds :
    rankedCode 0 64 = rankedCode 0 0 ∧ rankedAsgn 0 64 = rankedAsgn 0 0 ∧ addArityToSymbol (symAsgn 7) 64 = addArityToSymbol (symAsgn 7) 0 ∧
    rankedCode 7 95 = rankedCode 7 31 ∧ rankedCode 65536 3 = rankedCode 0 3 := by decide

/-! ## 2. the two seeded variants -/

/-- **variant `size() % 63`: arity 63 collides with arity 0**, for every symbol; below 63 the variant cannot be told from
the code (so only a rule with exactly `MAX_SYMBOL_ARITY` children – or more – shows it). -/
theorem C08_arity_prefix_mod63_collides :
    (∀ sym, rankedAsgnMod63 sym 63 = rankedAsgnMod63 sym 0) ∧ (∀ sym, rankedCodeMod63 sym 63 = rankedCodeMod63 sym 0) ∧
    (∀ sym ar, ar < 63 → rankedAsgnMod63 sym ar = rankedAsgn sym ar) ∧
    rankedCodeMod63 5 63 = 5 ∧ rankedCode 5 63 ≠ rankedCode 5 0 :=
  ⟨rankedAsgnMod63_collides, rankedCodeMod63_collides, fun sym _ h => rankedAsgnMod63_lt h sym, by decide, by decide⟩

/-- **variant `append` one variable short: the ranks `r` and `r + 32` collide**, for every symbol and every `r`: the
variable 21 (the top arity bit) is a don't-care, the valuations in the prefix are those whose five low arity variables
hold `r mod 32`. -/
theorem C08_append_one_short_collides :
    (∀ sym r, rankedAsgnShort sym r = rankedAsgnShort sym (r + 32)) ∧
    (∀ (a : Glue.Asgn) r, appendOneShort a (arAsgn r) = appendOneShort a (arAsgn (r + 32))) ∧
    (∀ sym n, rankedAsgnShort sym n = symAsgn sym ++ ((arAsgn n).dropLast ++ [none])) ∧
    (∀ ρ m n, preOK (withArity ρ m) (arAsgnShort n) = true ↔ m % 32 = n % 32) :=
  ⟨rankedAsgnShort_collides, appendOneShort_collides,
   fun sym n => by rw [rankedAsgnShort_eq, arAsgnShort_eq], preOK_short_withArity⟩

/-- ranks 1 and 33, 31 and 63 under the short `append`; the code keeps them apart -/
example : rankedAsgnShort 5 1 = rankedAsgnShort 5 33 ∧ rankedAsgnShort 5 31 = rankedAsgnShort 5 63 ∧
    String.ofList (Glue.toStr (rankedAsgnShort 5 33)) = "101000000000000010000X" ∧
    rankedAsgn 5 1 ≠ rankedAsgn 5 33 := by decide
/-- on the packed representation as coded: after the short `append` the field of variable 21 holds `0x00` (neither
`ZERO = 0x01` nor `ONE = 0x02` nor `DONT_CARE = 0x03`), the other 21 variables are written -/
example : (packedAppendOneShort (Glue.Packed.ofAsgn (symAsgn 5)) (arAsgn 33)).getRaw 21 = some 0 ∧
    (packedAppendOneShort (Glue.Packed.ofAsgn (symAsgn 5)) (arAsgn 33)).abs =
      (symAsgn 5 ++ (arAsgn 33).dropLast).map some ++ [none] := by decide +kernel

/-- **variant `% 63` in `GetTopDownAut`, on the tables**: for every rule list, every rule `f(ks) → p` with 63 children
whose parent the conversion collects: the natively loaded table (and the conversion as coded) holds it under the ranked
symbol `(f, 63)`; the converted table of the variant holds NO tuple of length 63 under any ranked symbol of arity 63 – it
holds the rule under `(f, 0)`, among the leaf rules – so the two tables disagree on the ranked symbol of that rule, and
the variant's table violates `ArityOK`, the invariant the top-down `Intersection` is proved under (`C08_td_isect`) and
that the C++ `assert`s in the pairing leaf operation. -/
theorem C08_arity_prefix_mod63_tables_disagree (rs : List Rule) (F : List Nat) (r : Rule) (hr : r ∈ rs)
    (h63 : r.kids.length = 63) (hp : r.parent ∈ tdStates (ofRules rs) F) :
    HasRuleTD (ofRulesTD rs) (bitsAr r.sym 63) r.parent r.kids ∧
    HasRuleTD (getTopDownAut (ofRules rs) F) (bitsAr r.sym 63) r.parent r.kids ∧
    (∀ ρ p ks, ks.length = 63 → ¬ HasRuleTD (getTopDownAutWith arAsgnMod63 (ofRules rs) F) (withArity ρ 63) p ks) ∧
    HasRuleTD (getTopDownAutWith arAsgnMod63 (ofRules rs) F) (bitsAr r.sym 0) r.parent r.kids ∧
    ¬ ArityOK (getTopDownAutWith arAsgnMod63 (ofRules rs) F) :=
  ⟨(mod63_tables_disagree rs F r hr h63 hp).1, (mod63_tables_disagree rs F r hr h63 hp).2.1,
   (mod63_tables_disagree rs F r hr h63 hp).2.2.1, (mod63_tables_disagree rs F r hr h63 hp).2.2.2,
   mod63_not_arityOK rs F r hr h63 hp⟩

/-- `rs63` (`a → 1`, `f(1^63) → 2`, final 2) satisfies the hypotheses -/
example : (⟨1, List.replicate 63 1, 2⟩ : Rule) ∈ rs63 ∧ (List.replicate 63 1).length = 63 ∧
    2 ∈ tdStates (ofRules rs63) fin63 := by decide +kernel

/-- **… and the tree is lost** (kernel-checked run of the models): `rs63` loaded natively, intersected (model of
`BDDTDTreeAutCore::Intersection`) with its conversion by the `% 63` variant: both operands accept `f(a, …, a)` (63
children), the intersection does not; with the conversion as coded it does. -/
theorem C08_arity_prefix_mod63_isect_loses_tree :
    accepts (absTD [0, 1] (ofRulesTD rs63) fin63) tree63 = true ∧
    accepts (absTD [0, 1] (getTopDownAutWith arAsgnMod63 (ofRules rs63) fin63) fin63) tree63 = true ∧
    (bddIsectTD (ofRulesTD rs63) fin63 (getTopDownAutWith arAsgnMod63 (ofRules rs63) fin63) fin63 20).map
      (fun r => accepts (absTD [0, 1] r.1 r.2.1) tree63) = some false ∧
    (bddIsectTD (ofRulesTD rs63) fin63 (getTopDownAut (ofRules rs63) fin63) fin63 20).map
      (fun r => accepts (absTD [0, 1] r.1 r.2.1) tree63) = some true := by decide +kernel

/-- **variant short `append` in `GetTopDownAut`, on the tables**: every rule `f(ks) → p` with a collected parent is held
under EVERY ranked symbol `(f, m)` with `m ≡ |ks| (mod 32)` – under `(f, |ks| + 32)` for `|ks| < 32`, under
`(f, |ks| - 32)` for `32 ≤ |ks|` – where the natively loaded table has nothing of that length. -/
theorem C08_append_one_short_tables_disagree (rs : List Rule) (F : List Nat) (r : Rule) (hr : r ∈ rs)
    (hp : r.parent ∈ tdStates (ofRules rs) F) (m : Nat) (hm : m % 32 = r.kids.length % 32) :
    HasRuleTD (getTopDownAutWith arAsgnShort (ofRules rs) F) (bitsAr r.sym m) r.parent r.kids ∧
    (m < 64 → r.kids.length < 64 → m ≠ r.kids.length → ¬ HasRuleTD (ofRulesTD rs) (bitsAr r.sym m) r.parent r.kids) :=
  short_tables_disagree rs F r hr hp m hm

/-- `rs33` (`a → 1`, `g(1) → 2`, `g(1^33) → 3`): the rule of rank 33 under the ranked symbol of rank 1 -/
example : (⟨1, List.replicate 33 1, 3⟩ : Rule) ∈ rs33 ∧ 3 ∈ tdStates (ofRules rs33) [3] ∧
    1 % 32 = (List.replicate 33 1).length % 32 ∧ 1 ≠ (List.replicate 33 1).length := by decide +kernel

/-- **… and a tree is gained**: `rs33` with final state 2 accepts `g(a)` only, with final state 3 `g(a^33)` only; the
intersection of the first (loaded) with the second converted by the short-`append` variant accepts `g(a)` (the leaf
operation zips the tuple `(1)` with the tuple `(1^33)` found under the same valuation; the C++ built without assertions
does the same); with the conversion as coded it is empty on that tree. -/
theorem C08_append_one_short_isect_gains_tree :
    accepts (absTD [0, 1] (ofRulesTD rs33) [2]) (.node 1 [.node 0 []]) = true ∧
    accepts (absTD [0, 1] (getTopDownAutWith arAsgnShort (ofRules rs33) [3]) [3]) (.node 1 [.node 0 []]) = false ∧
    (bddIsectTD (ofRulesTD rs33) [2] (getTopDownAutWith arAsgnShort (ofRules rs33) [3]) [3] 20).map
      (fun r => accepts (absTD [0, 1] r.1 r.2.1) (.node 1 [.node 0 []])) = some true ∧
    (bddIsectTD (ofRulesTD rs33) [2] (getTopDownAut (ofRules rs33) [3]) [3] 20).map
      (fun r => accepts (absTD [0, 1] r.1 r.2.1) (.node 1 [.node 0 []])) = some false := by decide +kernel

/-! ## 3. conversion agrees with loading -/

/-- **`GetTopDownAut` and loading build the same table.**
(1) For every rule list, every valuation `ρ` of the 22 variables: the table `GetTopDownAut` builds from the bottom-up
table of the rules holds `ρ(ks) → p` iff `p` is collected (a final state or a child of some rule; the other parents are
unreachable top-down) and the natively loaded top-down table holds it – NO bound on symbols or arities: both sides compute
`SymbolicVarAsgn(6, |ks|)`, and the statement holds for any prefix function used on both sides (clause 2; this is the
precise sense in which the two seeded changes are visible only when ONE side is changed).
(3) The same for a description loaded through the Timbuk layer into the two encodings (`C08_load_tables`: either
parameter, exceptions included, same alphabet, fresh state dictionaries).
(4) Hence the abstractions `absTD` have the same rules up to uncollected parents and (5) accept the same trees; (6) for
arities `< 64` both tables have the invariant `ArityOK` and the symbolic top-down `Intersection` of the converted with the
loaded automaton returns a result that accepts exactly the language of the automaton (nothing is lost). -/
theorem C08_convert_agrees_with_load :
    (∀ (rs : List Rule) (F : List Nat) ρ p ks, HasRuleTD (getTopDownAut (ofRules rs) F) ρ p ks ↔
      p ∈ tdStates (ofRules rs) F ∧ HasRuleTD (ofRulesTD rs) ρ p ks) ∧
    (∀ (pre : Nat → List (Option Bool)) (rs : List Rule) (F : List Nat) ρ p ks,
      HasRuleTD (getTopDownAutWith pre (ofRules rs) F) ρ p ks ↔
        p ∈ tdStates (ofRules rs) F ∧ HasRuleTD (ofRulesTDWith pre rs) ρ p ks) ∧
    (∀ (par : Param) (yd : BddLoad.SymDict), yd.Ok → ∀ (d : AutDesc) (F : List Nat) ρ p ks,
      HasRuleTD (getTopDownAut (loadBU par {} [] yd d).aut.tbl F) ρ p ks ↔
        p ∈ tdStates (loadBU par {} [] yd d).aut.tbl F ∧ HasRuleTD (loadTD par {} [] yd d).aut.tbl ρ p ks) ∧
    (∀ (rs : List Rule) (F syms : List Nat) r, r ∈ absRulesTD syms (getTopDownAut (ofRules rs) F) ↔
      r ∈ absRulesTD syms (ofRulesTD rs) ∧ r.parent ∈ tdStates (ofRules rs) F) ∧
    (∀ (rs : List Rule) (F syms : List Nat) t,
      accepts (absTD syms (getTopDownAut (ofRules rs) F) F) t = accepts (absTD syms (ofRulesTD rs) F) t) ∧
    (∀ (rs : List Rule) (F : List Nat), (∀ r, r ∈ rs → r.kids.length < 64) →
      ArityOK (ofRulesTD rs) ∧ ArityOK (getTopDownAut (ofRules rs) F) ∧
      ∃ R F' m, bddIsectTDRef (getTopDownAut (ofRules rs) F) F (ofRulesTD rs) F = some (R, F', m) ∧
        ∀ syms t, accepts (absTD syms R F') t = accepts (absTD syms (ofRulesTD rs) F) t) := by
  refine ⟨convert_eq_load, convertWith_eq_loadWith, fun par yd hyd d F ρ p ks => convert_eq_load_desc par yd hyd d F ρ p ks,
    absRulesTD_convert_load, convert_load_lang_unbounded, fun rs F har => ?_⟩
  have hA : ArityOK (ofRulesTD rs) := arityOK_ofRulesTD rs har
  have hB : ArityOK (getTopDownAut (ofRules rs) F) :=
    fun ρ n p ks hn h => hA ρ n p ks hn ((convert_eq_load rs F _ p ks).mp h).2
  obtain ⟨R, F', m, h, hl, _⟩ := bddIsectTDRef_lang _ F _ F hB hA
  refine ⟨hA, hB, R, F', m, h, fun syms t => ?_⟩
  rw [hl, convert_load_lang_unbounded, Bool.and_self]

/-- a rule list at the limit, `rs63` with ranks 0 and 63 (non-vacuity of the clause for arities `< 64`), and the first
clause executed at the ranked symbols `(1, 63)` and `(1, 0)` -/
example : (∀ r, r ∈ rs63 → r.kids.length < 64) ∧
    eval (getTD (getTopDownAut (ofRules rs63) fin63) 2) (bitsAr 1 63) = [List.replicate 63 1] ∧
    eval (getTD (ofRulesTD rs63) 2) (bitsAr 1 63) = [List.replicate 63 1] ∧
    eval (getTD (getTopDownAut (ofRules rs63) fin63) 2) (bitsAr 1 0) = [] := by decide +kernel

/-!
## still not proved

* The consequence of the seeded variants for the LANGUAGE of an intersection is kernel-checked on the two concrete
  automata `rs63` / `rs33` (`C08_arity_prefix_mod63_isect_loses_tree`, `C08_append_one_short_isect_gains_tree`); for
  arbitrary rule lists only the disagreement of the tables on the ranked symbol and the loss of `ArityOK` are proved,
  not a general "the intersection loses every tree that uses a rule of arity 63".
* The variants are modelled in `GetTopDownAut` (the conversion) against loading as coded; the mirror case (variant in
  `addArityToSymbol`, conversion as coded) is covered only through the symmetric clause 2 of
  `C08_convert_agrees_with_load` and `hasRuleTD_ofRulesTDWith`, without its own corollary.
* `packedAppendOneShort` (the short `append` on the two-bit packing) is executed on examples only; the general statement
  "its abstraction is `a ++ pre.dropLast` followed by an unwritten field" is not proved (the full `append` has
  `Glue.Packed` theorems in `Vata/Proofs/GlueAsgn.lean`).
* The readers of the prefix in the top-down inclusion / simulation code (`GetMtbddForArity`, C07) are not re-examined
  here; `C08_load_arity_reader` covers the reader on loaded tables.
-/

end Vata.Props
