import Vata.Proofs.LtsEngineCalls2SCRun2
import Vata.Properties.C16_Discipline3
/-!
# C16 / C20 – the simulation engine ON `SharedCounter`: the call discipline along the whole run

> C16: `computeSimulation(partition, relation, size)` returns the greatest simulation inside the initial relation.
> C20: the utility classes are used inside their (unchecked) preconditions.
> `Vata/Properties/C16_Discipline3.lean`, "still not proved": *`C16_engine_discipline_SC` … and its corollaries on heaps.*

## How the C++ is read into the model

* The history `Tr2.sc : List SC.Op` is written by `Vata/LtsEngineCalls2.lean` (see the header of `C16_Discipline3.lean`): counter
  object `i` = `partition_[i]->counter_`; `new` / `copyCtor b` (the two `Block` constructors), `resize` / `set` / `init`
  ("initialize counters"), `copyLabels nb b (inset of nb)` (`split`), `decr b1 a pre` (`processRemove`), `destroy i`
  (`~SimulationEngine`).  `scCfg L poison` = `key_`, `labelMap_`, `rowSize_` as `SimulationEngine::SimulationEngine` / `init`
  compute them.
* The discipline is `SC.ok` (`Vata/LtsUtil.lean`): phases `fresh → filling → running`; `set` only in `filling`, with a positive
  count, on a key index below `rows * rowSize` whose cell is still `0`; `decr` only in `running`, on a key index in range whose
  value is POSITIVE; `copyLabels` from a `running` counter into a `fresh` one, labels below `labelMap_.size()`; `destroy` not
  while `filling`.  On histories inside `SC.ok` the class AS CODED (rows in a heap, master values, reference-count cell, copy on
  write, the `CachingArrayAllocator` free list) is proved to refine the table of numbers (`SC.run_refines`).
* Proof (`Vata/Proofs/LtsEngineCalls2SC*.lean`): the invariant `SCI` – one live counter per block; for every label `a` of
  `inset(i)` and `q ∈ delta1[a]` the value of counter `i` at `key_[a * states + q]` is `cnt[i][a][q]` of the engine model, and
  the key index is below `rows * rowSize` (other labels of a copied row may hold stale numbers – they are never read: `decr` is
  only called for labels of `inset(b1)`).  Positivity at every `decr`: `JInv.hC` (counter = specification when nothing lags) +
  `cntSpec_erase` + `count_decrKeys`: the loops after erasing `(b1, col)` call `decr(a, q)` exactly once per `a`-edge from `q`
  into block `col`, and the counter is at least that number.

## What is abstracted

As in `C16_Discipline3.lean` (the interleaving with the other classes is not recorded; read-only calls `get` are not calls).

## Hypothesis added

`labels L * L.n < 2 ^ 64`: `labelMap_[a].second` is computed as `(x + n - 1) / rowSize + 1` on `size_t`, and the model
(`SC.mkLayout`) reduces modulo `2 ^ 64` like the C++; with `2 ^ 64` or more keyed pairs the row range of a label would wrap and
`resize` / `copyLabels` would cut rows off.  `key_` itself has `labels * states` entries, so the hypothesis says that `key_` is
addressable; it is satisfiable (examples below) and cannot be exhibited as violated by a `decide`d system (it needs `≥ 2^64`
states × labels).

## Result

No discipline clause fails on a reachable run: `C16_engine_discipline_SC` is PROVED for every input satisfying the engine's
preconditions.
-/
namespace Vata.Props
open Vata.L Vata.LE Vata.LU Vata.LEC Vata.LEC2

/-- **the `SharedCounter` call discipline holds along the whole run.**  For every LTS / partition / block relation satisfying
the engine's preconditions (those of `C16_engine_discipline_SL`) and with an addressable `key_` table, and for `cfg = scCfg L
poison`: the history of ALL `SharedCounter` calls of the constructor, `init` and the first `k` iterations of `run()` (every
`k`), and the history of a completed `computeSimulation` INCLUDING the destructors run by `~SimulationEngine`, is inside `SC.ok`:
every `decr` hits a positive counter of a `running` counter object at a key index inside its rows, every `set` a zero cell
inside the rows chosen by `resize`, every `copyLabels` goes from a `running` parent into the counter just constructed, and
every counter is destroyed exactly once, in the `running` phase. -/
theorem C16_engine_discipline_SC (L : LTS) (part : List (List Nat)) (rel : Rel)
    (hL : ltsOKB L = true) (hp : isPartition part L.n = true) (hc : isConsistent part rel = true)
    (ht : isTransB rel = true) (poison : Nat) (hsmall : labels L * L.n < 2 ^ 64) :
    (∀ k, SC.okAll (scCfg L poison) [] (stateAfterJ L (scCfg L poison) part rel k).2.sc = true) ∧
    (∀ size R t, computeSimulationJ L (scCfg L poison) part rel size = some (R, t) →
      SC.okAll (scCfg L poison) [] t.sc = true) := by
  have ok := scCfg_ok L poison hsmall
  have hg := stateAfterJ_goodC ok (ltsOK_of_B hL) hp hc (relTrans_of_B (part := part) ht)
  refine ⟨fun k => (hg k).1, ?_⟩
  intro size R t h
  unfold computeSimulationJ at h
  split at h
  · cases h; rfl
  · cases hr : engineRunJ L (fuelBound L) (engineInitJ L (scCfg L poison) part rel) with
    | none => rw [hr] at h; cases h
    | some et =>
      rw [hr] at h
      obtain ⟨k, hk, _⟩ := runJ_state hr
      have : t = et.2.addSC (finishT et.1) := by cases h; rfl
      rw [this, hk]; exact (finish_goodC (hg k)).1

/-- **value agreement.**  At every moment of the run the value world reached by the history (`SC.aRun`) has exactly one counter
per block, all in the `running` phase, and the number the class model holds for (block `i`, label `a ∈ inset(i)`, state
`q ∈ delta1[a]`) – at the key index `key_[a * states + q]`, which lies inside the rows of the counter – is the engine model's
`cnt[i][a][q]`. -/
theorem C16_engine_SC_values (L : LTS) (part : List (List Nat)) (rel : Rel)
    (hL : ltsOKB L = true) (hp : isPartition part L.n = true) (hc : isConsistent part rel = true)
    (ht : isTransB rel = true) (poison : Nat) (hsmall : labels L * L.n < 2 ^ 64) (k : Nat) :
    (SC.aRun (scCfg L poison) [] (stateAfterJ L (scCfg L poison) part rel k).2.sc).1.length =
      (stateAfter L part rel k).part.length ∧
    ∀ i, i < (stateAfter L part rel k).part.length →
      ∃ A, (SC.aRun (scCfg L poison) [] (stateAfterJ L (scCfg L poison) part rel k).2.sc).1.getD i none = some A ∧
        A.phase = .running ∧
        ∀ a q, a ∈ (stateAfter L part rel k).ins i → q ∈ delta1 L a →
          ∃ idx, SC.keyIdx (scCfg L poison) a q = some idx ∧ idx < A.rows * (scCfg L poison).rowSize ∧
            A.at idx = (stateAfter L part rel k).cntv i a q := by
  have ok := scCfg_ok L poison hsmall
  have hg := stateAfterJ_goodC ok (ltsOK_of_B hL) hp hc (relTrans_of_B (part := part) ht) k
  have inv := engine_invariant_always (ltsOK_of_B hL) hp hc (relTrans_of_B (part := part) ht) k
  rw [← stateAfterJ_fst L (scCfg L poison)] at inv ⊢
  refine ⟨hg.2.len, fun i hi => ?_⟩
  obtain ⟨A, hA, hph, hbv⟩ := hg.2.blk i hi
  refine ⟨A, hA, hph, fun a q ha hq => ?_⟩
  obtain ⟨h1, h2⟩ := (hbv (by simp)).agree a q ha hq
  exact ⟨_, ok.key a q (inv.wf.ins_lt hi ha) ((mem_delta1 L a q).mp hq).1, h1, h2⟩

/-- **the engine on heaps (`SharedCounter`), at every moment of the run.**  Running the class AS CODED (`SC.run`: rows in the
heap of `counterAllocator_`, `master_` / `data_` per row, the reference-count cell, the free list) on the engine's history never
reaches an undefined outcome, every `decr` returned what the table of numbers returns, and in the world reached:
(1) REFERENCE COUNT = NUMBER OF SHARERS: the count cell of every row a live counter points to is the number of (counter, row)
pairs pointing to it, and is at least 1; (2) NOTHING REFERENCED AFTER BEING FREED: the free list has no duplicates and no row of
it is referenced by a live counter; (3) `get(a, q)` of the counter of block `i` AS CODED returns the engine model's
`cnt[i][a][q]` whenever that is positive (a zero entry of a shared row is not observable: uninitialised memory). -/
theorem C16_engine_SC_on_heaps (L : LTS) (part : List (List Nat)) (rel : Rel)
    (hL : ltsOKB L = true) (hp : isPartition part L.n = true) (hc : isConsistent part rel = true)
    (ht : isTransB rel = true) (poison : Nat) (hsmall : labels L * L.n < 2 ^ 64) (k : Nat) :
    ∃ W, SC.run (scCfg L poison) SC.World.empty (stateAfterJ L (scCfg L poison) part rel k).2.sc =
        some (W, (SC.aRun (scCfg L poison) [] (stateAfterJ L (scCfg L poison) part rel k).2.sc).2) ∧
      (∀ (i : Nat) (c : SC.Cnt) (r : Nat) (row : SC.Row) (p : Nat), W.cnt i = some c → c[r]? = some row → row.data = some p →
        SC.cell W.mem p (scCfg L poison).rowSize = SC.P.refs p W.cnts ∧ 1 ≤ SC.P.refs p W.cnts) ∧
      (W.mem.free.Nodup ∧ ∀ p, p ∈ W.mem.free → ∀ (i : Nat) (c : SC.Cnt) (r : Nat) (row : SC.Row),
        W.cnt i = some c → c[r]? = some row → row.data ≠ some p) ∧
      (∀ i a q, i < (stateAfter L part rel k).part.length → a ∈ (stateAfter L part rel k).ins i → q ∈ delta1 L a →
        0 < (stateAfter L part rel k).cntv i a q →
        ∃ c, W.cnt i = some c ∧ SC.get (scCfg L poison) W.mem c a q = some ((stateAfter L part rel k).cntv i a q)) := by
  have ok := scCfg_ok L poison hsmall
  have hg := stateAfterJ_goodC ok (ltsOK_of_B hL) hp hc (relTrans_of_B (part := part) ht) k
  have hv := C16_engine_SC_values L part rel hL hp hc ht poison hsmall k
  obtain ⟨W, hrun, hinv⟩ := SC.run_refines_empty _ hg.1
  refine ⟨W, hrun, ?_, SC.free_not_referenced hinv, ?_⟩
  · intro i c r row p hci hr hd
    obtain ⟨a, ha⟩ := hinv.live_some' (i := i) hci
    have hi : i < (stateAfterJ L (scCfg L poison) part rel k).1.part.length := by
      rw [← hg.2.len]; exact SC.P.getD_some_lt ha
    obtain ⟨A, hA, hph, _⟩ := hg.2.blk i hi
    rw [ha] at hA
    have : a = A := Option.some.inj hA
    subst this
    exact SC.refcount_eq_sharers hinv ha hci hph hr hd
  · intro i a q hi ha hq hpos
    obtain ⟨A, hA, _, hag⟩ := hv.2 i hi
    obtain ⟨idx, h1, h2, h3⟩ := hag a q ha hq
    obtain ⟨c, hc'⟩ := hinv.live_some hA
    refine ⟨c, hc', ?_⟩
    rw [← h3]
    exact SC.get_refines hinv hA hc' h1 h2 (by rw [h3]; exact hpos)

/-- **copy before the first write to a shared row.**  At every `decr` of the engine's history the class as coded is defined, and
the call writes no data column of a row that has two or more sharers. -/
theorem C16_engine_SC_no_shared_write (L : LTS) (part : List (List Nat)) (rel : Rel)
    (hL : ltsOKB L = true) (hp : isPartition part L.n = true) (hc : isConsistent part rel = true)
    (ht : isTransB rel = true) (poison : Nat) (hsmall : labels L * L.n < 2 ^ 64) (k : Nat)
    (pre post : List SC.Op) (i l q : Nat)
    (hsplit : (stateAfterJ L (scCfg L poison) part rel k).2.sc = pre ++ SC.Op.decr i l q :: post) :
    ∃ W outs W' out, SC.run (scCfg L poison) SC.World.empty pre = some (W, outs) ∧
      SC.step (scCfg L poison) W (.decr i l q) = some (W', out) ∧
      ∀ p, 2 ≤ SC.P.refs p W.cnts → ∀ col, col < (scCfg L poison).rowSize → SC.cell W'.mem p col = SC.cell W.mem p col := by
  have hok := (C16_engine_discipline_SC L part rel hL hp hc ht poison hsmall).1 k
  rw [hsplit, sc_okAll_append, sc_okAll_cons] at hok
  simp only [Bool.and_eq_true] at hok
  obtain ⟨hpre, hop, _⟩ := hok
  obtain ⟨W, hrun, hinv⟩ := SC.run_refines_empty pre hpre
  obtain ⟨W', out, hstep, _, _⟩ := SC.step_refines hinv hop
  exact ⟨W, _, W', out, hrun, hstep, SC.decr_no_shared_write hinv hop hstep⟩

/-- **every counter is destroyed at the end.**  After a completed `computeSimulation` the class as coded has run through the
whole history including the destructors, no counter object is live, no row is referenced, and the free list of the allocator
holds no row twice (no double release). -/
theorem C16_engine_SC_all_destroyed (L : LTS) (part : List (List Nat)) (rel : Rel)
    (hL : ltsOKB L = true) (hp : isPartition part L.n = true) (hc : isConsistent part rel = true)
    (ht : isTransB rel = true) (poison : Nat) (hsmall : labels L * L.n < 2 ^ 64) (size : Nat) (R : Rel) (t : Tr2)
    (h : computeSimulationJ L (scCfg L poison) part rel size = some (R, t)) :
    ∃ W outs, SC.run (scCfg L poison) SC.World.empty t.sc = some (W, outs) ∧ (∀ i, W.cnt i = none) ∧
      (∀ p, SC.P.refs p W.cnts = 0) ∧ W.mem.free.Nodup := by
  have hok := (C16_engine_discipline_SC L part rel hL hp hc ht poison hsmall).2 size R t h
  obtain ⟨W, hrun, hinv⟩ := SC.run_refines_empty _ hok
  have hnone : ∀ j, (SC.aRun (scCfg L poison) [] t.sc).1.getD j none = none := by
    unfold computeSimulationJ at h
    split at h
    · have : t = Tr2.empty := by cases h; rfl
      rw [this]; intro j; simp [Tr2.empty, SC.aRun]
    · cases hr : engineRunJ L (fuelBound L) (engineInitJ L (scCfg L poison) part rel) with
      | none => rw [hr] at h; cases h
      | some et =>
        rw [hr] at h
        obtain ⟨k, hk, _⟩ := runJ_state hr
        have : t = et.2.addSC (finishT et.1) := by cases h; rfl
        have hg := stateAfterJ_goodC (scCfg_ok L poison hsmall) (ltsOK_of_B hL) hp hc (relTrans_of_B (part := part) ht) k
        rw [this, hk]; exact (finish_goodC hg).2
  have hdead : ∀ i, W.cnt i = none := fun i => (hinv.live i).mpr (hnone i)
  refine ⟨W, _, hrun, hdead, fun p => ?_, hinv.nodup⟩
  refine Classical.byContradiction fun hne => ?_
  obtain ⟨i, c, hi, _⟩ := SC.P.refs_pos (cs := W.cnts) (Nat.pos_of_ne_zero hne)
  have := hdead i
  unfold SC.World.cnt at this
  rw [hi] at this; cases this

/-! ### non-vacuity -/

-- the hypotheses are satisfiable: `EngEx.L3` (4 states, one label; two iterations of `run()`, each splitting a block)
example : ltsOKB EngEx.L3 = true ∧ isPartition [[0, 1, 2, 3]] EngEx.L3.n = true ∧ isConsistent [[0, 1, 2, 3]] [(0, 0)] = true ∧
    isTransB [(0, 0)] = true ∧ labels EngEx.L3 * EngEx.L3.n < 2 ^ 64 := by decide

-- the theorem on it, for every `k`
example : ∀ k, SC.okAll (scCfg EngEx.L3 7) [] (stateAfterJ EngEx.L3 (scCfg EngEx.L3 7) [[0, 1, 2, 3]] [(0, 0)] k).2.sc = true :=
  (C16_engine_discipline_SC EngEx.L3 [[0, 1, 2, 3]] [(0, 0)] (by decide) (by decide) (by decide) (by decide) 7 (by decide)).1

-- the history of the completed run is not trivial: 20 calls, among them `copyLabels` from a running counter and `decr`s on the
-- parent afterwards (copy on write), and the class as coded ends with every allocated row back in the free list
example : ((computeSimulationJ EngEx.L3 (SC.mkCfg 31 4 7 [[0, 1, 3]]) [[0, 1, 2, 3]] [(0, 0)] 4).bind
    (fun rt => (SC.run (SC.mkCfg 31 4 7 [[0, 1, 3]]) SC.World.empty rt.2.sc).map
      (fun r => (rt.2.sc.length, r.1.mem.free.length, r.1.mem.next)))) = some (20, 2, 2) := by decide

-- the discipline is not vacuous on the class: a `decr` of a counter that is 0, a second `set` of the same key, a `copyLabels`
-- from a counter that is not yet running are outside
example : SC.okAll (SC.mkCfg 31 4 7 [[0, 1, 3]]) [] [.new, .resize 0 1, .set 0 0 0 1, .init 0, .decr 0 0 0, .decr 0 0 0] = false ∧
    SC.okAll (SC.mkCfg 31 4 7 [[0, 1, 3]]) [] [.new, .resize 0 1, .set 0 0 0 1, .set 0 0 0 2] = false ∧
    SC.okAll (SC.mkCfg 31 4 7 [[0, 1, 3]]) [] [.new, .resize 0 1, .set 0 0 0 1, .copyCtor 0, .copyLabels 1 0 [0]] = false := by
  decide

/-!
## which "still not proved" items of `C16_Discipline3.lean` this file closes

* `C16_engine_discipline_SC` (along the run and with the destructors of `~SimulationEngine`): closed, with the extra hypothesis
  `labels L * L.n < 2 ^ 64` (see the header).
* the corollaries on heaps: `C16_engine_SC_on_heaps` (`SC.refcount_eq_sharers`, `SC.free_not_referenced`, `get` as coded = the
  engine model's counter), `C16_engine_SC_no_shared_write` (`SC.decr_no_shared_write` at every `decr` of the history),
  `C16_engine_SC_values` (value agreement through `keyIdx`), `C16_engine_SC_all_destroyed`.

## still not proved

* "All rows released at the end" is proved in the form: no live counter, no referenced row, no row twice in the free list
  (`C16_engine_SC_all_destroyed`).  That EVERY row ever allocated is back in the free list (no leak: `p < mem.next → p ∈ mem.free`
  in the final world) is not proved: `SC.Inv` has no "allocated = free or referenced" clause; it is `decide`d on the example above
  (2 rows allocated, 2 in the free list).
* `C16_engine_SC_on_heaps (3)` is restricted to POSITIVE counters (as `SC.get_refines` is, and has to be: see the last example of
  `Vata/Proofs/LtsUtilSC5.lean`); that the engine never calls `get` on a zero entry is not a statement about `SC.Op` (the engine
  makes no `get` calls at all outside `assert`s).
* The hypothesis `labels L * L.n < 2 ^ 64` is not dropped (the model's `labelMap_` wraps modulo `2 ^ 64` like the C++).
* The items listed at the end of `C16_Discipline3.lean` that are not named above (`SharedList` values = `RemList` of the engine
  model; `DeltaOK`; the `SplittingRelation` history).
-/
end Vata.Props
