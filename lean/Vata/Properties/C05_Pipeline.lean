import Vata.Proofs.SimPipeline
import Vata.Properties.C05_ReduceModel
import Vata.Properties.RefTotal
/-!
# C05 – `Reduce` end to end, as coded

> For any explicit tree automaton A, Reduce returns an automaton that accepts exactly the trees A accepts, has at most
> as many states and at most as many rules as A, and whose every state is the image of at least one state of A.

`Vata/Properties/C05.lean` has the collapse map as a hypothesis; `Vata/Properties/C05_ReduceModel.lean` computes it with the
matrix loops of the code, but starts from the REFERENCE relation `downSimRef A` as a list-of-rows matrix, with the numbering
of the states a parameter.  Here nothing is assumed: `SimPipe.reduceAsCoded A` (`Vata/SimPipeline.lean`) is, in the order of
`ExplicitTreeAutCore::Reduce`,

1. `BuildStateIndex` – only its counter is used: `stateCnt = A.states.length`, passed by `SetNumStates`;
2. `ComputeSimulation` = `ComputeDownwardSimulation(stateCnt)`: fresh translator (`SimPipe.downOrder`), `TranslateDownward` as
   coded, the ENGINE MODEL, the matrix `buildResult` fills, `StateDiscontBinaryRelation(ltsSim, translMap)` (property C04,
   `Vata/Properties/C04_Pipeline.lean`);
3. `sim.RestrictToSymmetric()` and `sim.GetQuotientProjection(collapseMap)` of the CLASS model `Vata/BinRel.lean` (flat
   `std::vector<bool>`, `TwoWayDict`, `TranslateBwd`);
4. `CollapseStates(collapseMap)` (`reindex`, C14) and `RemoveUnreachableStates` (`removeUnreachable`, C03).  (There is no
   `RemoveUselessStates` in `Reduce`.)
-/
namespace Vata.Props
open Vata Vata.SimPipe

/-- **C05 for `Reduce` as coded**: for a ranked automaton (always the case for the explicit encoding) `Reduce` returns an
automaton; it accepts exactly the trees `A` accepts, has at most as many states, at most as many distinct rules and at most
as many rule-list entries, and every state of it is a state of `A` that is the image of a state of `A` under the computed
projection -/
theorem C05_pipeline (A : TA) (hrk : TaLts.Ranked A) :
    ∃ B, reduceAsCoded A = some B ∧ LangEq B A ∧
      B.states.length ≤ A.states.length ∧ B.rules.eraseDups.length ≤ A.rules.eraseDups.length ∧
      B.rules.length ≤ A.rules.length ∧
      ∀ x, x ∈ B.states → x ∈ A.states ∧ ∃ q, q ∈ A.states ∧ x = quotientProjection A (downOrder A) q := by
  obtain ⟨B, hB⟩ := reduceAsCoded_total A
  obtain ⟨h1, h2, h3, _⟩ := reduceAsCoded_never_grows A B hB
  exact ⟨B, hB, reduceAsCoded_lang A hrk B hB, h1, h2, h3, fun _ hx => reduceAsCoded_states A hrk B hB hx⟩

example : TaLts.Ranked TaLtsEx.exA ∧
    (reduceAsCoded TaLtsEx.exA).map (fun B => (B.rules, B.final)) =
      some ([⟨0, [], 0⟩, ⟨0, [], 0⟩, ⟨1, [0, 0], 2⟩, ⟨1, [0, 0], 2⟩], [2, 2]) ∧
    TaLtsEx.exA.rules.length = 5 ∧ TaLtsEx.exA.states.length = 5 :=
  ⟨TaLts.rankedB_iff.mp (by decide), by decide +kernel, by decide, by decide⟩

/-- **refinement**: the composition returns exactly the automaton of `reduceModel` (`Vata/ReduceModel.lean`) for the numbering
`downOrder A`, which is a permutation of the states – so everything `C05_ReduceModel.lean` proves about `reduceModel` under
the hypothesis `order.Perm A.states` holds for `Reduce` as coded -/
theorem C05_pipeline_refines_reduceModel (A : TA) (hrk : TaLts.Ranked A) :
    reduceAsCoded A = some (reduceModel A (downOrder A)) ∧ (downOrder A).Perm A.states ∧
    collapseMapAsCoded A = some (quotientMap A (downOrder A)) :=
  ⟨reduceAsCoded_eq_reduceModel A hrk, downOrder_perm A, collapseMapAsCoded_eq A hrk⟩

example : downOrder TaLtsEx.exA = [2, 3, 0, 1, 4] ∧
    collapseMapAsCoded TaLtsEx.exA = some [(2, 2), (3, 2), (0, 0), (1, 0), (4, 4)] ∧
    quotientMap TaLtsEx.exA [2, 3, 0, 1, 4] = [(2, 2), (3, 2), (0, 0), (1, 0), (4, 4)] :=
  ⟨by decide, by decide +kernel, by decide⟩

/-- "never grows" and "every state is an image" need no hypothesis at all (not even `Ranked`), and `Reduce` always returns:
the engine's fuel suffices and no look-up of `GetQuotientProjection` in the two-way dictionary fails -/
theorem C05_pipeline_never_grows (A : TA) :
    ∃ B, reduceAsCoded A = some B ∧
      B.states.length ≤ A.states.length ∧ B.rules.eraseDups.length ≤ A.rules.eraseDups.length ∧
      B.rules.length ≤ A.rules.length ∧
      ∃ m, collapseMapAsCoded A = some m ∧ ∀ x, x ∈ B.states → ∃ q, q ∈ A.states ∧ x = applyMap m q := by
  obtain ⟨B, hB⟩ := reduceAsCoded_total A
  exact ⟨B, hB, reduceAsCoded_never_grows A B hB⟩

example : ¬ TaLts.Ranked TaLtsEx.exU ∧ ∃ B, reduceAsCoded TaLtsEx.exU = some B :=
  ⟨fun h => absurd (TaLts.rankedB_iff.mpr h) (by decide), reduceAsCoded_total _⟩

/-- the link to C04 that `C05_ReduceModel.lean` listed as open: the matrix `Reduce` starts from – the one
`SimulationEngine::buildResult` fills from the engine model's result – is well-formed, has dimension `stateCnt` and is the
matrix of `downSimRef A` over the numbering of the translator -/
theorem C05_pipeline_matrix (A : TA) (hrk : TaLts.Ranked A) :
    ∃ R0, LE.computeSimulation1 (TaLts.translateDownward A A.states.length (idxOf (downOrder A))) A.states.length = some R0 ∧
      BinRel.WF (resultMat A.states.length R0) ∧ (resultMat A.states.length R0).size = A.states.length ∧
      (resultMat A.states.length R0).toBMat = relMatrix (downSimRef A) (downOrder A) := by
  obtain ⟨R0, he⟩ := down_engine_total A A.states.length (idxOf (downOrder A))
  have heng := down_engine_eq A _ _ R0 he
  obtain ⟨w, hsz, _⟩ := resultMat_spec A.states.length R0 (fun p hp => ltsSimOut_lt ((heng p.1 p.2).mp hp))
  exact ⟨R0, he, w, hsz, resultMat_eq_relMatrix A hrk R0 he⟩

example : (resultMat 5 [(2, 2), (3, 3), (0, 0), (0, 1)]).toBMat =
    [[true, true, false, false, false], [false, false, false, false, false], [false, false, true, false, false],
     [false, false, false, true, false], [false, false, false, false, false]] := by decide +kernel

/-- the class-level part alone, for EVERY automaton: `Disc.restrictToSymmetric` / `Disc.quotProj` on the
`StateDiscontBinaryRelation` around the matrix of `buildResult` compute `projToMap` ∘ `quotientProjectionIdx` ∘
`restrictToSymmetric` of `Vata/ReduceModel.lean` on that matrix -/
theorem C05_pipeline_class_level (A : TA) :
    ∃ R0, LE.computeSimulation1 (TaLts.translateDownward A A.states.length (idxOf (downOrder A))) A.states.length = some R0 ∧
      collapseMapAsCoded A = some (projToMap (downOrder A)
        (quotientProjectionIdx (restrictToSymmetric (resultMat A.states.length R0).toBMat))) :=
  collapseMapAsCoded_spec A

-- on the unranked `exU` the encoding relates `1` and `2` both ways (`C04_downward_via_lts_needs_ranked`), so they are merged
example : collapseMapAsCoded TaLtsEx.exU = some [(1, 1), (0, 0), (2, 1)] := by decide +kernel

/-- the size of the result is the size of the canonical reduction `reduceRef` and at most the number of classes of
simulation equivalence: hash order (the order of `A.rules` in the model) has no influence on it -/
theorem C05_pipeline_size (A : TA) (hrk : TaLts.Ranked A) (B : TA) (h : reduceAsCoded A = some B) :
    B.states.length = (reduceRef A).states.length ∧ B.rules.length = (reduceRef A).rules.length ∧
    B.states.length ≤ simClasses A := by
  rw [reduceAsCoded_eq_reduceModel A hrk] at h
  injection h with h
  rw [← h]
  exact ⟨(reduceModel_size_eq_reduceRef A _ (downOrder_perm A)).1, (reduceModel_size_eq_reduceRef A _ (downOrder_perm A)).2,
    reduceModel_states_le_simClasses A _ (downOrder_perm A)⟩

example : (reduceAsCoded TaLtsEx.exA).map (fun B => B.states) = some [0, 2] ∧ simClasses TaLtsEx.exA = 3 ∧
    (reduceRef TaLtsEx.exA).states = [0, 2] := ⟨by decide +kernel, by decide, by decide⟩

/-- `Reduce` as coded against the reference the correspondence check uses: the composition returns an automaton, and for
every fuel above the explicit bound `fuelBoundM [B, A]` the exact decider `equivM` answers `true` on it – so a `false` (or a
missing answer) on the automaton the real `Reduce` returns is a difference between code and model -/
theorem C05_pipeline_passes_reference (A : TA) (hrk : TaLts.Ranked A) :
    ∃ B, reduceAsCoded A = some B ∧ ∀ fuel, fuelBoundM [B, A] ≤ fuel → equivM B A fuel = some true := by
  obtain ⟨B, hB, hl, _⟩ := C05_pipeline A hrk
  exact ⟨B, hB, fun fuel hf => (C05_reference_total B A fuel hf).1 hl⟩

example : TaLts.Ranked TaLtsEx.exA ∧ (reduceAsCoded TaLtsEx.exA).isSome = true :=
  ⟨TaLts.rankedB_iff.mp (by decide), by decide +kernel⟩

/-!
## items of "not yet proved" closed here

* `Vata/Properties/C05_ReduceModel.lean`, "still not proved", first item ("That the numbering the C++ uses gives every state an
  index (it is the hypothesis `order.Perm A.states` …) and that the matrix it starts from is `relMatrix (downSimRef A) order`
  (C04)"): closed – `C05_pipeline_refines_reduceModel` (`downOrder A` is a permutation of the states) and `C05_pipeline_matrix`
  (the matrix, produced by translation as coded + engine model + `buildResult`).
* `Vata/Properties/C05.lean`, first item (the collapse map the C++ derives satisfies `hh` / `IsQuotProj`): now for the class-level
  functions (`BinRel.Disc.restrictToSymmetric`, `BinRel.Disc.quotProj` on the flat matrix with the two-way dictionary) applied to
  the relation `ComputeSimulation` returns: `C05_pipeline_refines_reduceModel` + `C05_model_projection`.
* `Vata/Properties/C16.lean` / `C16_Engine.lean`, "Output size": the matrix of `buildResult` has dimension `size`
  (`C05_pipeline_matrix`, `SimPipe.resultMat_spec`).

## still not proved

* The order of the rule list stands for the hash order of the C++ (as everywhere); `Ranked A` is a hypothesis of the language
  statement (it always holds for the explicit encoding, whose symbols are (name, rank) pairs) – without it the downward encoding
  is wrong (`C04_downward_via_lts_needs_ranked`), though `Reduce` still returns and still does not grow the automaton
  (`C05_pipeline_never_grows`).
* `CollapseStates` / `RemoveUnreachableStates` are the relation-level models `reindex` / `removeUnreachable` (properties C14, C03),
  not the store-level models of `Vata/Store.lean`.
* Minimality of the result is not claimed by the property and not proved.
-/
end Vata.Props
