import Vata.Proofs.C20ModelsTrim
import Vata.Proofs.C20ModelsBddTrim
import Vata.Proofs.C20ModelsStack
import Vata.Properties.C20
import Vata.Properties.C12_Interned
import Vata.Properties.C11_FiniteAut
import Vata.Properties.C18_Extended
import Vata.Properties.C14_Coded
import Vata.Properties.C16_Discipline
import Vata.Properties.C01_StackBound
import Vata.Properties.C01_CachesDownOpt
import Vata.Properties.C08_TrimCoded
import Vata.Properties.C08_UnionCoded
import Vata.Properties.C13_NfaLoadDump
import Vata.Properties.C03_Coded
/-!
# C20 – what the coded models EXCLUDE: one file of memory-safety statements over all coded models

> Loading, combining, trimming, reducing, complementing, simulating and comparing well-formed automata in any encoding
> never reads uninitialised or freed memory, never accesses memory out of bounds, never frees memory twice, and never
> executes undefined behaviour such as using an uninitialised counter, dereferencing a past-the-end iterator or
> overflowing signed arithmetic on state numbers.

(quantifier: *for all well-formed automata and all sequences of public operations on them within one process*)

**Every theorem of this file is a PARTIAL claim** (as in `Vata/Properties/C20.lean`, whose header explains why C20 itself is
not established by theorems but by sanitizer-instrumented runs).  Since `C20.lean` was written many models were added that
mirror the C++ with explicit identities (addresses, indices, frames) and that HAVE an outcome standing for an undefined
operation of the C++ (`none`, `err`, `.stuck`, a thrown key, a failed `assert`, a raised flag).  This file states, model by
model, that this outcome is never reached from inside the model's stated precondition.

## How the C++ is read into the models

Each model is described in the header of its own file (quoted C++ lines, what is abstracted).  For three models the undefined
operation was hidden behind a total operation of Lean (`Nat` subtraction, `filter`, `headD`, `getD`); `Vata/C20Models.lean` adds the
same code with a flag raised exactly at those places (`C20M.finalStC`, `C20M.usefulCodedC`, `C20M.ubNext`), WITHOUT changing the
models; erasure (forgetting the flag gives the original model) is part of the theorems.

## The table: C++ component ↦ model ↦ expressible undefined behaviour ↦ theorem

| C++ component | model | undefined behaviour the model can express | theorem |
|---|---|---|---|
| `ExplicitTreeAutCore` over `globalTupleCache_` (`TuplePtr`s interned in `Util::Cache`) | `Vata/StoreInterned.lean` (`StoreI.runI`, `runA`) | a `TuplePtr` in a tuple set / held outside that points to no cache entry (dangling), a `use_count` that is 0 or differs from the number of pointers (premature `DeleteElementF`, double release), two live nodes for one tuple; `none` = the allocator hands out a LIVE address | `C20_storeInterned_partial` |
| the three transition iterators (`Iterator`, `AcceptTransIterator`, `DownAccessor::Iterator`) | `Vata/StoreIter.lean` (`.stuck`) on the dereferenced interned store | `begin()` of an empty cluster / tuple set dereferenced, `++` past `end()`, constructor `assert` | `C20_storeIter_partial` (on `Store.run`: `C20_iterators_never_dereference_empty_partial`, `C12_Iterators.lean`) |
| `ExplicitFiniteAutCore` (`shared_ptr` copy-on-write, 2 levels) | `Vata/CowHeapFA.lean` (`exec`, `invBFA`) | `use_count` ≠ number of owners (an in-place write through `unique()` that is visible elsewhere; a node released while owned), a pointer to a released node, a leaked node | `C20_cowHeapFA_partial` |
| `OndriksMTBDD` node store, all eleven operations | `Vata/RcStoreX.lean` (`runX`, `err`, `freed`) | counter underflow (`assert(refcnt > 0)`), `erase` not removing exactly one table entry, a node deleted twice, a deleted node reachable from a live handle, fuel exhaustion | `C20_rcStoreX_partial` |
| `ReindexStates(dst, TranslatorStrict)` | `Vata/RenameCoded.lean` (`Run.thrown`) | the `throw` of `TranslatorStrict` in the middle of the loops, which leaves `dst` with an EMPTY tuple set / cluster (`C14_coded_thrown_dst_breaks_invariant`) on which the iterators are `.stuck` | `C20_renameCoded_partial` |
| `SimulationEngine` on `SmartSet` (heap of `Element`s, `index_`, `last_`) | `Vata/LtsEngineCalls.lean` + `LU.SS.run` (`none`) | `add` behind a dangling `last_` (the deleted cell is dereferenced), `removeStrict` of a non-member, use of an object that does not exist | `C20_ltsEngineCalls_partial` |
| `expand` of `explicit_tree_incl_down.cc` (`ExpandCallEmulator`, `ExpandStackFrame`) | `Vata/InclDownStack.lean` + `C20M.ubNext` | `EXPAND_POP_RETURN` on the empty emulator (`ptr_ == nullptr`), `assert(callEmulator.empty())` at `_end`, `switch (retAddr)` outside `{0,1,2}`, `**top.tupleSetIter` / `**top.tupleSetIter2` at `end()` | `C20_inclDownStack_partial`, `C20_inclDownStack_exit_partial` |
| `BDDTDTreeAutCore::RemoveUselessStates` (`Util::Graph`, `TwoWayDict`) | `Vata/BddTrimCoded.lean` + `C20M.usefulCodedC` | `GetIngress(andNode).erase(node) != 1` → `assert(false)`; `orNodes.FindFwd(node)` fails → `assert(false)` / `end()` dereferenced | `C20_bddTrimCoded_partial` |
| `ExplicitTreeAutCore::RemoveUselessStates` (`TransitionInfo`, `remaining`) | `Vata/TrimCoded.lean` + `C20M.finalStC` | `assert(childrenSet_.count(state))` of `reachedBy`; `--remaining` at `0` (`size_t` wrap-around, after which `if (!remaining)` is wrong); an index of `stateMap` that is no `TransitionInfo` | `C20_trimCoded_partial` |
| `lteCache` of the downward inclusion (address-keyed memo with deleter wiring), three algorithms | `Vata/FunctorCachesDown*.lean` (`heapOKD`) | a memo entry keyed by the address of a DEAD macro-state (stale answer after address reuse) | `C20_functorCachesDown_partial` |
| `BDDTDTreeAutCore::Union`, `BDDBUTreeAutCore::Union` (state counter, translation maps, table objects) | `Vata/BddUnionCoded.lean` | a state number handed out twice (the second `SetMtbdd` REPLACES an entry), an operand's table written, a state without translation | `C20_bddUnionCoded_partial` |
| `ExplicitFiniteAut::LoadFromAutDesc` / `DumpToAutDesc` | `Vata/NfaLoadDump.lean` (`.error`) | the two `throw`s (`"Not a finite automaton"`, `"No translation for …"`, i.e. a failed `TranslateBwd`) | `C20_nfaLoadDump_partial` |

`C20_models_statement` is the conjunction.

## What is NOT covered (exact)

* **Uninitialised storage.**  No model has uninitialised memory: a field that the C++ leaves uninitialised (`ExpandStackFrame top;`,
  the recycled frames of `push`, a default-constructed iterator) holds a definite dummy value in the model.  What IS shown for the
  stack machine is that the dummy frame is never the target of a return (`Chain`) and that iterators are not dereferenced at `end()`;
  that no OTHER field is read before it is written is not stated (the refinement `C01_stack_machine_refines_recursion` shows the
  result does not depend on them).
* **Machine integers.**  All numbers are `Nat`.  The only arithmetic statement is `--remaining` never executed at 0
  (`C20_trimCoded_partial`).  Overflow of `size_t` counters, of `use_count`s, of state numbers, of the 16-bit symbol encoding:
  not expressible.
* **Real addresses / allocator.**  Addresses are numbers chosen by an allocator parameter (`StoreInterned`, `FunctorCachesDown`) or
  never reused (`CowHeapFA`, `RcStoreX`).  Alignment, object layout, out-of-bounds within an object: not modelled.
* **Model vs. code.**  Every theorem is about a model; agreement of model and C++ is tested by the correspondence checks, not proved.
-/
namespace Vata.Props

/-! ### the interned rule store -/
section StoreInterned
open Vata Vata.Store Vata.StoreI

/-- PARTIAL (`ExplicitTreeAutCore` over the global tuple cache; "never reads freed memory", "never frees twice").  For every
allocator that never hands out a live address (`hf`; the only way a step of the model is `none`, `C12_interned_total`) and every
history of `AddTransition` / `ContainsTransition` / `Clear` / setters / copies / arbitrary activity of the other users of the cache:
the run is defined to the end, and in its final state every `TuplePtr` stored in a tuple set or held outside points to a cache entry
(nothing dangles), every `use_count` is positive and equals the number of pointers (so `DeleteElementF` runs exactly when the last
pointer dies: no premature and no double release), and two entries hold the same tuple iff they have the same address. -/
theorem C20_storeInterned_partial {alloc : List Nat → Nat} (hf : ∀ l, alloc l ∉ l) (ops : List OpI) :
    ∃ s, runA .lib alloc StoreI.empty ops = some s ∧
      (∀ p, p ∈ allIds s.clusters ++ s.ext → ∃ v rc, (v, p, rc) ∈ s.cache ∧ derefC s.cache p = v) ∧
      (∀ v id rc, (v, id, rc) ∈ s.cache → 0 < rc ∧ rc = (allIds s.clusters ++ s.ext).count id) ∧
      (∀ v v' id id' rc rc', (v, id, rc) ∈ s.cache → (v', id', rc') ∈ s.cache → (v = v' ↔ id = id')) := by
  obtain ⟨s, hr, hi, _⟩ := C12_interned_fair_allocator hf ops
  refine ⟨s, hr, ?_, ?_, ?_⟩
  · intro p hp
    obtain ⟨v, rc, hm⟩ := hi.live p hp
    exact ⟨v, rc, hm, hi.derefC_eq hm⟩
  · intro v id rc hm
    exact ⟨(hi.cnt v id rc hm).2, (hi.cnt v id rc hm).1⟩
  · intro v v' id id' rc rc' hm hm'
    constructor
    · intro e
      subst e
      have := hi.fk _ _ _ hm hm'
      simp only [Prod.mk.injEq] at this
      exact this.1
    · intro e
      subst e
      exact hi.fid _ _ _ _ _ hm hm'

-- a fair allocator, and a history with a death and ADDRESS REUSE played against it
example : (∀ l, lowAlloc l ∉ l) ∧ (runA .lib lowAlloc StoreI.empty
    [.add InternedEx.r1 0, .copyOut, .clear, .envRelease 0, .add InternedEx.r3 0]).map (·.cache) = some [([3], 0, 1)] :=
  ⟨lowAlloc_fair, by decide⟩
-- the outcome excluded: offering a live address
example : stepI .lib ⟨[([1, 2], 100, 1)], [(1, [(7, [100])])], [], []⟩ (.add ⟨7, [3], 1⟩ 100) = none := by decide

/-- PARTIAL ("dereferencing a past-the-end iterator", on the store WITH interned tuples).  For every history of the interned
store (any allocator, any environment): the three iterator state machines of `Vata/StoreIter.lean`, run on the store read through
the pointers, are never `.stuck` during a complete traversal (all increments up to and including the one reaching `end()`), and
every `operator*` before `end()` dereferences a proper tuple iterator. -/
theorem C20_storeIter_partial {ops : List OpI} {s : Sys} (h : runI .lib ops = some s) :
    (∀ n, n ≤ (iterate (StoreI.abs s)).length →
      (iterM (StoreI.abs s)).posAt n ≠ .stuck ∧
      (n < (iterate (StoreI.abs s)).length → (deref (StoreI.abs s) ((iterM (StoreI.abs s)).posAt n)).isSome = true)) ∧
    (∀ n, n ≤ (acceptTrans (StoreI.abs s)).length →
      (acceptM (StoreI.abs s)).posAt n ≠ .stuck ∧
      (n < (acceptTrans (StoreI.abs s)).length →
        ((acceptM (StoreI.abs s)).deref ((acceptM (StoreI.abs s)).posAt n)).isSome = true)) ∧
    (∀ q n, n ≤ (down (StoreI.abs s) q).length →
      (downM (StoreI.abs s) q).posAt n ≠ .stuck ∧
      (n < (down (StoreI.abs s) q).length →
        ((downM (StoreI.abs s) q).deref ((downM (StoreI.abs s) q).posAt n)).isSome = true)) := by
  rw [C12_interned_refines_values h]
  exact C20_iterators_never_dereference_empty_partial _

example : runI .lib InternedEx.ops = some InternedEx.final ∧
    (iterM (StoreI.abs InternedEx.final)).posAt 2 = .fin ∧ (iterM (StoreI.abs InternedEx.final)).posAt 3 = .stuck := by decide

end StoreInterned

/-! ### copy-on-write of the finite automata -/
section CowFA
open Vata Vata.CowHeapFA

/-- PARTIAL (`ExplicitFiniteAutCore`; "never reads freed memory", "never frees twice").  After every history of the operations of
the class (constructors, assignment, setters, `AddTransition`, destructor, `ReindexStates`, `UnionDisjointStates`,
`RemoveUnreachableStates`, `Reverse`, `RemoveUselessStates`, `GetCandidateTree` with their temporaries): the `use_count` of every
allocated map node / cluster node equals the number of its owners and is positive (a node is never released while referenced, and
`unique()` sees the true number of owners), every pointer of a live handle or an allocated map node goes to an allocated node, the
executable checker agrees, and when all handles are dead no node is left. -/
theorem C20_cowHeapFA_partial (ops : List Op) :
    (∀ m, m ∈ (exec ops).core.ml →
      (exec ops).core.mrc m = CowHeap.indeg (exec ops).core.hl (fun h => [(exec ops).core.hmap h]) m ∧
        0 < (exec ops).core.mrc m) ∧
    (∀ c, c ∈ (exec ops).core.cl →
      (exec ops).core.crc c = CowHeap.indeg (exec ops).core.ml (CowHeap.mout (exec ops).core) c ∧
        0 < (exec ops).core.crc c) ∧
    (∀ h, h ∈ (exec ops).core.hl → (exec ops).core.hmap h ∈ (exec ops).core.ml) ∧
    (∀ m, m ∈ (exec ops).core.ml → ∀ c, c ∈ CowHeap.mout (exec ops).core m → c ∈ (exec ops).core.cl) ∧
    invBFA (exec ops) = true ∧
    ((exec ops).core.hl = [] → (exec ops).core.ml = [] ∧ (exec ops).core.cl = []) := by
  obtain ⟨h1, h2, h3, h4, h5⟩ := C11_fa_use_counts ops
  exact ⟨h1, h2, h3, h4, h5, C11_fa_no_garbage ops⟩

example : (exec (faOps.take 12)).core.crc 1 = 3 ∧ (exec (faOps.take 12)).core.ml.length = 4 := by decide +kernel
-- the checker is not trivially true: a heap with too small cluster counts is refused
example : invBFA { exec [.new 1, .setStart 1 0 7, .add 1 0 5 1, .unreach 1 2] with
    core := { (exec [.new 1, .setStart 1 0 7, .add 1 0 5 1, .unreach 1 2]).core with crc := fun _ => 1 } } = false := by
  decide +kernel

end CowFA

/-! ### the MTBDD node store with all operations -/
section RcX
open Vata Vata.RcS Vata.RcSX Vata.RcSX.Ex

/-- PARTIAL (`OndriksMTBDD` node store under construct / copy / assign / destroy / `Apply1,2,3` / `Rename` / `ExtendWith` /
`GetPrefix` / `Project`; "never reads freed memory", "never frees twice").  After every history: the error flag is down – no
`assert(refcnt > 0)` failed (no counter underflow), every `disposeOf…Node` erased exactly one table entry, no recursion of the model
ran out of fuel –, no node was deleted twice, a deleted node is not allocated, and every node reachable from the root of a live
handle is allocated and was never deleted. -/
theorem C20_rcStoreX_partial (F : Fns) (ops : List RcSX.Op) :
    (runX F ops).st.err = false ∧ (runX F ops).st.freed.Nodup ∧
    (∀ n, n ∈ (runX F ops).st.freed → n ∉ (runX F ops).st.ids) ∧
    (∀ h r, (h, r) ∈ (runX F ops).st.hs → ∀ n, Reach (runX F ops).st.dat r n →
      n ∈ (runX F ops).st.ids ∧ n ∉ (runX F ops).st.freed) := by
  obtain ⟨h1, h2, h3⟩ := C18_ext_no_double_free F ops
  exact ⟨h3, h1, h2, fun h r hm n hr => C18_ext_no_premature_free F ops h r hm n hr⟩

example : (runX stdFns (exH₁ ++ exH₂)).st.hs.length = 9 ∧ tableSizes (runX stdFns (exH₁ ++ exH₂)).st = (8, 22) := by decide

end RcX

/-! ### `ReindexStates` with a translator that may throw -/
section Rename
open Vata Vata.Store Vata.RenameCoded

/-- PARTIAL (`ReindexStates(dst, TranslatorStrict, addFinalStates)`; the exception in the middle of the loops is the outcome that
leaves `dst` outside the store invariant, `C14_coded_thrown_dst_breaks_invariant`).  If the map is defined on every key the loops look
up (`lookupOrder`: with `addFinalStates` and a source satisfying the store invariant exactly `GetUsedStates()`) nothing is thrown,
the translator's container is unchanged, and `dst` keeps the weak invariant (unique keys at both levels, no duplicate tuple, no
duplicate final state).  The hypothesis cannot be dropped (second example). -/
theorem C20_renameCoded_partial (src dst : Store) (m : List (Nat × Nat)) (af : Bool)
    (hm : ∀ k, k ∈ lookupOrder src af → m.lookup k ≠ none) :
    (reindexInto strictT src dst m af).thrown = none ∧ (reindexInto strictT src dst m af).tr = m ∧
    (WInv dst → WInv (reindexInto strictT src dst m af).dst) := by
  obtain ⟨_, h2, h3, _, h5⟩ := C14_coded_strict_throws src dst m af
  refine ⟨?_, h2, h5.winv⟩
  apply Classical.byContradiction
  intro hne
  obtain ⟨k, hk, hk'⟩ := h3.mp hne
  exact hm k hk hk'

example : reindexStrictTA ⟨[⟨7, [1], 1⟩, ⟨8, [1, 2], 2⟩], [2]⟩ [(1, 10), (2, 20)] =
    .ok ⟨[⟨7, [10], 10⟩, ⟨8, [10, 20], 20⟩], [20]⟩ := by rfl
example : ∀ k, k ∈ lookupOrder ⟨[(1, [(7, [[1]])]), (2, [(8, [[1, 2]])])], [2]⟩ true → [(1, 10), (2, 20)].lookup k ≠ none := by
  decide
-- without the hypothesis: the throw, and a destination with an empty tuple set
example : reindexStrictIntoTA ⟨[⟨7, [5], 1⟩], []⟩ ⟨[], []⟩ [(1, 10)] true = (some 5, ⟨[(10, [(7, [])])], []⟩) := by decide

end Rename

/-! ### the simulation engine on `SmartSet` -/
section Engine
open Vata.L Vata.LE Vata.LU Vata.LEC

/-- PARTIAL (`SimulationEngine` on the class `SmartSet` AS CODED: heap cells, `index_`, `last_`, `size_`).  For every LTS / partition
/ block relation inside the engine's preconditions and every number `k` of iterations of `run()`: running the coded class on the
history of ALL `SmartSet` calls the engine has made so far (`buildDelta1`, both `Block` constructors, `init`, `k` rounds of
`processRemove`) is defined – no `add` is made behind a dangling `last_` (the defect `Util_LtsUtil_SmartSet_dangling_last`), no
`removeStrict` of a non-member, no call on an object that does not exist.  Hypothesis `hΔ : DeltaOK L` (the calls of
`ExplicitLTS::buildDelta1` are inside the discipline) is decidable, `decide`d for the examples, not proved for all `L`. -/
theorem C20_ltsEngineCalls_partial (L : LTS) (part : List (List Nat)) (rel : Rel)
    (hL : ltsOKB L = true) (hp : isPartition part L.n = true) (hc : isConsistent part rel = true)
    (ht : isTransB rel = true) (hΔ : DeltaOK L) (k : Nat) :
    SS.okAll [] (stateAfterI L part rel k).2.ss = true ∧ (SS.run [] (stateAfterI L part rel k).2.ss).isSome = true := by
  refine ⟨(C16_engine_discipline_partial L part rel hL hp hc ht hΔ).1 k, ?_⟩
  obtain ⟨w, hw, _⟩ := C16_engine_on_heaps_partial L part rel hL hp hc ht hΔ k
  rw [hw]; rfl

example : ltsOKB EngEx.L3 = true ∧ isPartition [[0, 1, 2, 3]] EngEx.L3.n = true ∧ isConsistent [[0, 1, 2, 3]] [(0, 0)] = true ∧
    isTransB [(0, 0)] = true ∧ DeltaOK EngEx.L3 ∧ (stateAfterI EngEx.L3 [[0, 1, 2, 3]] [(0, 0)] 2).2.ss.length = 27 := by decide
-- the outcome excluded
example : SS.run [] [.new 2, .add 0 1, .removeStrict 0 1, .add 0 0] = none := by decide

end Engine

/-! ### the call emulator of the non-recursive downward inclusion -/
section Stack
open Vata Vata.InclDown Vata.InclDownStack Vata.C20M

/-- PARTIAL (`expand` of `explicit_tree_incl_down.cc` with `ExpandCallEmulator` / `ExpandStackFrame`; "never reads freed memory"
for the frames, "dereferencing a past-the-end iterator").  For every preorder, all operands, every contents of `nonincluded`, every
root pair and every number `n` of transitions: the state the machine with the C++ `pop` is in after `n` transitions is not about to
execute an undefined operation – `EXPAND_POP_RETURN` finds a saved frame (`callEmulator.pop` never sees `ptr_ == nullptr`), `_end` is
reached with the emulator empty (`assert(callEmulator.empty())`), `retAddr` is one of the three labels, and `top.tupleSetIter` /
`top.tupleSetIter2` are not at `end()` where they are dereferenced.  (The invariant: `C20M.MOk`, kept by every transition,
`C20M.mok_step`.) -/
theorem C20_inclDownStack_partial (o : Ord) (A B : TA) (wit : InclUp.Wit) (st : St) (p : Nat) (P : List Nat) (n : Nat) (m : Machine)
    (h : stateAfterM o A B wit popAll n (initM st p P) = some m) : ubNext m = false :=
  mok_no_ub (stateAfterM_ok o A B wit n _ m (mok_init st p P) h)

/-- PARTIAL (the same machine, seen from its answers).  The model has TWO exits: `_end`, and `EXPAND_POP_RETURN` with
`ptr_ == nullptr` (in the C++ a null dereference; `stepM` comments it "not reachable").  Every answer of `expand` as coded – any
bound on the transitions – is returned at `_end`, in a state with the call emulator empty, and is that state's `found` and
`nonincluded`. -/
theorem C20_inclDownStack_exit_partial (o : Ord) (A B : TA) (wit : InclUp.Wit) (n : Nat) (st : St) (p : Nat) (P : List Nat)
    (r : Verdict × St) (h : expandStack o A B wit popAll n st p P = some r) :
    ∃ k m, stateAfterM o A B wit popAll k (initM st p P) = some m ∧ m.pc = .end ∧ m.stack = [] ∧ r = (m.found, m.st) :=
  expandStack_exit o A B wit h

-- a run that is still going after 40 transitions, one call deep after 4
example : (stateAfterM idOrd InclDownEx.exG InclDownEx.exH (InclUp.prodWit InclDownEx.exG) popAll 40
    (initM ⟨[], []⟩ 2 [9])).isSome = true := by decide +kernel
example : (stateAfterM idOrd InclDownEx.exG InclDownEx.exH (InclUp.prodWit InclDownEx.exG) popAll 4
    (initM ⟨[], []⟩ 2 [9])).map (fun m => m.stack.length) = some 1 := by decide +kernel
/-- the hypothesis "the C++ `pop`" matters: with a `pop` that restores every field but `retAddr` (`top.retAddr = ptr_->retAddr;`
forgotten) the root frame of `regA ⊆ regB` returns to `_stdret` instead of `_end` and, 21 transitions after the start, the machine is
about to execute an undefined operation; the machine as coded is not (and has returned after 18 transitions) -/
example : (stateAfterM idOrd regA regB (InclUp.prodWit regA) (fun saved top => { saved with retAddr := top.retAddr }) 21
      (initM ⟨[], []⟩ 2 [12])).map ubNext = some true ∧
    (∀ n, n < 19 → (stateAfterM idOrd regA regB (InclUp.prodWit regA) popAll n (initM ⟨[], []⟩ 2 [12])).map ubNext = some false) ∧
    stateAfterM idOrd regA regB (InclUp.prodWit regA) popAll 19 (initM ⟨[], []⟩ 2 [12]) = none := by decide +kernel
-- the flag is not constant: a pop on the empty emulator, an `_end` with a saved frame, an iterator at `end()`
example : ubNext ⟨.popReturn, Frame.init, [], [], ⟨[], []⟩, 0, [], 0, .holds⟩ = true ∧
    ubNext ⟨.end, Frame.init, [Frame.init], [], ⟨[], []⟩, 0, [], 0, .holds⟩ = true ∧
    ubNext ⟨.forSimI, Frame.init, [Frame.init], [], ⟨[], []⟩, 0, [], 0, .holds⟩ = true := by decide

end Stack

/-! ### trimming, top-down BDD encoding -/
section BddTrim
open Vata Vata.M Vata.BddAbs Vata.BddAbsTD Vata.BddTrimCoded Vata.C20M

/-- PARTIAL (`BDDTDTreeAutCore::RemoveUselessStates`: `Util::Graph`, the two `TwoWayDict`s, `nodeStack`).  For every transition
table, every duplicate-free set of final states (`GetFinalStates()` is a set) and every fuel: the instrumented analysis returns what
`usefulCoded` returns, with the flag down – every `Graph::GetIngress(andNode).erase(node)` erased exactly one element (the
`!= 1 → assert(false)` test never fires: no node is popped twice, and an ingress entry is only erased in the round of the node it
names) and every `orNodes.FindFwd` succeeded (never `assert(false)` / `EndFwd()` dereferenced); with the fuel of
`C08_td_useless_coded_total` the analysis does return. -/
theorem C20_bddTrimCoded_partial (T : TableTD) {F : List Nat} (hF : F.Nodup) (fuel : Nat) :
    usefulCodedC T F fuel = (usefulCoded T F fuel).map (fun U => (U, false)) ∧
    (2 * (F.length + (allKids T).length) + 1 ≤ fuel → ∃ U, usefulCodedC T F fuel = some (U, false)) := by
  refine ⟨usefulCodedC_eq T hF fuel, fun hb => ?_⟩
  obtain ⟨U, hU⟩ := usefulCoded_total T F fuel hb
  exact ⟨U, by rw [usefulCodedC_eq T hF fuel, hU]; rfl⟩

example : (usefulCodedC Ex.T1 [2] 10).map (·.2) = some false ∧ (usefulCoded Ex.T1 [2] 10).isSome = true := by decide +kernel
-- the flag is not constant: erasing a node that is not in the ingress set, looking up a node that is no OR node
example : (satisfyStepC [(0, 5)] 0 (⟨⟨2, fun _ => [], fun _ => []⟩, [], []⟩, false) 1).2 = true ∧
    (markStepC [(0, 5)] (⟨Graph.empty, [], []⟩, false) 3).2 = true := by decide

end BddTrim

/-! ### trimming, explicit encoding -/
section Trim
open Vata Vata.TrimCoded Vata.C20M

/-- PARTIAL (`ExplicitTreeAutCore::RemoveUselessStates`, `src/explicit_tree_useless.cc`; "overflowing arithmetic", failed
`assert`).  For every automaton the instrumented run of both loops ends in the state of `finalSt decOne` with the flag down: every
index found in `stateMap` is a `TransitionInfo`, `assert(childrenSet_.count(state))` holds at every call of `reachedBy`, and
`--remaining` is never executed with `remaining == 0` (no `size_t` wrap-around, so the shortcut `if (!remaining)` tests the true
counter).  Totality: the fuel `|rules|` of `finalSt` suffices (`C03_coded_total`). -/
theorem C20_trimCoded_partial (A : TA) : finalStC A = (finalSt decOne A, false) := finalStC_eq A

example : (finalStC TrimEx.exA).2 = false ∧ (finalStC TrimEx.exA).1.remaining = 2 ∧ (finalStC TrimEx.exA).1.rtrans = [0, 3, 1, 4] := by
  decide
-- the flag is not constant: a fired transition at `remaining == 0`; a state that is not in the children set
example : (innerStepC 0 (⟨[⟨⟨1, [0], 1⟩, [0]⟩], [], [], [], 0, []⟩, false) 0).2 = true ∧
    (innerStepC 3 (⟨[⟨⟨1, [0], 1⟩, [0]⟩], [], [], [], 5, []⟩, false) 0).2 = true ∧
    (innerStepC 0 (⟨[⟨⟨1, [0], 1⟩, [0]⟩], [], [], [], 5, []⟩, false) 0).2 = false := by decide

end Trim

/-! ### the address-keyed memo of the downward inclusion -/
section CachesDown
open Vata Vata.InclDown Vata.FCD Vata.CM
open Vata.FCU (Heap hval pickLeast)

/-- PARTIAL (`lteCache` of the three downward inclusion algorithms – recursive, optimised, non-recursive – with the deleter wiring of
the sources; "never reads freed memory" through a stale cache entry).  For every allocator `pick` (address reuse included), every
preorder with reflexive `leB`, all operands and every fuel: at the end of a run that returns `true` every entry of `lteCache` is
keyed by the addresses of two LIVE macro-states (and stores the comparison of the values now at these addresses); the executable
checker `heapOKD` agrees. -/
theorem C20_functorCachesDown_partial (o : Ord) (hr : ∀ q, o.leB q q = true) (pick : List Nat → Nat) (A B : TA) (fuel : Nat) :
    (∀ h, finalHeapD (FCD.runC o .lib pick A B fuel) = some h →
      (∀ a b r, aget h.lte.store (a, b) = some r → a ∈ h.addrs ∧ b ∈ h.addrs) ∧ heapOKD o h = true) ∧
    (∀ s, FCD.runO o .lib pick A B fuel = some (.ok s) →
      (∀ a b r, aget s.h.lte.store (a, b) = some r → a ∈ s.h.addrs ∧ b ∈ s.h.addrs) ∧ heapOKD o s.h = true) ∧
    (∀ s, FCD.runNC o .lib pick A B fuel = some (.ok s) →
      (∀ a b r, aget s.h.lte.store (a, b) = some r → a ∈ s.h.addrs ∧ b ∈ s.h.addrs) ∧ heapOKD o s.h = true) := by
  refine ⟨fun h hf => ?_, fun s hf => ?_, fun s hf => ?_⟩
  · obtain ⟨h1, h2⟩ := C01_downward_memo_sound o hr pick A B fuel h hf
    exact ⟨fun a b r hab => ⟨(h1 a b r hab).1, (h1 a b r hab).2.1⟩, h2⟩
  · obtain ⟨h1, h2, _⟩ := C01_downward_opt_memo_sound o hr pick A B fuel s hf
    exact ⟨fun a b r hab => ⟨(h1 a b r hab).1, (h1 a b r hab).2.1⟩, h2⟩
  · obtain ⟨h1, h2⟩ := C01_downward_nonrec_memo_sound o hr pick A B fuel s hf
    exact ⟨fun a b r hab => ⟨(h1 a b r hab).1, (h1 a b r hab).2.1⟩, h2⟩

example : (finalHeapD (FCD.runC idOrd .lib pickLeast FCDEx.exA FCDEx.exB2 20)).map (heapOKD idOrd) = some true := by
  decide +kernel
-- the outcome excluded: with the one-word slip in the deleter the run ends with a stale entry
example : (finalHeapD (FCD.runC idOrd .firstTwice pickLeast FCDEx.exA FCDEx.exB 20)).map (heapOKD idOrd) = some false :=
  C01_downward_wiring_matters.2

end CachesDown

/-! ### `Union` of the BDD encodings -/
section BddUnion
open Vata Vata.M Vata.BddAbs Vata.BddAbsTD Vata.BddUnionCoded Vata.Um

/-- PARTIAL (`BDDTDTreeAutCore::Union` / `BDDBUTreeAutCore::Union` as coded, `stateCnt = 0`, translation maps absent or empty, operands
on distinct table objects).  The result sits on the FRESH table object (no operand's table is written), and the two translation maps
the call leaves behind are injective with disjoint images – no state number is handed out twice, so no `SetMtbdd` replaces an entry
written before – and defined on every state number of their operand (no state without translation).  With a pre-filled map the counter
DOES hand a number out twice (`C08_union_coded_prefilled_maps_wrong`). -/
theorem C20_bddUnionCoded_partial (fresh : Nat) (oL oR : Option SMap) (hoL : oL.getD [] = []) (hoR : oR.getD [] = []) :
    (∀ (lhs rhs : AutTD), lhs.tid ≠ rhs.tid →
      (tdUnion fresh lhs rhs oL oR).1.tid = fresh ∧
      Inj (tdUnion fresh lhs rhs oL oR).2.1 ∧ Inj (tdUnion fresh lhs rhs oL oR).2.2 ∧
      Disj (tdUnion fresh lhs rhs oL oR).2.1 (tdUnion fresh lhs rhs oL oR).2.2 ∧
      (∀ q, q ∈ lhs.allStates → ∃ n, (tdUnion fresh lhs rhs oL oR).2.1.lookup q = some n) ∧
      (∀ q, q ∈ rhs.allStates → ∃ n, (tdUnion fresh lhs rhs oL oR).2.2.lookup q = some n)) ∧
    (∀ (lhs rhs : AutBU), lhs.tid ≠ rhs.tid →
      (buUnion fresh lhs rhs oL oR).1.tid = fresh ∧
      Inj (buUnion fresh lhs rhs oL oR).2.1 ∧ Inj (buUnion fresh lhs rhs oL oR).2.2 ∧
      Disj (buUnion fresh lhs rhs oL oR).2.1 (buUnion fresh lhs rhs oL oR).2.2 ∧
      (∀ q, q ∈ lhs.allStates → ∃ n, (buUnion fresh lhs rhs oL oR).2.1.lookup q = some n) ∧
      (∀ q, q ∈ rhs.allStates → ∃ n, (buUnion fresh lhs rhs oL oR).2.2.lookup q = some n)) := by
  refine ⟨fun lhs rhs hne => ?_, fun lhs rhs hne => ?_⟩
  · obtain ⟨h1, _, h3, h4, h5, h6, h7⟩ :=
      (C08_td_union_coded_lang fresh lhs rhs oL oR [] (fun h => absurd h hne) hoL hoR).2 hne
    exact ⟨h1, h3, h4, h5, h6, h7⟩
  · obtain ⟨h1, _, h3, h4, h5, h6, h7⟩ :=
      (C08_bu_union_coded_lang fresh lhs rhs oL oR [] (fun h => absurd h hne) (fun h => absurd h hne) hoL hoR).2 hne
    exact ⟨h1, h3, h4, h5, h6, h7⟩

example : UnionCodedEx.tdA.tid ≠ UnionCodedEx.tdB.tid ∧
    (tdUnion 9 UnionCodedEx.tdA UnionCodedEx.tdB none none).2 = ([(2, 0), (1, 1)], [(2, 2), (1, 3)]) := by decide +kernel
-- the outcome excluded: a number handed out twice
example : smapInjB (tdUnion 9 UnionCodedEx.tdA UnionCodedEx.tdB (some [(2, 0)]) none).2.1 = false := by decide +kernel

end BddUnion

/-! ### loading and dumping word automata -/
section NfaLD
open Vata Vata.Timbuk Vata.LoadDump Vata.Dict Vata.NfaLD Vata.W

/-- PARTIAL (`ExplicitFiniteAut::LoadFromAutDesc` / `DumpToAutDesc`; the `throw`s are the outcomes).  A word-shaped description
(every rule has rank ≤ 1) loads without exception into any consistent symbol dictionary, and the automaton just loaded dumps without
exception: every `TranslateBwd` of a state and of a symbol succeeds (no `"No translation for …"`).  The load throws ONLY on a rule
of rank ≥ 2, always with `"Not a finite automaton"`. -/
theorem C20_nfaLoadDump_partial (rtl : Bool) (d : AutDesc) (yd : WSymDict) (hyd : yd.Ok) :
    (d.WordShaped → ∃ A sd yd' d', loadNFA rtl d [] yd = .ok (A, sd, yd') ∧ dumpNFA A sd yd' = .ok d') ∧
    (∀ sd e, loadNFA rtl d sd yd = .error e → e = "Not a finite automaton" ∧ ¬ d.WordShaped) := by
  refine ⟨fun hw => ?_, fun sd e he => ?_⟩
  · obtain ⟨A, sd, yd', d', h1, _, _, _, h5, _⟩ := C13_nfa_load_dump_roundtrip rtl d yd hyd hw
    exact ⟨A, sd, yd', d', h1, h5⟩
  · have h := C13_nfa_load_rank2_throws rtl d sd yd
    have e1 := h.2 e he
    exact ⟨e1, h.1.mp (e1 ▸ he)⟩

example : NfaLDTest.dW.WordShaped ∧ ¬ TimbukEx.exE.WordShaped := by decide

end NfaLD

/-! ### the conjunction -/

/-- **C20, model level (PARTIAL).**  For every coded model with an explicit outcome for an undefined operation of the C++, that
outcome is not reached from inside the model's precondition – the conjunction of the twelve theorems above, each with its
hypotheses (see the table in the header for the component, the model and the undefined behaviours it can express).  Not a theorem
about the compiled C++: no uninitialised storage, no machine integers, no real allocator in any model. -/
theorem C20_models_statement :
    -- the interned store: runs to the end against every fair allocator; nothing dangles; counts exact and positive
    (∀ {alloc : List Nat → Nat}, (∀ l, alloc l ∉ l) → ∀ ops : List StoreI.OpI,
      ∃ s, StoreI.runA .lib alloc StoreI.empty ops = some s ∧
        (∀ p, p ∈ StoreI.allIds s.clusters ++ s.ext → ∃ v rc, (v, p, rc) ∈ s.cache ∧ StoreI.derefC s.cache p = v) ∧
        (∀ v id rc, (v, id, rc) ∈ s.cache → 0 < rc ∧ rc = (StoreI.allIds s.clusters ++ s.ext).count id)) ∧
    -- the iterators on it are never stuck
    (∀ {ops : List StoreI.OpI} {s : StoreI.Sys}, StoreI.runI .lib ops = some s →
      ∀ n, n ≤ (Store.iterate (StoreI.abs s)).length → (Store.iterM (StoreI.abs s)).posAt n ≠ .stuck) ∧
    -- copy-on-write of the finite automata: the checker accepts every reachable heap
    (∀ ops : List CowHeapFA.Op, CowHeapFA.invBFA (CowHeapFA.exec ops) = true) ∧
    -- the MTBDD store: no error, no double free, no premature free
    (∀ (F : RcSX.Fns) (ops : List RcSX.Op), (RcSX.runX F ops).st.err = false ∧ (RcSX.runX F ops).st.freed.Nodup ∧
      ∀ h r, (h, r) ∈ (RcSX.runX F ops).st.hs → ∀ n, RcS.Reach (RcSX.runX F ops).st.dat r n →
        n ∈ (RcSX.runX F ops).st.ids ∧ n ∉ (RcSX.runX F ops).st.freed) ∧
    -- the strict translator does not throw on a complete map
    (∀ (src dst : Store.Store) (m : List (Nat × Nat)) (af : Bool),
      (∀ k, k ∈ RenameCoded.lookupOrder src af → m.lookup k ≠ none) →
      (RenameCoded.reindexInto RenameCoded.strictT src dst m af).thrown = none) ∧
    -- the engine's `SmartSet` history runs on the coded class
    (∀ (L : L.LTS) (part : List (List Nat)) (rel : Rel), LE.ltsOKB L = true → LE.isPartition part L.n = true →
      LE.isConsistent part rel = true → LE.isTransB rel = true → LEC.DeltaOK L →
      ∀ k, (LU.SS.run [] (LEC.stateAfterI L part rel k).2.ss).isSome = true) ∧
    -- the call emulator
    (∀ (o : InclDown.Ord) (A B : TA) (wit : InclUp.Wit) (st : InclDown.St) (p : Nat) (P : List Nat) (n : Nat)
      (m : InclDownStack.Machine),
      C20M.stateAfterM o A B wit InclDownStack.popAll n (InclDownStack.initM st p P) = some m → C20M.ubNext m = false) ∧
    -- the two trimmings
    (∀ (T : BddAbsTD.TableTD) {F : List Nat}, F.Nodup → ∀ fuel,
      C20M.usefulCodedC T F fuel = (BddTrimCoded.usefulCoded T F fuel).map (fun U => (U, false))) ∧
    (∀ A : TA, C20M.finalStC A = (TrimCoded.finalSt TrimCoded.decOne A, false)) ∧
    -- the memo of the downward inclusion (recursive algorithm; the two others: `C20_functorCachesDown_partial`)
    (∀ (o : InclDown.Ord), (∀ q, o.leB q q = true) → ∀ (pick : List Nat → Nat) (A B : TA) (fuel : Nat) h,
      FCD.finalHeapD (FCD.runC o .lib pick A B fuel) = some h → FCD.heapOKD o h = true) ∧
    -- `Union` of the BDD encodings: fresh table, numbers handed out once
    (∀ (fresh : Nat) (lhs rhs : BddUnionCoded.AutTD), lhs.tid ≠ rhs.tid →
      (BddUnionCoded.tdUnion fresh lhs rhs none none).1.tid = fresh ∧
      Um.Inj (BddUnionCoded.tdUnion fresh lhs rhs none none).2.1 ∧ Um.Inj (BddUnionCoded.tdUnion fresh lhs rhs none none).2.2 ∧
      Um.Disj (BddUnionCoded.tdUnion fresh lhs rhs none none).2.1 (BddUnionCoded.tdUnion fresh lhs rhs none none).2.2) ∧
    -- loading and dumping word automata never throws on word-shaped descriptions
    (∀ (rtl : Bool) (d : AutDesc) (yd : WSymDict), yd.Ok → d.WordShaped →
      ∃ A sd yd' d', loadNFA rtl d [] yd = .ok (A, sd, yd') ∧ dumpNFA A sd yd' = .ok d') := by
  refine ⟨fun hf ops => ?_, fun h n hn => ((C20_storeIter_partial h).1 n hn).1,
    fun ops => (C20_cowHeapFA_partial ops).2.2.2.2.1,
    fun F ops => ⟨(C20_rcStoreX_partial F ops).1, (C20_rcStoreX_partial F ops).2.1, (C20_rcStoreX_partial F ops).2.2.2⟩,
    fun src dst m af hm => (C20_renameCoded_partial src dst m af hm).1,
    fun L part rel hL hp hc ht hΔ k => (C20_ltsEngineCalls_partial L part rel hL hp hc ht hΔ k).2,
    C20_inclDownStack_partial,
    fun T _ hF fuel => (C20_bddTrimCoded_partial T hF fuel).1,
    C20_trimCoded_partial,
    fun o hr pick A B fuel h hf => ((C20_functorCachesDown_partial o hr pick A B fuel).1 h hf).2,
    fun fresh lhs rhs hne => ?_,
    fun rtl d yd hyd hw => (C20_nfaLoadDump_partial rtl d yd hyd).1 hw⟩
  · obtain ⟨s, h1, h2, h3, _⟩ := C20_storeInterned_partial hf ops
    exact ⟨s, h1, h2, h3⟩
  · obtain ⟨h1, h2, h3, h4, _⟩ := (C20_bddUnionCoded_partial fresh none none rfl rfl).1 lhs rhs hne
    exact ⟨h1, h2, h3, h4⟩

/-!
## still not proved

* **The property itself** (see the header of `Vata/Properties/C20.lean`): nothing here is a statement about the compiled C++.
  Uninitialised storage, machine integers (except "`--remaining` is never executed at 0"), the real allocator and the agreement of
  each model with the code are outside; C20 is checked by sanitizer-instrumented runs.
* `C20_renameCoded_partial` gives the WEAK invariant of `dst` after a `ReindexStates` that does not throw.  That `dst` then also
  satisfies the full store invariant (no empty cluster, no empty tuple set – what the iterators need) when `src` and `dst` do is
  not proved here.
* `C20_ltsEngineCalls_partial` keeps the hypothesis `DeltaOK L` of `C16_engine_discipline_partial` (decidable; not proved for all
  `L`), and covers `SmartSet` only: the `SharedCounter` / `SharedList` / `SplittingRelation` call histories of the engine are not
  proved to be inside the disciplines of `Util_LtsUtil_*` (`C20_engine_helpers_bookkeeping_partial` assumes them).
* `C20_inclDownStack_partial`: of the frame fields only `retAddr`, `tupleSetIter`, `tupleSetIter2` and the saved-frame chain are covered.
  That `(**top.tupleSetIter)[top.i]` is inside the tuple (`top.i < arity`, the model reads `getD 0`), that `top.a` is not at `end()`
  where `smallerIndex[top.p_S][top.a]` is read (the model tests it first, as the C++ loop head does), and the `CachingAllocator`
  recycling of frames are not stated.  The `NOSIM` machine only; the instrumented caches of the non-recursive algorithm
  (`Vata/FunctorCachesDownNonrec.lean`) have their own statement in `C20_functorCachesDown_partial`.
* `C20_functorCachesDown_partial` speaks about the END of runs that return `true` (as the theorems it is derived from); the
  invariant holds at every step of the simulation relation (`FCD.DRel`), which is not restated here; `evalTransitionsCache` is not
  part of these models (`C20_cache_no_stale_address_partial` covers it at class level).
* `C20_bddTrimCoded_partial` covers the top-down analysis (`usefulCodedC`).  The bottom-up coded trimmings
  (`Vata/BddTrimCodedBU.lean`: `buUnreachCoded`, `buUselessCoded`) have no instrumented variant; their lookups are shown to succeed
  only implicitly, through the exactness theorems `C08_bu_unreach_coded_lang` / `C08_bu_useless_coded_lang`.
* `C20_bddUnionCoded_partial`: maps absent or empty and distinct table objects only (with given maps and a counter above them:
  `C08_union_coded_maps`; same table object: the operands' table IS the result's table by design, `C08_sharing_*`).
* `C20_nfaLoadDump_partial`: the dump of an automaton that was NOT just loaded needs `Dumpable` (`C13_nfa_dump_load_lang`); the
  parser / serializer are functions on character lists, not memory-touching code.
* Models with explicit undefined outcomes that are stated elsewhere and not repeated here: `OrdVector` (`.oob`), `CliArgs`
  (`.outOfBounds`, `.outOfRange`), the antichain containers, `SharedCounter` / `SharedList` / `CachingAllocator`, the macro-state
  cache (`C20_bounds_and_iterators_partial`, `C20_engine_helpers_bookkeeping_partial`, `C20_cache_no_stale_address_partial` in
  `Vata/Properties/C20.lean`), `CowHeapX` (`C11_ext_invariant`), the BDD intersections (`C20_bdd_isect_numbers_dense_partial`).
-/
end Vata.Props
