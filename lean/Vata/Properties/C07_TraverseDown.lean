import Vata.Proofs.InclDownTablesDump
import Vata.Proofs.InclDownTotal
/-!
# C07 – the top-down BDD downward inclusion, run for run on the TABLES

Property served (C07): *"the BDD inclusion algorithms return the verdict of the explicit ones"*; the item left open by
`Vata/Properties/C07_Traverse.lean`: the run-for-run refinement of `DownwardInclusionFunctor::expand` on the top-down tables.

How the C++ is read into the model (`Vata/InclDownTables.lean`): `CheckDownwardTreeInclusion<BDDTDTreeAutCore, DownwardInclusionFunctor>`
(`src/tree_incl_down.hh`, `src/down_tree_incl_fctor.hh`) reads the automata only through `ForeachDownSymbolFromStateAndStateSetDo`
(`src/bdd_td_tree_aut_core.hh`), modelled AS CODED by `BddTraverse.travDown` (union of the right-hand MTBDDs by `apply2`,
`VoidApply2Functor` with its cache of visited node pairs, one callback per pair of LEAVES).  `procLeaf` is `operator()(lhs, rhs)` as coded
(no symbol: empty `lhs` returns, the arity is read off the first tuple of `lhs`), `expandT` is `expand` with `workset_`, `nonIncl_`,
`childrenCache_` threaded as in `InclDown.expand`, `rootLoopT` / `runTD` the loop over the final states.

The abstract model `InclDown.expand` iterates over the groups `(f, n)` of the rule LIST of a `TA` in list order.  `pathOrder syms T F` is the
dump of a table over the ranked symbols `syms` (ranked symbol = the number formed by the 16 symbol bits and the 6 arity bits above
them, `addArityToSymbol`; it is the symbol of the dumped rule) whose rule list is in the order the traversal induces:
ranked symbols increasing (low successor first, larger variable nearer the root), tuples in the order of the leaves
(`OrdVector<StateTuple>`), parents in table order.

What is abstracted: hash-consing = structural equality of diagrams; `unordered_multimap` work-set / antichains as lists (as in `InclDown`);
the witness trees and the symbol handed to `procLeaf` are ghost (`reprSym` of the class); the number of variables `n` and the arity
`ar` of a ranked symbol are parameters (`n = 22`, `ar c = c / 2 ^ 16` for the tables of the library).

The hypothesis `SymDet` (different ranked symbols of a state of the LEFT table select different non-empty leaves): the traversal
calls the functor once per pair of leaves, the abstract model once per symbol.  When two symbols of a state share their tuple set
AND the right-hand side does not separate them, the code makes ONE call where the abstract model makes two; the second call of the
abstract model finds its sub-calls in the caches, but it is a different run (more cache look-ups), and the equality of the
RESULTS in that case is not proved here (checked by evaluation below: `regression 1`).  The right table is arbitrary (classes allowed).
-/
namespace Vata.Props
open Vata Vata.M Vata.BddAbs Vata.BddAbsTD Vata.BddTraverse Vata.InclDown Vata.InclDownTables
open Vata.InclUp (prodWit)

/-- **what the functor receives** from the traversal as coded, for a symbol-deterministic left diagram `a` and any right diagram `b`
(ordered, reduced, over `n` variables): the calls with a non-empty left leaf are – in this order – the ranked symbols `f < 2 ^ n`
with a non-empty leaf in `a`, each with the two leaves `f` selects; the cache of `VoidApply2Functor` drops none of them -/
theorem C07_traverse_down_calls {n : Nat} {a b : Node LS} (wa : WF a) (wb : WF b) (ba : Below n a) (bb : Below n b)
    (hd : SymDet n a) :
    ((voidApply2Calls a b).map symItem).filter (fun i => !i.2.1.isEmpty) =
      ((List.range (2 ^ n)).map (fun f => (0 + f, eval a (bits (0 + f)), eval b (bits (0 + f))))).filter
        (fun i => !i.2.1.isEmpty) :=
  calls_ne_eq wa wb ba bb hd

/-- **`C07_traverse_downward_algorithm`: run for run.**  Tables `TA`, `TB` with ordered reduced MTBDDs over `n` variables, sorted
leaves and ranked tuples (`TabOK`), a strictly increasing list `syms` of ranked symbols `< 2 ^ n` that covers the left table, the
left table symbol-deterministic.  Then on the dumps in path order `A = pathOrder syms TA FA`, `B = pathOrder syms TB FB`:
`expand` on the tables IS `InclDown.expand` on `A`, `B` – for every fuel, work-set, `childrenCache`, state, pair: the same verdict,
the same caches and antichains (with the same witness trees); so are the traversal `bodyT`/`body`, and the whole algorithm
`runTD`/`run` for any preorder `o` (`idOrd`: `ANTICHAINS_DOWN_REC_NOSIM`) -/
theorem C07_traverse_downward_algorithm {n : Nat} {ar : Nat → Nat} {syms : List Nat} {TA TB : TableTD} (FA FB : List Nat)
    (hs : syms.Pairwise (· < ·)) (hb : ∀ c, c ∈ syms → c < 2 ^ n)
    (hcov : ∀ p c, c < 2 ^ n → eval (getTD TA p) (bits c) ≠ [] → c ∈ syms)
    (okA : TabOK n ar TA) (okB : TabOK n ar TB) (hd : ∀ p, SymDet n (getTD TA p)) (o : Ord) :
    (∀ wit fuel, expandT o TA TB wit fuel = expand o (pathOrder syms TA FA) (pathOrder syms TB FB) wit fuel) ∧
    (∀ call1 call2 wit post p P cc st, bodyT call1 call2 TA TB wit post p P cc st =
      body call1 call2 (pathOrder syms TA FA) (pathOrder syms TB FB) wit post p P cc st) ∧
    (∀ fuel, runTD o TA FA TB FB (prodWit (pathOrder syms TA FA)) fuel =
      run o (pathOrder syms TA FA) (pathOrder syms TB FB) fuel) :=
  have h := groupsAgree_pathOrder FA FB hs hb hcov okA okB hd
  ⟨fun wit fuel => expandT_eq h o wit fuel, fun c1 c2 wit post p P cc st => bodyT_eq h c1 c2 wit post p P cc st,
    fun fuel => runTD_eq (A := pathOrder syms TA FA) (B := pathOrder syms TB FB) h o fuel⟩

/-- the same from the agreement of the groups alone (`GroupsAgree`: for every `(p, P)` the calls with a non-empty left leaf are,
list for list, the groups of `p` with `lhsTuples` / `rhsTuples`) – for ANY automata `A`, `B`, whatever their symbols -/
theorem C07_traverse_downward_of_groups {TA TB : TableTD} {A B : Vata.TA} (h : GroupsAgree TA TB A B) (o : Ord) :
    (∀ wit fuel, expandT o TA TB wit fuel = expand o A B wit fuel) ∧
    (∀ fuel, runTD o TA A.final TB B.final (prodWit A) fuel = run o A B fuel) :=
  ⟨fun wit fuel => expandT_eq h o wit fuel, fun fuel => runTD_eq h o fuel⟩

/-- the certified verdict of the algorithm on the tables (certify-then-trust against the dumps, as `inclDownRec`) -/
def inclDownTablesCert (syms : List Nat) (TA : TableTD) (FA : List Nat) (TB : TableTD) (FB : List Nat) (fuel : Nat) :
    Option (Bool × InclUp.Cert) :=
  finish (downCertB (pathOrder syms TA FA) (pathOrder syms TB FB)) (pathOrder syms TA FA) (pathOrder syms TB FB)
    (runTD idOrd TA FA TB FB (prodWit (pathOrder syms TA FA)) fuel)

/-- **`C07_td_downward_tables_exact`: exactness and totality transfer.**  Under the hypotheses of `C07_traverse_downward_algorithm`:
the certified verdict of the run on the tables is `inclDownRec` of the dumps, hence exact; when the children of the rules of
the left dump are productive (no useless states: the precondition of the C++ functor) the PLAIN verdict of the run on the tables
(`inclDownTrav`, nothing certified) is that verdict, is exact, and is returned for every fuel above `|Q_A|·2^|Q_B|` -/
theorem C07_td_downward_tables_exact {n : Nat} {ar : Nat → Nat} {syms : List Nat} {TA TB : TableTD} (FA FB : List Nat)
    (hs : syms.Pairwise (· < ·)) (hb : ∀ c, c ∈ syms → c < 2 ^ n)
    (hcov : ∀ p c, c < 2 ^ n → eval (getTD TA p) (bits c) ≠ [] → c ∈ syms)
    (okA : TabOK n ar TA) (okB : TabOK n ar TB) (hd : ∀ p, SymDet n (getTD TA p)) :
    (∀ fuel, inclDownTablesCert syms TA FA TB FB fuel = inclDownRec (pathOrder syms TA FA) (pathOrder syms TB FB) fuel) ∧
    (∀ fuel b c, inclDownTablesCert syms TA FA TB FB fuel = some (b, c) →
      (b = true ↔ Incl (pathOrder syms TA FA) (pathOrder syms TB FB))) ∧
    (KidsProductive (pathOrder syms TA FA) →
      (∀ fuel, inclDownTrav idOrd TA FA TB FB (prodWit (pathOrder syms TA FA)) fuel =
        (inclDownRec (pathOrder syms TA FA) (pathOrder syms TB FB) fuel).map (·.1)) ∧
      (∀ fuel b, inclDownTrav idOrd TA FA TB FB (prodWit (pathOrder syms TA FA)) fuel = some b →
        (b = true ↔ Incl (pathOrder syms TA FA) (pathOrder syms TB FB))) ∧
      (∀ fuel, fuelBoundD (pathOrder syms TA FA) (pathOrder syms TB FB) < fuel →
        ∃ b, inclDownTrav idOrd TA FA TB FB (prodWit (pathOrder syms TA FA)) fuel = some b)) := by
  have hrun := (C07_traverse_downward_algorithm FA FB hs hb hcov okA okB hd idOrd).2.2
  have h1 : ∀ fuel, inclDownTablesCert syms TA FA TB FB fuel =
      inclDownRec (pathOrder syms TA FA) (pathOrder syms TB FB) fuel := by
    intro fuel; unfold inclDownTablesCert inclDownRec; rw [hrun]
  refine ⟨h1, fun fuel b c h => inclDownRec_iff (by rw [← h1]; exact h), fun hK => ?_⟩
  have h2 : ∀ fuel, inclDownTrav idOrd TA FA TB FB (prodWit (pathOrder syms TA FA)) fuel =
      (inclDownRec (pathOrder syms TA FA) (pathOrder syms TB FB) fuel).map (·.1) := by
    intro fuel
    rw [inclDownRec_eq_run hK]
    unfold inclDownTrav
    rw [hrun]
    cases run idOrd (pathOrder syms TA FA) (pathOrder syms TB FB) fuel with
    | none => rfl
    | some r => cases r <;> rfl
  refine ⟨h2, fun fuel b h => ?_, fun fuel hf => ?_⟩
  · rw [h2] at h
    cases hr : inclDownRec (pathOrder syms TA FA) (pathOrder syms TB FB) fuel with
    | none => rw [hr] at h; cases h
    | some bc =>
      obtain ⟨b', c⟩ := bc
      rw [hr] at h
      simp only [Option.map_some, Option.some.injEq] at h
      subst h
      exact inclDownRec_iff hr
  · obtain ⟨b, c, hbc⟩ := inclDownRec_total (B := pathOrder syms TB FB) hK hf
    exact ⟨b, by rw [h2, hbc]; rfl⟩

/-- **loaded tables** (`AddTransition` for every rule, arities `< 64`): `TabOK 22 arOf` holds (ordered reduced MTBDDs over the 16 symbol
and 6 arity variables, sorted leaves, the length of a tuple is the value of the arity bits), so the run on the loaded tables is
the abstract run on their dumps in path order – provided the loaded LEFT table is symbol-deterministic and `syms` (increasing, ranked
symbols `< 2 ^ 22`) covers it -/
theorem C07_traverse_downward_loaded (rsA rsB : List Rule) (hA : ∀ r, r ∈ rsA → r.kids.length < 64)
    (hB : ∀ r, r ∈ rsB → r.kids.length < 64) {syms : List Nat} (FA FB : List Nat)
    (hs : syms.Pairwise (· < ·)) (hb : ∀ c, c ∈ syms → c < 2 ^ 22)
    (hcov : ∀ p c, c < 2 ^ 22 → eval (getTD (ofRulesTD rsA) p) (bits c) ≠ [] → c ∈ syms)
    (hd : ∀ p, SymDet 22 (getTD (ofRulesTD rsA) p)) (o : Ord) :
    (TabOK 22 arOf (ofRulesTD rsA) ∧ TabOK 22 arOf (ofRulesTD rsB)) ∧
    (∀ wit fuel, expandT o (ofRulesTD rsA) (ofRulesTD rsB) wit fuel =
      expand o (pathOrder syms (ofRulesTD rsA) FA) (pathOrder syms (ofRulesTD rsB) FB) wit fuel) ∧
    (∀ fuel, runTD o (ofRulesTD rsA) FA (ofRulesTD rsB) FB (prodWit (pathOrder syms (ofRulesTD rsA) FA)) fuel =
      run o (pathOrder syms (ofRulesTD rsA) FA) (pathOrder syms (ofRulesTD rsB) FB) fuel) :=
  have h := C07_traverse_downward_algorithm FA FB hs hb hcov (tabOK_ofRulesTD rsA hA) (tabOK_ofRulesTD rsB hB) hd o
  ⟨⟨tabOK_ofRulesTD rsA hA, tabOK_ofRulesTD rsB hB⟩, h.1, h.2.2⟩

example : (∀ r, r ∈ BddAbsEx.rsB → r.kids.length < 64) ∧ (∀ r, r ∈ BddAbsEx.rsA → r.kids.length < 64) := ⟨by decide, by decide⟩

/-! ## non-vacuity: two tables over `n = 2` variables

ranked symbols `0, 1` (nullary), `2` (binary), `3` (unary).  `A`: `0 → 1`, `2(1,1) → 2`, `3(2) → 2`;
`B`: `0 → 3`, `1 → 3` (one class: the node for the variable 0 is reduced away), `2(3,3) → 4`, `3(4) → 4`. -/
namespace TDEx

def ar : Nat → Nat := fun c => if c = 2 then 2 else if c = 3 then 1 else 0
def syms : List Nat := [0, 1, 2, 3]
def tA : TableTD :=
  [(1, .node 1 (.node 0 (.leaf [[]]) (.leaf [])) (.leaf [])), (2, .node 1 (.leaf []) (.node 0 (.leaf [[1, 1]]) (.leaf [[2]])))]
def tB : TableTD :=
  [(3, .node 1 (.leaf [[]]) (.leaf [])), (4, .node 1 (.leaf []) (.node 0 (.leaf [[3, 3]]) (.leaf [[4]])))]

theorem lt4 {c : Nat} (h : c < 2 ^ 2) : c = 0 ∨ c = 1 ∨ c = 2 ∨ c = 3 := by omega

theorem okA : TabOK 2 ar tA := by
  refine tabOK_of_entries (fun e he => ?_)
  simp only [tA, List.mem_cons, List.not_mem_nil, or_false] at he
  rcases he with rfl | rfl
  · refine ⟨by simp [WF, Below], fun c hc => ?_, fun c ks hc => ?_⟩
    · rcases lt4 hc with rfl | rfl | rfl | rfl <;> decide
    · rcases lt4 hc with rfl | rfl | rfl | rfl <;> revert ks <;> decide
  · refine ⟨by simp [WF, Below], fun c hc => ?_, fun c ks hc => ?_⟩
    · rcases lt4 hc with rfl | rfl | rfl | rfl <;> decide
    · rcases lt4 hc with rfl | rfl | rfl | rfl <;> revert ks <;> decide

theorem okB : TabOK 2 ar tB := by
  refine tabOK_of_entries (fun e he => ?_)
  simp only [tB, List.mem_cons, List.not_mem_nil, or_false] at he
  rcases he with rfl | rfl
  · refine ⟨by simp [WF, Below], fun c hc => ?_, fun c ks hc => ?_⟩
    · rcases lt4 hc with rfl | rfl | rfl | rfl <;> decide
    · rcases lt4 hc with rfl | rfl | rfl | rfl <;> revert ks <;> decide
  · refine ⟨by simp [WF, Below], fun c hc => ?_, fun c ks hc => ?_⟩
    · rcases lt4 hc with rfl | rfl | rfl | rfl <;> decide
    · rcases lt4 hc with rfl | rfl | rfl | rfl <;> revert ks <;> decide

theorem detA : ∀ p, SymDet 2 (getTD tA p) := by
  refine symDet_of_entries (fun e he => ?_)
  simp only [tA, List.mem_cons, List.not_mem_nil, or_false] at he
  rcases he with rfl | rfl <;> intro f g hf hg <;>
    rcases lt4 hf with rfl | rfl | rfl | rfl <;> rcases lt4 hg with rfl | rfl | rfl | rfl <;> decide

end TDEx

/-- the hypotheses of `C07_traverse_downward_algorithm` / `C07_td_downward_tables_exact` are satisfiable (`tB` is not
symbol-deterministic: it is the RIGHT operand) -/
example : TDEx.syms.Pairwise (· < ·) ∧ (∀ c, c ∈ TDEx.syms → c < 2 ^ 2) ∧
    (∀ p c, c < 2 ^ 2 → eval (getTD TDEx.tA p) (bits c) ≠ [] → c ∈ TDEx.syms) ∧
    TabOK 2 TDEx.ar TDEx.tA ∧ TabOK 2 TDEx.ar TDEx.tB ∧ (∀ p, SymDet 2 (getTD TDEx.tA p)) :=
  ⟨by decide, by decide, fun _ c hc _ => by rcases TDEx.lt4 hc with rfl | rfl | rfl | rfl <;> decide,
    TDEx.okA, TDEx.okB, TDEx.detA⟩

-- the dumps in path order
#guard (pathOrder TDEx.syms TDEx.tA [2]).rules.map (fun r => (r.sym, r.kids, r.parent)) ==
  [(0, [], 1), (2, [1, 1], 2), (3, [2], 2)]
#guard (pathOrder TDEx.syms TDEx.tB [4]).rules.map (fun r => (r.sym, r.kids, r.parent)) ==
  [(0, [], 3), (1, [], 3), (2, [3, 3], 4), (3, [4], 4)]
example : KidsProductive (pathOrder TDEx.syms TDEx.tA [2]) :=
  (InclUp.trimmed_of_allUsefulB (A := pathOrder TDEx.syms TDEx.tA [2]) (by decide)).1

-- both sides of the theorem evaluated: `A ⊆ B` holds, the run on the tables and the abstract run agree
#guard inclDownTrav idOrd TDEx.tA [2] TDEx.tB [4] [] 10 == some true
#guard showRet (expandT idOrd TDEx.tA TDEx.tB [] 10 [] [] ⟨[], []⟩ 2 [4]) ==
  showRet (expand idOrd (pathOrder TDEx.syms TDEx.tA [2]) (pathOrder TDEx.syms TDEx.tB [4]) [] 10 [] [] ⟨[], []⟩ 2 [4])
#guard showRet (expandT idOrd TDEx.tA TDEx.tB [] 10 [] [] ⟨[], []⟩ 2 [4]) == some (true, [(2, [4])], [], [(1, [3]), (2, [4])])

/-! ## regressions (the left operand `tB` has the class `{0, 1}`: NOT symbol-deterministic) -/

-- regression 1: a traversal that calls the functor once per SYMBOL instead of once per class changes nothing:
-- `tB ⊆ tB` (the class `{0, 1}` of state 3 is one call in the code, two calls per symbol) and `tB ⊄ tA`
-- (evaluated: `VoidApply2Functor` is a well-founded recursion the kernel's `decide` does not unfold)
#guard showRet (expandWith (fun call => bodySyms TDEx.syms call call TDEx.tB TDEx.tB [] InclUp.normS) idOrd 10 [] [] ⟨[], []⟩ 4 [4]) ==
  showRet (expandT idOrd TDEx.tB TDEx.tB [] 10 [] [] ⟨[], []⟩ 4 [4])
#guard showRet (expandWith (fun call => bodySyms TDEx.syms call call TDEx.tB TDEx.tA [] InclUp.normS) idOrd 10 [] [] ⟨[], []⟩ 4 [2]) ==
  showRet (expandT idOrd TDEx.tB TDEx.tA [] 10 [] [] ⟨[], []⟩ 4 [2])
-- the code makes one call for the class (the pair of leaves `([[]], [[]])`), the loop over the symbols two
#guard (travDown TDEx.tB TDEx.tB 3 [3]).map (·.2) == [([[]], [[]]), ([], [])]
#guard showRet (expandT idOrd TDEx.tB TDEx.tB [] 10 [] [] ⟨[], []⟩ 4 [4]) == some (true, [(4, [4])], [], [(3, [3]), (4, [4])])

-- regression 2: a callback that receives the UNION of the right-hand leaves over all classes changes the verdict:
-- `tB ⊄ tA` (the symbol 1 is missing in `tA`), the union hides it
#guard (showRet (expandT idOrd TDEx.tB TDEx.tA [] 10 [] [] ⟨[], []⟩ 4 [2])).map (·.1) == some false
#guard (showRet (expandWith (fun call => bodyUnion call call TDEx.tB TDEx.tA [] InclUp.normS) idOrd 10 [] [] ⟨[], []⟩ 4 [2])).map
  (·.1) == some true
-- the core of it in the kernel: the class of the symbol 1 of state 3 hands `lhs = {()}`, `rhs = ∅` to the functor (it fails); with
-- the union over the classes `rhs = {()}` (it returns at once)
example : (showRet (procLeaf (fun _ _ _ _ => none) (fun _ _ _ _ => none) [] InclUp.normS 1 [[]] [] [] ⟨[], []⟩)).map (·.1) =
    some false := rfl
example : (showRet (procLeaf (fun _ _ _ _ => none) (fun _ _ _ _ => none) [] InclUp.normS 1 [[]] [[]] [] ⟨[], []⟩)).map (·.1) =
    some true := rfl

/-! ## loaded 22-bit tables (`ofRulesTD`), by evaluation

the automata of defect D9: `rsB` (`a → 3`, `b → 4`, `g(3,3) → 9`, `g(4,4) → 9`) is symbol-deterministic, `rsA` (`a → 1`, `b → 1`,
`g(1,1) → 2`) has the class `{a, b}`.  Ranked symbols: `a = 0`, `b = 1`, `g/2 = 2·2^16 + 2`. -/

#guard usedSyms (ofRulesTD BddAbsEx.rsB) [0, 1, 2, 131074, 131075] == [0, 1, 131074]
#guard (pathOrder [0, 1, 131074] (ofRulesTD BddAbsEx.rsB) [9]).rules.map (fun r => (r.sym, r.kids, r.parent)) ==
  [(0, [], 3), (1, [], 4), (131074, [3, 3], 9), (131074, [4, 4], 9)]
#guard showRet (expandT idOrd (ofRulesTD BddAbsEx.rsB) (ofRulesTD BddAbsEx.rsA) [] 10 [] [] ⟨[], []⟩ 9 [2]) ==
  showRet (expand idOrd (pathOrder [0, 1, 131074] (ofRulesTD BddAbsEx.rsB) [9])
    (pathOrder [0, 1, 131074] (ofRulesTD BddAbsEx.rsA) [2]) [] 10 [] [] ⟨[], []⟩ 9 [2])
#guard inclDownTrav idOrd (ofRulesTD BddAbsEx.rsB) [9] (ofRulesTD BddAbsEx.rsA) [2] [] 10 == some true
#guard inclDownTrav idOrd (ofRulesTD BddAbsEx.rsA) [2] (ofRulesTD BddAbsEx.rsB) [9] [] 10 == some false

/-!
## still not proved

* the case of a left table that is NOT symbol-deterministic (two ranked symbols of a state with the same set of children tuples –
  e.g. two nullary symbols of a state): there the code calls the functor once per pair of leaves, the abstract model once per
  symbol; that the additional calls of the abstract model change neither the verdict nor the caches is checked by evaluation only
  (regression 1), not proved (it needs a relative-completeness invariant of the caches: a pair concluded `true` is never
  implied by `nonincluded` later in the same functor).  `C07_traverse_downward_of_groups` holds without the hypothesis, but its
  `GroupsAgree` is then not available for a dump with one symbol per ranked symbol;
* for LOADED tables `TabOK` is proved (`C07_traverse_downward_loaded`), but `SymDet 22` of a loaded left table and the covering of
  `syms` remain hypotheses there (no rule-level criterion such as "a tuple of a state occurs under one symbol only" is derived);
  the loaded tables of D9 are compared by evaluation (`#guard`s above);
* the symbols of the dumps are RANKED symbols (symbol bits + arity bits): `Incl (pathOrder …) (pathOrder …)` is the inclusion of
  the automata the tables denote up to this injective renaming of the symbols; the renaming back to `(f, n)` is not carried out;
* the `OptDownwardInclusionFunctor` variant and the preorder index structures (`preorderSmaller_` / `preorderBigger_`) are as in
  `InclDown` (an `Ord` of three Boolean tests); no link to the C++ by a driver kind (Lean only).
-/
end Vata.Props
