import Vata.Proofs.SymbolCounter
/-!
# C08 / C13 – the counter that hands out the symbol codes: `SymbolicVarAsgn::operator++`

> A Timbuk automaton loaded into either BDD encoding and dumped again denotes the same language as in the explicit
> encoding.  (C08)
> … dumping it and loading the text again yields the same rules and final states under the same state names.  (C13)

Both rest on: **different symbol names get different 16-bit codes.**  The BDD alphabet
(`SymbolicTreeAutBase::OnTheFlyAlphabet`, `include/vata/aut_base.hh`) gives a new name the value of `nextSymbol_++`, where
`nextSymbol_` is a `SymbolicVarAsgn` of `SYMBOL_SIZE = 16` variables that starts as `GetZeroSymbol ()` and is stepped by
`SymbolicVarAsgn::operator++` (`src/sym_var_asgn.cc`), a ripple-carry loop over the packed two-bit representation.

## how the C++ is read

* `operator++` is mirrored as an index loop (`SymbolCounter.incLoop`, `Vata/SymbolCounter.lean`, the C++ text is quoted
  there): index `i`, `GetIthVariableValue` / `SetIthVariableValue` = `Glue.get` / `Glue.set` on the list of values (the
  packed bytes are `Glue.Packed`, refinement in `Vata/Proofs/GluePacked.lean`), `ZERO` → set `ONE` and return, `ONE` → set
  `ZERO` and go on, `DONT_CARE` → go on (`assert (false)` compiled out), the LOOP CONDITION is a parameter:
  `i < length()` is `incCoded`, the seeded `i + 1 < length()` is `incNoTopCarry`.  The loop takes fuel; `length()` is
  enough and every larger fuel gives the same result (`C08_symbol_inc_as_coded`): total, fuel not observable.
* the alphabet: `BddLoad.AlphaC` (the forward map of `symbolDict_` in insertion order, and `nextSymbol_`), its translator
  `AlphaC.tr` (existing, `Vata/Proofs/BddLoad.lean`) with the increment as a parameter is `SymbolCounter.trWith`
  (`trWith Glue.inc = AlphaC.tr`), a sequence of names is `trsWith`.  `handOut step m a` are the values of `m` successive
  `nextSymbol_++`.
* the model of the loads (`Vata/BddLoad.lean`) keeps allocation NUMBERS (`SymDict`) and reads the code of number `k` as
  `symAsgn k`; `C08_load_alphabet_as_coded` (existing) ties that to `AlphaC`.  `C08_symbol_codes_distinct_dict` is the
  statement on that dictionary.

## abstracted

The backward map of `symbolDict_` (never read by load or dump; its `insert` only logs on a clash), the hash order of the
forward map (the dictionary is a list in insertion order; `lookup` finds the unique entry since names are distinct).

## results

* `C08_symbol_inc_as_coded`                  the index loop is `Glue.inc`, for every sufficient fuel
* `C08_symbol_codes_distinct`                `2^n` increments from `0…0` give the `2^n` binary codes, pairwise distinct; only
                                             the `2^n`-th increment returns to `0…0`
* `C08_symbol_codes_distinct_alphabet`       up to `2^16` distinct names loaded into the fresh alphabet as coded: the `i`-th
                                             gets `symAsgn i`, two names never share a code
* `C08_symbol_codes_distinct_dict`           the same on the dictionary of `BddLoad`; `C08_symbol_codes_distinct_dict_sharp`:
                                             the bound `2^16` cannot be raised
* `C08_symbol_codes_no_top_carry_repeat`     the seeded loop: the counter on `n ≥ 1` variables has period `2^(n-1)`; the first
                                             `2^(n-1)` codes are distinct and the next one is the first again
* `C08_symbol_codes_no_top_carry_n4`         `n = 4` by `decide`
* `C08_symbol_codes_no_top_carry_two_names`  consequence for the dictionary: the first and the `(2^(n-1)+1)`-th name have one
                                             code (`n = 16`: the 32 769th name)
-/
namespace Vata.Props
open Vata Vata.Glue Vata.BddAbs Vata.BddLoad Vata.SymbolCounter

/-- **`operator++` as coded is `Glue.inc`.**  The index loop `for (i = 0; i < length(); ++i)` over
`GetIthVariableValue` / `SetIthVariableValue`, with any fuel `≥ length()`, computes the list-recursive `Glue.inc` (which the
rest of the development uses): on a concrete assignment `+1` modulo `2^length()` (`Glue.toNum_inc`). -/
theorem C08_symbol_inc_as_coded (a : Asgn) :
    incCoded a = Glue.inc a ∧
    (∀ fuel, a.length ≤ fuel → incLoop (fun i => decide (i < length a)) fuel 0 a = Glue.inc a) ∧
    (isConcrete a = true → toNum (incCoded a) = (toNum a + 1) % 2 ^ a.length) :=
  ⟨incCoded_eq a, incCoded_fuel a, fun h => by rw [incCoded_eq]; exact toNum_inc a h⟩

example : incCoded [some true, some true, some false, some true] = [some false, some false, some true, some true] := by
  decide

/-- **the codes are distinct.**  Iterating `++` (as coded) from the all-zero assignment of `n` variables: the `k`-th value
is the binary code of `k` (variable 0 = least significant bit), the first `2^n` values handed out are exactly the `2^n` codes
`bitsLE n 0, …, bitsLE n (2^n - 1)`, pairwise distinct, and two of the counter values agree only when the numbers of
increments agree modulo `2^n` (so the first return to `0…0` is the `2^n`-th increment). -/
theorem C08_symbol_codes_distinct (n : Nat) :
    (∀ k, iter incCoded k (zero n) = bitsLE n k) ∧
    handOut incCoded (2 ^ n) (zero n) = (List.range (2 ^ n)).map (bitsLE n) ∧
    (handOut incCoded (2 ^ n) (zero n)).Nodup ∧
    (∀ j k, iter incCoded j (zero n) = iter incCoded k (zero n) ↔ j % 2 ^ n = k % 2 ^ n) := by
  rw [incCoded_eq_inc]
  refine ⟨iter_inc_zero n, handOut_inc n _, handOut_inc_nodup n _ (Nat.le_refl _), fun j k => ?_⟩
  rw [iter_inc_zero, iter_inc_zero]
  constructor
  · intro h
    have := congrArg toNum h
    rwa [toNum_bitsLE, toNum_bitsLE] at this
  · intro h
    rw [← bitsLE_mod n j, ← bitsLE_mod n k, h]

example : handOut incCoded 4 (zero 2) =
    [[some false, some false], [some true, some false], [some false, some true], [some true, some true]] := by decide

/-- **the first `2^16` names of an alphabet get distinct codes** (the alphabet as coded: `AlphaC`, `nextSymbol_++` with the
index-loop increment).  `fs` are the distinct new names in the order the loads meet them.  The translator with the as-coded
increment is the existing `AlphaC.tr`; the fresh alphabet is `initW 16`; afterwards the dictionary pairs the `i`-th name with
`symAsgn i`, the counter is `symAsgn |fs|`, translating the `i`-th name again gives `symAsgn i` and leaves the alphabet
alone, and **two names with one code are one name**.
Hypotheses: `fs.Nodup` (a name met again is found by `find`, it does not step the counter); `|fs| ≤ 2^16` is needed, see
`C08_symbol_codes_distinct_dict_sharp` / `C08_load_alphabet_wraps`. -/
theorem C08_symbol_codes_distinct_alphabet (fs : List String) (hn : fs.Nodup) (hl : fs.length ≤ 2 ^ 16) :
    trWith incCoded = AlphaC.tr ∧ AlphaC.init = some (initW 16) ∧
    (trsWith incCoded (initW 16) fs).dict = fs.zip ((List.range fs.length).map symAsgn) ∧
    (trsWith incCoded (initW 16) fs).next = symAsgn fs.length ∧
    (∀ i (hi : i < fs.length), AlphaC.tr (trsWith incCoded (initW 16) fs) fs[i] =
      (symAsgn i, trsWith incCoded (initW 16) fs)) ∧
    (∀ f g c, (f, c) ∈ (trsWith incCoded (initW 16) fs).dict → (g, c) ∈ (trsWith incCoded (initW 16) fs).dict → f = g) := by
  rw [incCoded_eq_inc]
  obtain ⟨hd, hx⟩ := trsWith_init_dict Glue.inc 16 fs hn
  have hcodes : handOut Glue.inc fs.length (zero 16) = (List.range fs.length).map symAsgn := by
    rw [handOut_inc]
    exact List.map_congr_left (fun k _ => (symAsgn_eq_bitsLE k).symm)
  refine ⟨trWith_inc, initW_16, ?_, ?_, ?_, ?_⟩
  · rw [hd, hcodes]
  · rw [hx, iter_inc_zero, symAsgn_eq_bitsLE]
  · intro i hi
    rw [← trWith_inc, trWith_known Glue.inc 16 fs hn i hi, iter_inc_zero, symAsgn_eq_bitsLE]
  · intro f g c h1 h2
    rw [hd] at h1 h2
    exact zip_right_inj (handOut_inc_nodup 16 _ hl) h1 h2

example : (trsWith incCoded (initW 16) ["a", "f", "g"]).dict =
    [("a", symAsgn 0), ("f", symAsgn 1), ("g", symAsgn 2)] ∧ ["a", "f", "g"].Nodup ∧ ["a", "f", "g"].length ≤ 2 ^ 16 := by
  decide

/-- **the same on the dictionary the load model uses** (`BddLoad.SymDict`: name ↦ allocation number, the stored code of
number `k` is `symAsgn k`; invariant `Dict.Ok`, kept by every load: `C08_load_numbering`): as long as the alphabet holds
at most `2^16` names, two names whose codes agree are the same name. -/
theorem C08_symbol_codes_distinct_dict (yd : BddLoad.SymDict) (hyd : yd.Ok) (hlen : yd.length ≤ symbolCodes)
    (a b : String) (ka kb : Nat) (ha : (a, ka) ∈ yd) (hb : (b, kb) ∈ yd) (hc : symAsgn ka = symAsgn kb) : a = b := by
  have h1 : ka < yd.length := hyd.mem_vals.mp (List.mem_map.mpr ⟨_, ha, rfl⟩)
  have h2 : kb < yd.length := hyd.mem_vals.mp (List.mem_map.mpr ⟨_, hb, rfl⟩)
  have e : ka = kb := symAsgn_inj (Nat.lt_of_lt_of_le h1 hlen) (Nat.lt_of_lt_of_le h2 hlen) hc
  subst e
  exact hyd.injective.1 a b ka (hyd.fwd_iff.mpr ha) (hyd.fwd_iff.mpr hb)

example : (fillAlphabet 3).Ok ∧ (fillAlphabet 3).length ≤ symbolCodes ∧ ("z", 1) ∈ fillAlphabet 3 :=
  ⟨fillAlphabet_ok 3, by decide, by decide⟩

/-- the hypothesis `yd.length ≤ 2^16` of `C08_symbol_codes_distinct_dict` cannot be dropped: with `2^16 + 1` names the
first and the last have one code (this is the existing finding `C08_load_alphabet_wraps`). -/
theorem C08_symbol_codes_distinct_dict_sharp :
    ∃ (yd : BddLoad.SymDict) (a b : String) (ka kb : Nat), yd.Ok ∧ yd.length = symbolCodes + 1 ∧ (a, ka) ∈ yd ∧
      (b, kb) ∈ yd ∧ symAsgn ka = symAsgn kb ∧ a ≠ b := by
  refine ⟨fillAlphabet (symbolCodes + 1), "", String.ofList (List.replicate symbolCodes 'z'), 0, symbolCodes,
    fillAlphabet_ok _, by simp [fillAlphabet], ?_, ?_, ?_, ?_⟩
  · exact List.mem_map.mpr ⟨0, List.mem_range.mpr (by decide), rfl⟩
  · exact List.mem_map.mpr ⟨symbolCodes, List.mem_range.mpr (by decide), rfl⟩
  · have := symAsgn_wrap 0
    rw [Nat.zero_add] at this
    exact this.symm
  · intro e
    have := congrArg (fun s => s.toList.length) e
    simp only [String.toList_ofList, List.length_replicate] at this
    exact absurd this (by decide)

/-- **the seeded loop bound `i + 1 < length()`: the carry never reaches the top variable.**  On `n ≥ 1` variables the seeded
`++` increments the `n - 1` low variables and leaves the top one alone (`incNoTopCarry (low ++ [top]) = inc low ++ [top]`),
so from `0…0` the `k`-th value is the code of `k` on `n - 1` variables followed by `ZERO`; the counter has period
`2^(n-1)`: the `2^(n-1)`-th increment returns to `0…0`, the assignment handed out first.  The first `2^(n-1)` values handed
out are still distinct (the defect shows exactly at the `(2^(n-1)+1)`-th symbol), any longer run repeats. -/
theorem C08_symbol_codes_no_top_carry_repeat (n : Nat) (hn : 1 ≤ n) :
    (∀ (low : Asgn) (top : Val), incNoTopCarry (low ++ [top]) = Glue.inc low ++ [top]) ∧
    (∀ k, iter incNoTopCarry k (zero n) = bitsLE (n - 1) k ++ [some false]) ∧
    iter incNoTopCarry (2 ^ (n - 1)) (zero n) = zero n ∧
    (∀ k, iter incNoTopCarry (k + 2 ^ (n - 1)) (zero n) = iter incNoTopCarry k (zero n)) ∧
    (handOut incNoTopCarry (2 ^ (n - 1)) (zero n)).Nodup ∧
    (∀ m, 2 ^ (n - 1) < m → ¬ (handOut incNoTopCarry m (zero n)).Nodup) := by
  obtain ⟨n, rfl⟩ : ∃ n', n = n' + 1 := ⟨n - 1, by omega⟩
  simp only [Nat.add_sub_cancel]
  refine ⟨incNoTopCarry_snoc, iter_noTop_zero n, ?_, iter_noTop_period n, handOut_noTop_nodup n _ (Nat.le_refl _),
    fun m hm => handOut_noTop_not_nodup n m hm⟩
  have := iter_noTop_period n 0
  rw [Nat.zero_add] at this
  exact this

/-- `n = 4` by evaluation: the 8th increment of the seeded counter is `0000` again, 9 symbols do not get 9 codes – while
the loop as coded hands out 16 distinct codes and returns to `0000` with the 16th increment only. -/
theorem C08_symbol_codes_no_top_carry_n4 :
    iter incNoTopCarry 8 (zero 4) = zero 4 ∧
    (handOut incNoTopCarry 9 (zero 4))[8]? = (handOut incNoTopCarry 9 (zero 4))[0]? ∧
    ¬ (handOut incNoTopCarry 9 (zero 4)).Nodup ∧
    (handOut incCoded 16 (zero 4)).Nodup ∧ iter incCoded 8 (zero 4) ≠ zero 4 ∧ iter incCoded 16 (zero 4) = zero 4 := by
  decide

/-- **two names with one code.**  The alphabet as coded with the seeded increment, on `n ≥ 1` variables (`n = 16` in the
library): among `2^(n-1) + 1` (or more) distinct names the first and the `(2^(n-1)+1)`-th are different names, both are in the
dictionary with the code `0…0`, and the translator returns `0…0` for both – the rules of the two symbols are stored under
one code, and a dump (which asks the table for every name's code) prints each of them under both names. -/
theorem C08_symbol_codes_no_top_carry_two_names (n : Nat) (hn : 1 ≤ n) (fs : List String) (hnd : fs.Nodup)
    (hl : 2 ^ (n - 1) < fs.length) :
    fs[0]'(Nat.lt_of_le_of_lt (Nat.zero_le _) hl) ≠ fs[2 ^ (n - 1)] ∧
    (fs[0]'(Nat.lt_of_le_of_lt (Nat.zero_le _) hl), zero n) ∈ (trsWith incNoTopCarry (initW n) fs).dict ∧
    (fs[2 ^ (n - 1)], zero n) ∈ (trsWith incNoTopCarry (initW n) fs).dict ∧
    (trWith incNoTopCarry (trsWith incNoTopCarry (initW n) fs) (fs[0]'(Nat.lt_of_le_of_lt (Nat.zero_le _) hl))).1 = zero n ∧
    (trWith incNoTopCarry (trsWith incNoTopCarry (initW n) fs) fs[2 ^ (n - 1)]).1 = zero n := by
  have hp : 0 < 2 ^ (n - 1) := Nat.pow_pos (by decide)
  have h0 : 0 < fs.length := by omega
  have hper : iter incNoTopCarry (2 ^ (n - 1)) (zero n) = zero n := (C08_symbol_codes_no_top_carry_repeat n hn).2.2.1
  have m0 := trsWith_init_mem incNoTopCarry n fs hnd 0 h0
  have m1 := trsWith_init_mem incNoTopCarry n fs hnd _ hl
  have k0 := trWith_known incNoTopCarry n fs hnd 0 h0
  have k1 := trWith_known incNoTopCarry n fs hnd _ hl
  rw [hper] at m1 k1
  refine ⟨?_, m0, m1, by rw [k0]; rfl, by rw [k1]⟩
  intro e
  have := (List.getElem_inj hnd).mp e
  omega

/-- the instance `n = 16` (the library): the 32 769th symbol name gets the code of the first -/
theorem C08_symbol_codes_no_top_carry_two_names_16 (fs : List String) (hnd : fs.Nodup) (hl : 32768 < fs.length) :
    fs[0]'(by omega) ≠ fs[32768] ∧
    (trWith incNoTopCarry (trsWith incNoTopCarry (initW 16) fs) (fs[0]'(by omega))).1 = zero 16 ∧
    (trWith incNoTopCarry (trsWith incNoTopCarry (initW 16) fs) fs[32768]).1 = zero 16 := by
  have := C08_symbol_codes_no_top_carry_two_names 16 (by decide) fs hnd hl
  exact ⟨this.1, this.2.2.2.1, this.2.2.2.2⟩

/-- `n = 4`, nine names, evaluated: `s0` and `s8` share the code `0000` under the seeded increment; under the increment as
coded the nine codes are distinct. -/
example :
    (trsWith incNoTopCarry (initW 4) ["s0", "s1", "s2", "s3", "s4", "s5", "s6", "s7", "s8"]).dict.lookup "s8" =
      some (zero 4) ∧
    (trsWith incNoTopCarry (initW 4) ["s0", "s1", "s2", "s3", "s4", "s5", "s6", "s7", "s8"]).dict.lookup "s0" =
      some (zero 4) ∧
    ((trsWith incCoded (initW 4) ["s0", "s1", "s2", "s3", "s4", "s5", "s6", "s7", "s8"]).dict.map (·.2)).Nodup := by
  decide

/-!
## still not proved

* The consequence of the seeded variant is proved on the alphabet as coded (`AlphaC` / `trWith`): two names, one code.  That
  `dump (load (text))` then invents rules is NOT re-proved for the variant: the load/dump model `Vata/BddLoad.lean` reads
  the code of the allocation number `k` as `symAsgn k` (the increment is not a parameter there), so the existing
  `C08_load_alphabet_wraps` (aliasing ⇒ a dumped transition the description does not have, both encodings) speaks about
  the wrap at `2^16`; for the variant the same argument would start at `2^15` names, with `symAsgn (k % 2^15)` in place of
  `symAsgn k`.
* The packed representation: `incLoop` works on the list of values through `Glue.get` / `Glue.set`; that the bytes of
  `vars_` refine these (`GetIthVariableValue`, `SetIthVariableValue` on two-bit fields) is `Vata/Proofs/GluePacked.lean`
  (`setRaw_refines`), not composed here into a statement about `incLoop` on `Glue.Packed`.
* `operator++` on an assignment with `DONT_CARE` values (outside the contract; the alphabet never produces one) is modelled
  (the loop goes on) but only `incCoded = Glue.inc` is stated about it.
-/
end Vata.Props
