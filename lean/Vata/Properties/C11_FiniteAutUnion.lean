import Vata.Proofs.CowHeapFAUnion
import Vata.Proofs.CowHeapFAIsect
import Vata.Properties.C11_FiniteAutCand
import Vata.Properties.C10_CliPipeline
import Vata.Properties.C10_Coded
/-!
# C11 / C10 (finite automata) – `Union` through the heap model is `nfasUnionWith`; histories with `Union` blocks

> C11: After an explicit tree or finite automaton is copied, assigned or moved, any later modification of one object is never
> visible through another object, and automata returned by operations stay unchanged when their operands are modified or
> destroyed afterwards.
>
> C10 (the part used): the language of `Union(a, b)` is the union of the languages of `a` and `b`.

`C11_FiniteAutDenote.lean` / `C11_FiniteAutCand.lean` end with: "`Union(lhs, rhs)` = `unionOps` is covered step by step (`new`,
`reindex`, `reindex`); that the result is `nfasUnionWith fA fB a b` up to `NEquiv` is not stated as a theorem."  This file
states and proves it, links it to the coded `Union` of `Vata/NfaLoadDump.lean` (`nfaUnionCoded`: two weak translators, one
counter), and extends the fold theorem `C11_fa_history_fold` to histories that contain `Union` blocks.

## how the C++ is read into the model

Nothing new is modelled.  `src/explicit_finite_union.cc`:

```
ExplicitFiniteAutCore res;                       // Op.new dst
lhs.ReindexStates(res, stateTransLhs);           // Op.reindex a dst fA
rhs.ReindexStates(res, stateTransRhs);           // Op.reindex b dst fB
return res;
```

is the operation list `unionOps a b dst fA fB` of `Vata/CowHeapFA.lean`, run by the heap model `step` (so `ReindexStates`
calls `uniqueClusterMap()` once and `uniqueCluster(index[q])` per source cluster, as quoted there).  The translators are the
functions `fA`, `fB`; for the coded ones (`StateToStateTranslWeak` over a map, fresh numbers from ONE shared counter) they are
`applyMap` of the maps `unionMaps A B pL pR` that `nfaUnionCodedOrd` reports, the states being visited in the container order
of the VALUES (`nfaVisitOrder`: `finalStates_`, `startStates_`, then sources / targets of the transitions in iteration order).
`vUnion fA fB A B = vReindex fB B (vReindex fA A vNew)` is the value left in `res`.

A block history `List Blk` (a `Blk` is one operation or one `Union` call) is run as the operation list `blkOps bs`
(`execB bs = exec (blkOps bs)`): a `Union` block is NOT a new primitive of the heap model, it is its three operations.

`Intersection` (`src/explicit_finite_isect.cc`) is read as in `Vata/NfaOpsCoded.lean` (`isectInit` / `isectBody` / `isectLoop`,
variant `.fixed`: `ProductTranslMap` with `size()` as the fresh number, the work stack, the iteration orders `o : NfaOrd`); the
SAME control flow is run a second time with the writes to the local `res` recorded instead of performed
(`Vata/CowHeapFAIsect.lean`: `trInit` / `trBody` / `trLoop`, `ResW.start` = `res.SetExistingStateStart`, `ResW.final` =
`res.SetStateFinal`, `ResW.add` = `transitions->uniqueCluster(n)->uniqueRStateSet(a).insert(k)`), which makes `Intersection`
the operation list `isectOps o A B dst t` of the heap model: `new t`, the writes as `setExistingStart` / `setFinal` / `add`
steps on `t` in the order the C++ makes them, `useless t dst` (`return res.RemoveUselessStates();`), `destroy t`.

## what is abstracted

In `isectOps` every transition write is an `add` step, i.e. `uniqueClusterMap()->uniqueCluster(n)->uniqueRStateSet(a).insert(k)`;
the C++ `Intersection` takes `transitions = res.transitions_` once and calls `uniqueCluster(n)` on it WITHOUT
`uniqueClusterMap()`, and `uniqueCluster(n)` / `uniqueRStateSet(a)` once per popped pair / common symbol rather than once per
inserted target.  On the private map of the fresh `res` these are the same heap actions up to the no-op `uniqueClusterMap()` and
repeated look-ups; the heap model has no step "write through a cluster pointer obtained earlier", so this is not a theorem.
The operands of `Intersection` are only READ (`lhs.startStates_`, `genericLookup(*lhs.transitions_, …)`): they enter `isectOps`
as their values `A`, `B`; there is no heap step for a read.

As in `C11_FiniteAut.lean` / `C11_FiniteAutDenote.lean`.  `return res;` is the handle `dst` itself (copy elision; with a copy
it would be `copy` + `destroy`, which the fold theorem also covers as single operations).  The translators are total functions;
that the weak translator of the C++ is only asked for states of its operand is visible in `unionMaps` (the visiting order).
-/
namespace Vata.Props
open Vata Vata.W
open Vata.CowHeapFA Vata.NfaC
open Vata.CowHeap (upd)

/-! ### 1. `Union` as one step -/

/-- **`Union` through the heap model yields `nfasUnionWith`.**  After ANY history `ops` in which `a`, `b` are live (values `A`,
`B`) and `dst` is not, the block `new dst; reindex a dst fA; reindex b dst fB` leaves in `dst` the value `vUnion fA fB A B`,
which denotes – up to list order (`NEquiv`) and for ANY translators – `nfasUnionWith fA fB A B`; and for the maps
`unionMaps A B pL pR` the coded translators report (absent / empty / pre-filled caller maps) it denotes
`(nfaUnionCoded A B pL pR).1`. -/
theorem C11_fa_denote_union (ops : List Op) (a b dst : Nat) (fA fB : Nat → Nat) (A B : FAVal)
    (ha : absFA (exec ops) a = some A) (hb : absFA (exec ops) b = some B) (hd : absFA (exec ops) dst = none) :
    absFA (exec (ops ++ unionOps a b dst fA fB)) dst = some (vUnion fA fB A B) ∧
    NEquiv (vUnion fA fB A B).toNFAS (nfasUnionWith fA fB A.toNFAS B.toNFAS) ∧
    ∀ pL pR, NEquiv (vUnion (applyMap (unionMaps A B pL pR).1) (applyMap (unionMaps A B pL pR).2) A B).toNFAS
      (nfaUnionCoded A.toNFAS B.toNFAS pL pR).1 := by
  have wA := (envWF_history ops a A ha).tup
  have wB := (envWF_history ops b B hb).tup
  refine ⟨?_, vUnion_denote fA fB A B wA wB, fun pL pR => vUnion_nfaUnionCoded A B pL pR wA wB⟩
  rw [fa_union_block ops a b dst fA fB A B ha hb hd]
  exact CowHeap.upd_same _ _ _

/-- the value-level statement alone (any values that are container contents; no history) -/
theorem C11_fa_denote_union_value (fA fB : Nat → Nat) (A B : FAVal) (hA : TuplesOk A.trans) (hB : TuplesOk B.trans) :
    NEquiv (vUnion fA fB A B).toNFAS (nfasUnionWith fA fB A.toNFAS B.toNFAS) :=
  vUnion_denote fA fB A B hA hB

/-- **the language read through the result of `Union` is the union**, for translators injective on the states of their
operand with disjoint images (all three are needed: `C10_unionWith_exact`); and every start state of either operand carries,
under its new number, its own start symbols -/
theorem C11_fa_union_lang (ops : List Op) (a b dst : Nat) (fA fB : Nat → Nat) (A B : FAVal)
    (ha : absFA (exec ops) a = some A) (hb : absFA (exec ops) b = some B) (hd : absFA (exec ops) dst = none)
    (hiA : NfaInjOn fA (nfaStates A.toNFA)) (hiB : NfaInjOn fB (nfaStates B.toNFA))
    (hdis : ∀ p, p ∈ nfaStates A.toNFA → ∀ q, q ∈ nfaStates B.toNFA → fA p ≠ fB q) :
    (∀ w, langOf (den (absFA (exec (ops ++ unionOps a b dst fA fB)))) dst w =
      some (acceptsW A.toNFA w || acceptsW B.toNFA w)) ∧
    (∀ s, s ∈ A.mem.start → (vUnion fA fB A B).toNFAS.symsOf (fA s) = A.toNFAS.symsOf s) ∧
    (∀ s, s ∈ B.mem.start → (vUnion fA fB A B).toNFAS.symsOf (fB s) = B.toNFAS.symsOf s) := by
  obtain ⟨h1, h2, _⟩ := C11_fa_denote_union ops a b dst fA fB A B ha hb hd
  have wA := (envWF_history ops a A ha).tup
  have wB := (envWF_history ops b B hb).tup
  refine ⟨fun w => ?_, fun s hs => ?_, fun s hs => ?_⟩
  · simp only [langOf, den, h1, Option.map_some]
    exact congrArg some (vUnion_lang fA fB A B wA wB hiA hiB hdis w)
  · rw [h2.symsOf]
    exact Vata.nfasUnionWith_symsOf_left fA fB A.toNFAS B.toNFAS hs
      (fun p hp he => hiA p (start_mem_nfaStates hp) s (start_mem_nfaStates hs) he)
  · rw [h2.symsOf]
    exact Vata.nfasUnionWith_symsOf_right fA fB A.toNFAS B.toNFAS hs
      (fun p hp he => hiB p (start_mem_nfaStates hp) s (start_mem_nfaStates hs) he)
      (fun p hp => hdis p (start_mem_nfaStates hp) s (start_mem_nfaStates hs))

/-- **`Union` with the CODED translators** (caller maps absent, empty, or pre-filled injectively with disjoint images): the
hypotheses of `C11_fa_union_lang` hold by construction – the language read through the result is the union -/
theorem C11_fa_union_coded_lang (ops : List Op) (a b dst : Nat) (A B : FAVal) (pL pR : Option SMap)
    (ha : absFA (exec ops) a = some A) (hb : absFA (exec ops) b = some B) (hd : absFA (exec ops) dst = none)
    (hL : Um.Inj (pL.getD [])) (hR : Um.Inj (pR.getD [])) (hD : Um.Disj (pL.getD []) (pR.getD [])) (w : List Nat) :
    langOf (den (absFA (exec (ops ++ unionOpsCoded a b dst A B pL pR)))) dst w =
      some (acceptsW A.toNFA w || acceptsW B.toNFA w) := by
  obtain ⟨h1, _, h3⟩ := C11_fa_denote_union ops a b dst (applyMap (unionMaps A B pL pR).1)
    (applyMap (unionMaps A B pL pR).2) A B ha hb hd
  show langOf (den (absFA (exec (ops ++ unionOps a b dst _ _)))) dst w = _
  simp only [langOf, den, h1, Option.map_some]
  refine congrArg some (((h3 pL pR).lang w).trans ?_)
  exact (C10_union_coded_lang A.toNFAS B.toNFAS pL pR hL hR hD).1 w

/-- **isolation of `Union`**: the block changes no other handle (in particular the operands keep their values), and whatever
is done afterwards to other handles – operands modified or destroyed – the result keeps its value, hence its automaton and
language -/
theorem C11_fa_union_isolated (ops : List Op) (a b dst : Nat) (fA fB : Nat → Nat) (A B : FAVal)
    (ha : absFA (exec ops) a = some A) (hb : absFA (exec ops) b = some B) (hd : absFA (exec ops) dst = none) :
    (∀ x, x ≠ dst → absFA (exec (ops ++ unionOps a b dst fA fB)) x = absFA (exec ops) x) ∧
    absFA (exec (ops ++ unionOps a b dst fA fB)) a = some A ∧ absFA (exec (ops ++ unionOps a b dst fA fB)) b = some B ∧
    ∀ later : List Op, (∀ op, op ∈ later → dst ≠ target op) →
      absFA (exec ((ops ++ unionOps a b dst fA fB) ++ later)) dst = some (vUnion fA fB A B) := by
  have e := fa_union_block ops a b dst fA fB A B ha hb hd
  have hx : ∀ x, x ≠ dst → absFA (exec (ops ++ unionOps a b dst fA fB)) x = absFA (exec ops) x := by
    intro x hx; rw [e]; exact CowHeap.upd_other _ _ hx
  have had : a ≠ dst := fun h => by rw [h, hd] at ha; cases ha
  have hbd : b ≠ dst := fun h => by rw [h, hd] at hb; cases hb
  refine ⟨hx, (hx a had).trans ha, (hx b hbd).trans hb, fun later hl => ?_⟩
  rw [C11_fa_result_keeps_value _ later dst hl, e]
  exact CowHeap.upd_same _ _ _

namespace UnionEx
/-- two objects (the first ten operations of `faOps`), their `Union` into handle 3 with the translators `q ↦ q` and
`q ↦ q + 100`, then the left operand is modified and the right one destroyed -/
def pre : List Op := faOps.take 10
def fA : Nat → Nat := fun q => q
def fB : Nat → Nat := fun q => q + 100
def vA : FAVal := ⟨⟨[2], [0], [(0, [7])]⟩, [(0, [(5, [[1]])]), (1, [(6, [[2]])]), (3, [(5, [[0]])])]⟩
def vB : FAVal := ⟨⟨[11], [10], [(10, [7])]⟩, [(10, [(5, [[11]])])]⟩
end UnionEx

/-- non-vacuity: the hypotheses of `C11_fa_denote_union` / `C11_fa_union_lang` / `C11_fa_union_isolated` hold -/
example : absFA (exec UnionEx.pre) 1 = some UnionEx.vA ∧ absFA (exec UnionEx.pre) 2 = some UnionEx.vB ∧
    absFA (exec UnionEx.pre) 3 = none := by decide +kernel
example : NfaInjOn UnionEx.fA (nfaStates UnionEx.vA.toNFA) ∧ NfaInjOn UnionEx.fB (nfaStates UnionEx.vB.toNFA) ∧
    ∀ p, p ∈ nfaStates UnionEx.vA.toNFA → ∀ q, q ∈ nfaStates UnionEx.vB.toNFA → UnionEx.fA p ≠ UnionEx.fB q := by
  refine ⟨fun p _ q _ e => e, fun p _ q _ e => Nat.add_right_cancel e, ?_⟩
  decide +kernel
/-- … and the block computes: the result accepts `[5, 6]` (from object 1) and `[5]` (from object 2) and keeps doing so after
`1 -6-> 0` was added to object 1 and object 2 was destroyed -/
example :
    langOf (den (absFA (exec (UnionEx.pre ++ unionOps 1 2 3 UnionEx.fA UnionEx.fB)))) 3 [5, 6] = some true ∧
    langOf (den (absFA (exec (UnionEx.pre ++ unionOps 1 2 3 UnionEx.fA UnionEx.fB)))) 3 [5] = some true ∧
    langOf (den (absFA (exec ((UnionEx.pre ++ unionOps 1 2 3 UnionEx.fA UnionEx.fB) ++ [.add 1 1 6 0, .destroy 2])))) 3 [5]
      = some true ∧
    (vUnion UnionEx.fA UnionEx.fB UnionEx.vA UnionEx.vB).toNFAS.trans =
      [(0, 5, 1), (1, 6, 2), (3, 5, 0), (110, 5, 111)] := by decide +kernel
/-- the coded translators number the states `0, 1, …` in visiting order with one counter -/
example : unionMaps UnionEx.vA UnionEx.vB none (some []) = ([(2, 0), (0, 1), (1, 2), (3, 3)], [(11, 4), (10, 5)]) ∧
    (vUnion (applyMap (unionMaps UnionEx.vA UnionEx.vB none (some [])).1)
      (applyMap (unionMaps UnionEx.vA UnionEx.vB none (some [])).2) UnionEx.vA UnionEx.vB).toNFAS.trans =
      [(1, 5, 2), (2, 6, 0), (3, 5, 1), (5, 5, 4)] := by decide +kernel

/-- **the liveness hypotheses are needed**: with a LIVE target the three operations are not `Union` (the first is a no-op, the
other two reindex into the existing object): the final state 9 of the old object 3 survives -/
theorem C11_fa_denote_union_needs_dead_target :
    let ops : List Op := [.new 1, .setFinal 1 0, .new 3, .setFinal 3 9]
    absFA (exec ops) 3 ≠ none ∧
    (absFA (exec (ops ++ unionOps 1 1 3 (fun q => q) (fun q => q + 1)) ) 3).map (fun v => v.mem.final) = some [9, 0, 1] ∧
    (vUnion (fun q => q) (fun q => q + 1) ⟨⟨[0], [], []⟩, []⟩ ⟨⟨[0], [], []⟩, []⟩).mem.final = [0, 1] := by decide +kernel

/-! ### 3. whole histories with `Union` blocks -/

/-- `Union` respects "the same up to list order" when each translator is injective on the START states of its operand
(needed: `C11_fa_denote_congr_map_needs_inj`) -/
theorem C11_fa_denote_congr_union (fA fB : Nat → Nat) {A A' B B' : NFAS} (h : NEquiv A A') (h' : NEquiv B B')
    (hA : NfaInjOn fA A.start) (hB : NfaInjOn fB B.start) :
    NEquiv (nfasUnionWith fA fB A B) (nfasUnionWith fA fB A' B') :=
  Vata.CowHeapFA.nfasUnionWith_congr fA fB h h' hA hB

/-- **one equation for a whole history with `Union` blocks.**  For every block list in which every block satisfies `BlkOk` in
the state it is executed in – a single operation: `FoldOk` (as in `C11_fa_history_fold`); a `Union` block: the operands are
live, the target is not, each translator is injective on the start states of its operand – the automata denoted by the live
handles after running the operation list `blkOps bs` in the heap model are, handle by handle and up to list order, the fold
of `denBlk` (= `denStep` for single operations, `nfasUnionWith` into the target for `Union` blocks) over the block list,
started with no object; liveness agrees and so does the language read through every handle. -/
theorem C11_fa_history_fold_blocks (bs : List Blk)
    (hok : ∀ n (h : n < bs.length), BlkOk (absFA (execB (bs.take n))) bs[n]) :
    EnvEq (den (absFA (execB bs))) (bs.foldl denBlk den0) ∧
    ∀ h w, langOf (den (absFA (execB bs))) h w = langOf (bs.foldl denBlk den0) h w :=
  ⟨fa_history_fold_blocks bs hok, fun h w => (fa_history_fold_blocks bs hok).lang h w⟩

/-- it extends `C11_fa_history_fold`: a block list of single operations runs the same operation list and folds the same
function -/
theorem C11_fa_history_fold_blocks_ops (ops : List Op) :
    execB (ops.map Blk.op) = exec ops ∧ ∀ e, (ops.map Blk.op).foldl denBlk e = ops.foldl denStep e :=
  ⟨by unfold execB; rw [blkOps_map_op], foldl_denBlk_ops ops⟩

namespace UnionEx
/-- two objects, their `Union`, a later write to an operand, `RemoveUselessStates` of the union, the other operand destroyed -/
def blocks : List Blk :=
  [.op (.new 1), .op (.setStart 1 0 7), .op (.add 1 0 5 1), .op (.setFinal 1 1),
   .op (.new 2), .op (.setStart 2 0 8), .op (.add 2 0 6 0), .op (.setFinal 2 0),
   .union 1 2 3 fA fB, .op (.add 1 1 5 1), .op (.useless 3 4), .op (.destroy 2)]
end UnionEx

/-- the hypotheses of `C11_fa_history_fold_blocks` hold for `UnionEx.blocks` -/
example : ∀ n (h : n < UnionEx.blocks.length), BlkOk (absFA (execB (UnionEx.blocks.take n))) UnionEx.blocks[n] := by
  intro n h
  match n, h with
  | 0, _ => trivial
  | 1, _ => trivial
  | 2, _ => trivial
  | 3, _ => trivial
  | 4, _ => trivial
  | 5, _ => trivial
  | 6, _ => trivial
  | 7, _ => trivial
  | 8, _ =>
    refine ⟨⟨⟨⟨[1], [0], [(0, [7])]⟩, [(0, [(5, [[1]])])]⟩, by decide +kernel, fun p _ q _ e => e⟩,
      ⟨⟨⟨[0], [0], [(0, [8])]⟩, [(0, [(6, [[0]])])]⟩, by decide +kernel, fun p _ q _ e => Nat.add_right_cancel e⟩, by decide +kernel⟩
  | 9, _ => trivial
  | 10, _ => trivial
  | 11, _ => trivial
  | n + 12, h => exact absurd h (by simp [UnionEx.blocks])

/-- … and the fold computes: handle 3 accepts the words of both operands as they were at the `Union`, not the later `[5, 5]` -/
example : langOf (UnionEx.blocks.foldl denBlk den0) 3 [5] = some true ∧
    langOf (UnionEx.blocks.foldl denBlk den0) 3 [6, 6] = some true ∧
    langOf (UnionEx.blocks.foldl denBlk den0) 3 [5, 5] = some false ∧
    langOf (UnionEx.blocks.foldl denBlk den0) 1 [5, 5] = some true ∧
    langOf (UnionEx.blocks.foldl denBlk den0) 4 [6] = some true ∧
    langOf (UnionEx.blocks.foldl denBlk den0) 2 [] = none ∧
    langOf (den (absFA (execB UnionEx.blocks))) 4 [6] = some true := by decide +kernel

/-! ### 2. `Intersection` as a block of operations -/

/-- **the recorded writes of `Intersection` replay to `res`.**  For every iteration order the recording run ends on the fuel
`isectFuel` exactly as the run of `NfaOpsCoded.lean` does (totality: never out of fuel), with the same translation map and an
empty stack, and its writes – `isectWrites` – replayed on the empty automaton give the `res` of `nfasIsectCodedRaw` up to list
order (`stateSet.insert` is a set insertion, `nfasAddTrans` appends). -/
theorem C11_fa_isect_trace {o : NfaOrd} (ho : o.Ok) (A B : NFAS) :
    ∃ st tr, nfasIsectCodedRaw o .fixed A B (NfaC.isectFuel o .fixed A B) = some st ∧
      trLoop o A B (NfaC.isectFuel o .fixed A B) (trInit o A B) = some tr ∧
      st.tm = tr.tm ∧ tr.stack = [] ∧ isectWrites o A B = tr.ws ∧ NEquiv (replay (isectWrites o A B)) st.res := by
  obtain ⟨st, tr, h1, h2, hs, hw⟩ := isect_trace_total ho A B
  refine ⟨st, tr, h1, h2, hs.tm, ?_, hw, hw ▸ hs.res⟩
  rw [← hs.stack]
  exact (nfasIsectCodedRaw_spec ho A B _ st h1).1

/-- **`Intersection` through the heap model.**  After ANY history in which `a`, `b` are live (values `A`, `B`) and `dst` and
the local `t` are two different dead handles, the block `isectOps o A B dst t` – `new t`, the writes of `Intersection` in the
order `nfasIsectCoded` makes them, `useless t dst`, `destroy t` – leaves in `dst` the value `vIsect o A B`; `t` is dead again;
every other handle, in particular the operands, reads what it read before.  The value denotes – up to list order –
`nfasRemoveUseless st.res` where `st` is the final state of `nfasIsectCodedRaw` (so that
`nfasIsectCoded o A B = (nfasUselessCoded o true st.res, st.tm)`); its language is the intersection and equals the language of
`(nfasIsectCoded o A B).1`. -/
theorem C11_fa_denote_isect {o : NfaOrd} (ho : o.Ok) (ops : List Op) (a b dst t : Nat) (A B : FAVal)
    (ha : absFA (exec ops) a = some A) (hb : absFA (exec ops) b = some B)
    (hd : absFA (exec ops) dst = none) (ht : absFA (exec ops) t = none) (hne : dst ≠ t) :
    absFA (exec (ops ++ isectOps o A B dst t)) dst = some (vIsect o A B) ∧
    absFA (exec (ops ++ isectOps o A B dst t)) t = none ∧
    (∀ x, x ≠ dst → x ≠ t → absFA (exec (ops ++ isectOps o A B dst t)) x = absFA (exec ops) x) ∧
    absFA (exec (ops ++ isectOps o A B dst t)) a = some A ∧ absFA (exec (ops ++ isectOps o A B dst t)) b = some B ∧
    (∃ st, nfasIsectCodedRaw o .fixed A.toNFAS B.toNFAS (NfaC.isectFuel o .fixed A.toNFAS B.toNFAS) = some st ∧
      nfasIsectCoded o A.toNFAS B.toNFAS = (nfasUselessCoded o true st.res, st.tm) ∧
      NEquiv (vIsect o A B).toNFAS (nfasRemoveUseless st.res)) ∧
    ∀ w, langOf (den (absFA (exec (ops ++ isectOps o A B dst t)))) dst w = some (acceptsW A.toNFA w && acceptsW B.toNFA w) ∧
      acceptsW (vIsect o A B).toNFA w = acceptsW (nfasIsectCoded o A.toNFAS B.toNFAS).1.toNFA w := by
  obtain ⟨h1, h2, h3⟩ := fa_isect_block ops o A B dst t hd ht hne
  have hx : ∀ x v, absFA (exec ops) x = some v → x ≠ dst ∧ x ≠ t := fun x v hv =>
    ⟨fun e => (by rw [e, hd] at hv; cases hv), fun e => (by rw [e, ht] at hv; cases hv)⟩
  obtain ⟨st, hst, he, _, hn⟩ := vIsect_denote ho A B
  refine ⟨h1, h2, h3, (h3 a (hx a A ha).1 (hx a A ha).2).trans ha, (h3 b (hx b B hb).1 (hx b B hb).2).trans hb,
    ⟨st, hst, he, hn⟩, fun w => ⟨?_, (vIsect_lang ho A B w).2⟩⟩
  simp only [langOf, den, h1, Option.map_some]
  exact congrArg some (vIsect_lang ho A B w).1

/-- the result of `Intersection` is isolated: later operations on other handles (operands modified, destroyed) do not change
what is read through `dst` -/
theorem C11_fa_isect_isolated (o : NfaOrd) (ops : List Op) (dst t : Nat) (A B : FAVal)
    (hd : absFA (exec ops) dst = none) (ht : absFA (exec ops) t = none) (hne : dst ≠ t)
    (later : List Op) (hl : ∀ op, op ∈ later → dst ≠ target op) :
    absFA (exec ((ops ++ isectOps o A B dst t) ++ later)) dst = some (vIsect o A B) := by
  rw [C11_fa_result_keeps_value _ later dst hl]
  exact (fa_isect_block ops o A B dst t hd ht hne).1

namespace IsectEx
/-- object 1 accepts `5⁺`, object 2 accepts `5*` -/
def pre : List Op :=
  [.new 1, .setStart 1 0 7, .add 1 0 5 1, .add 1 1 5 1, .setFinal 1 1,
   .new 2, .setStart 2 0 8, .add 2 0 5 0, .setFinal 2 0]
def vA : FAVal := ⟨⟨[1], [0], [(0, [7])]⟩, [(0, [(5, [[1]])]), (1, [(5, [[1]])])]⟩
def vB : FAVal := ⟨⟨[0], [0], [(0, [8])]⟩, [(0, [(5, [[0]])])]⟩
end IsectEx

/-- non-vacuity: the hypotheses of `C11_fa_denote_isect` hold (`dst = 3`, local `res = 9`, list order), the writes are the ones
the C++ makes, and the block computes: the result accepts `[5, 5]`, not `[]`, also after object 1 is destroyed -/
example : NfaOrd.ident.Ok ∧ absFA (exec IsectEx.pre) 1 = some IsectEx.vA ∧ absFA (exec IsectEx.pre) 2 = some IsectEx.vB ∧
    absFA (exec IsectEx.pre) 3 = none ∧ absFA (exec IsectEx.pre) 9 = none := by
  refine ⟨NfaOrd.ident_ok, ?_⟩
  decide +kernel
example : isectWrites NfaOrd.ident IsectEx.vA.toNFAS IsectEx.vB.toNFAS =
      [.start 0 [7, 8], .add 0 5 1, .final 1, .add 1 5 1] ∧
    langOf (den (absFA (exec (IsectEx.pre ++ isectOps NfaOrd.ident IsectEx.vA IsectEx.vB 3 9)))) 3 [5, 5] = some true ∧
    langOf (den (absFA (exec (IsectEx.pre ++ isectOps NfaOrd.ident IsectEx.vA IsectEx.vB 3 9)))) 3 [] = some false ∧
    langOf (den (absFA (exec ((IsectEx.pre ++ isectOps NfaOrd.ident IsectEx.vA IsectEx.vB 3 9) ++ [.destroy 1])))) 3 [5]
      = some true ∧
    absFA (exec (IsectEx.pre ++ isectOps NfaOrd.ident IsectEx.vA IsectEx.vB 3 9)) 9 = none := by decide +kernel

/-!
## still not proved

* `Intersection`: that the heap actions of the C++ (`transitions->uniqueCluster(n)` on a pointer copied once, no
  `uniqueClusterMap()`, the cluster pointer reused for all symbols of one popped pair) coincide with the `add` steps of
  `isectOps` is NOT a theorem: the heap model has no step for a write through a previously obtained map / cluster pointer.
  Proved is the level above: the SEQUENCE of writes (`isectWrites`) is the one `nfasIsectCoded` makes (`C11_fa_isect_trace`), and
  the block of `setExistingStart` / `setFinal` / `add` / `useless` / `destroy` steps run by the heap model yields
  `nfasRemoveUseless` of the coded `res` (`C11_fa_denote_isect`).
* `C11_fa_denote_isect` relates the returned value to `nfasRemoveUseless st.res` (`NEquiv`) and to `(nfasIsectCoded o A B).1` by
  LANGUAGE only; `NEquiv (vIsect o A B).toNFAS (nfasIsectCoded o A B).1` is not proved (it needs `nfasUselessCoded o true` =
  `nfasRemoveUseless` up to `NEquiv`, available only as `NfaSetEq` + `SymObsEq` – start symbols of start states – in
  `C10_coded_trim_same`).
* `C11_fa_history_fold_blocks` has `Union` blocks but no `Intersection` blocks: the product numbering depends on the iteration
  order, so a function `denIsect` on automata up to `NEquiv` does not exist (as for `GetCandidateTree`); a relational
  statement in the style of `DenStepRel` / `DenRun` (the target denotes SOME automaton with the language of the intersection)
  would follow from `C11_fa_denote_isect` but is not stated.
* `BlkOk` for a `Union` block asks that the operands are live and the target is dead (needed:
  `C11_fa_denote_union_needs_dead_target`) and that each translator is injective on the START states of its operand (needed for
  the congruence `C11_fa_denote_congr_union`: `C11_fa_denote_congr_map_needs_inj`); whether the block theorem itself could do
  without the latter is not investigated (as in `C11_FiniteAutCand.lean`).
* The iteration orders `o` of `Intersection` are a parameter (as in `C10_Coded.lean`); that the order induced by the containers
  of the values `A`, `B` is one such `o` is not stated (the theorems hold for every `o` with `o.Ok`).  For `Union` the container
  order of the values IS used (`unionMaps`).
* `GetCandidateTree` and the remaining items of `C11_FiniteAutCand.lean` are unchanged.
* As before: that `step` is a faithful transcription of the C++ is not a theorem; the link is the driver comparison of
  `CowHeapFA.run` with the real class (`CowHeapFA.run (ops ++ unionOps a b dst fA fB)` / `… ++ isectOps o A B dst t`).
-/
end Vata.Props
