import Vata.Proofs.LtsSim
/-!
# C16 – LTS simulation engine returns the greatest simulation inside a given preorder

> Given a labelled transition system, a partition of its states into blocks and a reflexive, transitive relation on the
> blocks, the computed relation contains (q, r) exactly when q and r are related by the greatest simulation that only
> relates states whose blocks are related initially; with no partition given it is the greatest simulation preorder of
> the system. The result restricted to the requested output size is reported for exactly the states below that size.

## How the statement is read into the model

Everything is in `Vata/Proofs/LtsSim.lean` (namespace `Vata.L`).

* **Specification (L0).**  `LTS` (`n` states `0..n-1`, `edges : List (src × label × dst)`; any number of labels, states
  without edges and parallel edges are expressible).  `IsSim L R`: `R` is a simulation – whenever `R q r` and
  `q -a→ q'` there is `r -a→ r'` with `R q' r'`.  "The greatest simulation that only relates states … related
  initially" is the union of all simulations contained in the initial relation `I`; this is the right-hand side of
  `C16_characterisation`.
* **Initial relation.**  `I : Rel = List (Nat × Nat)` is a relation **on states**, given as a list of pairs; it stands
  for "the blocks of `q` and `r` are related initially".  The partition and the relation on blocks of the statement are
  *not* objects of the model: the driver (`Driver/Main.lean`, `checkLts`) computes `I` from them as
  `{(q, r) | q, r < n, (block of q, block of r) ∈ block relation}`.  With no partition given `I = fullRel n`, the full
  relation on `0..n-1`.
* **Reference / model.**  `ltsSimRef L I`: naive refinement – repeatedly delete from the current relation the pairs
  that violate the transfer condition `ltsOk`, until nothing changes (`|I|+1` rounds).  It is the oracle the relation
  returned by the real `computeSimulation` is compared with.  It is NOT a model of the partition-refinement engine of
  `explicit_lts_sim.cc` (see the end of the file).  `ltsSimOut L I k = restrictRel k (ltsSimRef L I)` is what is
  expected for output size `k`.  `isLtsSimB` is the Boolean simulation test the driver runs on the reference.
-/
namespace Vata.Props
open Vata.L

/-! ### with an initial relation -/

/-- the result is a simulation, lies inside the initial relation, and contains every simulation that lies inside the
initial relation: it is the greatest simulation inside `I`.  No hypothesis on `L` or `I` (not even that `I` is a
preorder or mentions only states `< n`). -/
theorem C16_greatest_within_initial (L : LTS) (I : Rel) :
    IsSim L (RelOf (ltsSimRef L I)) ∧ (∀ p, p ∈ ltsSimRef L I → p ∈ I) ∧
    ∀ S : Nat → Nat → Prop, IsSim L S → (∀ q r, S q r → (q, r) ∈ I) → ∀ q r, S q r → (q, r) ∈ ltsSimRef L I :=
  ltsSimRef_greatest L I

-- blocks {0,1} and {2} with the identity on the blocks: 1 simulates 0 (same block) but not conversely
example : ltsSimRef exL [(0, 0), (0, 1), (1, 0), (1, 1), (2, 2)] = [(0, 0), (0, 1), (1, 1), (2, 2)] := by decide
-- a simulation inside that initial relation, as required by the third component
example : IsSim exL (RelOf [(0, 1), (2, 2)]) ∧
    (∀ q r, RelOf [(0, 1), (2, 2)] q r → (q, r) ∈ [(0, 0), (0, 1), (1, 0), (1, 1), (2, 2)]) :=
  ⟨(isLtsSimB_iff _ _).mp (by decide),
    fun q r h => (by decide : ∀ p, p ∈ [(0, 1), (2, 2)] → p ∈ [(0, 0), (0, 1), (1, 0), (1, 1), (2, 2)]) (q, r) h⟩

/-- "contains (q, r) exactly when …": `(q, r)` is in the result iff some simulation inside the initial relation relates
`q` and `r` -/
theorem C16_characterisation (L : LTS) (I : Rel) (q r : Nat) :
    (q, r) ∈ ltsSimRef L I ↔ ∃ S : Nat → Nat → Prop, IsSim L S ∧ (∀ a b, S a b → (a, b) ∈ I) ∧ S q r :=
  ltsSimRef_spec L I q r

-- (1, 0) is in the initial relation and is removed; (2, 0) is kept out by the initial relation although 0 simulates 2
example : (1, 0) ∉ ltsSimRef exL [(0, 0), (0, 1), (1, 0), (1, 1), (2, 2)] ∧
    (2, 0) ∉ ltsSimRef exL [(0, 0), (0, 1), (1, 0), (1, 1), (2, 2)] ∧ (2, 0) ∈ ltsSimRef exL (fullRel 3) := by decide

/-- the result is a preorder when the initial relation is: reflexive on `0..n-1` and transitive.  `hwf` (every edge
leads to a state `< n`) is needed for reflexivity – without it a pair `(q, q)` can be lost through a successor outside
`0..n-1` on which `I` is not reflexive (second example); transitivity needs nothing. -/
theorem C16_preorder (L : LTS) (I : Rel) (hwf : ∀ e, e ∈ L.edges → e.2.2 < L.n)
    (hrefl : ∀ q, q < L.n → (q, q) ∈ I) (htrans : ∀ a b c, (a, b) ∈ I → (b, c) ∈ I → (a, c) ∈ I) :
    (∀ q, q < L.n → (q, q) ∈ ltsSimRef L I) ∧
    (∀ a b c, (a, b) ∈ ltsSimRef L I → (b, c) ∈ ltsSimRef L I → (a, c) ∈ ltsSimRef L I) :=
  ltsSimRef_preorder L I hwf hrefl htrans

example : (∀ e, e ∈ exL.edges → e.2.2 < exL.n) ∧
    (∀ q, q < exL.n → (q, q) ∈ [(0, 0), (0, 1), (1, 0), (1, 1), (2, 2)]) ∧
    (∀ a b c, (a, b) ∈ [(0, 0), (0, 1), (1, 0), (1, 1), (2, 2)] → (b, c) ∈ [(0, 0), (0, 1), (1, 0), (1, 1), (2, 2)] →
      (a, c) ∈ [(0, 0), (0, 1), (1, 0), (1, 1), (2, 2)]) :=
  ⟨by decide, by decide, fun a b c h1 h2 =>
    (by decide : ∀ p, p ∈ [(0, 0), (0, 1), (1, 0), (1, 1), (2, 2)] → ∀ p', p' ∈ [(0, 0), (0, 1), (1, 0), (1, 1), (2, 2)] →
      p.2 = p'.1 → (p.1, p'.2) ∈ [(0, 0), (0, 1), (1, 0), (1, 1), (2, 2)]) (a, b) h1 (b, c) h2 rfl⟩
example : (∀ q, q < 1 → (q, q) ∈ [(0, 0)]) ∧ ltsSimRef ⟨1, [(0, 0, 5)]⟩ [(0, 0)] = [] := by decide

/-! ### with no partition given -/

/-- from the full relation on `0..n-1` the result is the greatest simulation of the system: `(q, r)` is in it iff
`q, r < n` and some simulation of `L` relates them.  `hwf`: every edge leads to a state `< n` (otherwise a simulation
may have to pass through states the full relation on `0..n-1` does not contain). -/
theorem C16_default_is_greatest_simulation (L : LTS) (hwf : ∀ e, e ∈ L.edges → e.2.2 < L.n) (q r : Nat) :
    (q, r) ∈ ltsSimRef L (fullRel L.n) ↔ q < L.n ∧ r < L.n ∧ ∃ S : Nat → Nat → Prop, IsSim L S ∧ S q r :=
  ltsSimRef_default L hwf q r

example : ∀ e, e ∈ exL.edges → e.2.2 < exL.n := by decide
example : ltsSimRef exL (fullRel exL.n) = [(0, 0), (0, 1), (1, 1), (2, 0), (2, 1), (2, 2)] := by decide

/-- … and it is a preorder on `0..n-1` ("the greatest simulation *preorder* of the system") -/
theorem C16_default_preorder (L : LTS) (hwf : ∀ e, e ∈ L.edges → e.2.2 < L.n) :
    (∀ q, q < L.n → (q, q) ∈ ltsSimRef L (fullRel L.n)) ∧
    (∀ a b c, (a, b) ∈ ltsSimRef L (fullRel L.n) → (b, c) ∈ ltsSimRef L (fullRel L.n) →
      (a, c) ∈ ltsSimRef L (fullRel L.n)) :=
  ltsSimRef_default_preorder L hwf

-- a system with a label-1 loop, a state without outgoing and a state without incoming edges, parallel edges
example : (∀ e, e ∈ (⟨4, [(0, 0, 1), (0, 0, 1), (0, 1, 0), (2, 0, 1), (2, 0, 3)]⟩ : LTS).edges → e.2.2 < 4) ∧
    ltsSimRef ⟨4, [(0, 0, 1), (0, 0, 1), (0, 1, 0), (2, 0, 1), (2, 0, 3)]⟩ (fullRel 4) =
      [(0, 0), (1, 0), (1, 1), (1, 2), (1, 3), (2, 0), (2, 2), (3, 0), (3, 1), (3, 2), (3, 3)] := by decide

/-! ### restricted output -/

/-- what is reported for output size `k`: exactly the pairs of the result with both components below `k`; equivalently
the pairs `q, r < k` related by some simulation **of the whole system** inside `I` (the restriction is applied to the
output, not to the system or the initial relation, see the second example) -/
theorem C16_output_restriction (L : LTS) (I : Rel) (k q r : Nat) :
    ((q, r) ∈ ltsSimOut L I k ↔ q < k ∧ r < k ∧ (q, r) ∈ ltsSimRef L I) ∧
    ((q, r) ∈ ltsSimOut L I k ↔
      q < k ∧ r < k ∧ ∃ S : Nat → Nat → Prop, IsSim L S ∧ (∀ a b, S a b → (a, b) ∈ I) ∧ S q r) :=
  ⟨restrict_output L I k q r, restrict_output_spec L I k q r⟩

example : ltsSimOut exL (fullRel 3) 2 = [(0, 0), (0, 1), (1, 1)] := by decide
example : ltsSimRef exL (restrictRel 2 (fullRel 3)) = [] ∧ ltsSimOut exL (fullRel 3) 2 ≠ [] := by decide

/-! ### the Boolean simulation test of the driver -/

/-- the Boolean test is exactly the specification `IsSim`, and the reference always passes it (the fixed point is
reached within `|I|+1` rounds, so the driver's "internal: reference is not a simulation" can never be raised) -/
theorem C16_checker_exact (L : LTS) (R I : Rel) :
    (isLtsSimB L R = true ↔ IsSim L (RelOf R)) ∧ isLtsSimB L (ltsSimRef L I) = true :=
  ⟨isLtsSimB_iff L R, ltsSimRef_check L I⟩

example : isLtsSimB exL [(0, 1), (2, 2)] = true ∧ isLtsSimB exL [(1, 0), (2, 2)] = false := by decide

/-!
## not yet proved

* **The engine itself is not modelled.**  `explicit_lts_sim.cc` is a partition-refinement algorithm: `partition_` /
  `relation_` on blocks, the initial split by outgoing labels and pruning in `init`, per-block counters
  (`Block::counter_`), remove lists (`Block::remove_`), the work queue `queue_`, `processRemove`, `split`, `fastSplit`.
  None of this exists in Lean; `ltsSimRef` is a naive pair-deleting refinement that serves as reference.  Hence "the
  relation computed by the engine is …" is not a theorem about a model of the code: the theorems above say that the
  *reference* is the relation described in the statement, and the engine is covered only by the correspondence check
  that compares its output with `ltsSimOut`.
* **Partition and relation on blocks.**  The initial relation of the model is a list of pairs of *states*.  The
  translation from (partition, relation on blocks) to that list is done in the driver and is not a Lean definition with
  theorems; in particular it is not proved that the relation induced on states by a reflexive, transitive relation on
  the blocks of a partition of `0..n-1` satisfies the hypotheses `hrefl`, `htrans` of `C16_preorder` (it obviously does),
  and `buildResult`, which expands the engine's final (partition, relation on blocks) to pairs of states, is not
  modelled.
* **Output size.**  The model's output is a list of pairs; "the reported relation has size `k`" (the dimension of the
  returned `BinaryRelation`) is not a notion of the model, only "which pairs below `k` are reported"
  (`C16_output_restriction`).
* `C16_preorder`, `C16_default_is_greatest_simulation`, `C16_default_preorder` need `hwf` (all edge targets `< n`);
  the sources of edges are unconstrained.  The engine's behaviour on systems violating `hwf` is outside the property.
-/
end Vata.Props
