import Vata.Proofs.LtsSim
import Vata.Proofs.SimPipeline
import Vata.Properties.C16_Engine
import Vata.Properties.Util_LtsUtil
import Vata.Properties.Util_BinRel
/-!
# C16 – LTS simulation engine returns the greatest simulation inside a given preorder

> Given a labelled transition system, a partition of its states into blocks and a reflexive, transitive relation on the
> blocks, the computed relation contains (q, r) exactly when q and r are related by the greatest simulation that only
> relates states whose blocks are related initially; with no partition given it is the greatest simulation preorder of
> the system. The result restricted to the requested output size is reported for exactly the states below that size.

## How the statement is read into the model

Everything is in `Vata/Proofs/LtsSim.lean` (namespace `Vata.L`).

* **Specification (L0).**  `LTS` (`n` states `0..n-1`, `edges : List (src × label × dst)`; any number of labels, states
  without edges and parallel edges are expressible).  `IsSim L R`: `R` is a simulation – whenever `R q r` and
  `q -a→ q'` there is `r -a→ r'` with `R q' r'`.  "The greatest simulation that only relates states … related
  initially" is the union of all simulations contained in the initial relation `I`; this is the right-hand side of
  `C16_characterisation`.
* **Initial relation.**  `I : Rel = List (Nat × Nat)` is a relation **on states**, given as a list of pairs; it stands
  for "the blocks of `q` and `r` are related initially".  In the first part of this file the partition and the relation on
  blocks of the statement are not objects of the model: the driver (`Driver/Main.lean`, `checkLts`) computes `I` from them
  as `{(q, r) | q, r < n, (block of q, block of r) ∈ block relation}`; in the model of the engine they are
  (`LE.initRel part rel`, `C16_engine_initial_relation`).  With no partition given `I = fullRel n`, the full relation on
  `0..n-1`.
* **Reference.**  `ltsSimRef L I`: naive refinement – repeatedly delete from the current relation the pairs
  that violate the transfer condition `ltsOk`, until nothing changes (`|I|+1` rounds).  It is the oracle the relation
  returned by the real `computeSimulation` is compared with, and the SPECIFICATION the model of the engine is proved against.
  `ltsSimOut L I k = restrictRel k (ltsSimRef L I)` is what is expected for output size `k`.  `isLtsSimB` is the Boolean
  simulation test the driver runs on the reference.
* **Model of the code.**  `Vata/LtsEngine.lean` (namespace `Vata.LE`) models class `SimulationEngine` of
  `src/explicit_lts_sim.cc` at the granularity of the code (partition, block relation, counters, remove lists, queue; `init`,
  `processRemove`, `split`, `run`, `buildResult`, the three overloads of `computeSimulation`); its theorems are in
  `Vata/Properties/C16_Engine.lean`.  The helper classes it treats as values (`SmartSet`, `SharedCounter`, `SharedList`,
  `SplittingRelation`, the caching allocators) are modelled as coded in `Vata/LtsUtil.lean`
  (`Vata/Properties/Util_LtsUtil.lean`), the `BinaryRelation` the result is written into in `Vata/BinRel.lean`
  (`Vata/Properties/Util_BinRel.lean`).  The last section of this file puts the three layers together
  (`C16_engine_statement`, `C16_engine_output_matrix`, `C16_engine_on_coded_classes`).
-/
namespace Vata.Props
open Vata.L

/-! ### with an initial relation -/

/-- the result is a simulation, lies inside the initial relation, and contains every simulation that lies inside the
initial relation: it is the greatest simulation inside `I`.  No hypothesis on `L` or `I` (not even that `I` is a
preorder or mentions only states `< n`). -/
theorem C16_greatest_within_initial (L : LTS) (I : Rel) :
    IsSim L (RelOf (ltsSimRef L I)) ∧ (∀ p, p ∈ ltsSimRef L I → p ∈ I) ∧
    ∀ S : Nat → Nat → Prop, IsSim L S → (∀ q r, S q r → (q, r) ∈ I) → ∀ q r, S q r → (q, r) ∈ ltsSimRef L I :=
  ltsSimRef_greatest L I

-- blocks {0,1} and {2} with the identity on the blocks: 1 simulates 0 (same block) but not conversely
example : ltsSimRef exL [(0, 0), (0, 1), (1, 0), (1, 1), (2, 2)] = [(0, 0), (0, 1), (1, 1), (2, 2)] := by decide
-- a simulation inside that initial relation, as required by the third component
example : IsSim exL (RelOf [(0, 1), (2, 2)]) ∧
    (∀ q r, RelOf [(0, 1), (2, 2)] q r → (q, r) ∈ [(0, 0), (0, 1), (1, 0), (1, 1), (2, 2)]) :=
  ⟨(isLtsSimB_iff _ _).mp (by decide),
    fun q r h => (by decide : ∀ p, p ∈ [(0, 1), (2, 2)] → p ∈ [(0, 0), (0, 1), (1, 0), (1, 1), (2, 2)]) (q, r) h⟩

/-- "contains (q, r) exactly when …": `(q, r)` is in the result iff some simulation inside the initial relation relates
`q` and `r` -/
theorem C16_characterisation (L : LTS) (I : Rel) (q r : Nat) :
    (q, r) ∈ ltsSimRef L I ↔ ∃ S : Nat → Nat → Prop, IsSim L S ∧ (∀ a b, S a b → (a, b) ∈ I) ∧ S q r :=
  ltsSimRef_spec L I q r

-- (1, 0) is in the initial relation and is removed; (2, 0) is kept out by the initial relation although 0 simulates 2
example : (1, 0) ∉ ltsSimRef exL [(0, 0), (0, 1), (1, 0), (1, 1), (2, 2)] ∧
    (2, 0) ∉ ltsSimRef exL [(0, 0), (0, 1), (1, 0), (1, 1), (2, 2)] ∧ (2, 0) ∈ ltsSimRef exL (fullRel 3) := by decide

/-- the result is a preorder when the initial relation is: reflexive on `0..n-1` and transitive.  `hwf` (every edge
leads to a state `< n`) is needed for reflexivity – without it a pair `(q, q)` can be lost through a successor outside
`0..n-1` on which `I` is not reflexive (second example); transitivity needs nothing. -/
theorem C16_preorder (L : LTS) (I : Rel) (hwf : ∀ e, e ∈ L.edges → e.2.2 < L.n)
    (hrefl : ∀ q, q < L.n → (q, q) ∈ I) (htrans : ∀ a b c, (a, b) ∈ I → (b, c) ∈ I → (a, c) ∈ I) :
    (∀ q, q < L.n → (q, q) ∈ ltsSimRef L I) ∧
    (∀ a b c, (a, b) ∈ ltsSimRef L I → (b, c) ∈ ltsSimRef L I → (a, c) ∈ ltsSimRef L I) :=
  ltsSimRef_preorder L I hwf hrefl htrans

example : (∀ e, e ∈ exL.edges → e.2.2 < exL.n) ∧
    (∀ q, q < exL.n → (q, q) ∈ [(0, 0), (0, 1), (1, 0), (1, 1), (2, 2)]) ∧
    (∀ a b c, (a, b) ∈ [(0, 0), (0, 1), (1, 0), (1, 1), (2, 2)] → (b, c) ∈ [(0, 0), (0, 1), (1, 0), (1, 1), (2, 2)] →
      (a, c) ∈ [(0, 0), (0, 1), (1, 0), (1, 1), (2, 2)]) :=
  ⟨by decide, by decide, fun a b c h1 h2 =>
    (by decide : ∀ p, p ∈ [(0, 0), (0, 1), (1, 0), (1, 1), (2, 2)] → ∀ p', p' ∈ [(0, 0), (0, 1), (1, 0), (1, 1), (2, 2)] →
      p.2 = p'.1 → (p.1, p'.2) ∈ [(0, 0), (0, 1), (1, 0), (1, 1), (2, 2)]) (a, b) h1 (b, c) h2 rfl⟩
example : (∀ q, q < 1 → (q, q) ∈ [(0, 0)]) ∧ ltsSimRef ⟨1, [(0, 0, 5)]⟩ [(0, 0)] = [] := by decide

/-! ### with no partition given -/

/-- from the full relation on `0..n-1` the result is the greatest simulation of the system: `(q, r)` is in it iff
`q, r < n` and some simulation of `L` relates them.  `hwf`: every edge leads to a state `< n` (otherwise a simulation
may have to pass through states the full relation on `0..n-1` does not contain). -/
theorem C16_default_is_greatest_simulation (L : LTS) (hwf : ∀ e, e ∈ L.edges → e.2.2 < L.n) (q r : Nat) :
    (q, r) ∈ ltsSimRef L (fullRel L.n) ↔ q < L.n ∧ r < L.n ∧ ∃ S : Nat → Nat → Prop, IsSim L S ∧ S q r :=
  ltsSimRef_default L hwf q r

example : ∀ e, e ∈ exL.edges → e.2.2 < exL.n := by decide
example : ltsSimRef exL (fullRel exL.n) = [(0, 0), (0, 1), (1, 1), (2, 0), (2, 1), (2, 2)] := by decide

/-- … and it is a preorder on `0..n-1` ("the greatest simulation *preorder* of the system") -/
theorem C16_default_preorder (L : LTS) (hwf : ∀ e, e ∈ L.edges → e.2.2 < L.n) :
    (∀ q, q < L.n → (q, q) ∈ ltsSimRef L (fullRel L.n)) ∧
    (∀ a b c, (a, b) ∈ ltsSimRef L (fullRel L.n) → (b, c) ∈ ltsSimRef L (fullRel L.n) →
      (a, c) ∈ ltsSimRef L (fullRel L.n)) :=
  ltsSimRef_default_preorder L hwf

-- a system with a label-1 loop, a state without outgoing and a state without incoming edges, parallel edges
example : (∀ e, e ∈ (⟨4, [(0, 0, 1), (0, 0, 1), (0, 1, 0), (2, 0, 1), (2, 0, 3)]⟩ : LTS).edges → e.2.2 < 4) ∧
    ltsSimRef ⟨4, [(0, 0, 1), (0, 0, 1), (0, 1, 0), (2, 0, 1), (2, 0, 3)]⟩ (fullRel 4) =
      [(0, 0), (1, 0), (1, 1), (1, 2), (1, 3), (2, 0), (2, 2), (3, 0), (3, 1), (3, 2), (3, 3)] := by decide

/-! ### restricted output -/

/-- what is reported for output size `k`: exactly the pairs of the result with both components below `k`; equivalently
the pairs `q, r < k` related by some simulation **of the whole system** inside `I` (the restriction is applied to the
output, not to the system or the initial relation, see the second example) -/
theorem C16_output_restriction (L : LTS) (I : Rel) (k q r : Nat) :
    ((q, r) ∈ ltsSimOut L I k ↔ q < k ∧ r < k ∧ (q, r) ∈ ltsSimRef L I) ∧
    ((q, r) ∈ ltsSimOut L I k ↔
      q < k ∧ r < k ∧ ∃ S : Nat → Nat → Prop, IsSim L S ∧ (∀ a b, S a b → (a, b) ∈ I) ∧ S q r) :=
  ⟨restrict_output L I k q r, restrict_output_spec L I k q r⟩

example : ltsSimOut exL (fullRel 3) 2 = [(0, 0), (0, 1), (1, 1)] := by decide
example : ltsSimRef exL (restrictRel 2 (fullRel 3)) = [] ∧ ltsSimOut exL (fullRel 3) 2 ≠ [] := by decide

/-! ### the Boolean simulation test of the driver -/

/-- the Boolean test is exactly the specification `IsSim`, and the reference always passes it (the fixed point is
reached within `|I|+1` rounds, so the driver's "internal: reference is not a simulation" can never be raised) -/
theorem C16_checker_exact (L : LTS) (R I : Rel) :
    (isLtsSimB L R = true ↔ IsSim L (RelOf R)) ∧ isLtsSimB L (ltsSimRef L I) = true :=
  ⟨isLtsSimB_iff L R, ltsSimRef_check L I⟩

example : isLtsSimB exL [(0, 1), (2, 2)] = true ∧ isLtsSimB exL [(1, 0), (2, 2)] = false := by decide

/-! ### the engine as coded: the property in one statement, the returned matrix, the helper classes -/

section
open Vata.LE

/-- **C16 for the model of `SimulationEngine`.**  Given a labelled transition system whose edges connect states `< n`, a
partition of `0..n-1` into non-empty blocks and a reflexive, transitive relation on the blocks: `computeSimulation` returns;
the relation it returns contains `(q, r)` exactly when `q, r` are below the requested output size and some simulation that
only relates states whose blocks are related initially relates `q` to `r` (the greatest such simulation); and it is a
preorder on the states below the output size.  With no partition given (`computeSimulation(outputSize)`) the same with the
greatest simulation of the system. -/
theorem C16_engine_statement (L : LTS) (part : List (List Nat)) (rel : Rel) (k : Nat) (hL : ltsOKB L = true) :
    (isPartition part L.n = true → isConsistent part rel = true → isTransB rel = true →
      ∃ R, computeSimulation L part rel k = some R ∧
        (∀ q r, (q, r) ∈ R ↔ q < k ∧ r < k ∧
          ∃ S : Nat → Nat → Prop, IsSim L S ∧ (∀ a b, S a b → (a, b) ∈ initRel part rel) ∧ S q r) ∧
        (∀ p, p ∈ initRel part rel ↔
          p ∈ (fullRel L.n).filter (fun p => rel.contains (blockOf part p.1, blockOf part p.2))) ∧
        (∀ q, q < L.n → q < k → (q, q) ∈ R) ∧ (∀ a b c, (a, b) ∈ R → (b, c) ∈ R → (a, c) ∈ R)) ∧
    (0 < L.n → ∃ R, computeSimulation1 L k = some R ∧
      ∀ q r, (q, r) ∈ R ↔ q < k ∧ r < k ∧ q < L.n ∧ r < L.n ∧ ∃ S : Nat → Nat → Prop, IsSim L S ∧ S q r) := by
  constructor
  · intro hp hc ht
    obtain ⟨R, hR, hspec⟩ := C16_engine_computes_greatest_simulation L part rel k hL hp hc ht
    have href := C16_engine_output_is_reference L part rel k R hL hp hc ht hR
    obtain ⟨hI, _, _, hr, htr⟩ := C16_engine_initial_relation L part rel hL hp hc ht
    refine ⟨R, hR, hspec, hI, fun q hq hk => ?_, fun a b c hab hbc => ?_⟩
    · exact (href q q).mpr (((C16_output_restriction L _ k q q).1).mpr ⟨hk, hk, hr q hq⟩)
    · have h1 := ((C16_output_restriction L _ k a b).1).mp ((href a b).mp hab)
      have h2 := ((C16_output_restriction L _ k b c).1).mp ((href b c).mp hbc)
      exact (href a c).mpr (((C16_output_restriction L _ k a c).1).mpr ⟨h1.1, h2.2.1, htr a b c h1.2.2 h2.2.2⟩)
  · intro hn
    obtain ⟨⟨R, hR, e⟩, _⟩ := C16_engine_default L k hL hn
    refine ⟨R, hR, fun q r => ?_⟩
    have hwf : ∀ e, e ∈ L.edges → e.2.2 < L.n := fun e he => (ltsOK_of_B hL e he).2
    rw [e q r, (C16_output_restriction L _ k q r).1, C16_default_is_greatest_simulation L hwf q r]

example : ltsOKB EngEx.L1 = true ∧ isPartition EngEx.part1 EngEx.L1.n = true ∧
    isConsistent EngEx.part1 EngEx.rel1 = true ∧ isTransB EngEx.rel1 = true ∧ 0 < EngEx.L1.n := by decide

/-- **"The result restricted to the requested output size is reported for exactly the states below that size" – the returned
object.**  The `BinaryRelation` that `buildResult(result, size)` fills from the engine's result (a fresh relation, `resize(k)`,
`set(q, r, true)` per pair; class model `Vata/BinRel.lean`, `SimPipe.resultMat`) is well-formed, has dimension `size_ = k`, and
its entry `(q, r)`, `q, r < k`, is `true` exactly when `(q, r)` lies in the greatest simulation inside the initial relation -/
theorem C16_engine_output_matrix (L : LTS) (part : List (List Nat)) (rel : Rel) (k : Nat) (hL : ltsOKB L = true)
    (hp : isPartition part L.n = true) (hc : isConsistent part rel = true) (ht : isTransB rel = true) :
    ∃ R, computeSimulation L part rel k = some R ∧
      BinRel.WF (SimPipe.resultMat k R) ∧ (SimPipe.resultMat k R).size = k ∧
      ∀ q r, q < k → r < k → ((SimPipe.resultMat k R).get q r = true ↔ (q, r) ∈ ltsSimRef L (initRel part rel)) := by
  obtain ⟨R, hR⟩ := C16_engine_terminates L part rel k hL hp hc ht
  have href := C16_engine_output_is_reference L part rel k R hL hp hc ht hR
  have hlt : ∀ p, p ∈ R → p.1 < k ∧ p.2 < k := fun p hp' =>
    have := ((C16_output_restriction L _ k p.1 p.2).1).mp ((href p.1 p.2).mp hp')
    ⟨this.1, this.2.1⟩
  obtain ⟨w, hsz, hget⟩ := SimPipe.resultMat_spec k R hlt
  refine ⟨R, hR, w, hsz, fun q r hq hr => ?_⟩
  rw [hget q r hq hr, decide_eq_true_iff, href q r, (C16_output_restriction L _ k q r).1]
  exact ⟨fun h => h.2.2, fun h => ⟨hq, hr, h⟩⟩

example : (computeSimulation EngEx.L1 EngEx.part1 EngEx.rel1 3).map (fun R => (SimPipe.resultMat 3 R).toBMat) =
    some [[true, true, false], [false, true, false], [false, false, true]] := by decide +kernel

/-- **the values the engine model computes with are what the helper classes as coded compute** (the refinement of
`Vata/Properties/Util_LtsUtil.lean` at the places where the engine uses it): `SplittingRelation::split(i)` on any state that
represents the block relation `rel` – `i` reflexive and below the capacity, as in `SimulationEngine::split` – is defined and
represents `LE.relSplit rel i`, the function the engine model applies; erasing through the row iterator is the `filter` of
the model; `SmartSet` insertion / removal / key enumeration and the flattening of a `SharedList` are the model's `insAdd` /
`insRemove` / `insKeys` / `flat`; and the `SmartSet` as coded follows its value for every call inside the discipline -/
theorem C16_engine_on_coded_classes :
    (∀ {s : LU.SR.T} {rel : List (List Nat)} {i : Nat}, LU.SR.Inv s rel → i < rel.length →
      (rel.length < s.rows.length → (rel.getD i []).contains i = true →
        ∃ s', LU.SR.split s i = some s' ∧ LU.SR.Inv s' (relSplit rel i)) ∧
      (∀ mask, ∃ s', LU.SR.eraseRow s i mask = some s' ∧
        LU.SR.Inv s' (rel.set i ((rel.getD i []).filter (fun c => !mask.contains c))))) ∧
    ((∀ s a, LU.SS.aAdd s a = insAdd s a) ∧ (∀ s a, LU.SS.aRemove s a = insRemove s a) ∧
      (∀ s, LU.SS.aKeys s = insKeys s) ∧ (∀ r : LU.SL.RemList, LU.SL.flat r = flat r)) ∧
    (∀ {w : LU.SS.World} {aw : LU.SS.AWorld} {op : LU.SS.Op}, LU.SS.RW w aw → LU.SS.ok aw op = true →
      ∃ w', LU.SS.step w op = some w' ∧ LU.SS.RW w' (LU.SS.aStep aw op)) := by
  obtain ⟨v1, v2, v3, v4, v5, _⟩ := Util_LtsUtil_values_are_engine_values
  refine ⟨fun h hi => ⟨fun hcap hrefl => ?_, (Util_LtsUtil_SplittingRelation_ops h hi).1⟩, ⟨v1, v2, v3, v5⟩,
    fun h hok => Util_LtsUtil_SmartSet_step h hok⟩
  rw [← v4]
  exact (Util_LtsUtil_SplittingRelation_ops h hi).2 hcap hrefl

example : LU.SR.okAll ⟨[], 5, false⟩ LU.SR.Ex.ops = true ∧ relSplit [[0, 1], [1]] 1 = [[0, 1, 2], [1, 2], [1, 2]] := by decide

end

/-!
## closed since the last refresh of this file

* **"The engine itself is not modelled."** – closed: `Vata/LtsEngine.lean` models `init`, `fastSplit`, `split`, `internalSplit`,
  `trySplit`, `buildPre`, `processRemove`, `enqueueToRemove`, `run`, `buildResult` and the three overloads;
  `C16_engine_output_is_reference` (partial correctness against `ltsSimOut`), `C16_engine_terminates` (explicit internal fuel),
  `C16_engine_computes_greatest_simulation`, `C16_engine_invariant`, `C16_engine_default`
  (`Vata/Properties/C16_Engine.lean`; no certificate check is involved); the property in one statement: `C16_engine_statement`.
* **"Partition and relation on blocks. … not a Lean definition with theorems; … `buildResult` … is not modelled"** – closed:
  `LE.initRel`, `C16_engine_initial_relation` (it is the driver's relation, reflexive on `0..n-1` and transitive – the
  hypotheses `hrefl`, `htrans` of `C16_preorder`), `buildResult` is part of the model (`Vata.LE.mem_buildResult`).
* **"Output size. … the dimension of the returned `BinaryRelation` is not a notion of the model"** – closed at the level of the
  class model: `C16_engine_output_matrix` (with `SimPipe.resultMat_spec`, `Util_BinRel_buildResult`, `Util_BinRel_resize`,
  `Util_BinRel_get_set`): the matrix has `size_ = k` and holds exactly the pairs below `k`.
* **The helper classes inside the engine** (they appeared in the C20 block as "components without any model"): each is modelled
  as coded and proved to refine the value the engine model computes with, for every history inside the engine's call
  discipline – `Util_LtsUtil_SmartSet_history`, `Util_LtsUtil_SharedCounter_history`, `Util_LtsUtil_SharedCounter_layout`,
  `Util_LtsUtil_SharedList_history`, `Util_LtsUtil_SplittingRelation_history`, `Util_LtsUtil_CachingAllocator_history`,
  `Util_LtsUtil_values_are_engine_values`; at the engine's call sites: `C16_engine_on_coded_classes`.
* **The two callers of the engine inside the library satisfy its preconditions** (`LtsOK`, `isPartition`, `isConsistent`, and
  the transitivity the C++ does not assert): `C04_pipeline_engine_preconditions` (`Vata/Properties/C04_Pipeline.lean`).

## not yet proved

* **Transitivity of the block relation is needed and not asserted by the C++** (`C16_engine_needs_transitivity`: all asserted
  preconditions hold, the relation is not transitive, the engine – model and real class alike – misses a pair of the greatest
  simulation).  The property statement asks for a transitive relation, so this is the contract, but a caller gets no
  diagnostic.
* **Between engine and helper classes.**  That every call sequence the engine makes satisfies the `ok` predicates (the call
  discipline) of `Util_LtsUtil_*` is read off the C++ (`SimulationEngine::init`, `split`, `processRemove`) and exercised by the
  `lts` histories of the harness, not proved: the engine model works on values, the class models on heaps, and
  `C16_engine_on_coded_classes` connects them operation by operation, not run by run.  Outside the discipline the classes have
  real defects that the engine never triggers (`Util_LtsUtil_SmartSet_dangling_last`: `erase()` does not repair `last_`).
* The model is tied to the C++ by reading the code and by comparison of final outputs; intermediate states of the C++
  (block numbering, order inside the lists) are not observable through the public interface and were not compared.  That the
  C++ assertions inside the loop never fail is not stated separately (it follows informally from the invariant).  The order
  in which the result pairs are listed, and 64-bit wrap-around of the counters, are outside.
* `C16_preorder`, `C16_default_is_greatest_simulation`, `C16_default_preorder` need `hwf` (all edge targets `< n`);
  the engine theorems need `ltsOKB` (sources and targets `< n`).  The engine's behaviour on systems violating it is outside
  the property.  `BinaryRelation::resize` inside the capacity does not initialise new entries (`Util_BinRel_resize`); the
  matrix of `C16_engine_output_matrix` is a FRESH relation, for which this does not matter.
-/
end Vata.Props
