import Vata.Proofs.InclDownTablesClass
import Vata.Proofs.InclDownTablesClassDet
import Vata.Proofs.InclDownTablesClassNullary
import Vata.Properties.C07_TraverseDown
/-!
# C07 – the top-down BDD downward inclusion on tables WITHOUT symbol-determinism; a rule-level criterion for loaded tables

Property served (C07): *"the BDD inclusion algorithms return the verdict of the explicit ones"*; the two items left open by
`Vata/Properties/C07_TraverseDown.lean`: (1) a rule-level criterion for the hypothesis `SymDet` on LOADED tables, (2) the left table
that is NOT symbol-deterministic (two ranked symbols of a state select the same set of children tuples, e.g. two nullary symbols of
one state).

How the C++ is read into the model: as in `C07_TraverseDown.lean` – `expandT` / `bodyT` / `procLeaf` / `runTD` / `inclDownTrav`
(`Vata/InclDownTables.lean`) are `DownwardInclusionFunctor::expand`, `ForeachDownSymbolFromStateAndStateSetDo` AS CODED
(`BddTraverse.travDown`: union of the right-hand MTBDDs, `VoidApply2Functor` with its cache of visited node pairs, one callback per
pair of LEAVES), `operator()(lhs, rhs)` and `CheckDownwardTreeInclusion`; `ofRulesTD` is `AddTransition` for every rule.  Nothing new is
modelled here.

What is proved.

1. `C07_symDet_ofRulesTD_iff`: for `T = ofRulesTD rs`, `∀ p, SymDet 22 (getTD T p)` ⇔ `symDetRulesB rs` (executable): no two rules with
   the same parent and different ranked symbols (`rankOf`: 16 symbol bits, 6 arity bits) have the same SET of children tuples of that
   parent.  With it and the canonical list `rankSyms` of ranked symbols, the run-for-run theorem for loaded tables has rule-level
   hypotheses only (`C07_traverse_downward_loaded_of_rules`).
2. Without `SymDet` the traversal as coded makes one call per pair of leaves where the abstract model `InclDown.expand` on the dump
   makes one call per ranked symbol; a class `{f, h}` of a state is ONE call of the code and TWO calls `procGroup` of the model with
   the same (lhs tuple set, rhs tuple set), possibly with other symbols in between.  Proved:
   * `C07_traverse_down_calls_general` – what the functor receives: every call with a non-empty left leaf is a group of the dump
     (symbol = smallest ranked symbol of the class), every group of the dump is delivered by a call with the same two tuple sets;
   * `C07_repeated_group_same_condition` – the condition a call `procGroup` establishes on `holds` (all choice functions of all lhs
     tuples have a subsumed position) depends on the two tuple SETS only: the repeated call of the model establishes nothing new;
   * `C07_traverse_downward_algorithm_general_partial` – the run on the tables keeps the invariant of the abstract exploration
     (`trues` closed, `nonincluded` refuted by its trees, `childrenCache` subsumed), returns a set that passes the certificate
     check / a separating tree, answers above the same fuel bound, and its VERDICT is the verdict of `InclDown.run` on the dumps
     (any fuels for which both answer; any preorder `o` that is reflexive and sound for the languages).
   * `C07_traverse_downward_algorithm_nullary_classes` – RUN FOR RUN (verdict, caches, antichains, witness trees) when the only
     classes of the left table are classes of NULLARY symbols (`SymDetPos`; rule-level criterion `symDetPosRulesB`,
     `C07_symDetPos_ofRulesTD_iff`) – the case of the automata of defect D9;
3. `C07_td_downward_tables_exact_general`: exactness and totality of the plain verdict `inclDownTrav`, the certificate check never
   refuses, equality with `inclDownRec` of the dumps – all without `SymDet`.

What is abstracted: as in `C07_TraverseDown.lean` (hash-consing = structural equality, containers as lists, ghost witness trees and
ghost symbol `reprSym`, `n`/`ar` parameters).

Hypotheses: `TabOK`, `syms` increasing / bounded / covering the left table (all three hold for loaded tables with `rankSyms`:
`rankSyms_ok`, `tabOK_ofRulesTD`); `KidsProductive` of the left dump (the precondition "no useless states" of the C++; without it a
`false` of the code need not be backed by a tree – see `InclDown`); `LangOrd`, `OrdRefl` for the preorder (hold for `idOrd`).
-/
namespace Vata.Props
open Vata Vata.M Vata.BddAbs Vata.BddAbsTD Vata.BddTraverse Vata.InclDown Vata.InclDownTables
open Vata.InclUp (prodWit)

/-! ## 1. the rule-level criterion -/

/-- **`C07_symDet_ofRulesTD_iff`**: the table loaded from the rule list `rs` is symbol-deterministic at every state iff `rs` passes the
executable test `symDetRulesB`: any two rules with the same parent have the same ranked symbol (`rankOf`) or different sets of
children tuples (`tuplesOfRank`: the tuples of the rules of that parent with that ranked symbol).  No hypothesis on symbols or arities -/
theorem C07_symDet_ofRulesTD_iff (rs : List Rule) :
    (∀ p, SymDet 22 (getTD (ofRulesTD rs) p)) ↔ symDetRulesB rs = true := symDet_ofRulesTD_iff rs

/-- the leaf a ranked symbol `c < 2 ^ 22` selects in the MTBDD of `p` of a loaded table holds exactly the children tuples of the
rules of `p` whose ranked symbol is `c` -/
theorem C07_mem_eval_ofRulesTD (rs : List Rule) (p : Nat) {c : Nat} (hc : c < 2 ^ 22) (ks : List Nat) :
    ks ∈ eval (getTD (ofRulesTD rs) p) (bits c) ↔ ∃ r, r ∈ rs ∧ r.kids = ks ∧ r.parent = p ∧ rankOf r = c :=
  mem_eval_ofRulesTD rs p hc ks

/-- a sufficient condition that is easier to read: no children tuple of a state occurs below two ranked symbols (not necessary:
`exNotOnce`) -/
theorem C07_symDet_of_tupleOnce {rs : List Rule} (h : tupleOnceB rs = true) : ∀ p, SymDet 22 (getTD (ofRulesTD rs) p) :=
  symDet_of_tupleOnce h

/-- **loaded tables, rule-level hypotheses only**: arities `< 64` and `symDetRulesB rsA`; `syms` is the canonical `rankSyms`.  Then the
run on the loaded tables IS the abstract run on their dumps in path order (same verdict, caches, antichains, witness trees) -/
theorem C07_traverse_downward_loaded_of_rules (rsA rsB : List Rule) (hA : ∀ r, r ∈ rsA → r.kids.length < 64)
    (hB : ∀ r, r ∈ rsB → r.kids.length < 64) (hd : symDetRulesB rsA = true) (FA FB : List Nat) (o : Ord) :
    (∀ wit fuel, expandT o (ofRulesTD rsA) (ofRulesTD rsB) wit fuel =
      expand o (pathOrder (rankSyms (rsA ++ rsB)) (ofRulesTD rsA) FA) (pathOrder (rankSyms (rsA ++ rsB)) (ofRulesTD rsB) FB)
        wit fuel) ∧
    (∀ fuel, runTD o (ofRulesTD rsA) FA (ofRulesTD rsB) FB
        (prodWit (pathOrder (rankSyms (rsA ++ rsB)) (ofRulesTD rsA) FA)) fuel =
      run o (pathOrder (rankSyms (rsA ++ rsB)) (ofRulesTD rsA) FA) (pathOrder (rankSyms (rsA ++ rsB)) (ofRulesTD rsB) FB) fuel) :=
  have hk := rankSyms_ok (rs' := rsA) (rs := rsA ++ rsB) (fun _ h => List.mem_append_left _ h)
  (C07_traverse_downward_loaded rsA rsB hA hB FA FB hk.1 hk.2.1 hk.2.2 ((symDet_ofRulesTD_iff rsA).mpr hd) o).2

-- examples both ways (more in `Vata/Proofs/InclDownTablesClassDet.lean`)
example : symDetRulesB BddAbsEx.rsB = true ∧ symDetRulesB BddAbsEx.rsA = false := by decide
example : (∀ p, SymDet 22 (getTD (ofRulesTD BddAbsEx.rsB) p)) ∧ ¬ ∀ p, SymDet 22 (getTD (ofRulesTD BddAbsEx.rsA) p) :=
  ⟨(symDet_ofRulesTD_iff _).mpr (by decide), fun h => by have := (symDet_ofRulesTD_iff _).mp h; revert this; decide⟩
example : symDetRulesB exNotOnce = true ∧ tupleOnceB exNotOnce = false := by decide
-- the hypotheses of `C07_traverse_downward_loaded_of_rules` on the automata of defect D9 (`rsB` left, `rsA` right)
example : (∀ r, r ∈ BddAbsEx.rsB → r.kids.length < 64) ∧ (∀ r, r ∈ BddAbsEx.rsA → r.kids.length < 64) ∧
    symDetRulesB BddAbsEx.rsB = true := ⟨by decide, by decide, by decide⟩
#guard rankSyms (BddAbsEx.rsB ++ BddAbsEx.rsA) == [0, 1, 131074]

/-! ## 2. the general case -/

/-- **what the functor receives without `SymDet`** (`CallsCover`): for `TabOK` tables and a list `syms` that covers the left one, every
call of the traversal as coded with a non-empty left leaf is a group `(c, ar c)` of `p` in the dump – `c` the smallest ranked symbol of
the class, the left leaf `lhsTuples`, the right leaf `rhsTuples` of the dump of the right table – and every group of `p` is
delivered by some call with the same two tuple sets (the cache of `VoidApply2Functor` drops no pair of leaves) -/
theorem C07_traverse_down_calls_general {n : Nat} {ar : Nat → Nat} {syms : List Nat} {TA TB : TableTD} (FA FB : List Nat)
    (hs : syms.Pairwise (· < ·)) (hb : ∀ c, c ∈ syms → c < 2 ^ n)
    (hcov : ∀ p c, c < 2 ^ n → eval (getTD TA p) (bits c) ≠ [] → c ∈ syms)
    (okA : TabOK n ar TA) (okB : TabOK n ar TB) (p : Nat) (P : List Nat) :
    (∀ c, c ∈ travDown TA TB p P → c.2.1 ≠ [] →
      ∃ g, g ∈ lhsGroups (pathOrder syms TA FA) p ∧ g.1 = reprSym c.1 ∧
        c.2.1 = lhsTuples (pathOrder syms TA FA) p g.1 g.2 ∧ c.2.2 = rhsTuples (pathOrder syms TB FB) P g.1 g.2) ∧
    (∀ g, g ∈ lhsGroups (pathOrder syms TA FA) p →
      ∃ c, c ∈ travDown TA TB p P ∧ c.2.1 = lhsTuples (pathOrder syms TA FA) p g.1 g.2 ∧
        c.2.2 = rhsTuples (pathOrder syms TB FB) P g.1 g.2) :=
  callsCover_pathOrder FA FB hs hb hcov okA okB p P

/-- **a repeated call establishes nothing new**: what a call of `procGroup` for `(f, n)` that returns `holds` has established – every
choice function of every lhs tuple has a position subsumed by `T ++ ws` (`GroupOK`) – holds as it stands for every group `(f', n')`
with the same lhs tuple set and the same rhs tuple set -/
theorem C07_repeated_group_same_condition {o : Ord} {A B : Vata.TA} {ws : List Pair} {p : Nat} {P : List Nat} {f n f' n' : Nat}
    {T : List Pair} (hL : lhsTuples A p f' n' = lhsTuples A p f n) (hW : rhsTuples B P f' n' = rhsTuples B P f n)
    (h : GroupOK o A B ws p P f n T) : GroupOK o A B ws p P f' n' T := groupOK_transfer hL hW h

/-- the plain verdict of a run of the abstract model (nothing certified) -/
def plainVerdict (r : Option (Except Tree (List Pair))) : Option Bool := (verdictOf r).map (·.1)

/-
FULL statement asked for (`C07_traverse_downward_algorithm_general`): for arbitrary `TabOK` tables, `expandT` on the tables and
`InclDown.expand` on the dumps return the same verdict AND leave `workset` / `nonincluded` / `childrenCache` equal up to redundancy
(same upward / downward closure).  Proved below: the VERDICT part (for the whole algorithm, any fuels, any sound reflexive preorder)
and that the structures the run on the tables leaves satisfy the same invariant `Inv` as those of the abstract run (every pair of
`trues` closed, every entry of `nonincluded` refuted by its tree, everything `childrenCache` covers subsumed by `trues` and the
work-set).  NOT proved: that the two runs leave the SAME sets up to redundancy.  No counterexample exists among 19 200 pseudo-random
calls on loaded tables with 490 non-symbol-deterministic left operands: there the two runs are EQUAL (verdict, `childrenCache`,
`nonincluded`, `trues` as lists) – see "still not proved".
-/
/-- **`C07_traverse_downward_algorithm_general_partial`: the verdict without `SymDet`.**  `TabOK` tables, `syms` increasing, bounded,
covering the left table; `A`, `B` the dumps in path order, the children of the rules of `A` productive; `o` reflexive and sound for
the languages (`idOrd`: `ANTICHAINS_DOWN_REC_NOSIM`).  Then
(1) a finished run on the tables returns a set that passes the certificate check `downCertRB o A B` or a tree of `L(A) \ L(B)`;
(2) whenever the run on the tables (fuel `k`) and the abstract run (fuel `k'`) both answer, the verdicts are equal;
(3) above the bound `|Q_A|·2^|Q_B|` on the fuel both answer, with the same verdict;
(4) the recursive call on the tables satisfies the specification of `InclDown.expand` (`CallSpec`: the invariant `Inv` is kept,
    `holds` only for a subsumed pair, `fails w` only with `w ∈ L(A, p) \ L(B, P)`) -/
theorem C07_traverse_downward_algorithm_general_partial {n : Nat} {ar : Nat → Nat} {syms : List Nat} {TA TB : TableTD}
    (FA FB : List Nat) (hs : syms.Pairwise (· < ·)) (hb : ∀ c, c ∈ syms → c < 2 ^ n)
    (hcov : ∀ p c, c < 2 ^ n → eval (getTD TA p) (bits c) ≠ [] → c ∈ syms)
    (okA : TabOK n ar TA) (okB : TabOK n ar TB) (hK : KidsProductive (pathOrder syms TA FA)) (o : Ord)
    (hO : LangOrd (pathOrder syms TA FA) (pathOrder syms TB FB) (leAP o) (leBP o) (leABP o)) (hr : OrdRefl o) :
    (∀ fuel res, runTD o TA FA TB FB (prodWit (pathOrder syms TA FA)) fuel = some res →
      RunPost (downCertRB o (pathOrder syms TA FA) (pathOrder syms TB FB)) (pathOrder syms TA FA) (pathOrder syms TB FB) res) ∧
    (∀ fuel fuel' b b', inclDownTrav o TA FA TB FB (prodWit (pathOrder syms TA FA)) fuel = some b →
      plainVerdict (run o (pathOrder syms TA FA) (pathOrder syms TB FB) fuel') = some b' → b = b') ∧
    (∀ fuel, fuelBoundD (pathOrder syms TA FA) (pathOrder syms TB FB) < fuel →
      ∃ b, inclDownTrav o TA FA TB FB (prodWit (pathOrder syms TA FA)) fuel = some b ∧
        plainVerdict (run o (pathOrder syms TA FA) (pathOrder syms TB FB) fuel) = some b) ∧
    (∀ wit, WitOK (pathOrder syms TA FA) wit → ∀ fuel ws,
      CallSpec o (pathOrder syms TA FA) (pathOrder syms TB FB) ws (expandT o TA TB wit fuel ws)) := by
  have hcv := callsCover_pathOrder FA FB hs hb hcov okA okB
  have habs : ∀ fuel' b', plainVerdict (run o (pathOrder syms TA FA) (pathOrder syms TB FB) fuel') = some b' →
      (b' = true ↔ Incl (pathOrder syms TA FA) (pathOrder syms TB FB)) := by
    intro fuel' b' h
    unfold plainVerdict at h
    cases hrun : run o (pathOrder syms TA FA) (pathOrder syms TB FB) fuel' with
    | none => rw [hrun] at h; cases h
    | some res =>
      rw [hrun] at h
      have hp := run_spec hO hr hK hrun
      cases res with
      | ok X =>
        simp only [verdictOf, Option.map_some, Option.some.injEq] at h
        subst h
        exact ⟨fun _ => downCertRB_incl hO hp, fun _ => rfl⟩
      | error w =>
        simp only [verdictOf, Option.map_some, Option.some.injEq] at h
        subst h
        have hw : accepts _ w = true ∧ accepts _ w = false := hp
        exact ⟨fun hb => (by cases hb), fun hi => (by have := hi w hw.1; rw [hw.2] at this; cases this)⟩
  have hagree : ∀ fuel fuel' b b', inclDownTrav o TA FA TB FB (prodWit (pathOrder syms TA FA)) fuel = some b →
      plainVerdict (run o (pathOrder syms TA FA) (pathOrder syms TB FB) fuel') = some b' → b = b' := by
    intro fuel fuel' b b' h h'
    have e1 := inclDownTrav_iff (A := pathOrder syms TA FA) (B := pathOrder syms TB FB) hcv hO hr hK h
    have e2 := habs fuel' b' h'
    cases b <;> cases b' <;> simp_all
  refine ⟨fun fuel res h => runTD_spec (A := pathOrder syms TA FA) (B := pathOrder syms TB FB) hcv hO hr hK h, hagree,
    fun fuel hf => ?_, fun wit hW fuel ws => expandT_spec hcv hO hr hW fuel ws⟩
  obtain ⟨b, hb'⟩ := inclDownTrav_total (A := pathOrder syms TA FA) (B := pathOrder syms TB FB) hr hcv hf
  obtain ⟨r, hr'⟩ := run_terminates (A := pathOrder syms TA FA) (B := pathOrder syms TB FB) hr hf
  have hsome : ∃ b', plainVerdict (run o (pathOrder syms TA FA) (pathOrder syms TB FB) fuel) = some b' := by
    unfold plainVerdict
    rw [hr']
    cases r with
    | ok X => exact ⟨true, rfl⟩
    | error w => exact ⟨false, rfl⟩
  obtain ⟨b', hb''⟩ := hsome
  exact ⟨b, hb', by rw [hb'', hagree fuel fuel b b' hb' hb'']⟩

/-! ## 3. exactness and totality without `SymDet` -/

/-- **`C07_td_downward_tables_exact_general`.**  Under the hypotheses of `C07_td_downward_tables_exact` WITHOUT `SymDet`:
(1) the certificate check against the dumps never refuses the run on the tables (the certified verdict is the plain one);
(2) the plain verdict `inclDownTrav` (nothing certified) is exact;
(3) it is returned for every fuel above `|Q_A|·2^|Q_B|`;
(4) it is the verdict of `inclDownRec` on the dumps whenever both answer (any fuels) -/
theorem C07_td_downward_tables_exact_general {n : Nat} {ar : Nat → Nat} {syms : List Nat} {TA TB : TableTD} (FA FB : List Nat)
    (hs : syms.Pairwise (· < ·)) (hb : ∀ c, c ∈ syms → c < 2 ^ n)
    (hcov : ∀ p c, c < 2 ^ n → eval (getTD TA p) (bits c) ≠ [] → c ∈ syms)
    (okA : TabOK n ar TA) (okB : TabOK n ar TB) (hK : KidsProductive (pathOrder syms TA FA)) :
    (∀ fuel, inclDownTablesCert syms TA FA TB FB fuel =
      verdictOf (runTD idOrd TA FA TB FB (prodWit (pathOrder syms TA FA)) fuel)) ∧
    (∀ fuel b, inclDownTrav idOrd TA FA TB FB (prodWit (pathOrder syms TA FA)) fuel = some b →
      (b = true ↔ Incl (pathOrder syms TA FA) (pathOrder syms TB FB))) ∧
    (∀ fuel, fuelBoundD (pathOrder syms TA FA) (pathOrder syms TB FB) < fuel →
      ∃ b, inclDownTrav idOrd TA FA TB FB (prodWit (pathOrder syms TA FA)) fuel = some b) ∧
    (∀ fuel fuel' b bc, inclDownTrav idOrd TA FA TB FB (prodWit (pathOrder syms TA FA)) fuel = some b →
      inclDownRec (pathOrder syms TA FA) (pathOrder syms TB FB) fuel' = some bc → b = bc.1) := by
  have hcv := callsCover_pathOrder FA FB hs hb hcov okA okB
  have hex : ∀ fuel b, inclDownTrav idOrd TA FA TB FB (prodWit (pathOrder syms TA FA)) fuel = some b →
      (b = true ↔ Incl (pathOrder syms TA FA) (pathOrder syms TB FB)) := fun fuel b h =>
    inclDownTrav_iff (A := pathOrder syms TA FA) (B := pathOrder syms TB FB) hcv (idOrd_langOrd _ _) ordRefl_id hK h
  refine ⟨fun fuel => finish_runTD_eq (A := pathOrder syms TA FA) (B := pathOrder syms TB FB) hcv hK fuel, hex,
    fun fuel hf => inclDownTrav_total (A := pathOrder syms TA FA) (B := pathOrder syms TB FB) ordRefl_id hcv hf,
    fun fuel fuel' b bc h h' => ?_⟩
  obtain ⟨b', c⟩ := bc
  have e1 := hex fuel b h
  have e2 : b' = true ↔ Incl (pathOrder syms TA FA) (pathOrder syms TB FB) := inclDownRec_iff h'
  show b = b'
  cases b <;> cases b' <;> simp_all

/-- the same for LOADED tables: rule-level hypotheses only (arities `< 64`; no useless states in the left dump) -/
theorem C07_td_downward_loaded_exact_general (rsA rsB : List Rule) (hA : ∀ r, r ∈ rsA → r.kids.length < 64)
    (hB : ∀ r, r ∈ rsB → r.kids.length < 64) (FA FB : List Nat)
    (hK : KidsProductive (pathOrder (rankSyms (rsA ++ rsB)) (ofRulesTD rsA) FA)) :
    (∀ fuel b, inclDownTrav idOrd (ofRulesTD rsA) FA (ofRulesTD rsB) FB
        (prodWit (pathOrder (rankSyms (rsA ++ rsB)) (ofRulesTD rsA) FA)) fuel = some b →
      (b = true ↔ Incl (pathOrder (rankSyms (rsA ++ rsB)) (ofRulesTD rsA) FA)
        (pathOrder (rankSyms (rsA ++ rsB)) (ofRulesTD rsB) FB))) ∧
    (∀ fuel, fuelBoundD (pathOrder (rankSyms (rsA ++ rsB)) (ofRulesTD rsA) FA)
        (pathOrder (rankSyms (rsA ++ rsB)) (ofRulesTD rsB) FB) < fuel →
      ∃ b, inclDownTrav idOrd (ofRulesTD rsA) FA (ofRulesTD rsB) FB
        (prodWit (pathOrder (rankSyms (rsA ++ rsB)) (ofRulesTD rsA) FA)) fuel = some b) :=
  have hk := rankSyms_ok (rs' := rsA) (rs := rsA ++ rsB) (fun _ h => List.mem_append_left _ h)
  have h := C07_td_downward_tables_exact_general FA FB hk.1 hk.2.1 hk.2.2 (tabOK_ofRulesTD rsA hA) (tabOK_ofRulesTD rsB hB) hK
  ⟨h.2.1, h.2.2.1⟩

/-! ## non-vacuity: the LEFT operand `TDEx.tB` has the class `{0, 1}` at state 3 (not symbol-deterministic) -/

example : ¬ ∀ p, SymDet 2 (getTD TDEx.tB p) := fun h =>
  absurd (h 3 0 1 (by decide) (by decide) (by decide) (by decide)) (by decide)

/-- the hypotheses of the general theorems are satisfiable with a left table that is not symbol-deterministic -/
example : TDEx.syms.Pairwise (· < ·) ∧ (∀ c, c ∈ TDEx.syms → c < 2 ^ 2) ∧
    (∀ p c, c < 2 ^ 2 → eval (getTD TDEx.tB p) (bits c) ≠ [] → c ∈ TDEx.syms) ∧
    TabOK 2 TDEx.ar TDEx.tB ∧ TabOK 2 TDEx.ar TDEx.tA ∧ KidsProductive (pathOrder TDEx.syms TDEx.tB [4]) ∧
    LangOrd (pathOrder TDEx.syms TDEx.tB [4]) (pathOrder TDEx.syms TDEx.tA [2]) (leAP idOrd) (leBP idOrd) (leABP idOrd) ∧
    OrdRefl idOrd :=
  ⟨by decide, by decide, fun _ c hc _ => by rcases TDEx.lt4 hc with rfl | rfl | rfl | rfl <;> decide,
    TDEx.okB, TDEx.okA, (InclUp.trimmed_of_allUsefulB (A := pathOrder TDEx.syms TDEx.tB [4]) (by decide)).1,
    idOrd_langOrd _ _, ordRefl_id⟩

-- the class `{0, 1}` of state 3 is ONE call of the code; the dump has the two groups `(0, 0)`, `(1, 0)` with the same tuple sets
#guard (travDown TDEx.tB TDEx.tB 3 [3]).map (·.2) == [([[]], [[]]), ([], [])]
#guard lhsGroups (pathOrder TDEx.syms TDEx.tB [4]) 3 == [(0, 0), (1, 0)]
#guard (lhsTuples (pathOrder TDEx.syms TDEx.tB [4]) 3 0 0, rhsTuples (pathOrder TDEx.syms TDEx.tB [4]) [3] 0 0) ==
  (lhsTuples (pathOrder TDEx.syms TDEx.tB [4]) 3 1 0, rhsTuples (pathOrder TDEx.syms TDEx.tB [4]) [3] 1 0)
-- both sides of the verdict theorem evaluated: `tB ⊆ tB`, `tB ⊄ tA`
#guard inclDownTrav idOrd TDEx.tB [4] TDEx.tB [4] (prodWit (pathOrder TDEx.syms TDEx.tB [4])) 10 == some true
#guard plainVerdict (run idOrd (pathOrder TDEx.syms TDEx.tB [4]) (pathOrder TDEx.syms TDEx.tB [4]) 10) == some true
#guard inclDownTrav idOrd TDEx.tB [4] TDEx.tA [2] (prodWit (pathOrder TDEx.syms TDEx.tB [4])) 10 == some false
#guard plainVerdict (run idOrd (pathOrder TDEx.syms TDEx.tB [4]) (pathOrder TDEx.syms TDEx.tA [2]) 10) == some false

/-! ## a class with another symbol in between, loaded tables

left: `a → 1`, `f(0) → 1`, `f(1) → 0`, `h(1) → 0` (same leaf `{(1)}` as `f`), `g(2) → 0` (between `f` and `h`), `m(1) → 0`, `f(1) → 2`;
right: `a → 11`, `f(10) → 11`, `f(11) → 10`, `h(11) → 10`, `g(12) → 10`, `f(11) → 12`, `f(13) → 12` – no `m` at state 10: the pair
`(0, {10})` fails, after pairs were concluded `true` under that (false) hypothesis.  The two runs are EQUAL (evaluated). -/
namespace GenEx
def rsL : List Rule := [⟨0, [], 1⟩, ⟨0, [0], 1⟩, ⟨0, [1], 0⟩, ⟨2, [1], 0⟩, ⟨1, [2], 0⟩, ⟨3, [1], 0⟩, ⟨0, [1], 2⟩]
def rsR : List Rule := [⟨0, [], 11⟩, ⟨0, [10], 11⟩, ⟨0, [11], 10⟩, ⟨2, [11], 10⟩, ⟨1, [12], 10⟩, ⟨0, [11], 12⟩, ⟨0, [13], 12⟩]
def sy : List Nat := rankSyms (rsL ++ rsR)
end GenEx
#guard GenEx.sy == [0, 65536, 65537, 65538, 65539]
#guard symDetRulesB GenEx.rsL == false
-- one call for the class `{f, h}` (ranked symbols 65536, 65538), then `g`, then `m` (the pair of empty leaves is visited once)
#guard (travDown (ofRulesTD GenEx.rsL) (ofRulesTD GenEx.rsR) 0 [10]).map (fun c => (reprSym c.1, c.2)) ==
  [(0, [], []), (65536, [[1]], [[11]]), (65537, [[2]], [[12]]), (65539, [[1]], [])]
#guard showRet (expandT idOrd (ofRulesTD GenEx.rsL) (ofRulesTD GenEx.rsR) [] 20 [] [] ⟨[], []⟩ 0 [10]) ==
  showRet (expand idOrd (pathOrder GenEx.sy (ofRulesTD GenEx.rsL) [0]) (pathOrder GenEx.sy (ofRulesTD GenEx.rsR) [10]) [] 20 [] []
    ⟨[], []⟩ 0 [10])
#guard (showRet (expandT idOrd (ofRulesTD GenEx.rsL) (ofRulesTD GenEx.rsR) [] 20 [] [] ⟨[], []⟩ 0 [10])).map (·.1) == some false

/-! ## 4. run for run when the only classes of the left table are classes of NULLARY symbols -/

/-- **`C07_traverse_downward_algorithm_nullary_classes`.**  `SymDetPos n ar a`: two ranked symbols that select the same non-empty leaf
are equal or NULLARY (a state may have several leaf symbols `a → q`, `b → q` – the automata of defect D9 –, but no two symbols of
arity `> 0` of a state share their set of children tuples).  Under the other hypotheses of `C07_traverse_downward_algorithm` the
run on the tables IS the abstract run on the dumps: same verdict, same `childrenCache`, same `nonincluded` (with the witness
trees), same `trues`, for every fuel, work-set, state, preorder – although the code calls the functor ONCE for a class of leaf
symbols and the model once per symbol (`operator()` with `arity == 0` does not touch the state, and after a first `return` the
second call returns as well) -/
theorem C07_traverse_downward_algorithm_nullary_classes {n : Nat} {ar : Nat → Nat} {syms : List Nat} {TA TB : TableTD}
    (FA FB : List Nat) (hs : syms.Pairwise (· < ·)) (hb : ∀ c, c ∈ syms → c < 2 ^ n)
    (hcov : ∀ p c, c < 2 ^ n → eval (getTD TA p) (bits c) ≠ [] → c ∈ syms)
    (okA : TabOK n ar TA) (okB : TabOK n ar TB) (hd : ∀ p, SymDetPos n ar (getTD TA p)) (o : Ord) :
    (∀ wit fuel, expandT o TA TB wit fuel = expand o (pathOrder syms TA FA) (pathOrder syms TB FB) wit fuel) ∧
    (∀ call1 call2 wit post p P cc st, bodyT call1 call2 TA TB wit post p P cc st =
      body call1 call2 (pathOrder syms TA FA) (pathOrder syms TB FB) wit post p P cc st) ∧
    (∀ fuel, runTD o TA FA TB FB (prodWit (pathOrder syms TA FA)) fuel =
      run o (pathOrder syms TA FA) (pathOrder syms TB FB) fuel) :=
  have h := bodyT_eq_nullary FA FB hs hb hcov okA okB hd
  ⟨fun wit fuel => expandT_eq_of_body h o wit fuel, h,
    fun fuel => runTD_eq_of_body (A := pathOrder syms TA FA) (B := pathOrder syms TB FB) h o fuel⟩

/-- the rule-level criterion: `SymDetPos 22 arOf` of a loaded table ⇔ `symDetPosRulesB` (two rules with the same parent have the
same ranked symbol, or are nullary, or have different sets of children tuples) -/
theorem C07_symDetPos_ofRulesTD_iff (rs : List Rule) :
    (∀ p, SymDetPos 22 arOf (getTD (ofRulesTD rs) p)) ↔ symDetPosRulesB rs = true := symDetPos_ofRulesTD_iff rs

/-- loaded tables, rule-level hypotheses only: arities `< 64`, `symDetPosRulesB rsA` -/
theorem C07_traverse_downward_loaded_nullary_classes (rsA rsB : List Rule) (hA : ∀ r, r ∈ rsA → r.kids.length < 64)
    (hB : ∀ r, r ∈ rsB → r.kids.length < 64) (hd : symDetPosRulesB rsA = true) (FA FB : List Nat) (o : Ord) :
    (∀ wit fuel, expandT o (ofRulesTD rsA) (ofRulesTD rsB) wit fuel =
      expand o (pathOrder (rankSyms (rsA ++ rsB)) (ofRulesTD rsA) FA) (pathOrder (rankSyms (rsA ++ rsB)) (ofRulesTD rsB) FB)
        wit fuel) ∧
    (∀ fuel, runTD o (ofRulesTD rsA) FA (ofRulesTD rsB) FB
        (prodWit (pathOrder (rankSyms (rsA ++ rsB)) (ofRulesTD rsA) FA)) fuel =
      run o (pathOrder (rankSyms (rsA ++ rsB)) (ofRulesTD rsA) FA) (pathOrder (rankSyms (rsA ++ rsB)) (ofRulesTD rsB) FB) fuel) :=
  have hk := rankSyms_ok (rs' := rsA) (rs := rsA ++ rsB) (fun _ h => List.mem_append_left _ h)
  have h := C07_traverse_downward_algorithm_nullary_classes FA FB hk.1 hk.2.1 hk.2.2 (tabOK_ofRulesTD rsA hA)
    (tabOK_ofRulesTD rsB hB) ((symDetPos_ofRulesTD_iff rsA).mpr hd) o
  ⟨h.1, h.2.2⟩

-- non-vacuity: `TDEx.tB` (class `{0, 1}` of nullary symbols at state 3) as the LEFT operand
example : ∀ p, SymDetPos 2 TDEx.ar (getTD TDEx.tB p) := by
  refine getTD_all (Q := SymDetPos 2 TDEx.ar) (fun _ _ _ _ hne => absurd rfl hne) (fun e he => ?_)
  simp only [TDEx.tB, List.mem_cons, List.not_mem_nil, or_false] at he
  rcases he with rfl | rfl <;> intro f g hf hg <;>
    rcases TDEx.lt4 hf with rfl | rfl | rfl | rfl <;> rcases TDEx.lt4 hg with rfl | rfl | rfl | rfl <;> decide
-- the D9 automaton `rsA` (`a → 1`, `b → 1`, `g(1,1) → 2`) as the LEFT operand: not `symDetRulesB`, but `symDetPosRulesB`
example : symDetPosRulesB BddAbsEx.rsA = true ∧ symDetRulesB BddAbsEx.rsA = false ∧
    (∀ r, r ∈ BddAbsEx.rsA → r.kids.length < 64) := ⟨by decide, by decide, by decide⟩
#guard showRet (expandT idOrd (ofRulesTD BddAbsEx.rsA) (ofRulesTD BddAbsEx.rsB) [] 10 [] [] ⟨[], []⟩ 2 [9]) ==
  showRet (expand idOrd (pathOrder [0, 1, 131074] (ofRulesTD BddAbsEx.rsA) [2])
    (pathOrder [0, 1, 131074] (ofRulesTD BddAbsEx.rsB) [9]) [] 10 [] [] ⟨[], []⟩ 2 [9])
-- `GenEx.rsL` (class of the UNARY symbols `f`, `h`) is not covered
#guard symDetPosRulesB GenEx.rsL == false

/-!
## still not proved

* the CLOSURE-EQUALITY of the persisting structures of the two runs when two symbols of arity `> 0` of a state share their tuple
  set (for classes of nullary symbols the runs are proved EQUAL: `C07_traverse_downward_algorithm_nullary_classes`): that `expandT` on the tables and `InclDown.expand`
  on the dump leave `childrenCache` / `nonincluded` / `trues` with the same upward / downward closure (or even, as every evaluation
  shows, EQUAL lists), i.e. that the second call `procGroup` of the model for a class is a run without effect.  What is proved is
  weaker: the repeated call establishes no new CONDITION (`C07_repeated_group_same_condition`), both runs keep the same invariant and
  return the same VERDICT.  The missing step is a relative-completeness invariant of the exploration: "a pair concluded `true`
  inside the pending calls `ws` is never implied by an entry of `nonincluded` added later inside the same pending calls" (the test
  `isNoninclusionImplied` precedes `isImpliedByChildren`, so a later entry of `nonincluded` could in principle flip the sub-call of
  the repeated `procGroup` from `holds` to `fails`).  A paper argument (a failing derivation of a super-pair of a pair concluded
  `true` under `ws` must pass through a super-pair of an element of `ws`, which `isInWorkset` answers `true` and
  `isNoninclusionImplied` would have answered before the element was pushed) suggests it holds; it is not formalised.  No
  counterexample: 19 200 pseudo-random calls `(p, P)` on loaded tables (3–4 states per side, 9–16 rules, 490 left operands that fail
  `symDetRulesB`) give equal results of `showRet (expandT …)` and `showRet (expand … pathOrder …)` (scratch search, not part of
  the library; `GenEx` and regression 1 of `C07_TraverseDown.lean` are instances);
* for the C++ this means: the verdict of `CheckDownwardTreeInclusion` on BDD top-down automata is that of the explicit model also
  when a state has several symbols with the same children tuples; whether the CACHES then coincide with those of a per-symbol loop
  is not settled by a proof (it is irrelevant for the verdict);
* the symbols of the dumps are RANKED symbols, `OptDownwardInclusionFunctor` and the preorder index structures: as in
  `C07_TraverseDown.lean`; no link to the C++ by a driver kind (Lean only).
-/
end Vata.Props
