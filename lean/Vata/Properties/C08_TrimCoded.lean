import Vata.Proofs.BddTrimCodedGlue
import Vata.Proofs.BddTrimCodedEx
import Vata.Proofs.BddTrimCodedTotal
import Vata.Proofs.BddTrimCodedBU6
import Vata.Proofs.BddTrimCodedBUEx
import Vata.Properties.C08_Tables
/-!
# C08 – the symbolic trimming edge by edge, as coded

> (C08) … For both BDD encodings … RemoveUnreachableStates and RemoveUselessStates keep the language (leaving no useless
> state after the latter) …

This file closes the item "Inside the symbolic trimming" of the "not yet proved" block of `Vata/Properties/C08.lean`: the
AND/OR-graph propagation of the top-down `RemoveUselessStates` (`src/bdd_td_tree_aut_useless.cc`) and the loops of the two
bottom-up functions (`src/bdd_bu_tree_aut_unreach.cc`, `src/bdd_bu_tree_aut_useless.cc`) are modelled statement by
statement and proved to compute the fixpoints (`prodStates` / `tdReach` of `Vata/Ref.lean` on the leaf-visit skeletons)
that the abstract models `removeUselessTD`, `removeUnreachableBU`, `removeUselessBU` of `Vata/BddAbsTD.lean` use.

## How the C++ is read into the model

* **`Util::Graph`** (`src/util/graph.hh`, `Vata/BddTrimGraph.lean`): a node is the address of an `InternalNode` with two
  `std::set<NodeType>` fields; the model numbers the nodes in allocation order (`Graph.size`), `ing n` / `egr n` are the two
  sets as duplicate-free lists, `addNode`, `addEdge` (inserts into the egress set of the source AND the ingress set of the
  target), `eraseIng` / `eraseEgr` (`GetIngress(n).erase(x)`).  `TwoWayDict` = the list of its pairs, `findFwd` / `findBwd`.
* **top-down `RemoveUselessStates`** (`Vata/BddTrimCoded.lean`).  What the code really builds: ONE OR node per state reached
  from the final states and ONE AND node per NON-EMPTY children tuple, shared by all states that have the tuple; edges
  `OR(s) → AND(t)` for the states `s` of `t` (the `std::set` drops a repeated child), `AND(t) → OR(p)` for every state `p`
  with `t` in a leaf; the nodes of the states with the empty tuple are `termNodes`.  `initBuild`, `buildLoop` (the work-list,
  a stack), `tupleStep` (body of `for tuple : value`), `stateStep` (body of `for state : tuple`) mirror the construction
  including the order of `AddNode` calls.  The propagation has NO counter: a popped OR node is erased from the ingress set
  of every AND node it points to, and the AND node is satisfied when that set is EMPTY; before that the popped node is erased
  from the egress sets of the AND nodes pointing to it (`popStep`, `satisfyStep`, `markStep`, `propLoop`, `initMark`).  Then
  `RestrictApplyFunctor` as coded (`restrictLeafCoded`: prefix copy, length test, `insert`), the two final loops
  (`restrictCoded`) and `result.RemoveUnreachableStates()` (`tdUnreachWL`, the mirrored work-list of `Vata/BddAbsTD.lean`).
* **bottom-up `RemoveUnreachableStates` / `RemoveUselessStates`** (`Vata/BddTrimCodedBU.lean`): `reachable`, `workset`
  (hash sets; `*(workset.begin())` = head), `tuples` (the copy of the table from which processed tuples are erased; the scan
  `while (itTup != tuples.end())` is a fold whose accumulator carries the sets UPDATED during the scan), the functor with
  its graph side (`AddNode` per new state, `AddEdge(node(parent), node(child))` for every state of the current tuple), the
  stack traversal from the nodes of the final states with the erasing of egress edges as coded, the final restriction loop.
* **abstraction**: as in `Vata/BddAbsTD.lean` – one functor call per leaf of the MTBDD of a state, `leafTuples` = the tuples
  of the leaves in order; hash-container iteration orders are list orders (the theorems are about SETS, so they hold for
  every order); the `assert(false)` branches are not exits of the model (a failed `FindFwd` yields state 0) – the invariants
  `Spec.andEgr`, `Spec.termOk` show that the `FindFwd` lookups of the propagation succeed.
* **fuel**: the two `while` loops take fuel and return `none` when it runs out; `C08_td_useless_coded_lang` is about EVERY
  `some` answer, `C08_td_useless_coded_total` gives explicit bounds for which the answer is `some`.

## hypotheses

* `F.Nodup`: the list of final states has no duplicates (`GetFinalStates()` is an `unordered_set`; the construction loop
  creates an OR node per element WITHOUT looking it up first).  Forced by the proof (injectivity of `orNodes`); on the
  examples tried a duplicate does not change the result, so the hypothesis is probably not necessary – not investigated.
* `TableOk T` (bottom-up theorems): the entries of the table form a map with non-empty keys (it is a hash map in the C++;
  with two entries for one tuple `getE` and the C++ would disagree); holds for loaded tables (`tableOk_ofRules`).
* `TableTDWF T`, `SymsCompleteTD syms T` (only for the statements about the abstraction `absTD syms`): the MTBDDs are reduced
  and ordered, the dictionary covers the symbols of the table – the hypotheses of `C08_td_trim`; they hold for loaded tables.
-/
namespace Vata.Props
open Vata Vata.M Vata.BddAbs Vata.BddAbsTD Vata.BddTrimCoded

/-- **The graph built by the construction loop as coded** (every result of `buildLoop`): `orNodes` is a bijection between
its nodes and the states reached top-down from the final states through the leaves, AND and OR nodes are different nodes,
edges join nodes of different kinds and `ingress`/`egress` agree, the inputs of the AND node of `t` are exactly the OR
nodes of the states of `t`, its outputs are OR nodes of states that have `t` in a leaf, every tuple of every reached state
is entered (`done`), the terminal nodes are the OR nodes of the states with an empty tuple. -/
theorem C08_td_useless_coded_graph {T : TableTD} {F : List Nat} (hF : F.Nodup) {fuel : Nat} {B : Build}
    (h : buildLoop T fuel (initBuild F) = some B) :
    Spec T F B ∧ (∀ q, (∃ n, (n, q) ∈ B.orN) ↔ q ∈ tdReach (skelTD T F)) := by
  have hS := buildLoop_spec hF h
  exact ⟨hS, fun q => ⟨fun ⟨n, hn⟩ => hS.reach n q hn, fun hq => spec_reach_complete hS hq⟩⟩

/-- **The states kept by the coded propagation.**  Every answer `usefulStates` of the two loops as coded is, as a set,
`usefulTD T F`: the productive AND top-down reachable states of the leaf-visit skeleton – the top-down
`RemoveUselessStates` prunes both the unreachable and the unproductive states. -/
theorem C08_td_useless_coded_states {T : TableTD} {F : List Nat} (hF : F.Nodup) {fuel : Nat} {U : List Nat}
    (h : usefulCoded T F fuel = some U) (q : Nat) :
    (q ∈ U ↔ q ∈ usefulTD T F) ∧
    (q ∈ U ↔ q ∈ prodStates (skelTD T F) ∧ q ∈ tdReach (skelTD T F)) := by
  have h1 := usefulCoded_correct hF h q
  refine ⟨h1, h1.trans ?_⟩
  unfold usefulTD
  exact mem_prodStates_removeUnreachable _ q

/-- **C08, top-down `RemoveUselessStates` as coded.**  For every answer `R` of the coded function: the abstraction of `R` is
(as sets of rules and final states) `removeUseless` of the abstraction of the input, and so is the abstraction of the
abstract model `removeUselessTD`; the final states are the same lists; the language is kept; every state and every rule
left takes part in an accepting run. -/
theorem C08_td_useless_coded_lang {syms : List Nat} {T : TableTD} {F : List Nat} (hF : F.Nodup) (hT : TableTDWF T)
    (hc : SymsCompleteTD syms T) {fuel fuel' : Nat} {R : TableTD × List Nat}
    (h : removeUselessTDCoded T F fuel fuel' = some R) :
    SetEqTA (absTD syms R.1 R.2) (removeUseless (absTD syms T F)) ∧
    SetEqTA (absTD syms R.1 R.2) (absTD syms (removeUselessTD T F).1 (removeUselessTD T F).2) ∧
    R.2 = (removeUselessTD T F).2 ∧
    (∀ t, accepts (absTD syms R.1 R.2) t = accepts (absTD syms T F) t) ∧
    (∀ q, Occurs (absTD syms R.1 R.2) q → UsefulState (absTD syms R.1 R.2) q) ∧
    (∀ r, r ∈ (absTD syms R.1 R.2).rules → UsefulRule (absTD syms R.1 R.2) r) := by
  obtain ⟨h1, h2⟩ := removeUselessTDCoded_abs hF hT hc h
  have hu := h1.allUseful ⟨removeUseless_post_state _, removeUseless_post_rule _⟩
  exact ⟨h1, h1.trans (absTD_removeUseless F hT hc).symm, h2, fun t => by rw [h1.lang, removeUseless_lang], hu.1, hu.2⟩

-- non-vacuity: a loaded table with a shared tuple, final state 2; the hypotheses hold and the coded function answers
example : [2].Nodup ∧ TableTDWF Ex.T1 ∧ SymsCompleteTD Ex.syms Ex.T1 :=
  ⟨by decide, (tableTD_ofRulesTD Ex.rs1).1, symsCompleteTD_ofRulesTD (by decide)⟩
example : Ex.showR Ex.syms (removeUselessTDCoded Ex.T1 [2] 10 10) =
    some ([(1, [1], 3), (0, [], 1), (2, [3], 2), (3, [1], 2)], [2]) := Ex.coded_ok.1
-- an automaton with an unreachable state (3, 6), a state without rules (4) and an unproductive branch
example : Ex.showR BddAbsTDEx.syms (removeUselessTDCoded BddAbsTDEx.tdA BddAbsTDEx.finA 20 20) =
    some ([(0, [], 1), (1, [], 1), (2, [1, 1], 2)], [2]) := by decide +kernel

/-- **Regression.**  Two realistic slips of the C++, as variants of the model (`Vata/Proofs/BddTrimCodedEx.lean`):
(1) the edge `AND(t) → OR(p)` only added when the tuple is new – the second state with the same tuple is never marked and the
tree `g(f(a))` is lost; (2) an AND node satisfied as soon as ONE input is popped – the language cannot change, but the
unproductive states 2 and 4 survive, the postcondition "no useless state" fails. -/
theorem C08_td_useless_coded_regression :
    ((removeUselessTDCoded Ex.T1 [2] 10 10).map (fun R => accepts (absTD Ex.syms R.1 R.2) Ex.t1) = some true ∧
      (Ex.removeUselessX Ex.tupleStepSlip satisfyStep Ex.T1 [2] 10).map (fun R => accepts (absTD Ex.syms R.1 R.2) Ex.t1) =
        some false) ∧
    (Ex.showR Ex.syms (removeUselessTDCoded Ex.T2 [2] 10 10) = some ([], []) ∧
      (Ex.removeUselessX tupleStep Ex.satisfyStepSlip Ex.T2 [2] 10).map (fun R => allUsefulB (absTD Ex.syms R.1 R.2)) =
        some false) :=
  ⟨⟨Ex.coded_ok.2.1, Ex.slip1_changes_language.2.1⟩, ⟨Ex.slip2_leaves_useless_state.1, Ex.slip2_leaves_useless_state.2.2⟩⟩

/-- **Totality, top-down**: with fuel `2·(|F| + |allKids T|) + 1` for the two loops of the analysis and `|F| + |allKids T|` for
the final `RemoveUnreachableStates` (`allKids T`: the states in the tuples of the leaves, with repetitions) – or any larger
fuel – the coded function answers; no hypothesis. -/
theorem C08_td_useless_coded_total (T : TableTD) (F : List Nat) (fuel fuel' : Nat)
    (h : 2 * (F.length + (allKids T).length) + 1 ≤ fuel) (h' : F.length + (allKids T).length ≤ fuel') :
    (∃ B, buildLoop T fuel (initBuild F) = some B ∧ B.ws = [] ∧ B.orN.length ≤ F.length + (allKids T).length ∧
      ∃ P, propLoop B.orN fuel (initMark B) = some P) ∧
    ∃ R, removeUselessTDCoded T F fuel fuel' = some R := by
  refine ⟨?_, removeUselessTDCoded_total' T F fuel fuel' h h'⟩
  obtain ⟨B, hB⟩ := buildLoop_total T F fuel (by omega)
  have hb := buildLoop_bounds hB
  exact ⟨B, hB, hb.1, hb.2.2, propLoop_total B fuel (by omega)⟩

-- on the example the bounds are 9 and 4
example : allKids Ex.T1 = [3, 1, 1] := by decide +kernel

/-! ### the bottom-up encoding -/

/-- **C08, bottom-up `RemoveUnreachableStates` as coded.**  Every answer: `reachable` is the set of productive states of the
leaf-visit skeleton; the result table has exactly the rules of the abstract model `removeUnreachableBU`, the final states are
the same list; the abstraction is the restriction to the productive states – ONLY the bottom-up unreachable (unproductive)
states are pruned, states not reachable from a final state stay; the language is kept.  With fuel `leafCount T` (the number
of states in the leaves of all MTBDDs) the function answers. -/
theorem C08_bu_unreach_coded_lang {syms : List Nat} {T : Table} (hO : TableOk T) (F : List Nat) :
    (∀ fuel st, buUnreachSt T fuel = some st → ∀ q, q ∈ st.reach ↔ q ∈ prodStates (skelBU T F)) ∧
    (∀ fuel R, buUnreachCoded T F fuel = some R →
      (∀ ρ ks p, HasRule R.1 ρ ks p ↔ HasRule (removeUnreachableBU T F).1 ρ ks p) ∧ R.2 = (removeUnreachableBU T F).2 ∧
      (TableWF T → SymsCompleteBU syms T →
        SetEqTA (absBU syms R.1 R.2) (restrict (absBU syms T F) (prodStates (absBU syms T F))) ∧
        ∀ t, accepts (absBU syms R.1 R.2) t = accepts (absBU syms T F) t)) ∧
    (∀ fuel, leafCount T ≤ fuel → ∃ R, buUnreachCoded T F fuel = some R) := by
  refine ⟨fun fuel st h => (bu_unreach_coded_reach hO F h).1, fun fuel R h => ?_, fun fuel h => bu_unreach_coded_total T F h⟩
  obtain ⟨h1, h2⟩ := bu_unreach_coded_spec hO F h
  exact ⟨h1, h2, fun hT hc => ⟨bu_unreach_coded_abs hO hT hc F h, bu_unreach_coded_lang hO hT hc F h⟩⟩

/-- **C08, bottom-up `RemoveUselessStates` as coded.**  Every answer: `reachable` = the productive states, the states with a
graph node = `reachable`, `useful` = the states reached top-down from the productive final states inside the productive part –
BOTH kinds of useless states are pruned; the result table has exactly the rules of `removeUselessBU`, same final states; the
abstraction is `removeUseless`, the language is kept, every state and rule left takes part in an accepting run.  With fuel
`|F| + leafCount T` the function answers. -/
theorem C08_bu_useless_coded_lang {syms : List Nat} {T : Table} (hO : TableOk T) (F : List Nat) :
    (∀ fuel g tr, buUselessSt T F fuel = some (g, tr) →
      (∀ q, q ∈ g.reach ↔ q ∈ prodStates (skelBU T F)) ∧ (∀ q, (findBwd g.nodes q).isSome = true ↔ q ∈ g.reach) ∧
      (∀ q, q ∈ tr.useful ↔ q ∈ tdReach (restrict (skelBU T F) (prodStates (skelBU T F))))) ∧
    (∀ fuel R, buUselessCoded T F fuel = some R →
      (∀ ρ ks p, HasRule R.1 ρ ks p ↔ HasRule (removeUselessBU T F).1 ρ ks p) ∧ R.2 = (removeUselessBU T F).2 ∧
      (TableWF T → SymsCompleteBU syms T →
        SetEqTA (absBU syms R.1 R.2) (removeUseless (absBU syms T F)) ∧
        (∀ t, accepts (absBU syms R.1 R.2) t = accepts (absBU syms T F) t) ∧
        (∀ q, Occurs (absBU syms R.1 R.2) q → UsefulState (absBU syms R.1 R.2) q) ∧
        (∀ r, r ∈ (absBU syms R.1 R.2).rules → UsefulRule (absBU syms R.1 R.2) r))) ∧
    (∀ fuel, F.length + leafCount T ≤ fuel → ∃ R, buUselessCoded T F fuel = some R) := by
  refine ⟨fun fuel g tr h => ?_, fun fuel R h => ?_, fun fuel h => bu_useless_coded_total T F h⟩
  · obtain ⟨h1, h2, h3, _⟩ := bu_useless_coded_useful hO F h
    exact ⟨h1, h2, h3⟩
  · obtain ⟨h1, h2⟩ := bu_useless_coded_spec hO F h
    exact ⟨h1, h2, fun hT hc => ⟨bu_useless_coded_abs hO hT hc F h, bu_useless_coded_lang hO hT hc F h,
      (bu_useless_coded_noUseless hO hT hc F h).1, (bu_useless_coded_noUseless hO hT hc F h).2⟩⟩

-- non-vacuity: the example automaton of `Vata/Proofs/BddAbsTD.lean` (unreachable states 3, 6; 4 without rules)
example : TableOk BUEx.tA ∧ TableWF BUEx.tA ∧ SymsCompleteBU BddAbsTDEx.syms BUEx.tA :=
  ⟨tableOk_ofRules _, tableWF_ofRules _, symsCompleteBU_ofRules (by decide)⟩
example : BUEx.rulesOf (buUnreachCoded BUEx.tA BddAbsTDEx.finA 5) =
      some [(0, [], 1), (0, [], 3), (1, [], 1), (1, [], 5), (3, [5], 6), (2, [1, 1], 2)] ∧
    BUEx.rulesOf (buUselessCoded BUEx.tA BddAbsTDEx.finA 5) = some [(0, [], 1), (1, [], 1), (2, [1, 1], 2)] :=
  ⟨by decide +kernel, by decide +kernel⟩

/-- **Regression, bottom-up** (variants in `Vata/Proofs/BddTrimCodedBUEx.lean`): `RemoveUnreachableStates` whose scan skips
the tuple after an erased one (erase-while-iterating slip) never examines `(1,1)` and loses `g(a,a)`;
`RemoveUselessStates` with `AddEdge` in the wrong direction marks nothing but the final state and loses `g(a,a)`. -/
theorem C08_bu_coded_regression :
    (BUEx.langOf (buUnreachCoded BUEx.tB BUEx.finB 5) BUEx.trB = some true ∧
      BUEx.langOf (BUEx.buUnreachCodedSkip BUEx.tB BUEx.finB 5) BUEx.trB = some false) ∧
    (BUEx.langOf (buUselessCoded BUEx.tA BddAbsTDEx.finA 5) BUEx.trB = some true ∧
      BUEx.langOf (BUEx.buUselessCodedRev BUEx.tA BddAbsTDEx.finA 5) BUEx.trB = some false) :=
  ⟨⟨by decide +kernel, by decide +kernel⟩, ⟨by decide +kernel, by decide +kernel⟩⟩

/-!
## what the C++ guarantees, per function (as proved above)

* top-down `RemoveUselessStates`: prunes the states not reachable from a final state AND the unproductive ones
  (`C08_td_useless_coded_states`), no useless state or rule is left (`C08_td_useless_coded_lang`);
* bottom-up `RemoveUnreachableStates`: prunes exactly the unproductive states ("bottom-up unreachable"); states that no
  final state reaches stay (`C08_bu_unreach_coded_lang`);
* bottom-up `RemoveUselessStates`: prunes both (`C08_bu_useless_coded_lang`).

## for differential testing against the C++

`removeUselessTDCoded T F (2 * (F.length + (allKids T).length) + 1) (F.length + (allKids T).length) : Option (TableTD × List Nat)`,
`buUnreachCoded T F (leafCount T)`, `buUselessCoded T F (F.length + leafCount T) : Option (Table × List Nat)`; the intermediate
states (`buildLoop`: node numbers, dictionaries, edge sets; `usefulCoded`; `buUnreachSt`; `buUselessSt`) are exposed too, but
agree with the C++ only up to the iteration orders of the hash containers and of the address-ordered `std::set`s.

## still not proved

* The `assert(false)` branches are not modelled as exits.  For the top-down function the invariants show that the two
  `FindFwd` lookups succeed (`Spec.termOk`, `Spec.andEgr`) but the `erase(node) != 1` tests are not stated as theorems
  (they follow from `Spec.sym` and the fact that every node is popped once – not written down); for the bottom-up
  `RemoveUselessStates` the `FindBwd(tupState)` / `FindFwd(outNode)` lookups are shown to succeed inside the invariants
  (`Vata/Proofs/BddTrimCodedBU3.lean`, `…BU4.lean`), the `erase != 1` test is not modelled.
* `F.Nodup` in the top-down theorems about answers (not in the totality theorem) is forced by the proof; whether a list of
  final states with duplicates (impossible in the C++) could change the answer of the model is open.
* Iteration orders: hash containers and `std::set`s are lists in insertion order; the theorems are about sets of states /
  rules, so they cover every order, but the NODE NUMBERS and the order of `usefulStates` of a concrete C++ run are not
  predicted.  `Apply1Functor` / `VoidApply1Functor` are abstracted to one call per leaf (`voidApply1`, as in
  `Vata/BddAbsTD.lean`); their caches are the subject of `Vata/Properties/C09_Caches.lean`.
* The fuel bounds are sufficient, not tight.
* The top-down `RemoveUnreachableStates` was already mirrored (`tdUnreachWL`, `C08_td_trim`); nothing new about it here.
-/
end Vata.Props
