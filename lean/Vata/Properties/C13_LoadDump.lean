import Vata.Proofs.LoadDump
/-!
# C13 (continued) – dump and load of the explicit tree automaton through the dictionaries

> … and for every automaton in any of the four encodings, dumping it and loading the text again yields the same rules
> and final states under the same state names.

This file covers the clause above for the **explicit tree automaton** encoding (`-r expl`): the layer between an
`AutDescription` and the automaton, i.e. `LoadableAut::LoadFromAutDesc (desc, stateDict)` / `DumpToAutDesc (stateDict)`,
`ExplicitTreeAutCore::loadFromAutDescInternal` / `dumpToAutDescInternal`, the state dictionary (`TwoWayDict`) with its weak
/ strict translators, and the alphabet's `(name, rank) ↦ number` dictionary (`OnTheFlyAlphabet`).  Composed with the text
layer of `C13.lean` (`parse_serialize`) it gives the round trip through the text.

## How the statement is read into the model

* **Model** (`Vata/LoadDump.lean`, executable, compared with the real library by a probe on the examples of
  `Vata.LoadDumpTest`).  A dictionary is `Dict κ := List (κ × Nat)`, the pairs in insertion order; `fwd?` / `bwd?` find the
  first pair with the key / the value, which is the content of the two `std::map`s of a `TwoWayDict` (also after a clash,
  when the second `bwdMap_.insert` is refused).  `loadTA d stateDict symDict : Except String (TA × StateDict × SymDict)`
  hands out numbers in order of first occurrence (symbols of `d.symbols`, then the final states, then per transition the
  children, the symbol with the number of children as rank, the parent); the symbol counter is the size of the alphabet's
  dictionary, the **state counter starts at 0 whatever the state dictionary contains** (as in the C++).
  `dumpTA A stateDict symDict : Except String AutDesc` translates back strictly (`.error "No translation for n"` where
  the C++ throws) and returns final states and transitions in `std::set` order, **no name, no symbols, no states** (as the
  C++).  `loadString` / `dumpString` compose with `parseTimbuk` / `serialize`.
* **"the same rules and final states under the same state names"** is `d'.final ≈ d.final ∧ d'.trans ≈ d.trans` on the
  descriptions (`≈`: the same set), as in `C13.lean`.
* `Dict.Ok`: distinct keys and `i`-th value `i` – the invariant of a dictionary that only a weak translator with the
  counter at the size has filled (the alphabet's dictionary always; a state dictionary that was empty before the load).
  It implies injectivity in both directions (`C13_dictionary_two_way`).
-/
namespace Vata.Props
open Vata Vata.Timbuk Vata.LoadDump Vata.Dict

/-- what a load on a fresh state dictionary computes: dictionaries that are `Ok` again, the state dictionary knowing
exactly the state names of the final states and transitions, the alphabet extended by exactly the symbol keys of the
description, and the description translated by them -/
theorem C13_load_numbering (d : AutDesc) (yd : SymDict) (hyd : yd.Ok) :
    ∃ A sd yd', loadTA d [] yd = .ok (A, sd, yd') ∧ sd.Ok ∧ yd'.Ok ∧ Dict.Sub yd yd' ∧
      (∀ q, q ∈ sd.keys ↔ q ∈ stateNames d) ∧ (∀ k, k ∈ yd'.keys ↔ k ∈ yd.keys ∨ k ∈ symKeys d) ∧
      A.final = d.final.map sd.get ∧
      A.rules = d.trans.map (fun t => ⟨yd'.get (t.2.1, t.1.length), t.1.map sd.get, sd.get t.2.2⟩) :=
  load_spec d yd hyd

example : LoadDumpEx.ydUsed.Ok := LoadDumpEx.ydUsed_ok
/-- executed: final states first (`r ↦ 0`, `q ↦ 1`), symbols `(a,0) ↦ 0`, `(f,2) ↦ 1` -/
example : loadTA TimbukEx.exE [] [] = .ok
    (⟨[⟨1, [1, 0], 0⟩, ⟨0, [], 1⟩, ⟨1, [0, 0], 1⟩], [0, 1, 0]⟩, [("r", 0), ("q", 1)], [(("a", 0), 0), (("f", 2), 1)]) := rfl

/-- an `Ok` dictionary is two-way: `bwd?` inverts `fwd?`, and both are injective -/
theorem C13_dictionary_two_way {κ : Type} [DecidableEq κ] (D : Dict κ) (h : D.Ok) :
    (∀ k v, D.bwd? v = some k ↔ D.fwd? k = some v) ∧
    (∀ k k' v, D.fwd? k = some v → D.fwd? k' = some v → k = k') ∧
    (∀ v v' k, D.bwd? v = some k → D.bwd? v' = some k → v = v') :=
  ⟨fun _ _ => h.bwd_fwd, h.injective.1, h.injective.2⟩

example : LoadDumpEx.exYd.Ok := LoadDumpEx.exYd_ok

/-- **load then dump** (fresh state dictionary, an alphabet that may be in use): the load succeeds, the dictionaries are
injective afterwards, the dump with them succeeds and has the same final states and the same rules under the same names.
No hypothesis on the description: a symbol name used with two ranks is two symbols of the alphabet. -/
theorem C13_load_dump_roundtrip (d : AutDesc) (yd : SymDict) (hyd : yd.Ok) :
    ∃ A sd yd' d', loadTA d [] yd = .ok (A, sd, yd') ∧ sd.Ok ∧ yd'.Ok ∧ dumpTA A sd yd' = .ok d' ∧
      d'.final ≈ d.final ∧ d'.trans ≈ d.trans :=
  load_dump_roundtrip_shared d yd hyd

/-- `exD`: nullary to ternary rules, `f` with ranks 2 and 3, duplicates, unsorted, no final state -/
example : LoadDumpEx.ydUsed.Ok ∧ TimbukEx.exD.trans.length = 6 ∧ ¬ TimbukEx.exD.Ranked :=
  ⟨LoadDumpEx.ydUsed_ok, by decide, by decide⟩

/-- the same with empty initial dictionaries -/
theorem C13_load_dump_roundtrip_fresh (d : AutDesc) :
    ∃ A sd yd d', loadTA d [] [] = .ok (A, sd, yd) ∧ sd.Ok ∧ yd.Ok ∧ dumpTA A sd yd = .ok d' ∧
      d'.final ≈ d.final ∧ d'.trans ≈ d.trans :=
  load_dump_roundtrip d

/-- executed on `exE` -/
example : dumpTA ⟨[⟨1, [1, 0], 0⟩, ⟨0, [], 1⟩, ⟨1, [0, 0], 1⟩], [0, 1, 0]⟩ [("r", 0), ("q", 1)]
    [(("a", 0), 0), (("f", 2), 1)] = .ok
    ⟨"", [], [], ["q", "r"], [([], "a", "q"), (["q", "r"], "f", "r"), (["r", "r"], "f", "q")]⟩ := rfl

/-- the exact description that comes back, and what a dump never contains: the name, the symbols and the states of the
description are lost (the dump writes `Ops`, `Automaton anonymous` and `States` lines without content) -/
theorem C13_load_dump_exact (d : AutDesc) (yd : SymDict) (hyd : yd.Ok) :
    ∃ A sd yd' d', loadTA d [] yd = .ok (A, sd, yd') ∧ dumpTA A sd yd' = .ok d' ∧ d' = dumpOf d.final d.trans ∧
      d'.name = "" ∧ d'.symbols = [] ∧ d'.states = [] := by
  obtain ⟨A, sd, yd', h1, h2⟩ := load_dump_exact d yd hyd
  exact ⟨A, sd, yd', _, h1, h2, rfl, dump_fields h2⟩

example : TimbukEx.exE.name = "A-1" ∧ TimbukEx.exE.symbols ≠ [] ∧ TimbukEx.exE.states ≠ [] := by decide

/-- **dump → text → load → dump**, for any automaton and dictionaries for which the dump succeeds with good names: the
text of `DumpToString` is accepted by `LoadFromString` (fresh state dictionary, any alphabet in use) and the dump of the
loaded automaton has the same final states and rules again -/
theorem C13_dump_text_load_dump (A : TA) (sd : StateDict) (yd yd₀ : SymDict) (hyd₀ : yd₀.Ok) (d₁ : AutDesc)
    (hd : dumpTA A sd yd = .ok d₁) (hwf : d₁.WellFormed) :
    ∃ A' sd' yd' d₃, dumpString A sd yd = .ok (serialize d₁) ∧
      loadString (serialize d₁) [] yd₀ = .ok (A', sd', yd') ∧ sd'.Ok ∧ yd'.Ok ∧
      dumpTA A' sd' yd' = .ok d₃ ∧ d₃.final ≈ d₁.final ∧ d₃.trans ≈ d₁.trans :=
  dump_load_dump A sd yd yd₀ hyd₀ d₁ hd hwf

/-- an automaton that was not loaded (states 5 and 7 named `q5`, `top`) -/
example : dumpTA LoadDumpEx.exA LoadDumpEx.exSd LoadDumpEx.exYd = .ok
    ⟨"", [], [], ["top"], [([], "a", "q5"), (["q5", "q5"], "f", "top"), (["top", "q5"], "f", "top")]⟩ ∧
    (⟨"", [], [], ["top"], [([], "a", "q5"), (["q5", "q5"], "f", "top"), (["top", "q5"], "f", "top")]⟩ :
      AutDesc).WellFormed ∧ LoadDumpEx.ydUsed.Ok := ⟨rfl, by decide, LoadDumpEx.ydUsed_ok⟩

/-- **the whole chain** from a well-formed description: load, dump to text, load the text (fresh state dictionary, the
alphabet as the first load left it), dump – the final states and rules of the description again -/
theorem C13_text_roundtrip (d : AutDesc) (hwf : d.WellFormed) :
    ∃ A sd yd txt A' sd' yd' d₃, loadTA d [] [] = .ok (A, sd, yd) ∧ dumpString A sd yd = .ok txt ∧
      loadString txt [] yd = .ok (A', sd', yd') ∧ dumpTA A' sd' yd' = .ok d₃ ∧
      d₃.final ≈ d.final ∧ d₃.trans ≈ d.trans :=
  text_roundtrip d hwf

example : TimbukEx.exD.WellFormed ∧ TimbukEx.exE.WellFormed := by decide

/-! ### the state counter and a pre-filled state dictionary -/

/-- **Finding.**  `LoadFromAutDesc (desc, stateDict)` starts the state counter at 0 (`StateType state (0)`) also when
`stateDict` already has entries.  Loading `a -> q, b -> p, Final p` with the dictionary `p ↦ 0` that a previous load left
gives `q` the number 0 too: the forward map has `p ↦ 0, q ↦ 0`, the backward map keeps `0 ↦ p`; the dictionary is not
injective, the dump writes `a -> p` instead of `a -> q`, and the loaded automaton accepts the leaf `a`, which the
description does not (with a fresh dictionary it does not).  The real library behaves exactly so (it prints "backward
mapping for 0 already found: p" and carries on; the `assert (false)` is compiled out).  Only `stateDict`s that are empty
(as in the command-line tool, which uses a fresh dictionary per operand) are safe. -/
theorem C13_prefilled_state_dictionary_clash :
    LoadDumpEx.preSd.Ok ∧
    (∃ A sd yd, loadTA LoadDumpEx.preD LoadDumpEx.preSd LoadDumpEx.preYd = .ok (A, sd, yd) ∧
      sd = [("p", 0), ("q", 0)] ∧ sd.bwd? 0 = some "p" ∧
      ¬ (∀ k k' v, sd.fwd? k = some v → sd.fwd? k' = some v → k = k')) ∧
    (∃ A sd yd d', loadTA LoadDumpEx.preD LoadDumpEx.preSd LoadDumpEx.preYd = .ok (A, sd, yd) ∧
      dumpTA A sd yd = .ok d' ∧ ([], "a", "q") ∈ LoadDumpEx.preD.trans ∧ ([], "a", "q") ∉ d'.trans ∧
      ([], "a", "p") ∈ d'.trans ∧ ([], "a", "p") ∉ LoadDumpEx.preD.trans) ∧
    (∃ A sd yd, loadTA LoadDumpEx.preD LoadDumpEx.preSd LoadDumpEx.preYd = .ok (A, sd, yd) ∧
      yd.fwd? ("a", 0) = some 1 ∧ accepts A (.node 1 []) = true) ∧
    (∃ A sd yd, loadTA LoadDumpEx.preD [] LoadDumpEx.preYd = .ok (A, sd, yd) ∧
      yd.fwd? ("a", 0) = some 1 ∧ accepts A (.node 1 []) = false) :=
  ⟨LoadDumpEx.preSd_ok,
   ⟨_, _, _, rfl, rfl, rfl, fun h => absurd (h "p" "q" 0 rfl rfl) (by decide)⟩,
   LoadDumpEx.prefilled_roundtrip_fails, LoadDumpEx.prefilled_language_changes.1,
   LoadDumpEx.prefilled_language_changes.2⟩

/-- the pre-filled dictionary is the one a load of the one-state automaton `b -> p` leaves -/
example : loadTA LoadDumpEx.pre0 [] [] = .ok (⟨[⟨0, [], 0⟩], [0]⟩, LoadDumpEx.preSd, LoadDumpEx.preYd) := rfl

/-- with the counter at the size of the dictionary (what the union fix `06324a39` does for its maps) the round trip
holds for every pre-filled `Ok` state dictionary: old entries are kept, new names get fresh numbers -/
theorem C13_counter_at_size_roundtrip (d : AutDesc) (sd : StateDict) (yd : SymDict) (hsd : sd.Ok) (hyd : yd.Ok) :
    ∃ d', dumpTA (loadFrom ⟨sd, sd.length, yd⟩ d).1 (loadFrom ⟨sd, sd.length, yd⟩ d).2.sd
        (loadFrom ⟨sd, sd.length, yd⟩ d).2.yd = .ok d' ∧
      (loadFrom ⟨sd, sd.length, yd⟩ d).2.sd.Ok ∧ Dict.Sub sd (loadFrom ⟨sd, sd.length, yd⟩ d).2.sd ∧
      d'.final ≈ d.final ∧ d'.trans ≈ d.trans :=
  load_dump_roundtrip_counter_at_size d sd yd hsd hyd

example : LoadDumpEx.preSd.Ok ∧ LoadDumpEx.preYd.Ok ∧
    (loadFrom ⟨LoadDumpEx.preSd, LoadDumpEx.preSd.length, LoadDumpEx.preYd⟩ LoadDumpEx.preD).2.sd =
      [("p", 0), ("q", 1)] := ⟨LoadDumpEx.preSd_ok, ⟨by decide, by decide⟩, rfl⟩

/-! ### symbol names -/

/-- the dump writes only the name of a symbol; when the transitions use each name with one number of children, rules
whose symbols have the same name have the same symbol (in general not: `LoadDumpEx.unranked_names`) -/
theorem C13_ranked_symbol_names (d : AutDesc) (yd : SymDict) (hyd : yd.Ok) (hr : d.Ranked) :
    ∃ A sd yd', loadTA d [] yd = .ok (A, sd, yd') ∧
      ∀ r r', r ∈ A.rules → r' ∈ A.rules → symNameOf yd' r.sym = symNameOf yd' r'.sym → r.sym = r'.sym :=
  load_ranked_names d yd hyd hr

example : TimbukEx.exE.Ranked ∧ ¬ TimbukEx.exD.Ranked := by decide

/-!
## which "not yet proved" items of `C13.lean` this file closes, and what remains

* closes **"Dump / load through the four encodings"** for the **explicit tree automaton**: the load, the dump, the
  dictionaries and translators are modelled (`Vata/LoadDump.lean`) and "the same rules and final states under the same
  state names" after load-and-dump, after dump-text-load-dump and along the whole chain is proved
  (`C13_load_dump_roundtrip`, `C13_dump_text_load_dump`, `C13_text_roundtrip`).
* still open: the other three encodings (explicit finite automaton, BDD bottom-up, BDD top-down: their
  `loadFromAutDescInternal` / `dumpToAutDescInternal` are different code: start-state symbols, symbolic encoding of the
  symbols as bit vectors); the correspondence of `loadTA` / `dumpTA` with the C++ on generated inputs (only the probe on
  the examples of `Vata.LoadDumpTest` was run); which exception text comes first when several translations are missing
  (the C++ iterates hash containers, the model its lists).
* the hypothesis `d.Ranked` of the task statement turned out to be unnecessary for the round trips and is not assumed.
* finding: `C13_prefilled_state_dictionary_clash` (state counter restarts at 0 for a pre-filled `stateDict`).
-/
end Vata.Props
