import Vata.Proofs.CowHeapFA3
/-!
# C11 (finite automata) – copy-on-write of `ExplicitFiniteAutCore`, as coded

> After an explicit tree or finite automaton is copied, assigned or moved, any later modification of one object (adding
> rules, changing final states, clearing) is never visible through another object, and automata returned by operations
> stay unchanged when their operands are modified or destroyed afterwards.

`Vata/Properties/C11.lean` / `C11_Extended.lean` prove this for heap models written after the TREE automaton class.  This
file serves the item of their "not yet proved" lists about `src/explicit_finite_aut_core.{hh,cc}`.

## how the C++ is read into the model (`Vata/CowHeapFA.lean`, where every quoted line is)

* **Heap.**  `transitions_` is a `shared_ptr` to a map node `state ↦ shared_ptr<TransitionCluster>`; a cluster holds its
  right-hand state sets by value: two levels of sharing, the heap `CowHeap.Heap` (map nodes and cluster nodes with their
  `use_count`s, identifiers never re-used).  Its primitive `shared_ptr` / container actions and their invariant lemmas
  (`Vata/Proofs/CowHeap.lean`) are reused; all OPERATIONS are transcribed anew from the finite-automaton sources.
  A handle = (map pointer, `finalStates_`, `startStates_`, `startStateToSymbols_`) – the last three are plain values
  (`Members`), copied by value by the copy constructor / assignment.
* **Where `uniqueClusterMap()` / `uniqueCluster()` are called and where not.**
  `internalAddTransition` (`addCore`): `uniqueClusterMap()` then `uniqueCluster(l)` then the write.
  `ReindexStates(dst, …)` (`reindexCore`): `dst.uniqueClusterMap()` ONCE before the loop (also when the source has no
  transitions), then `uniqueCluster(index[q])` per source entry (creating clusters that may stay empty).
  `UnionDisjointStates` (`unionDisjCore`): copy of `lhs`, `res.uniqueClusterMap()`, then `insert` of the CLUSTER POINTERS of
  `rhs` (no `uniqueCluster`: nothing is written into a cluster).
  `RemoveUnreachableStates` (`shareCore … true`): the result gets a default-constructed map node, replaced by a second
  `new Map()` (the first one is released), and the operand's cluster pointers are inserted DIRECTLY into
  `res.transitions_` (no `uniqueClusterMap()`); likewise the local `res` of `GetCandidateTree` (`shareCore … false`).
  `Reverse` (`reverseCore`): a fresh object filled by `AddTransition`.  `RemoveUselessStates` =
  `RemoveUnreachableStates().Reverse().RemoveUnreachableStates().Reverse()` with its three temporaries, `GetCandidateTree` with
  its local `res` – both as SEQUENCES of the other operations on scratch handles that are destroyed as in the C++.
  `SetStateFinal`, `SetStateStart`, `SetExistingStateStart` touch the value members only.
  Move: the class has user-declared copy operations and destructor, hence no move operations; `moveCtor` / `moveAssign`
  are the copy steps (the source stays alive).
* **Values.**  `FAVal` = the three value members and the contents of the map (`state ↦ symbol ↦ right-hand states`, in
  container order); `FAVal.toNFAS` / `FAVal.toNFA` is the automaton of `Vata/NfaStart.lean` / `Vata/Nfa.lean` it denotes.
  `specStep` gives every object an independent `FAVal`; an operation changes the value of its `target` only, by the
  value-level functions `vAdd`, `vReindex`, `vUnionDisj`, `vUnreach`, `vReverse`, `vUseless`, `vCandidate`, … which mirror
  the loops of the C++ (work-list order, `insert` never overwriting, early `return`s of `GetCandidateTree`).

## what is abstracted

* hash-container iteration order = insertion order (lists); `RStateSet{r,…}` is stored as the singleton tuples `[[r],…]` of
  `Store.Cluster` (so that the heap of `Vata/CowHeap.lean` can be reused);
* the translator of `ReindexStates` / `Union` is a pure function `idx`; `alphabet_` (a `shared_ptr` that is only copied) is
  not modelled; loops that read the operand while writing the result read the operand's value up front (operand ≠ result);
* the work-list loops of `RemoveUnreachableStates` / `GetCandidateTree` run on fuel `#start states + #transitions + 1`.
  This is total (`C11_fa_reach_fuel`, `C11_fa_candidate_fuel`: the loops have ended – empty work-list or `return` – and more
  fuel changes nothing).  The copy-on-write theorems below do not depend on the fuel being sufficient.
* operations that are not C++ programs (dead handles, construction over a live handle, self-assignment,
  `a.ReindexStates(a, …)`) are no-ops.
-/
namespace Vata.Props
open Vata
open Vata.CowHeapFA

/-! ### the refinement theorem -/

/-- one step, from any heap that satisfies the reference-count invariant: every operation of `ExplicitFiniteAutCore`
(constructors, assignment, the setters, `AddTransition`, destructor, `ReindexStates`, `UnionDisjointStates`,
`RemoveUnreachableStates`, `Reverse`, `RemoveUselessStates`, `GetCandidateTree`) acts on the values read through the handles
exactly like the independent-values specification, and keeps the invariant.  The hypothesis `InvFA H` cannot be dropped
(`C11_fa_inv_needed`). -/
theorem C11_fa_refines_values (H : HeapFA) (op : Op) (hI : InvFA H) :
    absFA (CowHeapFA.step H op) = specStep (absFA H) op ∧ InvFA (CowHeapFA.step H op) :=
  fa_refines_values hI op

/-- … and for every operation list from the empty heap -/
theorem C11_fa_history_refines (ops : List Op) : absFA (exec ops) = ops.foldl specStep specInit :=
  fa_history_isolation ops

/-- a history with sharing at both levels: copies, `UnionDisjointStates`, `RemoveUnreachableStates`, writes through operands
and results, `RemoveUselessStates`, `GetCandidateTree`, `Reverse`, `ReindexStates` -/
def faOps : List Op :=
  [.new 1, .setStart 1 0 7, .add 1 0 5 1, .add 1 1 6 2, .add 1 3 5 0, .setFinal 1 2,
   .new 2, .setStart 2 10 7, .add 2 10 5 11, .setFinal 2 11,
   .unionDisj 1 2 3, .unreach 1 4, .add 4 0 5 2, .add 3 10 6 10, .add 1 1 6 0,
   .useless 1 5, .candidate 1 6, .reverse 1 7, .copy 3 8, .reindex 2 8 (fun q => q + 1), .setFinal 8 0]

example : absFA (exec faOps) 1 =
    some ⟨⟨[2], [0], [(0, [7])]⟩, [(0, [(5, [[1]])]), (1, [(6, [[2], [0]])]), (3, [(5, [[0]])])]⟩ := by decide +kernel
/-- the union shows neither the later write to its left operand (`1 -6-> 0`) nor lost its own (`10 -6-> 10`) -/
example : absFA (exec faOps) 3 =
    some ⟨⟨[2, 11], [0, 10], [(0, [7]), (10, [7])]⟩,
      [(0, [(5, [[1]])]), (1, [(6, [[2]])]), (3, [(5, [[0]])]), (10, [(5, [[11]]), (6, [[10]])])]⟩ := by decide +kernel
/-- the result of `RemoveUnreachableStates` (state 3 is gone), with the later write `0 -5-> 2` to it -/
example : (absFA (exec faOps) 4).map (·.trans) = some [(0, [(5, [[1], [2]])]), (1, [(6, [[2]])])] := by decide +kernel
/-- `RemoveUselessStates` / `GetCandidateTree` / `Reverse` of object 1 (after its last write) -/
example : (absFA (exec faOps) 5).map (·.trans) = some [(1, [(6, [[2], [0]])]), (0, [(5, [[1]])])] := by decide +kernel
example : absFA (exec faOps) 6 = absFA (exec faOps) 5 := by decide +kernel
example : (absFA (exec faOps) 7).map (fun v => (v.toNFA.start, v.toNFA.final, v.toNFA.trans)) =
    some ([2], [0], [(1, 5, 0), (2, 6, 1), (0, 6, 1), (0, 5, 3)]) := by decide +kernel
/-- the copy of the union, reindexed into: the copy shares the map node, `ReindexStates` makes it private -/
example : (absFA (exec faOps) 8).map (·.mem.final) = some [2, 11, 12, 0] := by decide +kernel
example : absFA (exec faOps) 9 = none := by decide +kernel
/-- sharing really happens: after `UnionDisjointStates` and `RemoveUnreachableStates` the cluster of state 0 of object 1 is
used by three map nodes -/
example : (exec (faOps.take 12)).core.crc 1 = 3 ∧ (exec (faOps.take 12)).core.ml.length = 4 := by decide +kernel

/-! ### isolation -/

/-- a mutation through one handle never changes the value read through another handle; the operands of a library
function keep their values; nothing but the target of an operation comes to life or dies -/
theorem C11_fa_history_isolation (H : HeapFA) (op : Op) (x : Nat) (hI : InvFA H) (hx : x ≠ target op) :
    absFA (CowHeapFA.step H op) x = absFA H x :=
  step_other hI op x hx

/-- results keep their value when operands are mutated or destroyed: along every continuation of a history none of whose
operations targets `x`, the value read through `x` stays what it was -/
theorem C11_fa_result_keeps_value (ops₁ ops₂ : List Op) (x : Nat) (hx : ∀ op, op ∈ ops₂ → x ≠ target op) :
    absFA (exec (ops₁ ++ ops₂)) x = absFA (exec ops₁) x := by
  unfold exec
  rw [List.foldl_append]
  exact untouched_keeps_value (fa_history_inv ops₁) ops₂ x hx

/-- the union of objects 1 and 2 keeps its value when both operands are written to and then destroyed -/
example : absFA (exec ((faOps.take 11) ++ [.add 1 0 5 9, .setFinal 2 3, .destroy 1, .destroy 2])) 3 =
    absFA (exec (faOps.take 11)) 3 :=
  C11_fa_result_keeps_value _ _ 3 (by decide +kernel)
example : (absFA (exec (faOps.take 11)) 3).isSome = true := by decide +kernel

/-- the specification itself: an operation changes the value of its target only -/
theorem C11_fa_spec_independent (a : Nat → Option FAVal) (op : Op) (x : Nat) (hx : x ≠ target op) :
    specStep a op x = a x :=
  specStep_other a op x hx

/-! ### use counts, no garbage -/

/-- after every history: every `use_count` equals the number of referrers (handles for map nodes, entries of allocated map
nodes for cluster nodes), all pointers go to allocated nodes, every allocated node is in use; the executable checker
decides this -/
theorem C11_fa_use_counts (ops : List Op) :
    let H := (exec ops).core
    (∀ m, m ∈ H.ml → H.mrc m = CowHeap.indeg H.hl (fun h => [H.hmap h]) m ∧ 0 < H.mrc m) ∧
    (∀ c, c ∈ H.cl → H.crc c = CowHeap.indeg H.ml (CowHeap.mout H) c ∧ 0 < H.crc c) ∧
    (∀ h, h ∈ H.hl → H.hmap h ∈ H.ml) ∧ (∀ m, m ∈ H.ml → ∀ c, c ∈ CowHeap.mout H m → c ∈ H.cl) ∧
    invBFA (exec ops) = true := by
  have hI := fa_history_inv ops
  refine ⟨fun m hm => ⟨?_, hI.mpos m hm⟩, fun c hc => ⟨?_, hI.cpos c hc⟩, hI.hm, hI.mc, (invBFA_iff _).mpr hI⟩
  · have := hI.mrc m hm
    simp only [List.count_nil, Nat.add_zero] at this
    exact this
  · have := hI.crc c hc
    simpa using this

/-- nothing leaks: when all handles of a history have died – including the temporaries of `RemoveUselessStates` and
`GetCandidateTree`, which the operations destroy themselves – no map node and no cluster node is left -/
theorem C11_fa_no_garbage (ops : List Op) (hl : (exec ops).core.hl = []) :
    (exec ops).core.ml = [] ∧ (exec ops).core.cl = [] :=
  fa_no_garbage (fa_history_inv ops) hl

/-- the temporaries are gone after the operation: only the objects of the history are alive … -/
example : (exec faOps).core.hl = [8, 7, 6, 5, 4, 3, 2, 1] := by decide +kernel
example : (exec (faOps ++ (List.range 9).map Op.destroy)).core.hl = [] := by decide +kernel
/-- … and destroying them frees every node (41 identifiers were handed out) -/
example : (exec (faOps ++ (List.range 9).map Op.destroy)).core.ml = [] ∧
    (exec (faOps ++ (List.range 9).map Op.destroy)).core.cl = [] :=
  C11_fa_no_garbage _ (by decide +kernel)

/-- the invariant hypothesis of `C11_fa_refines_values` is needed: on a heap whose cluster `use_count`s are too small, a write
through the result of `RemoveUnreachableStates` is done in place and changes the operand -/
theorem C11_fa_inv_needed :
    let Hbad : HeapFA :=
      { exec [.new 1, .setStart 1 0 7, .add 1 0 5 1, .unreach 1 2] with
        core := { (exec [.new 1, .setStart 1 0 7, .add 1 0 5 1, .unreach 1 2]).core with crc := fun _ => 1 } }
    invBFA Hbad = false ∧ absFA (CowHeapFA.step Hbad (.add 2 0 6 0)) 1 ≠ absFA Hbad 1 := by decide +kernel

/-! ### regression: the two tempting simplifications break isolation -/

/-- `uniqueCluster` without its `else if (!clusterPtr.unique())` clone ("the map is private, so its clusters are"):
after `UnionDisjointStates` the union's private map holds the cluster POINTERS of the right operand; a write to the union
then changes the right operand.  The class as coded does not. -/
theorem C11_fa_regression_uniqueCluster_union :
    let ops : List Op := [.new 1, .add 1 0 5 1, .new 2, .add 2 10 5 11, .unionDisj 1 2 3]
    absFA (stepNoClusterTest (ops.foldl stepNoClusterTest initFA) (.add 3 10 6 12)) 2 ≠
      absFA (ops.foldl stepNoClusterTest initFA) 2 ∧
    absFA (CowHeapFA.step (exec ops) (.add 3 10 6 12)) 2 = absFA (exec ops) 2 := by decide +kernel

/-- the same variant after a trimming result: `RemoveUnreachableStates` returns an object with a private map node whose
entries are the operand's cluster pointers; a write to the result changes the operand -/
theorem C11_fa_regression_uniqueCluster_unreach :
    let ops : List Op := [.new 1, .setStart 1 0 7, .add 1 0 5 1, .unreach 1 2]
    absFA (stepNoClusterTest (ops.foldl stepNoClusterTest initFA) (.add 2 0 6 0)) 1 ≠
      absFA (ops.foldl stepNoClusterTest initFA) 1 ∧
    absFA (CowHeapFA.step (exec ops) (.add 2 0 6 0)) 1 = absFA (exec ops) 1 := by decide +kernel

/-- `UnionDisjointStates` inserting into `res.transitions_` without `uniqueClusterMap()`: `res` is a COPY of `lhs` and
shares its map node, so the left operand acquires the transitions of the right one -/
theorem C11_fa_regression_union_uniqueClusterMap :
    let ops : List Op := [.new 1, .add 1 0 5 1, .new 2, .add 2 10 5 11]
    absFA (stepNoUniqueMap (exec ops) (.unionDisj 1 2 3)) 1 ≠ absFA (exec ops) 1 ∧
    absFA (CowHeapFA.step (exec ops) (.unionDisj 1 2 3)) 1 = absFA (exec ops) 1 := by decide +kernel

/-! ### the executable history runner -/

/-- `run ops` is what a driver compares with the real class: for every non-empty prefix of the history, the live handles
with the values read through them … -/
theorem C11_fa_run (ops : List Op) :
    run ops = (List.range ops.length).map (fun i => observe (exec (ops.take (i + 1)))) ∧
    ∀ (H : HeapFA) (h : Nat) (v : FAVal), (h, v) ∈ observe H ↔ absFA H h = some v :=
  ⟨run_eq ops, mem_observe⟩

/-- … which are the values of the independent-values specification -/
theorem C11_fa_run_spec (ops : List Op) (i : Nat) (h : Nat) (v : FAVal) :
    (h, v) ∈ observe (exec (ops.take (i + 1))) ↔ (ops.take (i + 1)).foldl specStep specInit h = some v := by
  rw [mem_observe, fa_history_isolation]

example : (run faOps).length = 21 ∧ ((run faOps)[10]?).map (·.map Prod.fst) = some [1, 2, 3] := by decide +kernel

/-! ### totality of the reachability loop -/

/-- the fuel of `reachStates` (the work-list loop of `RemoveUnreachableStates`, used by `vUnreach`, `vUseless`, `vCandidate`)
suffices: with any larger fuel the loop returns the same `reachableStates`, i.e. it has stopped because `newStates` is empty
(every iteration pops one state, and a state is pushed only when it is inserted into `reachableStates` for the first time) -/
theorem C11_fa_reach_fuel (v : FAVal) (k : Nat) :
    reachLoop v.trans ((v.mem.start.foldl Vata.insN []).length + (transOf v.trans).length + 1 + k)
        (v.mem.start.foldl Vata.insN []) (v.mem.start.foldl Vata.insN []).reverse =
      reachStates v :=
  reachStates_fuel v k

example : reachStates ⟨⟨[2], [0, 0], []⟩, [(0, [(5, [[1]])]), (1, [(6, [[2], [0]])]), (3, [(5, [[0]])])]⟩ = [0, 1, 2] := by
  decide +kernel

/-- the same for the search loop of `GetCandidateTree` (`candSearch`, used by `vCandRaw` / `vCandidate`) -/
theorem C11_fa_candidate_fuel (v : FAVal) (k : Nat) :
    candLoop v (v.mem.start.length + (transOf v.trans).length + 1 + k)
        (candStart v v.mem.start ⟨[], [], ⟨[], [], []⟩, [], false⟩) = candSearch v :=
  candSearch_fuel v k

/-- the search stops at the first final state found: only the clusters of the states expanded so far are taken -/
example : (candSearch ⟨⟨[2], [0], [(0, [7])]⟩, [(0, [(5, [[1]])]), (1, [(6, [[2], [0]])]), (3, [(5, [[0]])])]⟩).keys = [0, 1] ∧
    (candSearch ⟨⟨[2], [0], [(0, [7])]⟩, [(0, [(5, [[1]])]), (1, [(6, [[2], [0]])]), (3, [(5, [[0]])])]⟩).done = true := by
  decide +kernel

/-! ### what the values denote -/

/-- the setters on `FAVal` are the setters of the automaton model `NFAS` of `Vata/NfaStart.lean` -/
theorem C11_fa_denote_setters (v : FAVal) (q a : Nat) (S : List Nat) :
    (vSetFinal q v).toNFAS = nfasSetFinal v.toNFAS q ∧ (vSetStart q a v).toNFAS = nfasSetStart v.toNFAS q a ∧
    (vSetExistingStart q S v).toNFAS = nfasSetExistingStart v.toNFAS q S ∧ vNew.toNFAS = nfasEmpty :=
  ⟨rfl, rfl, rfl, rfl⟩

example : (vAdd 0 5 1 (vAdd 0 5 2 vNew)).toNFA.trans = [(0, 5, 2), (0, 5, 1)] := by decide +kernel

/-!
## still not proved

* That `vUnreach` / `vReverse` / `vUseless` / `vCandidate` / `vUnionDisj` / `vReindex` / `vAdd` denote (via
  `FAVal.toNFAS`, up to the order of the lists) the operations `nfasRemoveUnreachable` … `nfasAddTrans` of
  `Vata/NfaStart.lean` whose language theorems are C10's.  Only the three setters and the empty automaton are linked
  (`C11_fa_denote_setters`, by `rfl`).  The copy-on-write theorems above do not depend on it.
* `Union(lhs, rhs)` is given as the operation list `unionOps` (`new`, `reindex`, `reindex`) with pure index functions; the
  stateful translator `StateToStateTranslWeak` is not modelled here (C10 has `Vata/UnionIsectMaps.lean` for it).
* `Intersection`, `Complement` (not implemented in the C++), `CheckInclusion`, the simulation functions and
  `TranslateToLTS` only read their operands or build results by `AddTransition`; they are not spelled out as operations.
  `loadFromAutDescInternal` is a sequence of `setFinal` / `setStart` / `add`.
* The interleaving of reads of the operand with writes to the result inside `ReindexStates` / `Reverse` is modelled by
  reading the operand's value first; that this is the same is a consequence of isolation but is not stated as a theorem
  about a finer-grained model.  The transient `use_count` increments of local `shared_ptr` copies (`auto clusterMap`,
  `auto cluster`, the by-value loop variables of `Reverse` / `GetCandidateTree`) are not modelled (nothing tests them).
* `alphabet_` (a `shared_ptr` to the symbol dictionary, copied by every copy) and `globalAlphabet_` are not modelled.
* As for the other heap models: that `step` is a faithful transcription of the C++ is not a theorem; the link is the driver
  comparison of `run` with the real class.
-/
end Vata.Props
