import Vata.Proofs.ClearShared
/-!
# C11 / C12 – `Clear()` on a rule container that is still shared with another object

> C11: After an explicit tree or finite automaton is copied, assigned or moved, any later modification of one object (adding
> rules, changing final states, clearing) is never visible through another object …
> C12: a copy taken before a modification (a snapshot) keeps showing the old contents.

This file is about one operation, `ExplicitTreeAutCore::Clear()` (`src/explicit_tree_aut_core.hh`), at the moment when the
`transitions_` pointer of the object is shared with another object ("snapshot, Clear, rebuild"):

```
void Clear()
{
	assert(nullptr != transitions_);
	if (!transitions_.unique())
	{
		transitions_ = StateToTransitionClusterMapPtr(new StateToTransitionClusterMap());
	}
	else
	{ // TODO Is this clear enough?
		this->uniqueClusterMap()->clear();
	}
	this->EraseFinalStates();          // void EraseFinalStates() { finalStates_.clear(); }
}
```

* **How the C++ is read.**  `ClearShared.clearCoded` on `CowHeapX.HeapX` (three-level reference-counted heap + `finalStates_`
  per handle): test `mrc (hmap h) = 1` (`unique()`); shared ⇒ `clearSharedCore` = allocate a FRESH empty map node, swap it
  into `transitions_`, release the old pointer (use count − 1, entries untouched); unique ⇒ `clearUniqueCore` = empty the node
  in place and release the cluster pointers it held; then, on both paths, `finalStates_` := ∅.  This is literally the
  existing `CowHeapX.stepX _ (.clear h)` (`C11_clear_coded`).
* **The seeded variant** `ClearShared.stepClearEarly`: the shared path ends with `return;` – `EraseFinalStates()` is only
  reached on the unique path.  Histories that may use it: `ClearShared.OpV` / `stepV`.
* **Specification.**  `Store.clear` = the empty automaton `Store.empty` (no rules, no final states) for the cleared handle,
  all other handles keep their value (`CowHeapX.specStepX`).
* **Abstracted:** as in `Vata/CowHeapX.lean` (hash-container iteration order → list order; tuples are values); `assert`s
  are not modelled (a `Clear()` of a dead / moved-from object is a no-op in the model).

Hypothesis `InvX H` (reference counts = number of referrers, at all three levels) holds for every reachable heap
(`CowHeapX.history_invX`, and `ClearShared.history_invV` for histories with the variant); it cannot be dropped
(`Hwrong`, `Hzero` below).
-/
namespace Vata.Props
open Vata
open Vata.CowHeapX (HOpX HeapX stepX absX initX InvX invBX)
open Vata.ClearShared (clearCoded stepClearEarly OpV stepV sharedWithFinals runV)

/-! ### 1. what `Clear()` does -/

/-- the control flow of `Clear()` written out (`clearCoded`: `unique()` test, fresh map / clear in place,
`EraseFinalStates()` on both paths) is the `clear` step of the heap model -/
theorem C11_clear_coded (H : HeapX) (h : Nat) : clearCoded H h = stepX H (.clear h) :=
  ClearShared.clearCoded_eq H h

/-- shared container (`!transitions_.unique()`): the object is re-pointed to a node that did not exist before and is
empty; the old node keeps its entries and loses exactly one reference; no other handle is re-pointed; final states of `h`
erased -/
theorem C11_clear_shared_allocates_fresh_map (H : HeapX) (hI : InvX H) (h : Nat) (hh : h ∈ H.core.hl)
    (hs : H.core.mrc (H.core.hmap h) ≠ 1) :
    let H' := stepX H (.clear h)
    H'.core.hmap h = H.core.next ∧ H.core.next ∉ H.core.ml ∧ H'.core.ment H.core.next = [] ∧
    H'.core.ment (H.core.hmap h) = H.core.ment (H.core.hmap h) ∧
    H'.core.mrc (H.core.hmap h) = H.core.mrc (H.core.hmap h) - 1 ∧
    (∀ x, x ≠ h → H'.core.hmap x = H.core.hmap x) ∧ H'.fin h = [] :=
  ClearShared.clear_shared_shape hI hh hs

/-- unique container: no handle is re-pointed, the node of `h` is emptied in place; final states of `h` erased -/
theorem C11_clear_unique_in_place (H : HeapX) (h : Nat) (hh : h ∈ H.core.hl) (hu : H.core.mrc (H.core.hmap h) = 1) :
    let H' := stepX H (.clear h)
    H'.core.hmap = H.core.hmap ∧ H'.core.ment (H.core.hmap h) = [] ∧ H'.fin h = [] :=
  ClearShared.clear_unique_shape hh hu

/-- **`Clear()` is exact**, from any heap with the reference-count invariant: afterwards the value of `h` is the empty
automaton – no rules and NO final states – and every other handle (in particular every copy that shared the container)
keeps its value -/
theorem C11_clear_exact_inv (H : HeapX) (hI : InvX H) (h : Nat) (hh : h ∈ H.core.hl) :
    absX (stepX H (.clear h)) h = some Store.empty ∧ ∀ x, x ≠ h → absX (stepX H (.clear h)) x = absX H x :=
  ClearShared.clear_exact hI hh

/-- **`Clear()` is exact in ANY reachable heap** (after any history of `HOpX` operations from the empty heap) -/
theorem C11_clear_exact (ops : List HOpX) (h : Nat) (hh : h ∈ (ops.foldl stepX initX).core.hl) :
    absX (stepX (ops.foldl stepX initX) (.clear h)) h = some Store.empty ∧
    ∀ x, x ≠ h → absX (stepX (ops.foldl stepX initX) (.clear h)) x = absX (ops.foldl stepX initX) x :=
  ClearShared.clear_exact (CowHeapX.history_invX ops) hh

/-- `Clear()` of a dead (destroyed / moved-from) object: nothing changes -/
theorem C11_clear_dead (H : HeapX) (hI : InvX H) (h : Nat) (hh : h ∉ H.core.hl) : absX (stepX H (.clear h)) = absX H :=
  ClearShared.clear_dead hI hh

namespace ClearEx

/-- object 1 with the rule `5 ← 7()` and final state 5; object 2 is a copy (snapshot) that shares the map node -/
def opsShared : List HOpX := [.new 1, .add 1 5 (7, []), .setFinal 1 5, .copy 1 2 true true]
def Hs : HeapX := opsShared.foldl stepX initX
/-- the same without the copy -/
def Hu : HeapX := (opsShared.take 3).foldl stepX initX

end ClearEx
open ClearEx

/-- hypotheses of `C11_clear_shared_allocates_fresh_map` / `C11_clear_exact`: node 0 is shared (use count 2); after the
`Clear` object 1 has the new node 3, the snapshot still reads the old contents -/
example : 1 ∈ Hs.core.hl ∧ Hs.core.hmap 1 = 0 ∧ Hs.core.hmap 2 = 0 ∧ Hs.core.mrc 0 = 2 ∧ Hs.core.next = 3 ∧
    (stepX Hs (.clear 1)).core.hmap 1 = 3 ∧ (stepX Hs (.clear 1)).core.mrc 0 = 1 ∧
    absX (stepX Hs (.clear 1)) 1 = some Store.empty ∧
    absX (stepX Hs (.clear 1)) 2 = some ⟨[(5, [(7, [[]])])], [5]⟩ := by decide
/-- hypotheses of `C11_clear_unique_in_place` -/
example : 1 ∈ Hu.core.hl ∧ Hu.core.mrc (Hu.core.hmap 1) = 1 ∧ (stepX Hu (.clear 1)).core.hmap 1 = Hu.core.hmap 1 ∧
    absX (stepX Hu (.clear 1)) 1 = some Store.empty := by decide

/-- `InvX` cannot be dropped in `C11_clear_exact_inv`: with the use count of the shared node wrongly 1 the node is emptied
in place and the snapshot loses its rules -/
def ClearEx.Hwrong : HeapX := { Hs with core := { Hs.core with mrc := fun _ => 1 } }
example : invBX Hwrong = false ∧ absX Hwrong 2 = some ⟨[(5, [(7, [[]])])], [5]⟩ ∧
    absX (stepX Hwrong (.clear 1)) 2 = some ⟨[], [5]⟩ := by decide

/-! ### 2. the seeded early return -/

/-- **the seeded `Clear()` keeps old final states when a copy still shares the container**: history
`new; add; setFinal; copy; Clear` – with the variant the cleared object 1 still shows the final state 5 (with the real
`Clear()` it is the empty automaton); the SAME history without the `copy` is fine, which is why histories of a single
automaton object cannot see the change.  "snapshot, Clear, rebuild": after rebuilding with the rule `6 ← 7()` and final
state 6 the old final state 5 is still there. -/
theorem C11_clear_early_return_keeps_finals :
    runV [.std (.new 1), .std (.add 1 5 (7, [])), .std (.setFinal 1 5), .std (.copy 1 2 true true), .clearEarly 1] 1
      = some ⟨[], [5]⟩ ∧
    runV [.std (.new 1), .std (.add 1 5 (7, [])), .std (.setFinal 1 5), .std (.copy 1 2 true true), .std (.clear 1)] 1
      = some Store.empty ∧
    runV [.std (.new 1), .std (.add 1 5 (7, [])), .std (.setFinal 1 5), .clearEarly 1] 1 = some Store.empty ∧
    runV [.std (.new 1), .std (.add 1 5 (7, [])), .std (.setFinal 1 5), .std (.copy 1 2 true true), .clearEarly 1,
          .std (.add 1 6 (7, [])), .std (.setFinal 1 6)] 1 = some ⟨[(6, [(7, [[]])])], [5, 6]⟩ ∧
    runV [.std (.new 1), .std (.add 1 5 (7, [])), .std (.setFinal 1 5), .std (.copy 1 2 true true), .std (.clear 1),
          .std (.add 1 6 (7, [])), .std (.setFinal 1 6)] 1 = some ⟨[(6, [(7, [[]])])], [6]⟩ :=
  ⟨by decide, by decide, by decide, by decide, by decide⟩

/-- the snapshot itself is not disturbed by the variant either (the pointer work is the same as in `Clear()`): the defect
is in the value of the CLEARED object only -/
theorem C11_clear_early_other_handles (H : HeapX) (h x : Nat) (hx : x ≠ h) :
    absX (stepClearEarly H h) x = absX (stepX H (.clear h)) x :=
  ClearShared.absX_clearEarly_other H h hx

/-- the variant does the same pointer work and keeps the reference-count invariant -/
theorem C11_clear_early_same_core (H : HeapX) (h : Nat) :
    (stepClearEarly H h).core = (stepX H (.clear h)).core ∧ (InvX H → InvX (stepClearEarly H h)) :=
  ⟨ClearShared.stepClearEarly_core H h, fun hI => ClearShared.stepClearEarly_inv hI h⟩

/-- the value of the cleared object under the variant: no rules; final states erased only when the container was unique -/
theorem C11_clear_early_value (H : HeapX) (hI : InvX H) (h : Nat) (hh : h ∈ H.core.hl) :
    absX (stepClearEarly H h) h = some ⟨[], if H.core.mrc (H.core.hmap h) = 1 then [] else H.fin h⟩ :=
  ClearShared.absX_clearEarly_self hI hh

/-- **general statement**: from any heap with the invariant (hence any reachable one), the seeded variant differs from
`Clear()` EXACTLY when `sharedWithFinals H h` : `h` is live, its map node has use count > 1, and `h` has final states.
Otherwise the two resulting heaps are equal; in that case the difference is visible in the value of `h`. -/
theorem C11_clear_early_differs_iff (H : HeapX) (hI : InvX H) (h : Nat) :
    (stepClearEarly H h = stepX H (.clear h) ↔ ¬ sharedWithFinals H h) ∧
    (absX (stepClearEarly H h) = absX (stepX H (.clear h)) ↔ ¬ sharedWithFinals H h) ∧
    (sharedWithFinals H h →
      absX (stepClearEarly H h) h = some ⟨[], H.fin h⟩ ∧ absX (stepX H (.clear h)) h = some Store.empty ∧ H.fin h ≠ []) :=
  ⟨ClearShared.clearEarly_eq_iff hI h, ClearShared.clearEarly_absX_eq_iff hI h,
   fun hs => ⟨(ClearShared.clearEarly_keeps_finals hI hs).1, (ClearShared.clear_exact hI hs.1).1, hs.2.2⟩⟩

/-- the same along histories that already contain seeded `Clear()`s (their heaps satisfy the invariant too) -/
theorem C11_clear_early_differs_iff_history (ops : List OpV) (h : Nat) :
    stepClearEarly (ops.foldl stepV initX) h = stepX (ops.foldl stepV initX) (.clear h) ↔
      ¬ sharedWithFinals (ops.foldl stepV initX) h :=
  ClearShared.clearEarly_eq_iff (ClearShared.history_invV ops) h

example : sharedWithFinals Hs 1 ∧ ¬ sharedWithFinals Hu 1 := ⟨by decide, by decide⟩
/-- shared but no final states: no difference -/
example : ¬ sharedWithFinals (([.new 1, .add 1 5 (7, []), .copy 1 2 true true] : List HOpX).foldl stepX initX) 1 := by
  decide

/-- `InvX` cannot be dropped in `C11_clear_early_differs_iff`: with a use count 0 on a live object `unique()` fails (so the
early return is taken) although the count is not `> 1` -/
def ClearEx.Hzero : HeapX := { Hu with core := { Hu.core with mrc := fun _ => 0 } }
example : invBX Hzero = false ∧ ¬ sharedWithFinals Hzero 1 ∧
    absX (stepClearEarly Hzero 1) 1 ≠ absX (stepX Hzero (.clear 1)) 1 := ⟨by decide, by decide, by decide⟩

/-- **single-automaton histories cannot see the seeded change**: if only one handle `h` is ever the target of an operation
(construct, add rules, set / erase final states, `Clear`, destroy, construct again, …) the history runs identically with
the seeded `Clear()` – the container is never shared when `Clear` is called -/
theorem C11_clear_early_single_object_blind (ops : List OpV) (h : Nat)
    (ht : ∀ o, o ∈ ops → ∀ x, x ∈ o.targets → x = h) :
    ops.foldl stepV initX = (ops.map OpV.toStd).foldl stepX initX :=
  ClearShared.single_object_history ops h ht

example : ∀ o, o ∈ ([.std (.new 1), .std (.add 1 5 (7, [])), .std (.setFinal 1 5), .clearEarly 1] : List OpV) →
    ∀ x, x ∈ o.targets → x = 1 := by
  intro o ho x hx
  simp only [List.mem_cons, List.not_mem_nil, or_false] at ho
  rcases ho with e | e | e | e <;> subst e <;> simpa [OpV.targets, OpV.toStd, CowHeapX.targets] using hx

/-- the seeded `Clear()` is not an operation on values: no function of the value of `h` gives its result (the same value
with and without a snapshot around is cleared differently) – unlike `Clear()`, which is `Store.clear` -/
theorem C11_clear_early_not_value_level :
    ¬ ∃ f : Store.Store → Store.Store, ∀ (ops : List OpV) (h : Nat) (s : Store.Store),
      absX (ops.foldl stepV initX) h = some s → absX (stepClearEarly (ops.foldl stepV initX) h) h = some (f s) := by
  intro ⟨f, hf⟩
  have h1 := hf [.std (.new 1), .std (.add 1 5 (7, [])), .std (.setFinal 1 5), .std (.copy 1 2 true true)] 1
    ⟨[(5, [(7, [[]])])], [5]⟩ (by decide)
  have h2 := hf [.std (.new 1), .std (.add 1 5 (7, [])), .std (.setFinal 1 5)] 1 ⟨[(5, [(7, [[]])])], [5]⟩ (by decide)
  have e1 : absX (stepClearEarly (([.std (.new 1), .std (.add 1 5 (7, [])), .std (.setFinal 1 5),
      .std (.copy 1 2 true true)] : List OpV).foldl stepV initX) 1) 1 = some ⟨[], [5]⟩ := by decide
  have e2 : absX (stepClearEarly (([.std (.new 1), .std (.add 1 5 (7, [])), .std (.setFinal 1 5)] : List OpV).foldl
      stepV initX) 1) 1 = some ⟨[], []⟩ := by decide
  rw [e1] at h1
  rw [e2] at h2
  have := h1.trans h2.symm
  exact absurd this (by decide)

/-!
## still not proved

* Nothing of the task is open for the tree automaton core.  Not covered here: the finite-automaton class
  (`ExplicitFiniteAutCore`) has no `Clear()`; the wrapper level (`ExplicitTreeAut::Clear()` forwarding to the core) is the
  subject of `C12_Wrapper.lean` / `WrapperForward.lean` and is not re-done with the variant.
* `C11_clear_early_single_object_blind` is stated for histories whose every target is ONE handle; the more general
  "no two live handles ever share a map node at a `Clear`" (e.g. several objects, copies always with `copyTrans = false`)
  is covered only through `C11_clear_early_differs_iff_history`, not as a closed syntactic criterion.
-/

end Vata.Props
