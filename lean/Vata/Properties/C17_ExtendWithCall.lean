import Vata.Proofs.ExtendWithCall
import Vata.Properties.C17_StoreCanon
/-!
# C17 / C08 – the library's one `ExtendWith` call is inside the precondition that canonicity needs

> (C17) Two MTBDDs compare equal exactly when they denote the same function.
> (C08) The symbolic transition tables denote the rule sets of the automata (here: `GetTopDownAut`).

`Vata/Properties/C17_StoreCanon.lean` proves canonicity of the node store for the full operation set under the side condition
`RcSX.opOk`: every executed `ExtendWith(asgn, offset)` has `root variable < offset`
(`C17_store_low_offset_extendWith_breaks_canonicity`: it is needed).  That file had not read the call site.  This one does.

## How the C++ is read

* `grep -rn ExtendWith src include cli`: the definition (`src/mtbdd/ondriks_mtbdd.hh:595`) and ONE call,
  `src/bdd_bu_tree_aut_core.cc:207` in `BDDBUTreeAutCore::GetTopDownAut`:

      SymbolType prefix(BDDTDTreeAutCore::SYMBOL_ARITY_LENGTH, checkedTuple.size());      // SYMBOL_ARITY_LENGTH = 6
      TransMTBDD extendedBdd = tupleBddPair.second.ExtendWith(prefix, Symbolic::SYMBOL_SIZE);   // SYMBOL_SIZE = 16

  inside `for (state : states) for (tupleBddPair : transTable_)`.  The operand is an MTBDD STORED in the bottom-up table
  (`ExtCall.stored T`: `nullaryMtbdd_` and the values of the hash map); the call is the first argument of
  `BddAbsTD.invertStep` (`ExtCall.invertStep_eq`, by `rfl`), `ExtCall.extendCalls` lists the calls of one `GetTopDownAut`.
* Which MTBDDs a bottom-up table stores (`SetMtbdd` is called at `bdd_bu_tree_aut_core.cc:66` `AddTransition`, `:114/:123`
  `ReindexStates` (an `Apply1`), `bdd_bu_tree_aut_union.cc:44/81`, `bdd_bu_tree_aut_union_disj.cc:43/58/61`,
  `bdd_bu_tree_aut_isect.cc:88/168`, `bdd_bu_tree_aut_unreach.cc:99/128` (copies), `bdd_bu_tree_aut_useless.cc:276` (an
  `Apply1`)): results of `Apply1` / `Apply2` over stored MTBDDs and over `TransMTBDD(symbol, {parent}, ∅)`, the cube of
  `symbol`.  `ExtCall.BuiltBU` is the closure of `Table.empty` under the models of these (`addCube`, `unionT`, `unionDisj`,
  `isectAt`, `removeUnreachableBU`, `removeUselessBU`).  Apply functors never introduce variables, a cube of length `n` uses the
  variables `< n`.
* The length of `symbol`: `LoadFromAutDescWithStateSymbolTransl` (`bdd_bu_tree_aut_core.hh:108`) throws unless
  `symbolStr.size() == SYMBOL_SIZE`; the `assert(symbol.length() == SYMBOL_SIZE)` in `BDDBUTreeAutCore::AddTransition`
  (`bdd_bu_tree_aut_core.cc:56`) is COMMENTED OUT and the public `BDDBottomUpTreeAut::AddTransition` forwards any
  `SymbolicVarAsgn`.  Hence the explicit hypothesis `asgn.length ≤ 16` in `BuiltBU.addCube`;
  `C17_long_symbol_leaves_the_precondition` shows what happens without it (a finding, see the end).

## Abstracted

Tables are association lists, state sets sorted lists; the hash-map iteration order does not matter for these statements.
`ReindexStates` with its stateful translator is modelled in `Vata/BddUnionCoded.lean` (`rewrite`), not as a `BuiltBU`
constructor.  At store level leaves are numbers: `mapLeaf c` recodes the state sets.
-/
namespace Vata.ExtCall.Ex
open Vata Vata.M Vata.BddAbs Vata.BddAbsTD Vata.ExtCall

/-- the table with the rules `1() → 1`, `2(1,1) → 2` as `AddTransition` stores it (literal cubes, so that `decide` can run) -/
def exT : Table := ⟨construct (symAsgn 1) [1] [], [([1, 1], construct (symAsgn 2) [2] [])]⟩

#guard (ofRules [⟨1, [], 1⟩, ⟨2, [1, 1], 2⟩]).nullary == exT.nullary
#guard (ofRules [⟨1, [], 1⟩, ⟨2, [1, 1], 2⟩]).entries == exT.entries

/-- a history of the store model: two cubes over the variables `0 … 2`, their union, and the two `ExtendWith(prefix, 16)` of a
`GetTopDownAut` (arity 2 and arity 0) -/
def exH : List RcSX.Op :=
  [.construct 0 [some true, none, some false] 5 0, .construct 1 [some false, some true] 7 0, .apply 0 1 2,
   .extendWith 2 3 (arAsgn 2) 16, .extendWith 1 4 (arAsgn 0) 16]

end Vata.ExtCall.Ex

namespace Vata.Props
open Vata Vata.M Vata.BddAbs Vata.BddAbsTD Vata.ExtCall Vata.ExtCall.Ex Vata.RcS Vata.RcSX

/-- (1) Every MTBDD stored in a bottom-up table built by the modelled operations (`AddTransition` with a symbol of at most 16
positions – any numbered symbol, `addTransition`, is one –, `Union`, `UnionDisjointStates`, `Intersection`, the two trimming
operations) is ordered and reduced, all its variables are `< SYMBOL_SIZE = 16`, in particular its root variable is; and the
table satisfies the invariant `TableWF` of the C08 files. -/
theorem C17_bu_table_vars_below_symbol_size {T : Table} (h : BuiltBU T) :
    (∀ m, m ∈ stored T → WF m ∧ (∀ v, v ∈ nodeVars m → v < symbolSize) ∧ rootLt symbolSize m = true) ∧ TableWF T :=
  ⟨fun m hm =>
    have g := entWF_stored.mp (entWF_built h) m hm
    ⟨g.1, below_iff_vars.mp g.2, rootLt_of_below g.2⟩,
   entWF_tableWF (entWF_built h)⟩

/-- the same from the hypotheses `TableOk`, `TableWF` the C08 theorems carry (so every table they speak about is covered) -/
theorem C17_bu_tableWF_vars_below_symbol_size {T : Table} (hO : TableOk T) (hW : TableWF T) :
    ∀ m, m ∈ stored T → WF m ∧ (∀ v, v ∈ nodeVars m → v < symbolSize) ∧ rootLt symbolSize m = true := fun m hm =>
  have g := entWF_stored.mp (tableWF_entWF hO hW) m hm
  ⟨g.1, below_iff_vars.mp g.2, rootLt_of_below g.2⟩

/-- every table loaded by `AddTransition`s of numbered symbols is `BuiltBU` (the bits above the 16th are not looked at) -/
theorem C17_ofRules_built (rs : List Rule) : BuiltBU (ofRules rs) := built_ofRules rs

/-- (2) The call `tupleBddPair.second.ExtendWith(prefix, SYMBOL_SIZE)` of `GetTopDownAut`, for every collected state and every
pair of a `BuiltBU` table: the operand is stored in the table, its root variable is `< offset = 16` (the precondition of
canonicity), the result `extendedBdd` – literally the diagram `invertStep` feeds to the inverter – is ordered and reduced
(`M.WF`, hence canonical: `C17` at tree level) and uses variables `< 22 = SYMBOL_SIZE + SYMBOL_ARITY_LENGTH` only; so does the
whole top-down table returned. -/
theorem C17_library_extendWith_call_inside_precondition {T : Table} (h : BuiltBU T) (final : List Nat) :
    (∀ c, c ∈ extendCalls T final →
      c.2.2 ∈ stored T ∧ rootLt symbolSize c.2.2 = true ∧
      (∀ acc, invertStep c.1 acc c.2 = apply2 (invertLeaf c.1 c.2.1) (extendedBdd c.2) acc) ∧
      WF (extendedBdd c.2) ∧ (∀ v, v ∈ nodeVars (extendedBdd c.2) → v < symbolSize + arityLength)) ∧
    TableTDWF (getTopDownAut T final) ∧ TableTDBelow (getTopDownAut T final) := by
  have hE := entWF_built h
  refine ⟨fun c hc => ?_, getTopDownAut_wf_of_entWF hE final⟩
  simp only [extendCalls, List.mem_flatMap, List.mem_map] at hc
  obtain ⟨p, _, e, he, hce⟩ := hc
  subst hce
  have g := pairs_good hE e he
  have hs : e.2 ∈ stored T := by
    rcases List.mem_cons.mp he with he | he
    · rw [he]; exact List.mem_cons_self
    · exact List.mem_cons_of_mem _ (List.mem_map_of_mem he)
  exact ⟨hs, rootLt_of_below g.2, fun acc => invertStep_eq p acc e, (extendedBdd_wf g).1,
    below_iff_vars.mp (extendedBdd_wf g).2⟩

/-- (2, store level) In the store model of `Vata/RcStoreX.lean`: if the live handle `a` holds (a leaf-recoded copy of) an MTBDD
stored in a `BuiltBU` table, then the library's call `.extendWith a dst prefix 16` satisfies the side condition `opOk` of
`Vata/RcStoreXMono.lean` (and the exact one, `opOkW`), whatever `prefix` and `dst`; hence, from a store satisfying the two
invariants, the call leaves the store hash-consed, ordered and reduced. -/
theorem C17_library_extendWith_call_store_opOk {T : Table} (h : BuiltBU T) {m : MT} (hm : m ∈ stored T)
    (c : List Nat → Nat) {s : Store} {a ra : Nat} (ha : find a s.hs = some ra)
    (hd : unfold s.dat (ra+1) ra = mapLeaf c m) (dst : Nat) (pre : List (Option Bool)) :
    opOk s (.extendWith a dst pre symbolSize) = true ∧
    (WInv s [] → WfInv s → opOkW s (.extendWith a dst pre symbolSize) = true ∧
      ∀ F dv, WInv (stepS F dv s (.extendWith a dst pre symbolSize)) [] ∧
        WfInv (stepS F dv s (.extendWith a dst pre symbolSize))) := by
  have g := entWF_stored.mp (entWF_built h) m hm
  have ok : opOk s (.extendWith a dst pre symbolSize) = true :=
    opOk_extendWith_of_below dst pre ha (by rw [hd]; exact (below_mapLeaf c).mpr g.2)
  refine ⟨ok, fun hw w => ?_⟩
  have okw := opOkW_of_opOk _ hw w ok
  exact ⟨okw, fun F dv => C17_store_wf_step F dv s _ hw w okw⟩

/-- the general form: any live handle whose diagram only has variables below the offset -/
theorem C17_store_extendWith_opOk_of_vars_below {s : Store} {a ra offset : Nat} (ha : find a s.hs = some ra)
    (hv : ∀ v, v ∈ nodeVars (unfold s.dat (ra+1) ra) → v < offset) (dst : Nat) (pre : List (Option Bool)) :
    opOk s (.extendWith a dst pre offset) = true :=
  opOk_extendWith_of_below dst pre ha (below_iff_vars.mpr hv)

/-- The bound on the symbol length in `BuiltBU.addCube` cannot be dropped, and the C++ does not enforce it in
`AddTransition` (the `assert` is commented out): after `AddTransition((), symbol, 1)` with a 17-position symbol whose last
position is `ONE`, the stored MTBDD has root variable 16, the call `ExtendWith(prefix, 16)` of `GetTopDownAut` is OUTSIDE the
precondition and `extendedBdd` has two nodes with variable 16 on one path: it is not ordered. -/
theorem C17_long_symbol_leaves_the_precondition :
    longCube.length = 17 ∧ stored ⟨construct longCube [1] [], []⟩ = [.node 16 (.leaf []) (.leaf [1])] ∧
    rootLt symbolSize (Node.node 16 (.leaf []) (.leaf [1]) : MT) = false ∧
    extendedBdd ([], .node 16 (.leaf []) (.leaf [1])) =
      .node 21 (.node 20 (.node 19 (.node 18 (.node 17 (.node 16 (.node 16 (.leaf []) (.leaf [1])) (.leaf [])) (.leaf []))
        (.leaf [])) (.leaf [])) (.leaf [])) (.leaf []) ∧
    ¬ WF (extendedBdd ([], .node 16 (.leaf []) (.leaf [1]))) := by
  refine ⟨by decide, by decide, by decide, by decide, ?_⟩
  rw [← wfB_iff]
  decide

#guard longTable.nullary == (.node 16 (.leaf []) (.leaf [1]) : MT)

/-! ### non-vacuity -/

-- (3) a `decide`d run on a small table: both calls of `GetTopDownAut` (arity 0 on the nullary MTBDD, arity 2 on the MTBDD of
-- the tuple (1,1)) have their root variable (15) below 16, the results are ordered, reduced and over the variables `< 22`
example : (stored exT).map nodeVars =
    [[15, 14, 13, 12, 11, 10, 9, 8, 7, 6, 5, 4, 3, 2, 1, 0], [15, 14, 13, 12, 11, 10, 9, 8, 7, 6, 5, 4, 3, 2, 1, 0]] := by decide
example : (pairs exT).all (fun e => rootLt 16 e.2 && wfB (extendedBdd e) && belowB 22 (extendedBdd e)) = true := by decide
example : (pairs exT).map (fun e => (nodeVars (extendedBdd e)).take 7) =
    [[21, 20, 19, 18, 17, 16, 15], [21, 20, 19, 18, 17, 16, 15]] := by decide
-- the hypotheses of the theorems hold of it and of the loaded tables
example : EntWF exT := entWF_stored.mpr (fun m hm => by
  have h : (stored exT).all (fun m => wfB m && belowB 16 m) = true := by decide
  have := List.all_eq_true.mp h m hm
  simp only [Bool.and_eq_true] at this
  exact ⟨wfB_iff.mp this.1, belowB_iff.mp this.2⟩)
example : BuiltBU (ofRules BddAbsTDEx.rsA) := C17_ofRules_built _
example : BuiltBU (unionDisj (ofRules BddAbsTDEx.rsA) (removeUselessBU (ofRules BddAbsTDEx.rsA) BddAbsTDEx.finA).1) :=
  .unionDisj (C17_ofRules_built _) (.useless _ (C17_ofRules_built _))
example : (extendCalls (ofRules BddAbsTDEx.rsA) BddAbsTDEx.finA).length = 16 := by decide
-- store level: the history with the two calls is `Mono`, so canonicity (`C17_store_equality_extended`) applies to it
example : Mono stdFns exH := by decide
example : (runX stdFns exH).st.hs = [(4, 21), (3, 15), (2, 9), (1, 6), (0, 3)] := by decide
example : nodeVars (unfold (runX stdFns exH).st.dat 16 15) = [21, 20, 19, 18, 17, 16, 2, 1, 0, 0, 1, 0] := by decide
example : find 2 (runX stdFns (exH.take 3)).st.hs = some 9 ∧
    nodeVars (unfold (runX stdFns (exH.take 3)).st.dat 10 9) = [2, 1, 0, 0, 1, 0] := by decide

/-!
## Remark: `Rename`

`grep -rn "Rename\b\|renameNode" src include cli unit_tests`: `OndriksMTBDD::Rename` (`src/mtbdd/ondriks_mtbdd.hh:751`) and
`renameNode` (`:427`, recursive calls `:446/:447`, called from `Rename` `:756`) are DEFINED there and called from NO library or
CLI code path (`src/`, `include/`, `cli/`).  The only caller is the unit test `renaming`
(`unit_tests/ondriks_mtbdd_c_test.cc:909`) with the renamer `x_i ↦ y_i` (`i = 0 … 3`) whose indices come from a first-use
dictionary (`translateVarNameToIndex`, `:352`): `x0 … x3` get `0 … 3` from the first test formula, the `y_i` get `4, 5, …` in
the order in which `renameNode` first finishes a node of `x_i` (post-order; on the test diagram `x0, x1, x2, x3`), i.e. the
renamer is monotone there; a non-monotone one would trip the `assert`s of `renameNode` in that (debug) test build.
So: no library code path calls `Rename` with a non-monotone renamer – none calls it at all; likewise `GetMtbddForPrefix` has one
caller (`src/bdd_td_tree_aut_core.hh:616`, offset `SYMBOL_SIZE`).  (Read from the sources; the order of the dictionary in the
unit test was traced by hand, not proved.)

## still not proved

* FINDING (not a theorem about the C++, a reading): nothing in `BDDBUTreeAutCore::AddTransition` bounds `symbol.length()` (the
  `assert` at `bdd_bu_tree_aut_core.cc:56` is commented out; the top-down twin `bdd_td_tree_aut_core.cc:86` has it).  Only
  `LoadFromAutDesc…` checks the length.  A client calling the public `BDDBottomUpTreeAut::AddTransition` with a longer symbol
  gets MTBDDs outside `Below 16`, and a later `GetTopDownAut` stacks the arity variables `16 … 21` on them without any test
  (`C17_long_symbol_leaves_the_precondition`): unordered diagrams in the shared store, canonicity lost.  With the CLI (which
  only loads) the precondition holds.
* `ReindexStates` (`Apply1` with the stateful translator, `Vata/BddUnionCoded.lean` `rewrite` / `reindexBU`) is not a
  constructor of `BuiltBU`; it is an `Apply1`, so `apply1_wf` / `apply1_below` would give the same, but the coded `Union` /
  `Intersection` of `BddUnionCoded` / `BddIsect` are not connected to `BuiltBU` here (only their table-level operations are).
* Store level: `C17_library_extendWith_call_store_opOk` ASSUMES that the handle holds the diagram of a stored table MTBDD
  (`unfold … = mapLeaf c m`).  There is no theorem that a store HISTORY consisting of `construct`s with `asgn.length ≤ 16`,
  applies and `extendWith … 16` on never-extended operands is `Mono` (it needs the invariant "every handle that was not produced
  by `extendWith` is `Below 16`" over `RcSX.runX`); `exH` is one `decide`d instance.
* The top-down MTBDDs (variables `< 22`) are never extended by the library; that no second `ExtendWith` hits an already extended
  diagram is read from the call site (the operand type is a bottom-up table entry), not a theorem over a whole-library model.
-/
end Vata.Props
