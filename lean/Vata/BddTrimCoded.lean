import Vata.BddTrimGraph
/-!
# `BDDTDTreeAutCore::RemoveUselessStates` as coded (`src/bdd_td_tree_aut_useless.cc`, property C08)

The C++ (1) builds an AND/OR graph over the states reached from the final states: an OR node per state, an AND node per
NON-EMPTY children tuple (shared between the states that have it), edges `state node → tuple node` for the states of the
tuple and `tuple node → state node` for the parents of the tuple, the nodes of the states with an empty tuple are the
terminal nodes; (2) propagates usefulness bottom-up: there is NO counter – a popped (useful) OR node is ERASED from the
ingress set of each AND node it points to and the AND node is satisfied when that `std::set` becomes EMPTY; (3) restricts
the MTBDDs to the useful states and calls `RemoveUnreachableStates` on the result.

Abstraction (as in `Vata/BddAbsTD.lean`): the functor is called once per leaf of the MTBDD of the state
(`voidApply1`), the tuples of the leaves in order are `leafTuples`.  Hash containers (`termNodes`, `usefulStates`, the two
dictionaries, `GetFinalStates()`) and the `std::set`s of the graph are lists in insertion order.  The `assert(false)`
branches ("fail gracefully") are not modelled as exits: a failed `FindFwd` yields state `0`; the proofs show the lookups
succeed.  Loops with a work-list take fuel and return `none` when it runs out (bounds: `Vata/Proofs/BddTrimCodedTotal.lean`).

Definitions only.
-/
namespace Vata
namespace BddTrimCoded
open M BddAbs BddAbsTD

/-- the variables of `RemoveUselessStates` during the construction of the graph -/
structure Build where
  G : Graph
  /-- `workset`: a stack of (node, state) -/
  ws : List (Nat × Nat)
  /-- `orNodes` -/
  orN : List (Nat × Nat)
  /-- `andNodes` -/
  andN : List (Nat × List Nat)
  /-- `termNodes` -/
  term : List Nat

/-- the body of `for (const StateType& state : tuple)` for the new AND node `a`:
```
if ((itOrNodes = orNodes_.FindBwd(state)) != orNodes_.EndBwd()) { stateNode = itOrNodes->second; }
else { stateNode = graph_.AddNode(); NodeStatePair translPair(stateNode, state);
       orNodes_.insert(translPair); workset_.push(translPair); }
graph_.AddEdge(stateNode, tupleNode);
``` -/
def stateStep (a : Nat) (B : Build) (s : Nat) : Build :=
  match findBwd B.orN s with
  | some n => { B with G := B.G.addEdge n a }
  | none =>
    let n := B.G.addNode.2
    { B with G := B.G.addNode.1.addEdge n a, orN := B.orN ++ [(n, s)], ws := (n, s) :: B.ws }

/-- the body of `for (const StateTuple& tuple : value)` of `AndOrGraphConstrFunctor::ApplyOperation` (`proc` = `procNode_`):
```
if (tuple.empty()) { termNodes_.insert(procNode_); }
else { if ((itAndNode = andNodes_.FindBwd(tuple)) != andNodes_.EndBwd()) { tupleNode = itAndNode->second; }
       else { tupleNode = graph_.AddNode(); andNodes_.insert(std::make_pair(tupleNode, tuple));
              for (const StateType& state : tuple) { … } }
       graph_.AddEdge(tupleNode, procNode_); }
``` -/
def tupleStep (proc : Nat) (B : Build) (tuple : List Nat) : Build :=
  if tuple.isEmpty then { B with term := ins proc B.term }
  else
    match findBwd B.andN tuple with
    | some a => { B with G := B.G.addEdge a proc }
    | none =>
      let a := B.G.addNode.2
      let B' := tuple.foldl (stateStep a) { B with G := B.G.addNode.1, andN := B.andN ++ [(a, tuple)] }
      { B' with G := B'.G.addEdge a proc }

/-- `for (const StateType& fst : this->GetFinalStates())
  { NodeStatePair translPair(graph.AddNode(), fst); orNodes.insert(translPair); workset.push(translPair); }` -/
def initBuild (final : List Nat) : Build :=
  final.foldl (fun B f => { B with G := B.G.addNode.1, orN := B.orN ++ [(B.G.addNode.2, f)], ws := (B.G.addNode.2, f) :: B.ws })
    ⟨Graph.empty, [], [], [], []⟩

/-- `while (!workset.empty()) { procPair = workset.top(); workset.pop(); func(this->GetMtbdd(procPair.second)); }` -/
def buildLoop (T : TableTD) : Nat → Build → Option Build
  | fuel, B =>
    match B.ws with
    | [] => some B
    | (n, s) :: ws =>
      match fuel with
      | 0 => none
      | fuel + 1 => buildLoop T fuel ((leafTuples (getTD T s)).foldl (tupleStep n) { B with ws := ws })

/-- the variables of the analysis of useful states -/
structure Mark where
  G : Graph
  /-- `nodeStack` -/
  stk : List Nat
  /-- `usefulStates` -/
  useful : List Nat

/-- `orNodes.FindFwd(node)->second` (`assert(false)` when absent) -/
def stateOf (orN : List (Nat × Nat)) (n : Nat) : Nat := (findFwd orN n).getD 0

/-- `for (const NodeType& node : termNodes) { nodeStack.push(node); … usefulStates.insert(itOrNode->second); }` -/
def initMark (B : Build) : Mark :=
  B.term.foldl (fun P n => { P with stk := n :: P.stk, useful := ins (stateOf B.orN n) P.useful }) ⟨B.G, [], []⟩

/-- `for (const NodeType& orNode : Graph::GetEgress(andNode))`:
```
const StateType& state = itDict->second;
if (usefulStates.find(state) == usefulStates.end()) { usefulStates.insert(state); nodeStack.push(orNode); }
``` -/
def markStep (orN : List (Nat × Nat)) (P : Mark) (m : Nat) : Mark :=
  if P.useful.contains (stateOf orN m) then P
  else { P with useful := P.useful ++ [stateOf orN m], stk := m :: P.stk }

/-- `for (const NodeType& andNode : Graph::GetEgress(node))`:
```
if (Graph::GetIngress(andNode).erase(node) != 1) { assert(false); }
if (Graph::GetIngress(andNode).empty()) { for (const NodeType& orNode : Graph::GetEgress(andNode)) { … } }
``` -/
def satisfyStep (orN : List (Nat × Nat)) (node : Nat) (P : Mark) (a : Nat) : Mark :=
  let G := P.G.eraseIng a node
  if (G.ing a).isEmpty then (G.egr a).foldl (markStep orN) { P with G := G } else { P with G := G }

/-- one round of `while (!nodeStack.empty())` for the popped `node`:
`for (andNode : GetIngress(node)) GetEgress(andNode).erase(node);` then `for (andNode : GetEgress(node)) …` -/
def popStep (orN : List (Nat × Nat)) (node : Nat) (P : Mark) : Mark :=
  let G := (P.G.ing node).foldl (fun G a => G.eraseEgr a node) P.G
  (G.egr node).foldl (satisfyStep orN node) { P with G := G }

def propLoop (orN : List (Nat × Nat)) : Nat → Mark → Option Mark
  | fuel, P =>
    match P.stk with
    | [] => some P
    | node :: stk =>
      match fuel with
      | 0 => none
      | fuel + 1 => propLoop orN fuel (popStep orN node { P with stk := stk })

/-- `usefulStates` of `RemoveUselessStates` as coded; `fuel` bounds the rounds of each of the two `while` loops -/
def usefulCoded (T : TableTD) (final : List Nat) (fuel : Nat) : Option (List Nat) :=
  match buildLoop T fuel (initBuild final) with
  | none => none
  | some B =>
    match propLoop B.orN fuel (initMark B) with
    | none => none
    | some P => some P.useful

/-- `RestrictApplyFunctor::ApplyOperation`, as coded: the prefix of useful states of each tuple is copied and the tuple
is kept when the copy has the full length; `result.insert` is `insT` -/
def restrictLeafCoded (U : List Nat) (l : List (List Nat)) : List (List Nat) :=
  l.foldl (fun res tuple =>
    let resultTuple := tuple.takeWhile (fun q => U.contains q)
    if resultTuple.length == tuple.length then insT resultTuple res else res) []

/-- the two final loops: the useful final states; `SetMtbdd(state, restrFunc(bdd))` for the useful states of `GetStates()` -/
def restrictCoded (T : TableTD) (final U : List Nat) : TableTD × List Nat :=
  (((keysTD T).filter (fun p => U.contains p)).map (fun p => (p, apply1 (restrictLeafCoded U) (getTD T p))),
   final.filter (fun q => U.contains q))

/-- `BDDTDTreeAutCore::RemoveUselessStates` as coded, including the final `result.RemoveUnreachableStates()`
(`tdUnreachWL`, the mirrored work-list of `Vata/BddAbsTD.lean`, with its own fuel) -/
def removeUselessTDCoded (T : TableTD) (final : List Nat) (fuel fuel' : Nat) : Option (TableTD × List Nat) :=
  match usefulCoded T final fuel with
  | none => none
  | some U =>
    let R := restrictCoded T final U
    match tdUnreachWL R.1 R.2 fuel' with
    | none => none
    | some R' => some (R', R.2)

end BddTrimCoded
end Vata
