import Vata.BddTrimGraph
/-!
# The bottom-up symbolic trimming AS CODED (property C08)

`src/bdd_bu_tree_aut_unreach.cc` (`BDDBUTreeAutCore::RemoveUnreachableStates`) and `src/bdd_bu_tree_aut_useless.cc`
(`BDDBUTreeAutCore::RemoveUselessStates`), at the abstraction of `Vata/BddAbsTD.lean`: one call of the leaf functor per
leaf of an MTBDD (`leafParents m` = the states in the leaves visited by `VoidApply1Functor`, in the order of the visit).

How the C++ is read:

* the hash sets `reachable`, `workset`, `useful` are duplicate-free lists; `insert` appends at the end, the iteration order
  is the list order, `*(workset.begin())` is the head (`erase(begin())` = the tail);
* `TupleHT tuples` (a copy of the transition table without the empty tuple, from which the processed tuples are erased) is
  the list of the remaining pairs (tuple, MTBDD); the scan `while (itTup != tuples.end())` is a left fold over it whose
  accumulator carries `reachable`, `workset` (both are UPDATED DURING the scan: a tuple later in the scan sees the states
  the functor has inserted for an earlier one), the tuples not erased, and the result;
* `result.SetMtbdd` is `Table.set`, in the order of processing;
* `Util::Graph` / `TwoWayDict nodes` are `Graph` / a list of pairs (node, state) of `Vata/BddTrimGraph.lean`; `std::stack`
  is a list (push = cons); `assert(false)` branches ("fail gracefully") are written as no-ops and are shown unreachable by
  the invariants of `Vata/Proofs/BddTrimCodedBU*.lean`;
* the outer `while` loops are fuel-indexed: `none` = out of fuel (`bu_unreach_coded_total`, `bu_useless_coded_total` of `Vata/Proofs/BddTrimCodedBU5.lean`, `…BU6.lean` give
  the explicit bound).

Definitions only.
-/
namespace Vata
namespace BddTrimCoded
open M BddAbs BddAbsTD

/-! ## `RemoveUnreachableStates` -/

/-- the state of the main loop: `reachable`, `workset`, `tuples`, `result` -/
structure BuSt where
  reach : List Nat
  ws : List Nat
  tuples : List (List Nat × MT)
  result : Table

/-- `ReachableCollectorFctor::ApplyOperation`, the body of `for (const StateType& state : value)`:
```
if (reachable_.insert(state).second) { if (!workset_.insert(state).second) { assert(false); } }
``` -/
def collectStep (s : List Nat × List Nat) (q : Nat) : List Nat × List Nat :=
  if s.1.contains q then s else (s.1 ++ [q], ins q s.2)

/-- `reachFunc(bdd)`: the functor on every leaf of the MTBDD -/
def collect (s : List Nat × List Nat) (m : MT) : List Nat × List Nat := (leafParents m).foldl collectStep s

/-- one step of the scan `while (itTup != tuples.end())` for the popped `state`:
```
if (std::find(tuple.begin(), tuple.end(), state) != tuple.end()) {
  for (i = 0; i < tuple.size(); ++i) { if (reachable->find(tuple[i]) == reachable->end()) break; }
  if (i == tuple.size()) { reachFunc(itTup->second); result.SetMtbdd(tuple, itTup->second); tuples.erase(tmpIt); continue; } }
++itTup;
``` -/
def scanStep (state : Nat) (st : BuSt) (e : List Nat × MT) : BuSt :=
  if e.1.contains state && e.1.all (fun q => st.reach.contains q) then
    let rw := collect (st.reach, st.ws) e.2
    ⟨rw.1, rw.2, st.tuples, st.result.set e.1 e.2⟩
  else ⟨st.reach, st.ws, st.tuples ++ [e], st.result⟩

/-- `while (!workset.empty()) { state = *(workset.begin()); workset.erase(workset.begin()); … }` -/
def buUnreachLoop : Nat → BuSt → Option BuSt
  | _, ⟨r, [], tu, R⟩ => some ⟨r, [], tu, R⟩
  | 0, ⟨_, _ :: _, _, _⟩ => none
  | fuel + 1, ⟨r, state :: ws, tu, R⟩ => buUnreachLoop fuel (tu.foldl (scanStep state) ⟨r, ws, [], R⟩)

/-- the state before the loop:
```
for (auto tupleBddPair : this->GetTransTable()) tuples.insert(tupleBddPair);   tuples.erase(StateTuple());
reachFunc(nullaryBdd);   result.SetMtbdd(StateTuple(), nullaryBdd);
``` -/
def buUnreachInit (T : Table) : BuSt :=
  let rw := collect ([], []) T.nullary
  ⟨rw.1, rw.2, T.entries.filter (fun e => e.1 != []), Table.empty.set [] T.nullary⟩

/-- the final state of the loop -/
def buUnreachSt (T : Table) (fuel : Nat) : Option BuSt := buUnreachLoop fuel (buUnreachInit T)

/-- **`BDDBUTreeAutCore::RemoveUnreachableStates` as coded** (table and final states):
`for (fst : GetFinalStates()) if (reachable->find(fst) != reachable->end()) result.SetStateFinal(fst);` -/
def buUnreachCoded (T : Table) (final : List Nat) (fuel : Nat) : Option (Table × List Nat) :=
  (buUnreachSt T fuel).map (fun st => (st.result, final.filter (fun q => st.reach.contains q)))

/-! ## `RemoveUselessStates` -/

/-- the state of the first loop: `reachable`, `workset`, `tuples`, `graph`, `nodes` -/
structure BuGSt where
  reach : List Nat
  ws : List Nat
  tuples : List (List Nat × MT)
  graph : Graph
  nodes : List (Nat × Nat)

/-- what the functor updates -/
structure FSt where
  reach : List Nat
  ws : List Nat
  graph : Graph
  nodes : List (Nat × Nat)

/-- the inner loop of the functor: `for (tupState : tuple_) { itOtherNode = nodes_.FindBwd(tupState) …
graph_.AddEdge(node, itOtherNode->second); }` (`assert(false)` when the state has no node) -/
def addEdges (nodes : List (Nat × Nat)) (node : Nat) (tuple : List Nat) (G : Graph) : Graph :=
  tuple.foldl (fun G t => match findBwd nodes t with
    | some m => G.addEdge node m
    | none => G) G

/-- `ReachableCollectorFctor::ApplyOperation` of the useless-state removal, the body of the loop over the leaf, for the
current `tuple_`:
```
if (reachable_.insert(state).second) { if (!workset_.insert(state).second) assert(false); }
if ((itNode = nodes_.FindBwd(state)) != nodes_.EndBwd()) node = itNode->second;
else { node = graph_.AddNode(); nodes_.insert(std::make_pair(node, state)); }
for (tupState : tuple_) graph_.AddEdge(node, nodes_.FindBwd(tupState)->second);
``` -/
def collectStepG (tuple : List Nat) (s : FSt) (q : Nat) : FSt :=
  let rw := collectStep (s.reach, s.ws) q
  let gn : Graph × List (Nat × Nat) × Nat := match findBwd s.nodes q with
    | some n => (s.graph, s.nodes, n)
    | none => let a := s.graph.addNode; (a.1, s.nodes ++ [(a.2, q)], a.2)
  ⟨rw.1, rw.2, addEdges gn.2.1 gn.2.2 tuple gn.1, gn.2.1⟩

def collectG (tuple : List Nat) (s : FSt) (m : MT) : FSt := (leafParents m).foldl (collectStepG tuple) s

/-- one step of the scan (as `scanStep`; `tuple = itTup->first; … reachFunc(itTup->second); tuples.erase(tmpIt)`) -/
def scanStepG (state : Nat) (st : BuGSt) (e : List Nat × MT) : BuGSt :=
  if e.1.contains state && e.1.all (fun q => st.reach.contains q) then
    let s := collectG e.1 ⟨st.reach, st.ws, st.graph, st.nodes⟩ e.2
    ⟨s.reach, s.ws, st.tuples, s.graph, s.nodes⟩
  else ⟨st.reach, st.ws, st.tuples ++ [e], st.graph, st.nodes⟩

def buGLoop : Nat → BuGSt → Option BuGSt
  | _, ⟨r, [], tu, G, d⟩ => some ⟨r, [], tu, G, d⟩
  | 0, ⟨_, _ :: _, _, _, _⟩ => none
  | fuel + 1, ⟨r, state :: ws, tu, G, d⟩ => buGLoop fuel (tu.foldl (scanStepG state) ⟨r, ws, [], G, d⟩)

/-- `StateTuple tuple; tuples.erase(tuple); … reachFunc(nullaryBdd);` (the current tuple is the empty one) -/
def buGInit (T : Table) : BuGSt :=
  let s := collectG [] ⟨[], [], Graph.empty, []⟩ T.nullary
  ⟨s.reach, s.ws, T.entries.filter (fun e => e.1 != []), s.graph, s.nodes⟩

/-- the state of the traversal: `nodeWorkset` (a stack), `useful`, the graph (its egress sets shrink) -/
structure TrSt where
  stack : List Nat
  useful : List Nat
  graph : Graph

/-- the seeding of the traversal:
```
for (fst : GetFinalStates()) if ((itNodes = nodes.FindBwd(fst)) != nodes.EndBwd())
  { result.SetStateFinal(fst); useful.insert(fst); nodeWorkset.push(itNodes->second); }
``` -/
def seedStep (nodes : List (Nat × Nat)) (s : List Nat × List Nat) (fst : Nat) : List Nat × List Nat :=
  match findBwd nodes fst with
  | some n => (n :: s.1, ins fst s.2)
  | none => s

/-- `for (inNode : GetIngress(node)) if (GetEgress(inNode).erase(node) != 1) assert(false);` -/
def eraseIn (G : Graph) (node : Nat) : Graph := (G.ing node).foldl (fun G i => G.eraseEgr i node) G

/-- `for (outNode : GetEgress(node)) { itNode = nodes.FindFwd(outNode) …;
if (useful.insert(itNode->second).second) nodeWorkset.push(itNode->first); }` -/
def outStep (nodes : List (Nat × Nat)) (s : List Nat × List Nat) (outNode : Nat) : List Nat × List Nat :=
  match findFwd nodes outNode with
  | some q => if s.2.contains q then s else (outNode :: s.1, s.2 ++ [q])
  | none => s

/-- `while (!nodeWorkset.empty()) { node = nodeWorkset.top(); nodeWorkset.pop(); … }` -/
def traverse (nodes : List (Nat × Nat)) : Nat → TrSt → Option TrSt
  | _, ⟨[], u, G⟩ => some ⟨[], u, G⟩
  | 0, ⟨_ :: _, _, _⟩ => none
  | fuel + 1, ⟨node :: stk, u, G⟩ =>
    let G' := eraseIn G node
    let su := (G'.egr node).foldl (outStep nodes) (stk, u)
    traverse nodes fuel ⟨su.1, su.2, G'⟩

/-- the final loop
```
for (auto tupleBddPair : this->GetTransTable()) { … for (i …) if (useful.find(tuple[i]) == useful.end()) break;
  if (i != tuple.size()) continue;   result.SetMtbdd(tuple, usefulFunc(bdd)); }
```
over the pairs of the table (the empty tuple with the nullary MTBDD is one of them: its leaves are filtered too) -/
def restrictStep (useful : List Nat) (R : Table) (e : List Nat × MT) : Table :=
  if e.1.all (fun q => useful.contains q) then R.set e.1 (apply1 (usefulLeaf useful) e.2) else R

/-- the result of the two loops: the first-loop state and the traversal state (for the theorems) -/
def buUselessSt (T : Table) (final : List Nat) (fuel : Nat) : Option (BuGSt × TrSt) :=
  match buGLoop fuel (buGInit T) with
  | none => none
  | some st =>
    let seed := final.foldl (seedStep st.nodes) ([], [])
    match traverse st.nodes fuel ⟨seed.1, seed.2, st.graph⟩ with
    | none => none
    | some tr => some (st, tr)

/-- **`BDDBUTreeAutCore::RemoveUselessStates` as coded** (table and final states) -/
def buUselessCoded (T : Table) (final : List Nat) (fuel : Nat) : Option (Table × List Nat) :=
  (buUselessSt T final fuel).map (fun p =>
    ((pairs T).foldl (restrictStep p.2.useful) Table.empty,
     final.filter (fun q => (findBwd p.1.nodes q).isSome)))

end BddTrimCoded
end Vata
