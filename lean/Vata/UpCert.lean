import Vata.Trim
/-! feasibility probe (throw-away): the antichain principle (soundness of upward certificates) -/
namespace Vata

def UpCert (A B : TA) (X : List (Nat × List Nat)) : Prop :=
  ∀ ρ, ρ ∈ A.rules → ∀ Ss : List (List Nat), All2 (fun k S => (k, S) ∈ X) ρ.kids Ss →
    ∃ S', (ρ.parent, S') ∈ X ∧ ∀ s, s ∈ S' → s ∈ post B ρ.sym Ss

theorem post_mono (B : TA) (f : Nat) {ss ss' : List (List Nat)}
    (h : All2 (fun s s' => ∀ q, q ∈ s → q ∈ s') ss ss') : ∀ q, q ∈ post B f ss → q ∈ post B f ss' := by
  intro q
  rw [mem_post', mem_post']
  rintro ⟨r, hr, hs, hm, hp⟩
  exact ⟨r, hr, hs, matchKids_mono h hm, hp⟩

def Cover (A B : TA) (X : List (Nat × List Nat)) (t : Tree) : Prop :=
  ∀ q, q ∈ reach A t → ∃ S, (q, S) ∈ X ∧ ∀ s, s ∈ S → s ∈ reach B t

/-- choose covering macro-states for matched children -/
theorem cover_kids (A B : TA) (X : List (Nat × List Nat)) :
    ∀ (ts : List Tree), (∀ t, t ∈ ts → Cover A B X t) → ∀ ks : List Nat, matchKids ks (reachL A ts) = true →
      ∃ Ss : List (List Nat), All2 (fun k S => (k, S) ∈ X) ks Ss ∧
        All2 (fun s s' => ∀ q, q ∈ s → q ∈ s') Ss (reachL B ts)
  | [], _, ks, h => by
    cases ks with
    | nil => exact ⟨[], All2.nil, All2.nil⟩
    | cons _ _ => simp [matchKids, reachL] at h
  | t :: ts, hc, ks, h => by
    cases ks with
    | nil => simp [matchKids, reachL] at h
    | cons k ks =>
      simp only [reachL, matchKids, Bool.and_eq_true, List.contains_iff_mem] at h
      obtain ⟨S, hS, hsub⟩ := hc t List.mem_cons_self k h.1
      obtain ⟨Ss, h1, h2⟩ := cover_kids A B X ts (fun t' ht' => hc t' (List.mem_cons_of_mem _ ht')) ks h.2
      exact ⟨S :: Ss, All2.cons hS h1, by simp only [reachL]; exact All2.cons hsub h2⟩

mutual
theorem up_cert_sound (A B : TA) (X : List (Nat × List Nat)) (hX : UpCert A B X) : ∀ t : Tree, Cover A B X t
  | .node f ts => by
    intro q hq
    rw [reach, mem_post'] at hq
    obtain ⟨ρ, hρ, hs, hm, hp⟩ := hq
    obtain ⟨Ss, h1, h2⟩ := cover_kids A B X ts (up_cert_soundL A B X hX ts) ρ.kids hm
    obtain ⟨S', hS', hsub⟩ := hX ρ hρ Ss h1
    refine ⟨S', hp ▸ hS', ?_⟩
    intro s hs'
    rw [reach, ← hs]
    exact post_mono B ρ.sym h2 s (hsub s hs')
theorem up_cert_soundL (A B : TA) (X : List (Nat × List Nat)) (hX : UpCert A B X) :
    ∀ ts : List Tree, ∀ t, t ∈ ts → Cover A B X t
  | [], _, h => by simp at h
  | t :: ts, t', h => by
    rcases List.mem_cons.mp h with h | h
    · rw [h]; exact up_cert_sound A B X hX t
    · exact up_cert_soundL A B X hX ts t' h
end

theorem up_cert_incl (A B : TA) (X : List (Nat × List Nat)) (hX : UpCert A B X)
    (hok : ∀ q S, (q, S) ∈ X → q ∈ A.final → ∃ s, s ∈ S ∧ s ∈ B.final)
    (t : Tree) (h : accepts A t = true) : accepts B t = true := by
  simp only [accepts, accepting, List.any_eq_true, List.contains_iff_mem] at h ⊢
  obtain ⟨q, hq, hf⟩ := h
  obtain ⟨S, hS, hsub⟩ := up_cert_sound A B X hX t q hq
  obtain ⟨s, hs, hsf⟩ := hok q S hS hf
  exact ⟨s, hsub s hs, hsf⟩

#print axioms up_cert_incl
end Vata
