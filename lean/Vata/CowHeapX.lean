import Vata.CowHeap3
/-!
# Copy-on-write automaton handles are values – final states, move, operations that share storage on purpose
(extension of `Vata/CowHeap3.lean`, property C11)

`Vata/CowHeap3.lean` models the `shared_ptr` plumbing of `ExplicitTreeAutCore::transitions_` (handle → map node → cluster
node → tuple-set node) for default construction, copy, copy assignment, `AddTransition`, the transition half of `Clear`
and destruction.  This file adds what is missing for the whole class (`src/explicit_tree_aut_core.{hh,cc}`):

* the member `finalStates_` : per handle, plain value data (`unordered_set<State>`, no sharing), with `SetStateFinal`,
  `SetStatesFinal`, `EraseFinalStates`, and `Clear` erasing it as well;
* the selective copy constructor `ExplicitTreeAutCore(aut, copyTrans, copyFinal)`;
* the move constructor and move assignment (`transitions_(std::move(aut.transitions_))`: the pointer changes its owner, no
  use count changes; the moved-from object holds a null pointer, in the model it is *dead*.  Assigning to a moved-from
  object is, on the heap, the same as copy-constructing over a dead identifier: `copy src dst`);
* library operations whose result shares storage with an operand on purpose:
  * `shareAll src dst keepFinal` : `RemoveUselessStates` with `remaining == 0`
    (`ExplicitTreeAutCore result(cache_); result.SetStateFinal(..)…; result.transitions_ = transitions_;`): the fresh map
    node of `result` is released again, the result shares the WHOLE map node of the operand.
    (`RemoveUnreachableStates` returning `*this` is the plain copy `copy src dst true true`; its value is that of
    `shareAll src dst (fun _ => true)`.)
  * `shareClusters src dst keep` : `RemoveUnreachableStates` (`src/explicit_tree_unreach.cc`) when some rule owner is
    unreachable: `ExplicitTreeAutCore result(cache_); result.finalStates_ = finalStates_;
    result.transitions_ = Ptr(new Map()); for (state : reachable) result.transitions_->insert(make_pair(state, iter->second))`
    – a NEW map node whose entries are the operand's cluster POINTERS (each `use_count` + 1), written into the new node
    directly (no `uniqueClusterMap()`: the node was just allocated);
  * `unionDisj a b dst` : `UnionDisjointStates` (`src/explicit_tree_union.cc`): `ExplicitTreeAutCore res(lhs);
    res.uniqueClusterMap()->insert(rhs.transitions_->begin(), rhs.transitions_->end());
    res.finalStates_.insert(rhs.finalStates_…)` – copy of `lhs` (shares the map node), made unique (cloned: the clone
    shares all cluster nodes of `lhs`), then the cluster pointers of `rhs` are copied in for the keys that are not there
    yet (`unordered_map::insert` does not overwrite).
  `ReindexStates(dst, index)` needs no new operation: it is a sequence of `setFinal dst _` and `add dst _ _`
  (`dst.SetStateFinal`, `uniqueClusterMap()`, `uniqueCluster`, `uniqueTuplePtrSet`, `insert`).

The value seen through a handle is now a whole `Store.Store` (`clusters` + `final`, `Vata/Store.lean`).
-/
namespace Vata.CowHeapX

open Vata.Store (Cluster TupleSet upsert insN addToMap)
open Vata.CowHeap (upd HOp Val)
open Vata.CowHeap3 (Heap allocMap retarget addHandle dropHandle releaseMap uniqueMap valM valC)

/-- the three-level heap of `Vata/CowHeap3.lean` plus, per handle, the member `finalStates_` (a value, never shared) -/
structure HeapX where
  core : Heap
  /-- handle ↦ `finalStates_` (meaningless for dead handles) -/
  fin  : Nat → List Nat

def initX : HeapX := ⟨CowHeap3.init, fun _ => []⟩

inductive HOpX where
  /-- default constructor -/
  | new (h : Nat)
  /-- selective copy constructor `dst(src, copyTrans, copyFinal)` -/
  | copy (src dst : Nat) (copyTrans copyFinal : Bool)
  /-- `dst = src` -/
  | assign (src dst : Nat)
  /-- move constructor `dst(std::move(src))` : `dst` takes over the root pointer and the final set, `src` is dead -/
  | move (src dst : Nat)
  /-- `dst = std::move(src)` (`assert(this != &rhs)`) -/
  | moveAssign (src dst : Nat)
  /-- `h.AddTransition(val.2, val.1, key)` -/
  | add (h : Nat) (key : Nat) (val : Nat × List Nat)
  /-- `h.SetStateFinal(q)` -/
  | setFinal (h q : Nat)
  /-- `h.SetStatesFinal(qs)` -/
  | setFinals (h : Nat) (qs : List Nat)
  /-- `h.EraseFinalStates()` -/
  | eraseFinal (h : Nat)
  /-- `h.Clear()` : transitions AND final states -/
  | clear (h : Nat)
  /-- destructor -/
  | destroy (h : Nat)
  /-- `dst` := a new object that shares the whole map node of `src`; final states of `src` filtered by `keepFinal` -/
  | shareAll (src dst : Nat) (keepFinal : Nat → Bool)
  /-- `dst` := a new object with a NEW map node whose entries point to the cluster nodes of `src` for the states with
      `keep`; final states copied -/
  | shareClusters (src dst : Nat) (keep : Nat → Bool)
  /-- `dst` := `UnionDisjointStates(a, b)` -/
  | unionDisj (a b dst : Nat)

/-- the operations of the smaller model are operations of this one -/
def ofHOp : HOp → HOpX
  | .new h => .new h
  | .copy src dst => .copy src dst true true
  | .assign src dst => .assign src dst
  | .add h q v => .add h q v
  | .clear h => .clear h
  | .destroy h => .destroy h

/-! ### container actions that are new here -/

/-- `m.insert(first, last)` for entries whose keys are not in `m` : the entries are copied, i.e. the cluster pointers are
    copied (each `use_count` + 1); the map node `m` is written in place -/
def insertEntries (H : Heap) (m : Nat) (ins : List (Nat × Nat)) : Heap :=
  { H with ment := upd H.ment m (H.ment m ++ ins), crc := fun c => H.crc c + (ins.map Prod.snd).count c }

/-- what `unordered_map::insert(first, last)` adds to a map with entries `acc` when given the entries `l` : those whose key
    is not there yet (the first one of each key) -/
def missing {β : Type} (acc : List (Nat × β)) : List (Nat × β) → List (Nat × β)
  | [] => []
  | kc :: l => if (acc.lookup kc.1).isSome then missing acc l else kc :: missing (acc ++ [kc]) l

/-- `transitions_ = StateToTransitionClusterMapPtr(new StateToTransitionClusterMap())` on the live handle `h` -/
def freshMap (H : Heap) (h : Nat) : Heap := releaseMap (retarget (allocMap H []) h H.next) (H.hmap h)

/-- move construction: the handle `src` goes away and the new handle `dst` takes over its pointer – nothing is counted -/
def moveCore (H : Heap) (src dst : Nat) : Heap := addHandle (dropHandle H src) dst (H.hmap src)

/-- move assignment `shared_ptr::operator=(shared_ptr&&)` : `shared_ptr(std::move(r)).swap(*this)` – the temporary takes
    the pointer of `src`, is swapped with `transitions_` of `dst`, and releases the old pointer of `dst` -/
def moveAssignCore (H : Heap) (src dst : Nat) : Heap :=
  releaseMap (retarget (dropHandle H src) dst (H.hmap src)) (H.hmap dst)

/-- `ExplicitTreeAutCore result(cache_); result.transitions_ = transitions_;` -/
def shareAllCore (H : Heap) (src dst : Nat) : Heap := CowHeap3.step (CowHeap3.step H (.new dst)) (.assign src dst)

/-- `ExplicitTreeAutCore result(cache_); result.transitions_ = Ptr(new Map());
    for (state : reachable) result.transitions_->insert(make_pair(state, iter->second));` -/
def shareClustersCore (H : Heap) (src dst : Nat) (keep : Nat → Bool) : Heap :=
  let H1 := freshMap (CowHeap3.step H (.new dst)) dst
  insertEntries H1 (H1.hmap dst) ((H1.ment (H1.hmap src)).filter (fun kc => keep kc.1))

/-- `ExplicitTreeAutCore res(lhs); res.uniqueClusterMap()->insert(rhs.transitions_->begin(), rhs.transitions_->end());` -/
def unionDisjCore (H : Heap) (a b dst : Nat) : Heap :=
  let H1 := uniqueMap (CowHeap3.step H (.copy a dst)) dst
  insertEntries H1 (H1.hmap dst) (missing (H1.ment (H1.hmap dst)) (H1.ment (H1.hmap b)))

/-! ### the operations

As in `CowHeap3.step`: operations on dead handles, constructors over live handles and self-assignment are no-ops. -/

def stepX (H : HeapX) : HOpX → HeapX
  | .new h => ⟨CowHeap3.step H.core (.new h), if h ∈ H.core.hl then H.fin else upd H.fin h []⟩
  | .copy src dst ct cf =>
    if src ∈ H.core.hl ∧ dst ∉ H.core.hl then
      ⟨if ct then CowHeap3.step H.core (.copy src dst) else CowHeap3.step H.core (.new dst),
       upd H.fin dst (if cf then H.fin src else [])⟩
    else H
  | .assign src dst =>
    ⟨CowHeap3.step H.core (.assign src dst),
     if src ∈ H.core.hl ∧ dst ∈ H.core.hl ∧ src ≠ dst then upd H.fin dst (H.fin src) else H.fin⟩
  | .move src dst =>
    if src ∈ H.core.hl ∧ dst ∉ H.core.hl then ⟨moveCore H.core src dst, upd H.fin dst (H.fin src)⟩ else H
  | .moveAssign src dst =>
    if src ∈ H.core.hl ∧ dst ∈ H.core.hl ∧ src ≠ dst then
      ⟨moveAssignCore H.core src dst, upd H.fin dst (H.fin src)⟩
    else H
  | .add h q v => ⟨CowHeap3.step H.core (.add h q v), H.fin⟩
  | .setFinal h q => if h ∈ H.core.hl then ⟨H.core, upd H.fin h (insN q (H.fin h))⟩ else H
  | .setFinals h qs =>
    if h ∈ H.core.hl then ⟨H.core, upd H.fin h (qs.foldl (fun acc q => insN q acc) (H.fin h))⟩ else H
  | .eraseFinal h => if h ∈ H.core.hl then ⟨H.core, upd H.fin h []⟩ else H
  | .clear h => ⟨CowHeap3.step H.core (.clear h), if h ∈ H.core.hl then upd H.fin h [] else H.fin⟩
  | .destroy h => ⟨CowHeap3.step H.core (.destroy h), H.fin⟩
  | .shareAll src dst keepF =>
    if src ∈ H.core.hl ∧ dst ∉ H.core.hl then
      ⟨shareAllCore H.core src dst, upd H.fin dst ((H.fin src).filter keepF)⟩
    else H
  | .shareClusters src dst keep =>
    if src ∈ H.core.hl ∧ dst ∉ H.core.hl then ⟨shareClustersCore H.core src dst keep, upd H.fin dst (H.fin src)⟩
    else H
  | .unionDisj a b dst =>
    if a ∈ H.core.hl ∧ b ∈ H.core.hl ∧ dst ∉ H.core.hl then
      ⟨unionDisjCore H.core a b dst, upd H.fin dst ((H.fin b).foldl (fun acc q => insN q acc) (H.fin a))⟩
    else H

/-! ### abstraction and value-level specification -/

/-- the value of an automaton object: rule container and final states (`Vata/Store.lean`) -/
abbrev ValX := Store.Store

/-- handle ⇀ value -/
def absX (H : HeapX) : Nat → Option ValX :=
  fun h => if h ∈ H.core.hl then some ⟨valM H.core (H.core.hmap h), H.fin h⟩ else none

def specInitX : Nat → Option ValX := fun _ => none

/-- value of `UnionDisjointStates(s, t)` -/
def unionStore (s t : ValX) : ValX := ⟨s.clusters ++ missing s.clusters t.clusters, (Store.setFinals s t.final).final⟩

/-- independent values: every operation changes only the value of its target handle (a move also ends its source) -/
def specStepX (a : Nat → Option ValX) : HOpX → (Nat → Option ValX)
  | .new h => if (a h).isSome then a else upd a h (some Store.empty)
  | .copy src dst ct cf =>
    if (a src).isSome ∧ (a dst).isNone then
      upd a dst ((a src).map (fun s => ⟨if ct then s.clusters else [], if cf then s.final else []⟩))
    else a
  | .assign src dst => if (a src).isSome ∧ (a dst).isSome ∧ src ≠ dst then upd a dst (a src) else a
  | .move src dst => if (a src).isSome ∧ (a dst).isNone then upd (upd a src none) dst (a src) else a
  | .moveAssign src dst =>
    if (a src).isSome ∧ (a dst).isSome ∧ src ≠ dst then upd (upd a src none) dst (a src) else a
  | .add h q v =>
    match a h with
    | some s => upd a h (some (Store.addTransition s ⟨v.1, v.2, q⟩))
    | none => a
  | .setFinal h q =>
    match a h with
    | some s => upd a h (some (Store.setFinal s q))
    | none => a
  | .setFinals h qs =>
    match a h with
    | some s => upd a h (some (Store.setFinals s qs))
    | none => a
  | .eraseFinal h =>
    match a h with
    | some s => upd a h (some (Store.eraseFinal s))
    | none => a
  | .clear h =>
    match a h with
    | some s => upd a h (some (Store.clear s))
    | none => a
  | .destroy h => upd a h none
  | .shareAll src dst keepF =>
    if (a src).isSome ∧ (a dst).isNone then
      upd a dst ((a src).map (fun s => ⟨s.clusters, s.final.filter keepF⟩))
    else a
  | .shareClusters src dst keep =>
    if (a src).isSome ∧ (a dst).isNone then
      upd a dst ((a src).map (fun s => ⟨s.clusters.filter (fun kc => keep kc.1), s.final⟩))
    else a
  | .unionDisj x y dst =>
    match a x, a y with
    | some s, some t => if (a dst).isNone then upd a dst (some (unionStore s t)) else a
    | _, _ => a

/-- the handles an operation may change -/
def targets : HOpX → List Nat
  | .new h => [h]
  | .copy _ dst _ _ => [dst]
  | .assign _ dst => [dst]
  | .move src dst => [src, dst]
  | .moveAssign src dst => [src, dst]
  | .add h _ _ => [h]
  | .setFinal h _ => [h]
  | .setFinals h _ => [h]
  | .eraseFinal h => [h]
  | .clear h => [h]
  | .destroy h => [h]
  | .shareAll _ dst _ => [dst]
  | .shareClusters _ dst _ => [dst]
  | .unionDisj _ _ dst => [dst]

/-- `src.ReindexStates(dst, index, addFinalStates)` where `s` is the value of `src` : a sequence of `dst.SetStateFinal` and
    of insertions into `dst` through `uniqueClusterMap()` / `uniqueCluster` / `uniqueTuplePtrSet` – no new heap operation.
    (The C++ calls `uniqueClusterMap()` once and keeps a copy of the pointer in a local for the duration of the loop; the
    clusters of a store are non-empty, so every `uniqueCluster(index.at(q))` is followed by an insertion.)
    `Union(lhs, rhs)` is `new res` followed by `reindexOps lhs res …` and `reindexOps rhs res …`. -/
def reindexOps (s : ValX) (dst : Nat) (idx : Nat → Nat) (addFinal : Bool) : List HOpX :=
  (if addFinal then s.final.map (fun q => HOpX.setFinal dst (idx q)) else []) ++
  (Store.iterate s).map (fun r => HOpX.add dst (idx r.parent) (r.sym, r.kids.map idx))

/-! ### executable invariant checker -/

/-- the reference-count invariant concerns the shared part only -/
def invBX (H : HeapX) : Bool := CowHeap3.invB H.core

end Vata.CowHeapX
