import Vata.CowHeapX
/-!
# `Clear()` on a rule container that is still shared – the code, and a seeded variant with an early return
(properties C11 / C12; extension of `Vata/CowHeapX.lean`)

`src/explicit_tree_aut_core.hh`:

```
void EraseFinalStates()
{
	finalStates_.clear();
}

void Clear()
{
	assert(nullptr != transitions_);

	if (!transitions_.unique())
	{
		transitions_ = StateToTransitionClusterMapPtr(
			new StateToTransitionClusterMap());
	}
	else
	{ // TODO Is this clear enough?
		this->uniqueClusterMap()->clear();
	}

	this->EraseFinalStates();
}
```

* shared (`!transitions_.unique()`, use count of the map node ≠ 1): a FRESH empty map node is allocated and `transitions_`
  is re-pointed to it (`clearSharedCore`); the old node loses one reference and keeps its entries – the other owners do not
  notice;
* unique: the node is emptied in place (`clearUniqueCore`; `uniqueClusterMap()` is the identity on a unique node), the
  cluster pointers it held are released;
* on BOTH paths `EraseFinalStates()` follows.

`clearCoded` writes this out on `CowHeapX.HeapX`; it is `CowHeapX.stepX H (.clear h)` (`clearCoded_eq`, by unfolding).

The seeded variant `stepClearEarly`:

```
	if (!transitions_.unique())
	{
		transitions_ = StateToTransitionClusterMapPtr(new StateToTransitionClusterMap());
		return;                                  // <- EraseFinalStates() is skipped on this path
	}
	this->uniqueClusterMap()->clear();
	this->EraseFinalStates();
```
-/
namespace Vata.ClearShared

open Vata.CowHeap (upd)
open Vata.CowHeap3 (Heap allocMap retarget releaseMap releaseCluster clearEntries mout)
open Vata.CowHeapX (HeapX HOpX stepX)

/-- `transitions_ = StateToTransitionClusterMapPtr(new StateToTransitionClusterMap());` : allocate an empty map node, swap
    it into `transitions_` of `h`, release the old pointer -/
def clearSharedCore (C : Heap) (h : Nat) : Heap := releaseMap (retarget (allocMap C []) h C.next) (C.hmap h)

/-- `this->uniqueClusterMap()->clear();` on a unique node: empty it in place and release the cluster pointers it held -/
def clearUniqueCore (C : Heap) (h : Nat) : Heap :=
  (mout C (C.hmap h)).foldl releaseCluster (clearEntries C (C.hmap h))

/-- `Clear()` as coded: branch on `transitions_.unique()`, then `EraseFinalStates()` on both paths -/
def clearCoded (H : HeapX) (h : Nat) : HeapX :=
  if h ∈ H.core.hl then
    let core' := if H.core.mrc (H.core.hmap h) = 1 then clearUniqueCore H.core h else clearSharedCore H.core h
    -- this->EraseFinalStates();
    ⟨core', upd H.fin h []⟩
  else H

/-- the seeded variant: early `return` on the shared path – `finalStates_` is left alone there -/
def stepClearEarly (H : HeapX) (h : Nat) : HeapX :=
  if h ∈ H.core.hl then
    if H.core.mrc (H.core.hmap h) = 1 then
      -- this->uniqueClusterMap()->clear(); this->EraseFinalStates();
      ⟨clearUniqueCore H.core h, upd H.fin h []⟩
    else
      -- transitions_ = Ptr(new Map()); return;
      ⟨clearSharedCore H.core h, H.fin⟩
  else H

/-- histories in which `Clear()` may be the seeded variant -/
inductive OpV where
  | std (op : HOpX)
  | clearEarly (h : Nat)

def stepV (H : HeapX) : OpV → HeapX
  | .std op => stepX H op
  | .clearEarly h => stepClearEarly H h

/-- the same history with the real `Clear()` -/
def OpV.toStd : OpV → HOpX
  | .std op => op
  | .clearEarly h => .clear h

/-- the handles an operation may change -/
def OpV.targets (o : OpV) : List Nat := CowHeapX.targets o.toStd

/-- "the map node of `h` is shared and `h` has final states" – where the variant goes wrong -/
def sharedWithFinals (H : HeapX) (h : Nat) : Prop :=
  h ∈ H.core.hl ∧ 1 < H.core.mrc (H.core.hmap h) ∧ H.fin h ≠ []

instance (H : HeapX) (h : Nat) : Decidable (sharedWithFinals H h) := by unfold sharedWithFinals; infer_instance

/-- what is read through handle `h` (rules and final states) after a history from the empty heap – the function to compare
    with the C++ (`Clear()` resp. the seeded `Clear()`, then dump the automaton object `h`) -/
def runV (ops : List OpV) (h : Nat) : Option Store.Store := CowHeapX.absX (ops.foldl stepV CowHeapX.initX) h

end Vata.ClearShared
