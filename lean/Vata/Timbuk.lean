import Vata.Split
/-!
# Timbuk parser and serializer – executable model (property C13)

Line-by-line model of `src/timbuk_parser-nobison.cc` (`parse_timbuk`, the parser that is compiled in) and of
`src/timbuk_serializer.cc` (`TimbukSerializer::Serialize`).  Core Lean only; everything is total and executable.

Strings are modelled as `List Char` (`Str`); the `String` level API (`AutDesc`, `parseTimbuk`, `serialize`) is a thin
wrapper at the end of the file.  A C++ `char` (byte) corresponds to the `Char` with the same number (`parseTimbukBytes`
embeds bytes 0..255 as the code points 0..255); the only characters the C++ code distinguishes are ASCII ones
(`isspace` of the "C" locale, the digits, `+ - : ( ) , >` and the keywords), and `std::string` comparison is the
lexicographic comparison of unsigned bytes, i.e. of code points, so the model is also exact on UTF-8 decoded text.

`std::set`s are modelled as strictly sorted duplicate-free lists built by `setInsert` with the C++ comparison
(`std::pair`, `std::vector`, `Triple::operator<`, `std::string::compare`), so that the lists of a parsed description are
exactly what iterating the C++ sets yields, and `serialize` emits in `std::set` order whatever list represents the set.
-/
namespace Vata.Timbuk
open Vata.T (splitDelim)

abbrev Str := List Char

/-! ## characters, `trim`, `read_word` -/

/-- `std::isspace` in the "C" locale: space, `\t \n \v \f \r` -/
def isSpace (c : Char) : Bool :=
  c == ' ' || c == '\t' || c == '\n' || c == '\x0b' || c == '\x0c' || c == '\r'

/-- erase from the start up to the first non-space -/
def trimL (s : Str) : Str := s.dropWhile isSpace
/-- erase from after the last non-space to the end -/
def trimR (s : Str) : Str := (s.reverse.dropWhile isSpace).reverse
/-- `trim` -/
def trim (s : Str) : Str := trimR (trimL s)

/-- `contains_whitespace` -/
def containsWs (s : Str) : Bool := s.any isSpace

/-- `read_word`: (the word up to the first whitespace, the trimmed rest) -/
def readWord (s : Str) : Str × Str :=
  (s.takeWhile (fun c => !isSpace c), trim (s.dropWhile (fun c => !isSpace c)))

theorem dropWhile_length_le {α : Type} (p : α → Bool) (l : List α) : (l.dropWhile p).length ≤ l.length := by
  induction l with
  | nil => simp
  | cons c r ih => simp only [List.dropWhile_cons]; split <;> simp <;> omega

theorem trimL_length_le (s : Str) : (trimL s).length ≤ s.length := dropWhile_length_le _ _

theorem trimR_length_le (s : Str) : (trimR s).length ≤ s.length := by
  have := trimL_length_le s.reverse
  simpa [trimR, trimL] using this

theorem trim_length_le (s : Str) : (trim s).length ≤ s.length :=
  Nat.le_trans (trimR_length_le _) (trimL_length_le _)

theorem readWord_snd_lt (c : Char) (r : Str) : (readWord (c :: r)).2.length < (c :: r).length := by
  simp only [readWord, List.dropWhile_cons, List.length_cons]
  cases h : isSpace c
  · -- `c` belongs to the word
    simp only [Bool.not_false, if_true]
    have h1 := trim_length_le (List.dropWhile (fun c => !isSpace c) r)
    have h2 := dropWhile_length_le (fun c => !isSpace c) r
    omega
  · -- (not reachable from `parse_timbuk`: the string is always trimmed) the word is empty, `trim` eats `c`
    simp only [Bool.not_true, Bool.false_eq_true, if_false]
    have h1 : trim (c :: r) = trim r := by simp [trim, trimL, h]
    rw [h1]
    have := trim_length_le r
    omega

/-- the loop `while (!str.empty()) { w = read_word(str); … }`: the words that it reads -/
def readWords (s : Str) : List Str :=
  match s with
  | [] => []
  | c :: r => (readWord (c :: r)).1 :: readWords (readWord (c :: r)).2
termination_by s.length
decreasing_by exact readWord_snd_lt c r

/-! ## `Convert::FromString<int>` (stream extraction) and `Convert::ToString(int)` -/

def isDigit (c : Char) : Bool := '0'.toNat ≤ c.toNat && c.toNat ≤ '9'.toNat

/-- value of a string of decimal digits -/
def digitsVal (ds : Str) : Nat := ds.foldl (fun a c => a * 10 + (c.toNat - '0'.toNat)) 0

def intMin : Int := -2147483648
def intMax : Int := 2147483647

/-- the optional sign: (is it `-`, what follows the sign) -/
def signSplit : Str → Bool × Str
  | '-' :: r => (true, r)
  | '+' :: r => (false, r)
  | s => (false, s)

/-- `std::istringstream iss(str); iss >> result` for `int` (libstdc++, "C" locale, `dec`): no leading white space can
occur here (the argument is part of a word); optional sign `+`/`-`; the longest prefix of decimal digits, at least one;
whatever follows is left in the stream, i.e. ignored; a value outside `int` sets `failbit`, which `FromString` turns
into `std::invalid_argument` just like a missing digit. -/
def fromStringInt (s : Str) : Except String Int :=
  let neg := (signSplit s).1
  let ds := (signSplit s).2.takeWhile isDigit
  if ds.isEmpty then .error "FromString: invalid argument"
  else
    let v : Int := if neg then - (digitsVal ds : Int) else (digitsVal ds : Int)
    if v < intMin || intMax < v then .error "FromString: invalid argument" else .ok v

def digitChar (n : Nat) : Char := Char.ofNat ('0'.toNat + n)

/-- decimal digits of a natural number, most significant first (`0` gives `"0"`) -/
def showNat (n : Nat) : Str :=
  if _h : n < 10 then [digitChar n] else showNat (n / 10) ++ [digitChar (n % 10)]
termination_by n
decreasing_by omega

/-- `Convert::ToString(int)`, i.e. `oss << n` -/
def showInt (n : Int) : Str :=
  if n < 0 then '-' :: showNat n.natAbs else showNat n.natAbs

/-- `parse_colonned_token`: `<string>:<number>` or `<string>` (rank −1) -/
def parseColonned (w : Str) : Except String (Str × Int) :=
  let w := trim w
  match w.dropWhile (fun c => c != ':') with
  | [] => .ok (w, -1)                                            -- no colon found
  | _ :: num =>                                                  -- `num` = what follows the FIRST colon
    match fromStringInt num with
    | .error e => .error e
    | .ok r => .ok (w.takeWhile (fun c => c != ':'), r)

/-- `parse_colonned_token` on every word in turn; the first failure is the failure -/
def parseTokens : List Str → Except String (List (Str × Int))
  | [] => .ok []
  | w :: ws =>
    match parseColonned w with
    | .error e => .error e
    | .ok p =>
      match parseTokens ws with
      | .error e => .error e
      | .ok ps => .ok (p :: ps)

/-! ## `std::set` as sorted lists; the C++ orders -/

/-- `std::lexicographical_compare` with `lt` (the `operator<` of `std::vector` and, on bytes, of `std::string`) -/
def lexLt {α : Type} (lt : α → α → Bool) : List α → List α → Bool
  | [], [] => false
  | [], _ :: _ => true
  | _ :: _, [] => false
  | a :: as, b :: bs => lt a b || (!lt b a && lexLt lt as bs)

def ltChar (a b : Char) : Bool := a.toNat < b.toNat
/-- `std::string::operator<` (bytes compared as unsigned) -/
def ltStr : Str → Str → Bool := lexLt ltChar
/-- `std::vector<std::string>::operator<` -/
def ltTuple : List Str → List Str → Bool := lexLt ltStr
/-- `std::pair<std::string, int>::operator<` -/
def ltSym (a b : Str × Int) : Bool := ltStr a.1 b.1 || (!ltStr b.1 a.1 && decide (a.2 < b.2))

abbrev Trans := List Str × Str × Str   -- (children, symbol, parent) = `Triple<StateTuple, std::string, State>`

/-- `Triple::operator<` -/
def ltTrans (a b : Trans) : Bool :=
  if ltTuple a.1 b.1 then true
  else if ltTuple b.1 a.1 then false
  else if ltStr a.2.1 b.2.1 then true
  else if ltStr b.2.1 a.2.1 then false
  else ltStr a.2.2 b.2.2

/-- `std::set::insert` on the sorted list of the elements -/
def setInsert {α : Type} [DecidableEq α] (lt : α → α → Bool) (x : α) : List α → List α
  | [] => [x]
  | y :: ys => if x = y then y :: ys else if lt x y then x :: y :: ys else y :: setInsert lt x ys

/-- insert all of `xs`, in order, into the set `acc` -/
def setInsertAll {α : Type} [DecidableEq α] (lt : α → α → Bool) (acc : List α) (xs : List α) : List α :=
  xs.foldl (fun acc x => setInsert lt x acc) acc

/-- the `std::set` holding the elements of a list: sorted, duplicate-free -/
def norm {α : Type} [DecidableEq α] (lt : α → α → Bool) (xs : List α) : List α := setInsertAll lt [] xs

/-! ## the description and the parser -/

/-- `AutDescription` over `Str` -/
structure Desc where
  name : Str := []
  symbols : List (Str × Int) := []
  states : List Str := []
  final : List Str := []
  trans : List Trans := []
deriving Repr, DecidableEq, Inhabited

/-- local variables of `parse_timbuk` -/
structure PState where
  d : Desc := {}
  areTrans : Bool := false
  autP : Bool := false
  opsP : Bool := false
  statesP : Bool := false
  finalP : Bool := false
deriving Repr, DecidableEq, Inhabited

def kwTransitions : Str := ['T','r','a','n','s','i','t','i','o','n','s']
def kwAutomaton : Str := ['A','u','t','o','m','a','t','o','n']
def kwOps : Str := ['O','p','s']
def kwStates : Str := ['S','t','a','t','e','s']
def kwFinal : Str := ['F','i','n','a','l']
def kwAnonymous : Str := ['a','n','o','n','y','m','o','u','s']

def errUnexpected (line : Str) (verb : String) : String :=
  "parse_timbuk: line \"" ++ String.ofList line ++ "\" " ++ verb ++ " an unexpected string"
def errInvalidTrans (line : Str) : String :=
  "parse_timbuk: invalid transition \"" ++ String.ofList line ++ "\""

/-- a non-empty trimmed line `str` (of the raw line `line`) while `!are_transitions` -/
def stepHeader (st : PState) (line str : Str) : Except String PState :=
  let first := (readWord str).1
  let str := (readWord str).2
  if first = kwTransitions then
    .ok { st with areTrans := true }                               -- the rest of the line is ignored
  else if first = kwAutomaton then
    if st.autP then .error "parse_timbukAutomaton already parsed!"
    else
      let nm := (readWord str).1
      let str := (readWord str).2
      if str ≠ [] then .error (errUnexpected line "has")
      else .ok { st with autP := true, d := { st.d with name := nm } }
  else if first = kwOps then
    if st.opsP then .error "parse_timbukOps already parsed!"
    else
      match parseTokens (readWords str) with
      | .error e => .error e
      | .ok ps => .ok { st with opsP := true, d := { st.d with symbols := setInsertAll ltSym st.d.symbols ps } }
  else if first = kwStates then
    if st.statesP then .error "parse_timbukStates already parsed!"
    else
      match parseTokens (readWords str) with
      | .error e => .error e
      | .ok ps => .ok { st with statesP := true,
                                d := { st.d with states := setInsertAll ltStr st.d.states (ps.map (·.1)) } }
  else if first = kwFinal then
    let strStates := (readWord str).1
    let str := (readWord str).2
    if strStates ≠ kwStates then .error (errUnexpected line "contains")
    else if st.finalP then .error "parse_timbukFinal States already parsed!"
    else
      match parseTokens (readWords str) with
      | .error e => .error e
      | .ok ps => .ok { st with finalP := true,
                                d := { st.d with final := setInsertAll ltStr st.d.final (ps.map (·.1)) } }
  else .error (errUnexpected line "contains")

/-- `str.find("->")`: the text before the first `->` and the text after it -/
def splitArrow : Str → Option (Str × Str)
  | [] => none
  | [_] => none
  | c :: c' :: r =>
    if c = '-' ∧ c' = '>' then some ([], r)
    else match splitArrow (c' :: r) with
      | none => none
      | some (p, s) => some (c :: p, s)

/-- `result.transitions.insert(t)` -/
def addTrans (st : PState) (t : Trans) : PState :=
  { st with d := { st.d with trans := setInsert ltTrans t st.d.trans } }

/-- the second half of the processing of a transition line: the analysis of the trimmed left-hand side -/
def stepLhs (st : PState) (line lhs rhs : Str) : Except String PState :=
  match lhs.dropWhile (fun c => c != '(') with
  | [] =>                                                           -- npos == parens_begin_pos
    if lhs.contains ')' || containsWs lhs || lhs.isEmpty then .error (errInvalidTrans line)
    else .ok (addTrans st ([], lhs, rhs))
  | _ :: inner =>                                                   -- `inner` = what follows the first `(`
    let lab0 := lhs.takeWhile (fun c => c != '(')                   -- lhs.substr(0, parens_begin_pos)
    if lab0.contains ')' then .error (errInvalidTrans line)         -- parens_begin_pos > parens_end_pos
    else
      match inner.dropWhile (fun c => c != ')') with
      | [] => .error (errInvalidTrans line)                         -- npos == parens_end_pos
      | _ :: after =>
        if after ≠ [] then .error (errInvalidTrans line)            -- parens_end_pos != lhs.length() - 1
        else
          let lab := trim lab0
          if lab.isEmpty then .error (errInvalidTrans line)
          else
            let tuple := inner.takeWhile (fun c => c != ')')        -- between the first `(` and the first `)`
            let states := (splitDelim ',' tuple).map trim
            if states.any containsWs then .error (errInvalidTrans line)
            else
              let states := if states = [[]] then [] else states
              .ok (addTrans st (states, lab, rhs))

/-- a non-empty trimmed line `str` (of the raw line `line`) while `are_transitions` -/
def stepTrans (st : PState) (line str : Str) : Except String PState :=
  match splitArrow str with
  | none => .error (errInvalidTrans line)                          -- npos == arrow_pos
  | some (l, r) =>
    let lhs := trim l
    let rhs := trim r
    if rhs.isEmpty || containsWs rhs then .error (errInvalidTrans line)
    else stepLhs st line lhs rhs

/-- the `for (const std::string& line : lines)` loop -/
def parseLines : PState → List Str → Except String PState
  | st, [] => .ok st
  | st, line :: ls =>
    let str := trim line
    if str = [] then parseLines st ls
    else
      match (if st.areTrans then stepTrans st line str else stepHeader st line str) with
      | .error e => .error e
      | .ok st' => parseLines st' ls

/-- `parse_timbuk` -/
def parseC (s : Str) : Except String Desc :=
  match parseLines {} (splitDelim '\n' s) with
  | .error e => .error e
  | .ok st => if st.areTrans then .ok st.d else .error "parse_timbuk: Transitions not specified"

/-! ## the serializer -/

/-- the tuple of children: nothing when empty, else `(c0, c1, …)` -/
def serKids : List Str → Str
  | [] => []
  | c :: cs => '(' :: c ++ (cs.map (fun x => ',' :: ' ' :: x)).flatten ++ [')']

/-- one transition line (without the `\n`) -/
def serTrans (t : Trans) : Str := t.2.1 ++ serKids t.1 ++ [' ', '-', '>', ' '] ++ t.2.2

def serSym (p : Str × Int) : Str := p.1 ++ ':' :: showInt p.2 ++ [' ']
def serState (q : Str) : Str := q ++ [' ']

def lineOps (d : Desc) : Str := kwOps ++ ' ' :: ((norm ltSym d.symbols).map serSym).flatten
def lineAut (d : Desc) : Str := kwAutomaton ++ ' ' :: (if d.name.isEmpty then kwAnonymous else d.name)
def lineStates (d : Desc) : Str := kwStates ++ ' ' :: ((norm ltStr d.states).map serState).flatten
def lineFinal (d : Desc) : Str := kwFinal ++ ' ' :: kwStates ++ ' ' :: ((norm ltStr d.final).map serState).flatten

/-- `TimbukSerializer::Serialize` -/
def serializeC (d : Desc) : Str :=
  lineOps d ++ '\n' :: lineAut d ++ '\n' :: lineStates d ++ '\n' :: lineFinal d ++ '\n' :: kwTransitions ++ '\n' ::
    ((norm ltTrans d.trans).map (fun t => serTrans t ++ ['\n'])).flatten

/-! ## well-formed descriptions (the hypothesis of the round-trip theorem) -/

def goodChar (c : Char) : Bool := !isSpace c && c != '(' && c != ')' && c != ',' && c != ':'

/-- a name that survives the round trip in every position: non-empty, no whitespace, none of `( ) , :`, and no
substring `->` -/
def goodName (s : Str) : Bool := !s.isEmpty && s.all goodChar && (splitArrow s).isNone

/-- the rank is an `int` -/
def rankOk (r : Int) : Bool := decide (intMin ≤ r) && decide (r ≤ intMax)

def Desc.wellFormed (d : Desc) : Bool :=
  !containsWs d.name
  && d.symbols.all (fun p => goodName p.1 && rankOk p.2)
  && d.states.all goodName
  && d.final.all goodName
  && d.trans.all (fun t => t.1.all goodName && goodName t.2.1 && goodName t.2.2)

end Vata.Timbuk

/-! ## `String` level API -/
namespace Vata

/-- `VATA::Util::AutDescription`; a transition is (children, symbol, parent) -/
structure AutDesc where
  name : String
  symbols : List (String × Int)
  states : List String
  final : List String
  trans : List (List String × String × String)
deriving Repr, DecidableEq, Inhabited

namespace Timbuk

def Desc.toS (d : Desc) : AutDesc where
  name := String.ofList d.name
  symbols := d.symbols.map (fun p => (String.ofList p.1, p.2))
  states := d.states.map String.ofList
  final := d.final.map String.ofList
  trans := d.trans.map (fun t => (t.1.map String.ofList, String.ofList t.2.1, String.ofList t.2.2))

def ofS (d : AutDesc) : Desc where
  name := d.name.toList
  symbols := d.symbols.map (fun p => (p.1.toList, p.2))
  states := d.states.map String.toList
  final := d.final.map String.toList
  trans := d.trans.map (fun t => (t.1.map String.toList, t.2.1.toList, t.2.2.toList))

/-- the same set of elements -/
def SameSet {α : Type} (l₁ l₂ : List α) : Prop := ∀ x, x ∈ l₁ ↔ x ∈ l₂

/-- `l₁ ≈ l₂` on lists: the same set of elements (active when the namespace `Vata.Timbuk` is open) -/
scoped instance {α : Type} : HasEquiv (List α) := ⟨SameSet⟩

end Timbuk

open Timbuk in
/-- all symbol and state names are non-empty and free of whitespace, `( ) , :` and `->`; the automaton name (possibly
empty) is free of whitespace; the ranks are `int`s -/
def AutDesc.WellFormed (d : AutDesc) : Prop := (Timbuk.ofS d).wellFormed = true

instance (d : AutDesc) : Decidable d.WellFormed := inferInstanceAs (Decidable (_ = true))

open Timbuk in
/-- `TimbukParser::ParseString` (the result is in `std::set` iteration order) -/
def parseTimbuk (s : String) : Except String AutDesc :=
  match parseC s.toList with
  | .error e => .error e
  | .ok d => .ok d.toS

open Timbuk in
/-- `TimbukSerializer::Serialize` -/
def serialize (d : AutDesc) : String := String.ofList (serializeC (ofS d))

open Timbuk in
/-- the parser on raw bytes: byte `b` is the character with number `b` (so are the bytes of the names in the result) -/
def parseTimbukBytes (bs : List UInt8) : Except String AutDesc :=
  match parseC (bs.map (fun b => Char.ofNat b.toNat)) with
  | .error e => .error e
  | .ok d => .ok d.toS

end Vata

/-! ## tests
The expected values below are the answers of the real `TimbukParser::ParseString` / `TimbukSerializer::Serialize`
(generated by a probe linked against libvata); the model agreed with the real code on a further 120 000 generated
inputs (valid files with odd names, token and byte mutations of them, random token and byte strings). -/
namespace Vata.TimbukTest

def rejects (s : String) : Bool :=
  match parseTimbuk s with
  | .error _ => true
  | .ok _ => false

/-- `s` parses to `d`, and `d` is serialized to `ser` -/
def parsesTo (s : String) (d : AutDesc) (ser : String) : Bool :=
  match parseTimbuk s with
  | .error _ => false
  | .ok d' => d' == d && serialize d' == ser

-- a complete file
#guard parsesTo "Ops a:0 f:2\nAutomaton A\nStates q r\nFinal States r\nTransitions\na -> q\nf(q, q) -> r\n"
    ⟨"A", [("a", 0), ("f", 2)], ["q", "r"], ["r"], [([], "a", "q"), (["q", "q"], "f", "r")]⟩
    "Ops a:0 f:2 \nAutomaton A\nStates q r \nFinal States r \nTransitions\na -> q\nf(q, q) -> r\n"
-- missing sections are fine, `Transitions` alone is enough
#guard parsesTo "Transitions\n"
    ⟨"", [], [], [], []⟩
    "Ops \nAutomaton anonymous\nStates \nFinal States \nTransitions\n"
-- no `Transitions`
#guard rejects "Ops a:0 f:2\nAutomaton A\nStates q r\nFinal States r\n"
-- empty input
#guard rejects ""
-- only white space
#guard rejects " \n\t\r\n"
-- repeated sections
#guard rejects "Ops a:0\nOps b:0\nTransitions\n"
#guard rejects "Automaton A\nAutomaton A\nTransitions\n"
#guard rejects "States q\nStates q\nTransitions\n"
#guard rejects "Final States q\nFinal States q\nTransitions\n"
-- a second `Transitions` is a transition line without arrow
#guard rejects "Transitions\nTransitions\n"
-- the rest of the `Transitions` line is ignored
#guard parsesTo "Transitions foo -> bar\n"
    ⟨"", [], [], [], []⟩
    "Ops \nAutomaton anonymous\nStates \nFinal States \nTransitions\n"
-- sections in any order, empty lines, trailing spaces, tabs, CRLF
#guard parsesTo "\r\nFinal States  r \t\r\n\r\nStates\tq\tr\r\nAutomaton   A  \r\nOps\r\n  Transitions\r\na->q\r\n\r\n"
    ⟨"A", [], ["q", "r"], ["r"], [([], "a", "q")]⟩
    "Ops \nAutomaton A\nStates q r \nFinal States r \nTransitions\na -> q\n"
-- `\v` and `\f` are white space
#guard parsesTo "Ops\x0ba:1\x0cb:2\nTransitions\n"
    ⟨"", [("a", 1), ("b", 2)], [], [], []⟩
    "Ops a:1 b:2 \nAutomaton anonymous\nStates \nFinal States \nTransitions\n"
-- `Automaton` without a name, with two names
#guard parsesTo "Automaton\nTransitions\n"
    ⟨"", [], [], [], []⟩
    "Ops \nAutomaton anonymous\nStates \nFinal States \nTransitions\n"
#guard rejects "Automaton A B\nTransitions\n"
-- `Final` needs `States`
#guard rejects "Final\nTransitions\n"
#guard rejects "Final states q\nTransitions\n"
#guard parsesTo "Final   States\nTransitions\n"
    ⟨"", [], [], [], []⟩
    "Ops \nAutomaton anonymous\nStates \nFinal States \nTransitions\n"
-- unknown keywords
#guard rejects "Opsx a:0\nTransitions\n"
#guard rejects "transitions\n"
#guard rejects "foo\nTransitions\n"
-- ranks: stream extraction
#guard parsesTo "Ops a:+2 b:-0 c:007 d:1x e:3:4 f:-2147483648 g:2147483647 h\nTransitions\n"
    ⟨"", [("a", 2), ("b", 0), ("c", 7), ("d", 1), ("e", 3), ("f", -2147483648), ("g", 2147483647), ("h", -1)], [], [], []⟩
    "Ops a:2 b:0 c:7 d:1 e:3 f:-2147483648 g:2147483647 h:-1 \nAutomaton anonymous\nStates \nFinal States \nTransitions\n"
#guard rejects "Ops a:x\nTransitions\n"
#guard rejects "Ops a:\nTransitions\n"
#guard rejects "Ops a:-\nTransitions\n"
#guard rejects "Ops a:2147483648\nTransitions\n"
#guard rejects "Ops a:-2147483649\nTransitions\n"
#guard rejects "Ops a:99999999999999999999\nTransitions\n"
#guard parsesTo "Ops a:00000000000000000000000000001 :5\nTransitions\n"
    ⟨"", [("", 5), ("a", 1)], [], [], []⟩
    "Ops :5 a:1 \nAutomaton anonymous\nStates \nFinal States \nTransitions\n"
-- states are colonned tokens too
#guard parsesTo "States q:0 r:1x\nFinal States q:5\nTransitions\n"
    ⟨"", [], ["q", "r"], ["q"], []⟩
    "Ops \nAutomaton anonymous\nStates q r \nFinal States q \nTransitions\n"
#guard rejects "States q:zz\nTransitions\n"
#guard rejects "Final States q:\nTransitions\n"
-- the same symbol twice, two ranks; `std::set` order
#guard parsesTo "Ops b:1 a:2 a:1 b:1 B:0\nStates r q r Q\nTransitions\n"
    ⟨"", [("B", 0), ("a", 1), ("a", 2), ("b", 1)], ["Q", "q", "r"], [], []⟩
    "Ops B:0 a:1 a:2 b:1 \nAutomaton anonymous\nStates Q q r \nFinal States \nTransitions\n"
-- `a()`, `a( )`, `a(,)`
#guard parsesTo "Transitions\na() -> q\n"
    ⟨"", [], [], [], [([], "a", "q")]⟩
    "Ops \nAutomaton anonymous\nStates \nFinal States \nTransitions\na -> q\n"
#guard parsesTo "Transitions\na( ) -> q\n"
    ⟨"", [], [], [], [([], "a", "q")]⟩
    "Ops \nAutomaton anonymous\nStates \nFinal States \nTransitions\na -> q\n"
#guard parsesTo "Transitions\na(,) -> q\n"
    ⟨"", [], [], [], [(["", ""], "a", "q")]⟩
    "Ops \nAutomaton anonymous\nStates \nFinal States \nTransitions\na(, ) -> q\n"
#guard parsesTo "Transitions\na(q, ) -> q\n"
    ⟨"", [], [], [], [(["q", ""], "a", "q")]⟩
    "Ops \nAutomaton anonymous\nStates \nFinal States \nTransitions\na(q, ) -> q\n"
-- nested parentheses
#guard parsesTo "Transitions\na(b(c) -> q\n"
    ⟨"", [], [], [], [(["b(c"], "a", "q")]⟩
    "Ops \nAutomaton anonymous\nStates \nFinal States \nTransitions\na(b(c) -> q\n"
#guard rejects "Transitions\na(b(c)) -> q\n"
#guard rejects "Transitions\na(b)(c) -> q\n"
#guard rejects "Transitions\na)b( -> q\n"
#guard rejects "Transitions\na(b -> q\n"
#guard rejects "Transitions\nab) -> q\n"
#guard rejects "Transitions\n(b) -> q\n"
#guard rejects "Transitions\na(b)c -> q\n"
-- `->` inside names: the first one counts
#guard parsesTo "Transitions\na->b->q\n"
    ⟨"", [], [], [], [([], "a", "b->q")]⟩
    "Ops \nAutomaton anonymous\nStates \nFinal States \nTransitions\na -> b->q\n"
#guard rejects "Transitions\na->b -> q\n"
#guard parsesTo "Transitions\na-->q\n"
    ⟨"", [], [], [], [([], "a-", "q")]⟩
    "Ops \nAutomaton anonymous\nStates \nFinal States \nTransitions\na- -> q\n"
#guard rejects "Transitions\n->q\n"
#guard rejects "Transitions\na ->\n"
#guard rejects "Transitions\na - > q\n"
#guard parsesTo "Transitions\na -> q(r)\n"
    ⟨"", [], [], [], [([], "a", "q(r)")]⟩
    "Ops \nAutomaton anonymous\nStates \nFinal States \nTransitions\na -> q(r)\n"
-- white space in the left-hand side
#guard rejects "Transitions\na b -> q\n"
#guard parsesTo "Transitions\na b(q) -> r\n"
    ⟨"", [], [], [], [(["q"], "a b", "r")]⟩
    "Ops \nAutomaton anonymous\nStates \nFinal States \nTransitions\na b(q) -> r\n"
#guard parsesTo "Transitions\na (q) -> r\n"
    ⟨"", [], [], [], [(["q"], "a", "r")]⟩
    "Ops \nAutomaton anonymous\nStates \nFinal States \nTransitions\na(q) -> r\n"
#guard parsesTo "Transitions\na( q ,\tr ) -> s\n"
    ⟨"", [], [], [], [(["q", "r"], "a", "s")]⟩
    "Ops \nAutomaton anonymous\nStates \nFinal States \nTransitions\na(q, r) -> s\n"
#guard rejects "Transitions\na(q r) -> s\n"
#guard parsesTo "Transitions\na(q,r)->s\n"
    ⟨"", [], [], [], [(["q", "r"], "a", "s")]⟩
    "Ops \nAutomaton anonymous\nStates \nFinal States \nTransitions\na(q, r) -> s\n"
-- `std::set` order of transitions: (children, symbol, parent)
#guard parsesTo "Transitions\nb -> q\na(r) -> q\na(q, q) -> q\na(q) -> r\na(q) -> q\na -> q\nb -> q\n"
    ⟨"", [], [], [], [([], "a", "q"), ([], "b", "q"), (["q"], "a", "q"), (["q"], "a", "r"), (["q", "q"], "a", "q"), (["r"], "a", "q")]⟩
    "Ops \nAutomaton anonymous\nStates \nFinal States \nTransitions\na -> q\nb -> q\na(q) -> q\na(q) -> r\na(q, q) -> q\na(r) -> q\n"
-- section keywords after `Transitions` are transition lines
#guard rejects "Transitions\nOps a:0\n"
-- bytes above 127 are ordinary
#guard parsesTo "States \xe9\nTransitions\n\xe9(\xff) -> \x80\n"
    ⟨"", [], ["\xe9"], [], [(["\xff"], "\xe9", "\x80")]⟩
    "Ops \nAutomaton anonymous\nStates \xe9 \nFinal States \nTransitions\n\xe9(\xff) -> \x80\n"

-- the serializer emits in `std::set` order whatever list represents the sets
#guard serialize ⟨"", [("b", 1), ("a", 2), ("a", -1), ("b", 1)], ["r", "q", "r"], ["r", "r"],
      [(["q"], "a", "r"), ([], "b", "q"), (["q"], "a", "r"), ([], "a", "q")]⟩
    = "Ops a:-1 a:2 b:1 \nAutomaton anonymous\nStates q r \nFinal States r \nTransitions\na -> q\nb -> q\na(q) -> r\n"
-- bytes
#guard (match parseTimbukBytes "Transitions\na -> q".toUTF8.toList with
  | .ok d => d == ⟨"", [], [], [], [([], "a", "q")]⟩
  | .error _ => false)

end Vata.TimbukTest
