import Vata.UnionIsectMaps
/-!
# Fuel for `IntersectionBU` started from a caller-supplied map (`isectBUFrom`, `Vata/UnionIsectMaps.lean`), property C02

Definitions only.  `isectBUFromFuel A B m0` bounds the number of pops of the work-list loop for EVERY entry map `m0`
(`Vata/Proofs/UnionIsectMapsBUTotal.lean`): an entry that is popped and not skipped puts its number into `newStates`, a
number is either carried by an entry of `m0` (at most `|m0|` numbers) or is a fresh number `size()` given to one of the at
most `|Q_A|·|Q_B|` new pairs of states; every processed entry pushes at most one entry per examined pair of rules and
common position.  For `m0 = []` it is `isectBUFuel A B`.
-/
namespace Vata

/-- a bound on the number of pops of `IntersectionBU(lhs, rhs, &m)` with `m = m0` on entry -/
def isectBUFromFuel (A B : TA) (m0 : PMap) : Nat :=
  A.rules.length * B.rules.length +
    (m0.length + A.states.length * B.states.length) *
      (A.rules.length * B.rules.length * (A.rules.foldl (fun a r => max a r.kids.length) 0)) + 1

/-- `IntersectionBU(lhs, rhs, &m)` with enough fuel -/
def isectBUFromRef (A B : TA) (m0 : PMap) : Option (TA × PMap) := isectBUFrom A B m0 (isectBUFromFuel A B m0)

end Vata
