import Vata.RcStore
/-!
# The memo tables of the apply functors, on the node-store model (property C17)

`Apply1Functor`, `Apply2Functor`, `Apply3Functor` (`src/mtbdd/apply{1,2,3}func.hh`) memoise `recDescend` in a hash table `ht` keyed
by the ADDRESSES of the argument nodes; `operator()` clears `ht` (`ht.clear()`) before the top-level `recDescend`; every
`recDescend` first looks its arguments up and inserts its result before it returns.  The nodes spawned during a call have
reference count 0 until they are linked below a parent (`spawnInternal` increments its children) or wrapped into the
result handle (`IncrementRefCnt(root)`); nothing is released during a call.

`Vata/RcStore.lean` models the store with the memo-free `recDescend`.  Here:

* `recDescendM` / `apply2M`: `Apply2Functor::recDescend` / `operator()` WITH the memo table (`Memo`: node-id pairs ↦ node id),
  cleared at the top-level call;
* `recDescend1`, `apply1` (memo-free) and `recDescend1M`, `apply1M` (with the table): the unary `Apply1Functor` on the store
  model (it did not exist there); `recDescend3`, `apply3`, `recDescend3M`, `apply3M`: the ternary `Apply3Functor` with its
  `classifyCase` (`br3`);
* `apply2Keep`: an apply whose memo table is NOT cleared (it survives from call to call), and `constructLeafReuse`: an
  allocator that hands a freed node id out again (what `new` does with addresses) – for the counterexample.

Core Lean only; theorems in `Vata/Proofs/ApplyMemo.lean`.
-/
namespace Vata.RcS
open Vata.R (Data decrRc)

/-- the memo table `ht` of `Apply2Functor`: (node1, node2) ↦ result node -/
abbrev Memo := List ((Nat × Nat) × Nat)

/-- `Apply2Functor::recDescend` with the memo table: look the pair of addresses up; otherwise compute as `recDescend`
(threading the table through the two recursive calls) and insert the result -/
def recDescendM (f : Nat → Nat → Nat) : Nat → Store → Memo → Nat → Nat → Store × Nat × Memo
  | 0, s, ht, n1, _ => ({ s with err := true }, n1, ht)
  | fuel+1, s, ht, n1, n2 =>
    match find (n1, n2) ht with
    | some r => (s, r, ht)
    | none =>
      let d1 := s.dat n1
      let d2 := s.dat n2
      let b1 := br d1 d2
      let b2 := br d2 d1
      if b1 = false ∧ b2 = false then
        let r := spawnLeaf s (f (valOf d1) (valOf d2))
        (r.1, r.2, ((n1, n2), r.2) :: ht)
      else
        let var := if b2 then varOf d2 else varOf d1
        let k1 := kids d1 b1 n1
        let k2 := kids d2 b2 n2
        let r1 := recDescendM f fuel s ht k1.1 k2.1
        let r2 := recDescendM f fuel r1.1 r1.2.2 k1.2 k2.2
        if r1.2.1 = r2.2.1 then (r2.1, r1.2.1, ((n1, n2), r1.2.1) :: r2.2.2)
        else
          let r3 := spawnInternal r2.1 r1.2.1 r2.2.1 var
          (r3.1, r3.2, ((n1, n2), r3.2) :: r2.2.2)

/-- `OndriksMTBDD dst = apply(a, b)` as coded: `ht.clear()`, `recDescend` with the table, `IncrementRefCnt(root)`, wrap -/
def apply2M (f : Nat → Nat → Nat) (s : Store) (a b dst : Nat) : Store :=
  match find a s.hs, find b s.hs, find dst s.hs with
  | some ra, some rb, none =>
    let r := recDescendM f (ra + rb + 1) s [] ra rb
    addHandle r.1 dst r.2.1
  | _, _, _ => s

/-! ### unary apply -/

/-- `Apply1Functor::recDescend` without the memo table: a leaf is mapped, an inner node rebuilt from the results of its
successors (`low == high` test, `spawnInternal`) -/
def recDescend1 (g : Nat → Nat) : Nat → Store → Nat → Store × Nat
  | 0, s, n => ({ s with err := true }, n)
  | fuel+1, s, n =>
    match s.dat n with
    | .leaf v => spawnLeaf s (g v)
    | .int lo hi var =>
      let r1 := recDescend1 g fuel s lo
      let r2 := recDescend1 g fuel r1.1 hi
      if r1.2 = r2.2 then (r2.1, r1.2) else spawnInternal r2.1 r1.2 r2.2 var

/-- `OndriksMTBDD dst = apply(a)` without the memo table -/
def apply1 (g : Nat → Nat) (s : Store) (a dst : Nat) : Store :=
  match find a s.hs, find dst s.hs with
  | some ra, none =>
    let r := recDescend1 g (ra + 1) s ra
    addHandle r.1 dst r.2
  | _, _ => s

/-- the memo table of `Apply1Functor`: node ↦ result node -/
abbrev Memo1 := List (Nat × Nat)

/-- `Apply1Functor::recDescend` with the memo table -/
def recDescend1M (g : Nat → Nat) : Nat → Store → Memo1 → Nat → Store × Nat × Memo1
  | 0, s, ht, n => ({ s with err := true }, n, ht)
  | fuel+1, s, ht, n =>
    match find n ht with
    | some r => (s, r, ht)
    | none =>
      match s.dat n with
      | .leaf v =>
        let r := spawnLeaf s (g v)
        (r.1, r.2, (n, r.2) :: ht)
      | .int lo hi var =>
        let r1 := recDescend1M g fuel s ht lo
        let r2 := recDescend1M g fuel r1.1 r1.2.2 hi
        if r1.2.1 = r2.2.1 then (r2.1, r1.2.1, (n, r1.2.1) :: r2.2.2)
        else
          let r3 := spawnInternal r2.1 r1.2.1 r2.2.1 var
          (r3.1, r3.2, (n, r3.2) :: r2.2.2)

/-- `OndriksMTBDD dst = apply(a)` as coded: `ht.clear()`, `recDescend` with the table -/
def apply1M (g : Nat → Nat) (s : Store) (a dst : Nat) : Store :=
  match find a s.hs, find dst s.hs with
  | some ra, none =>
    let r := recDescend1M g (ra + 1) s [] ra
    addHandle r.1 dst r.2.1
  | _, _ => s

/-! ### ternary apply -/

/-- `IsLeaf(n) || x >= GetVarFromInternal(n)` -/
def leafOrLeD (x : Nat) : Data → Bool
  | .leaf _ => true
  | .int _ _ y => decide (y ≤ x)

/-- one of the three tests of `Apply3Functor::classifyCase`: is the first node to be branched -/
def br3 (d1 d2 d3 : Data) : Bool :=
  match d1 with
  | .leaf _ => false
  | .int _ _ x => leafOrLeD x d2 && leafOrLeD x d3

/-- `Apply3Functor::recDescend` without the memo table (`var`: the last assignment wins, as in `Vata.M.topVar3`) -/
def recDescend3 (f : Nat → Nat → Nat → Nat) : Nat → Store → Nat → Nat → Nat → Store × Nat
  | 0, s, n1, _, _ => ({ s with err := true }, n1)
  | fuel+1, s, n1, n2, n3 =>
    let d1 := s.dat n1
    let d2 := s.dat n2
    let d3 := s.dat n3
    let b1 := br3 d1 d2 d3
    let b2 := br3 d2 d1 d3
    let b3 := br3 d3 d1 d2
    if b1 = false ∧ b2 = false ∧ b3 = false then spawnLeaf s (f (valOf d1) (valOf d2) (valOf d3))
    else
      let var := if b3 then varOf d3 else if b2 then varOf d2 else varOf d1
      let k1 := kids d1 b1 n1
      let k2 := kids d2 b2 n2
      let k3 := kids d3 b3 n3
      let r1 := recDescend3 f fuel s k1.1 k2.1 k3.1
      let r2 := recDescend3 f fuel r1.1 k1.2 k2.2 k3.2
      if r1.2 = r2.2 then (r2.1, r1.2) else spawnInternal r2.1 r1.2 r2.2 var

/-- `OndriksMTBDD dst = apply(a, b, c)` without the memo table -/
def apply3 (f : Nat → Nat → Nat → Nat) (s : Store) (a b c dst : Nat) : Store :=
  match find a s.hs, find b s.hs, find c s.hs, find dst s.hs with
  | some ra, some rb, some rc, none =>
    let r := recDescend3 f (ra + rb + rc + 1) s ra rb rc
    addHandle r.1 dst r.2
  | _, _, _, _ => s

/-- the memo table of `Apply3Functor`: (node1, node2, node3) ↦ result node -/
abbrev Memo3 := List ((Nat × Nat × Nat) × Nat)

/-- `Apply3Functor::recDescend` with the memo table -/
def recDescend3M (f : Nat → Nat → Nat → Nat) : Nat → Store → Memo3 → Nat → Nat → Nat → Store × Nat × Memo3
  | 0, s, ht, n1, _, _ => ({ s with err := true }, n1, ht)
  | fuel+1, s, ht, n1, n2, n3 =>
    match find (n1, n2, n3) ht with
    | some r => (s, r, ht)
    | none =>
      let d1 := s.dat n1
      let d2 := s.dat n2
      let d3 := s.dat n3
      let b1 := br3 d1 d2 d3
      let b2 := br3 d2 d1 d3
      let b3 := br3 d3 d1 d2
      if b1 = false ∧ b2 = false ∧ b3 = false then
        let r := spawnLeaf s (f (valOf d1) (valOf d2) (valOf d3))
        (r.1, r.2, ((n1, n2, n3), r.2) :: ht)
      else
        let var := if b3 then varOf d3 else if b2 then varOf d2 else varOf d1
        let k1 := kids d1 b1 n1
        let k2 := kids d2 b2 n2
        let k3 := kids d3 b3 n3
        let r1 := recDescend3M f fuel s ht k1.1 k2.1 k3.1
        let r2 := recDescend3M f fuel r1.1 r1.2.2 k1.2 k2.2 k3.2
        if r1.2.1 = r2.2.1 then (r2.1, r1.2.1, ((n1, n2, n3), r1.2.1) :: r2.2.2)
        else
          let r3 := spawnInternal r2.1 r1.2.1 r2.2.1 var
          (r3.1, r3.2, ((n1, n2, n3), r3.2) :: r2.2.2)

/-- `OndriksMTBDD dst = apply(a, b, c)` as coded: `ht.clear()`, `recDescend` with the table -/
def apply3M (f : Nat → Nat → Nat → Nat) (s : Store) (a b c dst : Nat) : Store :=
  match find a s.hs, find b s.hs, find c s.hs, find dst s.hs with
  | some ra, some rb, some rc, none =>
    let r := recDescend3M f (ra + rb + rc + 1) s [] ra rb rc
    addHandle r.1 dst r.2.1
  | _, _, _, _ => s

/-! ### what goes wrong when the table survives -/

/-- an apply functor whose table is NOT cleared: the table `ht` of the previous call is used and the new one returned -/
def apply2Keep (f : Nat → Nat → Nat) (s : Store) (ht : Memo) (a b dst : Nat) : Store × Memo :=
  match find a s.hs, find b s.hs, find dst s.hs with
  | some ra, some rb, none =>
    let r := recDescendM f (ra + rb + 1) s ht ra rb
    (addHandle r.1 dst r.2.1, r.2.2)
  | _, _, _ => (s, ht)

/-- `OndriksMTBDD h(v)` (a constant diagram) with an allocator that re-uses the address of the most recently freed node,
as `new` may -/
def constructLeafReuse (s : Store) (h v : Nat) : Store :=
  match find h s.hs, find v s.leafT with
  | some _, _ => s
  | none, some n => addHandle s h n
  | none, none =>
    match s.freed with
    | [] => addHandle (allocLeaf s v) h s.next
    | n :: fr =>
      addHandle { s with ids := n :: s.ids, dat := setF s.dat n (.leaf v), rc := setF s.rc n 0,
                         leafT := (v, n) :: s.leafT, freed := fr } h n

end Vata.RcS
