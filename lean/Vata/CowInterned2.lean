import Vata.CowInterned
/-!
# Named automata over one tuple cache, part 2 (properties C11 / C12) – executable model

Additions to `Vata/CowInterned.lean`:

1. **The eager-copy reading of a copy-on-write world** (`projI`): what the one-automaton model `Vata/StoreInterned.lean`
   (a copy of an automaton = an EAGER copy of its tuple sets, the copies' `TuplePtr`s are held by the environment `ext`) sees
   when it looks at automaton `h` of a `CowI.Sys`: the tuple sets of `h` as sets of identities, every OTHER automaton's
   identities (one per automaton and occurrence – a tuple set shared by two automata is counted TWICE here, ONCE in
   `refsT`) in `ext`, and the cache with the `use_count`s an eager copy would have produced (`eagerCache`).
2. **Move and the storage-sharing library results threaded with the cache** (`Op2`, `stepC2`): the heap actions of
   `Vata/CowHeapX.lean` (`moveCore`, `moveAssignCore`, `shareAllCore`, `shareClustersCore`, `unionDisjCore`) re-coded over
   `HC = Heap × CacheSt` with the release cascades of `Vata/CowInterned.lean` (`releaseMapI`: when the last pointer to a map
   node goes away its clusters are released, when the last pointer to a cluster goes away its tuple sets, and
   `~TuplePtrSet()` destroys every `TuplePtr`).  They copy / release `shared_ptr`s to NODES only.
3. **`ContainsTransition` on a named automaton** (`containsMI`): two `find`s through the (shared) map and cluster nodes of
   `h`, then `tupleLookup(children)` – a temporary `TuplePtr`, which INTERNS the asked tuple – `tuplePtrSet.find` by
   POINTER, death of the temporary.
-/
namespace Vata.CowI
open Vata.Store (upsert insN insTuple TupleSet)
open Vata.CowHeap (upd)
open Vata.CowHeap3 (Heap allocMap incMap retarget addHandle dropHandle)
open Vata.CowHeapX (HeapX stepX insertEntries missing moveCore)
open Vata.StoreI (CacheSt lookupC acquireC releaseC derefC)

/-! ### 1. the eager-copy reading -/

/-- all `TuplePtr`s in the tuple sets of an automaton value whose tuple sets hold cells – with multiplicity -/
def idsOfVal (v : Store.Store) : List Nat := v.clusters.flatMap (fun qc => qc.2.flatMap (fun ft => idsOf ft.2))

/-- the transition map of `StoreI.Sys` (tuple sets = lists of identities) of an automaton value of cells -/
def toI (v : Store.Store) : List (Nat × StoreI.ClusterI) :=
  v.clusters.map (fun qc => (qc.1, qc.2.map (fun ft => (ft.1, idsOf ft.2))))

/-- the identities an EAGER copy would hold on behalf of automaton `h` (nothing if `h` is dead) -/
def heldBy (s : Sys) (h : Nat) : List Nat :=
  match CowHeapX.absX s.hx h with
  | some v => idsOfVal v
  | none => []

/-- all pointer holders of the eager reading: every automaton for itself, and the outside holders -/
def eagerRefs (s : Sys) : List Nat := s.hx.core.hl.flatMap (heldBy s) ++ s.ext

/-- the cache of the eager reading: same tuples at the same addresses, `use_count` = number of eager holders -/
def eagerCache (s : Sys) : CacheSt := s.cache.map (fun e => (e.1, e.2.1, (eagerRefs s).count e.2.1))

/-- automaton `h` of the copy-on-write world as a system of `Vata/StoreInterned.lean`: `ext` accounts for everybody else -/
def projI (s : Sys) (h : Nat) : Option StoreI.Sys :=
  (CowHeapX.absX s.hx h).map (fun v =>
    { cache := eagerCache s, clusters := toI v, final := v.final,
      ext := (s.hx.core.hl.erase h).flatMap (heldBy s) ++ s.ext })

/-- the children tuples that occur in an automaton value -/
def tuplesOf (v : Store.Store) : List (List Nat) := v.clusters.flatMap (fun qc => qc.2.flatMap (fun ft => ft.2))

/-! ### 3. `ContainsTransition` on a named automaton

    auto itStateToClusterMap = transitions_->find(parent);
    if (transitions_->end() != itStateToClusterMap) {
      const TransitionCluster& cluster = *itStateToClusterMap->second;
      auto itSymbolToTuplePtrSet = cluster.find(symbol);
      if (cluster.end() != itSymbolToTuplePtrSet) {
        const TuplePtrSet& tuplePtrSet = *itSymbolToTuplePtrSet->second;
        return (tuplePtrSet.end() != tuplePtrSet.find(this->tupleLookup(children)));   // temporary TuplePtr
      } }
    return false;

No `unique…` call: nothing is cloned, the shared nodes are read. -/
def containsMI (s : Sys) (h : Nat) (r : Rule) (ch : Nat) : Option (Sys × Bool) :=
  if h ∈ s.hx.core.hl then
    match (s.hx.core.ment (s.hx.core.hmap h)).lookup r.parent with
    | none => some (s, false)
    | some c =>
      match (s.hx.core.cent c).lookup r.sym with
      | none => some (s, false)
      | some ts =>
        match lookupC s.cache r.kids ch with
        | none => none
        | some (c₁, p) =>
          some ({ s with cache := releaseC .lib c₁ p }, (s.hx.core.tdat ts).contains (cell p))
  else some (s, false)

/-! ### 2. move and the storage-sharing results, threaded -/

/-- move construction `dst(std::move(src))`: the root pointer changes its owner – no use count changes, no `TuplePtr`
    is touched -/
def moveI (S : HC) (src dst : Nat) : HC := (moveCore S.1 src dst, S.2)

/-- move assignment `dst = std::move(src)` (`shared_ptr(std::move(r)).swap(*this)`): the old map pointer of `dst` is
    released – the cascade may reach tuple sets -/
def moveAssignI (S : HC) (src dst : Nat) : HC :=
  releaseMapI (retarget (dropHandle S.1 src) dst (S.1.hmap src), S.2) (S.1.hmap dst)

/-- `ExplicitTreeAutCore result(cache_); result.transitions_ = transitions_;` (`RemoveUselessStates`, nothing removed) -/
def shareAllI (S : HC) (src dst : Nat) : HC := assignI (CowHeap3.step S.1 (.new dst), S.2) src dst

/-- `transitions_ = StateToTransitionClusterMapPtr(new StateToTransitionClusterMap())` on the live handle `h` -/
def freshMapI (S : HC) (h : Nat) : HC := releaseMapI (retarget (allocMap S.1 []) h S.1.next, S.2) (S.1.hmap h)

/-- `RemoveUnreachableStates`: `result.transitions_ = Ptr(new Map()); for (state : reachable)
    result.transitions_->insert(make_pair(state, iter->second));` – cluster POINTERS are copied -/
def shareClustersI (S : HC) (src dst : Nat) (keep : Nat → Bool) : HC :=
  let S1 := freshMapI (CowHeap3.step S.1 (.new dst), S.2) dst
  (insertEntries S1.1 (S1.1.hmap dst) ((S1.1.ment (S1.1.hmap src)).filter (fun kc => keep kc.1)), S1.2)

/-- `UnionDisjointStates`: `ExplicitTreeAutCore res(lhs); res.uniqueClusterMap()->insert(rhs.transitions_->begin(), …end())`
    – the clone of the map node and the inserted entries copy cluster POINTERS -/
def unionDisjI (S : HC) (a b dst : Nat) : HC :=
  let S1 := uniqueMapI (CowHeap3.step S.1 (.copy a dst), S.2) dst
  (insertEntries S1.1 (S1.1.hmap dst) (missing (S1.1.ment (S1.1.hmap dst)) (S1.1.ment (S1.1.hmap b))), S1.2)

/-- the calls of `Vata/CowInterned.lean` plus move, the storage-sharing results and `ContainsTransition` -/
inductive Op2 where
  | base (op : Op)
  /-- move constructor `dst(std::move(src))` -/
  | move (src dst : Nat)
  /-- `dst = std::move(src)` -/
  | moveAssign (src dst : Nat)
  /-- `dst` := `RemoveUselessStates(src)` when nothing is removed; final states filtered -/
  | shareAll (src dst : Nat) (keepFinal : Nat → Bool)
  /-- `dst` := `RemoveUnreachableStates(src)` keeping the clusters of the states with `keep` -/
  | shareClusters (src dst : Nat) (keep : Nat → Bool)
  /-- `dst` := `UnionDisjointStates(a, b)` -/
  | unionDisj (a b dst : Nat)
  /-- `h.ContainsTransition(r)` in the middle of a history (its answer is not recorded; it interns a temporary) -/
  | query (h : Nat) (r : Rule) (ch : Nat)

/-- one call; guards as in `CowHeapX.stepX` (calls that are not C++ programs are no-ops) -/
def stepC2 (md : Mode) (s : Sys) : Op2 → Option Sys
  | .base op => stepC md s op
  | .move src dst =>
    if src ∈ s.hx.core.hl ∧ dst ∉ s.hx.core.hl then
      some (withCore s (moveI (s.hx.core, s.cache) src dst) (upd s.hx.fin dst (s.hx.fin src)))
    else some s
  | .moveAssign src dst =>
    if src ∈ s.hx.core.hl ∧ dst ∈ s.hx.core.hl ∧ src ≠ dst then
      some (withCore s (moveAssignI (s.hx.core, s.cache) src dst) (upd s.hx.fin dst (s.hx.fin src)))
    else some s
  | .shareAll src dst keepF =>
    if src ∈ s.hx.core.hl ∧ dst ∉ s.hx.core.hl then
      some (withCore s (shareAllI (s.hx.core, s.cache) src dst) (upd s.hx.fin dst ((s.hx.fin src).filter keepF)))
    else some s
  | .shareClusters src dst keep =>
    if src ∈ s.hx.core.hl ∧ dst ∉ s.hx.core.hl then
      some (withCore s (shareClustersI (s.hx.core, s.cache) src dst keep) (upd s.hx.fin dst (s.hx.fin src)))
    else some s
  | .unionDisj a b dst =>
    if a ∈ s.hx.core.hl ∧ b ∈ s.hx.core.hl ∧ dst ∉ s.hx.core.hl then
      some (withCore s (unionDisjI (s.hx.core, s.cache) a b dst)
        (upd s.hx.fin dst ((s.hx.fin b).foldl (fun acc q => insN q acc) (s.hx.fin a))))
    else some s
  | .query h r ch => (containsMI s h r ch).map (·.1)

def runFrom2 (md : Mode) : Sys → List Op2 → Option Sys
  | s, [] => some s
  | s, op :: ops =>
    match stepC2 md s op with
    | none => none
    | some s' => runFrom2 md s' ops

/-- a history from the empty process -/
def run2 (md : Mode) (ops : List Op2) : Option Sys := runFrom2 md init ops

/-- the call at the level of independent automaton VALUES (`none`: invisible) -/
def valOp2 (s : Sys) : Op2 → Option CowHeapX.HOpX
  | .base op => valOp s op
  | .move src dst => some (.move src dst)
  | .moveAssign src dst => some (.moveAssign src dst)
  | .shareAll src dst keepF => some (.shareAll src dst keepF)
  | .shareClusters src dst keep => some (.shareClusters src dst keep)
  | .unionDisj a b dst => some (.unionDisj a b dst)
  | .query _ _ _ => none

/-- the value-level calls of a history (read off along the run of the library) -/
def valOps2 : Sys → List Op2 → List CowHeapX.HOpX
  | _, [] => []
  | s, op :: ops =>
    (valOp2 s op).toList ++ (match stepC2 .lib s op with
                             | none => []
                             | some s' => valOps2 s' ops)

/-- the address a call offers for a new cache node -/
def opChoice2 : Op2 → Option Nat
  | .base (.add _ _ ch) => some ch
  | .base (.envLookup _ ch) => some ch
  | .query _ _ ch => some ch
  | _ => none

end Vata.CowI
