import Vata.Multi
/-!
# Exact language-level deciders (L1), instances of `forallTrees`

Each decider returns `Option Bool` (`none` = fuel exhausted, an internal error of the machinery, never a verdict) and
comes with an *iff* theorem against the L0 notion for every verdict it returns.
-/
namespace Vata

def Incl (A B : TA) : Prop := ∀ t, accepts A t = true → accepts B t = true
def LangEq (A B : TA) : Prop := ∀ t, accepts A t = accepts B t
def LangEmpty (A : TA) : Prop := ∀ t, accepts A t = false

def inclM (A B : TA) (fuel : Nat) : Option Bool :=
  forallTrees [A, B] (fun v => match v with | [a, b] => !a || b | _ => false) fuel

theorem inclM_iff (A B : TA) (fuel : Nat) (b : Bool) (h : inclM A B fuel = some b) : b = true ↔ Incl A B := by
  rw [forallTrees_iff _ _ _ _ h]
  simp only [List.map_cons, List.map_nil, Incl]
  constructor
  · intro h t ha; have := h t; simp [ha] at this; exact this
  · intro h t; cases ha : accepts A t <;> simp [h t, ha]

def equivM (A B : TA) (fuel : Nat) : Option Bool :=
  forallTrees [A, B] (fun v => match v with | [a, b] => a == b | _ => false) fuel

theorem equivM_iff (A B : TA) (fuel : Nat) (b : Bool) (h : equivM A B fuel = some b) : b = true ↔ LangEq A B := by
  rw [forallTrees_iff _ _ _ _ h]
  simp only [List.map_cons, List.map_nil, LangEq, beq_iff_eq]

def emptyM (A : TA) (fuel : Nat) : Option Bool :=
  forallTrees [A] (fun v => match v with | [a] => !a | _ => false) fuel

theorem emptyM_iff (A : TA) (fuel : Nat) (b : Bool) (h : emptyM A fuel = some b) : b = true ↔ LangEmpty A := by
  rw [forallTrees_iff _ _ _ _ h]
  simp only [List.map_cons, List.map_nil, LangEmpty, Bool.not_eq_true']

/-- `U` accepts exactly `L(A) ∪ L(B)` -/
def isUnionM (U A B : TA) (fuel : Nat) : Option Bool :=
  forallTrees [U, A, B] (fun v => match v with | [u, a, b] => u == (a || b) | _ => false) fuel

theorem isUnionM_iff (U A B : TA) (fuel : Nat) (b : Bool) (h : isUnionM U A B fuel = some b) :
    b = true ↔ ∀ t, accepts U t = (accepts A t || accepts B t) := by
  rw [forallTrees_iff _ _ _ _ h]
  simp only [List.map_cons, List.map_nil, beq_iff_eq]

/-- `P` accepts exactly `L(A) ∩ L(B)` -/
def isIsectM (P A B : TA) (fuel : Nat) : Option Bool :=
  forallTrees [P, A, B] (fun v => match v with | [p, a, b] => p == (a && b) | _ => false) fuel

theorem isIsectM_iff (P A B : TA) (fuel : Nat) (b : Bool) (h : isIsectM P A B fuel = some b) :
    b = true ↔ ∀ t, accepts P t = (accepts A t && accepts B t) := by
  rw [forallTrees_iff _ _ _ _ h]
  simp only [List.map_cons, List.map_nil, beq_iff_eq]

/-! ### trees over a ranked alphabet -/

mutual
def overSig (Sg : List (Nat × Nat)) : Tree → Bool
  | .node f ts => Sg.contains (f, lenT ts) && overSigL Sg ts
def overSigL (Sg : List (Nat × Nat)) : List Tree → Bool
  | [] => true
  | t :: ts => overSig Sg t && overSigL Sg ts
def lenT : List Tree → Nat
  | [] => 0
  | _ :: ts => lenT ts + 1
end

theorem lenT_eq (ts : List Tree) : lenT ts = ts.length := by
  induction ts with
  | nil => simp [lenT]
  | cons t ts ih => simp [lenT, ih]

/-- the one-state automaton accepting every tree over `Sg` -/
def univ (Sg : List (Nat × Nat)) : TA := ⟨Sg.map (fun fa => ⟨fa.1, List.replicate fa.2 0, 0⟩), [0]⟩

theorem matchKids_replicate : ∀ (n : Nat) (ss : List (List Nat)),
    matchKids (List.replicate n 0) ss = true ↔ n = ss.length ∧ ∀ s, s ∈ ss → 0 ∈ s
  | 0, [] => by simp [matchKids]
  | 0, _ :: _ => by simp [matchKids]
  | n+1, [] => by simp [matchKids, List.replicate]
  | n+1, s :: ss => by
    simp only [List.replicate, matchKids, Bool.and_eq_true, List.contains_iff_mem, matchKids_replicate n ss,
      List.length_cons, List.mem_cons, forall_eq_or_imp]
    constructor
    · rintro ⟨h1, h2, h3⟩; exact ⟨by omega, h1, h3⟩
    · rintro ⟨h1, h2, h3⟩; exact ⟨h2, by omega, h3⟩

mutual
theorem zero_mem_reach_univ (Sg : List (Nat × Nat)) : ∀ t : Tree, 0 ∈ reach (univ Sg) t ↔ overSig Sg t = true
  | .node f ts => by
    rw [reach, mem_post', overSig]
    simp only [univ, List.mem_map, Bool.and_eq_true, List.contains_iff_mem]
    constructor
    · rintro ⟨r, ⟨fa, hfa, rfl⟩, hs, hm, _⟩
      simp only at hs hm
      obtain ⟨h1, h2⟩ := (matchKids_replicate _ _).mp hm
      rw [reachL_eq_map] at h1
      simp only [List.length_map] at h1
      refine ⟨?_, (zero_mem_reachL_univ Sg ts).mp h2⟩
      rw [lenT_eq, ← h1, ← hs]; exact hfa
    · rintro ⟨h1, h2⟩
      refine ⟨⟨f, List.replicate (lenT ts) 0, 0⟩, ⟨(f, lenT ts), h1, rfl⟩, rfl, ?_, rfl⟩
      apply (matchKids_replicate _ _).mpr
      refine ⟨?_, (zero_mem_reachL_univ Sg ts).mpr h2⟩
      rw [lenT_eq, reachL_eq_map]; simp
theorem zero_mem_reachL_univ (Sg : List (Nat × Nat)) : ∀ ts : List Tree,
    (∀ s, s ∈ reachL (univ Sg) ts → 0 ∈ s) ↔ overSigL Sg ts = true
  | [] => by simp [reachL, overSigL]
  | t :: ts => by
    simp only [reachL, List.mem_cons, forall_eq_or_imp, overSigL, Bool.and_eq_true,
      zero_mem_reach_univ Sg t, zero_mem_reachL_univ Sg ts]
end

theorem accepts_univ (Sg : List (Nat × Nat)) (t : Tree) : accepts (univ Sg) t = overSig Sg t := by
  rw [Bool.eq_iff_iff, ← zero_mem_reach_univ]
  simp only [accepts, accepting, List.any_eq_true, List.contains_iff_mem, univ, List.mem_singleton]
  constructor
  · rintro ⟨q, hq, rfl⟩; exact hq
  · intro h; exact ⟨0, h, rfl⟩

/-- `C` is the complement of `A` over `Sg`: on trees over `Sg` exactly one of the two accepts, and `C` accepts
nothing outside -/
def isComplM (C A : TA) (Sg : List (Nat × Nat)) (fuel : Nat) : Option Bool :=
  forallTrees [C, A, univ Sg] (fun v => match v with | [c, a, u] => if u then c != a else !c | _ => false) fuel

theorem isComplM_iff (C A : TA) (Sg : List (Nat × Nat)) (fuel : Nat) (b : Bool)
    (h : isComplM C A Sg fuel = some b) :
    b = true ↔ ∀ t, (overSig Sg t = true → accepts C t = !accepts A t) ∧ (overSig Sg t = false → accepts C t = false) := by
  rw [forallTrees_iff _ _ _ _ h]
  simp only [List.map_cons, List.map_nil, accepts_univ]
  constructor
  · intro h t
    have := h t
    cases ho : overSig Sg t <;> simp [ho] at this ⊢
    · exact this
    · cases ha : accepts A t <;> cases hc : accepts C t <;> simp_all
  · intro h t
    obtain ⟨h1, h2⟩ := h t
    cases ho : overSig Sg t <;> simp [ho] at h1 h2 ⊢
    · exact h2
    · rw [h1]; cases accepts A t <;> simp

end Vata
