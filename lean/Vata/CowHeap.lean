import Vata.Store
/-!
# Copy-on-write automaton handles are values (property C11) – definitions

C++ (`src/explicit_tree_aut_core.{hh,cc}`): an `ExplicitTreeAutCore` object (a *handle*) holds
`shared_ptr<StateToTransitionClusterMap> transitions_`; a map node sends states to `shared_ptr<TransitionCluster>`.
Copy construction / `operator=` copy the pointer (`use_count` + 1), `AddTransition` goes through
`uniqueClusterMap()` (clone the map node when `!unique()`) and `uniqueCluster(q)` (create the cluster, or clone it when
`!unique()`), `Clear` makes a fresh map when shared and clears in place when unique, the destructor releases the pointer
(`--use_count == 0` ⇒ the node is deleted and releases its children).

Model: a heap with two pools of reference-counted nodes (map nodes and cluster nodes), never re-using identifiers.
The contents of a cluster node is a `Store.Cluster` *value* (symbol ↦ tuple set; the third level of sharing – tuple-set
pointers inside a cluster – is abstracted here and modelled in `Vata/CowHeap3.lean`), so the value seen through a handle is exactly the `clusters` component of the
rule store of `Vata/Store.lean` and `add` is `Store.addToMap`.
-/
namespace Vata.CowHeap

open Vata.Store (Cluster upsert addToCluster addToMap)

def upd {β : Type} (f : Nat → β) (k : Nat) (v : β) : Nat → β := fun x => if x = k then v else f x

structure Heap where
  /-- live handles (automaton objects) -/
  hl   : List Nat
  /-- handle ↦ map node (`transitions_`) -/
  hmap : Nat → Nat
  /-- allocated map nodes -/
  ml   : List Nat
  /-- map node ↦ (state ↦ cluster node) -/
  ment : Nat → List (Nat × Nat)
  /-- `use_count` of the map nodes -/
  mrc  : Nat → Nat
  /-- allocated cluster nodes -/
  cl   : List Nat
  /-- cluster node ↦ contents -/
  cdat : Nat → Cluster
  /-- `use_count` of the cluster nodes -/
  crc  : Nat → Nat
  /-- all identifiers in use are `< next` -/
  next : Nat

def init : Heap := ⟨[], fun _ => 0, [], fun _ => [], fun _ => 0, [], fun _ => [], fun _ => 0, 0⟩

inductive HOp where
  /-- default constructor -/
  | new (h : Nat)
  /-- copy constructor `dst(src)` -/
  | copy (src dst : Nat)
  /-- `dst = src` -/
  | assign (src dst : Nat)
  /-- `h.AddTransition(val.2, val.1, key)` : `key` = parent state, `val` = (symbol, children) -/
  | add (h : Nat) (key : Nat) (val : Nat × List Nat)
  /-- `h.Clear()` (the transition part) -/
  | clear (h : Nat)
  /-- destructor -/
  | destroy (h : Nat)
deriving Repr, DecidableEq

/-- pointers held by map node `m` -/
def mout (H : Heap) (m : Nat) : List Nat := (H.ment m).map Prod.snd

/-! ### primitive `shared_ptr` / container actions -/

/-- `shared_ptr<Map> tmp(new Map(es))` : copying the entries copies the cluster pointers (each `use_count` + 1);
    the new node has `use_count` 1 (held by the temporary) -/
def allocMap (H : Heap) (es : List (Nat × Nat)) : Heap :=
  { H with ml := H.next :: H.ml, ment := upd H.ment H.next es, mrc := upd H.mrc H.next 1,
           crc := fun c => H.crc c + (es.map Prod.snd).count c, next := H.next + 1 }

/-- copy of a `shared_ptr<Map>` into a temporary -/
def incMap (H : Heap) (m : Nat) : Heap := { H with mrc := upd H.mrc m (H.mrc m + 1) }

/-- swap the temporary with `transitions_` of the live handle `h` (the temporary then holds the old pointer) -/
def retarget (H : Heap) (h m' : Nat) : Heap := { H with hmap := upd H.hmap h m' }

/-- a new automaton object whose `transitions_` takes over the temporary -/
def addHandle (H : Heap) (h m' : Nat) : Heap := { H with hl := h :: H.hl, hmap := upd H.hmap h m' }

/-- the automaton object goes away (its `transitions_` still has to be released) -/
def dropHandle (H : Heap) (h : Nat) : Heap := { H with hl := H.hl.erase h }

/-- `shared_ptr<Cluster> tmp(new Cluster(d))` -/
def allocCluster (H : Heap) (d : Cluster) : Heap :=
  { H with cl := H.next :: H.cl, cdat := upd H.cdat H.next d, crc := upd H.crc H.next 1, next := H.next + 1 }

/-- `m.insert(make_pair(q, nullptr)).first->second = tmp` (the old pointer, if any, still has to be released) -/
def setEntry (H : Heap) (m q c' : Nat) : Heap :=
  { H with ment := upd H.ment m (upsert q (fun _ => c') (H.ment m)) }

/-- `m.clear()` (the entries still have to be released) -/
def clearEntries (H : Heap) (m : Nat) : Heap := { H with ment := upd H.ment m [] }

/-- modification of a cluster node in place -/
def writeCluster (H : Heap) (c : Nat) (d : Cluster) : Heap := { H with cdat := upd H.cdat c d }

/-- `shared_ptr<TransitionCluster>` released: `--use_count == 0` ⇒ delete -/
def releaseCluster (H : Heap) (c : Nat) : Heap :=
  if H.crc c - 1 = 0 then { H with cl := H.cl.erase c, crc := upd H.crc c 0 }
  else { H with crc := upd H.crc c (H.crc c - 1) }

/-- `shared_ptr<StateToTransitionClusterMap>` released: `--use_count == 0` ⇒ delete the map, which releases its entries -/
def releaseMap (H : Heap) (m : Nat) : Heap :=
  if H.mrc m - 1 = 0 then
    (mout H m).foldl releaseCluster { H with ml := H.ml.erase m, mrc := upd H.mrc m 0 }
  else { H with mrc := upd H.mrc m (H.mrc m - 1) }

/-! ### the operations -/

/-- `uniqueClusterMap()` : `if (!transitions_.unique()) transitions_ = shared_ptr(new Map(*transitions_))` -/
def uniqueMap (H : Heap) (h : Nat) : Heap :=
  let m := H.hmap h
  if H.mrc m = 1 then H else releaseMap (retarget (allocMap H (H.ment m)) h H.next) m

/-- `uniqueCluster(q)` on the (unique) map of `h`, then the insertion into the cluster:
    no entry ⇒ new cluster; shared cluster ⇒ clone (and release the old pointer); unique cluster ⇒ in place -/
def addUnique (H : Heap) (h q : Nat) (v : Nat × List Nat) : Heap :=
  let m := H.hmap h
  match (H.ment m).lookup q with
  | none => setEntry (allocCluster H (addToCluster v.1 v.2 [])) m q H.next
  | some c =>
    if H.crc c = 1 then writeCluster H c (addToCluster v.1 v.2 (H.cdat c))
    else releaseCluster (setEntry (allocCluster H (addToCluster v.1 v.2 (H.cdat c))) m q H.next) c

/-- operations on dead handles (resp. constructors on live handles) are not C++ programs: modelled as no-ops -/
def step (H : Heap) : HOp → Heap
  | .new h => if h ∈ H.hl then H else addHandle (allocMap H []) h H.next
  | .copy src dst =>
    if src ∈ H.hl ∧ dst ∉ H.hl then addHandle (incMap H (H.hmap src)) dst (H.hmap src) else H
  | .assign src dst =>
    -- `if (this != &rhs) transitions_ = rhs.transitions_;` : take the new reference, then release the old one
    if src ∈ H.hl ∧ dst ∈ H.hl ∧ src ≠ dst then
      releaseMap (retarget (incMap H (H.hmap src)) dst (H.hmap src)) (H.hmap dst)
    else H
  | .add h q v => if h ∈ H.hl then addUnique (uniqueMap H h) h q v else H
  | .clear h =>
    if h ∈ H.hl then
      let m := H.hmap h
      if H.mrc m = 1 then
        -- unique: `clear()` in place, the entries are released
        (mout H m).foldl releaseCluster (clearEntries H m)
      else
        -- shared: `transitions_ = shared_ptr(new Map())`
        releaseMap (retarget (allocMap H []) h H.next) m
    else H
  | .destroy h => if h ∈ H.hl then releaseMap (dropHandle H h) (H.hmap h) else H

/-! ### abstraction and value-level specification -/

/-- the value of a handle: state ↦ cluster (the `clusters` component of `Store.Store`) -/
abbrev Val := List (Nat × Cluster)

def valM (H : Heap) (m : Nat) : Val := (H.ment m).map (fun kc => (kc.1, H.cdat kc.2))

/-- handle ⇀ value -/
def abs (H : Heap) : Nat → Option Val := fun h => if h ∈ H.hl then some (valM H (H.hmap h)) else none

def specInit : Nat → Option Val := fun _ => none

/-- independent values: every operation touches only the value of its target handle -/
def specStep (a : Nat → Option Val) : HOp → (Nat → Option Val)
  | .new h => if (a h).isSome then a else upd a h (some [])
  | .copy src dst => if (a src).isSome ∧ (a dst).isNone then upd a dst (a src) else a
  | .assign src dst => if (a src).isSome ∧ (a dst).isSome ∧ src ≠ dst then upd a dst (a src) else a
  | .add h q v =>
    match a h with
    | some x => upd a h (some (addToMap q v.1 v.2 x))
    | none => a
  | .clear h => if (a h).isSome then upd a h (some []) else a
  | .destroy h => upd a h none

/-! ### executable invariant checker -/

/-- number of references to `n` from the nodes `live` with outgoing pointers `out` -/
def indeg (live : List Nat) (out : Nat → List Nat) (n : Nat) : Nat := (live.flatMap out).count n

def nodupNB : List Nat → Bool
  | [] => true
  | x :: l => !(l.contains x) && nodupNB l

def invB (H : Heap) : Bool :=
  nodupNB H.hl && nodupNB H.ml && nodupNB H.cl &&
  H.hl.all (fun h => H.ml.contains (H.hmap h)) &&
  H.ml.all (fun m => (mout H m).all (fun c => H.cl.contains c)) &&
  H.ml.all (fun m => H.mrc m == indeg H.hl (fun h => [H.hmap h]) m && decide (m < H.next) && decide (0 < H.mrc m)) &&
  H.cl.all (fun c => H.crc c == indeg H.ml (mout H) c && decide (c < H.next) && decide (0 < H.crc c))

end Vata.CowHeap
