import Vata.InclDown
import Vata.FunctorCachesUp
/-!
# The recursive downward tree inclusion algorithm WITH its address-keyed caches (properties C01, C07)

`Vata/InclDown.lean` models `CheckDownwardTreeInclusion` (`src/tree_incl_down.hh`) with `DownwardInclusionFunctor`
(`src/down_tree_incl_fctor.hh`) comparing macro-states BY VALUE.  Here the same recursion is re-stated with the two caches of the
code:

    typename InclFctor::LteCache lteCache;                       // CachedBinaryOp<const StateSet*, const StateSet*, bool>
    typename InclFctor::BiggerTypeCache biggerTypeCache(         // Util::Cache<StateSet, function<void(const StateSet*)>>
        [&lteCache](const StateSet* v) { lteCache.invalidateFirst(v); lteCache.invalidateSecond(v); });

* the heap of interned macro-states, the allocator parameter `pick`, the deaths (`hCollect`) and the deleter are the ones of
  `Vata/FunctorCachesUp.lean` (`FCU.Heap`; its table `ev` is not used by the downward algorithm and stays empty – the extra
  `ev.invalidateSecond` of `FCU.deleter` is the identity on an empty table);
* a `BiggerType` (a `shared_ptr<StateSet>`) is an address; `workset_`, `childrenCache_`, `nonIncl_` hold pairs (state, address);
* `SetComparerSmaller::operator()(lhs, rhs)`: `if (lhs == rhs) return true; else return lteCache_.lookup(lhs.get(), rhs.get(),
  noncachedLte_)` – `hLteO`; `NonCachedLte(x, y)` (every state of `*x` is below a state of `*y`) is `InclDown.setLe o (*x) (*y)`.
  `SetComparerBigger(lhs, rhs)` is `smallerCmp_(rhs, lhs)`;
* `isInWorkset`, `Antichain2Cv2::contains`, `Antichain2Cv2::refine` are transcribed as loops that thread the heap and stop at
  the first hit (`findC`, `refC`): WHICH pairs are compared, and therefore which entries `lteCache` gets, follows the code
  (list order stands for the iteration order of the hash containers, as in `InclDown`);
* handles and deaths: the temporary `biggerTypeCache_.lookup(StateSet(..))` that is the argument of `expand` lives until
  `expand` returns, and so do `key` and the `childrenCache_` of `innerFctor` (locals of `expand`); the handle in `workset_` is
  erased before; `refine` in `processFoundInclusion` / `processFoundNoninclusion` drops handles.
  The deaths are modelled by two `hCollect`s: one after `processFoundInclusion` / `processFoundNoninclusion` (the sets of the
  pairs `refine` erased; `key` and the `childrenCache_` of `innerFctor` still hold their handles) and one when the call has
  returned (`wrapC`: the temporary, `key`, the `childrenCache_` of `innerFctor` are gone), each with the handles that exist then
  as roots: the work-set, the `childrenCache_`s of the functors on the call stack (`outer` + the one of the calling functor),
  `nonIncl_`.  (A death in the middle of `refine` removes the memo entries of the dead address only; the remaining comparisons of
  that `refine` are about objects that stay alive and no object is created before the `hCollect` – same heap, same `lteCache`.)
  In `CheckDownwardTreeInclusion` the temporary `biggerTypeCache.lookup(finalStatesBigger)` dies at the end of the `if`.

`w : CM.Wiring` is what the deleter does (`.lib` as the code above; `.firstTwice` the seeded slip `invalidateFirst` twice).

Covered instantiations: the template `CheckDownwardTreeInclusion<Aut, DownwardInclusionFunctor, Rel>` is shared by
`ExplicitTreeAut` (`ANTICHAINS_DOWN_REC_NOSIM` / `…_SIM`, C01) and `BDDTDTreeAut` (top-down BDD encoding, C07); the model is at
the level of `InclDown.expand` (rules as lists), the same for both.  `o : InclDown.Ord` is the preorder (`idOrd` = `NOSIM`).

Definitions only (core Lean); theorems in `Vata/Proofs/FunctorCachesDown*.lean`.
-/
namespace Vata
namespace FCD
open Vata.InclDown Vata.CM
open Vata.FCU (Heap hval hLookup hCollect pickLeast)
open Vata.InclUp (normS prodWit Wit)

/-- (state of `A`, address of the macro-state) -/
abbrev CP := Nat × Nat
/-- an element of `nonIncl_` with the ghost witness of `InclDown` -/
abbrev CN := Nat × Nat × Tree

/-- `SetComparerSmaller::operator()`: pointer equality, otherwise `lteCache_.lookup(lhs.get(), rhs.get(), noncachedLte_)` -/
def hLteO (o : Ord) (h : Heap) (a b : Nat) : Heap × Bool :=
  if a = b then (h, true)
  else
    let r := h.lte.lookup a b (fun x y => setLe o (hval h x) (hval h y))
    ({ h with lte := r.1 }, r.2)

/-- the comparison of the element `x` of a container with the argument `a`: `smallerComparer_(x, a)` (`flip = false`) or
`biggerComparer_(x, a) = smallerComparer_(a, x)` (`flip = true`) -/
def cmpO (o : Ord) (flip : Bool) (h : Heap) (xa a : Nat) : Heap × Bool :=
  if flip then hLteO o h a xa else hLteO o h xa a

/-- `isInWorkset` / `Antichain2Cv2::contains(candidates, Q, cmp)`: the first element whose key passes `kt` (is among the
candidates) and whose set compares; the loop returns at the first hit

    for (auto& P : iter->second) { if (cmp(P, Q)) { return true; } } -/
def findC {α : Type} (o : Ord) (flip : Bool) (kt : α → Bool) (ad : α → Nat) (a : Nat) : List α → Heap → Heap × Option α
  | [], h => (h, none)
  | x :: X, h =>
    if kt x then
      let r := cmpO o flip h (ad x) a
      if r.2 then (r.1, some x) else findC o flip kt ad a X r.1
    else findC o flip kt ad a X h

/-- `Antichain2Cv2::refine(candidates, Q, cmp)`: every element with a candidate key is compared; those that compare are erased -/
def refC {α : Type} (o : Ord) (flip : Bool) (kt : α → Bool) (ad : α → Nat) (a : Nat) : List α → Heap → Heap × List α
  | [], h => (h, [])
  | x :: X, h =>
    if kt x then
      let r := cmpO o flip h (ad x) a
      let r' := refC o flip kt ad a X r.1
      (r'.1, if r.2 then r'.2 else x :: r'.2)
    else
      let r' := refC o flip kt ad a X h
      (r'.1, x :: r'.2)

/-- `isInWorkset(key)` and `isImpliedByChildren(key)`:
`preorder_.get(elem.first, stateSetPair.first)` then `smallerComparer_(stateSetPair.second, elem.second)` -/
def coversC (o : Ord) (X : List CP) (p a : Nat) (h : Heap) : Heap × Bool :=
  let r := findC o false (fun x : CP => o.leA p x.1) (·.2) a X h
  (r.1, r.2.isSome)

/-- `isNoninclusionImplied(key)`: `nonIncl_.contains(preorderSmaller_.at(elem.first), elem.second, biggerComparer_)` -/
def niFindC (o : Ord) (ni : List CN) (p a : Nat) (h : Heap) : Heap × Option CN :=
  findC o true (fun x : CN => o.leA x.1 p) (·.2.1) a ni h

/-- `processFoundInclusion`:

    if (!childrenCache_.contains(preorderBigger_.at(smallerState), biggerStateSet, smallerComparer_)) {
        childrenCache_.refine(preorderSmaller_.at(smallerState), biggerStateSet, biggerComparer_);
        childrenCache_.insert(smallerState, biggerStateSet); } -/
def ccAddC (o : Ord) (cc : List CP) (p a : Nat) (h : Heap) : Heap × List CP :=
  let r1 := coversC o cc p a h
  if r1.2 then (r1.1, cc)
  else
    let r2 := refC o true (fun x : CP => o.leA x.1 p) (·.2) a cc r1.1
    (r2.1, r2.2 ++ [(p, a)])

/-- `processFoundNoninclusion`:

    if (!nonIncl_.contains(preorderSmaller_.at(smallerState), biggerStateSet, biggerComparer_)) {
        nonIncl_.refine(preorderBigger_.at(smallerState), biggerStateSet, smallerComparer_);
        nonIncl_.insert(smallerState, biggerStateSet); } -/
def niAddC (o : Ord) (ni : List CN) (p a : Nat) (w : Tree) (h : Heap) : Heap × List CN :=
  let r1 := niFindC o ni p a h
  if r1.2.isSome then (r1.1, ni)
  else
    let r2 := refC o false (fun x : CN => o.leA p x.1) (·.2.1) a ni r1.1
    (r2.1, r2.2 ++ [(p, a, w)])

/-- the global state: `nonIncl_`, the ghost set of `InclDown.St` (pairs by value, not in the code), the heap with `lteCache` -/
structure StC where
  nonIncl : List CN
  trues : List Pair
  h : Heap

/-- result of a call: verdict, `childrenCache_` of the calling functor, state -/
abbrev RetC := Option (Verdict × List CP × StC)
/-- `expand(lhsState, biggerTypeCache_.lookup(S))` as the functor sees it: it hands over the VALUE `S` -/
abbrev CallC := List CP → StC → Nat → List Nat → RetC

/-! ### the functor's `operator()`: `InclDown.body` … over the cached state -/

def forAllLC {α : Type} (f : α → List CP → StC → RetC) : List α → List CP → StC → RetC
  | [], cc, st => some (.holds, cc, st)
  | a :: as, cc, st =>
    match f a cc st with
    | none => none
    | some (.holds, cc', st') => forAllLC f as cc' st'
    | some (.fails w, cc', st') => some (.fails w, cc', st')

def allPosC (call : CallC) (lhs rhs : List Nat) : List CP → StC → RetC :=
  forAllLC (fun lr cc st => call cc st lr.1 [lr.2]) (lhs.zip rhs)

def anyTupleC (call : CallC) (lhs : List Nat) : List (List Nat) → List CP → StC → Option (Bool × List CP × StC)
  | [], cc, st => some (false, cc, st)
  | w :: W, cc, st =>
    match allPosC call lhs w cc st with
    | none => none
    | some (.holds, cc', st') => some (true, cc', st')
    | some (.fails _, cc', st') => anyTupleC call lhs W cc' st'

def consTC (t : Tree) : Option (Option (List Tree) × List CP × StC) → Option (Option (List Tree) × List CP × StC)
  | some (some ts, cc, st) => some (some (t :: ts), cc, st)
  | r => r

def tryPosC (call : CallC) (wit : Wit) (post : List Nat → List Nat) (W : List (List Nat)) (cs : List Nat) :
    Nat → List Nat → List CP → StC → Option (Option (List Tree) × List CP × StC)
  | _, [], cc, st => some (some [], cc, st)
  | i, l :: ls, cc, st =>
    let S := posSet post W cs i
    if S.isEmpty then consTC (treeOf wit l) (tryPosC call wit post W cs (i+1) ls cc st)
    else
      match call cc st l S with
      | none => none
      | some (.holds, cc', st') => some (none, cc', st')
      | some (.fails w, cc', st') => consTC w (tryPosC call wit post W cs (i+1) ls cc' st')

def oneCfC (call : CallC) (wit : Wit) (post : List Nat → List Nat) (f : Nat) (lhs : List Nat) (W : List (List Nat))
    (cs : List Nat) (cc : List CP) (st : StC) : RetC :=
  match tryPosC call wit post W cs 0 lhs cc st with
  | none => none
  | some (some ts, cc', st') => some (.fails (.node f ts), cc', st')
  | some (none, cc', st') => some (.holds, cc', st')

def cfAllC (one : List Nat → List CP → StC → RetC) (n : Nat) : Nat → List Nat → List CP → StC → RetC
  | 0, cs, cc, st => one cs cc st
  | m+1, cs, cc, st => forAllLC (fun i cc st => cfAllC one n m (i :: cs) cc st) (List.range n) cc st

def procTupleC (call1 call2 : CallC) (wit : Wit) (post : List Nat → List Nat) (f : Nat) (W : List (List Nat))
    (lhs : List Nat) (cc : List CP) (st : StC) : RetC :=
  match anyTupleC call1 lhs W cc st with
  | none => none
  | some (true, cc', st') => some (.holds, cc', st')
  | some (false, cc', st') => cfAllC (oneCfC call2 wit post f lhs W) lhs.length W.length [] cc' st'

def procGroupC (call1 call2 : CallC) (A B : TA) (wit : Wit) (post : List Nat → List Nat) (p : Nat) (P : List Nat)
    (f n : Nat) (cc : List CP) (st : StC) : RetC :=
  let W := rhsTuples B P f n
  if n = 0 then
    if W.isEmpty then some (.fails (.node f []), cc, st) else some (.holds, cc, st)
  else
    let L := lhsTuples A p f n
    if W.isEmpty then some (.fails (.node f ((L.headD []).map (treeOf wit))), cc, st)
    else forAllLC (procTupleC call1 call2 wit post f W) L cc st

/-- `ForeachDownSymbolFromStateAndStateSetDo(smaller_, bigger_, smallerState, *biggerStateSet, innerFctor)`: the set is
dereferenced (`P` is its value) -/
def bodyC (call1 call2 : CallC) (A B : TA) (wit : Wit) (post : List Nat → List Nat) (p : Nat) (P : List Nat)
    (cc : List CP) (st : StC) : RetC :=
  forAllLC (fun g => procGroupC call1 call2 A B wit post p P g.1 g.2) (lhsGroups A p) cc st

/-! ### `expand` -/

/-- the handles that exist when a call of `expand` made by a functor has returned: `roots` (the work-set and the
`childrenCache_`s of the functors up the stack), the `childrenCache_` of the calling functor, `nonIncl_` -/
def rootsOf (roots : List Nat) (cc : List CP) (st : StC) : List Nat :=
  roots ++ cc.map (·.2) ++ st.nonIncl.map (·.2.1)

/-- `expand(q, biggerTypeCache_.lookup(S))` seen from the calling functor: the temporary is created, `expand` (`e`) runs, then
the temporary, `key`, and the `childrenCache_` of `innerFctor` are destroyed -/
def wrapC (w : Wiring) (pick : List Nat → Nat) (roots : List Nat)
    (e : List CP → StC → Nat → Nat → RetC) : CallC := fun cc st q Q =>
  let l := hLookup pick st.h Q
  match e cc { st with h := l.1 } q l.2 with
  | none => none
  | some (v, cc', st') => some (v, cc', { st' with h := hCollect w (rootsOf roots cc' st') st'.h })

/-- `DownwardInclusionFunctor::expand(smallerState, biggerStateSet)`; `ws` = `workset_`, `outer` = the handles in the
`childrenCache_`s of the functors up the call stack (they do not change while this call runs), `cc` = the `childrenCache_` of
`*this`, `a` = `biggerStateSet`; one unit of fuel per nested call

    if (isInWorkset(key)) return true;
    else if (isNoninclusionImplied(key)) return false;
    else if (isImpliedByChildren(key)) return true;
    else if (IsImpliedByPreorder(key)) return true;
    workset_.insert(key);
    DownwardInclusionFunctor innerFctor(*this);
    Aut::ForeachDownSymbolFromStateAndStateSetDo(smaller_, bigger_, smallerState, *biggerStateSet, innerFctor);
    … workset_.erase(..) …
    if (innerFctor.InclusionHolds()) processFoundInclusion(smallerState, biggerStateSet);
    else processFoundNoninclusion(smallerState, biggerStateSet);
    return innerFctor.InclusionHolds(); -/
def expandC (o : Ord) (w : Wiring) (pick : List Nat → Nat) (A B : TA) (wit : Wit) :
    Nat → List CP → List Nat → List CP → StC → Nat → Nat → RetC
  | 0, _, _, _, _, _, _ => none
  | fuel+1, ws, outer, cc, st, p, a =>
    let r1 := coversC o ws p a st.h
    if r1.2 then some (.holds, cc, { st with h := r1.1 })
    else
      let r2 := niFindC o st.nonIncl p a r1.1
      match r2.2 with
      | some x => some (.fails x.2.2, cc, { st with h := r2.1 })
      | none =>
        let r3 := coversC o cc p a r2.1
        if r3.2 then some (.holds, cc, { st with h := r3.1 })
        else if byPre o p (hval r3.1 a) then some (.holds, cc, { st with h := r3.1 })
        else
          let call := wrapC w pick (a :: ws.map (·.2) ++ (outer ++ cc.map (·.2)))
            (expandC o w pick A B wit fuel ((p, a) :: ws) (outer ++ cc.map (·.2)))
          match bodyC call call A B wit normS p (hval r3.1 a) [] { st with h := r3.1 } with
          | none => none
          | some (.holds, cc1, st') =>
            let r4 := ccAddC o cc p a st'.h
            let st4 : StC := ⟨st'.nonIncl, addTrue st'.trues (p, hval st'.h a), r4.1⟩
            -- the pairs `refine` erased: their sets die now, while `key` and `innerFctor` (its `childrenCache_` `cc1`) still exist
            some (.holds, r4.2,
              { st4 with h := hCollect w (rootsOf (a :: ws.map (·.2) ++ outer ++ cc1.map (·.2)) r4.2 st4) r4.1 })
          | some (.fails t, cc1, st') =>
            let r4 := niAddC o st'.nonIncl p a t st'.h
            let st4 : StC := ⟨r4.2, st.trues, r4.1⟩
            some (.fails t, cc,
              { st4 with h := hCollect w (rootsOf (a :: ws.map (·.2) ++ outer ++ cc1.map (·.2)) cc st4) r4.1 })

/-- the loop of `CheckDownwardTreeInclusion`:

    for (const StateType& smSt : smaller.GetFinalStates()) {
        if (downFctor.IsImpliedByPreorder(std::make_pair(smSt, biggerTypeCache.lookup(finalStatesBigger)))) continue;
        downFctor.Reset();
        Aut::ForeachDownSymbolFromStateAndStateSetDo(smaller, bigger, smSt, finalStatesBigger, downFctor);
        if (!downFctor.InclusionHolds()) return false; }
    return true;

the temporary of the `if` dies at its end; the root functor `downFctor` (its `childrenCache_` `cc`) is shared -/
def rootLoopC (o : Ord) (w : Wiring) (pick : List Nat → Nat) (A B : TA) (wit : Wit) (fuel : Nat) (FB : List Nat) :
    List Nat → List CP → StC → Option (Except Tree StC)
  | [], _, st => some (.ok st)
  | f :: fs, cc, st =>
    let l := hLookup pick st.h FB
    let pre := byPre o f (hval l.1 l.2)
    let st1 : StC := { st with h := hCollect w (rootsOf [] cc st) l.1 }
    if pre then rootLoopC o w pick A B wit fuel FB fs cc st1
    else
      let call := wrapC w pick [] (expandC o w pick A B wit fuel [] [])
      match bodyC call call A B wit normS f FB cc st1 with
      | none => none
      | some (.holds, cc', st') =>
        rootLoopC o w pick A B wit fuel FB fs cc' ⟨st'.nonIncl, addTrue st'.trues (f, FB), st'.h⟩
      | some (.fails t, _, _) => some (.error t)

/-- the exploration with its caches: `error t` = `return false`, `ok st` = `return true` (with the final `nonIncl_` and heap) -/
def runC (o : Ord) (w : Wiring) (pick : List Nat → Nat) (A B : TA) (fuel : Nat) : Option (Except Tree StC) :=
  rootLoopC o w pick A B (prodWit A) fuel (normS B.final) (dedup A.final) [] ⟨[], [], {}⟩

def derefP (h : Heap) (x : CP) : Pair := (x.1, hval h x.2)
def derefN (h : Heap) (x : CN) : Nat × List Nat × Tree := (x.1, hval h x.2.1, x.2.2)

/-- what persists of a run, by value: the antichain `nonIncl_` and the ghost set -/
def viewD : Option (Except Tree StC) → Option (Except Tree St)
  | none => none
  | some (.error t) => some (.error t)
  | some (.ok s) => some (.ok ⟨s.nonIncl.map (derefN s.h), s.trues⟩)

def truesOf : Option (Except Tree StC) → Option (Except Tree (List Pair))
  | none => none
  | some (.error t) => some (.error t)
  | some (.ok s) => some (.ok s.trues)

def rawVerdictD : Option (Except Tree StC) → Option Bool
  | none => none
  | some (.ok _) => some true
  | some (.error _) => some false

/-- recursive downward inclusion without simulation, caches included, certify-then-trust as `inclDownRec` -/
def inclDownRecC (w : Wiring) (pick : List Nat → Nat) (A B : TA) (fuel : Nat) : Option (Bool × InclUp.Cert) :=
  finish (downCertB A B) A B (truesOf (runC idOrd w pick A B fuel))

/-- … with the relation `R` on the disjoint union, as `inclDownSim` -/
def inclDownSimC (w : Wiring) (pick : List Nat → Nat) (A B : TA) (R : Rel) (fuel : Nat) : Option (Bool × InclUp.Cert) :=
  if isDownSimB (unionDisjoint A B) R && disjointB A B then
    finish (downCertRB (ordOf R A B) A B) A B (truesOf (runC (ordOf R A B) w pick A B fuel))
  else none

/-- `CheckInclusion` with `ANTICHAINS_DOWN_REC_NOSIM`, caches included -/
def checkInclDownRecC (w : Wiring) (pick : List Nat → Nat) (A B : TA) (fuel : Nat) : Option (Bool × InclUp.Cert) :=
  inclDownRecC w pick (removeUseless A) (removeUseless B) fuel

/-- the invariant of `lteCache` as a test: every entry is about live objects and holds the value of `noncachedLte` on them -/
def heapOKD (o : Ord) (h : Heap) : Bool :=
  h.lte.store.all (fun e => h.addrs.contains e.1.1 && h.addrs.contains e.1.2 &&
    e.2 == setLe o (hval h e.1.1) (hval h e.1.2))

def finalHeapD : Option (Except Tree StC) → Option Heap
  | some (.ok s) => some s.h
  | _ => none

end FCD
end Vata
