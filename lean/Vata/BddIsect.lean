import Vata.BddAbsTD
import Vata.IsectBU
/-!
# The symbolic `Intersection` of the two BDD encodings: the work-lists (properties C08, C20)

What is modelled (`src/bdd_td_tree_aut_isect.cc`, `src/bdd_bu_tree_aut_isect.cc`, `src/mtbdd/apply2func.hh`,
`include/vata/util/transl_weak.hh`), at the abstraction level of `Vata/BddAbs.lean` / `Vata/BddAbsTD.lean` (tables of
MTBDDs with set-valued leaves):

* **the translator** (`StateTranslator = TranslatorWeak<ProductTranslMap>` with the allocation function
  `[&workset,&stateCnt](newPair){ workset.insert(make_pair(stateCnt, newPair)); return stateCnt++; }`): the state `St` is
  the translation map `*pTranslMap` (an association list in insertion order, `PMap` of `Vata/IsectModel.lean`), the
  work-set `std::map<StateType, StatePair>` (a list ordered by the key, `wsInsert`; `begin()` is its head) and the counter
  `stateCnt`; `transl` is `operator()`: a known pair gets its number, an unknown pair gets `stateCnt`, is inserted into
  the map and into the work-set, and the counter is advanced;
* **the leaf operations** `IntersectionApplyFunctor::ApplyOperation`: bottom-up (`leafBU`) all pairs `(p, q)` of the two
  leaf sets of parents are translated in the order of the two nested loops over the sorted vectors, the numbers are
  inserted into the result set; top-down (`leafTD`) for all pairs of tuples of the two leaf sets the tuple of the translated
  component pairs (`zip`; the C++ `assert`s that the tuples have the same size – in the top-down encoding the arity is part
  of the symbol) is inserted into the result set;
* **`Apply2Functor` with a leaf operation that has a side effect** (`apply2S`): the case split is that of `M.apply2`
  (`classifyCase2`), the low branch is descended first, then the high branch (`recDescend(low1Tree, low2Tree)` before
  `recDescend(high1Tree, high2Tree)`), the state is threaded in that order.  The result cache `ht` is not modelled: a
  second call of the leaf operation on the same pair of leaves finds all its pairs in the translation map, changes nothing
  and returns the same set.  The default values of the MTBDDs are `∅`, `ApplyOperation(∅, ∅)` translates nothing;
* **the top-down work-list** (`tdLoop`, `bddIsectTDFrom`): the pairs of final states are translated first (two nested loops,
  `SetStateFinal`), then, while the work-set is not empty, its first entry `(x, (p, q))` is taken,
  `SetMtbdd(x, isect(lhs.GetMtbdd(p), rhs.GetMtbdd(q)))`, and the entry is erased;
* **the bottom-up work-list** (`buLoop`, `bddIsectBUFrom`): first `SetMtbdd([], isect(lhs.GetMtbdd([]), rhs.GetMtbdd([])))`;
  then the first entry `(x, (p, q))` of the work-set is taken, `x` is made final when `p` and `q` are, and for every pair of
  tuples `(lhsTuple, lhsBdd)`, `(rhsTuple, rhsBdd)` of the two tables (`pairs`: the nullary one first, list order for the
  hash tables of the C++) with the same arity that have `p` and `q` at a common position `i` (`matchPos`: `firstMatch`, the
  first position of `p` in `lhsTuple`, then the first common position from there on) the tuple of
  the product is built (`buTuple`: `x` at position `i`, elsewhere the number of the pair of components if it is already in
  the translation map – otherwise the pair of tuples is skipped) and `SetMtbdd(tuple, isect(lhsBdd, rhsBdd))`; finally the
  entry is erased.

The counter.  `stateCnt` is initialised to 0 in this tree (defect D10 of the unchanged tree: it was uninitialised).  The
models take the initial value `c0` of the counter as a parameter (`bddIsectTDFrom`, `bddIsectBUFrom`); `bddIsectTD` and
`bddIsectBU` are the instances `c0 = 0`.  `Vata/Proofs/BddIsect.lean` proves that the translation map takes exactly the
values `c0, c0+1, …, c0+n-1` in discovery order – `0 … n-1` for the repaired code, which is what the correspondence check
compares – and that the language of the result does not depend on `c0`.

The loops have fuel (one unit per entry taken from the work-set).  The result is returned *certify-then-trust*, only after
a Boolean check on the symbolic level (`tdCertB`, `buCertB`): the set of discovered pairs is closed (top-down: under the
component pairs of the tuples that the MTBDDs of a discovered pair hold for a common valuation; bottom-up: under the parent
pairs of two tuples with the same arity whose component pairs are all discovered), the table of the result holds for every
discovered pair (pair of such tuples) the `M.apply2` of the two operand MTBDDs with the PURE pairing leaf operation
(`prodTS` / `BddAbs.prodS`) for the final translation map and has no other entry, and the final states are the numbers of the
(discovered) pairs of final states.

`bddIsectTDRef` / `bddIsectBURef` are the instances with the fuels `tdFuel` / `buFuel` (one unit per pair of states of the
universe), which always suffice.

Definitions only (core Lean); the theorems are in `Vata/Proofs/BddIsect.lean` (soundness, numbering),
`Vata/Proofs/BddIsectTotal.lean` and `Vata/Proofs/BddIsectBUTotal.lean` (the checks never fail, the fuels suffice).
-/
namespace Vata
namespace BddIsect
open M BddAbs BddAbsTD

/-! ### the translator -/

/-- the work-set `std::map<StateType, StatePair>`: ordered by the key -/
abbrev WS := List (Nat × (Nat × Nat))

/-- `workset.insert(make_pair(k, pr))` (an existing key is kept) -/
def wsInsert (k : Nat) (pr : Nat × Nat) : WS → WS
  | [] => [(k, pr)]
  | e :: l => if k < e.1 then (k, pr) :: e :: l else if k = e.1 then e :: l else e :: wsInsert k pr l

/-- `workset.erase(it)` for the entry with the key `k` -/
def wsErase (k : Nat) (ws : WS) : WS := ws.filter (fun e => e.1 != k)

/-- `*pTranslMap`, `workset`, `stateCnt` -/
structure St where
  map : PMap
  ws : WS
  cnt : Nat

/-- `StateTranslator::operator()` -/
def transl (s : St) (pr : Nat × Nat) : St × Nat :=
  match s.map.lookup pr with
  | some n => (s, n)
  | none => (⟨s.map ++ [(pr, s.cnt)], wsInsert s.cnt pr s.ws, s.cnt + 1⟩, s.cnt)

/-- the translator applied to a list of pairs, from left to right -/
def translL : St → List (Nat × Nat) → St × List Nat
  | s, [] => (s, [])
  | s, pr :: ps => ((translL (transl s pr).1 ps).1, (transl s pr).2 :: (translL (transl s pr).1 ps).2)

/-- … to a list of lists of pairs -/
def translLL : St → List (List (Nat × Nat)) → St × List (List Nat)
  | s, [] => (s, [])
  | s, l :: ls => ((translLL (translL s l).1 ls).1, (translL s l).2 :: (translLL (translL s l).1 ls).2)

/-! ### the leaf operations -/

/-- all pairs of two lists, in the order of two nested loops -/
def allPairs (a b : List Nat) : List (Nat × Nat) := a.flatMap (fun x => b.map (fun y => (x, y)))

/-- all pairs of tuples of two leaves, each as the list of its component pairs -/
def allZips (a b : List (List Nat)) : List (List (Nat × Nat)) := a.flatMap (fun ks => b.map (fun ks' => ks.zip ks'))

/-- `IntersectionApplyFunctor::ApplyOperation` of `bdd_bu_tree_aut_isect.cc` -/
def leafBU (s : St) (a b : List Nat) : St × List Nat :=
  ((translL s (allPairs a b)).1, InclUp.normS (translL s (allPairs a b)).2)

/-- `IntersectionApplyFunctor::ApplyOperation` of `bdd_td_tree_aut_isect.cc` -/
def leafTD (s : St) (a b : List (List Nat)) : St × List (List Nat) :=
  ((translLL s (allZips a b)).1, normT (translLL s (allZips a b)).2)

/-- the pure top-down pairing leaf operation for a translation function (the bottom-up one is `BddAbs.prodS`) -/
def prodTS (tr : Nat × Nat → Nat) (a b : List (List Nat)) : List (List Nat) :=
  normT (a.flatMap (fun ks => b.map (fun ks' => (ks.zip ks').map tr)))

/-! ### `Apply2Functor` with a side effect -/

/-- `M.apply2` for a leaf operation with a state: low branch first, then high branch -/
def apply2S {σ α β γ : Type} [DecidableEq γ] (f : σ → α → β → σ × γ) : σ → Node α → Node β → σ × Node γ
  | s, .leaf v, .leaf w => ((f s v w).1, .leaf (f s v w).2)
  | s, .node x lo hi, .leaf w =>
    ((apply2S f (apply2S f s lo (.leaf w)).1 hi (.leaf w)).1,
      mk x (apply2S f s lo (.leaf w)).2 (apply2S f (apply2S f s lo (.leaf w)).1 hi (.leaf w)).2)
  | s, .leaf v, .node y lo hi =>
    ((apply2S f (apply2S f s (.leaf v) lo).1 (.leaf v) hi).1,
      mk y (apply2S f s (.leaf v) lo).2 (apply2S f (apply2S f s (.leaf v) lo).1 (.leaf v) hi).2)
  | s, .node x alo ahi, .node y blo bhi =>
    if x = y then
      ((apply2S f (apply2S f s alo blo).1 ahi bhi).1,
        mk x (apply2S f s alo blo).2 (apply2S f (apply2S f s alo blo).1 ahi bhi).2)
    else if y < x then
      ((apply2S f (apply2S f s alo (.node y blo bhi)).1 ahi (.node y blo bhi)).1,
        mk x (apply2S f s alo (.node y blo bhi)).2 (apply2S f (apply2S f s alo (.node y blo bhi)).1 ahi (.node y blo bhi)).2)
    else
      ((apply2S f (apply2S f s (.node x alo ahi) blo).1 (.node x alo ahi) bhi).1,
        mk y (apply2S f s (.node x alo ahi) blo).2 (apply2S f (apply2S f s (.node x alo ahi) blo).1 (.node x alo ahi) bhi).2)
termination_by _ a b => size a + size b
decreasing_by all_goals (simp only [size]; omega)

/-- the state after an entry of the work-set was processed: `workset.erase(itWs)` -/
def St.erase (s : St) (x : Nat) : St := ⟨s.map, wsErase x s.ws, s.cnt⟩

/-! ### top-down (`BDDTDTreeAutCore::Intersection`) -/

/-- the pairs of final states, in the order of the two nested loops -/
def finalPairsL (FA FB : List Nat) : List (Nat × Nat) := allPairs FA FB

/-- the `while (!workset.empty())` loop; `none` when the fuel ends before the work-set is empty -/
def tdLoop (TA TB : TableTD) : Nat → St → TableTD → Option (St × TableTD)
  | 0, s, R => if s.ws.isEmpty then some (s, R) else none
  | fuel + 1, s, R =>
    match s.ws with
    | [] => some (s, R)
    | (x, pr) :: _ =>
      tdLoop TA TB fuel ((apply2S leafTD s (getTD TA pr.1) (getTD TB pr.2)).1.erase x)
        (setTD R x (apply2S leafTD s (getTD TA pr.1) (getTD TB pr.2)).2)

/-- the set `D` of pairs is closed under the component pairs of the tuples that the MTBDDs of a pair of `D` hold in a
common leaf pair (`voidApply2`: the leaf pairs visited by an apply) -/
def tdClosedB (TA TB : TableTD) (D : List (Nat × Nat)) : Bool :=
  D.all (fun pr => (voidApply2 (getTD TA pr.1) (getTD TB pr.2)).all (fun ll =>
    ll.1.all (fun ks => ll.2.all (fun ks' => (ks.zip ks').all (fun c => D.contains c)))))

/-- the table `R` holds for every pair of the map the pure product of the operand MTBDDs, and nothing else -/
def tdTableB (TA TB : TableTD) (m : PMap) (R : TableTD) : Bool :=
  m.dom.all (fun pr => getTD R (lookupF m pr) == apply2 (prodTS (lookupF m)) (getTD TA pr.1) (getTD TB pr.2)) &&
    (keysTD R).all (fun x => (m.dom.map (lookupF m)).contains x)

/-- the certificate check on the output of the top-down loop -/
def tdCertB (TA : TableTD) (FA : List Nat) (TB : TableTD) (FB : List Nat) (m : PMap) (R : TableTD) (F : List Nat) : Bool :=
  tdClosedB TA TB m.dom && tdTableB TA TB m R && (finalPairsL FA FB).all (fun pr => m.dom.contains pr) &&
    F == (finalPairsL FA FB).map (lookupF m)

/-- model of `BDDTDTreeAutCore::Intersection` with the counter starting at `c0`: table, final states, translation map -/
def bddIsectTDFrom (c0 : Nat) (TA : TableTD) (FA : List Nat) (TB : TableTD) (FB : List Nat) (fuel : Nat) :
    Option (TableTD × List Nat × PMap) :=
  match tdLoop TA TB fuel (translL ⟨[], [], c0⟩ (finalPairsL FA FB)).1 [] with
  | none => none
  | some (s, R) =>
    if tdCertB TA FA TB FB s.map R (translL ⟨[], [], c0⟩ (finalPairsL FA FB)).2 then
      some (R, (translL ⟨[], [], c0⟩ (finalPairsL FA FB)).2, s.map)
    else none

/-- model of `BDDTDTreeAutCore::Intersection` (`StateType stateCnt = 0`) -/
def bddIsectTD (TA : TableTD) (FA : List Nat) (TB : TableTD) (FB : List Nat) (fuel : Nat) :
    Option (TableTD × List Nat × PMap) := bddIsectTDFrom 0 TA FA TB FB fuel

/-- the states in the leaves of a top-down table -/
def tdKids (T : TableTD) : List Nat := (keysTD T).flatMap (fun p => (leafTuples (getTD T p)).flatMap id)

/-- every entry taken from the work-set is a new pair of (final or leaf) states, so this fuel is enough -/
def tdFuel (TA : TableTD) (FA : List Nat) (TB : TableTD) (FB : List Nat) : Nat :=
  (FA.length + (tdKids TA).length) * (FB.length + (tdKids TB).length)

def bddIsectTDRef (TA : TableTD) (FA : List Nat) (TB : TableTD) (FB : List Nat) : Option (TableTD × List Nat × PMap) :=
  bddIsectTD TA FA TB FB (tdFuel TA FA TB FB)

/-! ### bottom-up (`BDDBUTreeAutCore::Intersection`) -/

/-- the position `i` of the C++: `firstMatch` is the first position of `pr.1` in `lhsTuple` (`none`, i.e. `continue`, when
there is none); `i` is the first position from `firstMatch` on at which the two tuples hold the two components of `pr`
(`Vata/Proofs/BddIsectBUTotal.lean`, `matchPos_eq`: the first such position at all) -/
def matchPos (ks ks' : List Nat) (pr : Nat × Nat) : Option Nat :=
  if ks.findIdx (fun k => k == pr.1) == ks.length then none
  else (((ks.zip ks').drop (ks.findIdx (fun k => k == pr.1))).findIdx? (fun c => c == pr)).map
    (fun i => i + ks.findIdx (fun k => k == pr.1))

/-- the tuple of the product (`k` is `arityIndex`): the processed state `x` at position `i`, elsewhere the number of the
pair of components; `none` when such a pair is not yet in the translation map (`tuple.size() != arity`) -/
def buTuple (m : PMap) (x i : Nat) : Nat → List (Nat × Nat) → Option (List Nat)
  | _, [] => some []
  | k, c :: cs =>
    if k = i then (buTuple m x i (k + 1) cs).map (x :: ·)
    else
      match m.lookup c with
      | none => none
      | some n => (buTuple m x i (k + 1) cs).map (n :: ·)

/-- the body of the two nested loops over the tuples for the processed entry `(x, pr)` -/
def buPair (x : Nat) (pr : Nat × Nat) (eA eB : List Nat × MT) (s : St) (R : Table) : St × Table :=
  if eB.1.length != eA.1.length then (s, R)
  else
    match matchPos eA.1 eB.1 pr with
    | none => (s, R)
    | some i =>
      match buTuple s.map x i 0 (eA.1.zip eB.1) with
      | none => (s, R)
      | some tuple => ((apply2S leafBU s eA.2 eB.2).1, R.set tuple (apply2S leafBU s eA.2 eB.2).2)

def buProc (x : Nat) (pr : Nat × Nat) : List ((List Nat × MT) × (List Nat × MT)) → St → Table → St × Table
  | [], s, R => (s, R)
  | ee :: rest, s, R => buProc x pr rest (buPair x pr ee.1 ee.2 s R).1 (buPair x pr ee.1 ee.2 s R).2

/-- the pairs (tuple, MTBDD) of the two tables in the order of the two nested loops -/
def tuplePairs (TA TB : Table) : List ((List Nat × MT) × (List Nat × MT)) :=
  (pairs TA).flatMap (fun eA => (pairs TB).map (fun eB => (eA, eB)))

/-- the `while (!workset.empty())` loop; `none` when the fuel ends before the work-set is empty -/
def buLoop (TA TB : Table) (FA FB : List Nat) : Nat → St → Table → List Nat → Option (St × Table × List Nat)
  | 0, s, R, F => if s.ws.isEmpty then some (s, R, F) else none
  | fuel + 1, s, R, F =>
    match s.ws with
    | [] => some (s, R, F)
    | (x, pr) :: _ =>
      buLoop TA TB FA FB fuel ((buProc x pr (tuplePairs TA TB) s R).1.erase x) (buProc x pr (tuplePairs TA TB) s R).2
        (if FA.contains pr.1 && FB.contains pr.2 then F ++ [x] else F)

/-- the pairs of tuples with an MTBDD that have the same arity and all component pairs in `D` -/
def buReady (TA TB : Table) (D : List (Nat × Nat)) : List (List Nat × List Nat) :=
  TA.keys.flatMap (fun ks =>
    (TB.keys.filter (fun ks' => ks'.length == ks.length && (ks.zip ks').all (fun c => D.contains c))).map
      (fun ks' => (ks, ks')))

/-- `D` contains the pairs of parents that the MTBDDs of a ready pair of tuples hold in a common leaf pair -/
def buSymClosedB (TA TB : Table) (D : List (Nat × Nat)) : Bool :=
  (buReady TA TB D).all (fun kk => (voidApply2 (TA.get kk.1) (TB.get kk.2)).all (fun ll =>
    ll.1.all (fun p => ll.2.all (fun q => D.contains (p, q)))))

/-- the table `R` holds for every ready pair of tuples the pure product of the operand MTBDDs, and nothing else -/
def buTableB (TA TB : Table) (m : PMap) (R : Table) : Bool :=
  (buReady TA TB m.dom).all (fun kk =>
      R.get ((kk.1.zip kk.2).map (lookupF m)) == apply2 (prodS (lookupF m)) (TA.get kk.1) (TB.get kk.2)) &&
    R.entries.all (fun e => ((buReady TA TB m.dom).map (fun kk => (kk.1.zip kk.2).map (lookupF m))).contains e.1)

/-- the certificate check on the output of the bottom-up loop -/
def buCertB (TA : Table) (FA : List Nat) (TB : Table) (FB : List Nat) (m : PMap) (R : Table) (F : List Nat) : Bool :=
  buSymClosedB TA TB m.dom && buTableB TA TB m R &&
    seteq F ((m.dom.filter (fun pr => FA.contains pr.1 && FB.contains pr.2)).map (lookupF m))

/-- model of `BDDBUTreeAutCore::Intersection` with the counter starting at `c0`: table, final states, translation map -/
def bddIsectBUFrom (c0 : Nat) (TA : Table) (FA : List Nat) (TB : Table) (FB : List Nat) (fuel : Nat) :
    Option (Table × List Nat × PMap) :=
  match buLoop TA TB FA FB fuel (apply2S leafBU ⟨[], [], c0⟩ (TA.get []) (TB.get [])).1
      (Table.empty.set [] (apply2S leafBU ⟨[], [], c0⟩ (TA.get []) (TB.get [])).2) [] with
  | none => none
  | some (s, R, F) => if buCertB TA FA TB FB s.map R F then some (R, F, s.map) else none

/-- model of `BDDBUTreeAutCore::Intersection` (`StateType stateCnt = 0`) -/
def bddIsectBU (TA : Table) (FA : List Nat) (TB : Table) (FB : List Nat) (fuel : Nat) :
    Option (Table × List Nat × PMap) := bddIsectBUFrom 0 TA FA TB FB fuel

/-- the states in the leaves of a bottom-up table -/
def buKids (T : Table) : List Nat := (pairs T).flatMap (fun e => leafParents e.2)

/-- every entry taken from the work-set is a new pair of leaf states, so this fuel is enough -/
def buFuel (TA TB : Table) : Nat := (buKids TA).length * (buKids TB).length

def bddIsectBURef (TA : Table) (FA : List Nat) (TB : Table) (FB : List Nat) : Option (Table × List Nat × PMap) :=
  bddIsectBU TA FA TB FB (buFuel TA TB)

end BddIsect
end Vata
