import Vata.Candidate
/-!
# `GetCandidateTree` with the parent state of the bookkeeping record stored in a `w`-bit integer (property C15)

Definitions only; the theorems are in `Vata/Proofs/CandidateTrunc.lean`.

In `src/explicit_tree_candidate.cc` the bookkeeping record of a transition is

    struct TransitionInfo { TuplePtr children_; SymbolType symbol_; StateType state_; std::set<StateType> childrenSet_;
      TransitionInfo(const TuplePtr& children, const SymbolType& symbol, const StateType& state) :
        children_(children), symbol_(symbol), state_(state), childrenSet_(children->begin(), children->end()) { } ... };

with `StateType = size_t`.  The parent of a transition is stored at exactly ONE place, the member initialiser
`state_(state)`, executed once per transition in phase 1:

    auto transitionInfoPtr = TransitionInfoPtr(
      new TransitionInfo(tuple, symbolTupleSetPair.first, stateClusterPair.first));

Everything later reads `info->state_`: `reachableStates.insert(info->state_)`, `newStates.push_back(info->state_)`,
`IsStateFinal(info->state_)` in phase 2, and `internalAddTransition(info->children_, info->symbol_, info->state_)` when the
result is assembled.  What does NOT go through the record: phase 1 marks and queues the parent of a leaf rule with the map
key itself (`reachableStates.insert(stateClusterPair.first)`, `newStates.push_back(stateClusterPair.first)`), and with
`remaining = 0` the result shares `transitions_` of `A`.

In the model (`Vata/Candidate.lean`) the record is the `Rule` component of a `CInfo` resp. an entry of `recorded`; it is
created in `candInitStep`.  `candInitStepT w` is `candInitStep` with the record built from `truncRule w r` (parent reduced
modulo `2^w`) and everything that the C++ takes from the map key left as it is.  Phase 2 (`candProcInfos`, `candLoop`) and
the assembly of the result are literally the functions of the unbounded model, they only read the record.
`w = 64` is the code as it is, `w = 32` is the seeded change `unsigned state_;`.
-/
namespace Vata

/-- the member initialiser `state_(state)` with a `w`-bit `state_` -/
def truncRule (w : Nat) (r : Rule) : Rule := { r with parent := r.parent % 2 ^ w }

/-- phase 1, one transition: `candInitStep` with the bookkeeping record `i` built by the `w`-bit constructor; the tests
on `reachableStates` and the pushes to `newStates` use the map key `r.parent` (`stateClusterPair.first`) -/
def candInitStepT (w : Nat) (acc : CState × List CInfo) (r : Rule) : CState × List CInfo :=
  let i := truncRule w r
  if r.kids.isEmpty then
    if acc.1.reached.contains r.parent then
      ({ acc.1 with recorded := acc.1.recorded ++ [i] }, acc.2)
    else
      ({ acc.1 with recorded := acc.1.recorded ++ [i], reached := acc.1.reached ++ [r.parent],
                    queue := acc.1.queue ++ [r.parent] }, acc.2)
  else
    ({ acc.1 with remaining := acc.1.remaining + (dedupL r.kids).length }, acc.2 ++ [(i, dedupL r.kids)])

/-- phase 1 -/
def candInitT (w : Nat) : List Rule → CState × List CInfo → CState × List CInfo
  | [], acc => acc
  | r :: rs, acc => candInitT w rs (candInitStepT w acc r)

/-- the state of the search at `found_` (phase 2 is the loop of the unbounded model run on the truncated records) -/
def candSearchT (w : Nat) (A : TA) : CState :=
  let i := candInitT w A.rules (⟨[], [], [], 0⟩, [])
  candLoop A.final (A.rules.length + 1) i.2 i.1

/-- the automaton before the final `RemoveUnreachableStates` -/
def candRawT (w : Nat) (A : TA) : TA :=
  let st := candSearchT w A
  ⟨if st.remaining == 0 then A.rules else st.recorded, A.final.filter (fun q => st.reached.contains q)⟩

/-- model of `GetCandidateTree` with a `w`-bit `TransitionInfo::state_` -/
def candidateTrunc (w : Nat) (A : TA) : TA := removeUnreachable (candRawT w A)

end Vata
