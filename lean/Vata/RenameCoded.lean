import Vata.Store
import Vata.Glue
import Vata.Reduce
import Vata.Ref
/-!
# `ReindexStates` / `CollapseStates` / `TranslateSymbols` AS CODED on the three-level rule store (property C14)

C++ (`src/explicit_tree_aut_core.hh`):

```
template <class Index>
void ReindexStates(ExplicitTreeAutCore& dst, Index& index, bool addFinalStates = true) const
{
  if (addFinalStates)
    for (const StateType& state : finalStates_)
      dst.SetStateFinal(index.at(state));                                     // (F)
  auto clusterMap = dst.uniqueClusterMap();
  for (auto& stateClusterPair : *transitions_) {
    auto cluster = clusterMap->uniqueCluster(index.at(stateClusterPair.first));   // (C)  look up the parent, CREATE its cluster
    for (auto& symbolTupleSetPair : *stateClusterPair.second) {
      auto tuplePtrSet = cluster->uniqueTuplePtrSet(symbolTupleSetPair.first);    // (S)  CREATE the tuple set of the symbol
      for (auto& tuple : *symbolTupleSetPair.second) {
        StateTuple newTuple;
        for (const StateType& s : *tuple) newTuple.push_back(index.at(s));        // (T)  children, left to right
        tuplePtrSet->insert(dst.tupleLookup(newTuple));                           // (I)
      } } }
}
ExplicitTreeAutCore ReindexStates(Index& index, bool addFinalStates = true) const
{ ExplicitTreeAutCore res; this->ReindexStates(res, index, addFinalStates); res.SetAlphabet(…); return res; }
ExplicitTreeAutCore CollapseStates(MapType& stateMap) const { return this->ReindexStates(stateMap); }
ExplicitTreeAutCore TranslateSymbols(SymbolTranslateF& symbTransl) const
{ ExplicitTreeAutCore aut(*this, false, true);                                 // no transitions, the final states copied
  for (const Transition& trans : *this)
    aut.AddTransition(trans.GetChildren(), symbTransl(trans.GetSymbol()), trans.GetParent());
  return aut; }
```

`index.at(x)` is `AbstractTranslator::at` = `operator()`: for `TranslatorStrict` a lookup that THROWS on an unknown key, for
`TranslatorWeak` lookup-or-create (it changes the container), for a plain functor / vector a total function.

## How it is read into the model

* A store is a `Vata.Store.Store` value; its list order IS the iteration order of the `unordered_map`s / `set`s (the
  "iteration order parameter": all theorems hold for every order).
* A translator object is `Transl σ`: `app st key = none` is the exception, `some (value, st')` the answer and the new state of
  the container.  `totalT`, `optT`, `strictT`, `weakT` are the instances.
* A call is a `Run`: the key whose lookup threw (if any), the destination AT THAT MOMENT (`dst` is a reference parameter: the
  caller of the `dst` variant keeps what was written before the exception), and the translator state.
* (C) and (S) create the cluster / the tuple set BEFORE the children are translated: `touchCluster`, `touchTupleSet`.  (I) goes
  through the pointers obtained in (C) and (S); on a store value that is the path update `upsert q' (upsert f (insTuple t'))`,
  which is literally `Store.addTransition`.
* Not modelled here: `shared_ptr` sharing / copy on write of `dst` (`Vata/CowHeapX.lean`, `C11_ext_reindex_into`), the alphabet
  pointer, the tuple cache (`tupleLookup` is hash-consing: tuples are values), `dst` aliasing `*this`.
-/
namespace Vata.RenameCoded
open Vata.Store

/-- a translator object: `app st key = none` = the call throws, `some (value, st')` = the answer and the container afterwards -/
structure Transl (σ : Type) where
  app : σ → Nat → Option (Nat × σ)

/-- a total functor (`std::vector`-like index, lambda) -/
def totalT (h : Nat → Nat) : Transl Unit := ⟨fun _ q => some (h q, ())⟩

/-- a stateless partial translator (throws where `g` is `none`) -/
def optT (g : Nat → Option Nat) : Transl Unit := ⟨fun _ q => (g q).map (fun v => (v, ()))⟩

/-- `TranslatorStrict<map>`: `Glue.strict`; the container is a `const&`, so the state never changes -/
def strictT : Transl (List (Nat × Nat)) := ⟨fun m q => (Glue.strict m q).map (fun v => (v, m))⟩

/-- the container of a `TranslatorWeak` and the counter its functor captured by reference -/
structure WeakSt where
  map : List (Nat × Nat)
  cnt : Nat
deriving Repr, DecidableEq

/-- `TranslatorWeak<map>` with one of the harness' functors (`Glue.Alloc`; the library's own are `.counter`): exactly one step
of `Glue.weakMapSeq`.  It never throws. -/
def weakT (f : Glue.Alloc) : Transl WeakSt :=
  ⟨fun st q =>
    match st.map.lookup q with
    | some b => some (b, st)
    | none =>
      let x := f.run st.cnt st.map.length
      some (x.1, ⟨(Glue.weakMap st.map (fun _ _ => x.1) q).1, x.2⟩)⟩

/-- the outcome of a call -/
structure Run (σ : Type) where
  /-- the key whose lookup threw -/
  thrown : Option Nat
  /-- the destination automaton (at the moment of the exception, if any) -/
  dst : Store
  /-- the translator's container afterwards -/
  tr : σ
deriving Repr

/-- `clusterMap->uniqueCluster(q')` on its own: the cluster is created (empty) if it does not exist -/
def touchCluster (q : Nat) (s : Store) : Store :=
  { s with clusters := upsert q (fun o => o.getD []) s.clusters }

/-- `cluster->uniqueTuplePtrSet(f)` on its own (through the pointer to cluster `q`): an empty tuple set is created -/
def touchTupleSet (q f : Nat) (s : Store) : Store :=
  { s with clusters := upsert q (fun o => upsert f (fun o' => o'.getD []) (o.getD [])) s.clusters }

section Loops
variable {σ : Type} (T : Transl σ)

/-- (T) `for (const StateType& s : *tuple) newTuple.push_back(index.at(s));` : (thrown key, `newTuple`, translator) -/
def trTuple : List Nat → σ → List Nat → Option Nat × List Nat × σ
  | [], st, acc => (none, acc, st)
  | s :: ss, st, acc =>
    match T.app st s with
    | none => (some s, acc, st)
    | some (s', st') => trTuple ss st' (acc ++ [s'])

/-- `for (auto& tuple : *symbolTupleSetPair.second) { (T); tuplePtrSet->insert(dst.tupleLookup(newTuple)); }` -/
def tuplesLoop (q' f : Nat) : TupleSet → Store → σ → Run σ
  | [], dst, st => ⟨none, dst, st⟩
  | t :: ts, dst, st =>
    let r := trTuple T t st []
    match r.1 with
    | some k => ⟨some k, dst, r.2.2⟩
    | none => tuplesLoop q' f ts (addTransition dst ⟨f, r.2.1, q'⟩) r.2.2

/-- `for (auto& symbolTupleSetPair : *stateClusterPair.second) { (S); … }` -/
def symbolsLoop (q' : Nat) : Cluster → Store → σ → Run σ
  | [], dst, st => ⟨none, dst, st⟩
  | ft :: c, dst, st =>
    let R := tuplesLoop T q' ft.1 ft.2 (touchTupleSet q' ft.1 dst) st
    match R.thrown with
    | some k => ⟨some k, R.dst, R.tr⟩
    | none => symbolsLoop q' c R.dst R.tr

/-- `for (auto& stateClusterPair : *transitions_) { (C); … }` -/
def clustersLoop : List (Nat × Cluster) → Store → σ → Run σ
  | [], dst, st => ⟨none, dst, st⟩
  | qc :: m, dst, st =>
    match T.app st qc.1 with
    | none => ⟨some qc.1, dst, st⟩
    | some (q', st') =>
      let R := symbolsLoop T q' qc.2 (touchCluster q' dst) st'
      match R.thrown with
      | some k => ⟨some k, R.dst, R.tr⟩
      | none => clustersLoop m R.dst R.tr

/-- (F) `for (const StateType& state : finalStates_) dst.SetStateFinal(index.at(state));` -/
def finalsLoop : List Nat → Store → σ → Run σ
  | [], dst, st => ⟨none, dst, st⟩
  | q :: qs, dst, st =>
    match T.app st q with
    | none => ⟨some q, dst, st⟩
    | some (q', st') => finalsLoop qs (setFinal dst q') st'

/-- `src.ReindexStates(dst, index, addFinalStates)`: the final states FIRST (if asked for), then the clusters -/
def reindexInto (src dst : Store) (st : σ) (addFinalStates : Bool) : Run σ :=
  let R0 : Run σ := if addFinalStates then finalsLoop T src.final dst st else ⟨none, dst, st⟩
  match R0.thrown with
  | some k => ⟨some k, R0.dst, R0.tr⟩
  | none => clustersLoop T src.clusters R0.dst R0.tr

/-- the loop of `TranslateSymbols` over `*this` (`Store.iterate`) -/
def symLoop : List Rule → Store → σ → Run σ
  | [], dst, st => ⟨none, dst, st⟩
  | r :: rs, dst, st =>
    match T.app st r.sym with
    | none => ⟨some r.sym, dst, st⟩
    | some (f', st') => symLoop rs (addTransition dst ⟨f', r.kids, r.parent⟩) st'

/-- `TranslateSymbols(symbTransl)`: `aut(*this, false, true)` has no transitions and the final states of `*this` -/
def translateSymbolsRun (src : Store) (st : σ) : Run σ := symLoop T (iterate src) ⟨[], src.final⟩ st

/-- the keys handed to the translator one after the other (up to the first that throws) -/
def appSeq : List Nat → σ → Option Nat × σ
  | [], st => (none, st)
  | k :: ks, st =>
    match T.app st k with
    | none => (some k, st)
    | some (_, st') => appSeq ks st'

end Loops

/-- the exception view of a run: `error (key, dst as left behind, translator)` / `ok (dst, translator)` -/
def Run.toExcept {σ : Type} (R : Run σ) : Except (Nat × Store × σ) (Store × σ) :=
  match R.thrown with
  | some k => .error (k, R.dst, R.tr)
  | none => .ok (R.dst, R.tr)

/-- the value-returning overload `ReindexStates(index, addFinalStates = true)`: `res` is a fresh automaton -/
def reindexCoded {σ : Type} (T : Transl σ) (src : Store) (st : σ) (addFinalStates : Bool := true) :
    Except (Nat × Store × σ) (Store × σ) :=
  (reindexInto T src empty st addFinalStates).toExcept

/-- `CollapseStates(stateMap)` = `return this->ReindexStates(stateMap);` -/
def collapseCoded {σ : Type} (T : Transl σ) (src : Store) (st : σ) : Except (Nat × Store × σ) (Store × σ) :=
  reindexCoded T src st true

/-- `TranslateSymbols(symbTransl)` -/
def translateSymbolsCoded {σ : Type} (T : Transl σ) (src : Store) (st : σ) : Except (Nat × Store × σ) (Store × σ) :=
  (translateSymbolsRun T src st).toExcept

/-! ### the order of the lookups -/

/-- the children of all tuples of a cluster, symbol by symbol, tuple by tuple, left to right -/
def clusterKeys (c : Cluster) : List Nat := c.flatMap (fun ft => ft.2.flatten)
/-- for every cluster: the parent, then the children -/
def mapKeys (m : List (Nat × Cluster)) : List Nat := m.flatMap (fun qc => qc.1 :: clusterKeys qc.2)
/-- the sequence of `index.at(…)` calls of `ReindexStates` -/
def lookupOrder (src : Store) (addFinalStates : Bool) : List Nat :=
  (if addFinalStates then src.final else []) ++ mapKeys src.clusters

/-! ### the seeded variant of `TranslateSymbols`: the tuple set of the translated symbol is REPLACED, not extended -/

/-- `(*cluster)[symbol] = {children}` instead of `uniqueTuplePtrSet(symbol)->insert(children)` -/
def addTransitionOverwrite (s : Store) (r : Rule) : Store :=
  { s with clusters := upsert r.parent (fun o => upsert r.sym (fun _ => [r.kids]) (o.getD [])) s.clusters }

def translateSymbolsOverwrite (g : Nat → Nat) (src : Store) : Store :=
  (iterate src).foldl (fun d r => addTransitionOverwrite d ⟨g r.sym, r.kids, r.parent⟩) ⟨[], src.final⟩

/-! ### entry points on the protocol's `TA` values -/

/-- the store built from a rule list and a final-state list (`AddTransition` for every rule, then `SetStatesFinal`) -/
def ofTA (A : TA) : Store := Store.run (A.rules.map Op.add ++ [Op.setFinals A.final])

/-- what the iterator and `GetFinalStates` yield -/
def toTA (s : Store) : TA := ⟨iterate s, s.final⟩

/-- `A.ReindexStates(TranslatorStrict(m))`: `error key` = the `std::runtime_error("No translation for key")` -/
def reindexStrictTA (A : TA) (m : List (Nat × Nat)) : Except Nat TA :=
  match reindexCoded strictT (ofTA A) m with
  | .error e => .error e.1
  | .ok r => .ok (toTA r.1)

/-- `A.ReindexStates(dst, TranslatorStrict(m), addFinalStates)` into a given destination: (thrown key, `dst` afterwards as a
store – it may contain an empty cluster / tuple set after an exception, so it is NOT flattened) -/
def reindexStrictIntoTA (A D : TA) (m : List (Nat × Nat)) (addFinalStates : Bool) : Option Nat × Store :=
  let R := reindexInto strictT (ofTA A) (ofTA D) m addFinalStates
  (R.thrown, R.dst)

/-- `A.ReindexStates(TranslatorWeak(m, [&cnt]{return cnt++;}))`: the result, the map and the counter afterwards -/
def reindexWeakTA (A : TA) (m : List (Nat × Nat)) (cnt : Nat) (f : Glue.Alloc := .counter) : TA × List (Nat × Nat) × Nat :=
  let R := reindexInto (weakT f) (ofTA A) empty ⟨m, cnt⟩ true
  (toTA R.dst, R.tr.map, R.tr.cnt)

/-- `A.CollapseStates(h)` / `A.ReindexStates(h)` for a total functor -/
def reindexTotalTA (A : TA) (h : Nat → Nat) : TA := toTA (reindexInto (totalT h) (ofTA A) empty () true).dst

/-- `A.TranslateSymbols(g)` for a total functor -/
def translateSymbolsTA (A : TA) (g : Nat → Nat) : TA := toTA (translateSymbolsRun (totalT g) (ofTA A) ()).dst

/-- `A.TranslateSymbols(TranslatorStrict(m))` -/
def translateSymbolsStrictTA (A : TA) (m : List (Nat × Nat)) : Except Nat TA :=
  match translateSymbolsCoded strictT (ofTA A) m with
  | .error e => .error e.1
  | .ok r => .ok (toTA r.1)

end Vata.RenameCoded
