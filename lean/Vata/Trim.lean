import Vata.Incl
/-! feasibility probe (throw-away): productive states, removal of unproductive rules keeps `reach` -/
namespace Vata

/-- if `qs` are positionwise members of `ss` and every member of every `s ∈ ss` is in `P` then `qs ⊆ P` -/
theorem all2_sub {qs : List Nat} {ss : List (List Nat)} {P : List Nat} (h : All2 (fun q s => q ∈ s) qs ss)
    (hs : ∀ s, s ∈ ss → ∀ q, q ∈ s → q ∈ P) : ∀ k, k ∈ qs → k ∈ P := by
  induction h with
  | nil => intro k hk; simp at hk
  | cons hd _ ih =>
    intro k hk
    rcases List.mem_cons.mp hk with rfl | hk
    · exact hs _ List.mem_cons_self _ hd
    · exact ih (fun s hs' => hs s (List.mem_cons_of_mem _ hs')) k hk

/-- sub-automaton ⇒ sub-language (monotonicity of `reach`) -/
theorem matchKids_mono {qs : List Nat} {ss ss' : List (List Nat)}
    (h : All2 (fun s s' => ∀ q, q ∈ s → q ∈ s') ss ss') : matchKids qs ss = true → matchKids qs ss' = true := by
  induction h generalizing qs with
  | nil => exact id
  | cons hd _ ih =>
    cases qs with
    | nil => exact id
    | cons q qs =>
      simp only [matchKids, Bool.and_eq_true, List.contains_iff_mem]
      exact fun ⟨h1, h2⟩ => ⟨hd q h1, ih h2⟩

mutual
theorem reach_mono (A B : TA) (h : ∀ r, r ∈ A.rules → r ∈ B.rules) : ∀ (t : Tree) (q : Nat), q ∈ reach A t → q ∈ reach B t
  | .node f ts, q => by
    rw [reach, reach, mem_post', mem_post']
    rintro ⟨r, hr, hs, hm, hp⟩
    exact ⟨r, h r hr, hs, matchKids_mono (reachL_mono A B h ts) hm, hp⟩
theorem reachL_mono (A B : TA) (h : ∀ r, r ∈ A.rules → r ∈ B.rules) :
    ∀ ts : List Tree, All2 (fun s s' => ∀ q, q ∈ s → q ∈ s') (reachL A ts) (reachL B ts)
  | [] => All2.nil
  | t :: ts => All2.cons (reach_mono A B h t) (reachL_mono A B h ts)
end

/-- a set `P` of states closed under the rules (contains the parent of every rule whose children are in it) -/
def ProdClosed (A : TA) (P : List Nat) : Prop := ∀ r, r ∈ A.rules → (∀ k, k ∈ r.kids → k ∈ P) → r.parent ∈ P

/-- every state that can label a tree is in every rule-closed set: `reach` only yields productive states -/
theorem matchKids_mem {qs : List Nat} {ss : List (List Nat)} (h : matchKids qs ss = true) :
    All2 (fun q s => q ∈ s) qs ss := by
  induction qs generalizing ss with
  | nil => cases ss with
    | nil => exact All2.nil
    | cons _ _ => simp [matchKids] at h
  | cons q qs ih => cases ss with
    | nil => simp [matchKids] at h
    | cons s ss =>
      simp only [matchKids, Bool.and_eq_true, List.contains_iff_mem] at h
      exact All2.cons h.1 (ih h.2)

mutual
theorem reach_sub_closed (A : TA) (P : List Nat) (hP : ProdClosed A P) : ∀ (t : Tree) (q : Nat), q ∈ reach A t → q ∈ P
  | .node f ts, q => by
    rw [reach, mem_post']
    rintro ⟨r, hr, _, hm, rfl⟩
    apply hP r hr
    intro k hk
    exact all2_sub (matchKids_mem hm) (reachL_sub_closed A P hP ts) k hk
theorem reachL_sub_closed (A : TA) (P : List Nat) (hP : ProdClosed A P) :
    ∀ ts : List Tree, ∀ s, s ∈ reachL A ts → ∀ q, q ∈ s → q ∈ P
  | [], s, h => by simp [reachL] at h
  | t :: ts, s, h => by
    simp only [reachL, List.mem_cons] at h
    rcases h with h | h
    · rw [h]; exact reach_sub_closed A P hP t
    · exact reachL_sub_closed A P hP ts s h
end

/-- restriction to the rules all of whose states are in `P` -/
def restrict (A : TA) (P : List Nat) : TA :=
  ⟨A.rules.filter (fun r => P.contains r.parent && r.kids.all (fun k => P.contains k)), A.final.filter (fun q => P.contains q)⟩

/-- removing the rules that mention a state outside a rule-closed set does not change `reach` -/
theorem matchKids_self {qs : List Nat} {ss ss' : List (List Nat)}
    (h : All2 (fun s s' => ∀ q, q ∈ s → q ∈ s') ss ss') : True := trivial

mutual
theorem reach_restrict (A : TA) (P : List Nat) (hP : ProdClosed A P) :
    ∀ (t : Tree) (q : Nat), q ∈ reach A t → q ∈ reach (restrict A P) t
  | .node f ts, q => by
    intro hq
    have hq' := hq
    rw [reach, mem_post'] at hq
    obtain ⟨r, hr, hs, hm, hp⟩ := hq
    rw [reach, mem_post']
    refine ⟨r, ?_, hs, matchKids_mono (reachL_restrict A P hP ts) hm, hp⟩
    simp only [restrict, List.mem_filter, Bool.and_eq_true, List.contains_iff_mem, List.all_eq_true]
    refine ⟨hr, ?_, ?_⟩
    · rw [hp]; exact reach_sub_closed A P hP _ q hq'
    · intro k hk
      exact all2_sub (matchKids_mem hm) (reachL_sub_closed A P hP ts) k hk
theorem reachL_restrict (A : TA) (P : List Nat) (hP : ProdClosed A P) :
    ∀ ts : List Tree, All2 (fun s s' => ∀ q, q ∈ s → q ∈ s') (reachL A ts) (reachL (restrict A P) ts)
  | [] => All2.nil
  | t :: ts => All2.cons (reach_restrict A P hP t) (reachL_restrict A P hP ts)
end

theorem restrict_lang (A : TA) (P : List Nat) (hP : ProdClosed A P) (t : Tree) :
    accepts (restrict A P) t = accepts A t := by
  rw [Bool.eq_iff_iff]
  simp only [accepts, accepting, List.any_eq_true, List.contains_iff_mem]
  constructor
  · rintro ⟨q, hq, hf⟩
    refine ⟨q, reach_mono (restrict A P) A (fun r hr => (List.mem_filter.mp hr).1) t q hq, ?_⟩
    exact (List.mem_filter.mp hf).1
  · rintro ⟨q, hq, hf⟩
    refine ⟨q, reach_restrict A P hP t q hq, ?_⟩
    simp only [restrict, List.mem_filter, List.contains_iff_mem]
    exact ⟨hf, reach_sub_closed A P hP t q hq⟩

#print axioms restrict_lang
end Vata
