import Vata.BddAbs
import Vata.Ref
/-!
# The symbolic top-down transition tables, the conversion bottom-up → top-down, symbolic trimming (property C08)

What is modelled (`src/bdd_td_tree_aut_core.{hh,cc}`, `src/util/bdd_td_trans_table.hh`, `src/bdd_bu_tree_aut_core.cc`
`GetTopDownAut`, `src/bdd_td_tree_aut_union_disj.cc`, `src/bdd_td_tree_aut_unreach.cc`, `src/bdd_td_tree_aut_useless.cc`,
`src/bdd_bu_tree_aut_unreach.cc`, `src/bdd_bu_tree_aut_useless.cc`):

* a top-down transition table (`BDDTopDownTransTable`) is a map from states to MTBDDs (`TableTD`; a state without an
  entry has the default MTBDD `leaf ∅`; `GetMtbdd` is `getTD`, `SetMtbdd` is `setTD`);
* an MTBDD is a `Vata.M.Node (List (List Nat))`: the variables `0 … 15` are the bits of the symbol, the variables
  `16 … 21` are the bits of the ARITY (`addArityToSymbol`: `symbol.append(SymbolicVarAsgn(6, arity))`; the larger
  variable is nearer the root, so the arity is tested first), a leaf is a SET of children tuples (`OrdVector<StateTuple>`,
  a vector sorted by the lexicographic `operator<` of `std::vector`, `ltT`/`insT`/`normT`);
* the abstraction: the rule `ρ(ks) → p` is in the automaton iff `ks ∈ eval (GetMtbdd p) ρ` (`HasRuleTD`); the dump
  (`dumpToAutDescExplicit`) pairs the MTBDD of a state with the BDD of a 16-bit symbol and "ignores the rank", i.e. it
  collects the tuples for all values of the arity bits (`collectTD`, `absRulesTD`);
* `AddTransition(children, symbol, parent)`:
  `SetMtbdd(parent, union(GetMtbdd(parent), MTBDD(symbol ++ arity bits, {children}, ∅)))` (`addCubeTD`, `addTransitionTD`);
* `UnionDisjointStates`: the `SetMtbdd`s of the right operand OVERWRITE those of the left one (`unionDisjTD`);
  `unionTD` is the general table-wise union;
* `BDDBUTreeAutCore::GetTopDownAut`: `states` = the final states and the states in the tuples of the table; for every
  such state `p` and every pair (tuple, MTBDD) of the bottom-up table (the nullary pair first):
  `SetMtbdd(p, invert(bdd.ExtendWith(arity bits of |tuple|, 16), GetMtbdd(p)))` where the leaf operation `invert`
  inserts the tuple into the right leaf iff `p` is in the left leaf (`invertLeaf`, `invertStep`, `getTopDownAut`);
* the trimming operations visit the LEAVES of the MTBDDs (`Apply1Functor` with an identity result, `VoidApply1Functor`),
  for all valuations of the variables at once: `leafTuples`, `skelTD` (top-down), `leafParents`, `skelBU` (bottom-up)
  are the symbol-less automata they work on, `removeUnreachableTD`, `removeUselessTD`, `removeUnreachableBU`,
  `removeUselessBU` the results (the analyses themselves are the reference procedures `tdReach`, `prodStates` of
  `Vata/Ref.lean` applied to the skeleton; `tdUnreachLoop` mirrors the work-list of the top-down reachability).

Definitions only (core Lean); the theorems are in `Vata/Proofs/BddAbsTD.lean`.
-/
namespace Vata
namespace BddAbsTD
open M BddAbs

/-- a top-down transition MTBDD: arity bits, symbol bits ↦ set of children tuples -/
abbrev MTD := Node (List (List Nat))

/-! ### leaves: sorted vectors of tuples -/

/-- `operator<` of `std::vector<StateType>` (lexicographic) -/
def ltT : List Nat → List Nat → Bool
  | [], [] => false
  | [], _ :: _ => true
  | _ :: _, [] => false
  | x :: xs, y :: ys => if x < y then true else if y < x then false else ltT xs ys

/-- `OrdVector::insert` -/
def insT (x : List Nat) : List (List Nat) → List (List Nat)
  | [] => [x]
  | y :: l => if ltT x y then x :: y :: l else if x == y then y :: l else y :: insT x l

def normT (l : List (List Nat)) : List (List Nat) := l.foldr insT []

/-- leaf operation of `BDDTDTreeAutCore::UnionApplyFunctor` -/
def unionTS (a b : List (List Nat)) : List (List Nat) := normT (a ++ b)

/-! ### the table -/

abbrev TableTD := List (Nat × MTD)

/-- `BDDTopDownTransTable::GetMtbdd`: the default is `leaf ∅` -/
def getTD : TableTD → Nat → MTD
  | [], _ => .leaf []
  | (q, m) :: es, p => if q = p then m else getTD es p

/-- `BDDTopDownTransTable::SetMtbdd` -/
def setTD (T : TableTD) (p : Nat) (m : MTD) : TableTD := (p, m) :: T.filter (fun e => e.1 != p)

/-- `GetStates()`: the states that have an MTBDD -/
def keysTD (T : TableTD) : List Nat := T.map (·.1)

/-! ### symbols with arity -/

/-- `SymbolicVarAsgn(SYMBOL_ARITY_LENGTH, n)` -/
def arAsgn (n : Nat) : List (Option Bool) := (List.range 6).map (fun i => some (n.testBit i))

/-- `addArityToSymbol` -/
def symArAsgn (f n : Nat) : List (Option Bool) := symAsgn f ++ arAsgn n

/-- a valuation of the symbol variables extended by the arity `n` on the variables `16, 17, …` -/
def withArity (ρ : Nat → Bool) (n : Nat) : Nat → Bool := fun i => if i < 16 then ρ i else n.testBit (i - 16)

/-- the valuation for the symbol number `f` with arity `n` -/
def bitsAr (f n : Nat) : Nat → Bool := withArity (bits f) n

/-- the arity variables of `ρ` hold the (6 low bits of the) number `n` -/
def arOK (ρ : Nat → Bool) (n : Nat) : Bool := agrees (fun j => ρ (j + 16)) (arAsgn n) 0

/-! ### the abstraction -/

/-- the rule `ρ(ks) → p` is in the table -/
def HasRuleTD (T : TableTD) (ρ : Nat → Bool) (p : Nat) (ks : List Nat) : Prop := ks ∈ eval (getTD T p) ρ

/-- the rules of the table over the symbols `syms`, for any value of the arity bits (the dump "ignores the rank") -/
def absRulesTD (syms : List Nat) (T : TableTD) : List Rule :=
  (keysTD T).flatMap (fun p => syms.flatMap (fun f => (List.range 64).flatMap (fun n =>
    (eval (getTD T p) (bitsAr f n)).map (fun ks => ⟨f, ks, p⟩))))

def absTD (syms : List Nat) (T : TableTD) (final : List Nat) : TA := ⟨absRulesTD syms T, final⟩

/-- `CondColApplyFunctor` of `dumpToAutDescExplicit` applied to the MTBDD of a state and `BDD(symbol, true, false)`:
the accumulator -/
def collectTD (m : MTD) (f : Nat) : List (List Nat) :=
  (voidApply2 m (construct (symAsgn f) true false)).flatMap (fun lb => if lb.2 then lb.1 else [])

/-! ### the operations -/

/-- `AddTransition` with a symbolic assignment (a cube of symbols; `asgn.length = 16` is asserted by the C++) -/
def addCubeTD (T : TableTD) (p : Nat) (asgn : List (Option Bool)) (ks : List Nat) : TableTD :=
  setTD T p (apply2 unionTS (getTD T p) (construct (asgn ++ arAsgn ks.length) [ks] []))

/-- `AddTransition(ks, f, p)` -/
def addTransitionTD (T : TableTD) (ks : List Nat) (f : Nat) (p : Nat) : TableTD := addCubeTD T p (symAsgn f) ks

/-- the encoding of a list of rules: `AddTransition` for each -/
def ofRulesTD (rs : List Rule) : TableTD := rs.foldl (fun T r => addTransitionTD T r.kids r.sym r.parent) []

/-- table-wise union -/
def unionTD (T₁ T₂ : TableTD) : TableTD :=
  (keysTD T₁ ++ keysTD T₂).map (fun p => (p, apply2 unionTS (getTD T₁ p) (getTD T₂ p)))

/-- `UnionDisjointStates`: `result = lhs`, then `result.SetMtbdd(p, m)` for every `(p, m)` of `rhs` -/
def unionDisjTD (T₁ T₂ : TableTD) : TableTD := T₂.foldl (fun R e => setTD R e.1 (getTD T₂ e.1)) T₁

/-! ### `GetTopDownAut` -/

/-- the pairs the iterator of `TransTableWrapper` yields: the nullary one first -/
def pairs (T : Table) : List (List Nat × MT) := ([], T.nullary) :: T.entries

/-- `InverterApplyFunctor::ApplyOperation` for `soughtState_ = p`, `checkedTuple_ = ks` -/
def invertLeaf (p : Nat) (ks : List Nat) (lhs : List Nat) (rhs : List (List Nat)) : List (List Nat) :=
  if lhs.contains p then insT ks rhs else rhs

/-- the body of the inner loop of `GetTopDownAut` -/
def invertStep (p : Nat) (acc : MTD) (e : List Nat × MT) : MTD :=
  apply2 (invertLeaf p e.1) (extendWith (arAsgn e.1.length) 16 e.2 []) acc

/-- the set `states` of `GetTopDownAut`: the final states and the states in the tuples of the table -/
def tdStates (T : Table) (final : List Nat) : List Nat := dedupL (final ++ T.entries.flatMap (·.1))

/-- `BDDBUTreeAutCore::GetTopDownAut` (the final states are copied) -/
def getTopDownAut (T : Table) (final : List Nat) : TableTD :=
  (tdStates T final).foldl (fun R p => setTD R p ((pairs T).foldl (invertStep p) (getTD R p))) []

/-! ### symbolic trimming

The functors of the trimming operations are called on the leaves of the MTBDDs (`voidApply1`: the list of the leaves
visited; `Apply1Functor` visits the same leaves), for all valuations of the variables at once. -/

/-- the tuples in the leaves of a top-down MTBDD (what `UnreachableApplyFunctor` / `AndOrGraphConstrFunctor` see) -/
def leafTuples (m : MTD) : List (List Nat) := (voidApply1 m).flatMap id

/-- the states in the leaves of a bottom-up MTBDD (what `ReachableCollectorFctor` sees) -/
def leafParents (m : MT) : List Nat := (voidApply1 m).flatMap id

/-- the symbol-less automaton the top-down analyses work on: `p → ks` for every tuple `ks` in a leaf of the MTBDD of `p` -/
def skelTD (T : TableTD) (final : List Nat) : TA :=
  ⟨(keysTD T).flatMap (fun p => (leafTuples (getTD T p)).map (fun ks => ⟨0, ks, p⟩)), final⟩

/-- the symbol-less automaton the bottom-up analyses work on -/
def skelBU (T : Table) (final : List Nat) : TA :=
  ⟨T.keys.flatMap (fun ks => (leafParents (T.get ks)).map (fun p => ⟨0, ks, p⟩)), final⟩

/-- `BDDTDTreeAutCore::RemoveUnreachableStates`: every state reached from the final states through the leaves gets
`unreach(GetMtbdd(state))`, an `Apply1` with the identity as result; the final states are copied -/
def removeUnreachableTD (T : TableTD) (final : List Nat) : TableTD :=
  (tdReach (skelTD T final)).map (fun p => (p, apply1 id (getTD T p)))

/-- the work-list of `RemoveUnreachableStates` (`workset` is a stack, `processed` the hash set of the functor; the
final states are pushed without being inserted into `processed`).  `none`: out of fuel -/
def tdUnreachLoop (T : TableTD) : Nat → List Nat → List Nat → TableTD → Option TableTD
  | _, [], _, R => some R
  | 0, _ :: _, _, _ => none
  | fuel + 1, p :: ws, processed, R =>
    let new := dedupL (((leafTuples (getTD T p)).flatMap id).filter (fun q => !processed.contains q))
    tdUnreachLoop T fuel (new.reverse ++ ws) (processed ++ new) (setTD R p (apply1 id (getTD T p)))

def tdUnreachWL (T : TableTD) (final : List Nat) (fuel : Nat) : Option TableTD :=
  tdUnreachLoop T fuel final.reverse [] []

/-- the states `usefulStates` of the top-down `RemoveUselessStates`: the AND/OR graph is built over the states reached
from the final states; a state is useful when one of its tuples has only useful states (the terminal nodes: the
empty tuple) -/
def usefulTD (T : TableTD) (final : List Nat) : List Nat := prodStates (removeUnreachable (skelTD T final))

/-- `RestrictApplyFunctor::ApplyOperation` -/
def restrictLeaf (U : List Nat) (l : List (List Nat)) : List (List Nat) :=
  normT (l.filter (fun ks => ks.all (fun q => U.contains q)))

/-- the restriction to the useful states -/
def restrictTD (T : TableTD) (U : List Nat) : TableTD :=
  ((keysTD T).filter (fun p => U.contains p)).map (fun p => (p, apply1 (restrictLeaf U) (getTD T p)))

/-- `BDDTDTreeAutCore::RemoveUselessStates` (table and final states) -/
def removeUselessTD (T : TableTD) (final : List Nat) : TableTD × List Nat :=
  let U := usefulTD T final
  let F' := final.filter (fun q => U.contains q)
  (removeUnreachableTD (restrictTD T U) F', F')

/-- `BDDBUTreeAutCore::RemoveUnreachableStates` (bottom-up reachable = productive): the nullary MTBDD and the MTBDDs of
the tuples of reachable states are copied, the final states are the reachable ones -/
def removeUnreachableBU (T : Table) (final : List Nat) : Table × List Nat :=
  let P := prodStates (skelBU T final)
  (⟨T.nullary, T.entries.filter (fun e => e.1.all (fun q => P.contains q))⟩, final.filter (fun q => P.contains q))

/-- `UsefulCheckerFctor::ApplyOperation` -/
def usefulLeaf (U : List Nat) (l : List Nat) : List Nat := l.filter (fun q => U.contains q)

/-- `BDDBUTreeAutCore::RemoveUselessStates`: `useful` = the states reached from the (reachable) final states through
the edges parent → child of the tuples of reachable states -/
def removeUselessBU (T : Table) (final : List Nat) : Table × List Nat :=
  let S := skelBU T final
  let P := prodStates S
  let U := tdReach (restrict S P)
  (⟨apply1 (usefulLeaf U) T.nullary,
    (T.entries.filter (fun e => e.1.all (fun q => U.contains q))).map (fun e => (e.1, apply1 (usefulLeaf U) e.2))⟩,
   final.filter (fun q => P.contains q))

end BddAbsTD
end Vata
