import Vata.Mtbdd
/-! feasibility probe (throw-away): `apply2` with the case split of `classify_case.hh`, pointwise correctness -/
namespace Vata.M
variable {α β γ : Type}

/-- smart constructor: the `low == high` reduction of `recDescend` -/
def mk [DecidableEq γ] (x : Nat) (lo hi : Node γ) : Node γ := if lo = hi then lo else Node.node x lo hi

theorem eval_mk [DecidableEq γ] (x : Nat) (lo hi : Node γ) (ρ : Nat → Bool) :
    eval (mk x lo hi) ρ = if ρ x then eval hi ρ else eval lo ρ := by
  unfold mk
  split
  · rename_i h; subst h; simp
  · rfl

/-- binary apply; the branch conditions are those of `classifyCase2`
    (branch a node if the other is a leaf or has a variable that is not larger) -/
def apply2 [DecidableEq γ] (f : α → β → γ) : Node α → Node β → Node γ
  | .leaf v, .leaf w => .leaf (f v w)
  | .node x lo hi, .leaf w => mk x (apply2 f lo (.leaf w)) (apply2 f hi (.leaf w))
  | .leaf v, .node y lo hi => mk y (apply2 f (.leaf v) lo) (apply2 f (.leaf v) hi)
  | .node x alo ahi, .node y blo bhi =>
    if x = y then mk x (apply2 f alo blo) (apply2 f ahi bhi)
    else if y < x then mk x (apply2 f alo (.node y blo bhi)) (apply2 f ahi (.node y blo bhi))
    else mk y (apply2 f (.node x alo ahi) blo) (apply2 f (.node x alo ahi) bhi)
termination_by a b => size a + size b
decreasing_by all_goals (simp only [size]; omega)

theorem apply2_eval [DecidableEq γ] (f : α → β → γ) (ρ : Nat → Bool) :
    ∀ (a : Node α) (b : Node β), eval (apply2 f a b) ρ = f (eval a ρ) (eval b ρ) := by
  intro a b
  induction a, b using apply2.induct with
  | case1 v w => simp [apply2, eval]
  | case2 x lo hi w ih1 ih2 => rw [apply2, eval_mk, ih1, ih2]; simp only [eval]; split <;> rfl
  | case3 v y lo hi ih1 ih2 => rw [apply2, eval_mk, ih1, ih2]; simp only [eval]; split <;> rfl
  | case4 x alo ahi blo bhi ih1 ih2 =>
    rw [apply2]; simp only [if_true]; rw [eval_mk, ih1, ih2]; simp only [eval]; split <;> rfl
  | case5 x alo ahi y blo bhi hne hlt ih1 ih2 =>
    rw [apply2]; simp only [hne, hlt, if_false, if_true]; rw [eval_mk, ih1, ih2]
    simp only [eval]; split <;> rfl
  | case6 x alo ahi y blo bhi hne hlt ih1 ih2 =>
    rw [apply2]; simp only [hne, hlt, if_false]; rw [eval_mk, ih1, ih2]
    simp only [eval]; split <;> rfl

#print axioms apply2_eval
end Vata.M
