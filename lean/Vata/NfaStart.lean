import Vata.NfaOps
/-!
# Word automata WITH their start symbols – executable model (properties C10, C09, C13)

`ExplicitFiniteAutCore` (`src/explicit_finite_aut_core.hh`) keeps, besides the set `startStates_`, a map
`startStateToSymbols_ : state ↦ set of symbols` (the nullary Timbuk rules `sym -> q`).  The model `Vata.W.NFA` has no such
component; `NFAS` adds it, **as an extension**: `NFAS.toNFA` is the projection to the automaton without symbols, and every
operation below is *the operation of `Vata/NfaOps.lean` on `toNFA`* paired with what the C++ does to the map, so that
`(op A).toNFA = op' A.toNFA` holds by `rfl` and the language theorems of `Vata/Proofs/NfaOps.lean` transfer.

## what the code does to the map (read off the current sources, after the `fix:` commits dcf3cbe6, 2c042d21, bb6bc616, 3dfc5d43)

* The map is an `std::unordered_map`; every write is `insert` (never overwrites) or, in `SetStateStart`, `find` + add to the
  set.  **Nothing ever erases an entry.**  The model is an association list in which the FIRST entry of a key counts
  (`smFind`); appending is then exactly `insert`.
* `SetStateStart (q, a)`: `q` becomes a start state; `a` is added to the entry of `q` (created empty if absent) – also when
  the entry is a *stale* one (`q` not a start state, see below).
* `SetExistingStateStart (q, S)`: `q` becomes a start state; `insert (q, S)` – ignored if `q` has an entry (the `assert`
  that forbids it is compiled out).
* `GetStartSymbols (q)`: the entry of `q`; undefined behaviour without one (`assert` compiled out).  `symsOf` returns `[]`
  then; `nfas_history_keys` (Proofs) shows that every start state has an entry in every history.
* copy construction / assignment copy the map; `ReindexStates (dst, f)` reads ONLY the entries of the start states:
  `dst.SetExistingStateStart (f s, GetStartSymbols (s))`; `Union` reindexes both operands into one fresh automaton.
* `UnionDisjointStates (A, B)`: copy of `A`, then `insert` of ALL entries of `B` (stale ones included; an entry of `A` wins).
* `Reverse`: the new map is the WHOLE old map plus an empty entry for every final state (= new start state) that has none.
  So the old start states keep their entries although they are (in general) no start states any more – **stale entries** –
  and a new start state that has an old entry shows it.  `Reverse ∘ Reverse` therefore restores the symbols, and
  `RemoveUselessStates` (= unreachable ∘ reverse ∘ unreachable ∘ reverse, as coded) keeps them only because of this.
* `RemoveUnreachableStates`: the map is copied whole (entries of removed states stay).
* `Intersection`: every pair of start states becomes a start state of the product carrying the UNION of the two components'
  sets; then `RemoveUselessStates`.
* `GetCandidateTree`: every start state scanned is re-registered with its set; then `RemoveUselessStates`.
* dump: for every start state, one nullary rule per symbol; **for an empty set one rule with the name `x`** (so an automaton
  whose start state has no symbols is reloaded with the symbol `x` there).  Entries of non-start states are not written.
* load: `SetStateStart` for every nullary rule.

Stale entries are invisible to `GetStartSymbols` on start states and to the dump, but the three writers that do not start
from a fresh map see them: `SetStateStart`, `SetExistingStateStart`, `UnionDisjointStates` (examples `NfaSEx.stale_*` in
`Vata/Proofs/NfaStart.lean`; they are reproduced by the real class).

Core Lean only, total, executable.
-/
namespace Vata
open Vata.W

/-- `startStateToSymbols_`: association list, the first entry of a key counts -/
abbrev SymMap := List (Nat × List Nat)

/-- `startStateToSymbols_.find (q)` -/
def smFind : SymMap → Nat → Option (List Nat)
  | [], _ => none
  | e :: r, q => if e.1 = q then some e.2 else smFind r q

/-- `startStateToSymbols_.count (q)` -/
def smHas (m : SymMap) (q : Nat) : Bool := (smFind m q).isSome

/-- the set stored for `q` (`[]` without an entry) -/
def smGet (m : SymMap) (q : Nat) : List Nat := (smFind m q).getD []

/-- `insert (make_pair (q, S))`: no effect when `q` has an entry -/
def smInsert (m : SymMap) (q : Nat) (S : List Nat) : SymMap := if smHas m q then m else m ++ [(q, S)]

/-- insertion into a set kept as a list -/
def insN (l : List Nat) (x : Nat) : List Nat := if l.contains x then l else l ++ [x]

/-- the map part of `SetStateStart (q, a)`: add `a` to the entry of `q`, created if absent -/
def smAddSym : SymMap → Nat → Nat → SymMap
  | [], q, a => [(q, [a])]
  | e :: r, q, a => if e.1 = q then (e.1, insN e.2 a) :: r else e :: smAddSym r q a

/-- a word automaton with its start-symbol map -/
structure NFAS extends NFA where
  startSyms : SymMap

namespace NFAS

/-- `GetStartSymbols (q)` (defined behaviour only when `q` has an entry; every start state has one, `nfas_history_keys`) -/
def symsOf (A : NFAS) (q : Nat) : List Nat := smGet A.startSyms q

/-- the protocol number of the symbol name `x`, which the dump writes for a start state without symbols -/
def xSym : Nat := 12

/-- the symbols the dump writes for the start state `q` -/
def dumpSyms (A : NFAS) (q : Nat) : List Nat := if (A.symsOf q).isEmpty then [xSym] else A.symsOf q

/-- the automaton with the entries of the non-start states dropped (what the API and the dump can see) -/
def clean (A : NFAS) : NFAS := ⟨A.toNFA, A.startSyms.filter (fun e => A.start.contains e.1)⟩

end NFAS

/-! ### construction and mutation -/

def nfasEmpty : NFAS := ⟨⟨[], [], []⟩, []⟩

/-- `AddTransition (p, a, q)` -/
def nfasAddTrans (A : NFAS) (p a q : Nat) : NFAS := ⟨⟨A.start, A.final, A.trans ++ [(p, a, q)]⟩, A.startSyms⟩

/-- `SetStateFinal (q)` -/
def nfasSetFinal (A : NFAS) (q : Nat) : NFAS := ⟨⟨A.start, insN A.final q, A.trans⟩, A.startSyms⟩

/-- `SetStateStart (q, a)` -/
def nfasSetStart (A : NFAS) (q a : Nat) : NFAS := ⟨⟨insN A.start q, A.final, A.trans⟩, smAddSym A.startSyms q a⟩

/-- `SetExistingStateStart (q, S)` -/
def nfasSetExistingStart (A : NFAS) (q : Nat) (S : List Nat) : NFAS :=
  ⟨⟨insN A.start q, A.final, A.trans⟩, smInsert A.startSyms q S⟩

/-- what the harness builds for `def:T|S|F`: transitions, then `SetStateStart` for every (state, symbol) pair, then the final
states -/
def nfasBuild (trans : List (Nat × Nat × Nat)) (starts : List (Nat × Nat)) (finals : List Nat) : NFAS :=
  finals.foldl nfasSetFinal (starts.foldl (fun A p => nfasSetStart A p.1 p.2) ⟨⟨[], [], trans⟩, []⟩)

/-! ### `ReindexStates`, `Union`, `UnionDisjointStates` -/

/-- the entries `ReindexStates` writes: one per start state, under its new name -/
def nfasMapSyms (f : Nat → Nat) (A : NFAS) : SymMap := A.start.map (fun s => (f s, A.symsOf s))

/-- `ReindexStates` into a fresh automaton -/
def nfasMap (f : Nat → Nat) (A : NFAS) : NFAS := ⟨nfaMap f A.toNFA, nfasMapSyms f A⟩

/-- `UnionDisjointStates` -/
def nfasUnionDisjoint (A B : NFAS) : NFAS := ⟨nfaUnionDisjoint A.toNFA B.toNFA, A.startSyms ++ B.startSyms⟩

/-- `Union` with the two translation maps given -/
def nfasUnionWith (fA fB : Nat → Nat) (A B : NFAS) : NFAS :=
  ⟨nfaUnionWith fA fB A.toNFA B.toNFA, nfasMapSyms fA A ++ nfasMapSyms fB B⟩

/-- `Union` with the numbering of `nfaUnion` -/
def nfasUnion (A B : NFAS) : NFAS :=
  nfasUnionWith (fun q => (nfaStateList A.toNFA).idxOf q)
    (fun q => (nfaStateList A.toNFA).length + (nfaStateList B.toNFA).idxOf q) A B

/-! ### `Reverse`, `RemoveUnreachableStates`, `RemoveUselessStates` -/

/-- the map of `Reverse`: the whole old map, plus an empty entry for every new start state without one -/
def nfasReverseSyms (A : NFAS) : SymMap :=
  A.startSyms ++ ((A.final.filter (fun f => !smHas A.startSyms f)).map (fun f => (f, [])))

def nfasReverse (A : NFAS) : NFAS := ⟨nfaReverse A.toNFA, nfasReverseSyms A⟩

def nfasRemoveUnreachable (A : NFAS) : NFAS := ⟨nfaRemoveUnreachable A.toNFA, A.startSyms⟩

/-- as coded: `RemoveUnreachableStates().Reverse().RemoveUnreachableStates().Reverse()` -/
def nfasRemoveUseless (A : NFAS) : NFAS :=
  nfasReverse (nfasRemoveUnreachable (nfasReverse (nfasRemoveUnreachable A)))

/-! ### `Intersection` -/

/-- the entries the product construction writes: one per pair of start states, the union of the components' sets -/
def nfasProdSyms (A B : NFAS) (m : Nat × Nat → Nat) : SymMap :=
  (nfaStartPairs A.toNFA B.toNFA).map (fun p => (m p, A.symsOf p.1 ++ B.symsOf p.2))

/-- the product on the set `D` of pairs numbered by `m`, before `RemoveUselessStates` -/
def nfasProdOn (A B : NFAS) (D : List (Nat × Nat)) (m : Nat × Nat → Nat) : NFAS :=
  ⟨nfaProdOn A.toNFA B.toNFA D m, nfasProdSyms A B m⟩

/-- `Intersection` (see `nfaIntersection`) -/
def nfasIntersection (A B : NFAS) (fuel : Nat) : Option NFAS :=
  let D := nfaPairIter A.toNFA B.toNFA fuel (nfaStartPairs A.toNFA B.toNFA).eraseDups
  if nfaPairClosedB A.toNFA B.toNFA D then some (nfasRemoveUseless (nfasProdOn A B D (fun p => D.idxOf p))) else none

def nfasIsect (A B : NFAS) : NFAS :=
  (nfasIntersection A B (nfaJointAll A.toNFA B.toNFA).length).getD nfasEmpty

/-! ### `GetCandidateTree` -/

/-- the automaton built before the final `RemoveUselessStates`: every start state scanned is registered with its set -/
def nfasCandidateRaw (A : NFAS) : NFAS :=
  ⟨nfaCandidateRaw A.toNFA, (nfaCandidateRaw A.toNFA).start.map (fun q => (q, A.symsOf q))⟩

def nfasCandidate (A : NFAS) : NFAS := nfasRemoveUseless (nfasCandidateRaw A)

/-! ### dump and load -/

/-- the part of an `AutDescription` the word automata use: final state names, nullary rules `sym -> q` as `(sym, q)`, unary
rules `sym (p) -> q` as `(p, sym, q)`.  State names are numbers; `std::set` semantics (read as sets). -/
structure NDesc where
  final : List Nat
  nullary : List (Nat × Nat)
  unary : List (Nat × Nat × Nat)

/-- `dumpToAutDescInternal` with the state back translator `g` -/
def nfasDump (g : Nat → Nat) (A : NFAS) : NDesc :=
  ⟨A.final.map g, A.start.flatMap (fun s => (A.dumpSyms s).map (fun a => (a, g s))),
    A.trans.map (fun e => (g e.1, e.2.1, g e.2.2))⟩

/-- `loadFromAutDescInternal` with the state translator `f` -/
def nfasLoad (f : Nat → Nat) (d : NDesc) : NFAS :=
  d.nullary.foldl (fun A r => nfasSetStart A (f r.2) r.1)
    ⟨⟨[], d.final.map f, d.unary.map (fun e => (f e.1, e.2.1, f e.2.2))⟩, []⟩

/-- the translator `LoadFromAutDesc (desc, stateDict)` builds for an empty dictionary: names are numbered in the order of
their first translation (final states, then the rules) -/
def NDesc.names (d : NDesc) : List Nat :=
  (d.final ++ d.nullary.map (·.2) ++ d.unary.flatMap (fun e => [e.1, e.2.2])).eraseDups

def nfasLoadFresh (d : NDesc) : NFAS := nfasLoad (fun n => d.names.idxOf n) d

/-! ### what can be observed -/

/-- Boolean set equality of symbol lists -/
def symSetEqB (a b : List Nat) : Bool := a.all b.contains && b.all a.contains

/-- `A` and `B` cannot be told apart through `GetStartStates`, `GetStartSymbols` on start states, the dump:
same automaton without symbols (as sets) and the same symbol set at every start state -/
def nfasObsEqB (A B : NFAS) : Bool :=
  symSetEqB A.start B.start && symSetEqB A.final B.final &&
  A.trans.all B.trans.contains && B.trans.all A.trans.contains &&
  A.start.all (fun q => symSetEqB (A.symsOf q) (B.symsOf q))

end Vata
