import Vata.TrimCoded
import Vata.BddTrimCoded
import Vata.InclDownStack
/-!
# Instrumented ("checked") variants of three coded models, for property C20

Three of the coded models hide an undefined outcome of the C++ behind a total operation:

* `Vata/TrimCoded.lean` (`RemoveUselessStates`, `src/explicit_tree_useless.cc`): `--remaining` on a `size_t` is the truncated
  subtraction of `Nat`; `assert(childrenSet_.count(state))` of `reachedBy` is not an exit; an index of `stateMap` that is not a
  `TransitionInfo` is skipped.
* `Vata/BddTrimCoded.lean` (`BDDTDTreeAutCore::RemoveUselessStates`, `src/bdd_td_tree_aut_core.cc`): the test
  `if (Graph::GetIngress(andNode).erase(node) != 1) { assert(false); }` is not an exit (`eraseIng` is a `filter`), and a failed
  `orNodes.FindFwd(node)` (`assert(false)`, "fail gracefully") yields the state `0` (`stateOf`).
* `Vata/InclDownStack.lean` (`expand` of `src/explicit_tree_incl_down.cc`): `EXPAND_POP_RETURN` on an empty call emulator
  (`ptr_ == nullptr` is dereferenced by `ExpandCallEmulator::pop`) is a normal exit of the machine; `**top.tupleSetIter` /
  `**top.tupleSetIter2` at `end()` read the default `[]` (`headD`); `_end` does not test `assert(callEmulator.empty())`.

This file adds, next to each of these models and WITHOUT changing them, the same code with one more component: a flag that
is raised exactly where the C++ would execute the undefined operation (or fail the assertion).  The proofs
(`Vata/Proofs/C20Models*.lean`) show (1) erasure: forgetting the flag gives the original model, step by step, and (2) the
flag is never raised on the inputs of the model's precondition.  Definitions only.
-/
namespace Vata.C20M
open Vata

/-! ### `RemoveUselessStates` of the explicit encoding: `reachedBy`'s assertion and `--remaining` -/
section Trim
open Vata.TrimCoded

/-- the body of `for (auto& info : i->second)` (`TrimCoded.innerStep` with the C++ decrement `decOne`) with the flag:
raised when the index found in `stateMap` is no `TransitionInfo` (a dangling `shared_ptr` in the C++), when
`assert(childrenSet_.count(state))` of `reachedBy` fails, or when `--remaining` is executed with `remaining == 0`
(`size_t` wrap-around to `SIZE_MAX`; afterwards `if (!remaining)` is wrong) -/
def innerStepC (s : Nat) (σb : St × Bool) (j : Nat) : St × Bool :=
  (innerStep decOne s σb.1 j,
   σb.2 || (match σb.1.infos[j]? with
     | none => true
     | some info => !(info.cset.contains s) || ((info.reachedBy s).2 && σb.1.remaining == 0)))

/-- `TrimCoded.mainLoop decOne` with the flag -/
def mainLoopC : Nat → St × Bool → St × Bool
  | 0, σb => σb
  | f+1, σb =>
    match σb.1.work with
    | [] => σb
    | s :: w =>
      match σb.1.smap.lookup s with
      | none => mainLoopC f ({ σb.1 with work := w }, σb.2)
      | some v => mainLoopC f (v.foldl (innerStepC s) ({ σb.1 with work := w }, σb.2))

/-- both loops of `RemoveUselessStates` with the flag (the first loop only increments) -/
def finalStC (A : TA) : St × Bool := mainLoopC A.rules.length (initLoop A A.rules.length, false)

end Trim

/-! ### `RemoveUselessStates` of the top-down BDD encoding: `erase(node) != 1` and `FindFwd` -/
section BddTrim
open Vata.BddTrimCoded

/-- `orNodes.FindFwd(node)` fails (`assert(false)`) -/
def fwdFails (orN : List (Nat × Nat)) (n : Nat) : Bool := (findFwd orN n).isNone

/-- `markStep` with the flag: `itDict = orNodes.FindFwd(orNode)` must succeed -/
def markStepC (orN : List (Nat × Nat)) (Pb : Mark × Bool) (m : Nat) : Mark × Bool :=
  (markStep orN Pb.1 m, Pb.2 || fwdFails orN m)

/-- `satisfyStep` with the flag: `if (Graph::GetIngress(andNode).erase(node) != 1) { assert(false); }` – the sets are
duplicate-free, so the number of erased elements is 1 iff `node` is a member -/
def satisfyStepC (orN : List (Nat × Nat)) (node : Nat) (Pb : Mark × Bool) (a : Nat) : Mark × Bool :=
  let bad := !((Pb.1.G.ing a).contains node)
  let G := Pb.1.G.eraseIng a node
  if (G.ing a).isEmpty then (G.egr a).foldl (markStepC orN) ({ Pb.1 with G := G }, Pb.2 || bad)
  else ({ Pb.1 with G := G }, Pb.2 || bad)

/-- `popStep` with the flag -/
def popStepC (orN : List (Nat × Nat)) (node : Nat) (Pb : Mark × Bool) : Mark × Bool :=
  let G := (Pb.1.G.ing node).foldl (fun G a => G.eraseEgr a node) Pb.1.G
  (G.egr node).foldl (satisfyStepC orN node) ({ Pb.1 with G := G }, Pb.2)

/-- `propLoop` with the flag -/
def propLoopC (orN : List (Nat × Nat)) : Nat → Mark × Bool → Option (Mark × Bool)
  | fuel, Pb =>
    match Pb.1.stk with
    | [] => some Pb
    | node :: stk =>
      match fuel with
      | 0 => none
      | fuel + 1 => propLoopC orN fuel (popStepC orN node ({ Pb.1 with stk := stk }, Pb.2))

/-- `initMark` with the flag: `orNodes.FindFwd(node)` for every terminal node -/
def initMarkC (B : Build) : Mark × Bool :=
  B.term.foldl (fun Pb n => ({ Pb.1 with stk := n :: Pb.1.stk, useful := ins (stateOf B.orN n) Pb.1.useful },
    Pb.2 || fwdFails B.orN n)) (⟨B.G, [], []⟩, false)

/-- `usefulCoded` with the flag -/
def usefulCodedC (T : BddAbsTD.TableTD) (final : List Nat) (fuel : Nat) : Option (List Nat × Bool) :=
  match buildLoop T fuel (initBuild final) with
  | none => none
  | some B =>
    match propLoopC B.orN fuel (initMarkC B) with
    | none => none
    | some Pb => some (Pb.1.useful, Pb.2)

end BddTrim

/-! ### the call emulator of `expand`: frames and iterators -/
section Stack
open Vata.InclDown Vata.InclDownStack

/-- the undefined operations a machine state is ABOUT to execute (`true` = the next transition of `stepM` would, in the C++,
pop the empty call emulator, fail `assert(callEmulator.empty())`, dereference `top.tupleSetIter` / `top.tupleSetIter2` at
`end()`, or jump on a `retAddr` outside `{0, 1, 2}`) -/
def ubNext (m : Machine) : Bool :=
  match m.pc with
  | .popReturn => m.stack.isEmpty                        -- `callEmulator.pop(top)` with `ptr_ == nullptr`
  | .end => !m.stack.isEmpty                             -- `assert(callEmulator.empty())`
  | .ret => decide (2 < m.retAddr)                       -- `switch (retAddr)` has the cases 0, 1, 2
  | .forSimI => m.top.tupleSetIter.isEmpty || m.top.tupleSetIter2.isEmpty   -- `**top.tupleSetIter`, `**top.tupleSetIter2`
  | .choiceInit => m.top.tupleSetIter.isEmpty            -- `(**top.tupleSetIter).size()`
  | .forCfI => m.top.tupleSetIter.isEmpty                -- `(**top.tupleSetIter)[top.i]`
  | _ => false

/-- the state after `n` transitions (`none`: the machine has returned before) -/
def stateAfterM (o : Ord) (A B : TA) (wit : InclUp.Wit) (pop : Frame → Frame → Frame) : Nat → Machine → Option Machine
  | 0, m => some m
  | n+1, m =>
    match stepM o A B wit pop m with
    | .inl m' => stateAfterM o A B wit pop n m'
    | .inr _ => none

end Stack
end Vata.C20M
