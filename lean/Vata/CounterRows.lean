import Vata.LtsEngineCalls2
/-!
# The counter rows of the simulation engine: what the constructor fixes, which cells a call touches (property C16 / C20)

`src/explicit_lts_sim.cc`, `SimulationEngine::SimulationEngine`:
```
rowSize_(SimulationEngine::getRowSize(lts.states())),
…
counterAllocator_(rowSize_ + 1),
```
`src/util/caching_allocator.hh`, `CachingArrayAllocator(size_t size) : store_(), size_(size), byteSize_(size*sizeof(T))` and
`operator()`: `ptr = reinterpret_cast<T*>(::operator new(this->byteSize_));` – every block handed out has `size_` cells.

* `Ctor` = the two numbers the constructor fixes: `rowSize_` (used by `SharedCounter` for `index / rowSize_`, `index % rowSize_`,
  the reference-count cell `data_[rowSize_]`, `memcpy(…, rowSize_*sizeof(size_t))`) and the allocator's `size_`.
  `ctorAsCoded` is the source, `ctorVariant` the seeded change (`counterAllocator_(getRowSize(lts.labels()) + 1)`).
* `cellsOf cfg op` = the indices `j` of all accesses `row.data_[j]` in the body of the member function called by `op`
  (`src/util/shared_counter.hh`), `keyCellOf` = the index into `key_`, `rowIdxOf` = the index into `data_` (the row vector).
* `allocV` / `setCellB` / `setFreshB`: the branch `row.master_ == 0` of `SharedCounter::set` (the FIRST access to a block after
  it left the allocator) with the allocator size as a parameter of its own and writes that report leaving the block.
  In `SC.alloc` (`Vata/LtsUtil.lean`) the block is `SC.poisonRow cfg`, a list of `cfg.rowSize + 1` cells: there the allocator
  size is tied to the row size, which is exactly what `ctorAsCoded` does and what `ctorVariant` does not.
-/
namespace Vata.CR
open Vata.L Vata.LU Vata.LEC2

/-- what `SimulationEngine::SimulationEngine` fixes for the counter rows -/
structure Ctor where
  /-- `rowSize_` -/
  rowSize : Nat
  /-- `counterAllocator_.size_`: the number of `size_t` cells of every block the allocator hands out -/
  allocSize : Nat
deriving Repr, DecidableEq

/-- as coded: `rowSize_(getRowSize(lts.states()))`, `counterAllocator_(rowSize_ + 1)` -/
def ctorAsCoded (states _labels : Nat) : Ctor := ⟨SC.getRowSize states, SC.getRowSize states + 1⟩

/-- the seeded change: `counterAllocator_(getRowSize(lts.labels()) + 1)`; `rowSize_` unchanged -/
def ctorVariant (states labels : Nat) : Ctor := ⟨SC.getRowSize states, SC.getRowSize labels + 1⟩

/-- `key_[label * states_ + state]` (the `index` of `get` / `set` / `decr`) -/
def keyOf (cfg : SC.Cfg) (l q : Nat) : Nat := cfg.key.getD (l * cfg.states + q) 0

/-- the indices `j` of the accesses `row.data_[j]` (`src.data_[j]`, `newData[j]`) in the body of the member function:
* `set`: `row.data_[colIndex] = count; row.data_[this->rowSize_] = 1;` / `row.data_[this->rowSize_] = 0; row.data_[colIndex] = count;`
* `decr`: `row.data_[colIndex]`, `--(row.data_[this->rowSize_])`, `std::memcpy(newData, row.data_, this->rowSize_*sizeof(size_t))`
  (cells `0 … rowSize_ - 1` of both blocks), `newData[this->rowSize_] = 1`
* `init`: `row.data_[this->rowSize_] == 1`;  `~SharedCounter`: `--(row.data_[this->rowSize_])`;
  `copyLabels`: `++(src.data_[this->rowSize_])`. -/
def cellsOf (cfg : SC.Cfg) : SC.Op → List Nat
  | .set _ l q _ => [keyOf cfg l q % cfg.rowSize, cfg.rowSize]
  | .decr _ l q => [keyOf cfg l q % cfg.rowSize, cfg.rowSize] ++ List.range cfg.rowSize
  | .init _ => [cfg.rowSize]
  | .destroy _ => [cfg.rowSize]
  | .copyLabels _ _ _ => [cfg.rowSize]
  | .new => []
  | .copyCtor _ => []
  | .resize _ _ => []

/-- the index of the access `this->key_[label*this->states_ + state]` -/
def keyCellOf (cfg : SC.Cfg) : SC.Op → Option Nat
  | .set _ l q _ => some (l * cfg.states + q)
  | .decr _ l q => some (l * cfg.states + q)
  | _ => none

/-- (counter object, `rowIndex`) of the access `this->data_[rowIndex]` -/
def rowIdxOf (cfg : SC.Cfg) : SC.Op → Option (Nat × Nat)
  | .set i l q _ => some (i, keyOf cfg l q / cfg.rowSize)
  | .decr i l q => some (i, keyOf cfg l q / cfg.rowSize)
  | _ => none

/-- every block access of the call stays inside a block of `c.allocSize` cells -/
def opInBlock (c : Ctor) (cfg : SC.Cfg) (op : SC.Op) : Bool := (cellsOf cfg op).all (fun j => j < c.allocSize)

/-- the first call of a history with an access outside the allocated block, with the offending index (`none`: no such call);
executable, for comparison with an instrumented C++ run (`SC.Op` histories come from `computeSimulationJ`) -/
def firstOverflow (c : Ctor) (cfg : SC.Cfg) : List SC.Op → Option (SC.Op × Nat)
  | [] => none
  | op :: ops =>
    match (cellsOf cfg op).find? (fun j => !(j < c.allocSize)) with
    | some j => some (op, j)
    | none => firstOverflow c cfg ops

/-! ### the first accesses to a fresh block, allocator size as a parameter -/

/-- `allocator_()` of a `CachingArrayAllocator` constructed with `asz` cells, followed by the initializer "fill with poison" -/
def allocV (asz poison : Nat) (m : SC.Mem) : Nat × SC.Mem :=
  match m.free with
  | p :: f => (p, { m with free := f, cells := m.cells.set p (List.replicate asz poison) })
  | [] => (m.next, { m with next := m.next + 1, cells := m.cells.set m.next (List.replicate asz poison) })

/-- `p[i] = v`, reporting (`none`) an index outside the block -/
def setCellB (m : SC.Mem) (p i v : Nat) : Option SC.Mem :=
  if i < (m.cells.get p).length then some (SC.setCell m p i v) else none

/-- ```
row.data_ = this->allocator_();
row.data_[this->rowSize_] = 0; // exploit refCount
row.data_[colIndex] = count;
``` with checked writes; returns the block and the memory -/
def setFreshB (asz : Nat) (cfg : SC.Cfg) (m : SC.Mem) (col count : Nat) : Option (Nat × SC.Mem) :=
  let pm := allocV asz cfg.poison m
  match setCellB pm.2 pm.1 cfg.rowSize 0 with
  | none => none
  | some m1 => (setCellB m1 pm.1 col count).map (fun m2 => (pm.1, m2))

end Vata.CR
