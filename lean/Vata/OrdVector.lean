/-!
# `VATA::Util::OrdVector<Key>` (include/vata/util/ord_vector.hh) – executable model, `Key = size_t` read as `Nat`

The class keeps one private member `std::vector<Key> vec_`; every public member function is modelled below on
`Vec = List Nat` (the content of `vec_` from `begin()` to `end()`), *the way it is coded*:

* index loops (`insert(x)`, `find`) run on indices with an explicit iteration budget (`fuel`, structural recursion) and
  read `vec_[i]` through `v[i]?`; a read outside `[0, size())` is an out-of-bounds read (undefined behaviour) and is
  made visible as the result `BS.oob` (`bsearch_safe` in `Proofs/OrdVector.lean` proves it never happens);
* iterator loops (`Union`, `HaveEmptyIntersection`, and the library algorithms `std::includes`,
  `std::lexicographical_compare`, `std::equal`, `std::unique`) run on the suffixes the iterators denote; dereferencing
  an iterator that equals `end()` is undefined behaviour – `HaveEmptyIntersection` as coded DOES this (its loop condition
  joins the two end tests by `||`), therefore its model returns `Option Bool` with `none` = "reads past the end";
* `std::sort` is only specified (a sorted permutation); the model uses insertion sort and
  `Proofs/OrdVector.lean` proves (`stdSort_unique`) that EVERY sorted permutation of the input equals its result, so the
  choice of the algorithm cannot be observed;
* `resize(size()+1)` value-initialises the new element (0), `std::copy_backward` is the loop `*(--d_last) = *(--last)`.

The class has NO `erase`/`remove`, `count`, `Intersection`, `back` in this version of the library (only the members below).
No Mathlib; everything is executable (`Driver/OrdVecChk.lean` runs it against the real class).
-/
namespace Vata.OrdVec

/-- the content of the private member `vec_` -/
abbrev Vec := List Nat

/-! ## private: `vectorIsSorted()` (only used in assertions) -/

/-- `for (it = cbegin()+1; it < cend(); ++it) if (!(*(it-1) < *it)) return false; return true;` -/
def vectorIsSorted : Vec → Bool
  | [] => true
  | [_] => true
  | x :: y :: r => if !(x < y) then false else vectorIsSorted (y :: r)

/-! ## library algorithms used by the class -/

/-- insertion into a sorted list (inner loop of insertion sort) -/
def insSorted (x : Nat) : List Nat → List Nat
  | [] => [x]
  | y :: r => if x ≤ y then x :: y :: r else y :: insSorted x r

/-- `std::sort(begin, end)`: model = insertion sort (any sorted permutation is this list: `stdSort_unique`) -/
def stdSort : List Nat → List Nat
  | [] => []
  | x :: r => insSorted x (stdSort r)

/-- loop of `std::unique` after the first element: `prev` = `*dest`, the last element kept -/
def uniqueAux (prev : Nat) : List Nat → List Nat
  | [] => []
  | y :: r => if prev == y then uniqueAux prev r else y :: uniqueAux y r

/-- `it = std::unique(begin, end); resize(it - begin)`: the kept prefix -/
def stdUnique : List Nat → List Nat
  | [] => []
  | x :: r => x :: uniqueAux x r

/-- `std::equal(first1, last1, first2)` (the second range is at least as long: `operator==` tests the sizes first) -/
def stdEqual : Vec → Vec → Bool
  | [], _ => true
  | _ :: _, [] => false
  | x :: xs, y :: ys => if !(x == y) then false else stdEqual xs ys

/-- `std::lexicographical_compare(first1, last1, first2, last2)` -/
def stdLexCompare : Vec → Vec → Bool
  | [], [] => false
  | [], _ :: _ => true
  | _ :: _, [] => false
  | x :: xs, y :: ys => if x < y then true else if y < x then false else stdLexCompare xs ys

/-- `std::includes(first1, last1, first2, last2)`:
`while (first1 != last1 && first2 != last2) { if (*first2 < *first1) return false; if (!(*first1 < *first2)) ++first2; ++first1; }
 return first2 == last2;` -/
def stdIncludes : Vec → Vec → Bool
  | _, [] => true
  | [], _ :: _ => false
  | b :: bs, s :: ss => if s < b then false else if !(b < s) then stdIncludes bs ss else stdIncludes bs (s :: ss)

/-- `std::copy_backward(begin + first, begin + last, begin + last + 1)`: `while (first != last) *(--d_last) = *(--last);`
(recursion on `last`; an out-of-range read yields 0 – `copyBackward_get` shows all reads are in range) -/
def copyBackward (v : Vec) (first : Nat) : Nat → Vec
  | 0 => v
  | l + 1 => if first < l + 1 then copyBackward (v.set (l + 1) (v.getD l 0)) first l else v

/-! ## constructors -/

/-- `OrdVector()` -/
def mkEmpty : Vec := []

/-- `explicit OrdVector(const VectorType& vec)`: copy, `std::sort`, `std::unique`, `resize` -/
def ofVector (v : List Nat) : Vec := stdUnique (stdSort v)

/-- `OrdVector(std::initializer_list<Key>)`: the same body -/
def ofInitList (v : List Nat) : Vec := stdUnique (stdSort v)

/-- `explicit OrdVector(const Key& key)`: `vec_(1, key)` -/
def ofKey (x : Nat) : Vec := [x]

/-- `OrdVector(InputIterator first, InputIterator last)`: the same body as the vector constructor -/
def ofRange (v : List Nat) : Vec := stdUnique (stdSort v)

/-- `operator=(const OrdVector& rhs)`: `if (&rhs != this) vec_ = rhs.vec_;` (`self` = whether `&rhs == this`) -/
def assign (self : Bool) (lhs rhs : Vec) : Vec := if self then lhs else rhs

/-! ## binary search (`insert(const Key&)`, `find`) -/

/-- outcome of the `while (first < last)` loop: returned from inside (`found middle`), left with `first ≥ last`
(`pos first`), or an out-of-bounds read of `vec_[middle]` -/
inductive BS where
  | found (i : Nat)
  | pos (i : Nat)
  | oob
  deriving DecidableEq, Repr

/-- the loop shared by `insert` and `find`; `fuel` bounds the number of iterations (`last - first` suffices) -/
def bsearch : Nat → Vec → Nat → Nat → Nat → BS
  | 0, _, _, first, _ => .pos first
  | fuel + 1, v, x, first, last =>
    if first < last then
      let middle := first + (last - first) / 2
      match v[middle]? with
      | none => .oob
      | some y =>
        if y == x then .found middle
        else if y < x then bsearch fuel v x (middle + 1) last
        else bsearch fuel v x first middle
    else .pos first

/-- the test `(last != 0) && (vec_[last-1] < x)` of the fast path of `insert` (`&&` evaluates the read only when
`last != 0`; an out-of-range read would count as `false` – `lastLess_true` shows the read is in range) -/
def lastLess (v : Vec) (x : Nat) : Bool :=
  if v.length != 0 then (match v[v.length - 1]? with | some y => decide (y < x) | none => false) else false

/-- `void insert(const Key& x)` -/
def insert (v : Vec) (x : Nat) : Vec :=
  if lastLess v x then v ++ [x]                      -- push_back
  else
    match bsearch v.length v x 0 v.length with
    | .found _ => v                                   -- return from inside the loop
    | .oob => v
    | .pos first =>
      -- vec_.resize(size+1); copy_backward(begin+first, end-1, end); vec_[first] = x
      (copyBackward (v ++ [0]) first v.length).set first x

/-- `const_iterator find(const Key& key) const`: `some i` = `cbegin() + i`, `none` = `end()` -/
def find (v : Vec) (x : Nat) : Option Nat :=
  match bsearch v.length v x 0 v.length with
  | .found i => some i
  | _ => none

/-! ## `Union`, `insert(const OrdVector&)` -/

/-- the `while ((lhsIt != end) || (rhsIt != rhs.end))` loop of `Union`: the pushed elements in push order -/
def unionLoop : Vec → Vec → Vec
  | [], [] => []
  | [], y :: ys => y :: unionLoop [] ys
  | x :: xs, [] => x :: unionLoop xs []
  | x :: xs, y :: ys =>
    if x < y then x :: unionLoop xs (y :: ys)
    else if y < x then y :: unionLoop (x :: xs) ys
    else y :: unionLoop xs ys
termination_by a b => a.length + b.length

/-- `OrdVector Union(const OrdVector& rhs) const`: the loop, then `OrdVector result(newVector)` (sorts and uniques AGAIN) -/
def union (a b : Vec) : Vec := ofVector (unionLoop a b)

/-- `void insert(const OrdVector& vec)`: `result = this->Union(vec); vec_ = result.vec_;` -/
def insertAll (a b : Vec) : Vec := union a b

/-! ## small members -/

/-- `clear()` -/
def clear (_ : Vec) : Vec := []
/-- `size()` -/
def size (v : Vec) : Nat := v.length
/-- `empty()` -/
def empty (v : Vec) : Bool := v.isEmpty
/-- `begin()`…`end()`, `cbegin()`…`cend()`: the elements an iteration yields, in order -/
def iterate (v : Vec) : List Nat := v
/-- `ToVector()` -/
def toVector (v : Vec) : List Nat := v

/-- `operator==`: `vec_ == rhs.vec_` = sizes equal and `std::equal` -/
def eq (a b : Vec) : Bool := a.length == b.length && stdEqual a b

/-- `operator<`: `std::lexicographical_compare` -/
def lt (a b : Vec) : Bool := stdLexCompare a b

/-- `IsSubsetOf(bigger)`: `std::includes(bigger.cbegin(), bigger.cend(), cbegin(), cend())` -/
def isSubsetOf (a bigger : Vec) : Bool := stdIncludes bigger a

/-- `HaveEmptyIntersection(rhs)` AS CODED: `while ((itLhs != end()) || (itRhs != rhs.end()))` with `*itLhs`, `*itRhs` read
in the body – `none` = an iterator equal to `end()` is dereferenced (out-of-bounds read, undefined behaviour) -/
def haveEmptyIntersection : Vec → Vec → Option Bool
  | [], [] => some true
  | [], _ :: _ => none
  | _ :: _, [] => none
  | x :: xs, y :: ys =>
    if x == y then some false
    else if x < y then haveEmptyIntersection xs (y :: ys)
    else haveEmptyIntersection (x :: xs) ys
termination_by a b => a.length + b.length

/-- the same loop with the condition the comment intends (`&&`: "until we drop out of the array") -/
def haveEmptyIntersectionFixed : Vec → Vec → Bool
  | [], _ => true
  | _ :: _, [] => true
  | x :: xs, y :: ys =>
    if x == y then false
    else if x < y then haveEmptyIntersectionFixed xs (y :: ys)
    else haveEmptyIntersectionFixed (x :: xs) ys
termination_by a b => a.length + b.length

/-! ## `operator<<` and `hash_value` -/

/-- the loop of `operator<<` from the `n`-th element on: `(it != begin ? ", " : " ") + ToString(*it)` -/
def strLoop : Bool → Vec → String
  | _, [] => ""
  | isFirst, x :: r => (if isFirst then " " else ", ") ++ toString x ++ strLoop false r

/-- `operator<<`: `"{" + … + "}"` -/
def toStr (v : Vec) : String := "{" ++ strLoop true v ++ "}"

/-- `boost::hash_detail::hash_mix` for 64-bit `size_t` (Boost 1.83, container_hash/detail/hash_mix.hpp) -/
def hashMix (x0 : UInt64) : UInt64 :=
  let m : UInt64 := ((0xe9846af : UInt64) <<< 32) + 0x9b1a615d
  let x := x0 ^^^ (x0 >>> 32)
  let x := x * m
  let x := x ^^^ (x >>> 32)
  let x := x * m
  x ^^^ (x >>> 28)

/-- `boost::hash_combine(seed, v)` for `size_t`: `seed = hash_mix(seed + 0x9e3779b9 + v)` -/
def hashCombine (seed : UInt64) (x : Nat) : UInt64 := hashMix (seed + 0x9e3779b9 + UInt64.ofNat x)

/-- `boost::hash_range` loop -/
def hashLoop : UInt64 → Vec → UInt64
  | seed, [] => seed
  | seed, x :: r => hashLoop (hashCombine seed x) r

/-- `hash_value(const OrdVector&)`: `boost::hash<std::vector<size_t>>()(vec_)` -/
def hashValue (v : Vec) : UInt64 := hashLoop 0 v

/-! ## histories: several live objects, operations and observations (the interpreter the driver replays) -/

inductive Op where
  | mkEmpty
  | mkVector (l : List Nat)
  | mkInitList (l : List Nat)
  | mkKey (x : Nat)
  | mkRange (l : List Nat)
  | copy (i : Nat)                 -- copy constructor into a new object
  | assign (i j : Nat)             -- `o[i] = o[j]` (i = j: self-assignment)
  | insert (i x : Nat)
  | insertAll (i j : Nat)          -- `o[i].insert(o[j])` (i = j allowed)
  | union (i j : Nat)              -- new object `o[i].Union(o[j])`
  | clear (i : Nat)
  deriving Repr

abbrev Pool := List Vec

def Pool.at (p : Pool) (i : Nat) : Vec := p.getD i []

def step (p : Pool) : Op → Pool
  | .mkEmpty => p ++ [mkEmpty]
  | .mkVector l => p ++ [ofVector l]
  | .mkInitList l => p ++ [ofInitList l]
  | .mkKey x => p ++ [ofKey x]
  | .mkRange l => p ++ [ofRange l]
  | .copy i => p ++ [p.at i]
  | .assign i j => p.set i (assign (i == j) (p.at i) (p.at j))
  | .insert i x => p.set i (insert (p.at i) x)
  | .insertAll i j => p.set i (insertAll (p.at i) (p.at j))
  | .union i j => p ++ [union (p.at i) (p.at j)]
  | .clear i => p.set i (clear (p.at i))

def run (ops : List Op) : Pool := ops.foldl step []

inductive Query where
  | size (i : Nat) | empty (i : Nat) | iterate (i : Nat) | toVector (i : Nat)
  | find (i x : Nat) | eq (i j : Nat) | lt (i j : Nat) | isSubsetOf (i j : Nat)
  | haveEmptyIntersection (i j : Nat) | haveEmptyIntersectionFixed (i j : Nat)
  | hash (i : Nat) | str (i : Nat)
  deriving Repr

inductive Ans where
  | nat (n : Nat) | bool (b : Bool) | list (l : List Nat) | optNat (o : Option Nat) | optBool (o : Option Bool)
  | u64 (h : UInt64) | str (s : String)
  deriving DecidableEq, Repr

def observe (p : Pool) : Query → Ans
  | .size i => .nat (size (p.at i))
  | .empty i => .bool (empty (p.at i))
  | .iterate i => .list (iterate (p.at i))
  | .toVector i => .list (toVector (p.at i))
  | .find i x => .optNat (find (p.at i) x)
  | .eq i j => .bool (eq (p.at i) (p.at j))
  | .lt i j => .bool (lt (p.at i) (p.at j))
  | .isSubsetOf i j => .bool (isSubsetOf (p.at i) (p.at j))
  | .haveEmptyIntersection i j => .optBool (haveEmptyIntersection (p.at i) (p.at j))
  | .haveEmptyIntersectionFixed i j => .bool (haveEmptyIntersectionFixed (p.at i) (p.at j))
  | .hash i => .u64 (hashValue (p.at i))
  | .str i => .str (toStr (p.at i))

/-! ## the abstract side: objects as finite sets (specification machine of the history theorem) -/

/-- an abstract object: any list read as a SET (order and multiplicity carry no meaning) -/
abbrev ASet := List Nat

def aStep (q : List ASet) : Op → List ASet
  | .mkEmpty => q ++ [[]]
  | .mkVector l => q ++ [l]
  | .mkInitList l => q ++ [l]
  | .mkKey x => q ++ [[x]]
  | .mkRange l => q ++ [l]
  | .copy i => q ++ [q.getD i []]
  | .assign i j => q.set i (q.getD j [])
  | .insert i x => q.set i (x :: q.getD i [])
  | .insertAll i j => q.set i (q.getD i [] ++ q.getD j [])
  | .union i j => q ++ [q.getD i [] ++ q.getD j []]
  | .clear i => q.set i []

def aRun (ops : List Op) : List ASet := ops.foldl aStep []

/-- Boolean form of the invariant on a read-back vector -/
def strictIncB : List Nat → Bool
  | [] => true
  | [_] => true
  | x :: y :: r => decide (x < y) && strictIncB (y :: r)

/-- the check the driver applies to what an iteration of the real object yields: strictly increasing and exactly the
members of the abstract set (`isEnumOf_iff`: equivalent to being THE increasing enumeration of the set) -/
def isEnumOf (c : List Nat) (a : ASet) : Bool :=
  strictIncB c && c.all (fun x => a.contains x) && a.all (fun x => c.contains x)

end Vata.OrdVec
