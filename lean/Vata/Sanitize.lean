import Vata.UnionModel
import Vata.InclUp
/-!
# Executable model of `SanitizeAutsForInclusion` (`include/vata/aut_base.hh`), property C01

Definitions only (core Lean, linked into the driver); the theorems are in `Vata/Proofs/Sanitize.lean`.

```
StateType stateCnt = 0;  StateToStateMap stateMap;
StateToStateTranslWeak stateTrans(stateMap, [&stateCnt](const StateType&){return stateCnt++;});
tmpAut = smaller.RemoveUselessStates();  newSmaller = tmpAut.ReindexStates(stateTrans);
tmpAut = bigger.RemoveUselessStates();   stateMap.clear();  newBigger = tmpAut.ReindexStates(stateTrans);
return stateCnt;
```

Both operands are trimmed (`removeUseless`) and then renumbered through a weak translator (`weakTrAll`,
`Vata/UnionModel.lean`) that shares ONE counter: the map is cleared between the operands, the counter is not.  Hence the
states of the first result are `0..k-1`, those of the second `k..n-1`, and `n` is returned.

`sanitizeOrd` takes the two visiting orders of `ReindexStates` as parameters (the C++ iterates hash containers);
`sanitize` uses the list order `visitOrder`.  `checkInclUpSan` is `CheckInclusion` (upward, no simulation) on the fully
sanitised operands – `checkInclUp` (`Vata/InclUp.lean`) leaves the renumbering out.
-/
namespace Vata

/-- trimmed operands `A'`, `B'` renumbered densely with one shared counter; returns the counter -/
def sanitizeOrd (oA oB : List Nat) (A' B' : TA) : TA × TA × Nat :=
  let a := weakTrAll oA [] 0
  let b := weakTrAll oB [] a.2
  (reindex (applyMap a.1) A', reindex (applyMap b.1) B', b.2)

/-- model of `SanitizeAutsForInclusion` -/
def sanitize (A B : TA) : TA × TA × Nat :=
  sanitizeOrd (visitOrder (removeUseless A)) (visitOrder (removeUseless B)) (removeUseless A) (removeUseless B)

/-- model of `CheckInclusion` with `ANTICHAINS_UP_NOSIM` on the sanitised (trimmed AND renumbered) operands -/
def checkInclUpSan (A B : TA) (fuel : Nat) : Option (Bool × InclUp.Cert) :=
  inclUp (sanitize A B).1 (sanitize A B).2.1 fuel

end Vata
