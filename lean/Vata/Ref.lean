import Vata.Lang
import Vata.Reduce
import Vata.Isect
/-!
# Executable reference procedures and Boolean checkers on explicit tree automata (L1 / L2 definitions)

Definitions only (core Lean, linked into the driver).  Their theorems are in `Vata/Proofs/*` and `Vata/Properties/*`.
-/
namespace Vata

/-- insertion keeping the list duplicate-free -/
def ins (x : Nat) (l : List Nat) : List Nat := if l.contains x then l else l ++ [x]
def unionL (l₁ l₂ : List Nat) : List Nat := l₂.foldl (fun acc x => ins x acc) l₁
def dedupL (l : List Nat) : List Nat := unionL [] l

def Rule.states (r : Rule) : List Nat := r.parent :: r.kids
def TA.states (A : TA) : List Nat := dedupL (A.rules.flatMap Rule.states ++ A.final)

/-- set-like equality of rule lists / automata -/
def rulesSub (R₁ R₂ : List Rule) : Bool := R₁.all (fun r => R₂.contains r)
def rulesEq (R₁ R₂ : List Rule) : Bool := rulesSub R₁ R₂ && rulesSub R₂ R₁
def taEq (A B : TA) : Bool := rulesEq A.rules B.rules && seteq A.final B.final
def nodupRules : List Rule → Bool
  | [] => true
  | r :: rs => !rs.contains r && nodupRules rs

/-! ### productive / reachable / useful -/

/-- one round of bottom-up productivity -/
def prodStep (A : TA) (P : List Nat) : List Nat :=
  unionL P ((A.rules.filter (fun r => r.kids.all (fun k => P.contains k))).map (·.parent))

def prodIter (A : TA) : Nat → List Nat → List Nat
  | 0, P => P
  | n+1, P => let P' := prodStep A P; if P'.length == P.length then P else prodIter A n P'

/-- the productive states (`|rules|+1` rounds always suffice; the closure check is in `isProdClosedB`) -/
def prodStates (A : TA) : List Nat := prodIter A (A.rules.length + 1) []

def isProdClosedB (A : TA) (P : List Nat) : Bool :=
  A.rules.all (fun r => !(r.kids.all (fun k => P.contains k)) || P.contains r.parent)

/-- one round of top-down reachability through the rules in `Rs` -/
def tdStep (Rs : List Rule) (S : List Nat) : List Nat :=
  unionL S ((Rs.filter (fun r => S.contains r.parent)).flatMap (·.kids))

def tdIter (Rs : List Rule) : Nat → List Nat → List Nat
  | 0, S => S
  | n+1, S => let S' := tdStep Rs S; if S'.length == S.length then S else tdIter Rs n S'

/-- states reachable top-down from the final states -/
def tdReach (A : TA) : List Nat := tdIter A.rules (A.rules.length + 1) (dedupL A.final)

def isTdClosedB (Rs : List Rule) (S : List Nat) : Bool :=
  Rs.all (fun r => !S.contains r.parent || r.kids.all (fun k => S.contains k))

/-- model of `RemoveUnreachableStates`: keep the rules whose parent is reachable; final states are kept as they are
(the C++ copies the final set unchanged) -/
def removeUnreachable (A : TA) : TA :=
  let S := tdReach A
  ⟨A.rules.filter (fun r => S.contains r.parent), A.final⟩

/-- model of `RemoveUselessStates`: restrict to productive states (rules and final states), then remove unreachable -/
def removeUseless (A : TA) : TA :=
  let P := prodStates A
  removeUnreachable ⟨A.rules.filter (fun r => P.contains r.parent && r.kids.all (fun k => P.contains k)),
    A.final.filter (fun q => P.contains q)⟩

/-- every state occurring in `A` is top-down reachable from a final state -/
def allReachableB (A : TA) : Bool := let S := tdReach A; A.states.all (fun q => S.contains q)

/-- useful states: productive and reachable from a final state through rules all of whose children are productive -/
def usefulStates (A : TA) : List Nat :=
  let P := prodStates A
  let Rs := A.rules.filter (fun r => P.contains r.parent && r.kids.all (fun k => P.contains k))
  tdIter Rs (Rs.length + 1) (dedupL (A.final.filter (fun q => P.contains q)))

/-- every state and every rule of `A` takes part in an accepting run -/
def allUsefulB (A : TA) : Bool :=
  let U := usefulStates A
  A.states.all (fun q => U.contains q) &&
  A.rules.all (fun r => U.contains r.parent && r.kids.all (fun k => U.contains k))

def isEmptyRef (A : TA) : Bool := !(A.final.any (fun q => (prodStates A).contains q))

/-! ### simulations (naive refinement) -/

abbrev Rel := List (Nat × Nat)

def allPairs (Q : List Nat) : Rel := Q.flatMap (fun q => Q.map (fun r => (q, r)))

def kidsRel (R : Rel) : List Nat → List Nat → Bool
  | [], [] => true
  | k :: ks, k' :: ks' => R.contains (k, k') && kidsRel R ks ks'
  | _, _ => false

def downOk (A : TA) (R : Rel) (q r : Nat) : Bool :=
  A.rules.all (fun ρ => ρ.parent != q ||
    A.rules.any (fun σ => σ.parent == r && σ.sym == ρ.sym && kidsRel R ρ.kids σ.kids))

def refineIter (ok : Rel → Nat → Nat → Bool) : Nat → Rel → Rel
  | 0, R => R
  | n+1, R => let R' := R.filter (fun p => ok R p.1 p.2); if R'.length == R.length then R else refineIter ok n R'

/-- greatest downward simulation on the states of `A` -/
def downSimRef (A : TA) : Rel :=
  let Q := A.states
  refineIter (downOk A) (Q.length * Q.length + 1) (allPairs Q)

def isDownSimB (A : TA) (R : Rel) : Bool := R.all (fun p => downOk A R p.1 p.2)

def setAt : List Nat → Nat → Nat → List Nat
  | [], _, _ => []
  | _ :: ks, 0, r => r :: ks
  | k :: ks, i+1, r => k :: setAt ks i r

def upOk (A : TA) (R : Rel) (q r : Nat) : Bool :=
  (!A.final.contains q || A.final.contains r) &&
  A.rules.all (fun ρ => (List.range ρ.kids.length).all (fun i => ρ.kids[i]? != some q ||
    A.rules.any (fun σ => σ.sym == ρ.sym && σ.kids == setAt ρ.kids i r && R.contains (ρ.parent, σ.parent))))

/-- greatest upward simulation (identity on siblings) on the states of `A` -/
def upSimRef (A : TA) : Rel :=
  let Q := A.states
  refineIter (upOk A) (Q.length * Q.length + 1) (allPairs Q)

def isUpSimB (A : TA) (R : Rel) : Bool := R.all (fun p => upOk A R p.1 p.2)

def relEq (R₁ R₂ : Rel) : Bool := R₁.all (fun p => R₂.contains p) && R₂.all (fun p => R₁.contains p)

/-! ### renaming -/

def applyMap (m : List (Nat × Nat)) (q : Nat) : Nat := (m.lookup q).getD q
def mapSym (g : Nat → Nat) (r : Rule) : Rule := ⟨g r.sym, r.kids, r.parent⟩
def translateSymbols (g : Nat → Nat) (A : TA) : TA := ⟨A.rules.map (mapSym g), A.final⟩

/-- model of `Union` given the two reported maps -/
def unionWith (fA fB : Nat → Nat) (A B : TA) : TA :=
  ⟨(reindex fA A).rules ++ (reindex fB B).rules, (reindex fA A).final ++ (reindex fB B).final⟩

def unionDisjoint (A B : TA) : TA := ⟨A.rules ++ B.rules, A.final ++ B.final⟩

end Vata
