import Vata.MtbddOps
import Vata.InclUp
/-!
# Abstraction of the symbolic bottom-up transition tables to rule sets (property C08)

What is modelled (`src/bdd_bu_tree_aut_core.{hh,cc}`, `src/bdd_bu_tt_wrapper.hh`, `src/bdd_bu_tree_aut_union.cc`,
`src/bdd_bu_tree_aut_isect.cc`):

* a transition table (`TransTableWrapper`) is the MTBDD `nullaryMtbdd_` for the empty tuple plus a map from non-empty
  children tuples to MTBDDs (`Table`; a tuple without an entry has the default MTBDD `leaf ∅`); `GetMtbdd` is
  `Table.get`, `SetMtbdd` is `Table.set`;
* an MTBDD is a `Vata.M.Node (List Nat)`: the variables are the bits of the symbol (`SymbolicVarAsgn(size, n)`: variable
  `i` is bit `i` of `n`, `SYMBOL_SIZE = 16`), a leaf is a SET of parent states (`OrdVector`, a sorted vector);
* the abstraction: the rule `f(tuple) → p` is in the automaton iff `p ∈ eval (GetMtbdd tuple) (bits of f)` (`HasRule`;
  stated for an arbitrary valuation `ρ` of the variables, `bits f` for a numbered symbol); `absRules`/`absBU` list
  these rules for given symbols (executable);
* the leaf operations: `UnionApplyFunctor` (`lhs.Union(rhs)`, `unionS`) and `IntersectionApplyFunctor` of
  `Intersection` (all `transl(p₁, p₂)`, `prodS`); the translator is a function `tr` here;
* `AddTransition(children, symbol, parent)`: `SetMtbdd(children, union(GetMtbdd(children), MTBDD(symbol, {parent}, ∅)))`
  (`addCube` for an assignment with don't-cares, `addTransition` for a numbered symbol; the copy-on-write of the table
  is the subject of `Vata/CowHeap*.lean`);
* `Union`: after the states were renumbered apart the tables are put together and the nullary MTBDDs are united
  (`unionDisj`); `unionT` is the general table-wise union;
* `Intersection`: for a pair of tuples of the operands and the tuple of product states
  `SetMtbdd(tuple, isect(lhsMtbdd, rhsMtbdd))` (`isectAt`); the work-list that finds the tuples is `Vata/IsectModel.lean`.

Definitions only (core Lean); the theorems are in `Vata/Proofs/BddAbs.lean`.
-/
namespace Vata
namespace BddAbs
open M

/-- a transition MTBDD: symbol bits ↦ set of parent states -/
abbrev MT := Node (List Nat)

/-- leaf operation of `UnionApplyFunctor` -/
def unionS (a b : List Nat) : List Nat := InclUp.normS (a ++ b)

/-- leaf operation of `IntersectionApplyFunctor` (`tr` = the translator of pairs to product states) -/
def prodS (tr : Nat × Nat → Nat) (a b : List Nat) : List Nat :=
  InclUp.normS (a.flatMap (fun x => b.map (fun y => tr (x, y))))

structure Table where
  nullary : MT
  entries : List (List Nat × MT)

/-- `BDDBottomUpTransTable::GetMtbdd`: the default is `leaf ∅` -/
def getE : List (List Nat × MT) → List Nat → MT
  | [], _ => .leaf []
  | (k, m) :: es, ks => if k = ks then m else getE es ks

/-- `BDDBottomUpTransTable::SetMtbdd` -/
def setE (es : List (List Nat × MT)) (ks : List Nat) (m : MT) : List (List Nat × MT) :=
  (ks, m) :: es.filter (fun e => e.1 != ks)

def Table.empty : Table := ⟨.leaf [], []⟩

/-- `TransTableWrapper::GetMtbdd` -/
def Table.get (T : Table) (ks : List Nat) : MT := if ks = [] then T.nullary else getE T.entries ks

/-- `TransTableWrapper::SetMtbdd` -/
def Table.set (T : Table) (ks : List Nat) (m : MT) : Table :=
  if ks = [] then ⟨m, T.entries⟩ else ⟨T.nullary, setE T.entries ks m⟩

/-- the tuples that have an MTBDD -/
def Table.keys (T : Table) : List (List Nat) := [] :: T.entries.map (·.1)

/-! ### symbols -/

/-- the valuation of the variables for the symbol number `f` -/
def bits (f : Nat) : Nat → Bool := fun i => f.testBit i

/-- `SymbolicVarAsgn(SYMBOL_SIZE, f)` -/
def symAsgn (f : Nat) : List (Option Bool) := (List.range 16).map (fun i => some (f.testBit i))

/-! ### the abstraction -/

/-- the rule `ρ(ks) → p` is in the table -/
def HasRule (T : Table) (ρ : Nat → Bool) (ks : List Nat) (p : Nat) : Prop := p ∈ eval (T.get ks) ρ

/-- the rules of the table over the symbols `syms` -/
def absRules (syms : List Nat) (T : Table) : List Rule :=
  T.keys.flatMap (fun ks => syms.flatMap (fun f => (eval (T.get ks) (bits f)).map (fun p => ⟨f, ks, p⟩)))

def absBU (syms : List Nat) (T : Table) (final : List Nat) : TA := ⟨absRules syms T, final⟩

/-! ### the operations -/

/-- `AddTransition` with a symbolic assignment (a cube of symbols) -/
def addCube (T : Table) (ks : List Nat) (asgn : List (Option Bool)) (p : Nat) : Table :=
  T.set ks (apply2 unionS (T.get ks) (construct asgn [p] []))

/-- `AddTransition(ks, f, p)` -/
def addTransition (T : Table) (ks : List Nat) (f : Nat) (p : Nat) : Table := addCube T ks (symAsgn f) p

/-- the encoding of a list of rules: `AddTransition` for each -/
def ofRules (rs : List Rule) : Table := rs.foldl (fun T r => addTransition T r.kids r.sym r.parent) Table.empty

/-- table-wise union -/
def unionT (T₁ T₂ : Table) : Table :=
  ⟨apply2 unionS T₁.nullary T₂.nullary,
   (T₁.entries.map (·.1) ++ T₂.entries.map (·.1)).map
     (fun k => (k, apply2 unionS (getE T₁.entries k) (getE T₂.entries k)))⟩

/-- `Union` of tables whose non-empty tuples are disjoint (the `SetMtbdd`s of the right operand come last) -/
def unionDisj (T₁ T₂ : Table) : Table :=
  ⟨apply2 unionS T₁.nullary T₂.nullary, T₂.entries ++ T₁.entries⟩

/-- `result.SetMtbdd(ks, isect(lhs.GetMtbdd(ks₁), rhs.GetMtbdd(ks₂)))` -/
def isectAt (tr : Nat × Nat → Nat) (T T₁ T₂ : Table) (ks₁ ks₂ ks : List Nat) : Table :=
  T.set ks (apply2 (prodS tr) (T₁.get ks₁) (T₂.get ks₂))

end BddAbs
end Vata
