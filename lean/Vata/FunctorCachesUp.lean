import Vata.InclUp
import Vata.CacheModel
/-!
# The upward tree inclusion algorithm WITH its caches (property C01)

`Vata/InclUp.lean` models `ExplicitUpwardInclusion::checkInternal` (`src/explicit_tree_incl_up.cc`, identity relation) with
macro-states compared by value.  Here the same work-list is modelled with the three caches of the code:

    CachedBinaryOp<const StateSet*, const StateSet*, bool> lteCache;
    CachedBinaryOp<pair<SymbolType, size_t>, const StateSet*, TransitionSetPtr> evalTransitionsCache;
    Cache<StateSet> biggerTypeCache([&](const StateSet* v) {
        lteCache.invalidateFirst(v); lteCache.invalidateSecond(v); evalTransitionsCache.invalidateSecond(v); });

Unlike the caches of the word-automata functors (`Vata/FunctorCaches.lean`) the interned objects DIE: a macro-state is held by
`shared_ptr`s (`BiggerType`) sitting in `processed`, `temporary`, `fixedList.front()` (`Q`) and the local `ptr`; when the last
one goes, `Cache::DeleteElementF` runs the user deleter and erases the object, and the allocator may hand its address to the
next macro-state.  The memo tables are keyed by addresses, so the deleter's wiring matters (`Vata/CacheModel.lean`,
`Vata/Properties/CacheWiring.lean`: the regenerated deleters denote `Wiring.lib`).

* `Heap`: `Cache::store_` as a list (address, value) of the LIVE objects, `lteCache`, `evalTransitionsCache` as `CM.BinOp`s (the
  tables with their two index maps, `lookup` / `invalidateFirst` / `invalidateSecond` transcribed in `Vata/CacheModel.lean`).
* reference counting is modelled by its effect: at every point where handles are dropped (`refine` erased pairs, `ptr` went out
  of scope, `Q` was overwritten, `temporary.clear()`) the objects no handle points to die (`hCollect`: user deleter, then
  `store_.erase`); there are no cycles, so this is what the counters do.  Between a drop and the `hCollect` that models it no
  object is created (a death inside `refine` only removes memo entries about the dead address; the remaining calls of that
  `refine` and of a following `contains` are about live objects).
* the allocator is a parameter: `pick live` proposes an address for a new object given the live ones; `allocA` takes it when
  it is free and the successor of the largest live address otherwise (any allocator is some `pick`).
* `lte` is the lambda of the code: pointer equality, otherwise `lteCache.lookup(x, y, noncachedLte)`; with the identity
  relation `noncachedLte(x, y)` is `*x ⊆ *y`.  `evalTransitions(symbol, i, S)` is `evalTransitionsCache.lookup((symbol, i), S, …)`;
  its value, the set of transitions of `B` with that symbol whose `i`-th child is in `*S`, is the list of their positions in
  `B.rules`.  The rank is part of a symbol in the library (the alphabet numbers pairs (name, rank)); `TA` has bare numbers and
  `post` checks the arity, so the key is `(symbol, rank, i)` here.
* the macro-state of a choice: `firstSet`, `intersectionByLookup` over the other positions, the parents of what is left, sorted
  (`macroPostC`).

Deviations shared with `Vata/InclUp.lean`: iteration orders (leaf rules one by one in list order – so `ptr` of the leaf phase is
acquired per leaf rule, the C++ acquires it once per symbol –, `temporary` merged in list order, third ordering criterion
of `next`), `checkIntersection(ind[q], tmp)` left out.

Definitions only (core Lean); theorems in `Vata/Proofs/FunctorCachesUp.lean`.
-/
namespace Vata
namespace FCU
open Vata.InclUp Vata.CM

/-- key of `evalTransitionsCache`: (symbol, rank, position) -/
abbrev EKey := Nat × Nat × Nat

/-- `noncachedEvalTransitions`: the transitions of `B` (positions in `B.rules`) with the symbol whose child at the position
is in `S` -/
def evalT (B : TA) (k : EKey) (S : List Nat) : List Nat :=
  (List.range B.rules.length).filter (fun r =>
    match B.rules[r]? with
    | some ρ => ρ.sym == k.1 && ρ.kids.length == k.2.1 &&
        (match ρ.kids[k.2.2]? with
         | some c => S.contains c
         | none => false)
    | none => false)

structure Heap where
  /-- `Cache::store_`: the live objects, (address, value) -/
  store : List (Nat × List Nat) := []
  /-- `lteCache` -/
  lte : BinOp Nat Nat Bool := {}
  /-- `evalTransitionsCache` -/
  ev : BinOp EKey Nat (List Nat) := {}

/-- the live addresses -/
def Heap.addrs (h : Heap) : List Nat := h.store.map (·.1)

/-- `*p` -/
def hval (h : Heap) (a : Nat) : List Nat :=
  match h.store.find? (fun o => o.1 == a) with
  | some o => o.2
  | none => []

/-- the address of a new object: the proposal if it is free, a fresh one otherwise -/
def allocA (pick : List Nat → Nat) (live : List Nat) : Nat :=
  if live.contains (pick live) then live.foldl max 0 + 1 else pick live

/-- `biggerTypeCache.lookup(v)` -/
def hLookup (pick : List Nat → Nat) (h : Heap) (v : List Nat) : Heap × Nat :=
  match h.store.find? (fun o => o.2 == v) with
  | some o => (h, o.1)
  | none => ({ h with store := h.store ++ [(allocA pick h.addrs, v)] }, allocA pick h.addrs)

/-- the lambda `lte` (with the identity relation `noncachedLte` is `⊆`) -/
def hLte (h : Heap) (a b : Nat) : Heap × Bool :=
  if a = b then (h, true)
  else
    let r := h.lte.lookup a b (fun x y => subB (hval h x) (hval h y))
    ({ h with lte := r.1 }, r.2)

/-- the lambda `evalTransitions` -/
def hEval (B : TA) (h : Heap) (k : EKey) (a : Nat) : Heap × List Nat :=
  let r := h.ev.lookup k a (fun k' y => evalT B k' (hval h y))
  ({ h with ev := r.1 }, r.2)

/-- the user deleter handed to `biggerTypeCache` -/
def deleter (w : Wiring) (h : Heap) (a : Nat) : Heap :=
  match w with
  | .lib => { h with lte := (h.lte.invalidateFirst a).invalidateSecond a, ev := h.ev.invalidateSecond a }
  | .firstTwice => { h with lte := (h.lte.invalidateFirst a).invalidateFirst a, ev := h.ev.invalidateSecond a }
  | .none => h

/-- the objects no handle in `roots` points to die: `deleter_(v)` for each, then `store_.erase(*v)` -/
def hCollect (w : Wiring) (roots : List Nat) (h : Heap) : Heap :=
  let h' := ((h.store.filter (fun o => !roots.contains o.1)).map (·.1)).foldl (deleter w) h
  { h' with store := h.store.filter (fun o => roots.contains o.1) }

/-! ### the antichains -/

/-- a pair `(q, S*)` with the ghost tree of `InclUp.Item` -/
structure UIt where
  q : Nat
  a : Nat
  t : Tree

/-- `Antichain2Cv2::contains({q}, ptr, lte)` -/
def acContains (q a : Nat) : List UIt → Heap → Heap × Bool
  | [], h => (h, false)
  | i :: P, h =>
    if i.q == q then
      let r := hLte h i.a a
      if r.2 then (r.1, true) else acContains q a P r.1
    else acContains q a P h

/-- `Antichain2Cv2::refine({q}, ptr, gte)`: the pairs that are left (`gte(P, Q) = lte(Q, P)`) -/
def acRefine (q a : Nat) : List UIt → Heap → Heap × List UIt
  | [], h => (h, [])
  | i :: P, h =>
    if i.q == q then
      let r := hLte h a i.a
      let r' := acRefine q a P r.1
      (r'.1, if r.2 then r'.2 else i :: r'.2)
    else
      let r' := acRefine q a P h
      (r'.1, i :: r'.2)

def itemLtC (h : Heap) (x y : UIt) : Bool :=
  (hval h x.a).length < (hval h y.a).length || ((hval h x.a).length == (hval h y.a).length && x.q < y.q)

def insNextC (h : Heap) (it : UIt) : List UIt → List UIt
  | [] => [it]
  | x :: l => if itemLtC h it x then it :: x :: l else x :: insNextC h it l

structure USt where
  processed : List UIt
  /-- the ordered set `next` (pairs `(q, iterator into processed)`) -/
  next : List UIt
  temporary : List UIt
  /-- `fixedList.front()` -/
  Q : Option Nat
  h : Heap

/-- the handles that exist between two statements -/
def USt.roots (s : USt) : List Nat := s.processed.map (·.a) ++ s.temporary.map (·.a) ++ s.Q.toList

/-- the dropped handles take effect -/
def USt.collect (w : Wiring) (s : USt) : USt := { s with h := hCollect w s.roots s.h }

/-- is the pair `(q, a)` (an iterator) among `l`? -/
def hasPair (l : List UIt) (i : UIt) : Bool := l.any (fun j => j.q == i.q && j.a == i.a)

/-- `if (processed.contains(..)) continue; processed.refine(.., Eraser(next)); processed.insert(..); next.insert(..)` -/
def addItemC (s : USt) (it : UIt) : USt :=
  let r1 := acContains it.q it.a s.processed s.h
  if r1.2 then { s with h := r1.1 }
  else
    let r2 := acRefine it.q it.a s.processed r1.1
    { s with processed := r2.2 ++ [it], next := insNextC r2.1 it (s.next.filter (hasPair r2.2)), h := r2.1 }

/-- the same for `temporary` -/
def addTmpC (s : USt) (it : UIt) : USt :=
  let r1 := acContains it.q it.a s.temporary s.h
  if r1.2 then { s with h := r1.1 }
  else
    let r2 := acRefine it.q it.a s.temporary r1.1
    { s with temporary := r2.2 ++ [it], h := r2.1 }

/-! ### leaf phase -/

def leafPhaseC (w : Wiring) (pick : List Nat → Nat) (A B : TA) : List Rule → USt → Res USt
  | [], s => .ok s
  | ρ :: ρs, s =>
    if ρ.kids.isEmpty then
      let S := macroPost B ρ.sym []
      if !accepting B S && A.final.contains ρ.parent then .error (ρ.parent, .node ρ.sym [])
      else
        let l := hLookup pick s.h S
        leafPhaseC w pick A B ρs ((addItemC { s with h := l.1 } ⟨ρ.parent, l.2, .node ρ.sym []⟩).collect w)
    else leafPhaseC w pick A B ρs s

/-! ### the post-image step -/

def choicesAllC (P : List UIt) : List Nat → List (List UIt)
  | [] => [[]]
  | k :: ks => (P.filter (fun i => i.q == k)).flatMap (fun i => (choicesAllC P ks).map (fun is => i :: is))

def choicesAtC (P : List UIt) (it : UIt) : List Nat → Nat → List (List UIt)
  | [], _ => [[]]
  | _ :: ks, 0 => (choicesAllC P ks).map (fun is => it :: is)
  | k :: ks, j+1 => (P.filter (fun i => i.q == k)).flatMap (fun i => (choicesAtC P it ks j).map (fun is => i :: is))

/-- `evalTransitions(symbol, k, choiceVector(k).get())` for all positions -/
def evalAll (B : TA) (f n : Nat) : List Nat → Nat → Heap → Heap × List (List Nat)
  | [], _, h => (h, [])
  | a :: as, k, h =>
    let r := hEval B h (f, n, k) a
    let r' := evalAll B f n as (k + 1) r.1
    (r'.1, r.2 :: r'.2)

/-- `biggerTransitions(firstSet)`, then `intersectionByLookup` with the other sets -/
def interAll : List (List Nat) → List Nat
  | [] => []
  | s :: ss => ss.foldl (fun cur s' => cur.filter (fun x => s'.contains x)) s

/-- the states of the transitions that are left (`post`), sorted -/
def parentsOf (B : TA) (rs : List Nat) : List Nat :=
  rs.filterMap (fun r => (B.rules[r]?).map (·.parent))

def macroPostC (B : TA) (h : Heap) (f : Nat) (as : List Nat) : Heap × List Nat :=
  let r := evalAll B f as.length as 0 h
  (r.1, normS (parentsOf B (interAll r.2)))

/-- the body of the `do … while (choiceVector.next())` loop for one choice; `ptr` dies at the end of the iteration -/
def stepChoiceC (w : Wiring) (pick : List Nat → Nat) (A B : TA) (ρ : Rule) (s : USt) (is : List UIt) : Res USt :=
  let r := macroPostC B s.h ρ.sym (is.map (·.a))
  let t' := Tree.node ρ.sym (is.map (·.t))
  if r.2.isEmpty then .error (ρ.parent, t')
  else if !accepting B r.2 && A.final.contains ρ.parent then .error (ρ.parent, t')
  else
    let l := hLookup pick r.1 r.2
    .ok ((addTmpC { s with h := l.1 } ⟨ρ.parent, l.2, t'⟩).collect w)

def stepChoicesC (w : Wiring) (pick : List Nat → Nat) (A B : TA) (ρ : Rule) : List (List UIt) → USt → Res USt
  | [], s => .ok s
  | is :: iss, s =>
    match stepChoiceC w pick A B ρ s is with
    | .error e => .error e
    | .ok s' => stepChoicesC w pick A B ρ iss s'

/-- the merge of `temporary` into `processed` / `next` -/
def mergeC (w : Wiring) : List UIt → USt → USt
  | [], s => s
  | i :: is, s => mergeC w is ((addItemC s i).collect w)

/-- one rule of `A` with the picked pair at position `j`; `temporary.clear()` at the end -/
def procTaskC (w : Wiring) (pick : List Nat → Nat) (A B : TA) (it : UIt) (ρ : Rule) (j : Nat) (s : USt) : Res USt :=
  match stepChoicesC w pick A B ρ (choicesAtC s.processed it ρ.kids j) s with
  | .error e => .error e
  | .ok s' => .ok ({ mergeC w s'.temporary s' with temporary := [] }.collect w)

def procTasksC (w : Wiring) (pick : List Nat → Nat) (A B : TA) (it : UIt) : List (Rule × Nat) → USt → Res USt
  | [], s => .ok s
  | (ρ, j) :: ts, s =>
    match procTaskC w pick A B it ρ j s with
    | .error e => .error e
    | .ok s' => procTasksC w pick A B it ts s'

/-- `while (!next.empty())`: `Q = *next.begin()->second` overwrites the handle of the previous round -/
def loopC (w : Wiring) (pick : List Nat → Nat) (A B : TA) : Nat → USt → Option (Res USt)
  | 0, _ => none
  | n+1, s =>
    match s.next with
    | [] => some (.ok s)
    | it :: rest =>
      match procTasksC w pick A B it (tasks A it.q) ({ s with next := rest, Q := some it.a }.collect w) with
      | .error e => some (.error e)
      | .ok s' => loopC w pick A B n s'

def runC (w : Wiring) (pick : List Nat → Nat) (A B : TA) (fuel : Nat) : Option (Res USt) :=
  match sizeExit A B with
  | some ρ => some (.error (ρ.parent, .node ρ.sym []))
  | none =>
    match leafPhaseC w pick A B A.rules ⟨[], [], [], none, {}⟩ with
    | .error e => some (.error e)
    | .ok s => loopC w pick A B fuel s

def UIt.deref (h : Heap) (i : UIt) : Item := ⟨i.q, hval h i.a, i.t⟩

/-- what the caller sees of a run -/
def viewU : Option (Res USt) → Option (Res (List Item))
  | none => none
  | some (.error e) => some (.error e)
  | some (.ok s) => some (.ok (s.processed.map (UIt.deref s.h)))

/-- the certifying end of `inclUp` -/
def finishUp (A B : TA) : Option (Res (List Item)) → Option (Bool × Cert)
  | none => none
  | some (.ok P) =>
    let X := P.map (fun i => (i.q, i.S))
    if upCertB A B X then some (true, .closed X) else none
  | some (.error (q, t)) =>
    let w := complete A q t
    if accepts A w && !accepts B w then some (false, .witness w) else none

/-- the upward algorithm with its caches, certify-then-trust as `inclUp` -/
def inclUpC (w : Wiring) (pick : List Nat → Nat) (A B : TA) (fuel : Nat) : Option (Bool × Cert) :=
  finishUp A B (viewU (runC w pick A B fuel))

/-- `CheckInclusion` with `ANTICHAINS_UP_NOSIM`, caches included -/
def checkInclUpC (w : Wiring) (pick : List Nat → Nat) (A B : TA) (fuel : Nat) : Option (Bool × Cert) :=
  inclUpC w pick (removeUseless A) (removeUseless B) fuel

def rawVerdictU : Option (Res USt) → Option Bool
  | none => none
  | some (.ok _) => some true
  | some (.error _) => some false

/-- an allocator that recycles at once: the least free address -/
def pickLeast (live : List Nat) : Nat := ((List.range (live.length + 1)).find? (fun a => !live.contains a)).getD 0

/-- the invariant of the two memo tables as a test: every entry is about live objects and holds the value of the memoised
function on them -/
def heapOKB (B : TA) (h : Heap) : Bool :=
  h.lte.store.all (fun e => h.addrs.contains e.1.1 && h.addrs.contains e.1.2 &&
    e.2 == subB (hval h e.1.1) (hval h e.1.2)) &&
  h.ev.store.all (fun e => h.addrs.contains e.1.2 && e.2 == evalT B e.1.1 (hval h e.1.2))

/-- the heap at the end of a run that returns `true` -/
def finalHeap : Option (Res USt) → Option Heap
  | some (.ok s) => some s.h
  | _ => none

end FCU
end Vata
