import Vata.CowHeapX
import Vata.StoreInterned
/-!
# Several NAMED automata sharing tuple sets copy-on-write over ONE tuple cache (properties C11 / C12) – executable model

`Vata/CowHeap3.lean` / `Vata/CowHeapX.lean` model the `shared_ptr` plumbing of `ExplicitTreeAutCore::transitions_`
(handle → map node → cluster node → tuple-set node) with tuple sets of tuple VALUES.  `Vata/StoreInterned.lean` models ONE
automaton whose tuple sets hold identities of the process-wide tuple cache.  Here the two are put together:

    using TuplePtr       = std::shared_ptr<StateTuple>;          // identity of an entry of globalTupleCache_
    using TuplePtrSet    = std::set<TuplePtr>;                   // compared BY POINTER
    using TuplePtrSetPtr = std::shared_ptr<TuplePtrSet>;         // shared copy-on-write between automata

* the heap is literally `CowHeap3.Heap` (inside `CowHeapX.HeapX` for `finalStates_`); a tuple-set node holds the one-element
  lists `[p]` (`cell p`) where `p` is the address of the interned tuple: `insTuple [p]` compares the POINTERS;
* the cache is literally `StoreI.CacheSt` (= `CM.Sys.store`) with `lookupC` / `acquireC` / `releaseC` of
  `Vata/StoreInterned.lean` (arbitrary allocator: the address `ch` offered for a new node is part of the call; the call is
  `none` iff `ch` is the address of a live tuple);
* every heap primitive that in the C++ touches `TuplePtr`s is THREADED with its effect on the cache:
  - `~TuplePtrSet()` (run when the last `TuplePtrSetPtr` goes away – inside `releaseTs`) destroys every `TuplePtr` of the set:
    `releaseTsI`, and with it the cascades `releaseClusterI`, `releaseMapI` (destructor of a cluster / of a map node);
  - `new TuplePtrSet(*tupleSet)` (`uniqueTuplePtrSet`, the set is shared) copies every `TuplePtr`: one `acquireC` each;
  - `set::insert(p)` copies `p` into the new tree node iff no equal pointer is there: `acquireC` iff not contained;
  all other primitives (`allocMap`, `allocCluster`, `setEntry`, …) copy / release `shared_ptr`s to NODES only, the cache is not
  touched – in particular a copy / an assignment of an automaton touches no tuple pointer at all.
* `Sys.ext` : `TuplePtr`s held outside of tuple sets (temporaries, locals such as the `info->children_` of
  `RemoveUselessStates`), with `envLookup` / `envCopy` / `envRelease`.

`Mode.lib` is the library.  `Mode.rawCopy` (regression only): `new TuplePtrSet(*tupleSet)` duplicates the set WITHOUT acquiring
the pointers (as if the set held raw pointers while being copied).
-/
namespace Vata.CowI
open Vata.Store (upsert insN insTuple TupleSet)
open Vata.CM (aget aset adel byId)
open Vata.CowHeap (upd)
open Vata.CowHeap3 (Heap allocMap incMap retarget addHandle dropHandle allocCluster setEntry clearEntries allocTs
  setCEntry writeTs releaseTs releaseCluster releaseMap mout cout)
open Vata.CowHeapX (HeapX stepX)
open Vata.StoreI (CacheSt lookupC acquireC releaseC derefC)

inductive Mode
  /-- the library -/
  | lib
  /-- `new TuplePtrSet(*tupleSet)` without taking references to the tuples -/
  | rawCopy
deriving DecidableEq, Repr

/-- heap and tuple cache, threaded through the primitives -/
abbrev HC := Heap × CacheSt

/-- the element of a tuple set that stands for the `TuplePtr` with address `p` -/
def cell (p : Nat) : List Nat := [p]

/-- the `TuplePtr`s stored in a tuple set -/
def idsOf (d : TupleSet) : List Nat := d.flatten

/-- all `TuplePtr`s stored in live tuple-set nodes – every SHARED set counted ONCE -/
def refsT (H : Heap) : List Nat := H.tl.flatMap (fun t => idsOf (H.tdat t))

/-! ### releases -/

/-- `TuplePtrSetPtr` released; `--use_count == 0` ⇒ `~TuplePtrSet()` : every `TuplePtr` in it is destroyed -/
def releaseTsI (S : HC) (t : Nat) : HC :=
  (releaseTs S.1 t,
   if S.1.trc t - 1 = 0 then (idsOf (S.1.tdat t)).foldl (releaseC .lib) S.2 else S.2)

/-- `TransitionClusterPtr` released: `--use_count == 0` ⇒ the cluster is deleted, which releases its tuple sets -/
def releaseClusterI (S : HC) (c : Nat) : HC :=
  if S.1.crc c - 1 = 0 then
    (cout S.1 c).foldl releaseTsI ({ S.1 with cl := S.1.cl.erase c, crc := upd S.1.crc c 0 }, S.2)
  else ({ S.1 with crc := upd S.1.crc c (S.1.crc c - 1) }, S.2)

/-- `StateToTransitionClusterMapPtr` released -/
def releaseMapI (S : HC) (m : Nat) : HC :=
  if S.1.mrc m - 1 = 0 then
    (mout S.1 m).foldl releaseClusterI ({ S.1 with ml := S.1.ml.erase m, mrc := upd S.1.mrc m 0 }, S.2)
  else ({ S.1 with mrc := upd S.1.mrc m (S.1.mrc m - 1) }, S.2)

/-! ### the `unique…` chain -/

/-- `uniqueClusterMap()` : a clone of the map node copies cluster POINTERS only -/
def uniqueMapI (S : HC) (h : Nat) : HC :=
  let m := S.1.hmap h
  if S.1.mrc m = 1 then S else releaseMapI (retarget (allocMap S.1 (S.1.ment m)) h S.1.next, S.2) m

/-- `uniqueCluster(q)` : a clone of a cluster copies tuple-set POINTERS only -/
def uniqueClusterI (S : HC) (m q : Nat) : HC × Nat :=
  match (S.1.ment m).lookup q with
  | none => ((setEntry (allocCluster S.1 []) m q S.1.next, S.2), S.1.next)
  | some c =>
    if S.1.crc c = 1 then (S, c)
    else (releaseClusterI (setEntry (allocCluster S.1 (S.1.cent c)) m q S.1.next, S.2) c, S.1.next)

/-- `uniqueTuplePtrSet(f)->insert(p)` on the cluster node `c`:

        if (!tupleSet)               tupleSet = TuplePtrSetPtr(new TuplePtrSet());
        else if (!tupleSet.unique()) tupleSet = TuplePtrSetPtr(new TuplePtrSet(*tupleSet));   // copies every TuplePtr
        … ->insert(children);                                                                // copies `children` iff new -/
def addToClusterUniqueI (md : Mode) (S : HC) (c f p : Nat) : HC :=
  match (S.1.cent c).lookup f with
  | none => (setCEntry (allocTs S.1 (insTuple (cell p) [])) c f S.1.next, acquireC S.2 p)
  | some ts =>
    let ins := fun (k : CacheSt) => if (S.1.tdat ts).contains (cell p) then k else acquireC k p
    if S.1.trc ts = 1 then (writeTs S.1 ts (insTuple (cell p) (S.1.tdat ts)), ins S.2)
    else
      let k₁ := if md = .rawCopy then S.2 else (idsOf (S.1.tdat ts)).foldl acquireC S.2
      releaseTsI (setCEntry (allocTs S.1 (insTuple (cell p) (S.1.tdat ts))) c f S.1.next, ins k₁) ts

/-- `uniqueCluster(q)->uniqueTuplePtrSet(f)->insert(p)` on the (unique) map of `h` -/
def addUniqueI (md : Mode) (S : HC) (h q f p : Nat) : HC :=
  let r := uniqueClusterI S (S.1.hmap h) q
  addToClusterUniqueI md r.1 r.2 f p

/-- `internalAddTransition(p, f, q)` on the live handle `h` -/
def internalAddI (md : Mode) (S : HC) (h q f p : Nat) : HC := addUniqueI md (uniqueMapI S h) h q f p

/-! ### operations whose release cascades may reach tuple sets -/

/-- `dst = src` (`transitions_ = rhs.transitions_`) -/
def assignI (S : HC) (src dst : Nat) : HC :=
  if src ∈ S.1.hl ∧ dst ∈ S.1.hl ∧ src ≠ dst then
    releaseMapI (retarget (incMap S.1 (S.1.hmap src)) dst (S.1.hmap src), S.2) (S.1.hmap dst)
  else S

/-- the transition half of `Clear()` -/
def clearI (S : HC) (h : Nat) : HC :=
  if h ∈ S.1.hl then
    let m := S.1.hmap h
    if S.1.mrc m = 1 then (mout S.1 m).foldl releaseClusterI (clearEntries S.1 m, S.2)
    else releaseMapI (retarget (allocMap S.1 []) h S.1.next, S.2) m
  else S

/-- `~ExplicitTreeAutCore()` -/
def destroyI (S : HC) (h : Nat) : HC :=
  if h ∈ S.1.hl then releaseMapI (dropHandle S.1 h, S.2) (S.1.hmap h) else S

/-! ### the system -/

structure Sys where
  /-- the automata: the three-level copy-on-write heap (tuple sets hold `cell p`) and the `finalStates_` members -/
  hx : HeapX
  /-- `globalTupleCache_.store_` -/
  cache : CacheSt
  /-- `TuplePtr`s held outside of tuple sets -/
  ext : List Nat

def init : Sys := ⟨CowHeapX.initX, [], []⟩

inductive Op where
  /-- default constructor of automaton `h` -/
  | new (h : Nat)
  /-- copy constructor `dst(src)` -/
  | copy (src dst : Nat)
  /-- `dst = src` -/
  | assign (src dst : Nat)
  /-- destructor -/
  | destroy (h : Nat)
  /-- `h.AddTransition(r.kids, r.sym, r.parent)`; `ch` = the address the allocator offers if a cache node is created -/
  | add (h : Nat) (r : Rule) (ch : Nat)
  /-- `h.internalAddTransition(p, f, q)` with a `TuplePtr` `p` held by the caller (`RemoveUselessStates`,
      `explicit_tree_candidate.cc`: `result.internalAddTransition(info->children_, info->symbol_, info->state_)`) -/
  | addPtr (h q f p : Nat)
  /-- `h.Clear()` -/
  | clear (h : Nat)
  /-- `h.SetStateFinal(q)` -/
  | setFinal (h q : Nat)
  /-- somebody interns a tuple and keeps the pointer -/
  | envLookup (t : List Nat) (ch : Nat)
  /-- somebody copies a `TuplePtr` that is stored in a live tuple set or held outside (`info->children_ = *tupleIter`) -/
  | envCopy (p : Nat)
  /-- somebody drops one of its pointers -/
  | envRelease (p : Nat)
deriving Repr, DecidableEq

/-- the members `finalStates_` after a heap operation (as in `CowHeapX.stepX`) -/
def withCore (s : Sys) (S : HC) (fin : Nat → List Nat) : Sys := { s with hx := ⟨S.1, fin⟩, cache := S.2 }

/-- one call; `none` = the allocator choice is impossible (the address of a live tuple).
    Calls on dead automata / constructors over live ones / pointers the caller does not hold are not C++ programs: no-ops. -/
def stepC (md : Mode) (s : Sys) : Op → Option Sys
  | .new h => some { s with hx := stepX s.hx (.new h) }
  | .copy src dst => some { s with hx := stepX s.hx (.copy src dst true true) }
  | .assign src dst =>
    some (withCore s (assignI (s.hx.core, s.cache) src dst)
      (if src ∈ s.hx.core.hl ∧ dst ∈ s.hx.core.hl ∧ src ≠ dst then upd s.hx.fin dst (s.hx.fin src) else s.hx.fin))
  | .destroy h => some (withCore s (destroyI (s.hx.core, s.cache) h) s.hx.fin)
  | .add h r ch =>
    if h ∈ s.hx.core.hl then
      -- the temporary `tupleLookup(children)`; `internalAddTransition`; the temporary dies
      match lookupC s.cache r.kids ch with
      | none => none
      | some (c₁, p) =>
        let S := internalAddI md (s.hx.core, c₁) h r.parent r.sym p
        some (withCore s (S.1, releaseC .lib S.2 p) s.hx.fin)
    else some s
  | .addPtr h q f p =>
    if h ∈ s.hx.core.hl ∧ p ∈ s.ext then
      some (withCore s (internalAddI md (s.hx.core, s.cache) h q f p) s.hx.fin)
    else some s
  | .clear h =>
    some (withCore s (clearI (s.hx.core, s.cache) h) (if h ∈ s.hx.core.hl then upd s.hx.fin h [] else s.hx.fin))
  | .setFinal h q => some { s with hx := stepX s.hx (.setFinal h q) }
  | .envLookup t ch =>
    match lookupC s.cache t ch with
    | none => none
    | some (c₁, p) => some { s with cache := c₁, ext := p :: s.ext }
  | .envCopy p =>
    if p ∈ refsT s.hx.core ++ s.ext then some { s with cache := acquireC s.cache p, ext := p :: s.ext } else some s
  | .envRelease p =>
    if p ∈ s.ext then some { s with cache := releaseC .lib s.cache p, ext := s.ext.erase p } else some s

def runFrom (md : Mode) : Sys → List Op → Option Sys
  | s, [] => some s
  | s, op :: ops =>
    match stepC md s op with
    | none => none
    | some s' => runFrom md s' ops

/-- a history from the empty process (no automaton, empty cache) -/
def run (md : Mode) (ops : List Op) : Option Sys := runFrom md init ops

/-- the same call with the address `ch` offered by the allocator -/
def setChoice (ch : Nat) : Op → Op
  | .add h r _ => .add h r ch
  | .envLookup t _ => .envLookup t ch
  | op => op

/-- a history played against an allocator that decides from the set of live addresses (addresses in `ops` are ignored) -/
def runA (md : Mode) (alloc : List Nat → Nat) : Sys → List Op → Option Sys
  | s, [] => some s
  | s, op :: ops =>
    match stepC md s (setChoice (alloc (StoreI.liveIds s.cache)) op) with
    | none => none
    | some s' => runA md alloc s' ops

/-! ### what the automata denote -/

/-- `**tupleIterator_` for an element of a tuple set -/
def derefCell (c : CacheSt) (l : List Nat) : List Nat := l.flatMap (derefC c)

/-- the value store seen through the pointers -/
def derefS (c : CacheSt) (s : Store.Store) : Store.Store :=
  ⟨s.clusters.map (fun qc => (qc.1, qc.2.map (fun ft => (ft.1, ft.2.map (derefCell c))))), s.final⟩

/-- automaton name ⇀ the value (`Store.Store`: rules with tuple VALUES, final states) it denotes -/
def absV (s : Sys) : Nat → Option Store.Store := fun h => (CowHeapX.absX s.hx h).map (derefS s.cache)

/-- the call at the level of independent automaton VALUES (`none`: invisible).  For `addPtr` the tuple is what the pointer
    of the caller denotes at the time of the call (`*info->children_`). -/
def valOp (s : Sys) : Op → Option CowHeapX.HOpX
  | .new h => some (.new h)
  | .copy src dst => some (.copy src dst true true)
  | .assign src dst => some (.assign src dst)
  | .destroy h => some (.destroy h)
  | .add h r _ => some (.add h r.parent (r.sym, r.kids))
  | .addPtr h q f p => if p ∈ s.ext then some (.add h q (f, derefC s.cache p)) else none
  | .clear h => some (.clear h)
  | .setFinal h q => some (.setFinal h q)
  | _ => none

/-- the value-level calls of a history (read off along the run of the library) -/
def valOps : Sys → List Op → List CowHeapX.HOpX
  | _, [] => []
  | s, op :: ops =>
    (valOp s op).toList ++ (match stepC .lib s op with
                            | none => []
                            | some s' => valOps s' ops)

/-- the value-level call of a call that brings no pointer of its own (state independent) -/
def valOp0 : Op → Option CowHeapX.HOpX
  | .new h => some (.new h)
  | .copy src dst => some (.copy src dst true true)
  | .assign src dst => some (.assign src dst)
  | .destroy h => some (.destroy h)
  | .add h r _ => some (.add h r.parent (r.sym, r.kids))
  | .clear h => some (.clear h)
  | .setFinal h q => some (.setFinal h q)
  | _ => none

def noPtr : Op → Bool
  | .addPtr _ _ _ _ => false
  | _ => true

/-- the call of the `cell`-level heap `CowHeapX.stepX` that `stepC` performs on the heap (needs the state: the pointer) -/
def heapOp (s : Sys) : Op → Option CowHeapX.HOpX
  | .new h => some (.new h)
  | .copy src dst => some (.copy src dst true true)
  | .assign src dst => some (.assign src dst)
  | .destroy h => some (.destroy h)
  | .add h r ch => (lookupC s.cache r.kids ch).map (fun x => .add h r.parent (r.sym, cell x.2))
  | .addPtr h q f p => if p ∈ s.ext then some (.add h q (f, cell p)) else none
  | .clear h => some (.clear h)
  | .setFinal h q => some (.setFinal h q)
  | _ => none

/-! ### the invariant as a test (for the driver) -/

/-- use count of every cache entry = number of tuple-set cells holding it (shared sets once) + outside holders -/
def invB (s : Sys) : Bool :=
  CowHeapX.invBX s.hx && StoreI.cacheInvB s.cache (refsT s.hx.core ++ s.ext)

/-- some tuple-set cell holds the address of a tuple that is not in the cache any more -/
def danglingB (s : Sys) : Bool := (refsT s.hx.core).any (fun p => (byId s.cache p).isNone)

end Vata.CowI
