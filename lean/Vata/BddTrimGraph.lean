import Vata.BddAbsTD
/-!
# `Util::Graph` (`src/util/graph.hh`) and `Util::TwoWayDict` as used by the symbolic trimming (property C08)

```
class Graph { typedef uintptr_t NodeType; typedef std::set<NodeType> EdgeContainer;
  struct InternalNode { EdgeContainer ingressEdges; EdgeContainer egressEdges; };
  NodeType AddNode()            { InternalNode* node = new InternalNode; nodes_.insert(node); return internalToNode(node); }
  void AddEdge(src, dst)        { nodeToInternal(src)->egressEdges.insert(dst); nodeToInternal(dst)->ingressEdges.insert(src); }
  static EdgeContainer& GetIngress(node) / GetEgress(node) };
```

A node is the address of its `InternalNode`; the model numbers the nodes in the order of their allocation (`size` = the number
of `AddNode` calls so far).  The two `std::set`s of a node are duplicate-free lists (`ins`: `std::set::insert`; the iteration
order of the C++, the order of the addresses, is replaced by the insertion order – the results proved do not depend on it).
`GetIngress(n).erase(x)` / `GetEgress(n).erase(x)` are `eraseIng` / `eraseEgr`.  Definitions only.
-/
namespace Vata
namespace BddTrimCoded

/-- `Util::Graph`: the number of allocated nodes and, for every node, `ingressEdges` and `egressEdges` -/
structure Graph where
  size : Nat
  ing : Nat → List Nat
  egr : Nat → List Nat

def Graph.empty : Graph := ⟨0, fun _ => [], fun _ => []⟩

/-- `AddNode`: the new node (its sets are empty) -/
def Graph.addNode (G : Graph) : Graph × Nat := (⟨G.size + 1, G.ing, G.egr⟩, G.size)

/-- `AddEdge(src, dst)` -/
def Graph.addEdge (G : Graph) (src dst : Nat) : Graph :=
  ⟨G.size, fun n => if n = dst then ins src (G.ing n) else G.ing n,
    fun n => if n = src then ins dst (G.egr n) else G.egr n⟩

/-- `GetIngress(n).erase(x)` -/
def Graph.eraseIng (G : Graph) (n x : Nat) : Graph :=
  ⟨G.size, fun m => if m = n then (G.ing m).filter (fun y => y != x) else G.ing m, G.egr⟩

/-- `GetEgress(n).erase(x)` -/
def Graph.eraseEgr (G : Graph) (n x : Nat) : Graph :=
  ⟨G.size, G.ing, fun m => if m = n then (G.egr m).filter (fun y => y != x) else G.egr m⟩

/-- `TwoWayDict::FindBwd(v)`: the node of a value (a dictionary is the list of its pairs (node, value)) -/
def findBwd {β : Type} [BEq β] (d : List (Nat × β)) (v : β) : Option Nat := (d.find? (fun e => e.2 == v)).map (·.1)

/-- `TwoWayDict::FindFwd(n)` -/
def findFwd {β : Type} (d : List (Nat × β)) (n : Nat) : Option β := (d.find? (fun e => e.1 == n)).map (·.2)

end BddTrimCoded
end Vata
