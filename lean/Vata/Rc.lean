/-! feasibility probe (throw-away): reference-counted node store, recursive release keeps the counting invariant -/
namespace Vata.R

inductive Data where
  | leaf (v : Nat)
  | int (lo hi var : Nat)
deriving DecidableEq

def contrib (dat : Nat → Data) (n m : Nat) : Nat :=
  match dat m with
  | .leaf _ => 0
  | .int lo hi _ => (if lo = n then 1 else 0) + (if hi = n then 1 else 0)

theorem contrib_leaf {dat : Nat → Data} {m v : Nat} (h : dat m = .leaf v) (n : Nat) : contrib dat n m = 0 := by
  unfold contrib; rw [h]
theorem contrib_int {dat : Nat → Data} {m lo hi var : Nat} (h : dat m = .int lo hi var) (n : Nat) :
    contrib dat n m = (if lo = n then 1 else 0) + (if hi = n then 1 else 0) := by
  unfold contrib; rw [h]

theorem le_sum_of_mem : ∀ (l : List Nat) (a : Nat), a ∈ l → a ≤ l.sum
  | [], _, h => by simp at h
  | b :: l, a, h => by
    rcases List.mem_cons.mp h with rfl | h
    · simp
    · have := le_sum_of_mem l a h; simp only [List.sum_cons]; omega

/-- number of references to `n` from the allocated internal nodes `ids` -/
def indegL (ids : List Nat) (dat : Nat → Data) (n : Nat) : Nat := (ids.map (contrib dat n)).sum

def cnt (x : Nat) (l : List Nat) : Nat := l.count x

theorem cnt_cons (x y : Nat) (l : List Nat) : cnt x (y :: l) = (if y = x then 1 else 0) + cnt x l := by
  simp only [cnt, List.count_cons, beq_iff_eq]; omega

theorem indegL_erase (dat : Nat → Data) (x n : Nat) : ∀ (ids : List Nat), n ∈ ids → ids.Nodup →
    indegL (ids.erase n) dat x + contrib dat x n = indegL ids dat x
  | [], h, _ => by simp at h
  | m :: ms, h, hnd => by
    by_cases e : m = n
    · subst e
      simp only [List.erase_cons_head, indegL, List.map_cons, List.sum_cons]
      omega
    · have hn' : n ∈ ms := by
        rcases List.mem_cons.mp h with h | h
        · exact absurd h.symm e
        · exact h
      have hnd' : ms.Nodup := (List.nodup_cons.mp hnd).2
      have ih := indegL_erase dat x n ms hn' hnd'
      rw [List.erase_cons_tail (by simpa using e)]
      simp only [indegL, List.map_cons, List.sum_cons] at ih ⊢
      omega

structure Store where
  ids  : List Nat               -- allocated node ids (no duplicates)
  dat  : Nat → Data             -- contents (meaningful on `ids`)
  rc   : Nat → Nat              -- reference counters
  roots : List Nat              -- roots held by live handles (with multiplicity)

/-- the counting invariant with a multiset of pending decrements -/
def J (ids : List Nat) (dat : Nat → Data) (rc : Nat → Nat) (roots pending : List Nat) : Prop :=
  ∀ n, n ∈ ids → rc n = indegL ids dat n + cnt n roots + cnt n pending

def decrRc (rc : Nat → Nat) (n : Nat) : Nat → Nat := fun x => if x = n then rc n - 1 else rc x

/-- `recursivelyDeleteMTBDDNode` with fuel, on (ids, rc) -/
def release (dat : Nat → Data) : Nat → List Nat → (Nat → Nat) → Nat → Option (List Nat × (Nat → Nat))
  | 0, _, _, _ => none
  | fuel+1, ids, rc, n =>
    if rc n ≤ 1 then
      match dat n with
      | .leaf _ => some (ids.erase n, decrRc rc n)
      | .int lo hi _ =>
        match release dat fuel (ids.erase n) (decrRc rc n) lo with
        | none => none
        | some (ids', rc') => release dat fuel ids' rc' hi
    else some (ids, decrRc rc n)

/-- main lemma: releasing one pending reference to `n` re-establishes the invariant for the rest.
    `Closed` = children of allocated internal nodes are allocated. -/
def Closed (ids : List Nat) (dat : Nat → Data) : Prop :=
  ∀ m, m ∈ ids → ∀ lo hi var, dat m = .int lo hi var → lo ∈ ids ∧ hi ∈ ids

theorem release_J (dat : Nat → Data) (roots : List Nat) : ∀ (fuel : Nat) (ids : List Nat) (rc : Nat → Nat) (n : Nat)
    (P : List Nat) (ids' : List Nat) (rc' : Nat → Nat),
    ids.Nodup → n ∈ ids → J ids dat rc roots (n :: P) → (∀ p, p ∈ P → p ∈ ids) → (∀ r, r ∈ roots → r ∈ ids) → Closed ids dat →
    release dat fuel ids rc n = some (ids', rc') →
      J ids' dat rc' roots P ∧ ids'.Nodup ∧ (∀ p, p ∈ P → p ∈ ids') ∧ (∀ r, r ∈ roots → r ∈ ids') ∧ Closed ids' dat
  | 0, _, _, _, _, _, _, _, _, _, _, _, _, h => by simp [release] at h
  | fuel+1, ids, rc, n, P, ids', rc', hnd, hn, hJ, hP, hR, hC, h => by
    simp only [release] at h
    have hrc := hJ n hn
    rw [cnt_cons] at hrc
    simp only [if_true] at hrc
    split at h
    · rename_i hle
      -- the counter drops to zero: nobody else refers to `n`
      have hz : indegL ids dat n = 0 ∧ cnt n roots = 0 ∧ cnt n P = 0 := by omega
      have hnd' : (ids.erase n).Nodup := hnd.erase n
      have hmem : ∀ x, x ∈ ids → x ≠ n → x ∈ ids.erase n := fun x hx hxn => (List.mem_erase_of_ne hxn).mpr hx
      have hPn : ∀ p, p ∈ P → p ≠ n := by
        intro p hp e; subst e
        have : 0 < cnt p P := List.count_pos_iff.mpr hp
        omega
      have hRn : ∀ r, r ∈ roots → r ≠ n := by
        intro r hr e; subst e
        have : 0 < cnt r roots := List.count_pos_iff.mpr hr
        omega
      -- nobody's child is `n`
      have hCn : ∀ m, m ∈ ids → ∀ lo hi var, dat m = .int lo hi var → lo ≠ n ∧ hi ≠ n := by
        intro m hm lo hi var hd
        have hle : contrib dat n m ≤ indegL ids dat n := by
          unfold indegL
          exact le_sum_of_mem _ _ (List.mem_map.mpr ⟨m, hm, rfl⟩)
        have h0 : contrib dat n m = 0 := by omega
        rw [contrib_int hd] at h0
        constructor
        · intro e; simp [e] at h0
        · intro e; simp [e] at h0
      have hC' : Closed (ids.erase n) dat := by
        intro m hm lo hi var hd
        have hmS := List.mem_of_mem_erase hm
        obtain ⟨h1, h2⟩ := hC m hmS lo hi var hd
        obtain ⟨h3, h4⟩ := hCn m hmS lo hi var hd
        exact ⟨hmem lo h1 h3, hmem hi h2 h4⟩
      -- the invariant on the remaining nodes, with the children of `n` pending
      have hJx : ∀ x, x ∈ ids.erase n → decrRc rc n x =
          indegL (ids.erase n) dat x + contrib dat x n + cnt x roots + cnt x P := by
        intro x hx
        have hxS : x ∈ ids := List.mem_of_mem_erase hx
        have hxn : x ≠ n := fun e => by subst e; exact ((List.Nodup.mem_erase_iff hnd).mp hx).1 rfl
        have h1 := hJ x hxS
        rw [cnt_cons] at h1
        simp only [Ne.symm hxn, if_false, Nat.zero_add] at h1
        have h2 := indegL_erase dat x n ids hn hnd
        simp only [decrRc, hxn, if_false]
        omega
      split at h
      · rename_i v hd
        cases h
        refine ⟨?_, hnd', fun p hp => hmem p (hP p hp) (hPn p hp), fun r hr => hmem r (hR r hr) (hRn r hr), hC'⟩
        intro x hx
        have := hJx x hx
        rw [contrib_leaf hd] at this
        omega
      · rename_i lo hi var hd
        obtain ⟨hlo, hhi⟩ := hC n hn lo hi var hd
        have hlon : lo ≠ n := by
          intro e
          have hle : contrib dat n n ≤ indegL ids dat n := by
            unfold indegL
            exact le_sum_of_mem _ _ (List.mem_map.mpr ⟨n, hn, rfl⟩)
          rw [contrib_int hd] at hle
          simp only [e, if_true] at hle
          omega
        have hhin : hi ≠ n := by
          intro e
          have hle : contrib dat n n ≤ indegL ids dat n := by
            unfold indegL
            exact le_sum_of_mem _ _ (List.mem_map.mpr ⟨n, hn, rfl⟩)
          rw [contrib_int hd] at hle
          simp only [e, if_true] at hle
          omega
        have hJ1 : J (ids.erase n) dat (decrRc rc n) roots (lo :: hi :: P) := by
          intro x hx
          have := hJx x hx
          rw [contrib_int hd] at this
          rw [cnt_cons, cnt_cons]
          omega
        split at h
        · cases h
        · rename_i ids1 rc1 h1
          have hP1 : ∀ p, p ∈ hi :: P → p ∈ ids.erase n := by
            intro p hp
            rcases List.mem_cons.mp hp with rfl | hp
            · exact hmem _ hhi hhin
            · exact hmem p (hP p hp) (hPn p hp)
          obtain ⟨hJ2, hnd2, hP2, hR2, hC2⟩ := release_J dat roots fuel (ids.erase n) (decrRc rc n) lo (hi :: P) ids1 rc1
            hnd' (hmem lo hlo hlon) hJ1 hP1 (fun r hr => hmem r (hR r hr) (hRn r hr)) hC' h1
          exact release_J dat roots fuel ids1 rc1 hi P ids' rc' hnd2 (hP2 hi List.mem_cons_self) hJ2
            (fun p hp => hP2 p (List.mem_cons_of_mem _ hp)) hR2 hC2 h
    · rename_i hgt
      cases h
      refine ⟨?_, hnd, hP, hR, hC⟩
      intro x hx
      have := hJ x hx
      rw [cnt_cons] at this
      by_cases e : x = n
      · subst e; simp only [decrRc, if_true] at this ⊢; omega
      · simp only [decrRc, e, if_false, Ne.symm e] at this ⊢; omega

#print axioms release_J
end Vata.R
