import Vata.TrimCoded
/-!
# Two seeded changes of `RemoveUselessStates` as variants of the coded model (property C03)

Definitions only (proofs: `Vata/Proofs/TrimCodedSeeds.lean`, theorems: `Vata/Properties/C03_CodedSeeds.lean`).

(a) `uselessLeafOnce`: in the first loop of `src/explicit_tree_useless.cc` the line
`reachableTransitions.push_back(info)` of the leaf branch was moved INSIDE the block guarded by
`if (reachableStates.insert(parent).second)`:
```
if (tuple->empty()) { if (reachableStates.insert(parent).second) { reachableTransitions.push_back(info); newStates.push_back(parent); } continue; }
```
so only the first leaf transition of a state is recorded.  Everything else is the code of `Vata/TrimCoded.lean`.

(b) `decLen`: `remaining -= children_->size()` when a transition fires, while the registration loop still does
`++remaining` once per element of the `std::set childrenSet_` (per DISTINCT child).  This is `uselessWith decLen …`,
the same code with another parameter (`decLen` and the earlier slip `decArity` are the same function).
-/
namespace Vata.TrimCoded
open Vata

/-- variant (a) of `initStep`: a leaf transition is recorded only when its parent is newly reached -/
def initStepLeafOnce (σ : St) (i : Nat) (r : Rule) : St :=
  if r.kids.isEmpty then
    (if σ.reach.contains r.parent then σ
     else St.pushState { σ with rtrans := σ.rtrans ++ [i] } r.parent)
  else registerKids i (mkInfo r).cset σ

/-- the first loop with `initStepLeafOnce` -/
def initLoopLeafOnce (A : TA) : Nat → St
  | 0 => ⟨A.rules.map mkInfo, [], [], [], 0, []⟩
  | k+1 => match A.rules[k]? with
    | none => initLoopLeafOnce A k
    | some r => initStepLeafOnce (initLoopLeafOnce A k) k r

/-- the state after both loops of variant (a) (the `while` loop is unchanged) -/
def finalStLeafOnce (A : TA) : St := mainLoop decOne A.rules.length (initLoopLeafOnce A A.rules.length)

/-- `RemoveUselessStates` with seeded change (a) -/
def uselessLeafOnce (A : TA) : TA := finish (unreachWith testOwners) A (finalStLeafOnce A)

/-- no state has two leaf rules (decidable form): two leaf rules at different positions have different parents -/
def noTwoLeafB (A : TA) : Bool :=
  (List.range A.rules.length).all fun i => (List.range A.rules.length).all fun j =>
    match A.rules[i]?, A.rules[j]? with
    | some r, some r' => !(r.kids.isEmpty && r'.kids.isEmpty && r.parent == r'.parent) || i == j
    | _, _ => true

/-- variant (b): the decrement `remaining -= children_->size()` (tuple LENGTH) -/
def decLen : Rule → Nat := fun r => r.kids.length

/-- `RemoveUselessStates` with seeded change (b) -/
def uselessDistinctVsLength (A : TA) : TA := uselessWith decLen testOwners A

/-- no rule has a repeated child (decidable form) -/
def noRepeatedKidB (A : TA) : Bool := A.rules.all fun r => dedupL r.kids == r.kids

end Vata.TrimCoded
