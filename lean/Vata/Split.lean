/-! feasibility probe (throw-away): `split_delim` of the Timbuk parser and its inverse -/
namespace Vata.T

/-- mirrors `split_delim`: the pieces between occurrences of `d` (always at least one piece) -/
def splitDelim (d : Char) : List Char → List (List Char)
  | [] => [[]]
  | c :: cs =>
    if c = d then [] :: splitDelim d cs
    else match splitDelim d cs with
      | [] => [[c]]            -- unreachable
      | p :: ps => (c :: p) :: ps

def joinWith (d : Char) : List (List Char) → List Char
  | [] => []
  | [p] => p
  | p :: q :: ps => p ++ d :: joinWith d (q :: ps)

theorem splitDelim_ne_nil (d : Char) (s : List Char) : splitDelim d s ≠ [] := by
  induction s with
  | nil => simp [splitDelim]
  | cons c cs ih =>
    simp only [splitDelim]
    split
    · simp
    · split <;> simp

theorem splitDelim_append_nodelim (d : Char) (p : List Char) (hp : d ∉ p) (rest : List Char) :
    splitDelim d (p ++ d :: rest) = p :: splitDelim d rest := by
  induction p with
  | nil => simp [splitDelim]
  | cons c cs ih =>
    have hc : c ≠ d := fun h => hp (h ▸ List.mem_cons_self)
    have hcs : d ∉ cs := fun h => hp (List.mem_cons_of_mem _ h)
    simp only [List.cons_append, splitDelim, hc, if_false, ih hcs]

theorem splitDelim_nodelim (d : Char) (p : List Char) (hp : d ∉ p) : splitDelim d p = [p] := by
  induction p with
  | nil => simp [splitDelim]
  | cons c cs ih =>
    have hc : c ≠ d := fun h => hp (h ▸ List.mem_cons_self)
    have hcs : d ∉ cs := fun h => hp (List.mem_cons_of_mem _ h)
    simp only [splitDelim, hc, if_false, ih hcs]

/-- splitting a join of delimiter-free pieces gives the pieces back -/
theorem splitDelim_joinWith (d : Char) : ∀ (ps : List (List Char)), ps ≠ [] → (∀ p, p ∈ ps → d ∉ p) →
    splitDelim d (joinWith d ps) = ps
  | [], h, _ => absurd rfl h
  | [p], _, hp => by simp only [joinWith]; exact splitDelim_nodelim d p (hp p List.mem_cons_self)
  | p :: q :: ps, _, hp => by
    simp only [joinWith]
    rw [splitDelim_append_nodelim d p (hp p List.mem_cons_self),
      splitDelim_joinWith d (q :: ps) (by simp) (fun x hx => hp x (List.mem_cons_of_mem _ hx))]

#print axioms splitDelim_joinWith
end Vata.T
