import Vata.BddTraverse
import Vata.InclDown
/-!
# The recursive downward inclusion algorithm on top-down TABLES (property C07)

What is modelled (`src/tree_incl_down.hh`, `src/down_tree_incl_fctor.hh`, `src/bdd_td_tree_aut_core.hh`,
`src/bdd_td_tree_aut_incl.cc`): `CheckDownwardTreeInclusion<BDDTDTreeAutCore, DownwardInclusionFunctor>` reading the two
automata ONLY through `ForeachDownSymbolFromStateAndStateSetDo`, i.e. through the MTBDD traversal `BddTraverse.travDown`
(union of the right-hand MTBDDs, `VoidApply2Functor` with its cache of visited node pairs, one callback per pair of
LEAVES reached).

* `procLeaf` is `DownwardInclusionFunctor::operator()(lhs, rhs)` as coded: the functor never sees a symbol – it gets the two
  leaves (sets of children tuples), returns at once when `lhs` is empty, and reads the ARITY off the first tuple of `lhs`
  (`const size_t arity = lhsElemAccess(*lhs.begin()).size()`); the loops below are those of `InclDown` (`procTuple`, phase 1
  `anyTuple`, the choice functions `cfAll`), which the abstract model shares.  The symbol `f` is ghost: it labels the
  witness tree; it is `reprSym` of the class (the smallest valuation of the 16 symbol and 6 arity variables on the path);
* `bodyT` is `ForeachDownSymbolFromStateAndStateSetDo(smaller, bigger, p, P, fctor)` with `IsProcessingStopped` (the BDD
  traversal stops at the first failure): the calls of `travDown` in turn.  `BddTraverse.foreachDownT` is `runL` over the
  same list with the (ghost) class dropped; here the class is kept because the witness tree needs a symbol of it;
* `expandT` is `DownwardInclusionFunctor::expand` with `workset_`, `nonIncl_` and `childrenCache_` threaded exactly as
  `InclDown.expand` threads them (the tests in the order `isInWorkset`, `isNoninclusionImplied`, `isImpliedByChildren`,
  `IsImpliedByPreorder`; `innerFctor` starts with an empty `childrenCache_`);
* `rootLoopT`, `runTD` are the loop over the final states of `CheckDownwardTreeInclusion`; `inclDownTrav` is the plain
  verdict (`error` = `return false`);
* `pathOrder syms T F` is the DUMP of a table over the ranked symbols `syms` (a ranked symbol is the number whose bits are the
  16 symbol bits and, above them, the 6 arity bits: `addArityToSymbol`), with its rule list in the order the traversal
  induces: ranked symbols increasing (the low successor of the larger variable first = numeric order), for a symbol the
  tuples in the order of the leaves (`OrdVector<StateTuple>`, `normT`), for a tuple the parents in table order.

Definitions only (core Lean); the theorems are in `Vata/Proofs/InclDownTables*.lean`.
-/
namespace Vata
namespace InclDownTables
open M BddAbs BddAbsTD BddTraverse InclDown
open InclUp (normS prodWit Wit)

/-- a call of `ApplyOperation`: the ghost class, the left leaf, the right leaf -/
abbrev LeafCall := Path × List (List Nat) × List (List Nat)

/-- `DownwardInclusionFunctor::operator()(lhs, rhs)`; `f` is the ghost symbol of the class -/
def procLeaf (call1 call2 : Call) (wit : Wit) (post : List Nat → List Nat) (f : Nat) (L W : List (List Nat))
    (cc : List Pair) (st : St) : Ret :=
  -- `if (lhs.empty()) return;`
  if L.isEmpty then some (.holds, cc, st)
  else
    -- `const size_t arity = lhsElemAccess(*lhs.begin()).size();`
    let n := (L.headD []).length
    if n = 0 then
      -- `if (!rhs.empty()) return; else { failProcessing(); return; }`
      if W.isEmpty then some (.fails (.node f []), cc, st) else some (.holds, cc, st)
    else
      -- `if (rhs.empty()) { failProcessing(); return; }`
      if W.isEmpty then some (.fails (.node f ((L.headD []).map (treeOf wit))), cc, st)
      -- `for (auto lhsTupleCont : lhs) …`
      else forAllL (procTuple call1 call2 wit post f W) L cc st

/-- the callback on one call of the traversal -/
def actLeaf (call1 call2 : Call) (wit : Wit) (post : List Nat → List Nat) (c : LeafCall) (cc : List Pair) (st : St) : Ret :=
  procLeaf call1 call2 wit post (reprSym c.1) c.2.1 c.2.2 cc st

/-- `ForeachDownSymbolFromStateAndStateSetDo(A, B, p, P, fctor)` on the tables, as coded (with the cache of
`VoidApply2Functor`), stopping at the first failure -/
def bodyT (call1 call2 : Call) (TA TB : TableTD) (wit : Wit) (post : List Nat → List Nat) (p : Nat) (P : List Nat)
    (cc : List Pair) (st : St) : Ret :=
  forAllL (actLeaf call1 call2 wit post) (travDown TA TB p P) cc st

/-- `DownwardInclusionFunctor::expand` on the tables; one unit of fuel per nested call -/
def expandT (o : Ord) (TA TB : TableTD) (wit : Wit) : Nat → List Pair → Call
  | 0, _, _, _, _, _ => none
  | fuel+1, ws, cc, st, p, P =>
    -- `if (isInWorkset(key)) return true;`
    if covers o ws p P then some (.holds, cc, st)
    else
      -- `else if (isNoninclusionImplied(key)) return false;`
      match niFind o st.nonIncl p P with
      | some x => some (.fails x.2.2, cc, st)
      | none =>
        -- `else if (isImpliedByChildren(key)) return true; else if (IsImpliedByPreorder(key)) return true;`
        if covers o cc p P then some (.holds, cc, st)
        else if byPre o p P then some (.holds, cc, st)
        else
          -- `workset_.insert(key); DownwardInclusionFunctor innerFctor(*this); ForeachDownSymbol…(…, innerFctor);`
          let call := expandT o TA TB wit fuel ((p, P) :: ws)
          match bodyT call call TA TB wit normS p P [] st with
          | none => none
          -- `processFoundInclusion` / `processFoundNoninclusion`
          | some (.holds, _, st') => some (.holds, ccAdd o cc p P, ⟨st'.nonIncl, addTrue st'.trues (p, P)⟩)
          | some (.fails w, _, st') => some (.fails w, cc, ⟨niAdd o st'.nonIncl p P w, st.trues⟩)

/-- the loop over the final states of `smaller` in `CheckDownwardTreeInclusion` (the root functor is shared) -/
def rootLoopT (o : Ord) (TA TB : TableTD) (wit : Wit) (fuel : Nat) (FB : List Nat) :
    List Nat → List Pair → St → Option (Except Tree St)
  | [], _, st => some (.ok st)
  | f :: fs, cc, st =>
    if byPre o f FB then rootLoopT o TA TB wit fuel FB fs cc st
    else
      let call := expandT o TA TB wit fuel []
      match bodyT call call TA TB wit normS f FB cc st with
      | none => none
      | some (.holds, cc', st') => rootLoopT o TA TB wit fuel FB fs cc' ⟨st'.nonIncl, addTrue st'.trues (f, FB)⟩
      | some (.fails w, _, _) => some (.error w)

/-- `CheckDownwardTreeInclusion` on the tables `TA`, `TB` with the final states `FA`, `FB`; `wit` (ghost) supplies the
trees of the positions the code skips -/
def runTD (o : Ord) (TA : TableTD) (FA : List Nat) (TB : TableTD) (FB : List Nat) (wit : Wit) (fuel : Nat) :
    Option (Except Tree (List Pair)) :=
  match rootLoopT o TA TB wit fuel (normS FB) (dedup FA) [] ⟨[], []⟩ with
  | none => none
  | some (.ok st) => some (.ok st.trues)
  | some (.error w) => some (.error w)

/-- the plain verdict of the algorithm on the tables (`none` = out of fuel); `wit` is ghost (witness trees only) -/
def inclDownTrav (o : Ord) (TA : TableTD) (FA : List Nat) (TB : TableTD) (FB : List Nat) (wit : Wit) (fuel : Nat) :
    Option Bool :=
  match runTD o TA FA TB FB wit fuel with
  | none => none
  | some (.ok _) => some true
  | some (.error _) => some false

/-! ### the dump in path order -/

/-- the arity of a ranked symbol (the bits above the 16 symbol bits) -/
def arOf (c : Nat) : Nat := c / 2 ^ 16

/-- the tuples below the ranked symbol `c`, over all states, as one sorted vector -/
def tuplesAt (T : TableTD) (c : Nat) : List (List Nat) :=
  normT ((keysTD T).flatMap (fun p => eval (getTD T p) (bits c)))

/-- the rules of the ranked symbol `c`: tuples in leaf order, parents in table order -/
def rulesAtTD (T : TableTD) (c : Nat) : List Rule :=
  (tuplesAt T c).flatMap (fun ks =>
    ((keysTD T).filter (fun p => (eval (getTD T p) (bits c)).contains ks)).map (fun p => ⟨c, ks, p⟩))

/-- the dump of a top-down table over the ranked symbols `syms`, the rule list in path order -/
def pathOrder (syms : List Nat) (T : TableTD) (F : List Nat) : TA := ⟨syms.flatMap (rulesAtTD T), F⟩

/-- the ranked symbols below which the table has a tuple, among `cands` (use it with a sorted list of candidates) -/
def usedSyms (T : TableTD) (cands : List Nat) : List Nat :=
  cands.filter (fun c => (keysTD T).any (fun p => !(eval (getTD T p) (bits c)).isEmpty))

/-! ### variants for regression -/

/-- a traversal that calls the functor once per listed SYMBOL instead of once per class -/
def bodySyms (syms : List Nat) (call1 call2 : Call) (TA TB : TableTD) (wit : Wit) (post : List Nat → List Nat) (p : Nat)
    (P : List Nat) (cc : List Pair) (st : St) : Ret :=
  forAllL (fun c => procLeaf call1 call2 wit post c (eval (getTD TA p) (bits c)) (eval (unionAllTD TB P) (bits c))) syms cc st

/-- a (wrong) traversal that hands the functor the union of the right-hand leaves over all classes -/
def bodyUnion (call1 call2 : Call) (TA TB : TableTD) (wit : Wit) (post : List Nat → List Nat) (p : Nat)
    (P : List Nat) (cc : List Pair) (st : St) : Ret :=
  let calls := travDown TA TB p P
  let U := normT (calls.flatMap (·.2.2))
  forAllL (fun c => procLeaf call1 call2 wit post (reprSym c.1) c.2.1 U) calls cc st

/-- `expandT`, parametric in the traversal (for the regressions) -/
def expandWith (bd : Call → Nat → List Nat → List Pair → St → Ret) (o : Ord) : Nat → List Pair → Call
  | 0, _, _, _, _, _ => none
  | fuel+1, ws, cc, st, p, P =>
    if covers o ws p P then some (.holds, cc, st)
    else
      match niFind o st.nonIncl p P with
      | some x => some (.fails x.2.2, cc, st)
      | none =>
        if covers o cc p P then some (.holds, cc, st)
        else if byPre o p P then some (.holds, cc, st)
        else
          match bd (expandWith bd o fuel ((p, P) :: ws)) p P [] st with
          | none => none
          | some (.holds, _, st') => some (.holds, ccAdd o cc p P, ⟨st'.nonIncl, addTrue st'.trues (p, P)⟩)
          | some (.fails w, _, st') => some (.fails w, cc, ⟨niAdd o st'.nonIncl p P w, st.trues⟩)

/-- a result without its witness trees (for comparisons by evaluation) -/
def showRet : Ret → Option (Bool × List Pair × List (Nat × List Nat) × List Pair)
  | none => none
  | some (.holds, cc, st) => some (true, cc, st.nonIncl.map (fun x => (x.1, x.2.1)), st.trues)
  | some (.fails _, cc, st) => some (false, cc, st.nonIncl.map (fun x => (x.1, x.2.1)), st.trues)

end InclDownTables
end Vata
