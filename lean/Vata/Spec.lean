import Vata.Ref
/-!
# L0 – specification notions the property theorems are stated with

Short, `Prop`-level, meant to be read in minutes.  Languages are given by `accepts` (`Vata/Basic.lean`):
`reach A t` is the list of states that can label the root of `t`, `accepts A t` iff one of them is final.
-/
namespace Vata

/-! ### runs as explicit objects ("takes part in an accepting run") -/

/-- a run: a tree of rules -/
inductive RunT where
  | node (r : Rule) (kids : List RunT)

def RunT.root : RunT → Nat
  | .node r _ => r.parent

mutual
/-- the run uses rules of `A` and the root states of the sub-runs are the children of the rule -/
def RunT.valid (A : TA) : RunT → Bool
  | .node r ks => A.rules.contains r && RunT.validL A ks r.kids
def RunT.validL (A : TA) : List RunT → List Nat → Bool
  | [], [] => true
  | ρ :: ρs, q :: qs => ρ.root == q && ρ.valid A && RunT.validL A ρs qs
  | _, _ => false
end

mutual
def RunT.hasState (q : Nat) : RunT → Bool
  | .node r ks => r.parent == q || RunT.hasStateL q ks
def RunT.hasStateL (q : Nat) : List RunT → Bool
  | [] => false
  | ρ :: ρs => ρ.hasState q || RunT.hasStateL q ρs
end

mutual
def RunT.hasRule (x : Rule) : RunT → Bool
  | .node r ks => r == x || RunT.hasRuleL x ks
def RunT.hasRuleL (x : Rule) : List RunT → Bool
  | [] => false
  | ρ :: ρs => ρ.hasRule x || RunT.hasRuleL x ρs
end

mutual
/-- the tree a run is a run on -/
def RunT.tree : RunT → Tree
  | .node r ks => .node r.sym (RunT.treeL ks)
def RunT.treeL : List RunT → List Tree
  | [] => []
  | ρ :: ρs => ρ.tree :: RunT.treeL ρs
end

def AcceptingRun (A : TA) (ρ : RunT) : Prop := ρ.valid A = true ∧ ρ.root ∈ A.final

/-- the state `q` takes part in some accepting run -/
def UsefulState (A : TA) (q : Nat) : Prop := ∃ ρ, AcceptingRun A ρ ∧ ρ.hasState q = true
/-- the rule `r` takes part in some accepting run -/
def UsefulRule (A : TA) (r : Rule) : Prop := ∃ ρ, AcceptingRun A ρ ∧ ρ.hasRule r = true

/-- some tree can be labelled `q` at the root -/
def Productive (A : TA) (q : Nat) : Prop := ∃ t, q ∈ reach A t

/-- reachable top-down from a final state -/
inductive TdReachable (A : TA) : Nat → Prop
  | final {q} : q ∈ A.final → TdReachable A q
  | step {r k} : r ∈ A.rules → TdReachable A r.parent → k ∈ r.kids → TdReachable A k

/-- a state occurs in `A` (in a rule or in the final set) -/
def Occurs (A : TA) (q : Nat) : Prop := q ∈ A.final ∨ ∃ r, r ∈ A.rules ∧ (r.parent = q ∨ q ∈ r.kids)

/-! ### simulations -/

/-- downward simulation: `DownSim` of `Vata/Reduce.lean` -/
abbrev IsDownSim (A : TA) (R : Nat → Nat → Prop) : Prop := DownSim A R

/-- upward simulation with identity on siblings (what `ComputeUpwardSimulation` instantiates) -/
def IsUpSim (A : TA) (R : Nat → Nat → Prop) : Prop :=
  ∀ q r, R q r → (q ∈ A.final → r ∈ A.final) ∧
    ∀ ρ, ρ ∈ A.rules → ∀ i, ρ.kids[i]? = some q →
      ∃ σ, σ ∈ A.rules ∧ σ.sym = ρ.sym ∧ σ.kids = setAt ρ.kids i r ∧ R ρ.parent σ.parent

end Vata
