import Vata.FunctorCachesUp
import Vata.InclUpSim
/-!
# The upward tree inclusion algorithm WITH a simulation and WITH its caches (property C01)

`ExplicitUpwardInclusion::checkInternal` (`src/explicit_tree_incl_up.cc`) is one piece of code for `ANTICHAINS_UP_NOSIM` and
`ANTICHAINS_UP_SIM`: the relation enters through the two index vectors `ind` / `inv` only.  `Vata/FunctorCachesUp.lean` models
the code with its three caches for the identity; `Vata/InclUpSim.lean` models it for a relation `R` without the caches
(macro-states compared by value).  Here: the relation AND the caches.

    auto noncachedLte = [&ind](const StateSet* x, const StateSet* y) -> bool {
        for (auto& s1 : *x) { if (!checkIntersection(ind.at(s1), *y)) return false; }  return true; };
    auto lte = [&](const BiggerType& x, const BiggerType& y) {
        return (x.get() == y.get())?(true):(lteCache.lookup(x.get(), y.get(), noncachedLte)); };
    auto gte = [&lte](const BiggerType& x, const BiggerType& y) { return lte(y, x); };

The heap (`Heap`: `Cache::store_` of the live objects, `lteCache`, `evalTransitionsCache`), the allocator (`allocA pick`),
`biggerTypeCache.lookup` (`hLookup`), the lambda `evalTransitions` (`hEval`, `evalAll`), the deleter with its wiring
(`deleter`), the deaths (`hCollect`, `USt.collect`), the pairs `UIt`, the state `USt`, `insNextC`, `hasPair`, the choice
vectors (`choicesAtC`) are those of `Vata/FunctorCachesUp.lean`.  What the relation changes, in the order of the code:

* `noncachedLte(x, y)` (`lteNC`): every state of `*x` has a simulating state in `*y` – NOT reflexive unless the relation is;
  the lambda `lte` (`hLteS`) answers `true` on the same POINTER and asks `lteCache` otherwise.  The cache-free model
  `InclUpSim.lte` says "the same set, or `noncachedLte`": the two agree because macro-states are interned (one live object
  per value – an invariant of the proof, `Vata/Proofs/FunctorCachesUpSim.lean`);
* the macro-state of a choice (`macroPostS`): `evalTransitions` for every position, `intersectionByLookup` – the surviving
  transitions in the order of `B.rules` –, then the loop `post.contains(ind[s]) / post.refine(inv[s]) / post.insert(s) /
  isAccepting |= …` (`InclUpSim.minPost`, reused), `std::sort`; it is the MINIMISED macro-state that is handed to
  `biggerTypeCache.lookup`;
* `if (checkIntersection(ind.at(state), tmp)) continue;` (`InclUpSim.skipSim`): in the main loop BEFORE
  `biggerTypeCache.lookup(tmp)` – nothing is interned for a skipped choice –, in the leaf phase AFTER it (`ptr` is acquired
  before the loop over the leaf transitions of `A`; here once per leaf rule, as in `Vata/FunctorCachesUp.lean`), so a skipped leaf
  rule drops the handle again and the object may die;
* `Antichain2Cv2::contains(ind[q], ptr, lte)` (`acContainsS`): the pairs `(p, P)` with `q ≼ p`, first `lte(P, ptr) = true` ends
  the search; `refine(inv[q], ptr, gte, Eraser(next))` (`acRefineS`): the pairs `(p, P)` with `p ≼ q` and `lte(ptr, P)` go.

Deviations: those of `Vata/FunctorCachesUp.lean` and `Vata/InclUpSim.lean` (iteration orders: the antichains are walked in list
order, the C++ walks `ind[q]` / `inv[q]` and, for each candidate, its list; which pairs are compared and with what result is the
same, the order in which `lteCache` is filled is not).

Definitions only (core Lean); theorems in `Vata/Proofs/FunctorCachesUpSim*.lean`.
-/
namespace Vata
namespace FCUS
open Vata.InclUp Vata.CM Vata.FCU

/-- `noncachedLte`: `for (s1 : *x) if (!checkIntersection(ind.at(s1), *y)) return false; return true;` -/
def lteNC (R : Rel) (X Y : List Nat) : Bool := X.all (fun s₁ => Y.any (fun s₂ => InclUpSim.le R s₁ s₂))

/-- the lambda `lte`: pointer equality, otherwise `lteCache.lookup(x, y, noncachedLte)` -/
def hLteS (R : Rel) (h : Heap) (a b : Nat) : Heap × Bool :=
  if a = b then (h, true)
  else
    let r := h.lte.lookup a b (fun x y => lteNC R (hval h x) (hval h y))
    ({ h with lte := r.1 }, r.2)

/-- `Antichain2Cv2::contains(ind[q], ptr, lte)`: candidates `p` with `q ≼ p` -/
def acContainsS (R : Rel) (q a : Nat) : List UIt → Heap → Heap × Bool
  | [], h => (h, false)
  | i :: P, h =>
    if InclUpSim.le R q i.q then
      let r := hLteS R h i.a a
      if r.2 then (r.1, true) else acContainsS R q a P r.1
    else acContainsS R q a P h

/-- `Antichain2Cv2::refine(inv[q], ptr, gte)`: candidates `p` with `p ≼ q`; the pairs that are left -/
def acRefineS (R : Rel) (q a : Nat) : List UIt → Heap → Heap × List UIt
  | [], h => (h, [])
  | i :: P, h =>
    if InclUpSim.le R i.q q then
      let r := hLteS R h a i.a
      let r' := acRefineS R q a P r.1
      (r'.1, if r.2 then r'.2 else i :: r'.2)
    else
      let r' := acRefineS R q a P h
      (r'.1, i :: r'.2)

/-- `if (processed.contains(..)) continue; processed.refine(.., Eraser(next)); processed.insert(..); next.insert(..)` -/
def addItemS (R : Rel) (s : USt) (it : UIt) : USt :=
  let r1 := acContainsS R it.q it.a s.processed s.h
  if r1.2 then { s with h := r1.1 }
  else
    let r2 := acRefineS R it.q it.a s.processed r1.1
    { s with processed := r2.2 ++ [it], next := insNextC r2.1 it (s.next.filter (hasPair r2.2)), h := r2.1 }

/-- the same for `temporary` -/
def addTmpS (R : Rel) (s : USt) (it : UIt) : USt :=
  let r1 := acContainsS R it.q it.a s.temporary s.h
  if r1.2 then { s with h := r1.1 }
  else
    let r2 := acRefineS R it.q it.a s.temporary r1.1
    { s with temporary := r2.2 ++ [it], h := r2.1 }

/-! ### leaf phase -/

/-- `ptr = biggerTypeCache.lookup(tmp)`, then per leaf transition of `A`: `return false` / `continue` (the handle is dropped) /
`contains` … `next.insert`; `ptr` dies at the end of the iteration -/
def leafPhaseS (w : Wiring) (pick : List Nat → Nat) (R : Rel) (A B : TA) : List Rule → USt → Res USt
  | [], s => .ok s
  | ρ :: ρs, s =>
    if ρ.kids.isEmpty then
      let S := InclUpSim.macroPost R B ρ.sym []
      let l := hLookup pick s.h S.1
      if !S.2 && A.final.contains ρ.parent then .error (ρ.parent, .node ρ.sym [])
      else if InclUpSim.skipSim R ρ.parent S.1 then leafPhaseS w pick R A B ρs ({ s with h := l.1 }.collect w)
      else leafPhaseS w pick R A B ρs ((addItemS R { s with h := l.1 } ⟨ρ.parent, l.2, .node ρ.sym []⟩).collect w)
    else leafPhaseS w pick R A B ρs s

/-! ### the post-image step -/

/-- `evalTransitions` for all positions, `intersectionByLookup`, the loop over `biggerTransitions` that fills the `Antichain1C
post` and `isAccepting`, `std::sort` -/
def macroPostS (R : Rel) (B : TA) (h : Heap) (f : Nat) (as : List Nat) : Heap × (List Nat × Bool) :=
  let r := evalAll B f as.length as 0 h
  let m := InclUpSim.minPost R B (parentsOf B (interAll r.2))
  (r.1, (normS m.1, m.2))

/-- the body of the `do … while (choiceVector.next())` loop for one choice; the skip comes before
`biggerTypeCache.lookup(tmp)`; `ptr` dies at the end of the iteration -/
def stepChoiceS (w : Wiring) (pick : List Nat → Nat) (R : Rel) (A B : TA) (ρ : Rule) (s : USt) (is : List UIt) : Res USt :=
  let r := macroPostS R B s.h ρ.sym (is.map (·.a))
  let t' := Tree.node ρ.sym (is.map (·.t))
  if r.2.1.isEmpty then .error (ρ.parent, t')
  else if !r.2.2 && A.final.contains ρ.parent then .error (ρ.parent, t')
  else if InclUpSim.skipSim R ρ.parent r.2.1 then .ok { s with h := r.1 }
  else
    let l := hLookup pick r.1 r.2.1
    .ok ((addTmpS R { s with h := l.1 } ⟨ρ.parent, l.2, t'⟩).collect w)

def stepChoicesS (w : Wiring) (pick : List Nat → Nat) (R : Rel) (A B : TA) (ρ : Rule) : List (List UIt) → USt → Res USt
  | [], s => .ok s
  | is :: iss, s =>
    match stepChoiceS w pick R A B ρ s is with
    | .error e => .error e
    | .ok s' => stepChoicesS w pick R A B ρ iss s'

/-- the merge of `temporary` into `processed` / `next` -/
def mergeS (w : Wiring) (R : Rel) : List UIt → USt → USt
  | [], s => s
  | i :: is, s => mergeS w R is ((addItemS R s i).collect w)

/-- one rule of `A` with the picked pair at position `j`; `temporary.clear()` at the end -/
def procTaskS (w : Wiring) (pick : List Nat → Nat) (R : Rel) (A B : TA) (it : UIt) (ρ : Rule) (j : Nat) (s : USt) : Res USt :=
  match stepChoicesS w pick R A B ρ (choicesAtC s.processed it ρ.kids j) s with
  | .error e => .error e
  | .ok s' => .ok ({ mergeS w R s'.temporary s' with temporary := [] }.collect w)

def procTasksS (w : Wiring) (pick : List Nat → Nat) (R : Rel) (A B : TA) (it : UIt) : List (Rule × Nat) → USt → Res USt
  | [], s => .ok s
  | (ρ, j) :: ts, s =>
    match procTaskS w pick R A B it ρ j s with
    | .error e => .error e
    | .ok s' => procTasksS w pick R A B it ts s'

/-- `while (!next.empty())`: `Q = *next.begin()->second` overwrites the handle of the previous round; one unit of fuel per
picked pair (as `InclUpSim.loop`) -/
def loopS (w : Wiring) (pick : List Nat → Nat) (R : Rel) (A B : TA) : Nat → USt → Option (Res USt)
  | 0, _ => none
  | n+1, s =>
    match s.next with
    | [] => some (.ok s)
    | it :: rest =>
      match procTasksS w pick R A B it (tasks A it.q) ({ s with next := rest, Q := some it.a }.collect w) with
      | .error e => some (.error e)
      | .ok s' => loopS w pick R A B n s'

/-- the exploration with its caches; `none` = out of fuel (at exactly the fuel at which `InclUpSim.run` is: `runS_eq`) -/
def runS (w : Wiring) (pick : List Nat → Nat) (R : Rel) (A B : TA) (fuel : Nat) : Option (Res USt) :=
  match sizeExit A B with
  | some ρ => some (.error (ρ.parent, .node ρ.sym []))
  | none =>
    match leafPhaseS w pick R A B A.rules ⟨[], [], [], none, {}⟩ with
    | .error e => some (.error e)
    | .ok s => loopS w pick R A B fuel s

/-- the certifying end of `inclUpSim` -/
def finishUpSim (A B : TA) (R : Rel) : Option (Res (List Item)) → Option (Bool × Cert)
  | none => none
  | some (.ok P) =>
    let X := P.map (fun i => (i.q, i.S))
    if isUpSimB (unionDisjoint A B) R && InclDown.disjointB A B && upCertSimB A B R X then some (true, .closed X) else none
  | some (.error (q, t)) =>
    let w := complete A q t
    if accepts A w && !accepts B w then some (false, .witness w) else none

/-- the upward algorithm with a relation and with its caches, certify-then-trust as `inclUpSim` -/
def inclUpSimC (w : Wiring) (pick : List Nat → Nat) (A B : TA) (R : Rel) (fuel : Nat) : Option (Bool × Cert) :=
  finishUpSim A B R (viewU (runS w pick R A B fuel))

/-- `CheckInclusion` with `ANTICHAINS_UP_SIM`, caches included: sanitise, the upward simulation of the disjoint union, the
exploration -/
def checkInclUpSimC (w : Wiring) (pick : List Nat → Nat) (A B : TA) (fuel : Nat) : Option (Bool × Cert) :=
  let A' := (sanitize A B).1
  let B' := (sanitize A B).2.1
  inclUpSimC w pick A' B' (upSimRef (unionDisjoint A' B')) fuel

/-- the invariant of the two memo tables as a test: every entry is about live objects and holds the value of the memoised
function on them -/
def heapOKSB (R : Rel) (B : TA) (h : Heap) : Bool :=
  h.lte.store.all (fun e => h.addrs.contains e.1.1 && h.addrs.contains e.1.2 &&
    e.2 == lteNC R (hval h e.1.1) (hval h e.1.2)) &&
  h.ev.store.all (fun e => h.addrs.contains e.1.2 && e.2 == evalT B e.1.1 (hval h e.1.2))

end FCUS
end Vata
