import Vata.NfaOps
/-!
# Certifying executable models of the NFA inclusion algorithms (property C09)

Models of `ExplicitFiniteAutCore::CheckInclusion` (`src/explicit_finite_incl.cc`) on `Vata.W.NFA` for the options
without a simulation relation.

## Antichain algorithm (`ANTICHAINS_NOSIM`, `src/explicit_finite_incl_fctor_cache.hh`) – `nfaInclAC`

* `Init`: the macro-state of the start states of `B`; for every start state `s` of `A`: `false` when `s` is final
  and the macro-state is not accepting, otherwise the pair `(s, start_B)` goes through `AddNewPairToAntichain`;
* the work-list `next_` (an antichain ordered by the size of the macro-state, then by the state – the third criterion
  of the code, the address of the cached macro-state, is replaced by the order of insertion) and the antichain
  `antichain_` of pairs `(q, S)`: a new pair is dropped when some `(q, S')` with `S' ⊆ S` is present; otherwise the
  pairs `(q, S')` with `S ⊆ S'` are erased and the pair is inserted; the same is then done for `next_` (`AddToNext`);
* `MakePost` for the picked `(q, S)`: for every transition `q --a--> q'` of `A` the macro-state `S' := post_B(S, a)`;
  `false` when `q'` is final and `S'` is not accepting, otherwise `AddNewPairToAntichain(q', S')`.

With the identity relation `getCandidate`/`getCandidateRev` return the state itself, so `singleAntichain_` has no effect;
`checkSmallerInBigger` is the constant `false`.  The macro-state cache (`MacroStateCache`) only makes equal sets share
one address, and the memo `subsetMap_`/`subsetNotMap_` (repaired: only established facts are recorded) only caches the
result of the subset test on those addresses; both are transparent and not modelled: macro-states are sorted
duplicate-free lists compared by value.  Iteration orders of hash containers are replaced by list order.

Every pair carries a word `w` with `q ∈ run A w` and `S = run B w` (as sets).

## Congruence algorithm (`CONGR_DEPTH_NOSIM` / `CONGR_BREADTH_NOSIM`,
`src/explicit_finite_congr_fctor_cache_opt.hh`, `congr_product.hh`, `normal_form_rel.hh`) – `nfaInclCongr`

The dispatcher replaces the smaller operand by `U := UnionDisjointStates(A, B)` and the functor decides `L(U) = L(B)`
on pairs `(X, Y)` of macro-states (`X` of `U`, `Y` of `B`):

* `Init`: the pair of the two sets of start states; `false` when exactly one of them is accepting;
* `next_` is a vector, `get` pops its back; `add` is `push_back` (depth) or an insertion at the front (breadth); the model
  keeps the vector reversed (head = back);
* `MakePost(X, Y)`: the congruence closure of `Y` by rewriting with the rules `Yᵢ → Xᵢ ∪ Yᵢ` for the pairs `(Xᵢ, Yᵢ)` of
  `next_` and then of `relation_` (a rule fires when `Yᵢ ⊆` the current set, every rule at most once, sweeps are repeated
  until no rule fires; early exit as soon as `X ⊆` the current set); the pair is skipped when `X ⊆` the closure;
  otherwise for every symbol `a` leaving a state of `X` (in `U`) or of `Y` (in `B`): `X' := post_U(X, a)`,
  `Y' := post_B(Y, a)`; `false` when exactly one of them is accepting; the pair `(X', Y')` is appended to `next_` unless
  both are empty or the pair has been enqueued before (`visitedPairs_`); finally `(X, Y)` is appended to `relation_`.

`NormalFormRelPreorder::applyRule` does nothing for the identity.  The memo `usedRules_` (rules that fired in an earlier
closure of the same macro-state fire again without the subset test) is transparent – the closure under the current
rules contains every earlier closure because a pair is only discarded when it is in the closure of the others – and is
not modelled.  Every pair carries a word `w` with `X = run U w` and `Y = run B w`.

Both procedures end *certify-then-trust*: `true` only together with the final antichain / relation after the Boolean
checks `nfaUpCertB` / `congrCertB`, `false` only with a word `w` after the check `acceptsW A w && !acceptsW B w`;
`none` = fuel exhausted or the check failed.

The macro-state cache never identifies two empty sets (`areEqual` answers `false` on empty sets), so the code may
enqueue a pair with an empty component more than once; the copies are discarded by the closure test (the first copy
is a rule by then).  The model compares macro-states by value and enqueues such a pair once.

Definitions only (core Lean); the theorems are in `Vata/Proofs/NfaIncl.lean` (verdicts, certificates),
`Vata/Proofs/NfaInclTotal.lean` (the antichain exploration: invariants, termination, totality) and
`Vata/Proofs/NfaInclCongr.lean`, `Vata/Proofs/NfaInclCongrTotal.lean` (the same for the congruence exploration).
-/
namespace Vata
open Vata.W

namespace NfaIncl

/-- insertion into a strictly increasing list -/
def insS (x : Nat) : List Nat → List Nat
  | [] => [x]
  | y :: l => if x < y then x :: y :: l else if x == y then y :: l else y :: insS x l

/-- sorted duplicate-free representative of a set -/
def normS (l : List Nat) : List Nat := l.foldr insS []

/-- the macro-state `post_N(S, a)` (`CreatePostOfMacroState`) -/
def macroStep (N : NFA) (S : List Nat) (a : Nat) : List Nat := normS (stepW N S a)

/-! ### the antichain algorithm -/

/-- a pair `(q, S)` of the antichain together with a word that reaches it -/
structure Item where
  q : Nat
  S : List Nat
  w : List Nat

/-- `Antichain2Cv2::contains`: some `(q, S')` with `S' ⊆ S` is present -/
def subsumed (P : List Item) (q : Nat) (S : List Nat) : Bool := P.any (fun i => i.q == q && Vata.subB i.S S)

/-- `Antichain2Cv2::refine`: erase the pairs `(q, S')` with `S ⊆ S'` -/
def refine (P : List Item) (q : Nat) (S : List Nat) : List Item := P.filter (fun i => !(i.q == q && Vata.subB S i.S))

/-- the order `less` of the work-list: size of the macro-state, then the state -/
def itemLt (a b : Item) : Bool := a.S.length < b.S.length || (a.S.length == b.S.length && a.q < b.q)

/-- insertion into the ordered work-list -/
def insNext (it : Item) : List Item → List Item
  | [] => [it]
  | x :: l => if itemLt it x then it :: x :: l else x :: insNext it l

structure St where
  antichain : List Item
  next : List Item

/-- `AddNewPairToAntichain` followed by `AddToNext` -/
def addPair (st : St) (it : Item) : St :=
  if subsumed st.antichain it.q it.S then st
  else
    ⟨refine st.antichain it.q it.S ++ [it],
     if subsumed st.next it.q it.S then st.next else insNext it (refine st.next it.q it.S)⟩

/-- `error w` is a `return false` of the code; `w` is the word of the offending pair -/
abbrev Res (α : Type) := Except (List Nat) α

/-- `Init`, the loop over the start states of `A`; `S0` is the macro-state of the start states of `B` -/
def initAC (A B : NFA) (S0 : List Nat) : List Nat → St → Res St
  | [], st => .ok st
  | s :: ss, st =>
    if A.final.contains s && !W.accepting B S0 then .error []
    else initAC A B S0 ss (addPair st ⟨s, S0, []⟩)

/-- `MakePost` for the picked pair `it`, the loop over the transitions of `A` -/
def makePost (A B : NFA) (it : Item) : List (Nat × Nat × Nat) → St → Res St
  | [], st => .ok st
  | e :: es, st =>
    if e.1 == it.q then
      let S' := macroStep B it.S e.2.1
      if A.final.contains e.2.2 && !W.accepting B S' then .error (it.w ++ [e.2.1])
      else makePost A B it es (addPair st ⟨e.2.2, S', it.w ++ [e.2.1]⟩)
    else makePost A B it es st

/-- `while (inclFunc.DoesInclusionHold() && next.get(procState, procMacroState))`; one unit of fuel per picked pair -/
def loopAC (A B : NFA) : Nat → St → Option (Res (List Item))
  | 0, _ => none
  | n+1, st =>
    match st.next with
    | [] => some (.ok st.antichain)
    | it :: rest =>
      match makePost A B it A.trans ⟨st.antichain, rest⟩ with
      | .error w => some (.error w)
      | .ok st' => loopAC A B n st'

/-- the algorithm proper: `error` = the code's `return false`, `ok P` = `return true` with the final `antichain_` -/
def runAC (A B : NFA) (fuel : Nat) : Option (Res (List Item)) :=
  match initAC A B (normS B.start) A.start ⟨[], []⟩ with
  | .error w => some (.error w)
  | .ok st => loopAC A B fuel st

/-! ### the congruence algorithm -/

/-- a pair `(X, Y)` of macro-states together with a word that reaches it -/
structure CItem where
  X : List Nat
  Y : List Nat
  w : List Nat

abbrev CRule := List Nat × List Nat

/-- one sweep of `ApplyRulesForRelation` over the rules not yet used: `none` = early exit (`s ⊆` the current set),
otherwise the rules still unused, the new set and whether a rule fired -/
def sweep (s : List Nat) : List CRule → List CRule → List Nat → Bool → Option (List CRule × List Nat × Bool)
  | [], un, set, ap => some (un.reverse, set, ap)
  | r :: rs, un, set, ap =>
    if Vata.subB r.2 set then
      let set' := normS (set ++ r.1 ++ r.2)
      if Vata.subB s set' then none else sweep s rs un set' true
    else sweep s rs (r :: un) set ap

/-- `GetCongrClosure(b, set, …) || isSubSet(s, set)`: sweeps until no rule fires -/
def closeLoop (s : List Nat) : Nat → List CRule → List Nat → Bool
  | 0, _, set => Vata.subB s set
  | n+1, rules, set =>
    match sweep s rules [] set false with
    | none => true
    | some (un, set', ap) => if ap then closeLoop s n un set' else Vata.subB s set'

/-- is `s` inside the closure of `b` under the rules `Yᵢ → Xᵢ ∪ Yᵢ` (every sweep but the last uses up a rule) -/
def inClosure (rules : List CRule) (s b : List Nat) : Bool := closeLoop s (rules.length + 1) rules b

structure CSt where
  relation : List CItem
  /-- the vector `next_`, reversed: the head is its back -/
  next : List CItem
  visited : List CRule

/-- `ProductStateSetBreadth::add` (insert at the front) / `ProductStateSetDepth::add` (`push_back`) -/
def addNext (breadth : Bool) (next : List CItem) (it : CItem) : List CItem :=
  if breadth then next ++ [it] else it :: next

/-- the symbols explored by the two calls of `MakePostForAut` -/
def postSyms (U B : NFA) (X Y : List Nat) : List Nat :=
  ((U.trans.filter (fun e => X.contains e.1)).map (·.2.1) ++
   (B.trans.filter (fun e => Y.contains e.1)).map (·.2.1)).eraseDups

/-- `MakePostForAut`, the loop over the symbols -/
def congrPost (U B : NFA) (breadth : Bool) (it : CItem) : List Nat → CSt → Res CSt
  | [], st => .ok st
  | a :: as, st =>
    let X' := macroStep U it.X a
    let Y' := macroStep B it.Y a
    if W.accepting U X' != W.accepting B Y' then .error (it.w ++ [a])
    else if X'.isEmpty && Y'.isEmpty then congrPost U B breadth it as st
    else if st.visited.contains (X', Y') then congrPost U B breadth it as st
    else congrPost U B breadth it as
      ⟨st.relation, addNext breadth st.next ⟨X', Y', it.w ++ [a]⟩, (X', Y') :: st.visited⟩

def rulesOf (l : List CItem) : List CRule := l.map (fun i => (i.X, i.Y))

/-- the main loop with `MakePost`; one unit of fuel per picked pair -/
def loopCongr (U B : NFA) (breadth : Bool) : Nat → CSt → Option (Res (List CItem))
  | 0, _ => none
  | n+1, st =>
    match st.next with
    | [] => some (.ok st.relation)
    | it :: rest =>
      if inClosure (rulesOf (rest.reverse ++ st.relation)) it.X it.Y then
        loopCongr U B breadth n ⟨st.relation, rest, st.visited⟩
      else
        match congrPost U B breadth it (postSyms U B it.X it.Y) ⟨st.relation, rest, st.visited⟩ with
        | .error w => some (.error w)
        | .ok st' => loopCongr U B breadth n ⟨st'.relation ++ [it], st'.next, st'.visited⟩

/-- `Init` and the main loop on `U` (the union) and `B` -/
def runCongr (U B : NFA) (breadth : Bool) (fuel : Nat) : Option (Res (List CItem)) :=
  let X0 := normS U.start
  let Y0 := normS B.start
  if W.accepting U X0 != W.accepting B Y0 then some (.error [])
  else loopCongr U B breadth fuel ⟨[], [⟨X0, Y0, []⟩], [(X0, Y0)]⟩

/-! ### the certificate checks -/

/-- one sweep of the (two-sided) congruence rules of `R` over `S` -/
def clStep (R : List CRule) (S : List Nat) : List Nat :=
  R.foldl (fun S r => if Vata.subB r.1 S || Vata.subB r.2 S then normS (S ++ r.1 ++ r.2) else S) S

def clIter (R : List CRule) : Nat → List Nat → List Nat
  | 0, S => S
  | n+1, S => clIter R n (clStep R S)

/-- the closure of `S` under the rules of `R`: `R.length` sweeps reach the fixed point -/
def congrCl (R : List CRule) (S : List Nat) : List Nat := clIter R R.length S

/-- `(X, Y)` is in the congruence closure of `R` -/
def inCongrB (R : List CRule) (X Y : List Nat) : Bool :=
  Vata.subB X (congrCl R Y) && Vata.subB Y (congrCl R X)

inductive Cert where
  /-- for `true` of the antichain algorithm: the antichain (post-closed up to subsumption, no bad pair) -/
  | antichain (X : List (Nat × List Nat))
  /-- for `true` of the congruence algorithm: a bisimulation up to congruence -/
  | relation (R : List CRule)
  /-- for `false`: a word accepted by `A` and not by `B` -/
  | witness (w : List Nat)

def Cert.toString : Cert → String
  | .antichain X => "antichain " ++ ToString.toString X
  | .relation R => "relation " ++ ToString.toString R
  | .witness w => "witness " ++ ToString.toString w

instance : ToString Cert := ⟨Cert.toString⟩

end NfaIncl

open NfaIncl

/-- Boolean form of `NfaUpCert`: the start pairs are subsumed, `X` is closed under the post-image up to subsumption,
and no pair is bad -/
def nfaUpCertB (A B : NFA) (X : List (Nat × List Nat)) : Bool :=
  A.start.all (fun s => X.any (fun p => p.1 == s && Vata.subB p.2 B.start)) &&
  X.all (fun p => A.trans.all (fun e =>
    e.1 != p.1 || X.any (fun p' => p'.1 == e.2.2 && Vata.subB p'.2 (stepW B p.2 e.2.1)))) &&
  X.all (fun p => !A.final.contains p.1 || W.accepting B p.2)

/-- antichain inclusion `L(A) ⊆ L(B)`, certify-then-trust -/
def nfaInclAC (A B : NFA) (fuel : Nat) : Option (Bool × Cert) :=
  match runAC A B fuel with
  | none => none
  | some (.ok P) =>
    let X := P.map (fun i => (i.q, i.S))
    if nfaUpCertB A B X then some (true, .antichain X) else none
  | some (.error w) =>
    if acceptsW A w && !acceptsW B w then some (false, .witness w) else none

/-- Boolean form of `CongrCert`: the operands are disjoint, the start pair of `U = A ⊎ B` and `B` is in the congruence
closure of `R`, and `R` is a bisimulation up to congruence in `U` -/
def congrCertB (A B : NFA) (R : List CRule) : Bool :=
  let U := nfaUnionDisjoint A B
  (nfaStates A).all (fun q => !(nfaStates B).contains q) &&
  inCongrB R U.start B.start &&
  R.all (fun p => W.accepting U p.1 == W.accepting U p.2 &&
    (W.syms U).eraseDups.all (fun a => inCongrB R (stepW U p.1 a) (stepW U p.2 a)))

/-- congruence inclusion `L(A) ⊆ L(B)` as `L(A ⊎ B) = L(B)`, certify-then-trust; the operands must have disjoint states -/
def nfaInclCongr (A B : NFA) (breadth : Bool) (fuel : Nat) : Option (Bool × Cert) :=
  match runCongr (nfaUnionDisjoint A B) B breadth fuel with
  | none => none
  | some (.ok R) =>
    let R' := rulesOf R
    if congrCertB A B R' then some (true, .relation R') else none
  | some (.error w) =>
    if acceptsW A w && !acceptsW B w then some (false, .witness w) else none

/-! ### the dispatcher -/

/-- model of `SanitizeAutsForInclusion`: useless states are removed and the states are renumbered, `A` with
`0 … |A|-1` and `B` with `|A| … |A|+|B|-1` (order of first occurrence instead of the order of the hash containers) -/
def nfaSanitize (A B : NFA) : NFA × NFA :=
  let A' := nfaRemoveUseless A
  let B' := nfaRemoveUseless B
  (nfaMap (fun q => (nfaStateList A').idxOf q) A',
   nfaMap (fun q => (nfaStateList A').length + (nfaStateList B').idxOf q) B')

/-- model of `CheckInclusion` with `ANTICHAINS_NOSIM` -/
def checkNfaInclAC (A B : NFA) (fuel : Nat) : Option (Bool × Cert) :=
  nfaInclAC (nfaSanitize A B).1 (nfaSanitize A B).2 fuel

/-- model of `CheckInclusion` with `CONGR_BREADTH_NOSIM` / `CONGR_DEPTH_NOSIM` -/
def checkNfaInclCongr (A B : NFA) (breadth : Bool) (fuel : Nat) : Option (Bool × Cert) :=
  nfaInclCongr (nfaSanitize A B).1 (nfaSanitize A B).2 breadth fuel

end Vata
