/-! feasibility probe (throw-away): MTBDD canonicity -/
namespace Vata.M
inductive Node (α : Type) where
  | leaf (v : α)
  | node (var : Nat) (lo hi : Node α)
deriving DecidableEq

variable {α : Type}

def eval : Node α → (Nat → Bool) → α
  | .leaf v, _ => v
  | .node x lo hi, ρ => if ρ x then eval hi ρ else eval lo ρ

def size : Node α → Nat
  | .leaf _ => 1
  | .node _ lo hi => size lo + size hi + 1

/-- all variables strictly below `x` -/
def Below (x : Nat) : Node α → Prop
  | .leaf _ => True
  | .node y lo hi => y < x ∧ Below x lo ∧ Below x hi

/-- ordered (larger variables nearer the root, as `constructMTBDD` builds them) and reduced -/
def WF : Node α → Prop
  | .leaf _ => True
  | .node x lo hi => lo ≠ hi ∧ Below x lo ∧ Below x hi ∧ WF lo ∧ WF hi

def upd (ρ : Nat → Bool) (x : Nat) (b : Bool) : Nat → Bool := fun y => if y = x then b else ρ y

theorem Below.mono {x y : Nat} (h : x ≤ y) : ∀ {n : Node α}, Below x n → Below y n
  | .leaf _, _ => trivial
  | .node _ _ _, ⟨h1, h2, h3⟩ => ⟨Nat.lt_of_lt_of_le h1 h, Below.mono h h2, Below.mono h h3⟩

theorem eval_upd_of_below {x : Nat} (b : Bool) (ρ : Nat → Bool) :
    ∀ {n : Node α}, Below x n → eval n (upd ρ x b) = eval n ρ
  | .leaf _, _ => rfl
  | .node y lo hi, ⟨h1, h2, h3⟩ => by
    have hne : y ≠ x := Nat.ne_of_lt h1
    simp only [eval, upd, hne, if_false]
    rw [eval_upd_of_below b ρ h2, eval_upd_of_below b ρ h3]

theorem eval_node_false {x : Nat} {lo hi : Node α} (ρ : Nat → Bool) (bl : Below x lo) :
    eval (Node.node x lo hi) (upd ρ x false) = eval lo ρ := by
  have : upd ρ x false x = false := by simp [upd]
  simp only [eval, this, Bool.false_eq_true, if_false]
  exact eval_upd_of_below false ρ bl
theorem eval_node_true {x : Nat} {lo hi : Node α} (ρ : Nat → Bool) (bh : Below x hi) :
    eval (Node.node x lo hi) (upd ρ x true) = eval hi ρ := by
  have : upd ρ x true x = true := by simp [upd]
  simp only [eval, this, if_true]
  exact eval_upd_of_below true ρ bh

theorem canon_aux : ∀ (k : Nat) (a b : Node α), size a + size b ≤ k → WF a → WF b →
    (∀ ρ, eval a ρ = eval b ρ) → a = b := by
  intro k
  induction k with
  | zero =>
    intro a b h; cases a <;> simp [size] at h
  | succ k ih =>
    intro a b hk wa wb he
    have key : ∀ (x : Nat) (lo hi : Node α) (c : Node α), size lo + size hi ≤ k → WF (Node.node x lo hi) → Below x c →
        (∀ ρ, eval (Node.node x lo hi) ρ = eval c ρ) → False := by
      intro x lo hi c hs w hc hev
      obtain ⟨hne, bl, bh, wl, wh⟩ := w
      apply hne
      apply ih lo hi hs wl wh
      intro ρ
      have h0 := hev (upd ρ x false)
      have h1 := hev (upd ρ x true)
      rw [eval_node_false ρ bl, eval_upd_of_below false ρ hc] at h0
      rw [eval_node_true ρ bh, eval_upd_of_below true ρ hc] at h1
      rw [h0, h1]
    cases a with
    | leaf v =>
      cases b with
      | leaf w => have := he (fun _ => false); simp only [eval] at this; rw [this]
      | node y lo hi =>
        exfalso
        exact key y lo hi (Node.leaf v) (by simp [size] at hk; omega) wb trivial (fun ρ => (he ρ).symm)
    | node x alo ahi =>
      cases b with
      | leaf w =>
        exfalso
        exact key x alo ahi (Node.leaf w) (by simp [size] at hk; omega) wa trivial he
      | node y blo bhi =>
        rcases Nat.lt_trichotomy x y with hxy | hxy | hxy
        · exfalso
          refine key y blo bhi (Node.node x alo ahi) (by simp [size] at hk; omega) wb ?_ (fun ρ => (he ρ).symm)
          exact ⟨hxy, Below.mono (Nat.le_of_lt hxy) wa.2.1, Below.mono (Nat.le_of_lt hxy) wa.2.2.1⟩
        · subst hxy
          obtain ⟨_, al, ah, wal, wah⟩ := wa
          obtain ⟨_, bl, bh, wbl, wbh⟩ := wb
          have hlo : alo = blo := by
            apply ih alo blo (by simp [size] at hk; omega) wal wbl
            intro ρ
            have h0 := he (upd ρ x false)
            rw [eval_node_false ρ al, eval_node_false ρ bl] at h0
            exact h0
          have hhi : ahi = bhi := by
            apply ih ahi bhi (by simp [size] at hk; omega) wah wbh
            intro ρ
            have h1 := he (upd ρ x true)
            rw [eval_node_true ρ ah, eval_node_true ρ bh] at h1
            exact h1
          rw [hlo, hhi]
        · exfalso
          refine key x alo ahi (Node.node y blo bhi) (by simp [size] at hk; omega) wa ?_ he
          exact ⟨hxy, Below.mono (Nat.le_of_lt hxy) wb.2.1, Below.mono (Nat.le_of_lt hxy) wb.2.2.1⟩

theorem canonicity (a b : Node α) (wa : WF a) (wb : WF b) (h : ∀ ρ, eval a ρ = eval b ρ) : a = b :=
  canon_aux _ a b (Nat.le_refl _) wa wb h

#print axioms canonicity
end Vata.M
