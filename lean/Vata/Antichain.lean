/-!
# The antichain containers of the inclusion algorithms, as coded

Executable models (core Lean only) of the utility classes

* `VATA::Util::Antichain1C<Key>`            (`src/antichain1c.hh`)        → namespace `Vata.AC.One`
* `VATA::Util::SequentialAntichain1C<Key>`  (`src/antichain1c.hh`)        → namespace `Vata.AC.Seq`
* `VATA::Util::Antichain2Cv2<Key, T>`       (`src/antichain2c_v2.hh`)     → namespace `Vata.AC.Two`
* `VATA::Util::OrderedAntichain2C<AC, Less>`(`src/ordered_antichain2c.hh`)→ namespace `Vata.AC.Ord`

Every public member is a function of the same name, parameterised by the comparator(s) the C++ takes as template /
functor arguments.  Theorems: `Vata/Proofs/Antichain.lean`.

## Conventions of the models

* **Hash containers** (`std::unordered_set`, `std::unordered_map`) are lists without repeated keys.  Their iteration order
  is unspecified in the C++; the models keep insertion order, every observation compared with the real class is taken
  modulo that order (the driver sorts by key).  The two members that expose the hash order (`Antichain1C::next`,
  `Antichain2Cv2::get`: "`*data_.begin()`") take the element / key the table happened to list first as an argument
  (`pick`).
* **List nodes and iterators.**  `Antichain2Cv2` stores `std::list<T>` per key, hands out `TList::iterator`s (`insert`,
  the eraser callback of `refine`) and takes them back (`remove`).  A node of such a list is modelled as a pair
  `(id, value)`; the `id : Nat` stands for the address of the node (= the iterator), it is chosen by the caller of
  `insert` (the allocator) and has to be fresh.  The per-key lists keep their order exactly (`push_back`, in-place erase).
* **Direction of the comparators** – which argument is the stored element:
  `contains(keys, Q, cmp)` evaluates `cmp(P, Q)` with `P` stored, `Q` given; `refine(keys, Q, cmp)` likewise `cmp(P, Q)`.
  The algorithms (`explicit_tree_incl_up.cc`, `up_tree_incl_fctor.hh`, `explicit_finite_incl_fctor_cache.hh`) pass
  `lte` ("P ≤ Q": the stored set is smaller) together with the candidates `ind[q] = {p | q ≤ p}` to `contains`, and `gte`
  ("P ≥ Q", i.e. `lte(Q, P)`) together with `inv[q] = {p | p ≤ q}` to `refine`: a stored pair `(p, P)` *covers* `(q, Q)`
  iff `q ≤ p ∧ P ≤ Q`.  `Antichain1C` (the `post` sets) is used with `contains(ind[s])`, `refine(inv[s])`: it keeps the
  maximal states.
* `OrderedAntichain2C` keeps, besides the antichain, a `std::set` of `(key, iterator)` pairs ordered by `Less` applied to
  `(key, *iterator)`.  The model keeps the ascending list of `(key, id, value)`; `std::set::insert` / `erase(key)` /
  `begin()` are `setInsert` / `setErase` / head of the list (the tree search of the C++ and the linear search of the model
  agree whenever `Less` is a strict weak order, which `std::set` requires).
-/
namespace Vata.AC

/-! ## `Antichain1C<Key>` -/
namespace One
variable {κ : Type} [DecidableEq κ]

/-- `contains(candidates)`: is one of the candidates stored -/
def contains (d : List κ) (cands : List κ) : Bool := cands.any (fun p => decide (p ∈ d))

/-- `refine(candidates)`: `data_.erase(p)` for every candidate, in order -/
def refine (d : List κ) (cands : List κ) : List κ := cands.foldl (fun d p => d.erase p) d

/-- `insert(q)`: `data_.insert(q)` of a set -/
def insert (d : List κ) (q : κ) : List κ := if q ∈ d then d else d ++ [q]

/-- `next(s)`: `false` on the empty set; otherwise `s = *data_.begin()` (= `pick`, unspecified hash order) is removed.
`none` stands for `false` – and, in the model only, for a `pick` that is not stored -/
def next (d : List κ) (pick : κ) : Option (List κ) := if pick ∈ d then some (d.erase pick) else none

def clear (_ : List κ) : List κ := []

/-- the combination used for the `post` sets of the upward inclusion
(`if (post.contains(ind[s])) continue; post.refine(inv[s]); post.insert(s);`) -/
def offer (d : List κ) (up down : List κ) (q : κ) : List κ :=
  if contains d up then d else insert (refine d down) q

/-! ### histories over a pool of objects -/
inductive Op (κ : Type) where
  | contains (o : Nat) (cands : List κ)
  | refine (o : Nat) (cands : List κ)
  | insert (o : Nat) (q : κ)
  | next (o : Nat) (pick : Option κ)      -- what the real class returned: `none` = `false`
  | clear (o : Nat)
  | offer (o : Nat) (up down : List κ) (q : κ)

inductive Ans where
  | unit
  | bool (b : Bool)
  deriving DecidableEq, Repr

abbrev Pool (κ : Type) := List (List κ)

def obj (P : Pool κ) (o : Nat) : List κ := P.getD o []

def step (P : Pool κ) : Op κ → Pool κ × Ans
  | .contains o c => (P, .bool (contains (obj P o) c))
  | .refine o c => (P.set o (refine (obj P o) c), .unit)
  | .insert o q => (P.set o (insert (obj P o) q), .unit)
  | .next o none => (P, .bool (obj P o).isEmpty)          -- answer: "returning false was right"
  | .next o (some k) =>
    match next (obj P o) k with
    | some d' => (P.set o d', .bool true)
    | none => (P, .bool false)
  | .clear o => (P.set o [], .unit)
  | .offer o up down q => (P.set o (offer (obj P o) up down q), .bool (!contains (obj P o) up))

def run (P : Pool κ) (ops : List (Op κ)) : Pool κ := ops.foldl (fun P op => (step P op).1) P

end One

/-! ## `SequentialAntichain1C<Key>` -/
namespace Seq
variable {α : Type}

/-- the loop of `insert(key, cmp)`: `none` = `return false`; `some l` = the list left when the loop is over -/
def scan (cmp : α → α → Bool) (key : α) : List α → Option (List α)
  | [] => some []
  | x :: xs =>
    if cmp key x then none
    else if !cmp x key then (scan cmp key xs).map (x :: ·)
    else some (xs.filter (fun y => !cmp y key))

/-- `insert(key, cmp)` -/
def insert (cmp : α → α → Bool) (d : List α) (key : α) : Bool × List α :=
  match scan cmp key d with
  | none => (false, d)
  | some l => (true, l ++ [key])

def clear (_ : List α) : List α := []

def run (cmp : α → α → Bool) (d : List α) (keys : List α) : List α := keys.foldl (fun d k => (insert cmp d k).2) d

end Seq

/-! ## `Antichain2Cv2<Key, T>` -/
namespace Two
variable {κ β σ : Type} [DecidableEq κ]

/-- `data_` : `std::unordered_map<Key, std::list<T>>`; a list node is `(id, value)` -/
abbrev Data (κ β : Type) := List (κ × List (Nat × β))

/-- `lookup(key)`: `nullptr` (`none`) or the list -/
def lookup (d : Data κ β) (k : κ) : Option (List (Nat × β)) :=
  match d with
  | [] => none
  | e :: r => if e.1 = k then some e.2 else lookup r k

/-- the elements stored under a key (empty when there is no entry) -/
def listOf (d : Data κ β) (k : κ) : List (Nat × β) := (lookup d k).getD []

def keys (d : Data κ β) : List κ := d.map (·.1)

/-- `contains(candidates, Q, cmp)` -/
def contains (d : Data κ β) (cands : List κ) (Q : β) (cmp : β → β → Bool) : Bool :=
  cands.any (fun p =>
    match lookup d p with
    | none => false
    | some l => l.any (fun P => cmp P.2 Q))

/-- inner loop of `refine`: the eraser is called (with the iterator = id, and the value it points to) just before the
node is erased -/
def refineList (cmp : β → β → Bool) (Q : β) (er : Nat → β → σ → σ) : List (Nat × β) → σ → List (Nat × β) × σ
  | [], s => ([], s)
  | P :: r, s =>
    if cmp P.2 Q then refineList cmp Q er r (er P.1 P.2 s)
    else
      let x := refineList cmp Q er r s
      (P :: x.1, x.2)

/-- one candidate `p` of `refine`: `find`, inner loop, `if (iter->second.empty()) data_.erase(iter)` -/
def refineKey (cmp : β → β → Bool) (Q : β) (er : κ → Nat → β → σ → σ) (p : κ) : Data κ β → σ → Data κ β × σ
  | [], s => ([], s)
  | e :: r, s =>
    if e.1 = p then
      let x := refineList cmp Q (er p) e.2 s
      (if x.1.isEmpty then r else (e.1, x.1) :: r, x.2)
    else
      let x := refineKey cmp Q er p r s
      (e :: x.1, x.2)

/-- `refine(candidates, Q, cmp, eraser)`; `σ` is whatever the eraser acts on -/
def refine (d : Data κ β) (cands : List κ) (Q : β) (cmp : β → β → Bool) (er : κ → Nat → β → σ → σ) (s : σ) :
    Data κ β × σ :=
  cands.foldl (fun x p => refineKey cmp Q er p x.1 x.2) (d, s)

/-- `refine(candidates, Q, cmp)` with the default `DummyEraser` -/
def refine0 (d : Data κ β) (cands : List κ) (Q : β) (cmp : β → β → Bool) : Data κ β :=
  (refine d cands Q cmp (fun _ _ _ (u : Unit) => u) ()).1

/-- `insert(q, Q)`; the returned iterator is `i` -/
def insert (d : Data κ β) (i : Nat) (q : κ) (Q : β) : Data κ β :=
  match d with
  | [] => [(q, [(i, Q)])]
  | e :: r => if e.1 = q then (e.1, e.2 ++ [(i, Q)]) :: r else e :: insert r i q Q

/-- `get(q, Q)`: `pick` is `data_.begin()->first` (unspecified hash order); the front of its list is popped.
`none` stands for `false` (empty map) – and, in the model only, for a `pick` that is not a key -/
def get (d : Data κ β) (pick : κ) : Option ((Nat × β) × Data κ β) :=
  match d with
  | [] => none
  | e :: r =>
    if e.1 = pick then
      match e.2 with
      | [] => none
      | P :: l => some (P, if l.isEmpty then r else (e.1, l) :: r)
    else (get r pick).map (fun x => (x.1, e :: x.2))

/-- `remove(q, iterator)`; contract of the C++ (asserted only): `q` is a key and the iterator points into its list -/
def remove (d : Data κ β) (q : κ) (i : Nat) : Data κ β :=
  match d with
  | [] => []
  | e :: r =>
    if e.1 = q then
      let l := e.2.filter (fun P => P.1 != i)
      if l.isEmpty then r else (e.1, l) :: r
    else e :: remove r q i

def size (d : Data κ β) : Nat := d.foldl (fun n e => n + e.2.length) 0

def empty (d : Data κ β) : Bool := d.isEmpty

def clear (_ : Data κ β) : Data κ β := []

/-- the combination used by the algorithms:
`if (!ac.contains(up, Q, lte)) { ac.refine(down, Q, gte); ac.insert(q, Q); }` with `gte(P, Q) = lte(Q, P)` -/
def offer (d : Data κ β) (up down : List κ) (le : β → β → Bool) (i : Nat) (q : κ) (Q : β) : Data κ β :=
  if contains d up Q le then d else insert (refine0 d down Q (fun P Q => le Q P)) i q Q

/-! ### histories over a pool of objects; node ids come from one counter -/
inductive Op (κ β : Type) where
  | contains (o : Nat) (cands : List κ) (Q : β) (cmp : β → β → Bool)
  | refine (o : Nat) (cands : List κ) (Q : β) (cmp : β → β → Bool)
  | insert (o : Nat) (q : κ) (Q : β)
  | get (o : Nat) (pick : Option κ)          -- what the real class returned: `none` = `false`
  | remove (o : Nat) (q : κ) (i : Nat)
  | lookup (o : Nat) (k : κ)
  | size (o : Nat)
  | empty (o : Nat)
  | clear (o : Nat)
  | swap (o o' : Nat)
  | offer (o : Nat) (up down : List κ) (le : β → β → Bool) (q : κ) (Q : β)

inductive Ans (κ β : Type) where
  | unit
  | bool (b : Bool)
  | nat (n : Nat)
  | erased (l : List (κ × Nat × β))            -- the calls of the eraser, in order
  | node (x : Option (Nat × β))
  | list (l : Option (List (Nat × β)))

structure Pool (κ β : Type) where
  objs : List (Data κ β)
  next : Nat

def obj (P : Pool κ β) (o : Nat) : Data κ β := P.objs.getD o []

def setObj (P : Pool κ β) (o : Nat) (d : Data κ β) : Pool κ β := { P with objs := P.objs.set o d }

def step (P : Pool κ β) : Op κ β → Pool κ β × Ans κ β
  | .contains o c Q cmp => (P, .bool (contains (obj P o) c Q cmp))
  | .refine o c Q cmp =>
    let x := refine (obj P o) c Q cmp (fun p i v (l : List (κ × Nat × β)) => l ++ [(p, i, v)]) []
    (setObj P o x.1, .erased x.2)
  | .insert o q Q => ({ setObj P o (insert (obj P o) P.next q Q) with next := P.next + 1 }, .nat P.next)
  | .get o none => (P, .bool (obj P o).isEmpty)           -- answer: "returning false was right"
  | .get o (some k) =>
    match get (obj P o) k with
    | some (n, d') => (setObj P o d', .node (some n))
    | none => (P, .node none)
  | .remove o q i => (setObj P o (remove (obj P o) q i), .unit)
  | .lookup o k => (P, .list (lookup (obj P o) k))
  | .size o => (P, .nat (size (obj P o)))
  | .empty o => (P, .bool (empty (obj P o)))
  | .clear o => (setObj P o [], .unit)
  | .swap o o' =>
    let a := obj P o
    let b := obj P o'
    (setObj (setObj P o b) o' a, .unit)
  | .offer o up down le q Q =>
    let d := obj P o
    if contains d up Q le then (P, .bool false)
    else ({ setObj P o (offer d up down le P.next q Q) with next := P.next + 1 }, .bool true)

def run (P : Pool κ β) (ops : List (Op κ β)) : Pool κ β := ops.foldl (fun P op => (step P op).1) P

end Two

/-! ## `OrderedAntichain2C<Antichain2C, Less>` -/
namespace Ord
variable {κ β : Type} [DecidableEq κ]

/-- an element of `data_` : `(key, iterator)`, compared through `(key, *iterator)` -/
abbrev Entry (κ β : Type) := κ × Nat × β

/-- `OrderedAntichain2C::less` -/
def ltE (lt : κ × β → κ × β → Bool) (a b : Entry κ β) : Bool := lt (a.1, a.2.2) (b.1, b.2.2)

/-- `std::set::insert`: no insertion when an equivalent element is present -/
def setInsert (lt : κ × β → κ × β → Bool) (e : Entry κ β) : List (Entry κ β) → List (Entry κ β)
  | [] => [e]
  | x :: xs =>
    if ltE lt e x then e :: x :: xs
    else if ltE lt x e then x :: setInsert lt e xs
    else x :: xs

/-- the element `std::set::insert(e).first` points to: `e` itself, or the equivalent element that was there -/
def setFind (lt : κ × β → κ × β → Bool) (e : Entry κ β) : List (Entry κ β) → Entry κ β
  | [] => e
  | x :: xs =>
    if ltE lt e x then e
    else if ltE lt x e then setFind lt e xs
    else x

/-- `std::set::erase(key)`: the element equivalent to `e` (there is at most one) goes -/
def setErase (lt : κ × β → κ × β → Bool) (e : Entry κ β) : List (Entry κ β) → List (Entry κ β)
  | [] => []
  | x :: xs =>
    if ltE lt x e then x :: setErase lt e xs
    else if ltE lt e x then x :: xs
    else xs

structure State (κ β : Type) where
  ac : Two.Data κ β                  -- `antichain_`
  data : List (Entry κ β)            -- `data_`, ascending

def init : State κ β := ⟨[], []⟩

def lookup (o : State κ β) (k : κ) : Option (List (Nat × β)) := Two.lookup o.ac k

def contains (o : State κ β) (cands : List κ) (Q : β) (cmp : β → β → Bool) : Bool := Two.contains o.ac cands Q cmp

/-- `refine`: the antichain's `refine` with the eraser `data_.erase(std::make_pair(q, Q))` -/
def refine (lt : κ × β → κ × β → Bool) (o : State κ β) (cands : List κ) (Q : β) (cmp : β → β → Bool) : State κ β :=
  let x := Two.refine o.ac cands Q cmp (fun p i v (s : List (Entry κ β)) => setErase lt (p, i, v) s) o.data
  ⟨x.1, x.2⟩

/-- `insert(q, Q)` -/
def insert (lt : κ × β → κ × β → Bool) (o : State κ β) (i : Nat) (q : κ) (Q : β) : State κ β :=
  ⟨Two.insert o.ac i q Q, setInsert lt (q, i, Q) o.data⟩

/-- the iterator `insert` returns -/
def insertRet (lt : κ × β → κ × β → Bool) (o : State κ β) (i : Nat) (q : κ) (Q : β) : Entry κ β :=
  setFind lt (q, i, Q) o.data

/-- `get(q, Q)`: `data_.begin()`, `antichain_.remove(i->first, i->second)`, `data_.erase(i)` -/
def get (o : State κ β) : Option (Entry κ β × State κ β) :=
  match o.data with
  | [] => none
  | e :: r => some (e, ⟨Two.remove o.ac e.1 e.2.1, r⟩)

def clear (_ : State κ β) : State κ β := ⟨[], []⟩

def empty (o : State κ β) : Bool := o.data.isEmpty

/-- `AddToNext` of `explicit_finite_incl_fctor_cache.hh`:
`if (!next_.contains(up, Q, lte)) { next_.refine(down, Q, gte); next_.insert(q, Q); }` -/
def offer (lt : κ × β → κ × β → Bool) (o : State κ β) (up down : List κ) (le : β → β → Bool) (i : Nat) (q : κ) (Q : β) :
    State κ β :=
  if contains o up Q le then o else insert lt (refine lt o down Q (fun P Q => le Q P)) i q Q

/-! ### histories over a pool of objects (one `Less` for the pool, as it is a template argument) -/
inductive Op (κ β : Type) where
  | contains (o : Nat) (cands : List κ) (Q : β) (cmp : β → β → Bool)
  | refine (o : Nat) (cands : List κ) (Q : β) (cmp : β → β → Bool)
  | insert (o : Nat) (q : κ) (Q : β)
  | get (o : Nat)
  | lookup (o : Nat) (k : κ)
  | empty (o : Nat)
  | clear (o : Nat)
  | offer (o : Nat) (up down : List κ) (le : β → β → Bool) (q : κ) (Q : β)

inductive Ans (κ β : Type) where
  | unit
  | bool (b : Bool)
  | entry (x : Option (Entry κ β))
  | list (l : Option (List (Nat × β)))

structure Pool (κ β : Type) where
  objs : List (State κ β)
  next : Nat

def obj (P : Pool κ β) (o : Nat) : State κ β := P.objs.getD o init

def setObj (P : Pool κ β) (o : Nat) (d : State κ β) : Pool κ β := { P with objs := P.objs.set o d }

def step (lt : κ × β → κ × β → Bool) (P : Pool κ β) : Op κ β → Pool κ β × Ans κ β
  | .contains o c Q cmp => (P, .bool (contains (obj P o) c Q cmp))
  | .refine o c Q cmp => (setObj P o (refine lt (obj P o) c Q cmp), .unit)
  | .insert o q Q =>
    ({ setObj P o (insert lt (obj P o) P.next q Q) with next := P.next + 1 }, .entry (some (insertRet lt (obj P o) P.next q Q)))
  | .get o =>
    match get (obj P o) with
    | some (e, s) => (setObj P o s, .entry (some e))
    | none => (P, .entry none)
  | .lookup o k => (P, .list (lookup (obj P o) k))
  | .empty o => (P, .bool (empty (obj P o)))
  | .clear o => (setObj P o init, .unit)
  | .offer o up down le q Q =>
    let d := obj P o
    if contains d up Q le then (P, .bool false)
    else ({ setObj P o (offer lt d up down le P.next q Q) with next := P.next + 1 }, .bool true)

def run (lt : κ × β → κ × β → Bool) (P : Pool κ β) (ops : List (Op κ β)) : Pool κ β :=
  ops.foldl (fun P op => (step lt P op).1) P

end Ord

/-! ## the instantiation used by the correspondence check: keys `size_t`, elements finite sets of `size_t` -/

/-- sorted duplicate-free list = `std::set<size_t>` / `OrdVector<size_t>` -/
abbrev NSet := List Nat

def subsetB (a b : NSet) : Bool := a.all (fun x => b.contains x)

/-- the comparators the harness can pass, named by a letter -/
def cmpOf (c : Char) : NSet → NSet → Bool :=
  match c with
  | 'b' => fun P Q => subsetB P Q            -- P ⊆ Q
  | 'p' => fun P Q => subsetB Q P            -- P ⊇ Q
  | 'e' => fun P Q => P == Q
  | 'n' => fun P Q => P != Q                 -- neither reflexive nor transitive
  | 's' => fun P Q => P.length < Q.length    -- irreflexive
  | 't' => fun _ _ => true
  | _ => fun _ _ => false

def lexLt : List Nat → List Nat → Bool
  | [], [] => false
  | [], _ :: _ => true
  | _ :: _, [] => false
  | a :: as, b :: bs => if a < b then true else if b < a then false else lexLt as bs

/-- the `Less` functors of the harness: 0 = the one of `explicit_finite_incl_fctor_cache.hh` (size, key, then the set –
there an address, here the lexicographic order); 1 = size only (a strict weak order with big equivalence classes);
2 = larger sets first, then key descending, then the set -/
def lessOf (n : Nat) : Nat × NSet → Nat × NSet → Bool :=
  match n with
  | 0 => fun a b =>
    if a.2.length < b.2.length then true else if b.2.length < a.2.length then false
    else if a.1 < b.1 then true else if b.1 < a.1 then false else lexLt a.2 b.2
  | 1 => fun a b => a.2.length < b.2.length
  | _ => fun a b =>
    if b.2.length < a.2.length then true else if a.2.length < b.2.length then false
    else if b.1 < a.1 then true else if a.1 < b.1 then false else lexLt a.2 b.2

end Vata.AC
