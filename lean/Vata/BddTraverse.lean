import Vata.BddAbsTD
import Vata.InclUpBdd
/-!
# The symbolic traversals of the BDD inclusion algorithms (property C07)

What is modelled

* `BDDBUTreeAutCore::ForeachUpSymbolFromTupleAndTupleSetDo(lhs, rhs, lhsTuple, rhsTupleSet, opFunc)`
  (`src/bdd_bu_tree_aut_core.hh`): `rhsUnionMtbdd` starts as the MTBDD `leaf ∅` and is united (`UnionApplyFunctor`,
  `apply2 unionS`) with `rhs.GetMtbdd(tuple)` for every tuple of `rhsTupleSet` (`unionAll`); then a
  `VoidApply2Functor` runs over `lhs.GetMtbdd(lhsTuple)` and `rhsUnionMtbdd`, its `ApplyOperation(lhsSet, rhsSet)` hands
  the two LEAVES (a set of parents of `lhs`, the set of parents of `rhs`) to `opFunc` and stops the traversal when
  `opFunc.IsProcessingStopped()` (`travUp`, `foreachUpT`);
* `BDDTDTreeAutCore::ForeachDownSymbolFromStateAndStateSetDo(lhs, rhs, lhsState, rhsSet, opFunc)`
  (`src/bdd_td_tree_aut_core.hh`): the same with the top-down tables – `rhsUnionMtbdd` is the union of
  `rhs.GetMtbdd(q)` for `q ∈ rhsSet` (`unionAllTD`), the leaves are sets of children tuples (`travDown`);
* `VoidApply2Functor` (`src/mtbdd/void_apply2func.hh`) AS CODED: `recDescend` with the hash set `ht` of the visited
  pairs of nodes, cleared by `operator()` (`voidApply2C`, node identity = structural equality by hash-consing; a
  pair is inserted after its two sub-calls); `voidApply2P` is the traversal without the cache, once per PATH of the
  combined diagram (`Vata.M.voidApply2` with the path).  A path – the list of the tested variables with their values,
  root first – is a *symbol class*: the set of the valuations (symbols) that follow it (`inPath`).  The C++ callback
  never sees the class; it is carried as a ghost to state what the traversal enumerates; `reprSym` is the smallest
  symbol of the class (`reprSym_le` in the proofs file);
* `CheckUpwardTreeInclusion` (`src/tree_incl_up.hh`) with `UpwardInclusionFunctor` on the TABLES: `actUp` is
  `UpwardInclusionFunctor::operator()(lhs, rhs)` (for every state of the left leaf `InclUpBdd.fctor`), `runG` the
  initial call for the empty tuple and the work-list over `for (auto tupleBddPair : smaller.GetTransTable())`
  (`Table.keys`: the nullary pair first), `runT`/`inclUpTrav` the algorithm; `tupleSet` is the product of the chosen
  macro-states (`prodTuples`, `ChoiceFunctionGenerator`; empty when a macro-state is empty).  The pairs carry a ghost
  tree whose root symbol is `reprSym` of the class.

Definitions only (core Lean); the theorems are in `Vata/Proofs/BddTraverse.lean`.
-/
namespace Vata
namespace BddTraverse
open M BddAbs BddAbsTD InclUp InclUpBdd

variable {α β : Type}

/-! ### symbol classes -/

/-- a path of the combined diagram: the tested variables with the branch taken, root first -/
abbrev Path := List (Nat × Bool)

/-- the valuation `ρ` follows the path -/
def inPath (ρ : Nat → Bool) (π : Path) : Bool := π.all (fun xb => ρ xb.1 == xb.2)

/-- the smallest symbol of the class: the untested variables are 0 -/
def reprSym : Path → Nat
  | [] => 0
  | (x, b) :: π => (if b then 2 ^ x else 0) + reprSym π

def pcons (xb : Nat × Bool) (c : Path × α × β) : Path × α × β := (xb :: c.1, c.2)

/-- the calls below a branching on the variable `x`: those of the low successors, then those of the high successors -/
def branchL (x : Nat) (l₀ l₁ : List (Path × α × β)) : List (Path × α × β) :=
  l₀.map (pcons (x, false)) ++ l₁.map (pcons (x, true))

/-! ### `VoidApply2Functor` -/

/-- the traversal without the cache: one call of `ApplyOperation` per path, with the path -/
def voidApply2P : Node α → Node β → List (Path × α × β)
  | .leaf v, .leaf w => [([], v, w)]
  | .node x lo hi, .leaf w =>
    branchL x (voidApply2P lo (.leaf w)) (voidApply2P hi (.leaf w))
  | .leaf v, .node y lo hi =>
    branchL y (voidApply2P (.leaf v) lo) (voidApply2P (.leaf v) hi)
  | .node x alo ahi, .node y blo bhi =>
    if x = y then branchL x (voidApply2P alo blo) (voidApply2P ahi bhi)
    else if y < x then
      branchL x (voidApply2P alo (.node y blo bhi)) (voidApply2P ahi (.node y blo bhi))
    else
      branchL y (voidApply2P (.node x alo ahi) blo) (voidApply2P (.node x alo ahi) bhi)
termination_by a b => size a + size b
decreasing_by all_goals (simp only [size]; omega)

/-- the hash set `ht` of `VoidApply2Functor` -/
abbrev Cache (α β : Type) := List (Node α × Node β)

/-- `VoidApply2Functor::recDescend` as coded: nothing happens on a pair of nodes found in `ht`; a leaf pair calls
`ApplyOperation` and is inserted; an inner pair descends to the low and to the high successors and is inserted
afterwards.  The result: the calls of `ApplyOperation` (with the ghost path below the pair) and the new `ht` -/
def voidApply2C [DecidableEq α] [DecidableEq β] :
    Node α → Node β → Cache α β → List (Path × α × β) × Cache α β
  | .leaf v, .leaf w, ht =>
    if ht.contains (.leaf v, .leaf w) then ([], ht) else ([([], v, w)], (.leaf v, .leaf w) :: ht)
  | .node x lo hi, .leaf w, ht =>
    if ht.contains (.node x lo hi, .leaf w) then ([], ht) else
      let r₁ := voidApply2C lo (.leaf w) ht
      let r₂ := voidApply2C hi (.leaf w) r₁.2
      (branchL x r₁.1 r₂.1, (.node x lo hi, .leaf w) :: r₂.2)
  | .leaf v, .node y lo hi, ht =>
    if ht.contains (.leaf v, .node y lo hi) then ([], ht) else
      let r₁ := voidApply2C (.leaf v) lo ht
      let r₂ := voidApply2C (.leaf v) hi r₁.2
      (branchL y r₁.1 r₂.1, (.leaf v, .node y lo hi) :: r₂.2)
  | .node x alo ahi, .node y blo bhi, ht =>
    if ht.contains (.node x alo ahi, .node y blo bhi) then ([], ht) else
      if x = y then
        let r₁ := voidApply2C alo blo ht
        let r₂ := voidApply2C ahi bhi r₁.2
        (branchL x r₁.1 r₂.1, (.node x alo ahi, .node y blo bhi) :: r₂.2)
      else if y < x then
        let r₁ := voidApply2C alo (.node y blo bhi) ht
        let r₂ := voidApply2C ahi (.node y blo bhi) r₁.2
        (branchL x r₁.1 r₂.1, (.node x alo ahi, .node y blo bhi) :: r₂.2)
      else
        let r₁ := voidApply2C (.node x alo ahi) blo ht
        let r₂ := voidApply2C (.node x alo ahi) bhi r₁.2
        (branchL y r₁.1 r₂.1, (.node x alo ahi, .node y blo bhi) :: r₂.2)
termination_by a b _ => size a + size b
decreasing_by all_goals (simp only [size]; omega)

/-- `VoidApply2Functor::operator()`: `ht.clear()`, then `recDescend` on the roots -/
def voidApply2Calls [DecidableEq α] [DecidableEq β] (a : Node α) (b : Node β) : List (Path × α × β) :=
  (voidApply2C a b []).1

/-! ### a callback with `stopProcessing` -/

/-- the calls of a callback in turn; an error (`stopProcessing`) ends the run -/
def runL {ι σ ε : Type} (act : ι → σ → Except ε σ) : List ι → σ → Except ε σ
  | [], s => .ok s
  | i :: l, s =>
    match act i s with
    | .error e => .error e
    | .ok s' => runL act l s'

/-- what the (ghost-instrumented) callback receives for a call of `ApplyOperation`: a symbol of the class, the two leaves -/
def symItem (c : Path × α × β) : Nat × α × β := (reprSym c.1, c.2.1, c.2.2)

/-! ### `ForeachUpSymbolFromTupleAndTupleSetDo` -/

/-- `rhsUnionMtbdd`: the union of the MTBDDs of the tuples, starting from `leaf ∅` -/
def unionAll (T : Table) (tuples : List (List Nat)) : MT :=
  tuples.foldl (fun m k => apply2 unionS m (T.get k)) (.leaf [])

/-- the calls of `ApplyOperation(lhsSet, rhsSet)` of `ForeachUpSymbolFromTupleAndTupleSetDo(A, B, ks, tuples, ·)`, as
coded (with the cache), each with its (ghost) symbol class -/
def travUp (TA TB : Table) (ks : List Nat) (tuples : List (List Nat)) : List (Path × List Nat × List Nat) :=
  voidApply2Calls (TA.get ks) (unionAll TB tuples)

/-- the same once per path of the combined diagram (no cache) -/
def travUpP (TA TB : Table) (ks : List Nat) (tuples : List (List Nat)) : List (Path × List Nat × List Nat) :=
  voidApply2P (TA.get ks) (unionAll TB tuples)

/-- `tupleSet` of `CheckUpwardTreeInclusion`: all choice functions of the tuple of macro-states (`{()}` for the empty
tuple, empty when a macro-state is empty); in the order of `std::set` when the macro-states are sorted -/
def prodTuples : List (List Nat) → List (List Nat)
  | [] => [[]]
  | S :: Ss => S.flatMap (fun x => (prodTuples Ss).map (fun k => x :: k))

/-- `UpwardInclusionFunctor::operator()(lhs, rhs)`: `InclUpBdd.fctor` for every state of the left leaf (only the final
states of the two automata are used); `c.1` is the ghost symbol for the tree of the pair -/
def actUp (FA FB : List Nat) (ts : List Tree) (c : Nat × List Nat × List Nat) (st : InclUpBdd.St) : Res InclUpBdd.St :=
  runL (fun p st => fctor ⟨[], FA⟩ ⟨[], FB⟩ st ⟨p, c.2.2, .node c.1 ts⟩) c.2.1 st

/-- `ForeachUpSymbolFromTupleAndTupleSetDo(A, B, ks, S₁ × … × Sₙ, upFctor)` on the tables -/
def foreachUpT (TA TB : Table) (FA FB : List Nat) (ks : List Nat) (Ss : List (List Nat)) (ts : List Tree)
    (st : InclUpBdd.St) : Res InclUpBdd.St :=
  runL (actUp FA FB ts) ((travUp TA TB ks (prodTuples Ss)).map symItem) st

/-- the same with the traversal that has no cache -/
def foreachUpP (TA TB : Table) (FA FB : List Nat) (ks : List Nat) (Ss : List (List Nat)) (ts : List Tree)
    (st : InclUpBdd.St) : Res InclUpBdd.St :=
  runL (actUp FA FB ts) ((travUpP TA TB ks (prodTuples Ss)).map symItem) st

/-! ### `CheckUpwardTreeInclusion`, parametric in the traversal -/

/-- the traversal as the algorithm uses it: tuple, macro-states, (ghost) trees, state -/
abbrev Foreach := List Nat → List (List Nat) → List Tree → InclUpBdd.St → Res InclUpBdd.St

/-- `InclUpBdd.procCombos` -/
def procCombosG (fe : Foreach) (ks : List Nat) : List (List Item) → InclUpBdd.St → Res InclUpBdd.St
  | [], st => .ok st
  | is :: iss, st =>
    match fe ks (is.map (·.S)) (is.map (·.t)) st with
    | .error e => .error e
    | .ok st' => procCombosG fe ks iss st'

/-- `InclUpBdd.procTuple`: the body of `for (auto tupleBddPair : smaller.GetTransTable())` -/
def procTupleG (fe : Foreach) (it : Item) (ks : List Nat) (st : InclUpBdd.St) : Res InclUpBdd.St :=
  if ks.contains it.q && ready st.antichain it.q ks then
    procCombosG fe ks (combos (ks.map (choicesPos st.antichain it))) st
  else .ok st

/-- `InclUpBdd.runWith`: the empty tuple first, then the work-list over the tuples `keys` of the table -/
def runG (fe : Foreach) (keys : List (List Nat)) (fuel : Nat) : Option (Res (List Item)) :=
  match fe [] [] [] ⟨[], []⟩ with
  | .error e => some (.error e)
  | .ok st => InclUpBdd.loop (procTupleG fe) keys fuel st

/-- `CheckUpwardTreeInclusion` on the tables `TA`, `TB` with the final states `FA`, `FB` -/
def runT (TA : Table) (FA : List Nat) (TB : Table) (FB : List Nat) (fuel : Nat) : Option (Res (List Item)) :=
  runG (foreachUpT TA TB FA FB) TA.keys fuel

/-- the verdict of the traversal-based algorithm: `error` = `return false`, `ok` = `return true` (uncertified; `none` = out of
fuel) -/
def inclUpTrav (TA : Table) (FA : List Nat) (TB : Table) (FB : List Nat) (fuel : Nat) : Option Bool :=
  match runT TA FA TB FB fuel with
  | none => none
  | some (.ok _) => some true
  | some (.error _) => some false

/-! ### `ForeachDownSymbolFromStateAndStateSetDo` -/

/-- `rhsUnionMtbdd` of the top-down traversal: the union of the MTBDDs of the states of `rhsSet` -/
def unionAllTD (T : TableTD) (P : List Nat) : MTD :=
  P.foldl (fun m q => apply2 unionTS m (getTD T q)) (.leaf [])

/-- the calls of `ApplyOperation(lhsTuples, rhsTuples)` of `ForeachDownSymbolFromStateAndStateSetDo(A, B, p, P, ·)` as
coded, each with its (ghost) class of valuations of the symbol and arity variables -/
def travDown (TA TB : TableTD) (p : Nat) (P : List Nat) : List (Path × List (List Nat) × List (List Nat)) :=
  voidApply2Calls (getTD TA p) (unionAllTD TB P)

/-- the same once per path (no cache) -/
def travDownP (TA TB : TableTD) (p : Nat) (P : List Nat) : List (Path × List (List Nat) × List (List Nat)) :=
  voidApply2P (getTD TA p) (unionAllTD TB P)

/-- the traversal with a callback `act` that may stop it (`DownwardInclusionFunctor::operator()` is such a callback) -/
def foreachDownT {σ ε : Type} (TA TB : TableTD) (p : Nat) (P : List Nat)
    (act : List (List Nat) × List (List Nat) → σ → Except ε σ) (s : σ) : Except ε σ :=
  runL act ((travDown TA TB p P).map (·.2)) s

end BddTraverse
end Vata
