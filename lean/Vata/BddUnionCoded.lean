import Vata.BddAbsTD
import Vata.UnionModel
import Vata.BddShare
/-!
# `Union` / `UnionDisjointStates` of the two BDD encodings AS CODED (property C08)

C++: `src/bdd_td_tree_aut_union.cc`, `src/bdd_td_tree_aut_union_disj.cc`, `src/bdd_bu_tree_aut_union.cc`,
`src/bdd_bu_tree_aut_union_disj.cc`, `ReindexStates` of `src/bdd_td_tree_aut_core.cc` and `src/bdd_bu_tree_aut_core.cc`,
`include/vata/util/transl_weak.hh`, `src/mtbdd/apply1func.hh`, `src/bdd_bu_tt_wrapper.hh`.

An automaton object is a handle `(tid, T, fin)`: `tid` names the table OBJECT its `shared_ptr` points to
(`ShareTransTable(lhs, rhs)` compares the pointers, here `lhs.tid = rhs.tid`), `T` is the VALUE of the table as the object
sees it (`BddAbsTD.TableTD`; bottom-up `BddAbs.Table`: the object's OWN `nullaryMtbdd_` plus the entries of the shared
table), `fin` its own `finalStates_`.  Two handles with the same `tid` see the same table value (`SameTD` / `SameBU`, a
hypothesis of the theorems about the shared branches – it is the heap invariant of `Vata/BddShare.lean`).

The translators are threaded as coded: a translator state is the pair (`StateToStateMap`, `stateCnt`); ONE counter serves
both translators of `Union` (`translFunc` captures `stateCnt` by reference).  Every call `stateTrans(q)` is `tr1`
(`TranslatorWeak::operator()`, `weakTr` of `Vata/UnionModel.lean`).  `rewrite` is the `Apply1Functor` traversal
(`recDescend`: low subtree, then high subtree, `ApplyOperation` at the leaves) with a leaf operation that changes the
translator state.  The counter starts at `c0`; the code has `StateType stateCnt = 0;` – `tdUnion` / `buUnion` are the
instances `c0 = 0`.

What is abstracted: the leaf cache of `Apply1Functor` (a leaf reached twice is rewritten once; a second rewriting would ask
the translator only for states it already knows, which changes neither the map nor the counter – `tr1_known`), the
`ApplyOperation` on the default value (the empty set: no translator call), the iteration orders of the hash maps (list
order of the table; the theorems do not depend on it), and entries are read with `GetMtbdd(key)` instead of the
iterator's `second` (the same for a map with unique keys; the list model tolerates repeated keys that way).
-/
namespace Vata
namespace BddUnionCoded
open M BddAbs BddAbsTD

/-- a weak translator: the caller's map and the shared counter `stateCnt` -/
abbrev TrSt := SMap × Nat

/-- `stateTrans(q)`: the number of `q` and the new translator state -/
def tr1 (s : TrSt) (q : Nat) : Nat × TrSt :=
  let s' := weakTr s.1 s.2 q
  (applyMap s'.1 q, s')

/-- `for (q : tuple) resTuple.push_back(trans_(q))` -/
def trList : TrSt → List Nat → List Nat × TrSt
  | s, [] => ([], s)
  | s, q :: qs =>
    let r := tr1 s q
    let rs := trList r.2 qs
    (r.1 :: rs.1, rs.2)

/-- `for (tuple : value) { … result.insert(resTuple) }` before the insertions -/
def trTuples : TrSt → List (List Nat) → List (List Nat) × TrSt
  | s, [] => ([], s)
  | s, ks :: l =>
    let r := trList s ks
    let rs := trTuples r.2 l
    (r.1 :: rs.1, rs.2)

/-- top-down `RewriteApplyFunctor::ApplyOperation` (the result is an `OrdVector` of tuples) -/
def leafOpTD (s : TrSt) (l : List (List Nat)) : List (List Nat) × TrSt :=
  let r := trTuples s l
  (normT r.1, r.2)

/-- bottom-up `RewriteApplyFunctor::ApplyOperation` (the result is an `OrdVector` of states) -/
def leafOpBU (s : TrSt) (l : List Nat) : List Nat × TrSt :=
  let r := trList s l
  (InclUp.normS r.1, r.2)

/-- `Apply1Functor::recDescend` with a leaf operation that has a side effect on the translator:
`lowOutTree = recDescend(low1Tree); highOutTree = recDescend(high1Tree);` then `spawnInternal` unless both are equal -/
def rewrite {α β : Type} [DecidableEq β] (leafOp : TrSt → α → β × TrSt) : TrSt → Node α → Node β × TrSt
  | s, .leaf v =>
    let r := leafOp s v
    (.leaf r.1, r.2)
  | s, .node x lo hi =>
    let l := rewrite leafOp s lo
    let h := rewrite leafOp l.2 hi
    (mk x l.1 h.1, h.2)

/-! ## top-down -/

structure AutTD where
  /-- the table object (`transTable_.get()`) -/
  tid : Nat
  T : TableTD
  fin : List Nat

/-- `for (auto stateBddPair : this->GetStates()) { StateType newState = stateTrans(stateBddPair.first);`
`dstAut.SetMtbdd(newState, rewriter(stateBddPair.second)); }` – note the `SetMtbdd`: an entry of `dstAut` with the same
new number is REPLACED -/
def reindexLoopTD (T : TableTD) : List (Nat × MTD) → TableTD → TrSt → TableTD × TrSt
  | [], R, s => (R, s)
  | e :: L, R, s =>
    let k := tr1 s e.1
    let m := rewrite leafOpTD k.2 (getTD T e.1)
    reindexLoopTD T L (setTD R k.1 m.1) m.2

/-- `BDDTDTreeAutCore::ReindexStates(dstAut, stateTrans)`: the table loop, then
`for (fst : GetFinalStates()) dstAut.SetStateFinal(stateTrans(fst))` -/
def reindexTD (A dst : AutTD) (s : TrSt) : AutTD × TrSt :=
  let l := reindexLoopTD A.T A.T dst.T s
  let f := trList l.2 A.fin
  (⟨dst.tid, l.1, dst.fin ++ f.1⟩, f.2)

/-- `BDDTDTreeAutCore::Union` with the counter starting at `c0`.  `oL`, `oR`: `pTranslMapLhs`, `pTranslMapRhs` (`none` =
`nullptr`: a local empty map is used); `fresh`: the identity of the table `BDDTDTreeAutCore result;` allocates.  Returns
the result and the final contents of the two maps (in the `ShareTransTable` branch the maps are NOT touched) -/
def tdUnionFrom (c0 fresh : Nat) (lhs rhs : AutTD) (oL oR : Option SMap) : AutTD × SMap × SMap :=
  if lhs.tid = rhs.tid then
    -- `BDDTDTreeAutCore result = lhs; result.finalStates_.insert(rhs.finalStates_.begin(), rhs.finalStates_.end());`
    (⟨lhs.tid, lhs.T, lhs.fin ++ rhs.fin⟩, oL.getD [], oR.getD [])
  else
    -- `StateType stateCnt = 0; … lhs.ReindexStates(result, stateTransLhs); … rhs.ReindexStates(result, stateTransRhs);`
    let l := reindexTD lhs ⟨fresh, [], []⟩ (oL.getD [], c0)
    let r := reindexTD rhs l.1 (oR.getD [], l.2.2)
    (r.1, l.2.1, r.2.1)

/-- `BDDTDTreeAutCore::Union` as coded: `StateType stateCnt = 0;` -/
def tdUnion (fresh : Nat) (lhs rhs : AutTD) (oL oR : Option SMap) : AutTD × SMap × SMap :=
  tdUnionFrom 0 fresh lhs rhs oL oR

/-- `BDDTDTreeAutCore::UnionDisjointStates`: both branches start with `result = lhs` (the result SHARES the table object
of `lhs`) and add the final states of `rhs`; with distinct tables `for (p : rhs.GetStates()) result.SetMtbdd(p.first,
p.second)` writes into that shared table in place (no `MakeUnique`): `T` of the result is also the new value every other
handle on `lhs.tid` sees -/
def tdUnionDisj (lhs rhs : AutTD) : AutTD :=
  if lhs.tid = rhs.tid then ⟨lhs.tid, lhs.T, lhs.fin ++ rhs.fin⟩
  else ⟨lhs.tid, rhs.T.foldl (fun R e => setTD R e.1 (getTD rhs.T e.1)) lhs.T, lhs.fin ++ rhs.fin⟩

/-- handles on one table object see one value -/
def SameTD (lhs rhs : AutTD) : Prop := lhs.tid = rhs.tid → lhs.T = rhs.T

/-! ## bottom-up -/

structure AutBU where
  /-- the table object (`transTable_.GetTable()`) -/
  tid : Nat
  /-- own `nullaryMtbdd_` and the entries of the table object -/
  T : Table
  fin : List Nat

/-- `for (auto tupleBddPair : transTable_) { for (state : oldTuple) newTuple.push_back(stateTransl(state));`
`dstAut.SetMtbdd(newTuple, rewriter(tupleBddPair.second)); }` – the iterator of `TransTableWrapper` yields the pair
`(StateTuple(), nullaryMtbdd_)` FIRST (`pairs`) -/
def reindexLoopBU (T : Table) : List (List Nat × MT) → Table → TrSt → Table × TrSt
  | [], R, s => (R, s)
  | e :: L, R, s =>
    let k := trList s e.1
    let m := rewrite leafOpBU k.2 (T.get e.1)
    reindexLoopBU T L (R.set k.1 m.1) m.2

/-- `BDDBUTreeAutCore::ReindexStates(dstAut, stateTransl)`: the table loop, the final states, then
`TransMTBDD nullaryBdd = rewriter(this->GetMtbdd(StateTuple())); dstAut.SetMtbdd(StateTuple(), nullaryBdd); return nullaryBdd;` -/
def reindexBU (A dst : AutBU) (s : TrSt) : AutBU × MT × TrSt :=
  let l := reindexLoopBU A.T (pairs A.T) dst.T s
  let f := trList l.2 A.fin
  let n := rewrite leafOpBU f.2 (A.T.get [])
  (⟨dst.tid, l.1.set [] n.1, dst.fin ++ f.1⟩, n.1, n.2)

/-- the `ShareTransTable` branch of the bottom-up `Union` and `UnionDisjointStates` (after repair a5b49300):
`result = lhs; for (f : rhs.GetFinalStates()) result.SetStateFinal(f);`
`result.SetMtbdd(tuple, unionFunc(lhs.GetMtbdd(tuple), rhs.GetMtbdd(tuple)))` for the EMPTY tuple – own nullary MTBDD -/
def buShared (lhs rhs : AutBU) : AutBU :=
  ⟨lhs.tid, lhs.T.set [] (apply2 unionS (lhs.T.get []) (rhs.T.get [])), lhs.fin ++ rhs.fin⟩

/-- the same branch BEFORE repair a5b49300 (defect D16): the final states of `rhs` are forgotten -/
def buSharedD16 (lhs rhs : AutBU) : AutBU :=
  ⟨lhs.tid, lhs.T.set [] (apply2 unionS (lhs.T.get []) (rhs.T.get [])), lhs.fin⟩

/-- a seeded variant: the nullary MTBDD of `rhs` is forgotten (as the top-down branch, which has no own rules, would do) -/
def buSharedNoNullary (lhs rhs : AutBU) : AutBU := ⟨lhs.tid, lhs.T, lhs.fin ++ rhs.fin⟩

/-- `BDDBUTreeAutCore::Union` with the counter starting at `c0` -/
def buUnionFrom (c0 fresh : Nat) (lhs rhs : AutBU) (oL oR : Option SMap) : AutBU × SMap × SMap :=
  if lhs.tid = rhs.tid then (buShared lhs rhs, oL.getD [], oR.getD [])
  else
    -- `TransMTBDD lhsMtbdd = lhs.ReindexStates(result, stateTransLhs); TransMTBDD rhsMtbdd = rhs.ReindexStates(result, stateTransRhs);`
    let l := reindexBU lhs ⟨fresh, Table.empty, []⟩ (oL.getD [], c0)
    let r := reindexBU rhs l.1 (oR.getD [], l.2.2.2)
    -- `result.SetMtbdd(StateTuple(), unionFunc(lhsMtbdd, rhsMtbdd));`
    (⟨fresh, r.1.T.set [] (apply2 unionS l.2.1 r.2.1), r.1.fin⟩, l.2.2.1, r.2.2.1)

/-- `BDDBUTreeAutCore::Union` as coded: `StateType stateCnt = 0;` -/
def buUnion (fresh : Nat) (lhs rhs : AutBU) (oL oR : Option SMap) : AutBU × SMap × SMap :=
  buUnionFrom 0 fresh lhs rhs oL oR

/-- `BDDBUTreeAutCore::UnionDisjointStates`; distinct tables: `result = lhs` (shares the table object of `lhs`),
`for (p : rhs.GetTransTable()) result.SetMtbdd(p.first, p.second)` (the nullary pair first: it goes to the OWN nullary
MTBDD of the result; the others are written into the shared table in place), then
`result.SetMtbdd(StateTuple(), unionFunc(lhs.GetMtbdd(StateTuple()), rhs.GetMtbdd(StateTuple())))` -/
def buUnionDisj (lhs rhs : AutBU) : AutBU :=
  if lhs.tid = rhs.tid then buShared lhs rhs
  else ⟨lhs.tid,
    ((pairs rhs.T).foldl (fun R e => R.set e.1 (rhs.T.get e.1)) lhs.T).set []
      (apply2 unionS (lhs.T.get []) (rhs.T.get [])),
    lhs.fin ++ rhs.fin⟩

/-- handles on one table object see the same entries (the nullary MTBDDs are per object) -/
def SameBU (lhs rhs : AutBU) : Prop := lhs.tid = rhs.tid → lhs.T.entries = rhs.T.entries

/-! ## what the handles denote, the states that occur in a handle -/

def AutTD.abs (syms : List Nat) (A : AutTD) : TA := absTD syms A.T A.fin
def AutBU.abs (syms : List Nat) (A : AutBU) : TA := absBU syms A.T A.fin

/-- the states in the leaves of a top-down MTBDD -/
def leafStatesTD (m : MTD) : List Nat := (voidApply1 m).flatMap (fun l => l.flatMap id)

/-- the order in which the top-down `ReindexStates` presents the states to its translator -/
def orderLoopTD (T : TableTD) (L : List (Nat × MTD)) : List Nat :=
  L.flatMap (fun e => e.1 :: leafStatesTD (getTD T e.1))
def orderTD (A : AutTD) : List Nat := orderLoopTD A.T A.T ++ A.fin

/-- the order in which the bottom-up `ReindexStates` presents the states to its translator -/
def orderLoopBU (T : Table) (L : List (List Nat × MT)) : List Nat :=
  L.flatMap (fun e => e.1 ++ leafParents (T.get e.1))
def orderBU (A : AutBU) : List Nat := orderLoopBU A.T (pairs A.T) ++ A.fin ++ leafParents (A.T.get [])

/-- every state number in the handle: keys (also of entries with empty leaves only), leaves, final states -/
def AutTD.allStates (A : AutTD) : List Nat := orderTD A
def AutBU.allStates (A : AutBU) : List Nat := orderBU A

def disjB (a b : List Nat) : Bool := a.all (fun x => !b.contains x)

/-! ## the sharing precondition of `Vata/BddShare.lean` for two bottom-up handles on one table -/

/-- the rules in the shared table object (non-empty tuples) over the symbols `syms` -/
def tblRules (syms : List Nat) (T : Table) : List Rule := absRules syms ⟨.leaf [], T.entries⟩

/-- the rules in the object's own nullary MTBDD, as pairs (symbol, parent) -/
def nulRules (syms : List Nat) (T : Table) : List (Nat × Nat) :=
  syms.flatMap (fun f => (eval T.nullary (bits f)).map (fun p => (f, p)))

/-- the sharing state that consists of the one table object of `A` -/
def shareSt (syms : List Nat) (A : AutBU) : BddShare.St := ⟨fun _ => some ⟨tblRules syms A.T, 1⟩, 1, []⟩

def shareHnd (syms : List Nat) (A : AutBU) : BddShare.Hnd := ⟨0, nulRules syms A.T, A.fin⟩

/-- clause S of `BddShare.pre` (`union` / `uniondisj` of two objects on ONE table) evaluated on two bottom-up handles -/
def sharedClauseS (syms : List Nat) (lhs rhs : AutBU) : Bool :=
  BddShare.clauseS (shareSt syms lhs) (shareHnd syms lhs) (shareHnd syms rhs)

end BddUnionCoded
end Vata
