import Vata.BddAbsTD
import Vata.LoadDump
import Vata.Glue
/-!
# The Timbuk layer of the BDD encodings – executable model (properties C08, C13)

Model, *as coded*, of what lies between an `AutDescription` and the MTBDD tables of the two symbolic encodings:

* `LoadableAut<BDDBUTreeAutCore>` / `LoadableAut<BDDTDTreeAutCore>` (`src/loadable_aut.hh`): `LoadFromString`,
  `LoadFromAutDesc (desc, stateDict, params)`, `LoadFromAutDesc (desc, params)`, `DumpToAutDesc (stateDict, params)`,
  `DumpToAutDesc (params)`, `DumpToString`;
* `loadFromAutDescInternal` / `dumpToAutDescInternal` of `src/bdd_bu_tree_aut_core.hh` and `src/bdd_td_tree_aut_core.hh`
  with the switch `params == "symbolic"`: `loadFromAutDescExplicit`, `loadFromAutDescSymbolic`, `dumpToAutDescExplicit`,
  `dumpToAutDescSymbolic`;
* the alphabet `SymbolicTreeAutBase::OnTheFlyAlphabet` (`include/vata/aut_base.hh`): `symbolDict_`, `nextSymbol_`,
  the translator `[&](const StringSymbolType&){return nextSymbol_++;}`;
* `addArityToSymbol`, `SYMBOL_ARITY_LENGTH = 6`, `SYMBOL_SIZE = 16` (through `BddAbsTD.addCubeTD`).

The tables themselves are the existing models `BddAbs.Table` (`TransTableWrapper`) and `BddAbsTD.TableTD`
(`BDDTopDownTransTable`); `AddTransition` is `BddAbs.addCube` / `BddAbsTD.addCubeTD`.  Core Lean only, total, executable
(`Driver/BddLoadChk.lean` runs it against the real classes, kind `bddload`); the theorems are in
`Vata/Proofs/BddLoad.lean`, the property statements in `Vata/Properties/C08_Load.lean`.

## what the code does

* **Symbols are names, the rank is ignored.**  `SymbolicTreeAutBase::ToStringSymbolType (str, rank)` returns `str`, the
  key of `symbolDict_` is the symbol NAME alone.  `f` with two and `f` with three children is ONE symbol (one 16-bit code);
  the rules are kept apart by the children tuple (bottom-up: the table is keyed by the tuple) or by the arity prefix
  (top-down).  `desc.symbols` (the `Ops` line) is never read by the BDD loaders.
* **The codes.**  `nextSymbol_` starts as `SymbolicVarAsgn (16, 0)`; a name that is not in `symbolDict_` gets
  `nextSymbol_++` (`TranslatorWeak`: `find`, else allocate and `insert`).  `symbolDict_` and `nextSymbol_` are private and
  changed by this translator only, so `nextSymbol_` is the assignment of the number `symbolDict_.size ()`; `operator++`
  drops the carry out of variable 15 (`Glue.inc`, `GlueAsgn.inc_bitsLE`).  The model keeps, for every name, the NUMBER `k`
  of its allocation (`SymDict = Dict String`, the `k`-th new name gets `k`); the stored assignment is
  `BddAbs.symAsgn k`, the 16 low bits of `k` (`Vata/Proofs/BddLoad.lean`, `alphaC_refines`, shows that this is the
  dictionary of assignments as coded).  **The 65 537th name gets the code of the first**: `symAsgn 65536 = symAsgn 0`.
  The `insert` into `symbolDict_` then finds the backward mapping taken, logs `backward mapping for … already found`, and
  carries on (the `assert (false)` is compiled out); the backward map is never read by load or dump.
* **The alphabet is shared.**  Every automaton is constructed on `globalAlphabet_`; the model threads the dictionary
  through the loads (`World.yd`).  A dump iterates over ALL names of the alphabet, also those other automata introduced.
* **The state translator** of `LoadFromAutDesc (desc, stateDict, params)` allocates with `StateType state (0); … state++`
  whatever `stateDict` contains (as for the explicit encoding, `Vata/LoadDump.lean`); `LoadFromAutDesc (desc, params)`
  uses a local dictionary that is dropped (the dump then names the states by their numbers, `Convert::ToString`).
* **`loadFromAutDescExplicit`** (both encodings, the same text): every final state is translated and inserted into
  `finalStates_`; for every transition IN `std::set` ORDER: `stateTransl (parent)` FIRST, then the children left to right,
  then `symbolTransl (symbol)`, then `AddTransition (children, symbol, parent)`.
* **`loadFromAutDescSymbolic`**: the same, but the symbol string is not translated: it must have `SYMBOL_SIZE` characters
  (else `std::runtime_error ("Invalid symbols size (symbol = …).  The symbol size needs to be 16.")`) out of `0 1 X`
  (else the constructor `SymbolicVarAsgn (std::string)` throws `"Invalid input value!"`).  The exception leaves the
  automaton with the final states and the transitions before the offending one, and the state dictionary with the states
  of the offending one (they are translated before the test).  The alphabet is not touched.
* **`AddTransition` top-down** appends `SymbolicVarAsgn (6, children.size ())` (`addArityToSymbol`): the 6 low bits of
  the arity (`assert (arity <= MAX_SYMBOL_ARITY)` is compiled out).  A rule with 64 children is stored under the prefix of
  arity 0.
* **`dumpToAutDescExplicit` bottom-up**: `finalStates`, `states` := names of the final states; for every pair (tuple,
  MTBDD) of the table, the nullary one first: `states` += the names of the tuple; for every (name, code) of the alphabet:
  `CondColApplyFunctor` on (MTBDD, `BDD (code, true, false)`) collects the leaves on the `true` side, every collected state
  gives the transition (tuple, name, state).  Parents are NOT inserted into `states`.
  **Top-down**: for every state with an MTBDD: `states` += its name; for every (name, code): the collected TUPLES (for any
  value of the arity variables: "ignore rank") give transitions, their states go to `states`.
  `name`, `symbols` stay empty.  The fields are `std::set`s (`LoadDump.normDesc`).
* **`dumpToAutDescSymbolic` bottom-up**: as above but the transitions are the PATHS of the MTBDD (`GetPaths`), the symbol
  is `path.ToString ()`.  `GetPaths` starts from the EMPTY assignment and extends it only up to the variable of the root
  (`AddVariablesUpTo`): the strings are SHORTER than 16 characters when the high variables are not tested (the empty
  string for a leaf).  Such a dump is rejected by `loadFromAutDescSymbolic` (or by the Timbuk parser when the symbol is
  empty) – see `C08_load_symbolic_roundtrip_fails`.
  **Top-down**: `throw NotImplementedException (__func__)`.
* `BDDTDTreeAutCore::GetMtbddForArity (mtbdd, n)` (`tuplesForArity`) is the only reader of the arity variables; the dumps
  do not show them, the harness reads them back through it.
* The back translation of `DumpToAutDesc (stateDict, params)` is `TranslatorStrict (stateDict.GetReverseMap ())`: an
  unknown state throws `"No translation for n"` (which one first depends on the hash order; the model reports the first in
  its own order).
-/
namespace Vata
namespace BddLoad
open M BddAbs BddAbsTD

/-- a transition of a description: (children, symbol, parent) -/
abbrev Trans := List String × String × String

/-- a `SymbolicVarAsgn` -/
abbrev Cube := List (Option Bool)

/-- `symbolDict_`: name ↦ the number `k` of its allocation; the stored code is `symAsgn k` (the 16 low bits of `k`).
`nextSymbol_` is `symAsgn` of the length. -/
abbrev SymDict := Dict String

/-- `SYMBOL_SIZE` -/
def symbolSize : Nat := 16
/-- the number of codes: `2 ^ SYMBOL_SIZE` -/
def symbolCodes : Nat := 65536
/-- `SYMBOL_ARITY_LENGTH` -/
def arityLength : Nat := 6
/-- `MAX_SYMBOL_ARITY + 1` -/
def arityCodes : Nat := 64

/-- the code of a symbol as `ToString ()` prints it: variable 0 first -/
def codeStr (k : Nat) : String := String.ofList (Glue.toStr (symAsgn k))

/-! ## the translators -/

/-- what the translators of a load own -/
structure LSt where
  sd : StateDict
  cnt : Nat
  yd : SymDict
deriving Repr, DecidableEq

/-- `stateTransl (q)` -/
def trState (s : LSt) (q : String) : Nat × LSt :=
  let r := s.sd.weak s.cnt q
  (r.1, { s with sd := r.2.1, cnt := r.2.2 })

/-- `symbolTransl (name)`: the key is the name alone -/
def trSym (s : LSt) (f : String) : Nat × LSt :=
  let r := s.yd.weak s.yd.length f
  (r.1, { s with yd := r.2.1 })

/-- a sequence of state names, left to right -/
def trStates (s : LSt) : List String → List Nat × LSt
  | [] => ([], s)
  | q :: qs =>
    let r := trState s q
    let rs := trStates r.2 qs
    (r.1 :: rs.1, rs.2)

/-- the switch `params == "symbolic"` -/
inductive Param where
  | explicit
  | symbolic
deriving Repr, DecidableEq

def Param.ofString (p : String) : Param := if p = "symbolic" then .symbolic else .explicit

def errSymbolSize (f : String) : String :=
  "Invalid symbols size (symbol = " ++ f ++ ").  The symbol size needs to be 16."

def errInputValue : String := "Invalid input value!"

/-- the symbol of `loadFromAutDescSymbolic`: the size test, then `SymbolType symbol (symbolStr)`.  (`size ()` counts bytes;
as in `Vata/Timbuk.lean` a name is a byte string, one `Char` per byte.) -/
def symOfStr (f : String) : Except String Cube :=
  if f.toList.length ≠ symbolSize then .error (errSymbolSize f)
  else
    match Glue.ofStr f.toList with
    | none => .error errInputValue
    | some a => .ok a

/-- the arguments of one `AddTransition (children, symbol, parent)` -/
structure CRule where
  kids : List Nat
  asgn : Cube
  parent : Nat
deriving Repr, DecidableEq

/-- the body of the loop over `desc.transitions` up to `AddTransition`: the parent, the children, the symbol -/
def trRule (par : Param) (s : LSt) (t : Trans) : Except String CRule × LSt :=
  let p := trState s t.2.2
  let ks := trStates p.2 t.1
  match par with
  | .explicit =>
    let f := trSym ks.2 t.2.1
    (.ok ⟨ks.1, symAsgn f.1, p.1⟩, f.2)
  | .symbolic =>
    match symOfStr t.2.1 with
    | .error e => (.error e, ks.2)
    | .ok a => (.ok ⟨ks.1, a, p.1⟩, ks.2)

/-- a load in progress: the automaton, the translators, the exception that ended it -/
structure Run (τ : Type) where
  aut : τ
  st : LSt
  err : Option String

/-- one round of the loop over `desc.transitions` (nothing happens after the exception) -/
def stepTrans {τ : Type} (add : τ → CRule → τ) (par : Param) (r : Run τ) (t : Trans) : Run τ :=
  match r.err with
  | some _ => r
  | none =>
    match trRule par r.st t with
    | (.ok c, s') => ⟨add r.aut c, s', none⟩
    | (.error e, s') => ⟨r.aut, s', some e⟩

/-- `loadFromAutDescInternal (desc, stateTransl, symbolTransl, params)` on an automaton with the operations `setFinal`
(`finalStates_.insert`) and `add` (`AddTransition`) -/
def loadDesc {τ : Type} (setFinal : τ → Nat → τ) (add : τ → CRule → τ) (par : Param) (A : τ) (s : LSt) (d : AutDesc) :
    Run τ :=
  let fin := trStates s d.final
  d.trans.foldl (stepTrans add par) ⟨fin.1.foldl setFinal A, fin.2, none⟩

/-! ## the two encodings -/

/-- `BDDBUTreeAutCore`: `transTable_`, `finalStates_` (a hash set: the list is read as a set) -/
structure AutBU where
  tbl : Table := Table.empty
  fin : List Nat := []

/-- `BDDTDTreeAutCore` -/
structure AutTD where
  tbl : TableTD := []
  fin : List Nat := []

def AutBU.setFinal (A : AutBU) (q : Nat) : AutBU := { A with fin := A.fin ++ [q] }
def AutTD.setFinal (A : AutTD) (q : Nat) : AutTD := { A with fin := A.fin ++ [q] }

/-- `BDDBUTreeAutCore::AddTransition` -/
def AutBU.add (A : AutBU) (c : CRule) : AutBU := { A with tbl := addCube A.tbl c.kids c.asgn c.parent }
/-- `BDDTDTreeAutCore::AddTransition`: `addArityToSymbol` is inside `addCubeTD` -/
def AutTD.add (A : AutTD) (c : CRule) : AutTD := { A with tbl := addCubeTD A.tbl c.parent c.asgn c.kids }

/-- `LoadFromAutDesc (desc, stateDict, params)` into the bottom-up automaton `A` on the alphabet `yd` -/
def loadBU (par : Param) (A : AutBU) (sd : StateDict) (yd : SymDict) (d : AutDesc) : Run AutBU :=
  loadDesc AutBU.setFinal AutBU.add par A ⟨sd, 0, yd⟩ d

/-- `LoadFromAutDesc (desc, stateDict, params)` into the top-down automaton `A` on the alphabet `yd` -/
def loadTD (par : Param) (A : AutTD) (sd : StateDict) (yd : SymDict) (d : AutDesc) : Run AutTD :=
  loadDesc AutTD.setFinal AutTD.add par A ⟨sd, 0, yd⟩ d

/-! ## the dumps -/

/-- `CondColApplyFunctor` of the bottom-up `dumpToAutDescExplicit` applied to the MTBDD of a tuple and
`BDD (symAsgn k, true, false)`: the accumulator -/
def collectBU (m : MT) (k : Nat) : List Nat :=
  (voidApply2 m (construct (symAsgn k) true false)).flatMap (fun lb => if lb.2 then lb.1 else [])

/-- a description before the back translation of the states -/
structure Raw where
  states : List Nat
  final : List Nat
  trans : List (List Nat × String × Nat)
deriving Repr, DecidableEq

/-- the states that the back translator is asked for -/
def Raw.used (r : Raw) : List Nat := r.final ++ r.states ++ r.trans.flatMap (fun t => t.1 ++ [t.2.2])

/-- the description under the state names `nm`, the fields in `std::set` order; `name` and `symbols` stay empty -/
def Raw.named (nm : Nat → String) (r : Raw) : AutDesc :=
  LoadDump.normDesc
    { name := "", symbols := [], states := r.states.map nm, final := r.final.map nm,
      trans := r.trans.map (fun t => (t.1.map nm, t.2.1, nm t.2.2)) }

/-- bottom-up `dumpToAutDescExplicit` -/
def rawExplBU (yd : SymDict) (A : AutBU) : Raw :=
  { states := A.fin ++ (pairs A.tbl).flatMap (·.1),
    final := A.fin,
    trans := (pairs A.tbl).flatMap (fun e => yd.flatMap (fun y => (collectBU e.2 y.2).map (fun p => (e.1, y.1, p)))) }

/-- bottom-up `dumpToAutDescSymbolic`: the paths of `GetPaths`, the symbol is `path.ToString ()` -/
def rawSymBU (A : AutBU) : Raw :=
  { states := A.fin ++ (pairs A.tbl).flatMap (·.1),
    final := A.fin,
    trans := (pairs A.tbl).flatMap (fun e => (getPaths e.2).flatMap (fun pl =>
      pl.2.map (fun p => (e.1, String.ofList (Glue.toStr pl.1), p)))) }

/-- the transitions the top-down `dumpToAutDescExplicit` finds for the state `p` -/
def transOfTD (yd : SymDict) (T : TableTD) (p : Nat) : List (List Nat × String × Nat) :=
  yd.flatMap (fun y => (collectTD (getTD T p) y.2).map (fun ks => (ks, y.1, p)))

/-- top-down `dumpToAutDescExplicit` -/
def rawExplTD (yd : SymDict) (A : AutTD) : Raw :=
  { states := A.fin ++ (keysTD A.tbl).flatMap (fun p => p :: (transOfTD yd A.tbl p).flatMap (·.1)),
    final := A.fin,
    trans := (keysTD A.tbl).flatMap (transOfTD yd A.tbl) }

/-- `GetMtbddForArity (GetMtbdd (p), n)` = `GetMtbddForPrefix (SymbolicVarAsgn (6, n), SYMBOL_SIZE)`: the tuples in the
leaves of the result (what the top-down inclusion, intersection and simulation code sees of the state `p` for the arity
`n`) -/
def tuplesForArity (T : TableTD) (p n : Nat) : List (List Nat) := leafTuples (getPrefix (arAsgn n) 16 (getTD T p))

/-- the numbers of children of the tuples found under the arity prefix `n`, over all states with an MTBDD -/
def arityLens (A : AutTD) (n : Nat) : List Nat :=
  (keysTD A.tbl).flatMap (fun p => (tuplesForArity A.tbl p n).map List.length)

def errNotImplSymbolicTD : String := "Not implemented: dumpToAutDescSymbolic"

/-- how a dump names the states -/
inductive Names where
  | dict (sd : StateDict)   -- `DumpToAutDesc (stateDict, params)`: `StateBackTranslStrict (stateDict.GetReverseMap ())`
  | numeric                 -- `DumpToAutDesc (params)`: `Convert::ToString (state)`

/-- the name of a state (`""` if it has none) -/
def nameOf (sd : StateDict) (q : Nat) : String := (sd.bwd? q).getD ""

/-- the back translation; `"No translation for n"` for a state without a name -/
def dumpRaw (nm : Names) (r : Raw) : Except String AutDesc :=
  match nm with
  | .numeric => .ok (r.named (fun q => toString q))
  | .dict sd =>
    match r.used.find? (fun q => (sd.bwd? q).isNone) with
    | some q => .error (LoadDump.noTransl q)
    | none => .ok (r.named (nameOf sd))

/-- `DumpToAutDesc` of a bottom-up automaton -/
def dumpBU (par : Param) (nm : Names) (yd : SymDict) (A : AutBU) : Except String AutDesc :=
  match par with
  | .explicit => dumpRaw nm (rawExplBU yd A)
  | .symbolic => dumpRaw nm (rawSymBU A)

/-- `DumpToAutDesc` of a top-down automaton -/
def dumpTD (par : Param) (nm : Names) (yd : SymDict) (A : AutTD) : Except String AutDesc :=
  match par with
  | .explicit => dumpRaw nm (rawExplTD yd A)
  | .symbolic => .error errNotImplSymbolicTD

/-! ## through the text -/

/-- `TimbukParser::ParseString`: the exception of `parse_timbuk` is wrapped -/
def parseText (txt : String) : Except String AutDesc :=
  match parseTimbuk txt with
  | .error e => .error ("Error: '" ++ e ++ "' while parsing \n" ++ txt)
  | .ok d => .ok d

/-! ## histories: several automata on one alphabet -/

inductive Aut where
  | bu (A : AutBU)
  | td (A : AutTD)

/-- a live automaton with the state dictionary the harness keeps for it (`none`: the overloads without a dictionary) -/
structure Obj where
  aut : Aut
  sd : Option StateDict

def Obj.names (o : Obj) : Names :=
  match o.sd with
  | some sd => .dict sd
  | none => .numeric

/-- `DumpToAutDesc` of a live automaton -/
def dumpObj (yd : SymDict) (o : Obj) (par : Param) : Except String AutDesc :=
  match o.aut with
  | .bu A => dumpBU par o.names yd A
  | .td A => dumpTD par o.names yd A

/-- `DumpToString`: `TimbukSerializer::Serialize` of the description -/
def dumpText (yd : SymDict) (o : Obj) (par : Param) : Except String String :=
  match dumpObj yd o par with
  | .error e => .error e
  | .ok d => .ok (serialize d)

/-- `LoadFromAutDesc` into a live automaton: the automaton and its dictionary, the alphabet, the exception -/
def loadObj (yd : SymDict) (o : Obj) (par : Param) (d : AutDesc) : Obj × SymDict × Option String :=
  match o.aut with
  | .bu A =>
    let r := loadBU par A (o.sd.getD []) yd d
    (⟨.bu r.aut, o.sd.map (fun _ => r.st.sd)⟩, r.st.yd, r.err)
  | .td A =>
    let r := loadTD par A (o.sd.getD []) yd d
    (⟨.td r.aut, o.sd.map (fun _ => r.st.sd)⟩, r.st.yd, r.err)

/-- `LoadFromString`: a parse error leaves everything alone -/
def loadTextObj (yd : SymDict) (o : Obj) (par : Param) (txt : String) : Obj × SymDict × Option String :=
  match parseText txt with
  | .error e => (o, yd, some e)
  | .ok d => loadObj yd o par d

/-- a fresh automaton of the given encoding, with (`true`) or without a state dictionary -/
def Obj.fresh (bu withDict : Bool) : Obj :=
  ⟨if bu then .bu {} else .td {}, if withDict then some [] else none⟩

/-- the alphabet and the live automata -/
structure World where
  yd : SymDict := []
  objs : List Obj := []

inductive Op where
  /-- `target = none`: a new automaton (encoding `bu`, dictionary `withDict`); `some k`: once more into automaton `k`
  (with ITS dictionary: the counter restarts at 0) -/
  | load (target : Option Nat) (bu withDict : Bool) (par : Param) (txt : String)
  /-- `LoadFromAutDesc` of a description (no parser) into a new automaton -/
  | loadDesc (bu withDict : Bool) (par : Param) (d : AutDesc)
  /-- dump automaton `k` with `par`, serialize, load the text with `par` into a new automaton (same encoding, fresh
  dictionary) -/
  | reload (k : Nat) (par : Param)

def Obj.isBU (o : Obj) : Bool :=
  match o.aut with
  | .bu _ => true
  | .td _ => false

/-- one step: the world and the exception of the step -/
def step (w : World) : Op → World × Option String
  | .load none bu wd par txt =>
    let r := loadTextObj w.yd (Obj.fresh bu wd) par txt
    (⟨r.2.1, w.objs ++ [r.1]⟩, r.2.2)
  | .load (some k) _ _ par txt =>
    match w.objs[k]? with
    | none => (w, some "no such automaton")
    | some o =>
      let r := loadTextObj w.yd o par txt
      (⟨r.2.1, w.objs.set k r.1⟩, r.2.2)
  | .loadDesc bu wd par d =>
    let r := loadObj w.yd (Obj.fresh bu wd) par d
    (⟨r.2.1, w.objs ++ [r.1]⟩, r.2.2)
  | .reload k par =>
    match w.objs[k]? with
    | none => (w, some "no such automaton")
    | some o =>
      match dumpText w.yd o par with
      | .error e => (w, some e)
      | .ok txt =>
        let r := loadTextObj w.yd (Obj.fresh o.isBU true) par txt
        (⟨r.2.1, w.objs ++ [r.1]⟩, r.2.2)

def run : World → List Op → World
  | w, [] => w
  | w, o :: r => run (step w o).1 r

/-! ## tests
The expected values are the answers of the real library (probe programs on `LoadableAut<BDDBUTreeAutCore>` /
`LoadableAut<BDDTDTreeAutCore>` with a fresh `OnTheFlyAlphabet`). -/
namespace Test

def showDump (r : Except String AutDesc) : String :=
  match r with
  | .error e => "EXC " ++ e
  | .ok d => serialize d

def w1 : World := run {} [.load none true true .symbolic
  "Ops\nAutomaton x\nStates q p\nFinal States q\nTransitions\n0000000000000000 -> q\n000000000000000X(q,q) -> p\nXXXXXXXXXXXXXXXX(p) -> q\n01XXXXXXXXXXXXXX(p,p,p)->p\n"]

-- the symbolic dump: paths are cut at the variable of the root
#guard (w1.objs[0]?.map (fun o => showDump (dumpObj w1.yd o .symbolic))) == some
  "Ops \nAutomaton anonymous\nStates p q \nFinal States q \nTransitions\n0000000000000000 -> q\n(p) -> q\n01(p, p, p) -> p\n000000000000000(q, q) -> p\n"
-- the explicit dump of a symbolically loaded automaton on a fresh alphabet: no symbol, no transition
#guard (w1.objs[0]?.map (fun o => showDump (dumpObj w1.yd o .explicit))) == some
  "Ops \nAutomaton anonymous\nStates p q \nFinal States q \nTransitions\n"
-- … and the reload of the symbolic dump fails in the parser
#guard (step w1 (.reload 0 .symbolic)).2 == some
  ("Error: 'parse_timbuk: invalid transition \"(p) -> q\"' while parsing \n" ++
   "Ops \nAutomaton anonymous\nStates p q \nFinal States q \nTransitions\n0000000000000000 -> q\n(p) -> q\n01(p, p, p) -> p\n000000000000000(q, q) -> p\n")

def w2 : World := run {} [.load none false true .explicit
  "Ops\nAutomaton x\nStates q p\nFinal States q\nTransitions\na -> q\nf(q,q) -> p\nf(p) -> q\n"]

#guard (w2.objs[0]?.map (fun o => showDump (dumpObj w2.yd o .explicit))) == some
  "Ops \nAutomaton anonymous\nStates p q \nFinal States q \nTransitions\na -> q\nf(p) -> q\nf(q, q) -> p\n"
#guard (w2.objs[0]?.map (fun o => showDump (dumpObj w2.yd o .symbolic))) == some "EXC Not implemented: dumpToAutDescSymbolic"
-- `a` is the first transition in `std::set` order (empty tuple), then `f`
#guard w2.yd.map (fun e => (e.1, codeStr e.2)) == [("a", "0000000000000000"), ("f", "1000000000000000")]

end Test

end BddLoad
end Vata
