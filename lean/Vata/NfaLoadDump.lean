import Vata.NfaStart
import Vata.LoadDump
import Vata.UnionModel
/-!
# Word automata: load / dump through the dictionaries AS CODED, and `Union` with its translation maps (properties C13, C10)

Executable model (core Lean, total) of

* `ExplicitFiniteAutCore::loadFromAutDescInternal` / `dumpToAutDescInternal` (`src/explicit_finite_aut_core.hh`), called through
  `LoadableAut::LoadFromAutDesc (desc, stateDict)` / `DumpToAutDesc (stateDict)` (`src/loadable_aut.hh`) with the state
  dictionary (`TwoWayDict`, weak / strict translators – the `Dict` machinery of `Vata/LoadDump.lean`) and the alphabet
  `ExplicitFiniteAut::OnTheFlyAlphabet` (`include/vata/explicit_finite_aut.hh`);
* `ExplicitFiniteAutCore::Union` (`src/explicit_finite_union.cc`) with its two weak translators and ONE counter, and
  `ReindexStates (dst, index)` (`src/explicit_finite_aut_core.hh`).

## what the code does (and what is different from the tree encoding of `Vata/LoadDump.lean`)

* The alphabet's dictionary is `TwoWayDict<std::string, SymbolType>`: the key of a symbol is its NAME ONLY (no rank), so
  `a -> q` and `a(q) -> r` use the same symbol.  `WSymDict := Dict String`; the counter `nextSymbol_` is the size of the
  dictionary (a private member changed by this translator only), as in the tree encoding.
* The state translator of `LoadFromAutDesc (desc, stateDict)` is the same code as for trees (`loadable_aut.hh`): the counter
  starts at **0 whatever the dictionary contains**.
* `loadFromAutDescInternal`:
  ```
  for (auto symbolRankPair : desc.symbols) { symbolTransl(symbolRankPair.first); }            // (1) `regSyms`
  for (auto s : desc.finalStates) { this->finalStates_.insert(stateTransl(s)); }                // (2) `trFinals`
  for (auto t : desc.transitions) {                                                             // (3) `trTrans`
    if (t.first.empty()) {                       // a NULLARY rule `a -> q`: `q` is a start state, `a` one of its start symbols
      StateType translatedState = stateTransl(rightState);
      SymbolType translatedSymbol = symbolTransl(symbol);
      SetStateStart(translatedState, translatedSymbol);
      continue; }
    if (t.first.size() != 1) { throw std::runtime_error("Not a finite automaton"); }            // rank ≥ 2: the load THROWS
    this->AddTransition(stateTransl(leftState), symbolTransl(symbol), stateTransl(rightState)); }
  ```
  The three translator calls of the last line are arguments of ONE call: their order of evaluation is unspecified in C++
  (GCC on x86-64 evaluates right to left).  The order decides which NUMBERS new names get, nothing else; the model takes it
  as the parameter `rtl` (`true`: right state, symbol, left state; `false`: left to right) and every theorem holds for both.
  `desc.states` and `desc.name` are not read.  A rule with two or more children makes the load throw at that rule – the
  automaton and the dictionaries are then half filled and the exception leaves `LoadFromAutDesc`; the model returns
  `.error "Not a finite automaton"` (`load_error_iff`: exactly when the description has such a rule).
* `dumpToAutDescInternal` (after the repair `3dfc5d43`): the names of the final states; for every start state `s`: if
  `GetStartSymbols (s)` is empty ONE rule `x -> s` with the literal name `x` (not looked up in the alphabet), else one rule
  `a -> s` per start symbol; BEFORE the repair a `break` ended that inner loop after its first round: only the FIRST symbol
  was written (`dumpNFAOld`).  Then one rule `a(p) -> q` per transition.  States go through
  `TranslatorStrict (stateDict.GetReverseMap ())`, symbols through the alphabet's strict back translator; a strict translator
  throws `std::runtime_error ("No translation for " + ToString (value))`.  `name`, `symbols`, `states` stay empty.  The
  fields are `std::set`s (`normDesc`).
* `Union (lhs, rhs, pTranslMapLhs, pTranslMapRhs)`: absent maps (`nullptr`) are replaced by local empty maps; the ONE counter
  starts at `max (second + 1)` over the entries of both maps (after the repair `73b68c90`; before: at `0`, `nfaUnionCodedOld`);
  `lhs.ReindexStates (res, stateTransLhs); rhs.ReindexStates (res, stateTransRhs);` into ONE fresh automaton.
  `ReindexStates (dst, index)`: `dst.SetStateFinal (index[f])` for the final states, `dst.SetExistingStateStart (index[s],
  GetStartSymbols (s))` for the start states, then every transition `(index[p], a, index[q])`.

## abstractions

* hash containers (`finalStates_`, `startStates_`, the start symbols of a state, the transitions) are lists read as sets;
  their iteration order is the list order (the dump sorts everything into `std::set` order anyway; for `Union` the visiting
  orders are PARAMETERS of `nfaUnionCodedOrd`, as in `Vata/UnionModel.lean`).
* when several translations are missing in a dump, which exception text comes first follows the list order (and, inside one
  constructor call of the C++, the order symbol – state chosen here).
* the weak state translators of `Union` are modelled, as in `Vata/UnionModel.lean`, by feeding the visiting order through
  `weakTrAll` and then applying the final map (a weak translator never changes a translation it has made).
-/
namespace Vata

/-- `ExplicitFiniteAut::SymbolDict = TwoWayDict<std::string, SymbolType>`: the key is the symbol's name -/
abbrev WSymDict := Dict String

namespace NfaLD
open LoadDump (mapE noTransl backState normDesc)

/-! ## the load -/

/-- what the two translators of a load own -/
structure WSt where
  sd : StateDict
  cnt : Nat
  yd : WSymDict
deriving Repr, DecidableEq

/-- `stateTransl (q)` -/
def trState (s : WSt) (q : String) : Nat × WSt :=
  ((s.sd.weak s.cnt q).1, { s with sd := (s.sd.weak s.cnt q).2.1, cnt := (s.sd.weak s.cnt q).2.2 })

/-- `symbolTransl (name)` – the allocator is `nextSymbol_++` with `nextSymbol_ = symbolDict_.size ()` -/
def trSym (s : WSt) (k : String) : Nat × WSt :=
  ((s.yd.weak s.yd.length k).1, { s with yd := (s.yd.weak s.yd.length k).2.1 })

/-- `for (auto symbolRankPair : desc.symbols) symbolTransl(symbolRankPair.first);` (the rank is not used) -/
def regSyms (s : WSt) : List (String × Int) → WSt
  | [] => s
  | p :: ps => regSyms (trSym s p.1).2 ps

/-- `for (auto s : desc.finalStates) this->finalStates_.insert(stateTransl(s));` -/
def trFinals (s : WSt) (A : NFAS) : List String → NFAS × WSt
  | [] => (A, s)
  | q :: qs => trFinals (trState s q).2 (nfasSetFinal A (trState s q).1) qs

/-- a nullary rule `sym -> parent`: `stateTransl(rightState)`, then `symbolTransl(symbol)` (two statements) -/
def trNullary (s : WSt) (sym parent : String) : (Nat × Nat) × WSt :=
  let p := trState s parent
  let f := trSym p.2 sym
  ((p.1, f.1), f.2)

/-- the arguments of `AddTransition(stateTransl(leftState), symbolTransl(symbol), stateTransl(rightState))`, evaluated right
to left (`rtl = true`, GCC) or left to right -/
def trUnary (rtl : Bool) (s : WSt) (l sym parent : String) : (Nat × Nat × Nat) × WSt :=
  if rtl then
    let r := trState s parent
    let f := trSym r.2 sym
    let a := trState f.2 l
    ((a.1, f.1, r.1), a.2)
  else
    let a := trState s l
    let f := trSym a.2 sym
    let r := trState f.2 parent
    ((a.1, f.1, r.1), r.2)

/-- the loop over `desc.transitions` -/
def trTrans (rtl : Bool) (s : WSt) (A : NFAS) : List (List String × String × String) → Except String (NFAS × WSt)
  | [] => .ok (A, s)
  | t :: ts =>
    match t.1 with
    | [] =>
      -- `if (t.first.empty()) { … SetStateStart(translatedState, translatedSymbol); continue; }`
      trTrans rtl (trNullary s t.2.1 t.2.2).2
        (nfasSetStart A (trNullary s t.2.1 t.2.2).1.1 (trNullary s t.2.1 t.2.2).1.2) ts
    | [l] =>
      trTrans rtl (trUnary rtl s l t.2.1 t.2.2).2
        (nfasAddTrans A (trUnary rtl s l t.2.1 t.2.2).1.1 (trUnary rtl s l t.2.1 t.2.2).1.2.1
          (trUnary rtl s l t.2.1 t.2.2).1.2.2) ts
    | _ :: _ :: _ =>
      -- `if (t.first.size() != 1) throw std::runtime_error("Not a finite automaton");`
      .error "Not a finite automaton"

/-- `loadFromAutDescInternal` from the translator state `s` (into a fresh automaton) -/
def loadFrom (rtl : Bool) (s : WSt) (d : AutDesc) : Except String (NFAS × WSt) :=
  trTrans rtl (trFinals (regSyms s d.symbols) nfasEmpty d.final).2 (trFinals (regSyms s d.symbols) nfasEmpty d.final).1
    d.trans

end NfaLD

open NfaLD in
/-- `ExplicitFiniteAut::LoadFromAutDesc (desc, stateDict)` on the alphabet whose dictionary is `symDict`: the automaton and
the two dictionaries afterwards; `.error "Not a finite automaton"` where the C++ throws.  The state counter starts at 0. -/
def loadNFA (rtl : Bool) (d : AutDesc) (stateDict : StateDict) (symDict : WSymDict) :
    Except String (NFAS × StateDict × WSymDict) :=
  match loadFrom rtl ⟨stateDict, 0, symDict⟩ d with
  | .error e => .error e
  | .ok r => .ok (r.1, r.2.sd, r.2.yd)

namespace NfaLD
open LoadDump (mapE noTransl backState normDesc)

/-! ## the dump -/

/-- the alphabet's strict back translator -/
def backSym (yd : WSymDict) (f : Nat) : Except String String :=
  match yd.bwd? f with
  | some k => .ok k
  | none => .error (noTransl f)

/-- `AutDescription::Transition trans(leftStateAsTuple, (*symbolTransl)(sym), stateTransl(s))` with the empty tuple -/
def dumpStartRule (sd : StateDict) (yd : WSymDict) (s sym : Nat) : Except String (List String × String × String) :=
  match backSym yd sym with
  | .error e => .error e
  | .ok f =>
    match backState sd s with
    | .error e => .error e
    | .ok n => .ok ([], f, n)

/-- the rules written for the start state `s`:
```
SymbolSet symset = this->GetStartSymbols(s);
if (!symset.size()) { … Transition trans(leftStateAsTuple, x, stateTransl(s)); desc.transitions.insert(trans); }
else { for (auto &sym : symset) { … desc.transitions.insert(trans); /* before 3dfc5d43: break; */ } }
```
`firstOnly = true` is the code with the `break`. -/
def dumpStart (firstOnly : Bool) (sd : StateDict) (yd : WSymDict) (A : NFAS) (s : Nat) :
    Except String (List (List String × String × String)) :=
  if (A.symsOf s).isEmpty then
    match backState sd s with
    | .error e => .error e
    | .ok n => .ok [([], "x", n)]
  else mapE (dumpStartRule sd yd s) (if firstOnly then (A.symsOf s).take 1 else A.symsOf s)

/-- one transition: `leftStateAsTuple.push_back(stateTransl(ls.first)); Transition trans(leftStateAsTuple,
(*symbolTransl)(s.first), stateTransl(rs));` -/
def dumpTrans (sd : StateDict) (yd : WSymDict) (e : Nat × Nat × Nat) : Except String (List String × String × String) :=
  match backState sd e.1 with
  | .error x => .error x
  | .ok l =>
    match backSym yd e.2.1 with
    | .error x => .error x
    | .ok f =>
      match backState sd e.2.2 with
      | .error x => .error x
      | .ok r => .ok ([l], f, r)

/-- `dumpToAutDescInternal` with or without the `break` -/
def dumpWith (firstOnly : Bool) (A : NFAS) (sd : StateDict) (yd : WSymDict) : Except String AutDesc :=
  match mapE (backState sd) A.final with
  | .error e => .error e
  | .ok fin =>
    match mapE (dumpStart firstOnly sd yd A) A.start with
    | .error e => .error e
    | .ok sts =>
      match mapE (dumpTrans sd yd) A.trans with
      | .error e => .error e
      | .ok ts => .ok (normDesc { name := "", symbols := [], states := [], final := fin, trans := sts.flatten ++ ts })

end NfaLD

/-- `ExplicitFiniteAut::DumpToAutDesc (stateDict)` as it is now -/
def dumpNFA (A : NFAS) (stateDict : StateDict) (symDict : WSymDict) : Except String AutDesc :=
  NfaLD.dumpWith false A stateDict symDict

/-- … and before the repair `3dfc5d43` (only the first start symbol of every start state is written) -/
def dumpNFAOld (A : NFAS) (stateDict : StateDict) (symDict : WSymDict) : Except String AutDesc :=
  NfaLD.dumpWith true A stateDict symDict

/-- `LoadFromString (parser, str, stateDict)` -/
def loadNFAString (rtl : Bool) (s : String) (stateDict : StateDict) (symDict : WSymDict) :
    Except String (NFAS × StateDict × WSymDict) :=
  match parseTimbuk s with
  | .error e => .error e
  | .ok d => loadNFA rtl d stateDict symDict

/-- `DumpToString (serializer, stateDict)` -/
def dumpNFAString (A : NFAS) (stateDict : StateDict) (symDict : WSymDict) : Except String String :=
  match dumpNFA A stateDict symDict with
  | .error e => .error e
  | .ok d => .ok (serialize d)

/-- the description is word-automaton shaped: every rule has at most one child -/
def AutDesc.WordShaped (d : AutDesc) : Prop := ∀ t, t ∈ d.trans → t.1.length ≤ 1

instance (d : AutDesc) : Decidable d.WordShaped := inferInstanceAs (Decidable (∀ t, t ∈ d.trans → _))

/-! ## `ReindexStates` and `Union` as coded -/

/-- `ReindexStates (dst, index)`:
```
for (auto& state : this->finalStates_) dst.SetStateFinal(index[state]);
for (auto& state : this->startStates_) dst.SetExistingStateStart(index[state], GetStartSymbols(state));
for (… every transition (p, a, q) …) cluster(index[p])->uniqueRStateSet(a).insert(index[q]);
``` -/
def nfasReindexInto (dst : NFAS) (f : Nat → Nat) (A : NFAS) : NFAS :=
  A.trans.foldl (fun D e => nfasAddTrans D (f e.1) e.2.1 (f e.2.2))
    (A.start.foldl (fun D q => nfasSetExistingStart D (f q) (A.symsOf q))
      (A.final.foldl (fun D q => nfasSetFinal D (f q)) dst))

/-- the order in which `ReindexStates` asks the translator: final states, start states, per transition source and target -/
def nfaVisitOrder (A : NFAS) : List Nat := A.final ++ A.start ++ A.trans.flatMap (fun e => [e.1, e.2.2])

/-- `Union` for given visiting orders and (possibly pre-filled) maps; `c` is the start value of the counter -/
def nfaUnionCodedFrom (c : Nat) (oA oB : List Nat) (A B : NFAS) (mL mR : SMap) : NFAS × SMap × SMap :=
  let l := weakTrAll oA mL c
  let r := weakTrAll oB mR l.2
  (nfasReindexInto (nfasReindexInto nfasEmpty (applyMap l.1) A) (applyMap r.1) B, l.1, r.1)

/-- `Union` as it is now: the counter starts above the values of both maps -/
def nfaUnionCodedOrd (oA oB : List Nat) (A B : NFAS) (mL mR : SMap) : NFAS × SMap × SMap :=
  nfaUnionCodedFrom (unionCnt mL mR) oA oB A B mL mR

/-- `Union (lhs, rhs, pTranslMapLhs, pTranslMapRhs)`: `none` is `nullptr` (a local empty map is used and dropped), `some m`
a caller's map (empty or pre-filled), updated in place -/
def nfaUnionCoded (A B : NFAS) (pL pR : Option SMap) : NFAS × Option SMap × Option SMap :=
  let u := nfaUnionCodedOrd (nfaVisitOrder A) (nfaVisitOrder B) A B (pL.getD []) (pR.getD [])
  (u.1, pL.map (fun _ => u.2.1), pR.map (fun _ => u.2.2))

/-- before the repair `73b68c90`: `StateType stateCnt = 0;` whatever the maps contain -/
def nfaUnionCodedOld (A B : NFAS) (pL pR : Option SMap) : NFAS × Option SMap × Option SMap :=
  let u := nfaUnionCodedFrom 0 (nfaVisitOrder A) (nfaVisitOrder B) A B (pL.getD []) (pR.getD [])
  (u.1, pL.map (fun _ => u.2.1), pR.map (fun _ => u.2.2))

/-! ## tests -/
namespace NfaLDTest

def dW : AutDesc :=
  { name := "W", symbols := [("a", 0), ("b", 1)], states := ["p", "q"], final := ["q"],
    trans := [([], "s", "p"), ([], "t", "p"), (["p"], "a", "q"), (["q"], "b", "q")] }

def loadsTo (rtl : Bool) (d : AutDesc) (sd : StateDict) (yd : WSymDict) (A : NFAS) (sd' : StateDict) (yd' : WSymDict) : Bool :=
  match loadNFA rtl d sd yd with
  | .ok (A', s, y) => A'.start == A.start && A'.final == A.final && A'.trans == A.trans && A'.startSyms == A.startSyms &&
      s == sd' && y == yd'
  | .error _ => false

-- symbols first (`a`, `b`), the final state `q`, then the rules; right to left: in `b(q) -> q` nothing is new
#guard loadsTo true dW [] [] ⟨⟨[1], [0], [(1, 0, 0), (0, 1, 0)]⟩, [(1, [2, 3])]⟩
  [("q", 0), ("p", 1)] [("a", 0), ("b", 1), ("s", 2), ("t", 3)]
#guard loadsTo false dW [] [] ⟨⟨[1], [0], [(1, 0, 0), (0, 1, 0)]⟩, [(1, [2, 3])]⟩
  [("q", 0), ("p", 1)] [("a", 0), ("b", 1), ("s", 2), ("t", 3)]
-- the order of evaluation shows in the numbers only
#guard loadsTo true { dW with final := [], symbols := [] } [] [] ⟨⟨[0], [], [(0, 2, 1), (1, 3, 1)]⟩, [(0, [0, 1])]⟩
  [("p", 0), ("q", 1)] [("s", 0), ("t", 1), ("a", 2), ("b", 3)]
#guard loadsTo true { dW with final := [], symbols := [], trans := [(["p"], "a", "q")] } [] []
  ⟨⟨[], [], [(1, 0, 0)]⟩, []⟩ [("q", 0), ("p", 1)] [("a", 0)]
#guard loadsTo false { dW with final := [], symbols := [], trans := [(["p"], "a", "q")] } [] []
  ⟨⟨[], [], [(0, 0, 1)]⟩, []⟩ [("p", 0), ("q", 1)] [("a", 0)]

def dumpsTo (r : Except String AutDesc) (d : AutDesc) : Bool :=
  match r with
  | .ok d' => d' == d
  | .error _ => false

def failsWith (r : Except String AutDesc) (msg : String) : Bool :=
  match r with
  | .ok _ => false
  | .error e => e == msg

#guard dumpsTo (dumpNFA ⟨⟨[1], [0], [(1, 0, 0), (0, 1, 0)]⟩, [(1, [2, 3])]⟩ [("q", 0), ("p", 1)]
    [("a", 0), ("b", 1), ("s", 2), ("t", 3)])
  { name := "", symbols := [], states := [], final := ["q"],
    trans := [([], "s", "p"), ([], "t", "p"), (["p"], "a", "q"), (["q"], "b", "q")] }
-- the `break`: `t -> p` is lost
#guard dumpsTo (dumpNFAOld ⟨⟨[1], [0], [(1, 0, 0), (0, 1, 0)]⟩, [(1, [2, 3])]⟩ [("q", 0), ("p", 1)]
    [("a", 0), ("b", 1), ("s", 2), ("t", 3)])
  { name := "", symbols := [], states := [], final := ["q"],
    trans := [([], "s", "p"), (["p"], "a", "q"), (["q"], "b", "q")] }
-- a start state without symbols (e.g. after `Reverse`): the literal `x`
#guard dumpsTo (dumpNFA ⟨⟨[0], [1], [(0, 0, 1)]⟩, [(0, [])]⟩ [("q", 0), ("p", 1)] [("a", 0)])
  { name := "", symbols := [], states := [], final := ["p"], trans := [([], "x", "q"), (["q"], "a", "p")] }
#guard failsWith (dumpNFA ⟨⟨[0], [1], [(0, 5, 1)]⟩, [(0, [])]⟩ [("q", 0), ("p", 1)] [("a", 0)]) "No translation for 5"
#guard failsWith (dumpNFA ⟨⟨[0], [7], []⟩, [(0, [])]⟩ [("q", 0), ("p", 1)] [("a", 0)]) "No translation for 7"
#guard failsWith (match loadNFA true { dW with trans := [(["p", "q"], "f", "q")] } [] [] with
  | .ok _ => .ok default | .error e => .error e) "Not a finite automaton"

def obs (r : NFAS × Option SMap × Option SMap) :=
  (r.1.start, r.1.final, r.1.trans, r.1.startSyms, r.2.1, r.2.2)

-- `Union` without maps, with empty maps, with pre-filled maps
#guard obs (nfaUnionCoded ⟨⟨[5], [6], [(5, 0, 6)]⟩, [(5, [8])]⟩ ⟨⟨[5], [5], [(5, 1, 5)]⟩, [(5, [9])]⟩ none (some [])) ==
  ([1, 2], [0, 2], [(1, 0, 0), (2, 1, 2)], [(1, [8]), (2, [9])], none, some [(5, 2)])
#guard obs (nfaUnionCoded ⟨⟨[5], [6], [(5, 0, 6)]⟩, [(5, [8])]⟩ ⟨⟨[5], [5], [(5, 1, 5)]⟩, [(5, [9])]⟩ (some [(6, 1)]) (some [(7, 0)])) ==
  ([2, 3], [1, 3], [(2, 0, 1), (3, 1, 3)], [(2, [8]), (3, [9])], some [(6, 1), (5, 2)], some [(7, 0), (5, 3)])
-- before the repair the state 5 of the left operand got the number 0 … of the state 7 / and 5 of the right operand the number of 6
#guard obs (nfaUnionCodedOld ⟨⟨[5], [6], [(5, 0, 6)]⟩, [(5, [8])]⟩ ⟨⟨[5], [5], [(5, 1, 5)]⟩, [(5, [9])]⟩ (some [(6, 1)]) (some [(7, 0)])) ==
  ([0, 1], [1], [(0, 0, 1), (1, 1, 1)], [(0, [8]), (1, [9])], some [(6, 1), (5, 0)], some [(7, 0), (5, 1)])

end NfaLDTest

end Vata
