import Vata.CowHeapFA
import Vata.NfaOpsCoded
/-!
# `Intersection` of explicit FINITE automata as a block of operations of the heap model (property C11 / C10) – definitions

C++ (`src/explicit_finite_isect.cc`): `Intersection` builds a local `ExplicitFA res;`, writes into it

```
res.SetExistingStateStart(iss->second, startSymbols);          // per pair of start states          → ResW.start
res.SetStateFinal(actState->second);                           // per popped pair of final states  → ResW.final
clusterptr = transitions->uniqueCluster(actState->second);     // once per popped pair with a common symbol
auto& stateSet = clusterptr->uniqueRStateSet(lsymbol);  …  stateSet.insert(istate.first->second);   → ResW.add
```

and ends with `return res.RemoveUselessStates();` (then the destructor of `res`).  `Vata/NfaOpsCoded.lean` (`isectInit`,
`isectBody`, `isectLoop`, variant `.fixed`) models the control flow – translation map, work stack, iteration orders `o` – with
the writes PERFORMED on an `NFAS`.  Here the same control flow is run with the writes RECORDED (`trInit`, `trBody`, `trLoop`:
the same functions, the component `res : NFAS` replaced by the list `ws : List ResW`), so that `Intersection` becomes the
operation list `isectOps` of the heap model: `new t`, the recorded writes as `setExistingStart` / `setFinal` / `add` steps on
`t` in the order the C++ makes them, `useless t dst`, `destroy t`.
-/
namespace Vata.CowHeapFA
open Vata.NfaC

/-- a write `Intersection` makes to its local `res` -/
inductive ResW where
  /-- `res.SetExistingStateStart(n, S)` -/
  | start (n : Nat) (S : List Nat)
  /-- `res.SetStateFinal(n)` -/
  | final (n : Nat)
  /-- `transitions->uniqueCluster(n)->uniqueRStateSet(a).insert(k)` -/
  | add (n a k : Nat)
deriving Repr, DecidableEq

/-- the write as an operation of the heap model on the handle `t` -/
def ResW.op (t : Nat) : ResW → Op
  | .start n S => .setExistingStart t n S
  | .final n => .setFinal t n
  | .add n a k => .add t n a k

/-- the write on a value -/
def ResW.vapply (v : FAVal) : ResW → FAVal
  | .start n S => vSetExistingStart n S v
  | .final n => vSetFinal n v
  | .add n a k => vAdd n a k v

/-- the state of the construction (`IsectSt` of `NfaOpsCoded.lean`) with the writes to `res` recorded in order -/
structure IsectTr where
  tm : TranslMap
  stack : List ((Nat × Nat) × Nat)
  ws : List ResW

/-- `isectInit … .fixed`, recording -/
def trInit (o : NfaOrd) (A B : NFAS) : IsectTr :=
  (iterSet o.sts A.start).foldl (fun st lss => (iterSet o.sts B.start).foldl (fun st rss =>
    let ins := tmInsert st.tm (lss, rss)
    ⟨ins.1, ((lss, rss), ins.2.1) :: st.stack, st.ws ++ [.start ins.2.1 (A.symsOf lss ++ B.symsOf rss)]⟩) st) ⟨[], [], []⟩

/-- `isectIns`, recording -/
def trIns (n a : Nat) (st : IsectTr) (q : Nat × Nat) : IsectTr :=
  let ins := tmInsert st.tm q
  ⟨ins.1, if ins.2.2 then (q, ins.2.1) :: st.stack else st.stack, st.ws ++ [.add n a ins.2.1]⟩

/-- `isectBody … .fixed`, recording -/
def trBody (o : NfaOrd) (A B : NFAS) (act : (Nat × Nat) × Nat) (st : IsectTr) : IsectTr :=
  let st1 : IsectTr :=
    if A.final.contains act.1.1 && B.final.contains act.1.2 then ⟨st.tm, st.stack, st.ws ++ [.final act.2]⟩ else st
  if (nfaClusterOf o A.toNFA act.1.1).isEmpty then st1
  else if (nfaClusterOf o B.toNFA act.1.2).isEmpty then st1
  else (isectSymList o A.toNFA B.toNFA act.1.1 act.1.2).foldl (fun st c => c.2.foldl (trIns act.2 c.1) st) st1

/-- `isectLoop … .fixed`, recording; `none` = out of fuel -/
def trLoop (o : NfaOrd) (A B : NFAS) : Nat → IsectTr → Option IsectTr
  | 0, st => if st.stack.isEmpty then some st else none
  | n + 1, st =>
    match st.stack with
    | [] => some st
    | act :: rest => trLoop o A B n (trBody o A B act ⟨st.tm, rest, st.ws⟩)

/-- the writes of `Intersection (A, B)` to `res`, in order, with the fuel `isectFuel` (which suffices: the run is `some`,
    `isect_trace_total` in `Vata/Proofs/CowHeapFAIsect.lean`) -/
def isectWrites (o : NfaOrd) (A B : NFAS) : List ResW :=
  ((trLoop o A B (isectFuel o .fixed A B) (trInit o A B)).map (·.ws)).getD []

/-- `dst` := `Intersection(a, b)` as operations of the heap model; `A`, `B` are the values of the operands (read only), `t` the
    local `res`: `ExplicitFA res; …writes…; return res.RemoveUselessStates();` and the destructor of `res` -/
def isectOps (o : NfaOrd) (A B : FAVal) (dst t : Nat) : List Op :=
  .new t :: ((isectWrites o A.toNFAS B.toNFAS).map (ResW.op t) ++ [.useless t dst, .destroy t])

end Vata.CowHeapFA
