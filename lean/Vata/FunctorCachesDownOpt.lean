import Vata.FunctorCachesDown
/-!
# `OptDownwardInclusionFunctor` WITH its address-keyed caches and all its containers (properties C01, C07)

`src/down_tree_opt_incl_fctor.hh` (`ANTICHAINS_DOWN_REC_OPT_NOSIM` / `…_OPT_SIM`, explicit and top-down BDD encoding) run by the
shared template `CheckDownwardTreeInclusion` of `src/tree_incl_down.hh`, over the heap machinery of `Vata/FunctorCachesUp.lean`
(`FCU.Heap`, `hLookup`, `hCollect`, the deleter with its `CM.Wiring`) and the comparison loops of `Vata/FunctorCachesDown.lean`
(`hLteO`, `findC`, `refC`, `coversC`, `niFindC`, `ccAddC`, `niAddC`).

What the `Opt` functor has on top of `DownwardInclusionFunctor` – all of it is modelled here as coded:

* `incl_` (a global antichain, consulted by `isInclusionImplied` right after `isInWorkset`; filled by
  `processFoundGlobalInclusion` only) – `StO.incl`;
* `expand` returns a tuple `(bool, InclAntichainType antecedent, ConsequentType consequent)`: on a hit in the work-set the
  antecedent is the work-set element found (`isInWorkset` returns it), on the other early exits both are empty, at the end they
  are the locals `antecedent`, `consequent` which the inner functor filled through its references `ant_`, `cons_`;
* the calling functor's `operator()`, after a successful `expand`, pops the returned antecedent element by element
  (`Antichain2Cv2::get`) and merges it into its own `ant_` with `contains` / `refine` / `insert` – THESE ARE COMPARISONS THROUGH
  `lteCache` (`antAddC`; both use `preorderSmaller_` and `smallerComparer_`, as coded) – and inserts the returned consequent into
  `cons_`;
* at the end of `expand`: `if (antecedent.empty()) { for (consElem : consequent) processFoundGlobalInclusion(..); consequent.clear(); }`
  (`globalInclO`).

So with respect to the verdict the functor computes what the plain one computes PROVIDED `incl_` stays empty; it does, because
nothing ever seeds a consequent (every `cons_.insert` inserts a returned consequent) – this is not assumed here but is part
of the simulation invariant proved in `Vata/Proofs/FunctorCachesDownOptSim.lean` (`DRelO.econs`, `DRelO.eincl`).  With respect
to the HEAP the functor differs: the antecedents hold handles (macro-states live longer), and merging them makes additional
`lteCache` entries.

Handles and deaths.  One functor object owns `childrenCache_`; `ant_` / `cons_` are references to the locals `antecedent` /
`consequent` of the `expand` that created the functor (of `CheckDownwardTreeInclusion` for the root functor) – they live exactly
as long as the functor, so the three are kept together in `FO`.  The deaths are modelled by `hCollect` at the points where
handles are dropped, with all handles that exist then as roots:

* in `expand` after `processFoundInclusion` / `processFoundNoninclusion` / the global-inclusion loop (handles: `key`, the
  work-set, everything owned by the functors up the stack and by `*this`, the inner functor with `antecedent` / `consequent`,
  `nonIncl_`, `incl_`);
* in the functor's `operator()` when the block that called `expand` is left (`wrapO`): the temporary argument, the returned
  tuple's locals `ant` (emptied by `get`) and `cons`, `antElemSecond` are gone.
Between the return of `expand` and that point no object is created, so the deaths one by one (each purging the entries of the
dying address only, none of which is asked for afterwards) give the same heap and the same `lteCache` – as in
`Vata/FunctorCachesDown.lean`.

The functor's `operator()` is re-stated over an arbitrary functor state `φ` and global state `σ` (`forAllLG` … `bodyG`: the same
control flow as `InclDown.body` / `FCD.bodyC`), used here with `φ = FO`, `σ = StO` and by the non-recursive variant
(`Vata/FunctorCachesDownNonrec.lean`).

Definitions only; theorems in `Vata/Proofs/FunctorCachesDownOpt*.lean`.
-/
namespace Vata
namespace FCD
open Vata.InclDown Vata.CM
open Vata.FCU (Heap hval hLookup hCollect pickLeast)
open Vata.InclUp (normS prodWit Wit)

/-! ### the functor's `operator()` over any functor state `φ` and global state `σ` -/

abbrev RetG (φ σ : Type) := Option (Verdict × φ × σ)
abbrev CallG (φ σ : Type) := φ → σ → Nat → List Nat → RetG φ σ

def forAllLG {φ σ α : Type} (f : α → φ → σ → RetG φ σ) : List α → φ → σ → RetG φ σ
  | [], cc, st => some (.holds, cc, st)
  | a :: as, cc, st =>
    match f a cc st with
    | none => none
    | some (.holds, cc', st') => forAllLG f as cc' st'
    | some (.fails w, cc', st') => some (.fails w, cc', st')

def allPosG {φ σ : Type} (call : CallG φ σ) (lhs rhs : List Nat) : φ → σ → RetG φ σ :=
  forAllLG (fun lr cc st => call cc st lr.1 [lr.2]) (lhs.zip rhs)

def anyTupleG {φ σ : Type} (call : CallG φ σ) (lhs : List Nat) : List (List Nat) → φ → σ → Option (Bool × φ × σ)
  | [], cc, st => some (false, cc, st)
  | w :: W, cc, st =>
    match allPosG call lhs w cc st with
    | none => none
    | some (.holds, cc', st') => some (true, cc', st')
    | some (.fails _, cc', st') => anyTupleG call lhs W cc' st'

def consTG {φ σ : Type} (t : Tree) : Option (Option (List Tree) × φ × σ) → Option (Option (List Tree) × φ × σ)
  | some (some ts, cc, st) => some (some (t :: ts), cc, st)
  | r => r

def tryPosG {φ σ : Type} (call : CallG φ σ) (wit : Wit) (post : List Nat → List Nat) (W : List (List Nat)) (cs : List Nat) :
    Nat → List Nat → φ → σ → Option (Option (List Tree) × φ × σ)
  | _, [], cc, st => some (some [], cc, st)
  | i, l :: ls, cc, st =>
    let S := posSet post W cs i
    if S.isEmpty then consTG (treeOf wit l) (tryPosG call wit post W cs (i+1) ls cc st)
    else
      match call cc st l S with
      | none => none
      | some (.holds, cc', st') => some (none, cc', st')
      | some (.fails w, cc', st') => consTG w (tryPosG call wit post W cs (i+1) ls cc' st')

def oneCfG {φ σ : Type} (call : CallG φ σ) (wit : Wit) (post : List Nat → List Nat) (f : Nat) (lhs : List Nat)
    (W : List (List Nat)) (cs : List Nat) (cc : φ) (st : σ) : RetG φ σ :=
  match tryPosG call wit post W cs 0 lhs cc st with
  | none => none
  | some (some ts, cc', st') => some (.fails (.node f ts), cc', st')
  | some (none, cc', st') => some (.holds, cc', st')

def cfAllG {φ σ : Type} (one : List Nat → φ → σ → RetG φ σ) (n : Nat) : Nat → List Nat → φ → σ → RetG φ σ
  | 0, cs, cc, st => one cs cc st
  | m+1, cs, cc, st => forAllLG (fun i cc st => cfAllG one n m (i :: cs) cc st) (List.range n) cc st

def procTupleG {φ σ : Type} (call1 call2 : CallG φ σ) (wit : Wit) (post : List Nat → List Nat) (f : Nat)
    (W : List (List Nat)) (lhs : List Nat) (cc : φ) (st : σ) : RetG φ σ :=
  match anyTupleG call1 lhs W cc st with
  | none => none
  | some (true, cc', st') => some (.holds, cc', st')
  | some (false, cc', st') => cfAllG (oneCfG call2 wit post f lhs W) lhs.length W.length [] cc' st'

def procGroupG {φ σ : Type} (call1 call2 : CallG φ σ) (A B : TA) (wit : Wit) (post : List Nat → List Nat) (p : Nat)
    (P : List Nat) (f n : Nat) (cc : φ) (st : σ) : RetG φ σ :=
  let W := rhsTuples B P f n
  if n = 0 then
    if W.isEmpty then some (.fails (.node f []), cc, st) else some (.holds, cc, st)
  else
    let L := lhsTuples A p f n
    if W.isEmpty then some (.fails (.node f ((L.headD []).map (treeOf wit))), cc, st)
    else forAllLG (procTupleG call1 call2 wit post f W) L cc st

/-- `ForeachDownSymbolFromStateAndStateSetDo(smaller_, bigger_, smallerState, *biggerStateSet, innerFctor)` -/
def bodyG {φ σ : Type} (call1 call2 : CallG φ σ) (A B : TA) (wit : Wit) (post : List Nat → List Nat) (p : Nat)
    (P : List Nat) (cc : φ) (st : σ) : RetG φ σ :=
  forAllLG (fun g => procGroupG call1 call2 A B wit post p P g.1 g.2) (lhsGroups A p) cc st

/-! ### the `Opt` functor -/

/-- what one `OptDownwardInclusionFunctor` object owns or refers to alone: `childrenCache_`, `ant_`, `cons_` (the latter two are
the locals `antecedent`, `consequent` of the `expand` that made the functor); pairs (state, address) -/
structure FO where
  cc : List CP
  ant : List CP
  cons : List CP

/-- the global state: `nonIncl_`, `incl_`, the ghost set of `InclDown.St`, the heap with `lteCache` -/
structure StO where
  nonIncl : List CN
  incl : List CP
  trues : List Pair
  h : Heap

/-- all handles a functor holds -/
def FO.handles (f : FO) : List Nat := f.cc.map (·.2) ++ f.ant.map (·.2) ++ f.cons.map (·.2)

/-- the handles that exist at a point: `roots` (frozen frames), those of the functor at hand, `nonIncl_`, `incl_` -/
def rootsO (roots : List Nat) (f : FO) (st : StO) : List Nat :=
  roots ++ f.handles ++ st.nonIncl.map (·.2.1) ++ st.incl.map (·.2)

/-- one turn of the merge loop in `operator()`:

    if (!ant_.contains(preorderSmaller_.at(antElemFirst), antElemSecond, smallerComparer_)) {
        ant_.refine(preorderSmaller_.at(antElemFirst), antElemSecond, smallerComparer_);
        ant_.insert(antElemFirst, antElemSecond); }

(both with `preorderSmaller_` and `smallerComparer_`, as coded) -/
def antAddC (o : Ord) (ant : List CP) (p a : Nat) (h : Heap) : Heap × List CP :=
  let r1 := findC o false (fun x : CP => o.leA x.1 p) (·.2) a ant h
  if r1.2.isSome then (r1.1, ant)
  else
    let r2 := refC o false (fun x : CP => o.leA x.1 p) (·.2) a ant r1.1
    (r2.1, r2.2 ++ [(p, a)])

/-- `while (ant.get(antElemFirst, antElemSecond)) { … }`: `get` pops the front element of the first bucket (list order) -/
def antMergeC (o : Ord) : List CP → List CP → Heap → Heap × List CP
  | [], ant, h => (h, ant)
  | x :: X, ant, h =>
    let r := antAddC o ant x.1 x.2 h
    antMergeC o X r.2 r.1

/-- `cons_.insert(cons.begin(), cons.end())` on a `std::set` -/
def consIns (X : List CP) (Y : List CP) : List CP :=
  Y.foldl (fun acc y => if acc.contains y then acc else acc ++ [y]) X

/-- `processFoundGlobalInclusion(consElem.first, consElem.second)` for all elements of `consequent`: the same three steps as
`processFoundInclusion`, on `incl_` -/
def inclAddAll (o : Ord) : List CP → List CP → Heap → Heap × List CP
  | [], incl, h => (h, incl)
  | x :: X, incl, h =>
    let r := ccAddC o incl x.1 x.2 h
    inclAddAll o X r.2 r.1

/-- the end of `expand`:

    if (antecedent.empty()) {
        for (const auto& consElem : consequent) processFoundGlobalInclusion(consElem.first, consElem.second);
        consequent.clear(); }

result: heap, `incl_`, `consequent` -/
def globalInclO (o : Ord) (ant cons incl : List CP) (h : Heap) : Heap × List CP × List CP :=
  if ant.isEmpty then
    let r := inclAddAll o cons incl h
    (r.1, r.2, [])
  else (h, incl, cons)

/-- `std::tie(res, ant, cons) = expand(q, biggerTypeCache_.lookup(S)); if (res) { merge ant into ant_; cons_.insert(cons) }`
as the functor's `operator()` does it (both in the first phase and in the loop over the choice functions), then the block is
left.  `e cc frozen st q a` is `expand` run by the functor `f` with `childrenCache_` = `cc` while the handles `frozen` (those
of `f.ant`, `f.cons`) do not change; its result packs the returned tuple: `.cc` = the `childrenCache_` of `f` after the call,
`.ant` / `.cons` = the returned antecedent / consequent. -/
def wrapO (o : Ord) (w : Wiring) (pick : List Nat → Nat) (roots : List Nat)
    (e : List Nat → List CP → StO → Nat → Nat → RetG FO StO) : CallG FO StO := fun f st q Q =>
  let l := hLookup pick st.h Q
  match e (f.ant.map (·.2) ++ f.cons.map (·.2)) f.cc { st with h := l.1 } q l.2 with
  | none => none
  | some (.holds, r, st') =>
    let m := antMergeC o r.ant f.ant st'.h
    let f' : FO := ⟨r.cc, m.2, consIns f.cons r.cons⟩
    some (.holds, f', { st' with h := hCollect w (rootsO roots f' st') m.1 })
  | some (.fails t, r, st') =>
    let f' : FO := ⟨r.cc, f.ant, f.cons⟩
    some (.fails t, f', { st' with h := hCollect w (rootsO roots f' st') st'.h })

/-- `OptDownwardInclusionFunctor::expand(smallerState, biggerStateSet)`; `ws` = `workset_`, `outer` = the handles of the
functors up the call stack and of `ant_` / `cons_` of `*this` (they do not change while this call runs), `cc` = the
`childrenCache_` of `*this`, `a` = `biggerStateSet`; one unit of fuel per nested call.  The result packs
(`childrenCache_` of `*this`, returned antecedent, returned consequent).

    if (std::get<0>(std::tie(res, elem) = isInWorkset(key))) { antec.insert(elem.first, elem.second);
        return std::make_tuple(true, antec, ConsequentType()); }
    else if (isInclusionImplied(key))    return std::make_tuple(true, InclAntichainType(), ConsequentType());
    else if (isNoninclusionImplied(key)) return std::make_tuple(false, InclAntichainType(), ConsequentType());
    else if (isImpliedByChildren(key))   return std::make_tuple(true, InclAntichainType(), ConsequentType());
    else if (IsImpliedByPreorder(key))   return std::make_tuple(true, InclAntichainType(), ConsequentType());
    workset_.insert(key);
    InclAntichainType antecedent; ConsequentType consequent;
    OptDownwardInclusionFunctor innerFctor(*this, antecedent, consequent);
    Aut::ForeachDownSymbolFromStateAndStateSetDo(smaller_, bigger_, smallerState, *biggerStateSet, innerFctor);
    … workset_.erase(..) …
    if (innerFctor.InclusionHolds()) processFoundInclusion(smallerState, biggerStateSet);
    else processFoundNoninclusion(smallerState, biggerStateSet);
    if (antecedent.empty()) { for (consElem : consequent) processFoundGlobalInclusion(..); consequent.clear(); }
    return std::make_tuple(innerFctor.InclusionHolds(), antecedent, consequent); -/
def expandO (o : Ord) (w : Wiring) (pick : List Nat → Nat) (A B : TA) (wit : Wit) :
    Nat → List CP → List Nat → List CP → StO → Nat → Nat → RetG FO StO
  | 0, _, _, _, _, _, _ => none
  | fuel+1, ws, outer, cc, st, p, a =>
    let r1 := findC o false (fun x : CP => o.leA p x.1) (·.2) a ws st.h
    match r1.2 with
    | some x => some (.holds, ⟨cc, [x], []⟩, { st with h := r1.1 })
    | none =>
      let r1b := coversC o st.incl p a r1.1
      if r1b.2 then some (.holds, ⟨cc, [], []⟩, { st with h := r1b.1 })
      else
        let r2 := niFindC o st.nonIncl p a r1b.1
        match r2.2 with
        | some x => some (.fails x.2.2, ⟨cc, [], []⟩, { st with h := r2.1 })
        | none =>
          let r3 := coversC o cc p a r2.1
          if r3.2 then some (.holds, ⟨cc, [], []⟩, { st with h := r3.1 })
          else if byPre o p (hval r3.1 a) then some (.holds, ⟨cc, [], []⟩, { st with h := r3.1 })
          else
            let outer' := outer ++ cc.map (·.2)
            let frozen := a :: ws.map (·.2) ++ outer'
            let call := wrapO o w pick frozen
              (fun fr => expandO o w pick A B wit fuel ((p, a) :: ws) (outer' ++ fr))
            match bodyG call call A B wit normS p (hval r3.1 a) ⟨[], [], []⟩ { st with h := r3.1 } with
            | none => none
            | some (.holds, f1, st') =>
              let r4 := ccAddC o cc p a st'.h
              let g := globalInclO o f1.ant f1.cons st'.incl r4.1
              let st4 : StO := ⟨st'.nonIncl, g.2.1, addTrue st'.trues (p, hval st'.h a), g.1⟩
              let f1' : FO := ⟨f1.cc, f1.ant, g.2.2⟩
              some (.holds, ⟨r4.2, f1.ant, g.2.2⟩,
                { st4 with h := hCollect w (rootsO (frozen ++ f1'.handles) ⟨r4.2, [], []⟩ st4) g.1 })
            | some (.fails t, f1, st') =>
              let r4 := niAddC o st'.nonIncl p a t st'.h
              let g := globalInclO o f1.ant f1.cons st'.incl r4.1
              let st4 : StO := ⟨r4.2, g.2.1, st.trues, g.1⟩
              let f1' : FO := ⟨f1.cc, f1.ant, g.2.2⟩
              some (.fails t, ⟨cc, f1.ant, g.2.2⟩,
                { st4 with h := hCollect w (rootsO (frozen ++ f1'.handles) ⟨cc, [], []⟩ st4) g.1 })

/-- the loop of `CheckDownwardTreeInclusion` (see `FCD.rootLoopC`); the root functor `downFctor` – its `childrenCache_` and the
`antecedent`, `consequent` declared in `CheckDownwardTreeInclusion` – is shared by all turns (`Reset()` resets the two flags
only) -/
def rootLoopO (o : Ord) (w : Wiring) (pick : List Nat → Nat) (A B : TA) (wit : Wit) (fuel : Nat) (FB : List Nat) :
    List Nat → FO → StO → Option (Except Tree StO)
  | [], _, st => some (.ok st)
  | f :: fs, fo, st =>
    let l := hLookup pick st.h FB
    let pre := byPre o f (hval l.1 l.2)
    let st1 : StO := { st with h := hCollect w (rootsO [] fo st) l.1 }
    if pre then rootLoopO o w pick A B wit fuel FB fs fo st1
    else
      let call := wrapO o w pick [] (fun fr => expandO o w pick A B wit fuel [] fr)
      match bodyG call call A B wit normS f FB fo st1 with
      | none => none
      | some (.holds, fo', st') =>
        rootLoopO o w pick A B wit fuel FB fs fo' ⟨st'.nonIncl, st'.incl, addTrue st'.trues (f, FB), st'.h⟩
      | some (.fails t, _, _) => some (.error t)

/-- `CheckDownwardTreeInclusion<Aut, OptDownwardInclusionFunctor, Rel>` with all its containers and caches -/
def runO (o : Ord) (w : Wiring) (pick : List Nat → Nat) (A B : TA) (fuel : Nat) : Option (Except Tree StO) :=
  rootLoopO o w pick A B (prodWit A) fuel (normS B.final) (dedup A.final) ⟨[], [], []⟩ ⟨[], [], [], {}⟩

/-- what persists of a run, by value -/
def viewO : Option (Except Tree StO) → Option (Except Tree St)
  | none => none
  | some (.error t) => some (.error t)
  | some (.ok s) => some (.ok ⟨s.nonIncl.map (derefN s.h), s.trues⟩)

def truesOfO : Option (Except Tree StO) → Option (Except Tree (List Pair))
  | none => none
  | some (.error t) => some (.error t)
  | some (.ok s) => some (.ok s.trues)

def rawVerdictO : Option (Except Tree StO) → Option Bool
  | none => none
  | some (.ok _) => some true
  | some (.error _) => some false

def finalHeapO : Option (Except Tree StO) → Option Heap
  | some (.ok s) => some s.h
  | _ => none

/-- the final `incl_` -/
def finalInclO : Option (Except Tree StO) → Option (List CP)
  | some (.ok s) => some s.incl
  | _ => none

/-- `ANTICHAINS_DOWN_REC_OPT_NOSIM`, caches included, certify-then-trust as `inclDownOpt` -/
def inclDownOptC (w : Wiring) (pick : List Nat → Nat) (A B : TA) (fuel : Nat) : Option (Bool × InclUp.Cert) :=
  finish (downCertB A B) A B (truesOfO (runO idOrd w pick A B fuel))

/-- `ANTICHAINS_DOWN_REC_OPT_SIM`, as `inclDownSim` -/
def inclDownOptSimC (w : Wiring) (pick : List Nat → Nat) (A B : TA) (R : Rel) (fuel : Nat) : Option (Bool × InclUp.Cert) :=
  if isDownSimB (unionDisjoint A B) R && disjointB A B then
    finish (downCertRB (ordOf R A B) A B) A B (truesOfO (runO (ordOf R A B) w pick A B fuel))
  else none

/-- `CheckInclusion` with `ANTICHAINS_DOWN_REC_OPT_NOSIM` (the operands are sanitised first) -/
def checkInclDownOptC (w : Wiring) (pick : List Nat → Nat) (A B : TA) (fuel : Nat) : Option (Bool × InclUp.Cert) :=
  inclDownOptC w pick (removeUseless A) (removeUseless B) fuel

end FCD
end Vata
