import Vata.LtsEngine
/-!
# The container `ExplicitLTS` as coded (`include/vata/explicit_lts.hh`, `src/explicit_lts_sim.cc` l. 915–949; property C16)

The simulation engine model (`Vata/LtsEngine.lean`) takes an abstract `LTS = ⟨n, edges⟩` and computes the views the C++
engine reads (`post`, `pre`, `bwLabels`, `labels`, `delta1`) from the edge list.  This file models the class that really
holds the data:

```
size_t states_;  size_t transitions_;
std::vector<std::pair<std::vector<std::vector<size_t>>, std::vector<std::vector<size_t>>>> data_;   // per label (post, pre)
std::vector<Util::SmartSet> bwLabels_;                                                             // per state
```

* vectors are lists, `resize(n, d)` is `resizeL` (truncate or pad), `v[i]` is `getD` (every index the code uses is in range,
  which is part of the proved invariant `Inv`);
* a `Util::SmartSet` is its range (`index_.size()`), its linked list of `(key, count)` in list order and a ghost flag `bad`
  that records that `insert` / `init` was called with `key ≥ index_.size()` (an `assert` in debug builds, an out-of-bounds
  vector access otherwise);
* `LtsC.ub` is a ghost field: some `SmartSet` operation of some `init()` so far was out of range.  It is sticky (survives
  `clear()`).

`init` is the REPAIRED `init()` (commit 810ab7a9 in /repo, defect D22: `bwLabels_.assign(…)`), for which `ub` is never raised
(`C16_container_never_overruns`); `initOld` / `stepOld` / `runOld` keep the code as it was (`bwLabels_.resize(…)`) for the
regression theorems.

Definitions only; proofs in `Vata/Proofs/LtsContainer*.lean`, theorems in `Vata/Properties/C16_Container.lean`.
-/
namespace Vata.LC
open Vata.L

/-! ### `std::vector::resize` and `Util::SmartSet` -/

/-- `v.resize(n, d)` -/
def resizeL {α : Type} (d : α) (l : List α) (n : Nat) : List α := l.take n ++ List.replicate (n - l.length) d

/-- `Util::SmartSet`: `range` = `index_.size()`, `elems` = the list behind `head_` -/
structure SSet where
  range : Nat
  elems : List (Nat × Nat)
  bad : Bool
deriving Repr, DecidableEq, Inhabited

/-- `SmartSet(range)` -/
def SSet.new (range : Nat) : SSet := ⟨range, [], false⟩

/-- `insert(key) = count`: the element of the key, appended at `last_` when there is none, gets the count -/
def ssPut : List (Nat × Nat) → Nat → Nat → List (Nat × Nat)
  | [], k, c => [(k, c)]
  | (b, d) :: s, k, c => if b = k then (b, c) :: s else (b, d) :: ssPut s k c

/-- `SmartSet::init(key, count)`:
```
if (count > 0) { this->insert(key) = count; return; }      // insert: assert(key < index_.size())
assert(key < index_.size());
Element*& prev = index_[key];
if (nullptr != prev) this->erase(prev);
```
(`erase` does not reset `last_` when the erased element is the last one; `init_never_erases` shows that `ExplicitLTS` never
reaches the erase.) -/
def SSet.init (s : SSet) (key count : Nat) : SSet :=
  if key < s.range then
    if 0 < count then { s with elems := ssPut s.elems key count }
    else { s with elems := s.elems.filter (fun e => e.1 != key) }
  else { s with bad := true }

/-- the keys in iteration order (`begin()` … `end()`) -/
def SSet.keys (s : SSet) : List Nat := s.elems.map (·.1)

/-- `SmartSet::count(key)` -/
def SSet.count (s : SSet) (k : Nat) : Nat :=
  match s.elems.find? (fun e => e.1 == k) with
  | some e => e.2
  | none => 0

/-! ### the class -/

abbrev Data := List (List (List Nat) × List (List Nat))

structure LtsC where
  states : Nat
  transitions : Nat
  data : Data
  bw : List SSet
  ub : Bool
deriving Repr, DecidableEq

/-- `ExplicitLTS(size_t states = 0)` -/
def construct (n : Nat) : LtsC := ⟨n, 0, [], [], false⟩

/-- `if (x >= vec.size()) { if (x >= states_) states_ = x + 1; … }` -/
def growStates (st x len : Nat) : Nat := if len ≤ x then (if st ≤ x then x + 1 else st) else st

/-- `if (x >= vec.size()) { …; vec.resize(x + 1); }` -/
def growVec (v : List (List Nat)) (x : Nat) : List (List Nat) := if v.length ≤ x then resizeL [] v (x + 1) else v

/-- `vec[x].push_back(y)` -/
def pushAt (v : List (List Nat)) (x y : Nat) : List (List Nat) := v.set x (v.getD x [] ++ [y])

/-- `ExplicitLTS::addTransition(q, a, r)`:
```
if (a >= data_.size()) data_.resize(a + 1);
if (q >= data_[a].first.size())  { if (q >= states_) states_ = q + 1;  data_[a].first.resize(q + 1); }
if (r >= data_[a].second.size()) { if (r >= states_) states_ = r + 1;  data_[a].second.resize(r + 1); }
data_[a].first[q].push_back(r);
data_[a].second[r].push_back(q);
++transitions_;
```
-/
def addTransition (c : LtsC) (q a r : Nat) : LtsC :=
  let data1 := if c.data.length ≤ a then resizeL ([], []) c.data (a + 1) else c.data
  let p := data1.getD a ([], [])
  let st1 := growStates c.states q p.1.length
  let fst1 := growVec p.1 q
  let st2 := growStates st1 r p.2.length
  let snd1 := growVec p.2 r
  { c with states := st2, transitions := c.transitions + 1, data := data1.set a (pushAt fst1 q r, pushAt snd1 r q) }

/-- the inner loop `for (r = 0; r < states_; ++r) bwLabels_[r].init(a, data_[a].second[r].size());` -/
def initStates (states a : Nat) (snd : List (List Nat)) (bw : List SSet) : List SSet :=
  (List.range states).foldl (fun bw r => bw.set r ((bw.getD r default).init a (snd.getD r []).length)) bw

/-- one round of the outer loop of `init()`:
```
data_[a].first.resize(states_);  data_[a].second.resize(states_);
for (r …) …
```
-/
def initLabel (states : Nat) (db : Data × List SSet) (a : Nat) : Data × List SSet :=
  let p := db.1.getD a ([], [])
  let p' := (resizeL [] p.1 states, resizeL [] p.2 states)
  (db.1.set a p', initStates states a p'.2 db.2)

/-- the nested loops of `init()` run on the start value `bw0` of `bwLabels_`:
```
for (size_t a = 0; a < data_.size(); ++a) { … }
```
There is NO early exit: every call walks all labels and all states again.  The ghost flag `ub` is raised when a set was
asked for a key outside its range. -/
def initWith (c : LtsC) (bw0 : List SSet) : LtsC :=
  let db := (List.range c.data.length).foldl (initLabel c.states) (c.data, bw0)
  { c with data := db.1, bw := db.2, ub := c.ub || db.2.any (·.bad) }

/-- `ExplicitLTS::init()` as REPAIRED in commit 810ab7a9 (defect D22):
```
// build the index anew: sets created by an earlier init() have the range of the labels known then
bwLabels_.assign(states_, Util::SmartSet(data_.size()));
for (size_t a = 0; a < data_.size(); ++a) { … }
```
`assign(n, v)` discards the old contents: `states_` copies of the empty set whose range is the CURRENT number of labels. -/
def init (c : LtsC) : LtsC := initWith c (List.replicate c.states (SSet.new c.data.length))

/-- `ExplicitLTS::init()` as it WAS (before 810ab7a9; kept for the regression theorems only):
```
bwLabels_.resize(states_, Util::SmartSet(data_.size()));
for (size_t a = 0; a < data_.size(); ++a) { … }
```
Sets that exist already keep their range and their elements (a key that is new for a state is appended behind the old
ones; a key beyond the old range is an overrun). -/
def initOld (c : LtsC) : LtsC := initWith c (resizeL (SSet.new c.data.length) c.bw c.states)

/-- `ExplicitLTS::clear()`: `data_.clear(); bwLabels_.clear(); states_ = 0; transitions_ = 0;` -/
def clear (c : LtsC) : LtsC := { c with states := 0, transitions := 0, data := [], bw := [] }

/-! ### histories -/

inductive Op where
  | construct (n : Nat)
  | add (q a r : Nat)
  | init
  | clear
deriving Repr, DecidableEq

def step (c : LtsC) : Op → LtsC
  | .construct n => { construct n with ub := c.ub }
  | .add q a r => addTransition c q a r
  | .init => init c
  | .clear => clear c

/-- the object after a history of calls (starting from `ExplicitLTS()`) -/
def run (h : List Op) : LtsC := h.foldl step (construct 0)

/-- a call on the object of the class as it was before the repair (`initOld`) -/
def stepOld (c : LtsC) : Op → LtsC
  | .init => initOld c
  | op => step c op

/-- the object of the class as it was before the repair after a history of calls -/
def runOld (h : List Op) : LtsC := h.foldl stepOld (construct 0)

/-- the abstract system of a history: the edges added since the last `clear()` / construction in insertion order, and
`max(given count, largest state + 1)` -/
def specStep (L : LTS) : Op → LTS
  | .construct n => ⟨n, []⟩
  | .add q a r => ⟨max (max L.n (q + 1)) (r + 1), L.edges ++ [(q, a, r)]⟩
  | .init => L
  | .clear => ⟨0, []⟩

def spec (h : List Op) : LTS := h.foldl specStep ⟨0, []⟩

/-! ### the views the engine reads -/

/-- `post(a)[q]` -/
def LtsC.post (c : LtsC) (a q : Nat) : List Nat := (c.data.getD a ([], [])).1.getD q []
/-- `pre(a)[r]` -/
def LtsC.pre (c : LtsC) (a r : Nat) : List Nat := (c.data.getD a ([], [])).2.getD r []
/-- `labels()` -/
def LtsC.labels (c : LtsC) : Nat := c.data.length
/-- `bwLabels(r)` in iteration order -/
def LtsC.bwLabels (c : LtsC) (r : Nat) : List Nat := (c.bw.getD r default).keys
/-- `bwLabels(r).count(a)` -/
def LtsC.bwCount (c : LtsC) (r a : Nat) : Nat := (c.bw.getD r default).count a

/-- `buildDelta1(delta1)` for the fresh vector the engine passes:
```
delta1.resize(data_.size(), Util::SmartSet(states_));
for (a …) for (q = 0; q < data_[a].first.size(); ++q) delta1[a].init(q, delta1[a].count(q) + data_[a].first[q].size());
```
-/
def LtsC.buildDelta1 (c : LtsC) : List SSet :=
  (List.range c.data.length).map (fun a =>
    let fst := (c.data.getD a ([], [])).1
    (List.range fst.length).foldl (fun (s : SSet) q => s.init q (s.count q + (fst.getD q []).length)) (SSet.new c.states))

/-- the abstraction: the edges in the order of `operator<<` (by label, by source, in `post` order) -/
def abs (c : LtsC) : LTS :=
  ⟨c.states, (List.range c.data.length).flatMap (fun a => (List.range c.states).flatMap (fun q =>
    (c.post a q).map (fun r => (q, a, r))))⟩

/-! ### the two seeded variants (for the regression theorems only) -/

/-- seeded change `C16-lts-init-early-return`: `if (bwLabels_.size() == states_) return;` in front of (the repaired) `init()` -/
def initEarly (c : LtsC) : LtsC := if c.bw.length = c.states then c else init c

/-- seeded change `C16-r6-lts-dedup-predecessors`:
`auto& pred = data_[a].second[r]; if (pred.empty() || pred.back() != q) pred.push_back(q);` -/
def addTransitionDedup (c : LtsC) (q a r : Nat) : LtsC :=
  let data1 := if c.data.length ≤ a then resizeL ([], []) c.data (a + 1) else c.data
  let p := data1.getD a ([], [])
  let st1 := growStates c.states q p.1.length
  let fst1 := growVec p.1 q
  let st2 := growStates st1 r p.2.length
  let snd1 := growVec p.2 r
  let pred := snd1.getD r []
  let snd2 := if pred.isEmpty || pred.getLast? != some q then pushAt snd1 r q else snd1
  { c with states := st2, transitions := c.transitions + 1, data := data1.set a (pushAt fst1 q r, snd2) }

def stepEarly (c : LtsC) : Op → LtsC
  | .init => initEarly c
  | op => step c op

def stepDedup (c : LtsC) : Op → LtsC
  | .add q a r => addTransitionDedup c q a r
  | op => step c op

/-! ### dump of all views (for a comparison with the C++ on generated histories) -/

def dumpNats (l : List Nat) : String := " ".intercalate (l.map toString)

/-- one line per item: `states`, `labels`, `transitions`, `ub`, then for every label and state `post a q: …`, `pre a r: …`,
for every state `bw r: key:count …`, for every label `delta1 a: …` -/
def LtsC.dump (c : LtsC) : String :=
  let hdr := [s!"states {c.states}", s!"labels {c.labels}", s!"transitions {c.transitions}", s!"ub {c.ub}"]
  let posts := (List.range c.labels).flatMap (fun a => (List.range c.states).map (fun q =>
    s!"post {a} {q}: {dumpNats (c.post a q)}"))
  let pres := (List.range c.labels).flatMap (fun a => (List.range c.states).map (fun r =>
    s!"pre {a} {r}: {dumpNats (c.pre a r)}"))
  let bws := (List.range c.bw.length).map (fun r =>
    "bw " ++ toString r ++ ": " ++ " ".intercalate (((c.bw.getD r default).elems).map (fun e => s!"{e.1}:{e.2}")))
  let d1 := (List.range c.labels).map (fun a => s!"delta1 {a}: {dumpNats ((c.buildDelta1.getD a default).keys)}")
  "\n".intercalate (hdr ++ posts ++ pres ++ bws ++ d1)

/-- driver entry: run a history and dump every view -/
def runDump (h : List Op) : String := (run h).dump

/-- the same for the class as it was before the repair (to be compared with a build of the parent of 810ab7a9) -/
def runOldDump (h : List Op) : String := (runOld h).dump

end Vata.LC
