import Vata.Trim
/-! feasibility probe (throw-away): soundness of downward inclusion certificates -/
namespace Vata

/-- rules of `B` with parent in `P`, symbol `f`, arity `n` -/
def rulesOf (B : TA) (P : List Nat) (f n : Nat) : List Rule :=
  B.rules.filter (fun r => P.contains r.parent && r.sym == f && r.kids.length == n)

/-- `i`-th children of the rules of `W` that the choice function sends to position `i` -/
def sset (W : List Rule) (c : Rule → Nat) (i : Nat) : List Nat :=
  W.filterMap (fun r => if c r = i then r.kids[i]? else none)

def Sub (X : List (Nat × List Nat)) (p : Nat) (S : List Nat) : Prop :=
  ∃ S', (p, S') ∈ X ∧ ∀ s, s ∈ S' → s ∈ S

def DownCert (A B : TA) (X : List (Nat × List Nat)) : Prop :=
  ∀ p P, (p, P) ∈ X → ∀ ρ, ρ ∈ A.rules → ρ.parent = p →
    ∀ c : Rule → Nat, (∀ r, r ∈ rulesOf B P ρ.sym ρ.kids.length → c r < ρ.kids.length) →
      ∃ i, ∃ k, ρ.kids[i]? = some k ∧ Sub X k (sset (rulesOf B P ρ.sym ρ.kids.length) c i)

/-- first position where `qs` fails to match `ss` (meaningful when the lengths agree and the match fails) -/
def firstFail : List Nat → List (List Nat) → Nat
  | q :: qs, s :: ss => if s.contains q then firstFail qs ss + 1 else 0
  | _, _ => 0

theorem firstFail_spec : ∀ (qs : List Nat) (ss : List (List Nat)), qs.length = ss.length →
    matchKids qs ss = false → firstFail qs ss < qs.length ∧
      ∃ k s, qs[firstFail qs ss]? = some k ∧ ss[firstFail qs ss]? = some s ∧ k ∉ s
  | [], [], _, h => by simp [matchKids] at h
  | [], _ :: _, hl, _ => by simp at hl
  | _ :: _, [], hl, _ => by simp at hl
  | q :: qs, s :: ss, hl, h => by
    by_cases hq : s.contains q = true
    · have hq' : q ∈ s := by simpa [List.contains_iff_mem] using hq
      have h' : matchKids qs ss = false := by simpa [matchKids, hq'] using h
      obtain ⟨h1, k, s', h2, h3, h4⟩ := firstFail_spec qs ss (by simpa using hl) h'
      simp only [firstFail, hq, if_true, List.length_cons]
      exact ⟨by omega, k, s', by simpa using h2, by simpa using h3, h4⟩
    · simp only [firstFail, hq, List.length_cons]
      refine ⟨by simp, q, s, by simp, by simp, ?_⟩
      simpa [List.contains_iff_mem] using hq

/-- `i`-th component of `reachL` -/
theorem reachL_get (A : TA) : ∀ (ts : List Tree) (i : Nat) (s : List Nat), (reachL A ts)[i]? = some s →
    ∃ t, t ∈ ts ∧ ts[i]? = some t ∧ s = reach A t
  | [], i, s, h => by simp [reachL] at h
  | t :: ts, 0, s, h => by simp only [reachL, List.getElem?_cons_zero, Option.some.injEq] at h; exact ⟨t, by simp, by simp, h.symm⟩
  | t :: ts, i+1, s, h => by
    simp only [reachL, List.getElem?_cons_succ] at h
    obtain ⟨t', h1, h2, h3⟩ := reachL_get A ts i s h
    exact ⟨t', List.mem_cons_of_mem _ h1, by simpa using h2, h3⟩

theorem matchKids_get : ∀ (qs : List Nat) (ss : List (List Nat)), matchKids qs ss = true →
    ∀ (i k : Nat), qs[i]? = some k → ∃ s, ss[i]? = some s ∧ k ∈ s
  | [], [], _, i, k, h => by simp at h
  | [], _ :: _, h, _, _, _ => by simp [matchKids] at h
  | _ :: _, [], h, _, _, _ => by simp [matchKids] at h
  | q :: qs, s :: ss, h, 0, k, hk => by
    simp only [matchKids, Bool.and_eq_true, List.contains_iff_mem] at h
    simp only [List.getElem?_cons_zero, Option.some.injEq] at hk
    exact ⟨s, by simp, hk ▸ h.1⟩
  | q :: qs, s :: ss, h, i+1, k, hk => by
    simp only [matchKids, Bool.and_eq_true] at h
    simp only [List.getElem?_cons_succ] at hk
    obtain ⟨s', h1, h2⟩ := matchKids_get qs ss h.2 i k hk
    exact ⟨s', by simpa using h1, h2⟩

def Holds (A B : TA) (X : List (Nat × List Nat)) (t : Tree) : Prop :=
  ∀ p P, (p, P) ∈ X → p ∈ reach A t → ∃ r, r ∈ P ∧ r ∈ reach B t

mutual
theorem down_cert_sound (A B : TA) (X : List (Nat × List Nat)) (hX : DownCert A B X) : ∀ t : Tree, Holds A B X t
  | .node f ts => by
    have ihs := down_cert_soundL A B X hX ts
    intro p P hpP hp
    rw [reach, mem_post'] at hp
    obtain ⟨ρ, hρ, hs, hm, hpar⟩ := hp
    -- by contradiction: no state of `P` labels the tree
    apply Classical.byContradiction
    intro hno
    have hno' : ∀ r, r ∈ P → r ∉ reach B (Tree.node f ts) := fun r hr hr' => hno ⟨r, hr, hr'⟩
    have hlen : ρ.kids.length = (reachL B ts).length := by
      rw [matchKids_length hm, reachL_eq_map, reachL_eq_map]; simp
    let c : Rule → Nat := fun σ => firstFail σ.kids (reachL B ts)
    -- every rule of `W` fails to match
    have hfail : ∀ σ, σ ∈ rulesOf B P ρ.sym ρ.kids.length → matchKids σ.kids (reachL B ts) = false := by
      intro σ hσ
      simp only [rulesOf, List.mem_filter, Bool.and_eq_true, List.contains_iff_mem, beq_iff_eq] at hσ
      cases hmk : matchKids σ.kids (reachL B ts) with
      | false => rfl
      | true =>
        exfalso
        apply hno' σ.parent hσ.2.1.1
        rw [reach, mem_post']
        exact ⟨σ, hσ.1, hσ.2.1.2.trans hs, hmk, rfl⟩
    have hvalid : ∀ σ, σ ∈ rulesOf B P ρ.sym ρ.kids.length → c σ < ρ.kids.length := by
      intro σ hσ
      have hl : σ.kids.length = ρ.kids.length := by
        simp only [rulesOf, List.mem_filter, Bool.and_eq_true, beq_iff_eq] at hσ; exact hσ.2.2
      have := (firstFail_spec σ.kids (reachL B ts) (by rw [hl, hlen]) (hfail σ hσ)).1
      rw [hl] at this; exact this
    obtain ⟨i, k, hk, S', hS', hsub⟩ := hX p P hpP ρ hρ hpar c hvalid
    -- the `i`-th child
    obtain ⟨sA, hsA, hkA⟩ := matchKids_get ρ.kids (reachL A ts) hm i k hk
    obtain ⟨ti, hti, hget, rfl⟩ := reachL_get A ts i sA hsA
    obtain ⟨s, hsS', hsB⟩ := ihs ti hti k S' hS' hkA
    have hs' := hsub s hsS'
    simp only [sset, List.mem_filterMap] at hs'
    obtain ⟨σ, hσ, hσi⟩ := hs'
    split at hσi
    · rename_i hci
      have hl : σ.kids.length = ρ.kids.length := by
        simp only [rulesOf, List.mem_filter, Bool.and_eq_true, beq_iff_eq] at hσ; exact hσ.2.2
      obtain ⟨_, k', s', h1, h2, h3⟩ := firstFail_spec σ.kids (reachL B ts) (by rw [hl, hlen]) (hfail σ hσ)
      have hci' : firstFail σ.kids (reachL B ts) = i := hci
      rw [hci'] at h1 h2
      rw [h1] at hσi; cases hσi
      obtain ⟨ti', _, hget', rfl⟩ := reachL_get B ts i s' h2
      rw [hget] at hget'; cases hget'
      exact h3 hsB
    · cases hσi
theorem down_cert_soundL (A B : TA) (X : List (Nat × List Nat)) (hX : DownCert A B X) :
    ∀ ts : List Tree, ∀ t, t ∈ ts → Holds A B X t
  | [], _, h => by simp at h
  | t :: ts, t', h => by
    rcases List.mem_cons.mp h with h | h
    · rw [h]; exact down_cert_sound A B X hX t
    · exact down_cert_soundL A B X hX ts t' h
end

theorem down_cert_incl (A B : TA) (X : List (Nat × List Nat)) (hX : DownCert A B X)
    (hroot : ∀ f, f ∈ A.final → Sub X f B.final) (t : Tree) (h : accepts A t = true) : accepts B t = true := by
  simp only [accepts, accepting, List.any_eq_true, List.contains_iff_mem] at h ⊢
  obtain ⟨q, hq, hf⟩ := h
  obtain ⟨S', hS', hsub⟩ := hroot q hf
  obtain ⟨r, hr, hrB⟩ := down_cert_sound A B X hX t q S' hS' hq
  exact ⟨r, hrB, hsub r hr⟩

#print axioms down_cert_incl
end Vata
