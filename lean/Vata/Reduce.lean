import Vata.Trim
/-! feasibility probe (throw-away): image automaton (C14) and quotient by simulation equivalence (C05) -/
namespace Vata

def mapRule (h : Nat → Nat) (r : Rule) : Rule := ⟨r.sym, r.kids.map h, h r.parent⟩
def reindex (h : Nat → Nat) (A : TA) : TA := ⟨A.rules.map (mapRule h), A.final.map h⟩

/-- C14, any map: the image automaton accepts at least the original language -/
theorem matchKids_map (h : Nat → Nat) : ∀ (ks : List Nat) (ss ss' : List (List Nat)),
    All2 (fun s s' => ∀ q, q ∈ s → h q ∈ s') ss ss' → matchKids ks ss = true → matchKids (ks.map h) ss' = true
  | [], _, _, All2.nil, _ => by simp [matchKids]
  | [], _, _, All2.cons _ _, hm => by simp [matchKids] at hm
  | _ :: _, _, _, All2.nil, hm => by simp [matchKids] at hm
  | k :: ks, _, _, All2.cons hd tl, hm => by
    simp only [matchKids, Bool.and_eq_true, List.contains_iff_mem, List.map_cons] at hm ⊢
    exact ⟨hd k hm.1, matchKids_map h ks _ _ tl hm.2⟩

mutual
theorem reindex_mono (h : Nat → Nat) (A : TA) : ∀ (t : Tree) (q : Nat), q ∈ reach A t → h q ∈ reach (reindex h A) t
  | .node f ts, q => by
    rw [reach, reach, mem_post', mem_post']
    rintro ⟨r, hr, hs, hm, hp⟩
    refine ⟨mapRule h r, List.mem_map.mpr ⟨r, hr, rfl⟩, hs, ?_, by simp [mapRule, hp]⟩
    exact matchKids_map h r.kids _ _ (reindexL_mono h A ts) hm
theorem reindexL_mono (h : Nat → Nat) (A : TA) :
    ∀ ts : List Tree, All2 (fun s s' => ∀ q, q ∈ s → h q ∈ s') (reachL A ts) (reachL (reindex h A) ts)
  | [] => All2.nil
  | t :: ts => All2.cons (reindex_mono h A t) (reindexL_mono h A ts)
end

/-! ### downward simulations -/
def DownSim (A : TA) (R : Nat → Nat → Prop) : Prop :=
  ∀ q r, R q r → ∀ ρ, ρ ∈ A.rules → ρ.parent = q →
    ∃ σ, σ ∈ A.rules ∧ σ.parent = r ∧ σ.sym = ρ.sym ∧ All2 R ρ.kids σ.kids

theorem matchKids_sim {R : Nat → Nat → Prop} : ∀ (ks ks' : List Nat) (ss : List (List Nat)), All2 R ks ks' →
    (∀ s, s ∈ ss → ∀ q r, R q r → q ∈ s → r ∈ s) → matchKids ks ss = true → matchKids ks' ss = true
  | _, _, ss, All2.nil, _, hm => hm
  | k :: ks, k' :: ks', [], All2.cons _ _, _, hm => by simp [matchKids] at hm
  | k :: ks, k' :: ks', s :: ss, All2.cons hd tl, hcl, hm => by
    simp only [matchKids, Bool.and_eq_true, List.contains_iff_mem] at hm ⊢
    exact ⟨hcl s List.mem_cons_self k k' hd hm.1,
      matchKids_sim ks ks' ss tl (fun s' hs' => hcl s' (List.mem_cons_of_mem _ hs')) hm.2⟩

-- simulation ⇒ inclusion of the languages of states
mutual
theorem downSim_lang (A : TA) (R : Nat → Nat → Prop) (hR : DownSim A R) :
    ∀ (t : Tree) (q r : Nat), R q r → q ∈ reach A t → r ∈ reach A t
  | .node f ts, q, r, hqr => by
    rw [reach, mem_post', mem_post']
    rintro ⟨ρ, hρ, hs, hm, hp⟩
    obtain ⟨σ, hσ, hσp, hσs, hk⟩ := hR q r hqr ρ hρ hp
    exact ⟨σ, hσ, hσs.trans hs, matchKids_sim ρ.kids σ.kids _ hk (downSim_langL A R hR ts) hm, hσp⟩
theorem downSim_langL (A : TA) (R : Nat → Nat → Prop) (hR : DownSim A R) :
    ∀ ts : List Tree, ∀ s, s ∈ reachL A ts → ∀ q r, R q r → q ∈ s → r ∈ s
  | [], s, h => by simp [reachL] at h
  | t :: ts, s, h => by
    simp only [reachL, List.mem_cons] at h
    rcases h with h | h
    · rw [h]; exact downSim_lang A R hR t
    · exact downSim_langL A R hR ts s h
end

/-- C05: collapsing every state to a simulation-equivalent representative keeps `reach` up to `h` -/
theorem matchKids_unmap (A : TA) (R : Nat → Nat → Prop) (h : Nat → Nat) (hh : ∀ q, R q (h q) ∧ R (h q) q)
    (hRt : ∀ a b c, R a b → R b c → R a c) :
    ∀ (ks : List Nat) (ss ss' : List (List Nat)),
      All2 (fun s' s => (∀ x, x ∈ s' → ∃ q, q ∈ s ∧ h q = x) ∧ (∀ q r, R q r → q ∈ s → r ∈ s)) ss' ss →
      matchKids (ks.map h) ss' = true → matchKids ks ss = true
  | [], _, _, All2.nil, _ => by simp [matchKids]
  | [], _, _, All2.cons _ _, hm => by simp [matchKids] at hm
  | _ :: _, _, _, All2.nil, hm => by simp [matchKids] at hm
  | k :: ks, _, _, All2.cons hd tl, hm => by
    simp only [matchKids, Bool.and_eq_true, List.contains_iff_mem, List.map_cons] at hm ⊢
    obtain ⟨q, hq, he⟩ := hd.1 (h k) hm.1
    -- q ~ h q = h k ~ k
    have : R q k := hRt _ _ _ (hh q).1 (he ▸ (hh k).2)
    exact ⟨hd.2 q k this hq, matchKids_unmap A R h hh hRt ks _ _ tl hm.2⟩

mutual
theorem collapse_reach (A : TA) (R : Nat → Nat → Prop) (hR : DownSim A R) (h : Nat → Nat)
    (hh : ∀ q, R q (h q) ∧ R (h q) q) (hRt : ∀ a b c, R a b → R b c → R a c) :
    ∀ (t : Tree) (x : Nat), x ∈ reach (reindex h A) t → ∃ q, q ∈ reach A t ∧ h q = x
  | .node f ts, x => by
    rw [reach, mem_post']
    rintro ⟨ρ', hρ', hs, hm, hp⟩
    obtain ⟨ρ, hρ, rfl⟩ := List.mem_map.mp hρ'
    refine ⟨ρ.parent, ?_, hp⟩
    rw [reach, mem_post']
    exact ⟨ρ, hρ, hs, matchKids_unmap A R h hh hRt ρ.kids _ _ (collapse_reachL A R hR h hh hRt ts) hm, rfl⟩
theorem collapse_reachL (A : TA) (R : Nat → Nat → Prop) (hR : DownSim A R) (h : Nat → Nat)
    (hh : ∀ q, R q (h q) ∧ R (h q) q) (hRt : ∀ a b c, R a b → R b c → R a c) :
    ∀ ts : List Tree, All2 (fun s' s => (∀ x, x ∈ s' → ∃ q, q ∈ s ∧ h q = x) ∧ (∀ q r, R q r → q ∈ s → r ∈ s))
      (reachL (reindex h A) ts) (reachL A ts)
  | [] => All2.nil
  | t :: ts => All2.cons ⟨collapse_reach A R hR h hh hRt t, downSim_lang A R hR t⟩ (collapse_reachL A R hR h hh hRt ts)
end

theorem collapse_lang (A : TA) (R : Nat → Nat → Prop) (hR : DownSim A R) (h : Nat → Nat)
    (hh : ∀ q, R q (h q) ∧ R (h q) q) (hRt : ∀ a b c, R a b → R b c → R a c) (t : Tree) :
    accepts (reindex h A) t = accepts A t := by
  rw [Bool.eq_iff_iff]
  simp only [accepts, accepting, List.any_eq_true, List.contains_iff_mem]
  constructor
  · rintro ⟨x, hx, hf⟩
    obtain ⟨q, hq, rfl⟩ := collapse_reach A R hR h hh hRt t x hx
    obtain ⟨f, hf', he⟩ := List.mem_map.mp hf
    -- q ~ h q = h f ~ f, so f labels the tree as well
    have : R q f := hRt _ _ _ (hh q).1 (he ▸ (hh f).2)
    exact ⟨f, downSim_lang A R hR t q f this hq, hf'⟩
  · rintro ⟨q, hq, hf⟩
    exact ⟨h q, reindex_mono h A t q hq, List.mem_map.mpr ⟨q, hf, rfl⟩⟩

#print axioms collapse_lang
end Vata
