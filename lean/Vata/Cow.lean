/-! feasibility probe (throw-away): copy-on-write store refines independent values (two levels) -/
namespace Vata.C

abbrev Body := Nat × List Nat            -- (symbol, children)
abbrev RuleT := Nat × Body               -- (parent, body)

/-- handles point to maps, maps send states to clusters, clusters hold rule bodies -/
structure Heap where
  hl   : List Nat                 -- live handles
  hmap : Nat → Nat                -- handle ↦ map id
  ment : Nat → Nat → Option Nat   -- map id ↦ state ↦ cluster id
  mkeys : Nat → List Nat          -- map id ↦ states that have an entry (enumeration of `ment`)
  cl   : Nat → List Body          -- cluster id ↦ bodies
  next : Nat                      -- all ids in use are < next

def upd {β : Type} (f : Nat → β) (k : Nat) (v : β) : Nat → β := fun x => if x = k then v else f x
@[simp] theorem upd_same {β} (f : Nat → β) (k v) : upd f k v k = v := by simp [upd]
@[simp] theorem upd_other {β} (f : Nat → β) {k x : Nat} (v) (h : x ≠ k) : upd f k v x = f x := by simp [upd, h]

/-- value seen through a handle -/
def val (H : Heap) (h : Nat) (r : RuleT) : Prop :=
  ∃ c, H.ment (H.hmap h) r.1 = some c ∧ r.2 ∈ H.cl c

/-- number of live handles pointing to map `m` -/
def mapRefs (H : Heap) (m : Nat) : Nat := (H.hl.filter (fun h => H.hmap h == m)).length
/-- cluster `c` is referenced from an entry of a map other than `m`, or from another state of `m` -/
def clusterSharedB (H : Heap) (m q c : Nat) : Bool :=
  H.hl.any (fun h => (H.mkeys (H.hmap h)).any (fun s => (H.ment (H.hmap h) s == some c) && !(H.hmap h == m && s == q)))

structure Inv (H : Heap) : Prop where
  keys : ∀ m s c, H.ment m s = some c → s ∈ H.mkeys m
  lt_m : ∀ h, h ∈ H.hl → H.hmap h < H.next
  lt_c : ∀ m s c, H.ment m s = some c → c < H.next

/-- step 1: make the map of handle `h` unique -/
def uniqueMap (H : Heap) (h : Nat) : Heap :=
  if mapRefs H (H.hmap h) ≤ 1 then H else
    let m := H.hmap h; let m' := H.next
    { H with hmap := upd H.hmap h m', ment := upd H.ment m' (H.ment m), mkeys := upd H.mkeys m' (H.mkeys m), next := H.next + 1 }

/-- step 2+3: make the cluster of `q` in the (unique) map of `h` unique, then insert the body -/
def addUnique (H : Heap) (h q : Nat) (b : Body) : Heap :=
  let m := H.hmap h
  match H.ment m q with
  | none =>
    let c' := H.next
    { H with ment := upd H.ment m (upd (H.ment m) q (some c')), mkeys := upd H.mkeys m (q :: H.mkeys m),
             cl := upd H.cl c' [b], next := H.next + 1 }
  | some c =>
    if clusterSharedB H m q c then
      let c' := H.next
      { H with ment := upd H.ment m (upd (H.ment m) q (some c')), cl := upd H.cl c' (b :: H.cl c), next := H.next + 1 }
    else
      { H with cl := upd H.cl c (b :: H.cl c) }

def add (H : Heap) (h q : Nat) (b : Body) : Heap := addUnique (uniqueMap H h) h q b

/-! ### step 1 does not change any value and makes the map unique -/
theorem uniqueMap_val (H : Heap) (hI : Inv H) (h h' : Nat) (hh' : h' ∈ H.hl) (r : RuleT) :
    val (uniqueMap H h) h' r ↔ val H h' r := by
  unfold uniqueMap
  split
  · exact Iff.rfl
  · simp only [val]
    by_cases e : h' = h
    · subst e; simp
    · have hne : H.hmap h' ≠ H.next := Nat.ne_of_lt (hI.lt_m h' hh')
      simp [upd_other _ _ e, upd_other _ _ hne]


/-- the map of `h` is not used by any other live handle -/
def MapUnique (H : Heap) (h : Nat) : Prop := ∀ h', h' ∈ H.hl → h' ≠ h → H.hmap h' ≠ H.hmap h

theorem not_shared {H : Heap} {m q c : Nat} (hs : clusterSharedB H m q c = false)
    {h' s : Nat} (hh' : h' ∈ H.hl) (hk : s ∈ H.mkeys (H.hmap h')) (he : H.ment (H.hmap h') s = some c) :
    H.hmap h' = m ∧ s = q := by
  simp only [clusterSharedB, List.any_eq_false] at hs
  have h1 := hs h' hh'
  simp only [Bool.not_eq_true, List.any_eq_false] at h1
  have := h1 s hk
  simp only [he, beq_self_eq_true, Bool.true_and, Bool.not_eq_true', Bool.not_eq_false', Bool.and_eq_true,
    beq_iff_eq] at this
  simpa using this

theorem addUnique_self (H : Heap) (hI : Inv H) (h q : Nat) (b : Body) (hh : h ∈ H.hl) (r : RuleT) :
    val (addUnique H h q b) h r ↔ val H h r ∨ r = (q, b) := by
  unfold addUnique
  simp only []
  split
  · rename_i hn
    simp only [val, upd_same]
    by_cases e : r.1 = q
    · have hn' : H.ment (H.hmap h) r.1 = none := by rw [e]; exact hn
      rw [e]; simp only [upd_same, Option.some.injEq, exists_eq_left', List.mem_singleton]
      constructor
      · intro hb; right; exact Prod.ext e hb
      · rintro (⟨c, hc, _⟩ | rfl)
        · rw [hn] at hc; cases hc
        · rfl
    · simp only [upd_other _ _ e]
      constructor
      · rintro ⟨c, hc, hb⟩
        have : c ≠ H.next := Nat.ne_of_lt (hI.lt_c _ _ _ hc)
        rw [upd_other _ _ this] at hb
        exact Or.inl ⟨c, hc, hb⟩
      · rintro (⟨c, hc, hb⟩ | rfl)
        · have : c ≠ H.next := Nat.ne_of_lt (hI.lt_c _ _ _ hc)
          exact ⟨c, hc, by rw [upd_other _ _ this]; exact hb⟩
        · exact absurd rfl e
  · rename_i c hc0
    split
    · -- shared: clone
      simp only [val, upd_same]
      by_cases e : r.1 = q
      · rw [e]; simp only [upd_same, Option.some.injEq, exists_eq_left', List.mem_cons]
        constructor
        · rintro (hb | hb)
          · right; exact Prod.ext e hb
          · left; exact ⟨c, hc0, hb⟩
        · rintro (⟨c2, hc2, hb⟩ | rfl)
          · rw [hc0] at hc2; cases hc2; right; exact hb
          · left; rfl
      · simp only [upd_other _ _ e]
        constructor
        · rintro ⟨c2, hc2, hb⟩
          have : c2 ≠ H.next := Nat.ne_of_lt (hI.lt_c _ _ _ hc2)
          rw [upd_other _ _ this] at hb
          exact Or.inl ⟨c2, hc2, hb⟩
        · rintro (⟨c2, hc2, hb⟩ | rfl)
          · have : c2 ≠ H.next := Nat.ne_of_lt (hI.lt_c _ _ _ hc2)
            exact ⟨c2, hc2, by rw [upd_other _ _ this]; exact hb⟩
          · exact absurd rfl e
    · -- unique: in place
      rename_i hsh
      have hsh' : clusterSharedB H (H.hmap h) q c = false := by simpa using hsh
      simp only [val]
      constructor
      · rintro ⟨c2, hc2, hb⟩
        by_cases ec : c2 = c
        · subst ec
          have := not_shared hsh' hh (hI.keys _ _ _ hc2) hc2
          rw [upd_same, List.mem_cons] at hb
          rcases hb with hb | hb
          · right; exact Prod.ext this.2 hb
          · left; exact ⟨c2, hc2, hb⟩
        · rw [upd_other _ _ ec] at hb; exact Or.inl ⟨c2, hc2, hb⟩
      · rintro (⟨c2, hc2, hb⟩ | rfl)
        · refine ⟨c2, hc2, ?_⟩
          by_cases ec : c2 = c
          · subst ec; rw [upd_same]; exact List.mem_cons_of_mem _ hb
          · rw [upd_other _ _ ec]; exact hb
        · exact ⟨c, hc0, by rw [upd_same]; exact List.mem_cons_self⟩

theorem addUnique_other (H : Heap) (hI : Inv H) (h q : Nat) (b : Body) (hu : MapUnique H h)
    (h' : Nat) (hh' : h' ∈ H.hl) (hne : h' ≠ h) (r : RuleT) :
    val (addUnique H h q b) h' r ↔ val H h' r := by
  have hm : H.hmap h' ≠ H.hmap h := hu h' hh' hne
  unfold addUnique
  simp only []
  split
  · simp only [val, upd_other _ _ hm]
    constructor
    · rintro ⟨c, hc, hb⟩
      have : c ≠ H.next := Nat.ne_of_lt (hI.lt_c _ _ _ hc)
      rw [upd_other _ _ this] at hb; exact ⟨c, hc, hb⟩
    · rintro ⟨c, hc, hb⟩
      have : c ≠ H.next := Nat.ne_of_lt (hI.lt_c _ _ _ hc)
      exact ⟨c, hc, by rw [upd_other _ _ this]; exact hb⟩
  · rename_i c hc0
    split
    · simp only [val, upd_other _ _ hm]
      constructor
      · rintro ⟨c2, hc2, hb⟩
        have : c2 ≠ H.next := Nat.ne_of_lt (hI.lt_c _ _ _ hc2)
        rw [upd_other _ _ this] at hb; exact ⟨c2, hc2, hb⟩
      · rintro ⟨c2, hc2, hb⟩
        have : c2 ≠ H.next := Nat.ne_of_lt (hI.lt_c _ _ _ hc2)
        exact ⟨c2, hc2, by rw [upd_other _ _ this]; exact hb⟩
    · rename_i hsh
      have hsh' : clusterSharedB H (H.hmap h) q c = false := by simpa using hsh
      simp only [val]
      constructor
      · rintro ⟨c2, hc2, hb⟩
        have ec : c2 ≠ c := by
          intro ec; subst ec
          exact hm (not_shared hsh' hh' (hI.keys _ _ _ hc2) hc2).1
        rw [upd_other _ _ ec] at hb; exact ⟨c2, hc2, hb⟩
      · rintro ⟨c2, hc2, hb⟩
        have ec : c2 ≠ c := by
          intro ec; subst ec
          exact hm (not_shared hsh' hh' (hI.keys _ _ _ hc2) hc2).1
        exact ⟨c2, hc2, by rw [upd_other _ _ ec]; exact hb⟩

#print axioms addUnique_self
#print axioms addUnique_other
end Vata.C
