import Vata.Store
import Vata.CacheModel
/-!
# The rule store with INTERNED children tuples (property C12 / C11) – executable model

C++ (`src/explicit_tree_aut_core.hh/.cc`, `src/util/cache.hh`):

    using TuplePtr    = std::shared_ptr<StateTuple>;
    using TuplePtrSet = std::set<TuplePtr>;                    // ordered and compared BY POINTER
    using TupleCache  = Util::Cache<StateTuple>;               // unordered_map<StateTuple, weak_ptr<StateTuple>>
    static TupleCache globalTupleCache_;                       // one per process, shared by all automata

    TuplePtr tupleLookup(const StateTuple& tuple) { return cache_.lookup(tuple); }
    void AddTransition(children, symbol, parent) { internalAddTransition(tupleLookup(children), symbol, parent); }
    void internalAddTransition(const TuplePtr& children, symbol, parent)
    { uniqueClusterMap()->uniqueCluster(parent)->uniqueTuplePtrSet(symbol)->insert(children); }
    bool ContainsTransition(children, symbol, parent)
    { … find(parent) … find(symbol) … return tuplePtrSet.end() != tuplePtrSet.find(tupleLookup(children)); }

`Vata/Store.lean` keeps the tuples of a tuple set as VALUES.  Here a tuple set holds cache IDENTITIES (the address of the
key stored in the node of `Cache::store_`), and the state of the process-wide cache is part of the state:

* `Sys.cache : tuple ↦ (identity, use_count)` is literally the field `CM.Sys.store` of `Vata/CacheModel.lean`, read and
  written with the same `CM.aget / aset / adel / byId`; `lookupC` is `Cache::lookup` (`CM.intern` without the handle
  bookkeeping), `releaseC` is the destructor of one `TuplePtr` (`CM.dropTmp`: decrement, at 0 `DeleteElementF` =
  `store_.erase(*v)`; the user deleter of the tuple cache is the default one that does nothing), `acquireC` the copy
  constructor of a `TuplePtr`.
* the allocator is ARBITRARY: every operation that may create a cache node carries the address `ch` the allocator
  returns if a node is created; the only thing demanded is that no LIVE node has this address (else the step is `none`:
  "no allocator does that").  Addresses of dead tuples may be reused at once.
* `Sys.ext` are the `TuplePtr`s held by everybody else in the process (other automata over the same global cache, copies
  of this automaton, temporaries of callers): `envLookup`, `envRelease`, `copyOut` let the environment intern, drop and
  copy at any time.  Copy-on-write SHARING of whole tuple sets between automata (`shared_ptr<TuplePtrSet>`) is the subject
  of `Vata/CowHeap*.lean`; here a copy of the automaton is an EAGER copy of its tuple sets (`copyOut`: one new `TuplePtr` per
  set element, owned by the environment, dropped one by one by `envRelease`).  A tuple is alive under sharing iff it is
  alive under eager copying (a shared set is alive iff one of its owners is); only the numeric `use_count` differs.

`Mode.lib` is the library.  `Mode.noErase` (the `store_.erase(*v)` of `DeleteElementF` is missing: the dead entry stays
and is answered for a new equal tuple) and `Mode.rawSets` (the tuple set does not own its element: inserting does not
bump the `use_count`) exist for the regression theorems only.
-/
namespace Vata.StoreI
open Vata.Store (upsert insN)
open Vata.CM (aget aset adel byId ids)

/-- `Cache::store_` : tuple ↦ (address of the interned tuple, `use_count`) -/
abbrev CacheSt := List (List Nat × Nat × Nat)
/-- `std::set<TuplePtr>` (the pointer order is not modelled: insertion order) -/
abbrev IdSet := List Nat
/-- `TransitionCluster` -/
abbrev ClusterI := List (Nat × IdSet)

inductive Mode
  /-- the library -/
  | lib
  /-- `DeleteElementF` without `cache_.store_.erase(*v)` -/
  | noErase
  /-- tuple sets of raw pointers: `insert` does not take a reference -/
  | rawSets
deriving DecidableEq, Repr

structure Sys where
  /-- `globalTupleCache_.store_` -/
  cache : CacheSt := []
  /-- `*transitions_` : state ↦ symbol ↦ set of tuple identities -/
  clusters : List (Nat × ClusterI) := []
  /-- `finalStates_` -/
  final : List Nat := []
  /-- the `TuplePtr`s of the rest of the process -/
  ext : List Nat := []
deriving Repr, DecidableEq

def empty : Sys := {}

/-- addresses of the live interned tuples (in the library every entry of `store_` is live) -/
def liveIds (c : CacheSt) : List Nat := ids (c.filter (fun e => decide (0 < e.2.2)))

/-- `Cache::lookup(t)`: `store_.insert(make_pair(t, WeakTPtr()))`; found → `TPtr(weak)` (count + 1); new node → a
    `shared_ptr` to the key inside the node (count 1), `ch` = the address of that key -/
def lookupC (c : CacheSt) (t : List Nat) (ch : Nat) : Option (CacheSt × Nat) :=
  match aget c t with
  | some (id, rc) => some (aset c t (id, rc + 1), id)
  | none => if ch ∈ liveIds c then none else some (aset c t (ch, 1), ch)

/-- copy constructor of a `TuplePtr` -/
def acquireC (c : CacheSt) (id : Nat) : CacheSt :=
  match byId c id with
  | none => c                                     -- dangling pointer: undefined behaviour, never reached (`Inv`)
  | some (v, rc) => aset c v (id, rc + 1)

/-- destructor of a `TuplePtr`: decrement; at 0 `DeleteElementF`: `deleter_(v)` (does nothing); `store_.erase(*v)` -/
def releaseC (m : Mode) (c : CacheSt) (id : Nat) : CacheSt :=
  match byId c id with
  | none => c                                     -- dangling pointer, never reached (`Inv`)
  | some (v, rc) =>
    if rc ≤ 1 then (if m = .noErase then aset c v (id, 0) else adel c v)
    else aset c v (id, rc - 1)

/-- `**tupleIterator_` -/
def derefC (c : CacheSt) (id : Nat) : List Nat :=
  match byId c id with
  | some (v, _) => v
  | none => []                                    -- dangling, never reached (`Inv`)

/-- `cluster->uniqueTuplePtrSet(symbol)->insert(p)` – `std::set<shared_ptr>::insert` compares the POINTERS -/
def addToClusterI (f p : Nat) (c : ClusterI) : ClusterI := upsert f (fun o => insN p (o.getD [])) c

/-- `uniqueClusterMap()->uniqueCluster(parent)->uniqueTuplePtrSet(symbol)->insert(p)` -/
def addToMapI (q f p : Nat) (m : List (Nat × ClusterI)) : List (Nat × ClusterI) :=
  upsert q (fun o => addToClusterI f p (o.getD [])) m

/-- the tuple set of `(q, f)` (empty if there is none) -/
def idSetAt (m : List (Nat × ClusterI)) (q f : Nat) : IdSet := (((m.lookup q).getD []).lookup f).getD []

/-- all `TuplePtr`s stored in the tuple sets of a cluster / of the automaton, with multiplicity -/
def idsOfCluster (c : ClusterI) : List Nat := c.flatMap (fun ft => ft.2)
def allIds (m : List (Nat × ClusterI)) : List Nat := m.flatMap (fun qc => idsOfCluster qc.2)

/-- `AddTransition(children, symbol, parent)`:
    the temporary `tupleLookup(children)`; the `insert` (which copies the pointer into the new set node iff there was
    no equal POINTER – `.second` of the result of `insert`); the temporary dies -/
def addI (m : Mode) (s : Sys) (r : Rule) (ch : Nat) : Option Sys :=
  match lookupC s.cache r.kids ch with
  | none => none
  | some (c₁, p) =>
    let inserted := !(idSetAt s.clusters r.parent r.sym).contains p
    let cl := addToMapI r.parent r.sym p s.clusters
    let c₂ := if inserted && m != .rawSets then acquireC c₁ p else c₁
    some { s with cache := releaseC m c₂ p, clusters := cl }

/-- `ContainsTransition(children, symbol, parent)`: the tuple is interned (a temporary!) only when the cluster and
    the tuple set exist; the temporary dies at the end of the `return` statement -/
def containsI (m : Mode) (s : Sys) (r : Rule) (ch : Nat) : Option (Sys × Bool) :=
  match s.clusters.lookup r.parent with
  | none => some (s, false)
  | some c =>
    match c.lookup r.sym with
    | none => some (s, false)
    | some ps =>
      match lookupC s.cache r.kids ch with
      | none => none
      | some (c₁, p) => some ({ s with cache := releaseC m c₁ p }, ps.contains p)

/-- `Clear()` (and, for the tuple lifetimes, `~ExplicitTreeAutCore()`): the automaton lets go of its transition map,
    every cluster, every tuple set and with them every `TuplePtr` in them; then `EraseFinalStates()` -/
def clearI (m : Mode) (s : Sys) : Sys :=
  { s with cache := if m = .rawSets then s.cache else (allIds s.clusters).foldl (releaseC m) s.cache,
           clusters := [], final := [] }

/-- a copy of the automaton (copy constructor + un-sharing of every tuple set: `new TuplePtrSet(*tupleSet)`) is handed
    to the environment -/
def copyOutI (m : Mode) (s : Sys) : Sys :=
  if m = .rawSets then s
  else { s with cache := (allIds s.clusters).foldl acquireC s.cache, ext := s.ext ++ allIds s.clusters }

/-- somebody else interns a tuple and keeps the pointer -/
def envLookupI (s : Sys) (t : List Nat) (ch : Nat) : Option Sys :=
  match lookupC s.cache t ch with
  | none => none
  | some (c₁, p) => some { s with cache := c₁, ext := p :: s.ext }

/-- somebody else drops one of its pointers (nothing happens if it holds no such pointer) -/
def envReleaseI (m : Mode) (s : Sys) (p : Nat) : Sys :=
  if p ∈ s.ext then { s with cache := releaseC m s.cache p, ext := s.ext.erase p } else s

inductive OpI where
  | add (r : Rule) (ch : Nat)
  | setFinal (q : Nat)
  | setFinals (qs : List Nat)
  | eraseFinal
  | clear
  /-- a `ContainsTransition` call in the middle of a history (its answer is not recorded; it interns a temporary) -/
  | query (r : Rule) (ch : Nat)
  | copyOut
  | envLookup (t : List Nat) (ch : Nat)
  | envRelease (p : Nat)
deriving Repr, DecidableEq

/-- one call; `none` = the allocator choice is impossible (the address of a live tuple) -/
def stepI (m : Mode) (s : Sys) : OpI → Option Sys
  | .add r ch => addI m s r ch
  | .setFinal q => some { s with final := insN q s.final }
  | .setFinals qs => some { s with final := qs.foldl (fun acc q => insN q acc) s.final }
  | .eraseFinal => some { s with final := [] }
  | .clear => some (clearI m s)
  | .query r ch => (containsI m s r ch).map (·.1)
  | .copyOut => some (copyOutI m s)
  | .envLookup t ch => envLookupI s t ch
  | .envRelease p => some (envReleaseI m s p)

def runFrom (m : Mode) : Sys → List OpI → Option Sys
  | s, [] => some s
  | s, op :: ops =>
    match stepI m s op with
    | none => none
    | some s' => runFrom m s' ops

/-- a history from the freshly constructed automaton and the empty cache -/
def runI (m : Mode) (ops : List OpI) : Option Sys := runFrom m empty ops

/-- the call of the value store an interned call stands for (`none`: invisible at the level of tuple values) -/
def toStoreOp : OpI → Option Store.Op
  | .add r _ => some (.add r)
  | .setFinal q => some (.setFinal q)
  | .setFinals qs => some (.setFinals qs)
  | .eraseFinal => some .eraseFinal
  | .clear => some .clear
  | _ => none

/-- a history of the value store played with the allocator `al` (step number ↦ address offered) -/
def liftOps (al : Nat → Nat) : Nat → List Store.Op → List OpI
  | _, [] => []
  | n, .add r :: ops => .add r (al n) :: liftOps al (n + 1) ops
  | n, .setFinal q :: ops => .setFinal q :: liftOps al (n + 1) ops
  | n, .setFinals qs :: ops => .setFinals qs :: liftOps al (n + 1) ops
  | n, .eraseFinal :: ops => .eraseFinal :: liftOps al (n + 1) ops
  | n, .clear :: ops => .clear :: liftOps al (n + 1) ops

/-! ### histories against an allocator given as a function -/

/-- the same call with the address `ch` offered by the allocator -/
def setChoice (ch : Nat) : OpI → OpI
  | .add r _ => .add r ch
  | .query r _ => .query r ch
  | .envLookup t _ => .envLookup t ch
  | op => op

/-- a history played against an allocator that decides from the set of live addresses where the next node goes
    (the addresses written in `ops` are ignored) -/
def runA (m : Mode) (alloc : List Nat → Nat) : Sys → List OpI → Option Sys
  | s, [] => some s
  | s, op :: ops =>
    match stepI m s (setChoice (alloc (liveIds s.cache)) op) with
    | none => none
    | some s' => runA m alloc s' ops

/-- an allocator that recycles as eagerly as possible: the lowest address that is not live -/
def lowAlloc (l : List Nat) : Nat :=
  match (List.range (l.length + 1)).find? (fun n => !l.contains n) with
  | some n => n
  | none => l.sum + 1

/-! ### dereferencing -/

def absMap (c : CacheSt) (m : List (Nat × ClusterI)) : List (Nat × Store.Cluster) :=
  m.map (fun qc => (qc.1, qc.2.map (fun ft => (ft.1, ft.2.map (derefC c)))))

/-- the store of tuple VALUES one sees through the pointers -/
def abs (s : Sys) : Store.Store := ⟨absMap s.cache s.clusters, s.final⟩

/-- what `begin() .. end()` yields: the iterator walks the three levels, `operator*` builds
    `Transition(parent, symbol, **tupleIterator_)` -/
def iterateI (s : Sys) : List Rule :=
  s.clusters.flatMap (fun qc => qc.2.flatMap (fun ft => ft.2.map (fun p => (⟨ft.1, derefC s.cache p, qc.1⟩ : Rule))))

/-- all pointer holders: the tuple sets and the environment -/
def refs (s : Sys) : List Nat := allIds s.clusters ++ s.ext

/-! ### the invariant as a test (for the driver) -/

def cacheInvB (c : CacheSt) (R : List Nat) : Bool :=
  Store.nodupB (c.map (·.1)) && Store.nodupNB (ids c) &&
  c.all (fun e => decide (e.2.2 = R.count e.2.1) && decide (0 < e.2.2)) &&
  R.all (fun p => (ids c).contains p)

def invB (s : Sys) : Bool := cacheInvB s.cache (refs s)

end Vata.StoreI
