import Vata.Glue
import Vata.Proofs.BddLoad
/-!
# `SymbolicVarAsgn::operator++` as an index loop, and the counter that hands out the symbol codes (C08 / C13)

`Glue.inc` is the list-recursive reading of `operator++`.  Here the loop is mirrored *as coded*, with the index `i`, the
loop condition as a parameter and `GetIthVariableValue` / `SetIthVariableValue` (`Glue.get` / `Glue.set`):

```
SymbolicVarAsgn& SymbolicVarAsgn::operator++()            // src/sym_var_asgn.cc
{
	for (size_t i = 0; i < length(); ++i)
	{	// for each variable
		char value = GetIthVariableValue(i);
		if (value == ZERO)
		{	// in case we can stop here
			SetIthVariableValue(i, ONE);
			return *this;
		}
		else if (value == ONE)
		{	// we change to zero and continue to search zero
			SetIthVariableValue(i, ZERO);
		}
		else
		{	// otherwise
			assert(false);    // fail gracefully
		}
	}
	return *this;
}
```

The loop condition is the parameter `cond`: `i < length()` gives `incCoded` (proved equal to `Glue.inc`), the seeded
`i + 1 < length()` gives `incNoTopCarry` (the carry never reaches the top variable).

Fuel: `incLoop` takes a fuel argument; `length()` iterations suffice, and any larger fuel gives the same result
(`Vata/Proofs/SymbolCounter.lean`: `incLoop_spec` is stated for every fuel `≥` the number of variables the loop may visit,
so the function is total and the fuel is not observable).

The alphabet (`OnTheFlyAlphabet`, `include/vata/aut_base.hh`) hands out the code of a new name by `nextSymbol_++`:
`handOut step m a` are the `m` values returned by `m` postfix increments, `trWith step` is `BddLoad.AlphaC.tr` with the
increment as a parameter (`trWith Glue.inc = AlphaC.tr` by `rfl`).
-/
namespace Vata
namespace SymbolCounter
open Glue

/-- the loop of `operator++`; `cond i` is the loop condition, the arguments are the fuel, the index `i`, the object.
`value == ZERO`: set `ONE`, `return`; `value == ONE`: set `ZERO`, go on; otherwise (`DONT_CARE`; the `assert (false)` is
compiled out): go on. -/
def incLoop (cond : Nat → Bool) : Nat → Nat → Asgn → Asgn
  | 0, _, a => a
  | fuel + 1, i, a =>
    if cond i then
      match get a i with
      | some (some false) => set a i (some true)                                  -- `SetIthVariableValue(i, ONE); return *this;`
      | some (some true) => incLoop cond fuel (i + 1) (set a i (some false))      -- `SetIthVariableValue(i, ZERO);`
      | _ => incLoop cond fuel (i + 1) a                                          -- `assert(false);`
    else a                                                                        -- `return *this;` after the loop

/-- `operator++` as coded: `for (size_t i = 0; i < length(); ++i)` -/
def incCoded (a : Asgn) : Asgn := incLoop (fun i => decide (i < length a)) (length a) 0 a

/-- the seeded variant: `for (size_t i = 0; i + 1 < length(); ++i)` – the top variable is never touched -/
def incNoTopCarry (a : Asgn) : Asgn := incLoop (fun i => decide (i + 1 < length a)) (length a) 0 a

/-- `SymbolicVarAsgn (n, 0)`: all `n` variables `ZERO` (`Glue.ofNum n 0` for `n ≤ 31`) -/
def zero (n : Nat) : Asgn := List.replicate n (some false)

/-- `k` prefix increments -/
def iter (step : Asgn → Asgn) : Nat → Asgn → Asgn
  | 0, a => a
  | k + 1, a => iter step k (step a)

/-- the values returned by `m` successive `nextSymbol_++` (postfix: the old value is returned) from the counter `a` -/
def handOut (step : Asgn → Asgn) : Nat → Asgn → List Asgn
  | 0, _ => []
  | m + 1, a => a :: handOut step m (step a)

/-- `BddLoad.AlphaC.tr` with the increment as a parameter: `TranslatorWeak (symbolDict_, [&](…){ return nextSymbol_++; })`
applied to a name: `find`; if absent the result is the old `nextSymbol_`, which is inserted, and the counter is stepped. -/
def trWith (step : Asgn → Asgn) (a : BddLoad.AlphaC) (f : String) : Asgn × BddLoad.AlphaC :=
  match a.dict.lookup f with
  | some c => (c, a)
  | none => (a.next, ⟨a.dict ++ [(f, a.next)], step a.next⟩)

/-- a sequence of names translated one after the other (the symbol names of the transitions of a load, in order) -/
def trsWith (step : Asgn → Asgn) (a : BddLoad.AlphaC) : List String → BddLoad.AlphaC
  | [] => a
  | f :: fs => trsWith step (trWith step a f).2 fs

/-- the fresh alphabet over `n` variables (`n = 16`: `BddLoad.AlphaC.init`) -/
def initW (n : Nat) : BddLoad.AlphaC := ⟨[], zero n⟩

end SymbolCounter
end Vata
