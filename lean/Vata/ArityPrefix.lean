import Vata.BddLoad
/-!
# The 6-bit arity prefix of the top-down BDD encoding, as coded, and two seeded variants (properties C08 / C07)

C++ read into this file:

* `include/vata/symbolic.hh`: `const static size_t SYMBOL_SIZE = 16;`
* `src/bdd_td_tree_aut_core.hh`:
  ```
  static const size_t SYMBOL_ARITY_LENGTH = 6;
  static const size_t MAX_SYMBOL_ARITY = VATA::Util::IntExp2(SYMBOL_ARITY_LENGTH) - 1;      // 63
  static const size_t SYMBOL_TOTAL_SIZE = SYMBOL_SIZE + SYMBOL_ARITY_LENGTH;                // 22
  void addArityToSymbol(SymbolType& symbol, size_t arity) const {
    assert(arity <= MAX_SYMBOL_ARITY);                   // compiled out (NDEBUG)
    SymbolType prefix(SYMBOL_ARITY_LENGTH, arity);
    symbol.append(prefix); }
  ```
* `src/bdd_td_tree_aut_core.cc`, `AddTransition`: `SymbolType newSymbol = symbol; addArityToSymbol(newSymbol, children.size());`
* `src/bdd_bu_tree_aut_core.cc`, `GetTopDownAut`:
  ```
  SymbolType prefix(BDDTDTreeAutCore::SYMBOL_ARITY_LENGTH, checkedTuple.size());
  TransMTBDD extendedBdd = tupleBddPair.second.ExtendWith(prefix, Symbolic::SYMBOL_SIZE);
  ```
* `include/vata/sym_var_asgn.hh`, `append`:
  ```
  size_t offset = variablesCount_;  variablesCount_ += prefix.length();
  vars_.resize(numberOfChars(variablesCount_));
  for (size_t i = 0; i < prefix.length(); ++i) SetIthVariableValue(offset + i, prefix.GetIthVariableValue(i));
  ```

The existing models `BddAbsTD.addCubeTD` (loading) and `BddAbsTD.getTopDownAut` (conversion) have the prefix
`BddAbsTD.arAsgn n` built in.  Here both are PARAMETRISED by the prefix function `pre : Nat → Asgn` (`addCubeTDWith`,
`ofRulesTDWith`, `getTopDownAutWith`); with `pre = arAsgn` they are the existing models (by `rfl`,
`Vata/Proofs/ArityPrefix.lean`), and the two seeded variants are two other instances:

* `arAsgnMod63 n = arAsgn (n % 63)`: the prefix computed as `SymbolType prefix(SYMBOL_ARITY_LENGTH, size() % 63)`
  (a wrong reading of `MAX_SYMBOL_ARITY`) – arity 63 gets the prefix of arity 0;
* `arAsgnShort n`: what `append` leaves when its loop is `for (i = 0; i + 1 < prefix.length(); ++i)`: the last variable
  (variable 21, the top arity bit) is never written.  `vars_.resize` zero-fills the new characters, so its two-bit field is
  `0x00`, which is none of `ZERO = 0x01`, `ONE = 0x02`; the MTBDD constructor branches only on these two, every other
  value is skipped like `DONT_CARE` – modelled as `none` (`appendOneShort`, and on the packed representation
  `packedAppendOneShort`).

Definitions only; total, executable.
-/
namespace Vata
namespace ArityPrefix
open M BddAbs BddAbsTD

/-- `BDDTDTreeAutCore::SYMBOL_ARITY_LENGTH` -/
def SYMBOL_ARITY_LENGTH : Nat := 6
/-- `BDDTDTreeAutCore::MAX_SYMBOL_ARITY = IntExp2(SYMBOL_ARITY_LENGTH) - 1` -/
def MAX_SYMBOL_ARITY : Nat := 2 ^ SYMBOL_ARITY_LENGTH - 1
/-- `BDDTDTreeAutCore::SYMBOL_TOTAL_SIZE` -/
def SYMBOL_TOTAL_SIZE : Nat := Glue.SYMBOL_SIZE + SYMBOL_ARITY_LENGTH

/-! ## 1. the ranked symbol as coded -/

/-- `SymbolType prefix(SYMBOL_ARITY_LENGTH, arity)`: the constructor `SymbolicVarAsgn(size, n)` as coded (`Glue.ofNum`, the
mask test `n & (1 << i)`; `none` would be undefined behaviour, which needs `size > 32`) -/
def arityPrefix (arity : Nat) : Option Glue.Asgn := Glue.ofNum SYMBOL_ARITY_LENGTH arity

/-- `addArityToSymbol(symbol, arity)` on an assignment: `symbol.append(prefix)` -/
def addArityToSymbol (symbol : Glue.Asgn) (arity : Nat) : Option Glue.Asgn :=
  (arityPrefix arity).map (fun pre => Glue.append symbol pre)

/-- the ranked symbol of the symbol number `sym` with `ar` children: 16 symbol variables, 6 arity variables above them -/
def rankedAsgn (sym ar : Nat) : Glue.Asgn := Glue.append (symAsgn sym) (arAsgn ar)

/-- the 22-bit number the ranked symbol spells (variable `i` is bit `i`) -/
def rankedCode (sym ar : Nat) : Nat := Glue.toNum (rankedAsgn sym ar)

/-! ## 2. the two seeded variants -/

/-- seeded variant 1: `SymbolType prefix(SYMBOL_ARITY_LENGTH, arity % 63)` -/
def arAsgnMod63 (n : Nat) : List (Option Bool) := arAsgn (n % 63)

def rankedAsgnMod63 (sym ar : Nat) : Glue.Asgn := Glue.append (symAsgn sym) (arAsgnMod63 ar)

def rankedCodeMod63 (sym ar : Nat) : Nat := Glue.toNum (rankedAsgnMod63 sym ar)

/-- seeded variant 2: `append` with the loop `for (i = 0; i + 1 < prefix.length(); ++i)`: `variablesCount_` has grown by
`prefix.length()`, the last new variable is never written (its field stays `0x00` = neither `ZERO` nor `ONE`: a don't-care
for every reader that branches on `ZERO` / `ONE`) -/
def appendOneShort (a pre : Glue.Asgn) : Glue.Asgn :=
  match pre with
  | [] => a
  | _ :: _ => a ++ pre.dropLast ++ [none]

/-- the same on the packed representation, as coded: enlarge, `resize`, write all but the last new variable -/
def packedAppendOneShort (p : Glue.Packed) (vals : List Glue.Val) : Glue.Packed :=
  Glue.Packed.setFrom
    ⟨p.variablesCount + vals.length,
      Glue.Packed.resize p.vars (Glue.Packed.numberOfChars (p.variablesCount + vals.length))⟩
    p.variablesCount vals.dropLast

/-- the arity prefix as the short `append` leaves it -/
def arAsgnShort (n : Nat) : List (Option Bool) := appendOneShort [] (arAsgn n)

def rankedAsgnShort (sym ar : Nat) : Glue.Asgn := appendOneShort (symAsgn sym) (arAsgn ar)

/-! ## 3. loading and conversion, parametrised by the prefix -/

/-- `BDDTDTreeAutCore::AddTransition` with the prefix function `pre` (`pre = arAsgn`: `BddAbsTD.addCubeTD`) -/
def addCubeTDWith (pre : Nat → List (Option Bool)) (T : TableTD) (p : Nat) (asgn : List (Option Bool)) (ks : List Nat) :
    TableTD :=
  setTD T p (apply2 unionTS (getTD T p) (construct (asgn ++ pre ks.length) [ks] []))

/-- loading a rule list (`AddTransition` for each rule) with the prefix function `pre` -/
def ofRulesTDWith (pre : Nat → List (Option Bool)) (rs : List Rule) : TableTD :=
  rs.foldl (fun T r => addCubeTDWith pre T r.parent (symAsgn r.sym) r.kids) []

/-- the body of the inner loop of `GetTopDownAut` with the prefix function `pre` -/
def invertStepWith (pre : Nat → List (Option Bool)) (p : Nat) (acc : MTD) (e : List Nat × MT) : MTD :=
  apply2 (invertLeaf p e.1) (extendWith (pre e.1.length) 16 e.2 []) acc

/-- `BDDBUTreeAutCore::GetTopDownAut` with the prefix function `pre` (`pre = arAsgn`: `BddAbsTD.getTopDownAut`) -/
def getTopDownAutWith (pre : Nat → List (Option Bool)) (T : Table) (final : List Nat) : TableTD :=
  (tdStates T final).foldl (fun R p => setTD R p ((pairs T).foldl (invertStepWith pre p) (getTD R p))) []

/-- the arity variables of `ρ` lie in the cube `c` (for `c = arAsgn n` this is `BddAbsTD.arOK ρ n`) -/
def preOK (ρ : Nat → Bool) (c : List (Option Bool)) : Bool := agrees (fun j => ρ (j + 16)) c 0

/-! ## 4. a small automaton with a rule of arity 63 -/

/-- `a → 1`, `f(1, …, 1) → 2` with 63 children (symbol numbers 0 and 1) -/
def rs63 : List Rule := [⟨0, [], 1⟩, ⟨1, List.replicate 63 1, 2⟩]
def fin63 : List Nat := [2]
/-- the tree `f(a, …, a)` -/
def tree63 : Tree := .node 1 (List.replicate 63 (.node 0 []))

/-- `a → 1`, `g(1) → 2`, `g(1^33) → 3`: ranks 1 and 33 of one symbol -/
def rs33 : List Rule := [⟨0, [], 1⟩, ⟨1, [1], 2⟩, ⟨1, List.replicate 33 1, 3⟩]

end ArityPrefix
end Vata
