/-! feasibility probe (throw-away): NFA inclusion reference, exact for every verdict it returns -/
namespace Vata.W

structure NFA where
  start : List Nat
  final : List Nat
  trans : List (Nat × Nat × Nat)      -- (source, symbol, target)

def stepW (N : NFA) (S : List Nat) (a : Nat) : List Nat :=
  (N.trans.filter (fun e => S.contains e.1 && e.2.1 == a)).map (·.2.2)

def run (N : NFA) (w : List Nat) : List Nat := w.foldl (stepW N) N.start
def accepting (N : NFA) (S : List Nat) : Bool := S.any (fun q => N.final.contains q)
def acceptsW (N : NFA) (w : List Nat) : Bool := accepting N (run N w)

def SetEq (l₁ l₂ : List Nat) : Prop := ∀ x, x ∈ l₁ ↔ x ∈ l₂
def subB (l₁ l₂ : List Nat) : Bool := l₁.all (fun x => l₂.contains x)
def seteq (l₁ l₂ : List Nat) : Bool := subB l₁ l₂ && subB l₂ l₁
theorem seteq_iff {l₁ l₂ : List Nat} : seteq l₁ l₂ = true ↔ SetEq l₁ l₂ := by
  simp only [seteq, subB, Bool.and_eq_true, List.all_eq_true, List.contains_iff_mem, SetEq]
  constructor
  · rintro ⟨h1, h2⟩ x; exact ⟨h1 x, h2 x⟩
  · intro h; exact ⟨fun x => (h x).1, fun x => (h x).2⟩

theorem stepW_congr (N : NFA) {S S' : List Nat} (h : SetEq S S') (a : Nat) : stepW N S a = stepW N S' a := by
  unfold stepW
  congr 1
  apply List.filter_congr
  intro e _
  congr 1
  rw [Bool.eq_iff_iff]; simp only [List.contains_iff_mem]; exact h e.1

theorem accepting_congr (N : NFA) {S S' : List Nat} (h : SetEq S S') : accepting N S = accepting N S' := by
  rw [Bool.eq_iff_iff]
  simp only [accepting, List.any_eq_true]
  constructor
  · rintro ⟨q, hq, hf⟩; exact ⟨q, (h q).1 hq, hf⟩
  · rintro ⟨q, hq, hf⟩; exact ⟨q, (h q).2 hq, hf⟩

abbrev Pair := List Nat × List Nat
def PairEq (p p' : Pair) : Prop := SetEq p.1 p'.1 ∧ SetEq p.2 p'.2
def pairEqB (p p' : Pair) : Bool := seteq p.1 p'.1 && seteq p.2 p'.2
theorem pairEqB_iff {p p' : Pair} : pairEqB p p' = true ↔ PairEq p p' := by
  simp [pairEqB, PairEq, seteq_iff]
def memP (P : List Pair) (p : Pair) : Bool := P.any (fun p' => pairEqB p' p)
theorem memP_iff {P : List Pair} {p : Pair} : memP P p = true ↔ ∃ p', p' ∈ P ∧ PairEq p' p := by
  simp [memP, List.any_eq_true, pairEqB_iff]

def syms (A : NFA) : List Nat := A.trans.map (·.2.1)
def stepP (A B : NFA) (P : List Pair) : List Pair :=
  P.flatMap (fun p => (syms A).map (fun a => (stepW A p.1 a, stepW B p.2 a)))
def closedB (A B : NFA) (P : List Pair) : Bool := (stepP A B P).all (memP P)
def addNew (P : List Pair) : List Pair → List Pair
  | [] => P
  | p :: ps => if memP P p then addNew P ps else addNew (P ++ [p]) ps
def sat (A B : NFA) : Nat → List Pair → Option (List Pair)
  | 0, P => if closedB A B P then some P else none
  | n+1, P => if closedB A B P then some P else sat A B n (addNew P (stepP A B P))
def bad (A B : NFA) (p : Pair) : Bool := accepting A p.1 && !accepting B p.2
def inclRef (A B : NFA) (fuel : Nat) : Option Bool :=
  (sat A B fuel [(A.start, B.start)]).map (fun P => !(P.any (bad A B)))

def Gen (A B : NFA) (P : List Pair) : Prop := ∀ p, p ∈ P → ∃ w, PairEq p (run A w, run B w)
def HasInit (A B : NFA) (P : List Pair) : Prop := ∃ p, p ∈ P ∧ PairEq p (A.start, B.start)

theorem run_snoc (N : NFA) (w : List Nat) (a : Nat) : run N (w ++ [a]) = stepW N (run N w) a := by
  simp [run, List.foldl_append]

theorem gen_step (A B : NFA) (P : List Pair) (hP : Gen A B P) : ∀ p, p ∈ stepP A B P → ∃ w, PairEq p (run A w, run B w) := by
  intro p hp
  simp only [stepP, List.mem_flatMap, List.mem_map] at hp
  obtain ⟨p0, hp0, a, _, rfl⟩ := hp
  obtain ⟨w, hw⟩ := hP p0 hp0
  refine ⟨w ++ [a], ?_, ?_⟩
  · show SetEq (stepW A p0.1 a) (run A (w ++ [a])); rw [run_snoc, stepW_congr A hw.1]; exact fun _ => Iff.rfl
  · show SetEq (stepW B p0.2 a) (run B (w ++ [a])); rw [run_snoc, stepW_congr B hw.2]; exact fun _ => Iff.rfl

theorem addNew_inv (A B : NFA) (P N : List Pair) (hP : Gen A B P) (hI : HasInit A B P)
    (hN : ∀ p, p ∈ N → ∃ w, PairEq p (run A w, run B w)) : Gen A B (addNew P N) ∧ HasInit A B (addNew P N) := by
  induction N generalizing P with
  | nil => exact ⟨hP, hI⟩
  | cons p ps ih =>
    simp only [addNew]
    split
    · exact ih P hP hI (fun q hq => hN q (List.mem_cons_of_mem _ hq))
    · apply ih
      · intro q hq
        rcases List.mem_append.mp hq with h | h
        · exact hP q h
        · simp only [List.mem_singleton] at h; subst h; exact hN _ List.mem_cons_self
      · obtain ⟨p0, h0, he⟩ := hI; exact ⟨p0, List.mem_append_left _ h0, he⟩
      · exact fun q hq => hN q (List.mem_cons_of_mem _ hq)

theorem sat_sound (A B : NFA) (fuel : Nat) (P R : List Pair) (hP : Gen A B P) (hI : HasInit A B P)
    (h : sat A B fuel P = some R) : Gen A B R ∧ HasInit A B R ∧ closedB A B R = true := by
  induction fuel generalizing P with
  | zero =>
    simp only [sat] at h
    split at h
    · cases h; exact ⟨hP, hI, by assumption⟩
    · cases h
  | succ n ih =>
    simp only [sat] at h
    split at h
    · cases h; exact ⟨hP, hI, by assumption⟩
    · obtain ⟨g, i⟩ := addNew_inv A B P _ hP hI (gen_step A B P hP)
      exact ih _ g i h

/-- the symbols that matter: a word accepted by `A` only uses symbols of `A` -/
theorem stepW_nil_of_not_sym (A : NFA) (S : List Nat) (a : Nat) (h : a ∉ syms A) : stepW A S a = [] := by
  simp only [stepW, List.map_eq_nil_iff, List.filter_eq_nil_iff, Bool.and_eq_true, beq_iff_eq, not_and]
  intro e he _ hea
  exact h (List.mem_map.mpr ⟨e, he, hea⟩)

theorem stepW_nil (N : NFA) (a : Nat) : stepW N [] a = [] := by
  simp [stepW]

theorem foldl_nil (N : NFA) (w : List Nat) : w.foldl (stepW N) [] = [] := by
  induction w with
  | nil => rfl
  | cons a w ih => simp [List.foldl_cons, stepW_nil, ih]

/-- from any covered pair, every continuation that is non-empty in `A` is covered -/
theorem covFrom (A B : NFA) (P : List Pair) (hc : closedB A B P = true) :
    ∀ (w : List Nat) (p : Pair) (SA SB : List Nat), p ∈ P → PairEq p (SA, SB) → w.foldl (stepW A) SA ≠ [] →
      ∃ p', p' ∈ P ∧ PairEq p' (w.foldl (stepW A) SA, w.foldl (stepW B) SB)
  | [], p, SA, SB, hp, he, _ => ⟨p, hp, he⟩
  | a :: w, p, SA, SB, hp, he, hne => by
    simp only [List.foldl_cons] at hne ⊢
    have hs1 : stepW A SA a ≠ [] := by
      intro e; rw [e, foldl_nil] at hne; exact hne rfl
    have ha : a ∈ syms A := by
      apply Classical.byContradiction; intro hna
      exact hs1 (stepW_nil_of_not_sym A _ a hna)
    have hs : (stepW A p.1 a, stepW B p.2 a) ∈ stepP A B P := by
      simp only [stepP, List.mem_flatMap, List.mem_map]
      exact ⟨p, hp, a, ha, rfl⟩
    obtain ⟨p', hp', he'⟩ := memP_iff.mp ((List.all_eq_true.mp hc) _ hs)
    have he2 : PairEq p' (stepW A SA a, stepW B SB a) := by
      constructor
      · intro x; rw [← stepW_congr A he.1]; exact he'.1 x
      · intro x; rw [← stepW_congr B he.2]; exact he'.2 x
    exact covFrom A B P hc w p' _ _ hp' he2 hne

theorem cov (A B : NFA) (P : List Pair) (hI : HasInit A B P) (hc : closedB A B P = true) :
    ∀ w : List Nat, run A w ≠ [] → ∃ p, p ∈ P ∧ PairEq p (run A w, run B w) := by
  intro w hne
  obtain ⟨p, hp, he⟩ := hI
  exact covFrom A B P hc w p _ _ hp he hne

theorem inclRef_iff (A B : NFA) (fuel : Nat) (b : Bool) (h : inclRef A B fuel = some b) :
    b = true ↔ ∀ w, acceptsW A w = true → acceptsW B w = true := by
  simp only [inclRef, Option.map_eq_some_iff] at h
  obtain ⟨R, hR, rfl⟩ := h
  have hinit : HasInit A B [(A.start, B.start)] := ⟨_, List.mem_singleton.mpr rfl, ⟨fun _ => Iff.rfl, fun _ => Iff.rfl⟩⟩
  have hgen0 : Gen A B [(A.start, B.start)] := by
    intro p hp; simp only [List.mem_singleton] at hp; subst hp
    exact ⟨[], ⟨fun _ => Iff.rfl, fun _ => Iff.rfl⟩⟩
  obtain ⟨hgen, hI, hcl⟩ := sat_sound A B fuel _ R hgen0 hinit hR
  simp only [Bool.not_eq_true', List.any_eq_false]
  constructor
  · intro hb w hA
    have hne : run A w ≠ [] := by intro e; simp [acceptsW, accepting, e] at hA
    obtain ⟨p, hp, he⟩ := cov A B R hI hcl w hne
    have := hb p hp
    simp only [bad, Bool.and_eq_true, Bool.not_eq_true', not_and, Bool.not_eq_false] at this
    have h1 : accepting A p.1 = true := by rw [accepting_congr A he.1]; exact hA
    have h2 := this h1
    rw [accepting_congr B he.2] at h2; exact h2
  · intro hall p hp
    obtain ⟨w, he⟩ := hgen p hp
    simp only [bad, Bool.and_eq_true, Bool.not_eq_true', not_and, Bool.not_eq_false]
    intro h1
    rw [accepting_congr A he.1] at h1
    rw [accepting_congr B he.2]
    exact hall w h1

#print axioms inclRef_iff
end Vata.W
