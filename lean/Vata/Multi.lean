import Vata.Incl
/-!
# The multi-automaton profile engine (L1)

`forallTrees As φ fuel` decides, for a list of automata `As` and a Boolean function `φ` of the acceptance vector,
whether `∀ t, φ (As.map (accepts · t))` – exactly, for every verdict it returns (`forallTrees_iff`).  Every
language-level predicate the correspondence checks evaluate on the implementation's outputs (inclusion, equivalence,
"is the union", "is the intersection", "is the complement over Σ", emptiness, …) is an instance.
-/
namespace Vata

abbrev MProf := List (List Nat)

def mprofOf (As : List TA) (t : Tree) : MProf := As.map (fun A => reach A t)

def MProfEq (p p' : MProf) : Prop := All2 SetEq p p'

def mprofEqB : MProf → MProf → Bool
  | [], [] => true
  | s :: p, s' :: p' => seteq s s' && mprofEqB p p'
  | _, _ => false

theorem mprofEqB_iff : ∀ {p p' : MProf}, mprofEqB p p' = true ↔ MProfEq p p'
  | [], [] => by simp [mprofEqB, MProfEq]; exact All2.nil
  | [], _ :: _ => by simp [mprofEqB, MProfEq]; intro h; cases h
  | _ :: _, [] => by simp [mprofEqB, MProfEq]; intro h; cases h
  | s :: p, s' :: p' => by
    simp only [mprofEqB, Bool.and_eq_true, seteq_iff, MProfEq]
    constructor
    · rintro ⟨h1, h2⟩; exact All2.cons h1 (mprofEqB_iff.mp h2)
    · intro h; cases h with
      | cons h1 h2 => exact ⟨h1, mprofEqB_iff.mpr h2⟩

theorem All2.refl_setEq : ∀ (p : MProf), All2 SetEq p p
  | [] => All2.nil
  | s :: p => All2.cons (SetEq.refl s) (All2.refl_setEq p)

theorem MProfEq.symm : ∀ {p p' : MProf}, MProfEq p p' → MProfEq p' p
  | _, _, All2.nil => All2.nil
  | _, _, All2.cons h t => All2.cons h.symm (MProfEq.symm t)

theorem MProfEq.trans : ∀ {a b c : MProf}, MProfEq a b → MProfEq b c → MProfEq a c
  | _, _, _, All2.nil, All2.nil => All2.nil
  | _, _, _, All2.cons h t, All2.cons h' t' => All2.cons (h.trans h') (MProfEq.trans t t')

def mmemP (P : List MProf) (p : MProf) : Bool := P.any (fun p' => mprofEqB p' p)

theorem mmemP_iff {P : List MProf} {p : MProf} : mmemP P p = true ↔ ∃ p', p' ∈ P ∧ MProfEq p' p := by
  simp [mmemP, List.any_eq_true, mprofEqB_iff]

/-- all `n`-tuples over `P` (generic copy of `tuples`) -/
def mtuples (P : List MProf) : Nat → List (List MProf)
  | 0 => [[]]
  | n+1 => P.flatMap (fun p => (mtuples P n).map (fun ps => p :: ps))

theorem mem_mtuples {P : List MProf} {n : Nat} {ps : List MProf} :
    ps ∈ mtuples P n ↔ ps.length = n ∧ ∀ p, p ∈ ps → p ∈ P := by
  induction n generalizing ps with
  | zero =>
    simp only [mtuples, List.mem_singleton]
    constructor
    · rintro rfl; simp
    · rintro ⟨h, _⟩; exact List.length_eq_zero_iff.mp h
  | succ n ih =>
    simp only [mtuples, List.mem_flatMap, List.mem_map]
    constructor
    · rintro ⟨p, hp, qs, hqs, rfl⟩
      obtain ⟨hl, hm⟩ := ih.mp hqs
      refine ⟨by simp [hl], ?_⟩
      intro x hx
      rcases List.mem_cons.mp hx with rfl | hx
      · exact hp
      · exact hm x hx
    · rintro ⟨hl, hm⟩
      cases ps with
      | nil => simp at hl
      | cons p qs =>
        refine ⟨p, hm p (List.mem_cons_self), qs, ih.mpr ⟨by simpa using hl, fun x hx => hm x (List.mem_cons_of_mem _ hx)⟩, rfl⟩

/-- the post of a tuple of profiles, automaton by automaton -/
def mpost : List TA → Nat → List MProf → MProf
  | [], _, _ => []
  | A :: As, f, ps => post A f (ps.map (fun p => p.headD [])) :: mpost As f (ps.map List.tail)

def msymAr (As : List TA) : List (Nat × Nat) := (As.flatMap symAr).eraseDups

def mstep (As : List TA) (P : List MProf) : List MProf :=
  (msymAr As).flatMap (fun fa => (mtuples P fa.2).map (fun ps => mpost As fa.1 ps))

def maddNew (P : List MProf) : List MProf → List MProf
  | [] => P
  | p :: ps => if mmemP P p then maddNew P ps else maddNew (P ++ [p]) ps

def mclosedB (As : List TA) (P : List MProf) : Bool := (mstep As P).all (mmemP P)

def msat (As : List TA) : Nat → List MProf → Option (List MProf)
  | 0, P => if mclosedB As P then some P else none
  | n+1, P => if mclosedB As P then some P else msat As n (maddNew P (mstep As P))

/-! ### soundness: every stored profile is the profile of a tree -/

def MGen (As : List TA) (P : List MProf) : Prop := ∀ p, p ∈ P → ∃ t, MProfEq p (mprofOf As t)

/-- a list of profiles, each equal to the profile of the corresponding tree -/
def Along (As : List TA) : List MProf → List Tree → Prop := All2 (fun p t => MProfEq p (mprofOf As t))

theorem along_heads (A : TA) (As : List TA) : ∀ {ps : List MProf} {ts : List Tree}, Along (A :: As) ps ts →
    All2 SetEq (ps.map (fun p => p.headD [])) (reachL A ts) ∧ Along As (ps.map List.tail) ts
  | _, _, All2.nil => ⟨All2.nil, All2.nil⟩
  | p :: ps, t :: ts, All2.cons h tl => by
    obtain ⟨h1, h2⟩ := along_heads A As tl
    simp only [mprofOf, List.map_cons] at h
    cases h with
    | cons hh ht =>
      exact ⟨by simp only [List.map_cons, reachL, List.headD_cons]; exact All2.cons hh h1,
        by simp only [List.map_cons, List.tail_cons]; exact All2.cons ht h2⟩

theorem mpost_along : ∀ (As : List TA) (f : Nat) (ps : List MProf) (ts : List Tree), Along As ps ts →
    MProfEq (mpost As f ps) (mprofOf As (Tree.node f ts))
  | [], _, _, _, _ => All2.nil
  | A :: As, f, ps, ts, h => by
    obtain ⟨h1, h2⟩ := along_heads A As h
    simp only [mpost, mprofOf, List.map_cons]
    refine All2.cons ?_ (mpost_along As f _ ts h2)
    rw [reach, post_congr A f h1]; exact SetEq.refl _

theorem mgen_post (As : List TA) (f : Nat) (ps : List MProf) (P : List MProf) (hP : MGen As P)
    (hps : ∀ p, p ∈ ps → p ∈ P) : ∃ t, MProfEq (mpost As f ps) (mprofOf As t) := by
  have : ∃ ts : List Tree, Along As ps ts := by
    induction ps with
    | nil => exact ⟨[], All2.nil⟩
    | cons p ps ih =>
      obtain ⟨ts, h1⟩ := ih (fun q hq => hps q (List.mem_cons_of_mem _ hq))
      obtain ⟨t, ht⟩ := hP p (hps p List.mem_cons_self)
      exact ⟨t :: ts, All2.cons ht h1⟩
  obtain ⟨ts, h⟩ := this
  exact ⟨Tree.node f ts, mpost_along As f ps ts h⟩

theorem mgen_step (As : List TA) (P : List MProf) (hP : MGen As P) :
    ∀ p, p ∈ mstep As P → ∃ t, MProfEq p (mprofOf As t) := by
  intro p hp
  simp only [mstep, List.mem_flatMap, List.mem_map] at hp
  obtain ⟨fa, _, ps, hps, rfl⟩ := hp
  exact mgen_post As fa.1 ps P hP (mem_mtuples.mp hps).2

theorem mgen_addNew (As : List TA) (P N : List MProf) (hP : MGen As P)
    (hN : ∀ p, p ∈ N → ∃ t, MProfEq p (mprofOf As t)) : MGen As (maddNew P N) := by
  induction N generalizing P with
  | nil => simpa [maddNew] using hP
  | cons p ps ih =>
    simp only [maddNew]
    split
    · exact ih P hP (fun q hq => hN q (List.mem_cons_of_mem _ hq))
    · apply ih
      · intro q hq
        rcases List.mem_append.mp hq with h | h
        · exact hP q h
        · simp only [List.mem_singleton] at h; subst h; exact hN _ List.mem_cons_self
      · exact fun q hq => hN q (List.mem_cons_of_mem _ hq)

theorem msat_sound (As : List TA) (fuel : Nat) (P R : List MProf) (hP : MGen As P)
    (h : msat As fuel P = some R) : MGen As R ∧ mclosedB As R = true := by
  induction fuel generalizing P with
  | zero =>
    simp only [msat] at h
    split at h
    · cases h; exact ⟨hP, by assumption⟩
    · cases h
  | succ n ih =>
    simp only [msat] at h
    split at h
    · cases h; exact ⟨hP, by assumption⟩
    · exact ih _ (mgen_addNew As P _ hP (mgen_step As P hP)) h

/-! ### completeness: a closed set covers every tree on which some automaton can run -/

def MCov (As : List TA) (P : List MProf) (t : Tree) : Prop := ∃ p, p ∈ P ∧ MProfEq p (mprofOf As t)

theorem exists_rule_of_reach_ne {A : TA} {f : Nat} {ts : List Tree} (hne : reach A (Tree.node f ts) ≠ []) :
    ∃ r, r ∈ A.rules ∧ r.sym = f ∧ matchKids r.kids (reachL A ts) = true := by
  simp only [reach, post] at hne
  cases hfl : A.rules.filter (fun r => r.sym == f && matchKids r.kids (reachL A ts)) with
  | nil => rw [hfl] at hne; simp at hne
  | cons r rs =>
    have hr : r ∈ A.rules.filter (fun r => r.sym == f && matchKids r.kids (reachL A ts)) := by
      rw [hfl]; exact List.mem_cons_self
    simp only [List.mem_filter, Bool.and_eq_true, beq_iff_eq] at hr
    exact ⟨r, hr.1, hr.2.1, hr.2.2⟩

mutual
theorem mcov_of_closed (As : List TA) (P : List MProf) (hc : mclosedB As P = true) (A : TA) (hA : A ∈ As) :
    ∀ t : Tree, reach A t ≠ [] → MCov As P t
  | .node f ts => by
    intro hne
    obtain ⟨r, hr, hs, hm⟩ := exists_rule_of_reach_ne hne
    have hlen : r.kids.length = ts.length := by
      have := matchKids_length hm; rw [reachL_eq_map] at this; simpa using this
    obtain ⟨ps, hpsP, hal⟩ := mcovL_of_closed As P hc A hA ts (matchKids_nonempty hm)
    have hpl : ps.length = ts.length := all2_length hal
    have hstep : mpost As f ps ∈ mstep As P := by
      simp only [mstep, List.mem_flatMap, List.mem_map]
      refine ⟨(r.sym, r.kids.length), ?_, ps, mem_mtuples.mpr ⟨by simp [hpl, hlen], hpsP⟩, by simp [hs]⟩
      simp only [msymAr, List.mem_eraseDups, List.mem_flatMap, symAr, List.mem_map]
      exact ⟨A, hA, r, hr, rfl⟩
    have hmem := (List.all_eq_true.mp hc) _ hstep
    obtain ⟨p', hp', he⟩ := mmemP_iff.mp hmem
    exact ⟨p', hp', he.trans (mpost_along As f ps ts hal)⟩
theorem mcovL_of_closed (As : List TA) (P : List MProf) (hc : mclosedB As P = true) (A : TA) (hA : A ∈ As) :
    ∀ ts : List Tree, (∀ s, s ∈ reachL A ts → s ≠ []) →
      ∃ ps : List MProf, (∀ p, p ∈ ps → p ∈ P) ∧ Along As ps ts
  | [] => fun _ => ⟨[], by simp, All2.nil⟩
  | t :: ts => by
    intro h
    obtain ⟨p, hp, he⟩ := mcov_of_closed As P hc A hA t (h _ (by simp [reachL]))
    obtain ⟨ps, hps, hal⟩ := mcovL_of_closed As P hc A hA ts (fun s hs => h s (by simp [reachL, hs]))
    refine ⟨p :: ps, ?_, All2.cons he hal⟩
    intro q hq
    rcases List.mem_cons.mp hq with rfl | hq
    · exact hp
    · exact hps q hq
end

/-! ### the decision procedure -/

/-- acceptance vector of a profile -/
def accVec : List TA → MProf → List Bool
  | A :: As, s :: p => accepting A s :: accVec As p
  | _, _ => []

theorem accVec_congr : ∀ (As : List TA) {p p' : MProf}, MProfEq p p' → accVec As p = accVec As p'
  | [], _, _, _ => by simp [accVec]
  | _ :: _, _, _, All2.nil => rfl
  | A :: As, _, _, All2.cons h t => by
    simp only [accVec]; rw [accepting_congr A h, accVec_congr As t]

theorem accVec_mprofOf : ∀ (As : List TA) (t : Tree), accVec As (mprofOf As t) = As.map (fun A => accepts A t)
  | [], _ => rfl
  | A :: As, t => by
    simp only [mprofOf, List.map_cons, accVec, accepts]
    congr 1
    exact accVec_mprofOf As t

def forallTrees (As : List TA) (φ : List Bool → Bool) (fuel : Nat) : Option Bool :=
  (msat As fuel []).map (fun P => P.all (fun p => φ (accVec As p)) && φ (As.map (fun _ => false)))

/-- a symbol used by none of the automata -/
def freshSym (As : List TA) : Nat := (As.flatMap (fun A => A.rules.map (·.sym))).foldr max 0 + 1

theorem le_foldr_max {l : List Nat} {x : Nat} (h : x ∈ l) : x ≤ l.foldr max 0 := by
  induction l with
  | nil => simp at h
  | cons y ys ih =>
    simp only [List.foldr_cons]
    rcases List.mem_cons.mp h with rfl | h
    · exact Nat.le_max_left _ _
    · exact Nat.le_trans (ih h) (Nat.le_max_right _ _)

theorem reach_fresh (As : List TA) (A : TA) (hA : A ∈ As) : reach A (Tree.node (freshSym As) []) = [] := by
  simp only [reach, post, List.map_eq_nil_iff, List.filter_eq_nil_iff, Bool.and_eq_true, beq_iff_eq, not_and]
  intro r hr hs
  exfalso
  have : r.sym ≤ (As.flatMap (fun A => A.rules.map (·.sym))).foldr max 0 := by
    apply le_foldr_max
    simp only [List.mem_flatMap, List.mem_map]
    exact ⟨A, hA, r, hr, rfl⟩
  simp only [freshSym] at hs
  omega

theorem accepts_false_of_reach_nil {A : TA} {t : Tree} (h : reach A t = []) : accepts A t = false := by
  simp [accepts, accepting, h]

theorem forallTrees_iff (As : List TA) (φ : List Bool → Bool) (fuel : Nat) (b : Bool)
    (h : forallTrees As φ fuel = some b) :
    b = true ↔ ∀ t, φ (As.map (fun A => accepts A t)) = true := by
  simp only [forallTrees, Option.map_eq_some_iff] at h
  obtain ⟨R, hR, rfl⟩ := h
  obtain ⟨hgen, hcl⟩ := msat_sound As fuel [] R (by intro p hp; simp at hp) hR
  simp only [Bool.and_eq_true, List.all_eq_true]
  constructor
  · rintro ⟨hall, hfalse⟩ t
    by_cases hex : ∃ A, A ∈ As ∧ reach A t ≠ []
    · obtain ⟨A, hA, hne⟩ := hex
      obtain ⟨p, hp, he⟩ := mcov_of_closed As R hcl A hA t hne
      have := hall p hp
      rw [accVec_congr As he, accVec_mprofOf] at this
      exact this
    · have : As.map (fun A => accepts A t) = As.map (fun _ => false) := by
        apply List.map_congr_left
        intro A hA
        apply accepts_false_of_reach_nil
        by_cases hr : reach A t = []
        · exact hr
        · exact absurd ⟨A, hA, hr⟩ hex
      rw [this]; exact hfalse
  · intro hall
    constructor
    · intro p hp
      obtain ⟨t, he⟩ := hgen p hp
      rw [accVec_congr As he, accVec_mprofOf]
      exact hall t
    · have := hall (Tree.node (freshSym As) [])
      have heq : As.map (fun A => accepts A (Tree.node (freshSym As) [])) = As.map (fun _ => false) := by
        apply List.map_congr_left
        intro A hA
        exact accepts_false_of_reach_nil (reach_fresh As A hA)
      rw [heq] at this; exact this

end Vata
