import Vata.FunctorCachesDownOpt
/-!
# The non-recursive downward inclusion algorithm WITH its address-keyed caches (property C01)

`src/explicit_tree_incl_down.cc` (`ANTICHAINS_DOWN_NONREC_NOSIM` / `…_SIM`): `ExplicitDownwardInclusion::checkInternal` and the
file-local `expand` with the call emulator.  `Vata/InclDown.lean` (`expandN`, `cachedCall`, `rootLoopN`) models it by value, the
emulated calls as recursion.  Here the same recursion is re-stated with the caches and the handles of the code:

    Util::CachedBinaryOp<const StateSet*, const StateSet*, bool> lteCache;
    BiggerTypeCache biggerTypeCache([&lteCache](const StateSet* v) { lteCache.invalidateFirst(v); lteCache.invalidateSecond(v); });
    Antichain2C nonincluded;   auto biggerF = biggerTypeCache.lookup(v);

* `lte(x, y) = (x.get() == y.get()) ? true : lteCache.lookup(x.get(), y.get(), noncachedLte)` is `FCD.hLteO`, `gte(x, y) = lte(y, x)`;
  `workset.contains`, `nonincluded.contains`, `childrenCache.contains`, `….refine` are the loops `coversC`, `niFindC`, `refC`,
  `niAddC` of `Vata/FunctorCachesDown.lean` (same `Antichain2Cv2`);
* WHO HOLDS A HANDLE: the variable `S` (ONE variable: `S = biggerTypeCache.lookup(..)` creates the new object while the old
  one is still held and drops the old handle afterwards – `StN.S`), `top.P_B` and the saved frames' `P_B` (the same addresses
  as in `workset`), `top.childrenCache` and the saved frames' `childrenCache`, `nonincluded`, `biggerF` (`bf`), and – peculiar
  to this file – the RECLAIMED FRAMES of `ExpandCallEmulator`: `pop` leaves in the frame it gives back to the
  `CachingAllocator` the caller's `P_B` (copied, not moved) and – by the `std::swap` – the `childrenCache` of the call that
  returns; they stay there until `push` re-uses the frame (`newFrame->P_B = top.P_B` overwrites, the swapped-in stale
  `childrenCache` is cleared by `top.childrenCache.clear()`).  `StN.pool` is `allocator_.store_` (head = `back()`).
* deaths are `hCollect`s with all these handles as roots (`rootsN`): after every `S = biggerTypeCache.lookup(..)` (old `S`),
  after `EXPAND_PUSH` + `clear()` (the stale frame), when a call has returned and the caches were updated (`S = top.P_B` at
  `EXPAND_POP_RETURN`, `refine`), and at `_end` of `expand` (`workset`, `top`, `callEmulator` with its pool are destroyed).
  Between two such points no object is created, so this equals the deaths one by one (see `Vata/FunctorCachesDown.lean`).
* as in `InclDown.expandN` the test `smallerIndex.size() <= r_i` (a state without rules) is left to the general path.

Definitions only; theorems in `Vata/Proofs/FunctorCachesDownNonrec.lean`.
-/
namespace Vata
namespace FCD
open Vata.InclDown Vata.CM
open Vata.FCU (Heap hval hLookup hCollect pickLeast)
open Vata.InclUp (normS prodWit Wit)

/-- a frame of the call emulator reduced to what holds handles: `P_B` (null = `none`) and `childrenCache` -/
abbrev FrameN := Option Nat × List CP

/-- the state shared by all emulated calls -/
structure StN where
  nonIncl : List CN
  trues : List Pair
  h : Heap
  /-- the variable `S` -/
  S : Nat
  /-- `callEmulator.allocator_.store_`, head = `back()` -/
  pool : List FrameN

def FrameN.handles (f : FrameN) : List Nat := f.1.toList ++ f.2.map (·.2)

/-- all handles: `biggerF`, `S`, `frozen` (`top.P_B`, `workset`, the `childrenCache`s of the saved frames),
`top.childrenCache`, `nonincluded`, the reclaimed frames -/
def rootsN (bf : Nat) (frozen : List Nat) (cc : List CP) (st : StN) : List Nat :=
  bf :: st.S :: frozen ++ cc.map (·.2) ++ st.nonIncl.map (·.2.1) ++ st.pool.flatMap FrameN.handles

/-- `S = biggerTypeCache.lookup(Q)`: the object is looked up / created first, then the old handle in `S` is dropped -/
def lookupS (w : Wiring) (pick : List Nat → Nat) (bf : Nat) (frozen : List Nat) (cc : List CP) (st : StN) (Q : List Nat) : StN :=
  let l := hLookup pick st.h Q
  let st1 : StN := { st with h := l.1, S := l.2 }
  { st1 with h := hCollect w (rootsN bf frozen cc st1) st1.h }

/-- the first phase, `r_i = lhs[i]; S = biggerTypeCache.lookup({rhs[i]}); EXPAND_CALL(2)  _simret: if (!found) break;` – no trace in
the caches; `e extra st q` is the emulated call with the handles `extra` (those of `top.childrenCache`) frozen -/
def callSimN (w : Wiring) (pick : List Nat → Nat) (bf : Nat) (frozen : List Nat)
    (e : List Nat → StN → Nat → Option (Verdict × StN)) : CallG (List CP) StN := fun cc st q Q =>
  let st2 := lookupS w pick bf frozen cc st Q
  match e (cc.map (·.2)) st2 q with
  | none => none
  | some (v, st') => some (v, cc, { st' with h := hCollect w (rootsN bf frozen cc st') st'.h })

/-- the loop over the choice functions:

    S = biggerTypeCache.lookup(tmp);
    if (top.childrenCache.contains(ind.at(r_i), S, lte)) goto _nextchoice;
    EXPAND_CALL(1)
    _stdret:
    if (found) { top.childrenCache.refine(inv.at(r_i), S, gte); top.childrenCache.insert(r_i, S); goto _nextchoice; }
    if (!nonincluded.contains(inv.at(r_i), S, gte)) { nonincluded.refine(ind.at(r_i), S, lte); nonincluded.insert(r_i, S); } -/
def callStdN (o : Ord) (w : Wiring) (pick : List Nat → Nat) (bf : Nat) (frozen : List Nat)
    (e : List Nat → StN → Nat → Option (Verdict × StN)) : CallG (List CP) StN := fun cc st q Q =>
  let st2 := lookupS w pick bf frozen cc st Q
  let a := st2.S
  let r0 := coversC o cc q a st2.h
  if r0.2 then some (.holds, cc, { st2 with h := r0.1 })
  else
    match e (cc.map (·.2)) { st2 with h := r0.1 } q with
    | none => none
    | some (.holds, st') =>
      let r := refC o true (fun x : CP => o.leA x.1 q) (·.2) a cc st'.h
      let cc' := r.2 ++ [(q, a)]
      some (.holds, cc', { st' with h := hCollect w (rootsN bf frozen cc' st') r.1 })
    | some (.fails t, st') =>
      let r := niAddC o st'.nonIncl q a t st'.h
      let st4 : StN := { st' with nonIncl := r.2, h := r.1 }
      some (.fails t, cc, { st4 with h := hCollect w (rootsN bf frozen cc st4) st4.h })

/-- one emulated call `_call: … EXPAND_POP_RETURN` with `r_i = p`, the argument in `S`; `ws` = `workset`, `outer` = the handles
of the `childrenCache`s of the saved frames and of `top`, `pb` = `top.P_B` of the caller (it is what `pop` leaves in the
reclaimed frame); one unit of fuel per nested call

    if (checkIntersection(ind.at(r_i), *S)) { found = true; EXPAND_RETURN }
    if (workset.contains(ind.at(r_i), S, lte)) { found = true; EXPAND_RETURN }
    if (nonincluded.contains(inv.at(r_i), S, gte)) { found = false; EXPAND_RETURN }
    EXPAND_PUSH            // callEmulator.push(top); top.p_S = r_i; top.P_B = S; top.worksetIter = workset.insert(r_i, S);
    top.childrenCache.clear();
    for (top.a = 0; …) { … }                      // `bodyG`
    found = true;  EXPAND_POP_RETURN              // workset.remove(..); S = top.P_B; r_i = top.p_S; callEmulator.pop(top); -/
def expandNC (o : Ord) (w : Wiring) (pick : List Nat → Nat) (A B : TA) (wit : Wit) (bf : Nat) :
    Nat → List CP → List Nat → Option Nat → StN → Nat → Option (Verdict × StN)
  | 0, _, _, _, _, _ => none
  | fuel+1, ws, outer, pb, st, p =>
    let a := st.S
    if byPre o p (hval st.h a) then some (.holds, st)
    else
      let r1 := coversC o ws p a st.h
      if r1.2 then some (.holds, { st with h := r1.1 })
      else
        let r2 := niFindC o st.nonIncl p a r1.1
        match r2.2 with
        | some x => some (.fails x.2.2, { st with h := r2.1 })
        | none =>
          let frozen := a :: ws.map (·.2) ++ outer
          -- the frame `push` takes from the allocator loses its stale `P_B` and (after `clear()`) `childrenCache`
          let st1 : StN := { st with h := r2.1, pool := st.pool.drop 1 }
          let st2 : StN := { st1 with h := hCollect w (rootsN bf frozen [] st1) st1.h }
          let e := fun extra => expandNC o w pick A B wit bf fuel ((p, a) :: ws) (outer ++ extra) (some a)
          match bodyG (callSimN w pick bf frozen e) (callStdN o w pick bf frozen e) A B wit
              (fun l => normS (maxElems o l [])) p (hval st2.h a) [] st2 with
          | none => none
          | some (.holds, cc1, st') =>
            some (.holds, { st' with trues := addTrue st'.trues (p, hval st'.h a), S := a, pool := (pb, cc1) :: st'.pool })
          | some (.fails t, cc1, st') =>
            some (.fails t, { st' with trues := st.trues, S := a, pool := (pb, cc1) :: st'.pool })

/-- the loop of `checkInternal`; each `expand(…, f, biggerF, …)` has its own `workset`, `top`, `callEmulator` (destroyed at its end)

    for (auto& f : smallerFinalStates) if (!expand(biggerTypeCache, lteCache, nonincluded, f, biggerF, …)) return false;
    return true; -/
def rootLoopNC (o : Ord) (w : Wiring) (pick : List Nat → Nat) (A B : TA) (wit : Wit) (fuel : Nat) (bf : Nat) :
    List Nat → StN → Option (Except Tree StN)
  | [], st => some (.ok st)
  | f :: fs, st =>
    match expandNC o w pick A B wit bf fuel [] [] none { st with S := bf, pool := [] } f with
    | none => none
    | some (.holds, st') =>
      let st1 : StN := { st' with S := bf, pool := [] }
      rootLoopNC o w pick A B wit fuel bf fs { st1 with h := hCollect w (rootsN bf [] [] st1) st1.h }
    | some (.fails t, _) => some (.error t)

/-- `ExplicitDownwardInclusion::checkInternal` with its caches -/
def runNC (o : Ord) (w : Wiring) (pick : List Nat → Nat) (A B : TA) (fuel : Nat) : Option (Except Tree StN) :=
  let l := hLookup pick {} (normS B.final)
  rootLoopNC o w pick A B (prodWit A) fuel l.2 (dedup A.final) ⟨[], [], l.1, l.2, []⟩

def viewN : Option (Except Tree StN) → Option (Except Tree St)
  | none => none
  | some (.error t) => some (.error t)
  | some (.ok s) => some (.ok ⟨s.nonIncl.map (derefN s.h), s.trues⟩)

def truesOfN : Option (Except Tree StN) → Option (Except Tree (List Pair))
  | none => none
  | some (.error t) => some (.error t)
  | some (.ok s) => some (.ok s.trues)

def rawVerdictN : Option (Except Tree StN) → Option Bool
  | none => none
  | some (.ok _) => some true
  | some (.error _) => some false

def finalHeapN : Option (Except Tree StN) → Option Heap
  | some (.ok s) => some s.h
  | _ => none

/-- `ANTICHAINS_DOWN_NONREC_NOSIM`, caches included, certify-then-trust as `inclDownNonrec` -/
def inclDownNonrecC (w : Wiring) (pick : List Nat → Nat) (A B : TA) (fuel : Nat) : Option (Bool × InclUp.Cert) :=
  finish (downCertB A B) A B (truesOfN (runNC idOrd w pick A B fuel))

/-- `ANTICHAINS_DOWN_NONREC_SIM`, as `inclDownNonrecSim` -/
def inclDownNonrecSimC (w : Wiring) (pick : List Nat → Nat) (A B : TA) (R : Rel) (fuel : Nat) : Option (Bool × InclUp.Cert) :=
  if isDownSimB (unionDisjoint A B) R && disjointB A B then
    finish (downCertRB (ordOf R A B) A B) A B (truesOfN (runNC (ordOf R A B) w pick A B fuel))
  else none

def checkInclDownNonrecC (w : Wiring) (pick : List Nat → Nat) (A B : TA) (fuel : Nat) : Option (Bool × InclUp.Cert) :=
  inclDownNonrecC w pick (removeUseless A) (removeUseless B) fuel

end FCD
end Vata
