import Vata.Compl
/-!
# Complementation with an arbitrary exploration order (property C06)

`Compl.complTD` (`Vata/Compl.lean`) explores the macro-states FIFO.  In `ExplicitDownwardComplementation::Compute`
(`src/explicit_tree_comp_down.hh`) the work-list is

```
std::unordered_set<StateCachePtr> todo;          // pointers into the nodes of `stateCache`: the order is the order of
...                                              // the hashed ADDRESSES, i.e. arbitrary
while (todo.size())
{
    const auto P = *todo.begin();
    todo.erase(todo.begin());
    for (auto symbolIndexPair : symbolMap) { ... auto p = stateCache.insert(std::make_pair(tmp, stateCache.size()));
                                                 if (p.second) { todo.insert(&*p.first); } ... }
}
```

`stepAt i` is one round of this loop in which the element with index `i` of `todo` (listed in insertion order) is taken;
`Runs` are the executions in which ANY index may be taken in any round (every behaviour of the hash set);
`complTDOrdS pick` is the executable construction with the index chosen by an arbitrary function `pick : StO → Nat` of the
state of the algorithm (`pick s % todo.length`); `complTDOrd pick` (`pick : List MacroState → Nat`) is the instance where
the choice looks at the content of `todo` only, `onRound sched` the one where it looks at the round number.  Every
execution `Runs` is the run of some `pick` (`Runs.realised` in `Vata/Proofs/ComplOrd.lean`).

* `stateCache` is, as in `Compl.St`, the list of macro-states in discovery order; the number of a macro-state
  (`P->second`, assigned as `stateCache.size()` at the insertion) is its position, i.e. the numbering of the
  new macro-states is the discovery order – which depends on `pick`.
* The body of the `while` loop for the picked `P` with its number `k` is literally the one of the FIFO model:
  `Sg.foldl (Compl.procSym A P k)`.
* `todo.insert(&*p.first)` happens exactly when `stateCache.insert` inserted; so after the body the new elements of
  `todo` are the new elements of the cache, `cache'.drop cache.length` (this is the one place where two C++ statements are
  merged into one model step – the same abstraction the FIFO model makes with its counter `k`).
* No final certificate check: `complTDOrdS` returns what the work-list built, trimmed (`RemoveUselessStates`);
  `none` = the fuel (one unit per macro-state taken from `todo`) is exhausted.

Also here: `tdWRaw`, the set `W` as `transitionIndex[state][symbol]` delivers it (no look at the length of the tuple), and
`dictSg`, the ranked alphabet as `Compute` reads it from a symbol dictionary (`symbolMap.insert` keeps the FIRST entry of a
symbol number) – used for the precondition "a symbol number has ONE rank".

Definitions only; the theorems are in `Vata/Proofs/ComplOrd*.lean` and `Vata/Properties/C06_Order.lean`.
-/
namespace Vata
namespace Compl

abbrev MacroState := List Nat

/-- the state of the work-list algorithm: `stateCache` + `dst` (as in the FIFO model) and `todo` -/
structure StO where
  st : St
  /-- `todo`, in insertion order -/
  todo : List MacroState

/-- one round of `while (todo.size())` in which the element with index `i` of `todo` is the one `todo.begin()` points to:
`const auto P = *todo.begin(); todo.erase(todo.begin());`, then the `for (auto symbolIndexPair : symbolMap)` loop for `P`
with its number `P->second`; the macro-states inserted into `stateCache` meanwhile are the ones inserted into `todo` -/
def stepAt (i : Nat) (A : TA) (Sg : List (Nat × Nat)) (s : StO) : StO :=
  let P := s.todo.getD i []
  let k := s.st.cache.idxOf P
  let st' := Sg.foldl (procSym A P k) s.st
  ⟨st', s.todo.eraseIdx i ++ st'.cache.drop s.st.cache.length⟩

/-- one round, the index chosen by `pick` (most generally a function of the whole state of the algorithm) -/
def stepOrdS (pick : StO → Nat) (A : TA) (Sg : List (Nat × Nat)) (s : StO) : StO :=
  stepAt (pick s % s.todo.length) A Sg s

/-- the executions of the loop with EVERY possible behaviour of the hash set: in each round any index may be taken -/
inductive Runs (A : TA) (Sg : List (Nat × Nat)) : StO → StO → Prop
  | done {s : StO} : s.todo = [] → Runs A Sg s s
  | step {s s' : StO} {i : Nat} : i < s.todo.length → Runs A Sg (stepAt i A Sg s) s' → Runs A Sg s s'

/-- `while (todo.size())`; one unit of fuel per round, one more to see that `todo` is empty -/
def loopOrdS (pick : StO → Nat) (A : TA) (Sg : List (Nat × Nat)) : Nat → StO → Option StO
  | 0, _ => none
  | fuel+1, s => if s.todo.isEmpty then some s else loopOrdS pick A Sg fuel (stepOrdS pick A Sg s)

/-- `auto R = &*stateCache.insert(std::make_pair(tmp, 0)).first; todo.insert(R);` -/
def initOrd (A : TA) : StO := ⟨⟨[InclUp.normS A.final], []⟩, [InclUp.normS A.final]⟩

/-- `Compute` with the exploration order `pick` -/
def runOrdS (pick : StO → Nat) (A : TA) (Sg : List (Nat × Nat)) (fuel : Nat) : Option StO :=
  loopOrdS pick A Sg fuel (initOrd A)

/-- `ExplicitTreeAutCore::Complement` with the exploration order `pick`: `Compute` (`dst.SetStateFinal(0)`), then
`RemoveUselessStates`; `none` = fuel exhausted -/
def complTDOrdS (pick : StO → Nat) (A : TA) (Sg : List (Nat × Nat)) (fuel : Nat) : Option TA :=
  (runOrdS pick A Sg fuel).map (fun s => removeUseless ⟨s.st.rules, [0]⟩)

/-- a choice that looks at the content of `todo` only -/
def onTodo (pick : List MacroState → Nat) : StO → Nat := fun s => pick s.todo

/-- a choice given as a schedule: in round `j` (`j` = the number of macro-states processed so far =
`|stateCache| - |todo|`) take the element with index `sched j` -/
def onRound (sched : Nat → Nat) : StO → Nat := fun s => sched (s.st.cache.length - s.todo.length)

/-- the instances with `pick` a function of the content of `todo` -/
abbrev stepOrd (pick : List MacroState → Nat) := stepOrdS (onTodo pick)
abbrev loopOrd (pick : List MacroState → Nat) := loopOrdS (onTodo pick)
abbrev runOrd (pick : List MacroState → Nat) := runOrdS (onTodo pick)
abbrev complTDOrd (pick : List MacroState → Nat) := complTDOrdS (onTodo pick)

/-- the renaming between the results of two runs: the number a macro-state has in the first cache is sent to the number
it has in the second -/
def ordIso (c₁ c₂ : List MacroState) (q : Nat) : Nat := c₂.idxOf (c₁.getD q [])

/-! ### some exploration orders -/

/-- FIFO (the order of `complTD`) -/
def pickFifo : List MacroState → Nat := fun _ => 0
/-- LIFO -/
def pickLifo : List MacroState → Nat := fun l => l.length - 1
/-- an order that depends on the content: the sum of the sizes of the pending macro-states -/
def pickMix : List MacroState → Nat := fun l => (l.map List.length).sum + l.length

/-! ### the alphabet as `Compute` reads it -/

/-- `W` as the code collects it: `transitionIndex[state][symbol]` holds ALL the tuples of the `f`-rules of `state`,
whatever their length (`topDownIndex` indexes by the symbol only); the rank `n = ranks[symbolIndexPair.second]` is used
afterwards as the bound of the choice functions (`(*W[i])[choice]`, with `assert(choice < W[i]->size())`) -/
def tdWRaw (A : TA) (P : List Nat) (f : Nat) : List (List Nat) :=
  dedupM (P.flatMap (fun q => (A.rules.filter (fun r => r.parent == q && r.sym == f)).map (·.kids)))

/-- the ranked alphabet `Compute` extracts from a dictionary that lists the (symbol number, rank) pairs `Sg`:
`symbolMap.insert(std::make_pair(stringSymbolPair.second, ranks.size()))` does not overwrite, so a symbol number keeps the
rank of its FIRST entry -/
def dictSg : List (Nat × Nat) → List (Nat × Nat)
  | [] => []
  | fa :: Sg => fa :: (dictSg Sg).filter (fun gb => gb.1 != fa.1)

/-- every symbol number of `Sg` is registered with one rank -/
def oneRankB (Sg : List (Nat × Nat)) : Bool := Sg.all (fun fa => Sg.all (fun gb => gb.1 != fa.1 || gb.2 == fa.2))

/-- the rules of `A` use the symbols of `Sg` with their ranks -/
def ranksRespectedB (A : TA) (Sg : List (Nat × Nat)) : Bool :=
  A.rules.all (fun r => Sg.all (fun fa => fa.1 != r.sym || r.kids.length == fa.2))

/-! ### self-tests -/
namespace Ex

/-- alphabet `{a/0, g/1, h/1}` -/
def sgc : List (Nat × Nat) := [(0, 0), (2, 1), (3, 1)]
/-- a chain `a → 0 -g→ 1 -g→ 2 -g→ 3` with two `h`-rules: the order of exploration changes the numbering -/
def aChain : TA := ⟨[⟨0, [], 0⟩, ⟨2, [0], 1⟩, ⟨2, [1], 2⟩, ⟨2, [2], 3⟩, ⟨3, [1], 3⟩, ⟨3, [3], 1⟩], [3]⟩

def okOrd (pick : List MacroState → Nat) (A : TA) (Sg : List (Nat × Nat)) : Bool :=
  match complTDOrd pick A Sg 50 with
  | some C => isComplM C A Sg 50 == some true
  | none => false

#guard okOrd pickLifo aND sg3
#guard okOrd pickMix aND sg3
#guard okOrd pickLifo aLeft sg3
#guard okOrd pickMix aLeft sg
#guard okOrd pickLifo aNone sg
#guard okOrd pickLifo aAll sg
-- FIFO is the model `complTD`
#guard (complTDOrd pickFifo aND sg3 50).map (fun C => (C.rules, C.final)) ==
  (complTD aND sg3 50).map (fun C => (C.rules, C.final))
-- another order: another numbering, the same sizes
#guard (runOrd pickFifo aLeft sg 20).map (fun s => s.st.cache) == some [[2], [0], [], [1]]
#guard (runOrd pickLifo aChain sgc 20).map (fun s => s.st.cache) == some [[3], [2], [1], [0], []]
#guard (runOrd pickFifo aChain sgc 20).map (fun s => s.st.cache) == some [[3], [2], [1], [], [0]]
#guard okOrd pickLifo aChain sgc
#guard (complTDOrdS (onRound (fun j => 3 * j + 1)) aChain sgc 20).map (fun C => C.states.length) == some 5
#guard okOrd pickMix aChain sgc
#guard (complTDOrd pickLifo aLeft sg3 50).map (fun C => (C.rules.length, C.states.length)) ==
  (complTDOrd pickFifo aLeft sg3 50).map (fun C => (C.rules.length, C.states.length))

end Ex

end Compl
end Vata
