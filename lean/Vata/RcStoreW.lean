import Vata.RcStore
/-!
# The MTBDD node store with reference counters of a fixed machine width (properties C18 / C20)

`Vata/RcStore.lean` keeps the reference counters of the nodes as unbounded `Nat`s.  In the C++ they are

    typedef uintptr_t RefCntType;                               // src/mtbdd/mtbdd_node.hh l. 91
    inline void IncrementRefCnt()            { ++refcnt_; }                               // l. 798
    inline const RefCntType& DecrementRefCnt() { assert(refcnt_ > 0); return --refcnt_; } // l. 811

i.e. unsigned machine integers: `++` / `--` are arithmetic modulo `2^w` (`w = 64` for `uintptr_t` on the supported
platforms; a narrower `RefCntType` is a one-line change of the `typedef`).  `recursivelyDeleteMTBDDNode`
(`ondriks_mtbdd.hh` l. 262 / 271) releases the node when the *stored* value returned by the decrement is `0`.

This file is the thin variant of the store model with that arithmetic: the same `RcS.Store`, the same operations,
statement for statement, except that

* `incRef` stores `(rc n + 1) % 2^w`                                   (`++refcnt_`),
* `decRef` stores `(rc n + 2^w - 1) % 2^w`                             (`--refcnt_`; `0` wraps to `2^w - 1` – the ghost flag
  `err` records the failed `assert(refcnt_ > 0)` exactly as in `RcS.decRef`),
* every test of a counter (`== 0` in `recursivelyDeleteMTBDDNode`, in the tail of `constructMTBDD`) reads the stored,
  wrapped value.

Everything that does not touch a counter is re-used from `Vata.RcS` (`find`, `allocLeaf`, `spawnLeaf`, `disposeLeaf`,
`unlinkInt`, `kids`, `br`, `Op`, …).  All functions are executable; fuel is passed exactly as in `RcS` (the fuel bounds are
those of `RcS`; under the hypothesis of `C18_width_faithful` the two models coincide, so `err` stays `false`).
-/
namespace Vata.RcSW
open Vata.R (Data)
open Vata.RcS

/-- `++refcnt_` on a `w`-bit unsigned `RefCntType` -/
def incrRc (w : Nat) (rc : Nat → Nat) (n : Nat) : Nat → Nat := fun x => if x = n then (rc n + 1) % 2^w else rc x
/-- `--refcnt_` on a `w`-bit unsigned `RefCntType` (`0` wraps to `2^w - 1`) -/
def decrRc (w : Nat) (rc : Nat → Nat) (n : Nat) : Nat → Nat := fun x => if x = n then (rc n + 2^w - 1) % 2^w else rc x

/-! ## node level -/

/-- `IncrementRefCnt` -/
def incRef (w : Nat) (s : Store) (n : Nat) : Store := { s with rc := incrRc w s.rc n }

/-- `DecrementLeafRefCnt` / `DecrementInternalRefCnt` (with their assertion `refcnt > 0`) -/
def decRef (w : Nat) (s : Store) (n : Nat) : Store :=
  { s with rc := decrRc w s.rc n, err := s.err || decide (s.rc n = 0) || !decide (n ∈ s.ids) }

/-- `CreateInternal` (counter 0), `IncrementRefCnt(low)`, `IncrementRefCnt(high)`, insertion into `internalCache_` -/
def allocInt (w : Nat) (s : Store) (lo hi var : Nat) : Store :=
  incRef w (incRef w { s with ids := s.next :: s.ids, dat := setF s.dat s.next (.int lo hi var),
                              rc := setF s.rc s.next 0, intT := ((lo, hi, var), s.next) :: s.intT,
                              next := s.next + 1 } lo) hi

/-- `spawnInternal` -/
def spawnInternal (w : Nat) (s : Store) (lo hi var : Nat) : Store × Nat :=
  match find (lo, hi, var) s.intT with
  | some n => (s, n)
  | none => (allocInt w s lo hi var, s.next)

/-- `recursivelyDeleteMTBDDNode`: `if (DecrementLeafRefCnt(node) == 0) disposeOfLeafNode(node);` resp.
    `if (DecrementInternalRefCnt(node) == 0) disposeOfInternalNode(node);` – the test reads the wrapped value -/
def release (w : Nat) : Nat → Store → Nat → Store
  | 0, s, _ => { s with err := true }
  | fuel+1, s, n =>
    let s0 := decRef w s n
    if s0.rc n = 0 then
      match s.dat n with
      | .leaf v => disposeLeaf s0 n v
      | .int lo hi var => release w fuel (release w fuel (unlinkInt s0 n (lo, hi, var)) lo) hi
    else s0

/-! ## handle level -/

/-- a new `OndriksMTBDD` object `h` whose `root_` is `r`, after `IncrementRefCnt(r)` -/
def addHandle (w : Nat) (s : Store) (h r : Nat) : Store := { incRef w s r with hs := (h, r) :: s.hs }

/-- copy constructor `OndriksMTBDD dst(src)`; skipped unless `src` is live and `dst` is not -/
def copy (w : Nat) (s : Store) (src dst : Nat) : Store :=
  match find src s.hs, find dst s.hs with
  | some r, none => addHandle w s dst r
  | _, _ => s

/-- destructor (`deleteMTBDD`); skipped unless `h` is live -/
def destroy (w : Nat) (s : Store) (h : Nat) : Store :=
  match find h s.hs with
  | none => s
  | some r => release w (s.ids.length + 1) { s with hs := s.hs.erase (h, r) } r

/-- `dst = src` (`operator=`) -/
def assign (w : Nat) (s : Store) (src dst : Nat) : Store :=
  if src = dst then s else
  match find src s.hs, find dst s.hs with
  | some _, some _ => copy w (destroy w s dst) src dst
  | _, _ => s

/-- the loop of `constructMTBDD` -/
def buildCube (w : Nat) (sink : Nat) : Store → Nat → Nat → List (Option Bool) → Store × Nat
  | s, proc, _, [] => (s, proc)
  | s, proc, i, none :: as => buildCube w sink s proc (i+1) as
  | s, proc, i, some true :: as =>
    let r := spawnInternal w s sink proc i
    buildCube w sink r.1 r.2 (i+1) as
  | s, proc, i, some false :: as =>
    let r := spawnInternal w s proc sink i
    buildCube w sink r.1 r.2 (i+1) as

/-- `OndriksMTBDD h(asgn, v, d)`; the test `GetRefCnt(sink) == 0` of the tail reads the wrapped value -/
def construct (w : Nat) (s : Store) (h : Nat) (asgn : List (Option Bool)) (v d : Nat) : Store :=
  match find h s.hs with
  | some _ => s
  | none =>
    let r1 := spawnLeaf s v
    if v = d then addHandle w r1.1 h r1.2
    else
      let r2 := spawnLeaf r1.1 d
      let r3 := buildCube w r2.2 r2.1 r1.2 0 asgn
      let s4 := if r3.2 = r1.2 then (if r3.1.rc r2.2 = 0 then disposeLeaf r3.1 r2.2 d else r3.1) else r3.1
      addHandle w s4 h r3.2

/-- `Apply2Functor::recDescend` without the memo table -/
def recDescend (w : Nat) (f : Nat → Nat → Nat) : Nat → Store → Nat → Nat → Store × Nat
  | 0, s, n1, _ => ({ s with err := true }, n1)
  | fuel+1, s, n1, n2 =>
    let d1 := s.dat n1
    let d2 := s.dat n2
    let b1 := br d1 d2
    let b2 := br d2 d1
    if b1 = false ∧ b2 = false then spawnLeaf s (f (valOf d1) (valOf d2))
    else
      let var := if b2 then varOf d2 else varOf d1
      let k1 := kids d1 b1 n1
      let k2 := kids d2 b2 n2
      let r1 := recDescend w f fuel s k1.1 k2.1
      let r2 := recDescend w f fuel r1.1 k1.2 k2.2
      if r1.2 = r2.2 then (r2.1, r1.2) else spawnInternal w r2.1 r1.2 r2.2 var

/-- `OndriksMTBDD dst = apply(a, b)` -/
def apply2 (w : Nat) (f : Nat → Nat → Nat) (s : Store) (a b dst : Nat) : Store :=
  match find a s.hs, find b s.hs, find dst s.hs with
  | some ra, some rb, none =>
    let r := recDescend w f (ra + rb + 1) s ra rb
    addHandle w r.1 dst r.2
  | _, _, _ => s

def stepF (w : Nat) (f : Nat → Nat → Nat) (s : Store) : Op → Store
  | .construct h asgn v d => construct w s h asgn v d
  | .copy src dst => copy w s src dst
  | .assign src dst => assign w s src dst
  | .apply a b dst => apply2 w f s a b dst
  | .destroy h => destroy w s h

/-- the store with `w`-bit counters after the history `ops` (from process start) -/
def runF (w : Nat) (f : Nat → Nat → Nat) (ops : List Op) : Store := ops.foldl (stepF w f) empty

/-- with the leaf operation of `RcS.step` (for a driver) -/
def step (w : Nat) : Store → Op → Store := stepF w applyOp
def run (w : Nat) (ops : List Op) : Store := ops.foldl (step w) empty

/-! ## the bound on a history -/

/-- every allocated node of `s` has fewer than `2^w` referrers (`rc` = number of referrers, `C18_refcount_invariant`) -/
def bounded (w : Nat) (s : Store) : Bool := s.ids.all (fun n => decide (s.rc n < 2^w))

/-- `histBounded w f ops`: in the (unbounded) store, before and after every operation of the history, every allocated
    node has fewer than `2^w` referrers.  Executable. -/
def histBoundedFrom (w : Nat) (f : Nat → Nat → Nat) : Store → List Op → Bool
  | s, [] => bounded w s
  | s, op :: ops => bounded w s && histBoundedFrom w f (RcS.stepF f s op) ops

def histBounded (w : Nat) (f : Nat → Nat → Nat) (ops : List Op) : Bool := histBoundedFrom w f empty ops

/-- the largest number of referrers of an allocated node of `s` -/
def maxRefsS (s : Store) : Nat := s.ids.foldl (fun m n => max m (s.rc n)) 0

/-- the largest number of simultaneous referrers that any node has between two operations of the history -/
def maxRefsFrom (f : Nat → Nat → Nat) : Store → List Op → Nat
  | s, [] => maxRefsS s
  | s, op :: ops => max (maxRefsS s) (maxRefsFrom f (RcS.stepF f s op) ops)

def maxRefs (f : Nat → Nat → Nat) (ops : List Op) : Nat := maxRefsFrom f empty ops

/-! ## the history of the seeded change -/

/-- `construct 0 [] v v` (a constant: one leaf), then the copies `1 … k` of handle `0` -/
def copies : Nat → List Op
  | 0 => []
  | k+1 => copies k ++ [.copy 0 (k+1)]

/-- "construct; copy × `2^w`; destroy the original" -/
def narrowHist (w v : Nat) : List Op := [.construct 0 [] v v] ++ copies (2^w) ++ [.destroy 0]

end Vata.RcSW
